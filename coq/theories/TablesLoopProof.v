(* TablesLoopProof.v — the circular-reference detector (bufr_check_loop_tableD) and version selection (property C12). *)
From Coq Require Import List ZArith Arith Bool Lia Relations ZifyBool.
From V Require Import Fm94.
From V Require Import Tables TablesProof.
Import ListNotations.
Local Open Scope Z_scope.

Section LoopFacts.
  Variable fetch : Z -> option dent.

  (* a descriptor expands to a finite tree: every sequence it reaches is defined, none reaches itself *)
  Inductive good : Z -> Prop :=
  | good_leaf d : descF d <> 3 -> good d
  | good_seq d e : descF d = 3 -> fetch d = Some e -> (forall x, In x (snd e) -> good x) -> good d.

  Definition reach (a b : Z) : Prop := descF a = 3 /\ exists e, fetch a = Some e /\ In b (snd e).
  Definition reachs : Z -> Z -> Prop := clos_refl_trans_1n Z reach.
  Definition reachp (a b : Z) : Prop := exists x, reach a x /\ reachs x b.

  Lemma reachs_step_r a b c : reachs a b -> reach b c -> reachs a c.
  Proof.
    induction 1 as [a|a x b H1 H2 IH]; intros H.
    - econstructor 2; [exact H|constructor 1].
    - econstructor 2; [exact H1|apply IH; exact H].
  Qed.
  Lemma reachs_trans a b c : reachs a b -> reachs b c -> reachs a c.
  Proof. induction 1 as [a|a x b H1 H2 IH]; intros H; [exact H|]. econstructor 2; [exact H1|apply IH; exact H]. Qed.

  Lemma good_child d x : good d -> reach d x -> good x.
  Proof.
    intros G (F3 & e & Fe & Hx). inversion G as [? Hn|? e' _ Fe' Hc]; subst; [congruence|].
    rewrite Fe in Fe'. inversion Fe'; subst. apply Hc. exact Hx.
  Qed.
  Lemma good_reachs d x : good d -> reachs d x -> good x.
  Proof. intros G R. induction R as [a|a y b H1 H2 IH]; [exact G|]. apply IH. eapply good_child; eassumption. Qed.

  (* a finite expansion tree does not contain itself *)
  Lemma good_no_cycle d : good d -> ~ reachp d d.
  Proof.
    induction 1 as [d Hn|d e F3 Fe Hc IH]; intros (x & (F3' & e' & Fe' & Hx) & R).
    - congruence.
    - rewrite Fe in Fe'. inversion Fe'; subst e'. apply (IH x Hx).
      (* x ->* d -> x *)
      inversion R as [|y z H1 H2]; subst.
      + exists d. split; [split; [exact F3|exists e; auto]|constructor 1].
      + exists y. split; [exact H1|]. eapply reachs_step_r; [exact H2|]. split; [exact F3|exists e; auto].
  Qed.

  Theorem good_acyclic d x : good d -> reachs d x -> ~ reachp x x /\ (descF x = 3 -> fetch x <> None).
  Proof.
    intros G R. pose proof (good_reachs d x G R) as Gx. split; [apply good_no_cycle; exact Gx|].
    intros F3. inversion Gx; subst; congruence.
  Qed.

  (* ---------------------------------------------------------------- soundness: "no error" means a finite tree *)
  Lemma children_sound (chk : Z -> list Z -> Z * list Z) :
    (forall x p rc p', chk x p = (rc, p') -> 0 <= rc -> p' = p /\ good x) ->
    forall l p rc p', check_children chk l p = (rc, p') -> 0 <= rc -> p' = removelast p /\ forall x, In x l -> good x.
  Proof.
    intros H. induction l as [|x r IH]; intros p rc p' E Hrc; cbn [check_children] in E.
    - inversion E; subst. split; [reflexivity|intros x []].
    - destruct (chk x p) as [rc1 p1] eqn:E1. destruct (rc1 <? 0) eqn:C.
      + inversion E; subst. destruct (rc1 =? -3); lia.
      + destruct (H x p rc1 p1 E1 ltac:(lia)) as (-> & Gx). destruct (IH p rc p' E Hrc) as (-> & Gr).
        split; [reflexivity|]. intros y [<-|Hy]; [exact Gx|apply Gr; exact Hy].
  Qed.

  Lemma existsb_eqb_in d l : existsb (Z.eqb d) l = true <-> In d l.
  Proof.
    rewrite existsb_exists. split; [intros (x & Hx & E); assert (d = x) by lia; subst; exact Hx|intros H; exists d; split; [exact H|lia]].
  Qed.

  Lemma check_desc_sound : forall fuel d path rc p,
    check_desc fetch fuel d path = (rc, p) -> 0 <= rc -> p = path /\ good d.
  Proof.
    induction fuel as [|f IH]; intros d path rc p E Hrc; cbn [check_desc] in E; [inversion E; subst; lia|].
    destruct (descF d =? 3) eqn:F3.
    - destruct (existsb (Z.eqb d) path); [inversion E; subst; lia|].
      destruct (fetch d) as [e|] eqn:Fe; [|inversion E; subst; lia].
      destruct (children_sound (check_desc fetch f) (IH) (snd e) (path ++ [d]) rc p E Hrc) as (-> & Gc).
      split; [apply removelast_last|]. eapply good_seq; [lia|exact Fe|exact Gc].
    - inversion E; subst. split; [reflexivity|]. apply good_leaf. lia.
  Qed.

  (* ---------------------------------------------------------------- the path stays a duplicate-free list of defined sequences *)
  Variable K : list Z.
  Hypothesis HK : forall d e, fetch d = Some e -> In d K.

  Definition path_ok (p : list Z) : Prop := NoDup p /\ incl p K.

  Lemma path_ok_length p : path_ok p -> (length p <= length K)%nat.
  Proof. intros (ND & I). apply NoDup_incl_length; assumption. Qed.

  Lemma path_ok_snoc p d e : path_ok p -> ~ In d p -> fetch d = Some e -> path_ok (p ++ [d]).
  Proof.
    intros (ND & I) Hn Fe. split.
    - eapply Permutation.Permutation_NoDup; [apply Permutation.Permutation_cons_append|]. constructor; assumption.
    - intros x Hx. apply in_app_or in Hx. destruct Hx as [Hx|[<-|[]]]; [apply I; exact Hx|eapply HK; exact Fe].
  Qed.

  Lemma children_fuel (chk : Z -> list Z -> Z * list Z) (n : nat) :
    (forall x p, path_ok p -> (n <= length p)%nat -> fst (chk x p) <> -3 /\ path_ok (snd (chk x p)) /\ (0 <= fst (chk x p) -> snd (chk x p) = p)) ->
    forall l p, path_ok p -> (n <= length p)%nat ->
    fst (check_children chk l p) <> -3 /\ (fst (check_children chk l p) < 0 -> path_ok (snd (check_children chk l p))).
  Proof.
    intros H. induction l as [|x r IH]; intros p P Hn; cbn [check_children].
    - cbn [fst snd]. split; lia.
    - destruct (H x p P Hn) as (H1 & H2 & H3). destruct (chk x p) as [rc1 p1]. cbn [fst snd] in *.
      destruct (rc1 <? 0) eqn:C; cbn [fst snd].
      + split; [destruct (rc1 =? -3) eqn:C3; lia|intros _; exact H2].
      + rewrite (H3 ltac:(lia)) in *. apply IH; assumption.
  Qed.

  Lemma check_desc_fuel : forall fuel d path,
    path_ok path -> (length K < fuel + length path)%nat ->
    fst (check_desc fetch fuel d path) <> -3 /\ path_ok (snd (check_desc fetch fuel d path)) /\
    (0 <= fst (check_desc fetch fuel d path) -> snd (check_desc fetch fuel d path) = path).
  Proof.
    induction fuel as [|f IH]; intros d path P Hf.
    - pose proof (path_ok_length path P). lia.
    - cbn [check_desc]. destruct (descF d =? 3) eqn:F3; [|cbn [fst snd]; repeat split; try lia; exact P || apply P].
      destruct (existsb (Z.eqb d) path) eqn:Ein; [cbn [fst snd]; repeat split; try lia; apply P|].
      destruct (fetch d) as [e|] eqn:Fe; [|cbn [fst snd]; repeat split; try lia; apply P].
      assert (Hn : ~ In d path) by (intros HI; apply existsb_eqb_in in HI; congruence).
      assert (P' : path_ok (path ++ [d])) by (eapply path_ok_snoc; eassumption).
      destruct (children_fuel (check_desc fetch f) (S (length path))) with (l := snd e) (p := path ++ [d]) as (C1 & C2).
      + intros x p Pp Hl. apply IH; [exact Pp|lia].
      + exact P'.
      + rewrite app_length. cbn [length]. lia.
      + split; [exact C1|]. split.
        * destruct (check_children (check_desc fetch f) (snd e) (path ++ [d])) as [rc p] eqn:E. cbn [fst snd] in *.
          destruct (Z.ltb_spec rc 0) as [Hlt|Hge]; [apply C2; exact Hlt|].
          destruct (children_sound (check_desc fetch f) (check_desc_sound f) _ _ _ _ E Hge) as (-> & _).
          rewrite removelast_last. exact P.
        * intros Hge. destruct (check_children (check_desc fetch f) (snd e) (path ++ [d])) as [rc p] eqn:E. cbn [fst snd] in *.
          destruct (children_sound (check_desc fetch f) (check_desc_sound f) _ _ _ _ E Hge) as (-> & _).
          apply removelast_last.
  Qed.

  (* ---------------------------------------------------------------- completeness: a finite tree is accepted *)
  Lemma children_accept (chk : Z -> list Z -> Z * list Z) :
    forall l p, (forall x, In x l -> chk x p = (1, p)) -> check_children chk l p = (1, removelast p).
  Proof.
    induction l as [|x r IH]; intros p H; cbn [check_children]; [reflexivity|].
    rewrite (H x (or_introl eq_refl)). cbn. apply IH. intros y Hy. apply H. right. exact Hy.
  Qed.

  Lemma good_accept : forall fuel d path,
    good d -> (forall x, reachs d x -> ~ In x path) -> path_ok path -> (length K < fuel + length path)%nat ->
    check_desc fetch fuel d path = (1, path).
  Proof.
    induction fuel as [|f IH]; intros d path G Hdis P Hf.
    - pose proof (path_ok_length path P). lia.
    - cbn [check_desc]. destruct (descF d =? 3) eqn:F3; [|reflexivity].
      assert (Hn : ~ In d path) by (apply Hdis; constructor 1).
      destruct (existsb (Z.eqb d) path) eqn:Ein; [apply existsb_eqb_in in Ein; tauto|].
      inversion G as [? Hnn|? e _ Fe Hc]; subst; [lia|]. rewrite Fe.
      rewrite children_accept; [rewrite removelast_last; reflexivity|].
      intros x Hx. apply IH.
      + apply Hc. exact Hx.
      + intros y Ry Hy. apply in_app_or in Hy. destruct Hy as [Hy|[<-|[]]].
        * apply (Hdis y); [|exact Hy]. apply (Relation_Operators.rt1n_trans Z reach d x y); [|exact Ry]. split; [lia|]. exists e. split; [exact Fe|exact Hx].
        * apply (good_no_cycle d G). exists x. split; [|exact Ry]. split; [lia|]. exists e. split; [exact Fe|exact Hx].
      + eapply path_ok_snoc; eassumption.
      + rewrite app_length. cbn [length]. lia.
  Qed.

  (* ---------------------------------------------------------------- the loops of bufr_check_loop_tableD *)
  Lemma check_seq_zero : forall fuel l path err,
    err <= 0 -> snd (check_seq fetch fuel l path err) = 0 ->
    err = 0 /\ fst (check_seq fetch fuel l path err) = path /\ forall x, In x l -> good x.
  Proof.
    induction l as [|x r IH]; intros path err He H0; cbn [check_seq] in *; [cbn [snd fst] in *; repeat split; auto; intros x []|].
    destruct (check_desc fetch fuel x path) as [rc p1] eqn:E.
    set (err' := if (rc <? 0) && (rc <? err) then rc else err) in *.
    assert (He' : err' <= 0) by (unfold err'; destruct ((rc <? 0) && (rc <? err)) eqn:C; lia).
    destruct (IH p1 err' He' H0) as (E0 & Ep & Gr).
    assert (0 <= rc /\ err = 0) as (Hrc & ->).
    { unfold err' in E0. destruct ((rc <? 0) && (rc <? err)) eqn:C; lia. }
    destruct (check_desc_sound fuel x path rc p1 E Hrc) as (-> & Gx).
    split; [reflexivity|]. split; [exact Ep|]. intros y [<-|Hy]; [exact Gx|apply Gr; exact Hy].
  Qed.

  Lemma check_entries_zero : forall fuel t path err,
    err <= 0 -> snd (check_entries fetch fuel t path err) = 0 ->
    err = 0 /\ forall e x, In e t -> In x (snd e) -> good x.
  Proof.
    induction t as [|e r IH]; intros path err He H0; cbn [check_entries] in *; [cbn [snd] in *; split; [lia|intros ? ? []]|].
    destruct (check_seq fetch fuel (snd e) path err) as [p1 err1] eqn:E.
    assert (He1 : err1 <= 0).
    { clear -E He. revert path err E He. induction (snd e) as [|x l IHl]; intros path err E He; cbn [check_seq] in E; [inversion E; subst; exact He|].
      destruct (check_desc fetch fuel x path) as [rc p]. eapply IHl; [exact E|]. destruct ((rc <? 0) && (rc <? err)) eqn:C; lia. }
    destruct (IH p1 err1 He1 H0) as (-> & Gr).
    pose proof (check_seq_zero fuel (snd e) path err He) as S. rewrite E in S. cbn [fst snd] in S.
    destruct (S eq_refl) as (-> & _ & Ge).
    split; [reflexivity|]. intros e' x [<-|He'] Hx; [apply Ge; exact Hx|eapply Gr; eassumption].
  Qed.

  Lemma check_seq_good : forall fuel l,
    (length K < fuel)%nat -> (forall x, In x l -> good x) -> check_seq fetch fuel l [] 0 = ([], 0).
  Proof.
    induction l as [|x r IH]; intros Hf G; cbn [check_seq]; [reflexivity|].
    rewrite good_accept; [|apply G; left; reflexivity|intros ? _ []|split; [constructor|intros ? []]|cbn [length]; lia].
    cbn. apply IH; [exact Hf|]. intros y Hy. apply G. right. exact Hy.
  Qed.

  Lemma check_entries_good : forall fuel t,
    (length K < fuel)%nat -> (forall e x, In e t -> In x (snd e) -> good x) -> check_entries fetch fuel t [] 0 = ([], 0).
  Proof.
    induction t as [|e r IH]; intros Hf G; cbn [check_entries]; [reflexivity|].
    rewrite check_seq_good; [|exact Hf|intros x Hx; eapply G; [left; reflexivity|exact Hx]].
    apply IH; [exact Hf|]. intros e' x He Hx. eapply G; [right; exact He|exact Hx].
  Qed.

  (* ---------------------------------------------------------------- a finite table without cycles and dangling references is good *)
  Lemma acyclic_good_aux : forall n d path,
    (length K - length path <= n)%nat -> path_ok path ->
    (forall a, In a path -> reachp a d) ->
    (forall x, reachs d x -> ~ reachp x x) -> (forall x, reachs d x -> descF x = 3 -> fetch x <> None) ->
    good d.
  Proof.
    induction n as [|n IH]; intros d path Hn P Hanc Hac Hres.
    - destruct (Z.eq_dec (descF d) 3) as [F3|F3]; [|apply good_leaf; exact F3].
      destruct (fetch d) as [e|] eqn:Fe; [|exfalso; apply (Hres d); [constructor 1|exact F3|exact Fe]].
      assert (Hnin : ~ In d path) by (intros HI; apply (Hac d); [constructor 1|apply Hanc; exact HI]).
      pose proof (path_ok_length _ (path_ok_snoc path d e P Hnin Fe)) as L. rewrite app_length in L. cbn [length] in L. lia.
    - destruct (Z.eq_dec (descF d) 3) as [F3|F3]; [|apply good_leaf; exact F3].
      destruct (fetch d) as [e|] eqn:Fe; [|exfalso; apply (Hres d); [constructor 1|exact F3|exact Fe]].
      assert (Hnin : ~ In d path) by (intros HI; apply (Hac d); [constructor 1|apply Hanc; exact HI]).
      eapply good_seq; [exact F3|exact Fe|]. intros x Hx.
      assert (Rdx : reach d x) by (split; [exact F3|exists e; auto]).
      apply (IH x (path ++ [d])).
      + rewrite app_length. cbn [length]. lia.
      + eapply path_ok_snoc; eassumption.
      + intros a Ha. apply in_app_or in Ha. destruct Ha as [Ha|[<-|[]]].
        * destruct (Hanc a Ha) as (y & R1 & R2). exists y. split; [exact R1|eapply reachs_step_r; eassumption].
        * exists x. split; [exact Rdx|constructor 1].
      + intros y Ry. apply Hac. econstructor 2; eassumption.
      + intros y Ry. apply Hres. econstructor 2; eassumption.
  Qed.

  Theorem acyclic_good d :
    (forall x, reachs d x -> ~ reachp x x) -> (forall x, reachs d x -> descF x = 3 -> fetch x <> None) -> good d.
  Proof.
    intros Hac Hres. apply (acyclic_good_aux (length K) d []); [cbn; lia|split; [constructor|intros ? []]|intros ? []|exact Hac|exact Hres].
  Qed.
End LoopFacts.

(* ================================================================== instantiated on a BUFR_Tables object *)
Definition keysD (s : tstate) : list Z :=
  map fst (match lD s with Some l => l | None => [] end) ++ map fst (match mD s with Some l => l | None => [] end).

Lemma nth_error_in_keys (l : list dent) i e : nth_error l i = Some e -> In (fst e) (map fst l).
Proof. intros H. apply in_map. eapply nth_error_In. exact H. Qed.

Lemma searchD_key t d e : searchD t d = Some e -> fst e = d /\ In d (map fst (match t with Some l => l | None => [] end)).
Proof.
  destruct t as [l|]; cbn [searchD]; [|discriminate].
  destruct (bsearch (dkeys l) d) as [i| |] eqn:B; try discriminate. intros H.
  unfold bsearch, bsearch_f in B. apply bs_found in B.
  assert (K : nth i (dkeys l) None = Some d) by exact (proj2 B).
  assert (fst e = d).
  { clear B. revert i H K. unfold dkeys. induction l as [|x t IH]; intros [|i]; cbn [nth_error map nth]; try discriminate.
    - intros H K. inversion H; subst. inversion K. reflexivity.
    - apply IH. }
  subst d. split; [reflexivity|]. eapply nth_error_in_keys. exact H.
Qed.

Lemma fetchD_keys s d e : fetchD s d = Some e -> In d (keysD s).
Proof.
  unfold fetchD, keysD. destruct (descF d =? 3); [|discriminate].
  destruct (searchD (lD s) d) as [e1|] eqn:E1.
  - intros _. apply in_or_app. left. exact (proj2 (searchD_key _ _ _ E1)).
  - intros E2. apply in_or_app. right. exact (proj2 (searchD_key _ _ _ E2)).
Qed.

Lemma loop_fuel_enough s : (length (keysD s) < loop_fuel s)%nat.
Proof.
  unfold keysD, loop_fuel, tcount. rewrite app_length, !map_length. destruct (lD s), (mD s); unfold dent in *; cbn [length]; lia.
Qed.

(* cyclic_detected: the load reports no error exactly when every member of the loaded table expands to a finite tree *)
Theorem check_loop_zero_iff s t :
  check_loop s t = 0 <-> (forall e x, In e t -> In x (snd e) -> good (fetchD s) x).
Proof.
  unfold check_loop. split.
  - intros H. exact (proj2 (check_entries_zero (fetchD s) (keysD s) (fetchD_keys s) (loop_fuel s) t [] 0 ltac:(lia) H)).
  - intros G. rewrite (check_entries_good (fetchD s) (keysD s) (fetchD_keys s) (loop_fuel s) t (loop_fuel_enough s) G). reflexivity.
Qed.

(* the recursion of the C code needs no counter: the model's fuel is never exhausted *)
Lemma check_seq_fuel s : forall l path err,
  path_ok (keysD s) path -> err <> -3 ->
  path_ok (keysD s) (fst (check_seq (fetchD s) (loop_fuel s) l path err)) /\ snd (check_seq (fetchD s) (loop_fuel s) l path err) <> -3.
Proof.
  induction l as [|x r IH]; intros path err P He; cbn [check_seq]; [cbn [fst snd]; split; assumption|].
  pose proof (check_desc_fuel (fetchD s) (keysD s) (fetchD_keys s) (loop_fuel s) x path P) as H.
  destruct H as (H1 & H2 & _); [pose proof (loop_fuel_enough s); lia|].
  destruct (check_desc (fetchD s) (loop_fuel s) x path) as [rc p1]. cbn [fst snd] in *.
  apply IH; [exact H2|]. destruct ((rc <? 0) && (rc <? err)); assumption.
Qed.

Theorem check_loop_fuel s t : check_loop s t <> -3.
Proof.
  unfold check_loop.
  assert (G : forall t path err, path_ok (keysD s) path -> err <> -3 ->
              snd (check_entries (fetchD s) (loop_fuel s) t path err) <> -3).
  { clear t. induction t as [|e r IH]; intros path err P He; cbn [check_entries]; [exact He|].
    destruct (check_seq_fuel s (snd e) path err P He) as (P1 & E1).
    destruct (check_seq (fetchD s) (loop_fuel s) (snd e) path err) as [p1 err1]. cbn [fst snd] in *. apply IH; assumption. }
  apply G; [split; [constructor|intros ? []]|lia].
Qed.

(* ================================================================== bufr_use_tables_list *)
Lemma use_list_exact : forall vs i v btn ltn,
  In v vs ->
  exists k, use_list_from i vs v btn ltn = Some (i + k)%nat /\ nth_error vs k = Some v /\
            forall j, (j < k)%nat -> nth_error vs j <> Some v.
Proof.
  induction vs as [|x r IH]; intros i v btn ltn HI; [destruct HI|]. cbn [use_list_from].
  destruct (x =? v) eqn:E.
  - exists 0%nat. assert (x = v) by lia. subst. split; [f_equal; lia|]. split; [reflexivity|]. intros j Hj. lia.
  - destruct HI as [HI|HI]; [lia|].
    assert (N : nth_error (x :: r) 0 <> Some v) by (cbn; intros H; inversion H; lia).
    destruct (v <? x).
    + destruct (IH (S i) v (match btn with None => Some (i, x) | Some (_, bv) => if bv <? x then Some (i, x) else btn end) ltn HI) as (k & K1 & K2 & K3).
      exists (S k). split; [rewrite K1; f_equal; lia|]. split; [exact K2|]. intros [|j] Hj; [exact N|cbn; apply K3; lia].
    + destruct (IH (S i) v btn (match ltn with None => Some (i, x) | Some (_, lv) => if lv <? x then Some (i, x) else ltn end) HI) as (k & K1 & K2 & K3).
      exists (S k). split; [rewrite K1; f_equal; lia|]. split; [exact K2|]. intros [|j] Hj; [exact N|cbn; apply K3; lia].
Qed.

(* version_exact: a version that is in the list is selected (the first object with that version) *)
Theorem version_exact vs v :
  In v vs ->
  exists k, use_tables_list vs v = Some k /\ nth_error vs k = Some v /\ forall j, (j < k)%nat -> nth_error vs j <> Some v.
Proof. intros H. destruct (use_list_exact vs 0 v None None H) as (k & K1 & K2 & K3). exists k. auto. Qed.

Lemma use_list_none : forall vs i v btn ltn,
  use_list_from i vs v btn ltn = None <-> vs = [] /\ btn = None /\ ltn = None.
Proof.
  induction vs as [|x r IH]; intros i v btn ltn; cbn [use_list_from].
  - destruct btn as [[? ?]|], ltn as [[? ?]|]; cbn; split; try discriminate; try tauto; intros (_ & H1 & H2); discriminate.
  - split; [|intros (H & _); discriminate]. destruct (x =? v); [discriminate|].
    destruct (v <? x); intros H; apply IH in H; destruct H as (_ & H1 & H2).
    + destruct btn as [[? bv]|]; [destruct (bv <? x)|]; discriminate.
    + destruct ltn as [[? lv]|]; [destruct (lv <? x)|]; discriminate.
Qed.

Theorem version_some vs v : use_tables_list vs v = None <-> vs = [].
Proof. unfold use_tables_list. rewrite use_list_none. tauto. Qed.

(* cyclic_detected at full strength: the load of a Table D returns 0 exactly when no member of the loaded table leads
   (through the tables of the object, local before master) to a sequence that reaches itself or to an undefined one *)
Theorem check_loop_zero_cycles s t :
  check_loop s t = 0 <->
  (forall e x, In e t -> In x (snd e) ->
     (forall y, reachs (fetchD s) x y -> ~ reachp (fetchD s) y y) /\
     (forall y, reachs (fetchD s) x y -> descF y = 3 -> fetchD s y <> None)).
Proof.
  rewrite check_loop_zero_iff. split; intros H e x He Hx.
  - specialize (H e x He Hx). split; intros y Ry; apply (good_acyclic (fetchD s) x y H Ry).
  - destruct (H e x He Hx) as (H1 & H2). apply (acyclic_good (fetchD s) (keysD s) (fetchD_keys s)); assumption.
Qed.

(* a circular table is reported: the return code is negative *)
Theorem cyclic_reported s t e x y :
  In e t -> In x (snd e) -> reachs (fetchD s) x y -> reachp (fetchD s) y y -> check_loop s t < 0.
Proof.
  intros He Hx Ry Cy.
  assert (N : check_loop s t <> 0).
  { intros H0. pose proof (proj1 (check_loop_zero_cycles s t) H0) as H0'. destruct (H0' e x He Hx) as (H1 & _). exact (H1 y Ry Cy). }
  assert (L : check_loop s t <= 0).
  { unfold check_loop.
    assert (G : forall t path err, err <= 0 -> snd (check_entries (fetchD s) (loop_fuel s) t path err) <= 0).
    { clear. induction t as [|e r IH]; intros path err He; cbn [check_entries]; [exact He|].
      assert (S : forall l path err, err <= 0 -> snd (check_seq (fetchD s) (loop_fuel s) l path err) <= 0).
      { clear. induction l as [|x r IH]; intros path err He; cbn [check_seq]; [exact He|].
        destruct (check_desc (fetchD s) (loop_fuel s) x path) as [rc p1]. apply IH. destruct ((rc <? 0) && (rc <? err)) eqn:C; lia. }
      specialize (S (snd e) path err He). destruct (check_seq (fetchD s) (loop_fuel s) (snd e) path err) as [p1 err1]. apply IH. exact S. }
    apply G. lia. }
  lia.
Qed.
