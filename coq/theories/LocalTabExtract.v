(* part 2: strings; part 3: extract over the fields store writes *)
From Coq Require Import List ZArith NArith Arith Lia Bool ZifyBool.
From V Require Import Walk BitIO Fm94.
From V Require Import LocalTab LocalTabFmt.
Import ListNotations.
Local Open Scope Z_scope.
Ltac Zify.zify_post_hook ::= Z.to_euclidean_division_equations.

Definition printable (c:N) : Prop := (32 <= c <= 126)%N.
Definition text (s:str) : Prop := Forall printable s.

Lemma cstr_id s : Forall (fun c => c <> 0%N) s -> cstr s = s.
Proof.
  induction s as [|c t IH]; intro H; cbn [cstr]; [reflexivity|].
  inversion H as [|? ? Hc Ht]; subst. replace (c =? 0)%N with false by lia. rewrite IH by assumption. reflexivity.
Qed.
Lemma text_nonzero s : text s -> Forall (fun c => c <> 0%N) s.
Proof. apply Forall_impl. unfold printable. intros. lia. Qed.
Lemma sval_of_id s : text s -> sval_of s = s.
Proof.
  intro H. unfold sval_of. rewrite cstr_id by (apply text_nonzero; exact H).
  rewrite Nat.sub_diag. cbn [repeat]. apply app_nil_r.
Qed.

Lemma text_blanks k : text (repeat 32%N k).
Proof. apply Forall_forall. intros c Hc. apply repeat_spec in Hc. subst. unfold printable. lia. Qed.
Lemma text_app a b : text a -> text b -> text (a ++ b).
Proof. intros. apply Forall_app. split; assumption. Qed.
Lemma text_firstn_skipn n s : text s -> text (firstn n s) /\ text (skipn n s).
Proof. intro H. unfold text in *. rewrite <- (firstn_skipn n s) in H. apply Forall_app in H. exact H. Qed.
Lemma text_firstn n s : text s -> text (firstn n s).
Proof. intro H. apply (text_firstn_skipn n s H). Qed.
Lemma text_skipn n s : text s -> text (skipn n s).
Proof. intro H. apply (text_firstn_skipn n s H). Qed.
Lemma text_digits s : Forall digit_char s -> text s.
Proof. apply Forall_impl. unfold digit_char, printable. intros. lia. Qed.
Lemma text_blank_or_digit s : Forall (fun c => c = 32%N \/ digit_char c) s -> text s.
Proof. apply Forall_impl. unfold digit_char, printable. intros. lia. Qed.

Lemma fill_line_length len s : length (fill_line len s) = len.
Proof. unfold fill_line. rewrite app_length, repeat_length, firstn_length. lia. Qed.
Lemma fill_line_short len s : (length s <= len)%nat -> fill_line len s = s ++ repeat 32%N (len - length s).
Proof. intro H. unfold fill_line. rewrite firstn_all2 by exact H. reflexivity. Qed.
Lemma fill_line_exact len s : length s = len -> fill_line len s = s.
Proof. intro H. rewrite fill_line_short by lia. rewrite H, Nat.sub_diag. apply app_nil_r. Qed.
Lemma text_fill_line len s : text s -> text (fill_line len s).
Proof. intro H. unfold fill_line. apply text_app; [apply text_firstn; exact H|apply text_blanks]. Qed.

Lemma repeat_app_plus {A} (x:A) a b : repeat x a ++ repeat x b = repeat x (a + b).
Proof. symmetry. apply repeat_app. Qed.

(* the two lines put together again are the text followed by blanks *)
Lemma split_concat l1 l2 s : (length s <= l1 + l2)%nat ->
  fill_line l1 s ++ fill_line l2 (skipn l1 s) = s ++ repeat 32%N (l1 + l2 - length s).
Proof.
  intro H. destruct (Nat.le_gt_cases (length s) l1) as [Hs|Hs].
  - rewrite (fill_line_short l1 s Hs). rewrite skipn_all2 by exact Hs.
    unfold fill_line. cbn [firstn length app]. rewrite firstn_nil. cbn [app length].
    rewrite <- app_assoc, repeat_app_plus. do 2 f_equal. lia.
  - unfold fill_line at 1. rewrite firstn_length, Nat.min_l by lia. rewrite Nat.sub_diag. cbn [repeat]. rewrite app_nil_r.
    rewrite fill_line_short by (rewrite skipn_length; lia).
    rewrite app_assoc, firstn_skipn, skipn_length. do 2 f_equal. lia.
Qed.

Lemma rev_repeat {A} (x:A) n : rev (repeat x n) = repeat x n.
Proof.
  induction n as [|n IH]; [reflexivity|]. cbn [repeat rev]. rewrite IH.
  clear IH. induction n as [|n IH]; [reflexivity|]. cbn [repeat app]. rewrite IH. reflexivity.
Qed.
Lemma rtrim_app_blanks s k : rtrim (s ++ repeat 32%N k) = rtrim s.
Proof. unfold rtrim. rewrite rev_app_distr, rev_repeat, skip_ws_blanks. reflexivity. Qed.

(* ------------------------------------------------------------------ well-formed tables *)
Definition wf_b (e:lb_entry) : Prop :=
  0 <= lb_desc e < 1000000 /\
  text (lb_name e) /\ (length (lb_name e) <= 64)%nat /\ rtrim (lb_name e) = lb_name e /\
  text (lb_unit e) /\ (length (lb_unit e) <= 24)%nat /\ rtrim (lb_unit e) = lb_unit e /\
  -999 <= lb_scale e <= 999 /\ -9999999999 <= lb_ref e <= 9999999999 /\ 0 <= lb_width e <= 999 /\
  lb_kind e = unit_kind (lb_unit e).
Definition wf_d (e:ld_entry) : Prop :=
  0 <= ld_desc e < 1000000 /\ (1 <= length (ld_seq e) <= 255)%nat /\ Forall (fun d => 0 <= d < 1000000) (ld_seq e).
Definition wf_t (T:ltables) : Prop :=
  0 <= lt_cat T < 256 /\ text (lt_cdesc T) /\ length (lt_cdesc T) = 64%nat /\
  1 <= Z.of_nat (length (lt_B T)) <= 65535 /\ Forall wf_b (lt_B T) /\
  (length (lt_D T) <= 255)%nat /\ Forall wf_d (lt_D T).

Definition set_aux (junk:Z*Z) (e:lb_entry) : lb_entry :=
  mkLB (lb_desc e) (lb_name e) (lb_unit e) (lb_scale e) (lb_ref e) (lb_width e) (lb_kind e) junk.

(* ------------------------------------------------------------------ the switch, case by case *)
Section X.
  Variable junk : Z * Z.
  Notation xs := (xstep junk).

  Lemma fl_cons (x:sfield) l a : fold_left xs (x :: l) a = fold_left xs l (xs a x).
  Proof. reflexivity. Qed.

  Lemma xs_1 a1 a2 a3 a4 a5 a6 a7 a8 a9 a10 a11 a12 a13 a14 a15 a16 a17 a18 a19 s : xs (mkX a1 a2 a3 a4 a5 a6 a7 a8 a9 a10 a11 a12 a13 a14 a15 a16 a17 a18 a19) (1, VStr s) = (mkX a1 a2 a3 a4 a5 (atoi (sval_of s)) a7 a8 a9 a10 a11 a12 a13 a14 a15 a16 a17 a18 a19). Proof. reflexivity. Qed.
  Lemma xs_2 a1 a2 a3 a4 a5 a6 a7 a8 a9 a10 a11 a12 a13 a14 a15 a16 a17 a18 a19 s : xs (mkX a1 a2 a3 a4 a5 a6 a7 a8 a9 a10 a11 a12 a13 a14 a15 a16 a17 a18 a19) (2, VStr s) = (mkX a1 a2 a3 a4 (sval_of s) a6 a7 a8 a9 a10 a11 a12 a13 a14 a15 a16 a17 a18 a19). Proof. reflexivity. Qed.
  Lemma xs_3 a1 a2 a3 a4 a5 a6 a7 a8 a9 a10 a11 a12 a13 a14 a15 a16 a17 a18 a19 s : xs (mkX a1 a2 a3 a4 a5 a6 a7 a8 a9 a10 a11 a12 a13 a14 a15 a16 a17 a18 a19) (3, VStr s) = (mkX a1 a2 a3 a4 (a5 ++ sval_of s) a6 a7 a8 a9 a10 a11 a12 a13 a14 a15 (if (0 <=? a6) && (a6 <? 256) then a6 else a16) (cat_desc64 (a5 ++ sval_of s)) a18 a19). Proof. reflexivity. Qed.
  Lemma xs_10 a1 a2 a3 a4 a5 a6 a7 a8 a9 a10 a11 a12 a13 a14 a15 a16 a17 a18 a19 s : xs (mkX a1 a2 a3 a4 a5 a6 a7 a8 a9 a10 a11 a12 a13 a14 a15 a16 a17 a18 a19) (10, VStr s) = (mkX (atoi (sval_of s)) a2 a3 a4 a5 a6 a7 a8 a9 a10 a11 a12 a13 a14 a15 a16 a17 a18 a19). Proof. reflexivity. Qed.
  Lemma xs_11 a1 a2 a3 a4 a5 a6 a7 a8 a9 a10 a11 a12 a13 a14 a15 a16 a17 a18 a19 s : xs (mkX a1 a2 a3 a4 a5 a6 a7 a8 a9 a10 a11 a12 a13 a14 a15 a16 a17 a18 a19) (11, VStr s) = (mkX a1 (atoi (sval_of s)) a3 a4 a5 a6 a7 a8 a9 a10 a11 a12 a13 a14 a15 a16 a17 a18 a19). Proof. reflexivity. Qed.
  Lemma xs_12 a1 a2 a3 a4 a5 a6 a7 a8 a9 a10 a11 a12 a13 a14 a15 a16 a17 a18 a19 s : xs (mkX a1 a2 a3 a4 a5 a6 a7 a8 a9 a10 a11 a12 a13 a14 a15 a16 a17 a18 a19) (12, VStr s) = (mkX a1 a2 (atoi (sval_of s)) (a1 * 100000 + a2 * 1000 + atoi (sval_of s)) a5 a6 a7 a8 a9 a10 a11 (a1 * 100000 + a2 * 1000 + atoi (sval_of s)) a13 a14 a15 a16 a17 a18 a19). Proof. reflexivity. Qed.
  Lemma xs_13 a1 a2 a3 a4 a5 a6 a7 a8 a9 a10 a11 a12 a13 a14 a15 a16 a17 a18 a19 s : xs (mkX a1 a2 a3 a4 a5 a6 a7 a8 a9 a10 a11 a12 a13 a14 a15 a16 a17 a18 a19) (13, VStr s) = (mkX a1 a2 a3 a4 (sval_of s) a6 a7 a8 a9 a10 a11 a12 a13 a14 a15 a16 a17 a18 a19). Proof. reflexivity. Qed.
  Lemma xs_14 a1 a2 a3 a4 a5 a6 a7 a8 a9 a10 a11 a12 a13 a14 a15 a16 a17 a18 a19 s : xs (mkX a1 a2 a3 a4 a5 a6 a7 a8 a9 a10 a11 a12 a13 a14 a15 a16 a17 a18 a19) (14, VStr s) = (mkX a1 a2 a3 a4 (a5 ++ sval_of s) a6 (rtrim (a5 ++ sval_of s)) a8 a9 a10 a11 a12 a13 a14 a15 a16 a17 a18 a19). Proof. reflexivity. Qed.
  Lemma xs_15 a1 a2 a3 a4 a5 a6 a7 a8 a9 a10 a11 a12 a13 a14 a15 a16 a17 a18 a19 s : xs (mkX a1 a2 a3 a4 a5 a6 a7 a8 a9 a10 a11 a12 a13 a14 a15 a16 a17 a18 a19) (15, VStr s) = (mkX a1 a2 a3 a4 a5 a6 a7 (rtrim (sval_of s)) a9 a10 a11 a12 a13 a14 a15 a16 a17 a18 a19). Proof. reflexivity. Qed.
  Lemma xs_16 a1 a2 a3 a4 a5 a6 a7 a8 a9 a10 a11 a12 a13 a14 a15 a16 a17 a18 a19 s : xs (mkX a1 a2 a3 a4 a5 a6 a7 a8 a9 a10 a11 a12 a13 a14 a15 a16 a17 a18 a19) (16, VStr s) = (mkX a1 a2 a3 a4 a5 a6 a7 a8 (if hd_is_minus (sval_of s) then -1 else 1) a10 a11 a12 a13 a14 a15 a16 a17 a18 a19). Proof. reflexivity. Qed.
  Lemma xs_17 a1 a2 a3 a4 a5 a6 a7 a8 a9 a10 a11 a12 a13 a14 a15 a16 a17 a18 a19 s : xs (mkX a1 a2 a3 a4 a5 a6 a7 a8 a9 a10 a11 a12 a13 a14 a15 a16 a17 a18 a19) (17, VStr s) = (mkX a1 a2 a3 a4 a5 a6 a7 a8 (a9 * atoi (sval_of s)) a10 a11 a12 a13 a14 a15 a16 a17 a18 a19). Proof. reflexivity. Qed.
  Lemma xs_18 a1 a2 a3 a4 a5 a6 a7 a8 a9 a10 a11 a12 a13 a14 a15 a16 a17 a18 a19 s : xs (mkX a1 a2 a3 a4 a5 a6 a7 a8 a9 a10 a11 a12 a13 a14 a15 a16 a17 a18 a19) (18, VStr s) = (mkX a1 a2 a3 a4 a5 a6 a7 a8 a9 (if hd_is_minus (sval_of s) then -1 else 1) a11 a12 a13 a14 a15 a16 a17 a18 a19). Proof. reflexivity. Qed.
  Lemma xs_19 a1 a2 a3 a4 a5 a6 a7 a8 a9 a10 a11 a12 a13 a14 a15 a16 a17 a18 a19 s : xs (mkX a1 a2 a3 a4 a5 a6 a7 a8 a9 a10 a11 a12 a13 a14 a15 a16 a17 a18 a19) (19, VStr s) = (mkX a1 a2 a3 a4 a5 a6 a7 a8 a9 (a10 * atoi (sval_of s)) a11 a12 a13 a14 a15 a16 a17 a18 a19). Proof. reflexivity. Qed.
  Lemma xs_20 a1 a2 a3 a4 a5 a6 a7 a8 a9 a10 a11 a12 a13 a14 a15 a16 a17 a18 a19 s : xs (mkX a1 a2 a3 a4 a5 a6 a7 a8 a9 a10 a11 a12 a13 a14 a15 a16 a17 a18 a19) (20, VStr s) = (mkX a1 a2 a3 a4 a5 a6 ([]) ([]) a9 a10 (atoi (sval_of s)) a12 a13 a14 a15 a16 a17 (mkLB a12 a7 a8 a9 a10 (atoi (sval_of s)) (unit_kind a8) junk :: a18) a19). Proof. reflexivity. Qed.
  Lemma xs_31001 a1 a2 a3 a4 a5 a6 a7 a8 a9 a10 a11 a12 a13 a14 a15 a16 a17 a18 a19 n : xs (mkX a1 a2 a3 a4 a5 a6 a7 a8 a9 a10 a11 a12 a13 a14 a15 a16 a17 a18 a19) (31001, VRaw n) = (mkX a1 a2 a3 a4 a5 a6 a7 a8 a9 a10 a11 a12 (Z.of_N n) (Some []) (0) a16 a17 a18 a19). Proof. reflexivity. Qed.
  Lemma xs_31002 st n : xs st (31002, VRaw n) = st. Proof. reflexivity. Qed.
  Lemma xs_30 st s : xs st (30, VStr s) =
    (let '(cs, c) := if x_c st <? x_count st
                     then (match x_codes st with Some l => Some (atoi (sval_of s) :: l) | None => None end, x_c st + 1)
                     else (x_codes st, x_c st) in
     if c =? x_count st
     then push_D st (firstn (Z.to_nat (x_count st)) (rev (match cs with Some l => l | None => [] end)))
     else upd_codes st (x_count st) cs c).
  Proof. reflexivity. Qed.

  Ltac projs := cbn [x_f x_x x_y x_descriptor x_buf x_cat x_name x_unit x_scale x_ref x_width x_edesc x_count x_codes x_c x_tcat x_tcdesc x_B x_D].

  (* ---- F X Y ---- *)
  Lemma fxy_step a1 a2 a3 a4 a5 a6 a7 a8 a9 a10 a11 a12 a13 a14 a15 a16 a17 a18 a19 d rest : 0 <= d < 1000000 ->
    fold_left xs (fxy_fields d ++ rest) (mkX a1 a2 a3 a4 a5 a6 a7 a8 a9 a10 a11 a12 a13 a14 a15 a16 a17 a18 a19) =
    fold_left xs rest (mkX (dF d) (dX d) (dY d) (d) a5 a6 a7 a8 a9 a10 a11 (d) a13 a14 a15 a16 a17 a18 a19).
  Proof.
    intro H. unfold fxy_fields. cbn [app].
    assert (HF : 0 <= dF d < 10 ^ Z.of_nat 1) by (unfold dF; change (10 ^ Z.of_nat 1) with 10; lia).
    assert (HX : 0 <= dX d < 10 ^ Z.of_nat 2) by (unfold dX; change (10 ^ Z.of_nat 2) with 100; lia).
    assert (HY : 0 <= dY d < 10 ^ Z.of_nat 3) by (unfold dY; change (10 ^ Z.of_nat 3) with 1000; lia).
    rewrite fl_cons, xs_10, fl_cons, xs_11, fl_cons, xs_12.
    rewrite !sval_of_id by (apply text_digits, put_fmt_prec_chars; assumption).
    rewrite (atoi_fmt_prec 0 _ HF), (atoi_fmt_prec 1 _ HX), (atoi_fmt_prec 2 _ HY).
    replace (dF d * 100000 + dX d * 1000 + dY d) with d by (unfold dF, dX, dY; lia). reflexivity.
  Qed.

  (* ---- one Table B entry ---- *)
  Definition after_b (e:lb_entry) (st:xst) : xst :=
    mkX (dF (lb_desc e)) (dX (lb_desc e)) (dY (lb_desc e)) (lb_desc e)
        (lb_name e ++ repeat 32%N (64 - length (lb_name e))) (x_cat st) [] [] (lb_scale e) (lb_ref e) (lb_width e) (lb_desc e)
        (x_count st) (x_codes st) (x_c st) (x_tcat st) (x_tcdesc st) (set_aux junk e :: x_B st) (x_D st).

  Lemma sign_scale z : (if hd_is_minus [sign_char z] then -1 else 1) * Z.abs z = z.
  Proof.
    unfold sign_char, hd_is_minus. destruct (0 <=? z) eqn:E.
    - change (43 =? 45)%N with false. cbv iota. lia.
    - change (45 =? 45)%N with true. cbv iota. lia.
  Qed.

  Lemma b_step e st rest : wf_b e ->
    fold_left xs (b_fields e ++ rest) st = fold_left xs rest (after_b e st).
  Proof.
    intros (Hd & Hn & Hnl & Hnt & Hu & Hul & Hut & Hs & Hr & Hw & Hk).
    destruct st as [a1 a2 a3 a4 a5 a6 a7 a8 a9 a10 a11 a12 a13 a14 a15 a16 a17 a18 a19].
    unfold b_fields. rewrite <- app_assoc, fxy_step by exact Hd.
    change (noct 13) with 32%nat. change (noct 14) with 32%nat. change (noct 15) with 24%nat.
    unfold split_lines. cbn [fst snd app].
    assert (HS : 0 <= Z.abs (lb_scale e) < 10 ^ Z.of_nat 3) by (change (10 ^ Z.of_nat 3) with 1000; lia).
    assert (HR : 0 <= Z.abs (lb_ref e) < 10 ^ Z.of_nat 10) by (change (10 ^ Z.of_nat 10) with 10000000000; lia).
    assert (HW : 0 <= lb_width e < 10 ^ Z.of_nat 3) by (change (10 ^ Z.of_nat 3) with 1000; lia).
    rewrite fl_cons, xs_13, fl_cons, xs_14, fl_cons, xs_15, fl_cons, xs_16, fl_cons, xs_17, fl_cons, xs_18, fl_cons, xs_19, fl_cons, xs_20.
    rewrite !(sval_of_id (fill_line _ _)) by (apply text_fill_line; try apply text_skipn; assumption).
    rewrite !(sval_of_id (put_fmt _ _)) by (apply text_blank_or_digit, put_fmt_width_chars; assumption).
    rewrite !(sval_of_id [sign_char _]) by (constructor; [unfold sign_char, printable; destruct (0 <=? _); lia|constructor]).
    rewrite (atoi_fmt_width 2 _ HS), (atoi_fmt_width 9 _ HR), (atoi_fmt_width 2 _ HW).
    rewrite !sign_scale.
    rewrite split_concat by (cbn; lia). change (32 + 32)%nat with 64%nat.
    rewrite rtrim_app_blanks, Hnt.
    rewrite fill_line_short by lia. rewrite rtrim_app_blanks, Hut.
    unfold after_b, set_aux. projs. rewrite Hk. reflexivity.
  Qed.

  Lemma b_loop : forall es st rest, Forall wf_b es ->
    fold_left xs (flat_map b_fields es ++ rest) st = fold_left xs rest (fold_left (fun s e => after_b e s) es st).
  Proof.
    induction es as [|e t IH]; intros st rest H; cbn [flat_map fold_left app]; [reflexivity|].
    inversion H as [|? ? He Ht]; subst.
    rewrite <- app_assoc, b_step by exact He. apply IH. exact Ht.
  Qed.

  (* what the loop over the entries leaves in the fields the result is made of *)
  Lemma after_b_loop_B : forall es st, x_B (fold_left (fun s e => after_b e s) es st) = rev (map (set_aux junk) es) ++ x_B st.
  Proof.
    induction es as [|e t IH]; intro st; cbn [fold_left map rev app]; [reflexivity|].
    rewrite IH. cbn [after_b x_B]. rewrite <- app_assoc. reflexivity.
  Qed.
  Lemma after_b_loop_keep : forall es st, let st' := fold_left (fun s e => after_b e s) es st in
    x_D st' = x_D st /\ x_tcat st' = x_tcat st /\ x_tcdesc st' = x_tcdesc st.
  Proof.
    induction es as [|e t IH]; intro st; cbn [fold_left]; [repeat split|].
    destruct (IH (after_b e st)) as (A & B & C). cbn [after_b x_D x_tcat x_tcdesc] in *. repeat split; assumption.
  Qed.

  (* ---- one Table D entry ---- *)
  Definition f30 (d:Z) : sfield := (30, VStr (fill_line (noct 30) (put_fmt 6 (fmt_prec 6 d)))).

  Lemma atoi_f30 d : 0 <= d < 1000000 ->
    atoi (sval_of (fill_line (noct 30) (put_fmt 6 (fmt_prec 6 d)))) = d.
  Proof.
    intro H. assert (H6 : 0 <= d < 10 ^ Z.of_nat 6) by (change (10 ^ Z.of_nat 6) with 1000000; lia).
    change (noct 30) with 6%nat.
    rewrite fill_line_exact by (apply (put_fmt_prec 5 d H6)).
    rewrite sval_of_id by (apply text_digits, (put_fmt_prec_chars 5 d H6)).
    apply (atoi_fmt_prec 5 d H6).
  Qed.

  Lemma push_D_upd_codes st n cs c seq : push_D (upd_codes st n cs c) seq = push_D st seq.
  Proof. reflexivity. Qed.

  Lemma d_codes : forall todo acc st rest,
    x_count st = Z.of_nat (length acc + length todo) -> x_codes st = Some acc -> x_c st = Z.of_nat (length acc) ->
    todo <> [] -> Forall (fun d => 0 <= d < 1000000) todo ->
    fold_left xs (map f30 todo ++ rest) st = fold_left xs rest (push_D st (rev acc ++ todo)).
  Proof.
    induction todo as [|d t IH]; intros acc st rest Hn Hc Hi Hne Hr; [congruence|].
    inversion Hr as [|? ? Hd Ht]; subst.
    cbn [map app]. rewrite fl_cons. change (f30 d) with (30, VStr (fill_line (noct 30) (put_fmt 6 (fmt_prec 6 d)))). rewrite xs_30, (atoi_f30 d Hd).
    cbn [length] in Hn.
    replace (x_c st <? x_count st) with true by lia. rewrite Hc.
    destruct t as [|d2 t2].
    - cbn [length] in Hn. replace (x_c st + 1 =? x_count st) with true by lia.
      cbn [map app]. f_equal. f_equal.
      rewrite firstn_all2 by (rewrite rev_length; cbn [length]; lia). reflexivity.
    - cbn [length] in Hn. replace (x_c st + 1 =? x_count st) with false by lia.
      rewrite (IH (d :: acc) _ rest).
      + rewrite push_D_upd_codes. cbn [rev]. rewrite <- app_assoc. reflexivity.
      + cbn [upd_codes x_count length]. lia.
      + reflexivity.
      + cbn [upd_codes x_c length]. lia.
      + discriminate.
      + exact Ht.
  Qed.

  Definition after_d (e:ld_entry) (st:xst) : xst :=
    mkX (dF (ld_desc e)) (dX (ld_desc e)) (dY (ld_desc e)) (ld_desc e) (x_buf st) (x_cat st) (x_name st) (x_unit st)
        (x_scale st) (x_ref st) (x_width st) (ld_desc e) 0 None 0 (x_tcat st) (x_tcdesc st) (x_B st) (e :: x_D st).

  Lemma d_step e st rest : wf_d e ->
    fold_left xs (d_fields e ++ rest) st = fold_left xs rest (after_d e st).
  Proof.
    intros (Hd & Hl & Hs). destruct st as [a1 a2 a3 a4 a5 a6 a7 a8 a9 a10 a11 a12 a13 a14 a15 a16 a17 a18 a19].
    unfold d_fields. rewrite <- app_assoc, fxy_step by exact Hd.
    cbn [app]. rewrite fl_cons, xs_31001.
    change (map (fun d => (30, VStr (fill_line (noct 30) (put_fmt 6 (fmt_prec 6 d))))) (ld_seq e)) with (map f30 (ld_seq e)).
    rewrite (d_codes (ld_seq e) []).
    - f_equal. destruct e as [dd sq]. reflexivity.
    - projs. cbn [length]. lia.
    - reflexivity.
    - reflexivity.
    - destruct (ld_seq e); [cbn in Hl; lia|discriminate].
    - exact Hs.
  Qed.

  Lemma d_loop : forall es st rest, Forall wf_d es ->
    fold_left xs (flat_map d_fields es ++ rest) st = fold_left xs rest (fold_left (fun s e => after_d e s) es st).
  Proof.
    induction es as [|e t IH]; intros st rest H; cbn [flat_map fold_left app]; [reflexivity|].
    inversion H as [|? ? He Ht]; subst.
    rewrite <- app_assoc, d_step by exact He. apply IH. exact Ht.
  Qed.
  Lemma after_d_loop : forall es st, let st' := fold_left (fun s e => after_d e s) es st in
    x_D st' = rev es ++ x_D st /\ x_B st' = x_B st /\ x_tcat st' = x_tcat st /\ x_tcdesc st' = x_tcdesc st.
  Proof.
    induction es as [|e t IH]; intro st; cbn [fold_left rev app]; [repeat split|].
    destruct (IH (after_d e st)) as (A & B & C & D). cbn [after_d x_D x_B x_tcat x_tcdesc] in *.
    rewrite <- app_assoc. repeat split; assumption.
  Qed.

  (* ---- the whole field list ---- *)
  Lemma cat_desc64_id s : text s -> length s = 64%nat -> cat_desc64 s = s.
  Proof.
    intros H L. unfold cat_desc64.
    replace (map (fun c => if is_space c then 32%N else c) s) with s.
    - apply fill_line_exact. exact L.
    - clear L. induction s as [|c t IH]; [reflexivity|]. inversion H as [|? ? Hc Ht]; subst. cbn [map].
      rewrite <- IH by exact Ht. f_equal. unfold is_space, printable in *.
      destruct ((c =? 32)%N || ((9 <=? c)%N && (c <=? 13)%N)) eqn:E; lia.
  Qed.

  Theorem extract_store_fields T : wf_t T ->
    extract junk (store_fields T) = mkLT (lt_cat T) (lt_cdesc T) (map (set_aux junk) (lt_B T)) (lt_D T).
  Proof.
    intros (Hc & Ht & Hl & Hb & HB & Hd & HD).
    unfold extract, store_fields.
    replace (0 <? length (lt_B T))%nat with true by lia.
    change (noct 2) with 32%nat. change (noct 3) with 32%nat. unfold split_lines. cbn [fst snd].
    cbn [app]. unfold x0. rewrite fl_cons, xs_31001, fl_cons, xs_1, fl_cons, xs_2, fl_cons, xs_3.
    assert (HC : 0 <= Z.abs (lt_cat T) mod 256 < 10 ^ Z.of_nat 3) by (change (10 ^ Z.of_nat 3) with 1000; lia).
    rewrite (sval_of_id (put_fmt _ _)) by (apply text_digits, (put_fmt_prec_chars 2 _ HC)).
    rewrite !(sval_of_id (fill_line _ _)) by (apply text_fill_line; try apply text_skipn; assumption).
    rewrite (atoi_fmt_prec 2 _ HC).
    cbn [app].
    rewrite split_concat by (cbn; lia). rewrite Hl. cbn [Nat.add Nat.sub repeat]. rewrite app_nil_r.
    rewrite (cat_desc64_id _ Ht Hl).
    replace ((0 <=? Z.abs (lt_cat T) mod 256) && (Z.abs (lt_cat T) mod 256 <? 256)) with true by lia.
    replace (Z.abs (lt_cat T) mod 256) with (lt_cat T) by lia.
    rewrite fl_cons.
    set (st1 := mkX _ _ _ _ _ _ _ _ _ _ _ _ _ _ _ _ _ _ _).
    assert (E : forall cd n, (cd = 31001 \/ cd = 31002) ->
              exists st2, xs st1 (cd, VRaw n) = st2 /\ x_B st2 = [] /\ x_D st2 = [] /\ x_tcat st2 = lt_cat T /\ x_tcdesc st2 = lt_cdesc T).
    { intros cd n [-> | ->]; eexists; (split; [reflexivity|]); repeat split. }
    destruct (E (count_desc (length (lt_B T))) (N.of_nat (length (lt_B T)))) as (st2 & -> & B2 & D2 & C2 & CD2).
    { unfold count_desc. destruct (length (lt_B T) <? 256)%nat; auto. }
    destruct (0 <? length (lt_D T))%nat eqn:ED.
    - rewrite b_loop by exact HB.
      rewrite <- (app_nil_r (flat_map d_fields (lt_D T))), d_loop by exact HD. cbn [fold_left].
      set (st3 := fold_left (fun s e => after_b e s) (lt_B T) st2).
      destruct (after_d_loop (lt_D T) st3) as (A1 & A2 & A3 & A4).
      destruct (after_b_loop_keep (lt_B T) st2) as (K1 & K2 & K3). fold st3 in K1, K2, K3.
      pose proof (after_b_loop_B (lt_B T) st2) as KB. fold st3 in KB.
      rewrite A1, A2, A3, A4, K1, K2, K3, KB, B2, D2, C2, CD2. rewrite !app_nil_r, !rev_involutive. reflexivity.
    - rewrite b_loop by exact HB. cbn [fold_left].
      destruct (after_b_loop_keep (lt_B T) st2) as (K1 & K2 & K3).
      rewrite K1, K2, K3, after_b_loop_B, B2, D2, C2, CD2. rewrite app_nil_r, rev_involutive. cbn [rev].
      destruct (lt_D T); [reflexivity|cbn in ED; discriminate].
  Qed.
End X.
