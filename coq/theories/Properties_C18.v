(* Properties_C18.v — C18: templates survive save, load and copy.
   Tmpl.v models bufr_save_template / bufr_load_template / bufr_copy_template / bufr_compare_template as the code stands.
   The property at full strength is C18_full_statement; the current text format does not have it (C18_full_statement_refuted and the
   four ..._refuted witnesses: several defaults, character defaults, integer 'missing', FLT64 precision).  What is proved for the
   code as it stands is the _partial theorem: the round trip is the identity exactly on the templates whose defaults the format carries. *)
From Coq Require Import List ZArith NArith Arith Lia Bool.
From V Require Import Walk Fm94 Fm94Exp Tmpl TmplProof Tmpl2 Tmpl2Proof.
Import ListNotations.
Local Open Scope Z_scope.

Definition C18_full_statement : Prop :=
  forall fuel T t, wf_template fuel T t -> natural T t -> no_nul t ->
    (exists t', load_text fuel T (save_text t) = Ok t' /\ tcompare fuel T t t' = 0 /\ t_ed t' = t_ed t /\ descs t' = descs t /\
                Forall2 (fun it it' => Forall2 (value_equiv T (i_desc it)) (i_vals it) (i_vals it')) (t_items t) (t_items t'))
    /\ copy fuel T t = Ok t /\ tcompare fuel T t t = 0.

(* the code as it stands violates it: a template with two defaults on one descriptor is refused when loaded again *)
Theorem C18_full_statement_refuted : ~ C18_full_statement.
Proof. exact full_statement_refuted. Qed.
Print Assumptions C18_full_statement_refuted.

(* save then load is the identity on every template whose defaults the format carries (at most one per descriptor, of the
   element's own type: an integer other than -1, a FLT64 that survives %f/%.14E + strtof) *)
Theorem C18_save_load_id_partial : forall fuel T t,
  wf_template fuel T t -> carried T t -> load_text fuel T (save_text t) = Ok t.
Proof. exact save_load_text_id. Qed.
Print Assumptions C18_save_load_id_partial.

Theorem C18_save_load_lines_partial : forall fuel T t,
  wf_template fuel T t -> carried T t -> load fuel T (save t) = Ok t.
Proof. exact save_load_id. Qed.
Print Assumptions C18_save_load_lines_partial.

(* hence the reloaded template compares equal and has the same edition, descriptors and defaults *)
Theorem C18_save_load_compare_partial : forall fuel T t,
  wf_template fuel T t -> carried T t ->
  exists t', load_text fuel T (save_text t) = Ok t' /\ tcompare fuel T t t' = 0 /\ t_ed t' = t_ed t /\ descs t' = descs t /\
             map i_vals (t_items t') = map i_vals (t_items t).
Proof.
  intros fuel T t W C. exists t. split; [exact (save_load_text_id fuel T t W C)|].
  split; [exact (compare_refl fuel T t W)|]. repeat split.
Qed.
Print Assumptions C18_save_load_compare_partial.

(* the parser reads the saved text back to the template itself (before the acceptance test) *)
Theorem C18_parse_save_partial : forall T t,
  0 <= t_ed t < 2 ^ 31 -> Forall (fun it => 0 <= i_desc it < 2 ^ 31) (t_items t) -> carried T t -> parse_lines T (save t) = t.
Proof. exact parse_save. Qed.
Print Assumptions C18_parse_save_partial.

(* copying is the identity on every template (strings as C holds them: no NUL), and the copy compares equal *)
Theorem C18_copy_equal : forall fuel T t, wf_template fuel T t -> no_nul t -> copy fuel T t = Ok t /\ tcompare fuel T t t = 0.
Proof. intros fuel T t W N. split; [exact (copy_id fuel T t W N) | exact (compare_refl fuel T t W)]. Qed.
Print Assumptions C18_copy_equal.

Theorem C18_compare_refl : forall fuel T t, wf_template fuel T t -> tcompare fuel T t t = 0.
Proof. exact compare_refl. Qed.
Print Assumptions C18_compare_refl.

Theorem C18_compare_sym : forall fuel T t1 t2, tcompare fuel T t1 t2 = tcompare fuel T t2 t1.
Proof. exact compare_sym. Qed.
Print Assumptions C18_compare_sym.

(* what the comparison does not look at: the edition and the default values *)
Theorem C18_compare_descriptors_only : forall fuel T t1 t2,
  wf_template fuel T t1 -> descs t2 = descs t1 -> tcompare fuel T t1 t2 = 0.
Proof. exact compare_descs_only. Qed.
Print Assumptions C18_compare_descriptors_only.

Theorem C18_compare_0_same_expansion : forall fuel T t1 t2, tcompare fuel T t1 t2 = 0 ->
  exists g, gexpand fuel T (descs t1) = Ok g /\ gexpand fuel T (descs t2) = Ok g.
Proof. exact compare_0_expansion. Qed.
Print Assumptions C18_compare_0_same_expansion.

(* refusal: whatever the lines are and however the defaults behind VALUE are read (vals: the current code's reader or the
   corrected one), naming a descriptor no table knows, a number that is no descriptor, or an ill-formed replication
   (Fm94Exp.well_nested) makes load refuse *)
Theorem C18_load_rejects_unknown_descriptor : forall vals fuel T lines d,
  unknown_desc T d -> In d (descs (parse_lines_gen vals T lines)) -> load_gen vals fuel T lines = Err Reject.
Proof. exact load_gen_rejects_unknown. Qed.
Print Assumptions C18_load_rejects_unknown_descriptor.

Theorem C18_load_rejects_ill_formed_replication : forall vals fuel T lines,
  well_nested (descs (parse_lines_gen vals T lines)) = false -> load_gen vals fuel T lines = Err Reject.
Proof. exact load_gen_rejects_ill_nested. Qed.
Print Assumptions C18_load_rejects_ill_formed_replication.

Theorem C18_load_rejects_not_a_descriptor : forall vals fuel T lines d,
  is_descriptor d = false -> In d (descs (parse_lines_gen vals T lines)) -> load_gen vals fuel T lines = Err Reject.
Proof. exact load_gen_rejects_not_a_descriptor. Qed.
Print Assumptions C18_load_rejects_not_a_descriptor.

(* the same on texts: the text of a descriptor list that contains an unknown descriptor / is ill nested is refused *)
Theorem C18_load_text_rejects_unknown_descriptor : forall fuel T ed ds d,
  0 <= ed < 2 ^ 31 -> Forall (fun x => 0 <= x < 2 ^ 31) ds -> unknown_desc T d -> In d ds ->
  load_text fuel T (save_text (plain ed ds)) = Err Reject.
Proof. exact load_text_rejects_unknown. Qed.
Print Assumptions C18_load_text_rejects_unknown_descriptor.

Theorem C18_load_text_rejects_ill_formed_replication : forall fuel T ed ds,
  0 <= ed < 2 ^ 31 -> Forall (fun x => 0 <= x < 2 ^ 31) ds -> well_nested ds = false ->
  load_text fuel T (save_text (plain ed ds)) = Err Reject.
Proof. exact load_text_rejects_ill_nested. Qed.
Print Assumptions C18_load_text_rejects_ill_formed_replication.

Theorem C18_accepts_rejects_unknown_descriptor : forall fuel T ds d, unknown_desc T d -> In d ds -> accepts fuel T ds = false.
Proof. exact accepts_rejects_unknown. Qed.
Print Assumptions C18_accepts_rejects_unknown_descriptor.

(* ---- the weaknesses of the current format, each with a witness that is replayed on the library by the check ---- *)
(* a character default never comes back: whatever follows the opening quote, the value read starts with the quote *)
Theorem C18_string_default_keeps_quote : forall T st d n x,
  0 <= d < 2 ^ 31 -> vtype_of T d = TString n -> 1 <= n -> nonzero x = true ->
  exists y more, load_line T st (print_Z d ++ s_cVALUE ++ 34 :: x) = mkL (l_ed st) (mkItem d (DStr (34 :: y) :: more) :: l_seq st).
Proof. exact string_default_keeps_quote. Qed.
Print Assumptions C18_string_default_keeps_quote.

Theorem C18_string_default_refuted : exists fuel T t t', wf_template fuel T t /\ natural T t /\ no_nul t /\
  load_text fuel T (save_text t) = Ok t' /\
  ~ Forall2 (fun it it' => Forall2 (value_equiv T (i_desc it)) (i_vals it) (i_vals it')) (t_items t) (t_items t').
Proof. exact string_default_refuted. Qed.
Print Assumptions C18_string_default_refuted.

Theorem C18_int_missing_refuted : exists fuel T t t', wf_template fuel T t /\ natural T t /\
  load_text fuel T (save_text t) = Ok t' /\
  ~ Forall2 (fun it it' => Forall2 (value_equiv T (i_desc it)) (i_vals it) (i_vals it')) (t_items t) (t_items t').
Proof. exact int_missing_refuted. Qed.
Print Assumptions C18_int_missing_refuted.

Theorem C18_float_default_refuted : exists fuel T t t', wf_template fuel T t /\ natural T t /\
  load_text fuel T (save_text t) = Ok t' /\
  ~ Forall2 (fun it it' => Forall2 (value_equiv T (i_desc it)) (i_vals it) (i_vals it')) (t_items t) (t_items t').
Proof. exact float_default_refuted. Qed.
Print Assumptions C18_float_default_refuted.

Theorem C18_multi_values_silently_different_refuted : exists fuel T t t', wf_template fuel T t /\ natural T t /\
  load_text fuel T (save_text t) = Ok t' /\ descs t' <> descs t /\ tcompare fuel T t t' = -1.
Proof. exact multi_values_silently_different_refuted. Qed.
Print Assumptions C18_multi_values_silently_different_refuted.

(* the same FLT64 at scale 2 comes back different but still quantises to the same raw value *)
Theorem C18_float_default_scale2_same_raw :
  exists m' e', load_text 100 T0 (save_text w_float2) = Ok (mkTmpl 4 [mkItem 12101 [DFlt m' e']]) /\
                (m', e') <> (2402652809016115, -43) /\ quant 2 0 2402652809016115 (-43) = 27315 /\ quant 2 0 m' e' = 27315.
Proof. exact w_float2_same_raw. Qed.
Print Assumptions C18_float_default_scale2_same_raw.

(* ---- the corrected text format (proposed_fixes/C18_template_text.md, model Tmpl2.v): the round trip is the identity on EVERY
   template whose defaults have the element's own value type: any number of defaults per descriptor, -1, character values of
   any bytes; for FLT64 under the IEEE/libc contract that 17 significant digits identify a double (dbl_carried) ---- *)
Theorem C18_fixed_format_save_load_id : forall fuel T t,
  wf_template fuel T t -> carried2 T t -> load2_text fuel T (save2_text t) = Ok t.
Proof. exact save2_load2_id. Qed.
Print Assumptions C18_fixed_format_save_load_id.

Theorem C18_fixed_format_carries_witnesses :
  load2_text 100 T0 (save2_text w_multi) = Ok w_multi /\ load2_text 100 T0 (save2_text w_multi2) = Ok w_multi2 /\
  load2_text 100 T0 (save2_text w_string) = Ok w_string /\ load2_text 100 T0 (save2_text w_intmissing) = Ok w_intmissing /\
  load2_text 100 T0 (save2_text w_float5) = Ok w_float5 /\ load2_text 100 T0 (save2_text w_float2) = Ok w_float2.
Proof. exact fixed_format_carries_witnesses. Qed.
Print Assumptions C18_fixed_format_carries_witnesses.

(* the hypotheses of the partial theorem are satisfiable: a template with an integer, a FLT64 and a replication-count default *)
Example C18_partial_hypotheses_satisfiable : wf_template 100 T0 w_good /\ carried T0 w_good /\ natural T0 w_good.
Proof. exact (conj w_good_wf (conj w_good_carried w_good_natural)). Qed.
Example C18_partial_instance : load_text 100 T0 (save_text w_good) = Ok w_good.
Proof. exact (save_load_text_id 100 T0 w_good w_good_wf w_good_carried). Qed.
Example C18_unknown_desc_satisfiable : unknown_desc T0 12190 /\ unknown_desc T0 399255 /\ well_nested [1001; 101000] = false.
Proof. split; [left; repeat split; reflexivity|]. split; [right; split; reflexivity | reflexivity]. Qed.
