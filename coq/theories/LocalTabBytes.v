(* part 4: the octets bufr_putstring / bufr_putbits leave in Section 4 *)
From Coq Require Import List ZArith NArith Arith Lia Bool ZifyBool.
From V Require Import Walk BitIO BitProof Fm94.
From V Require Import LocalTab.
Import ListNotations.
Local Open Scope N_scope.
Ltac Zify.zify_post_hook ::= Z.to_euclidean_division_equations.

Lemma grow_proj s : done_ (grow s) = done_ s /\ bitno (grow s) = bitno s.
Proof. unfold grow. destruct (maxd s <? N.of_nat (length (done_ s))); split; reflexivity. Qed.

Lemma chunk_byte0 v : chunk v 0 8 = v mod 256.
Proof. rewrite chunk_arith. change (2 ^ N.of_nat 0) with 1. change (2 ^ N.of_nat 8) with 256. rewrite N.div_1_r. reflexivity. Qed.
Lemma chunk_byte1 v : chunk v 8 8 = (v / 256) mod 256.
Proof. rewrite chunk_arith. change (2 ^ N.of_nat 8) with 256. reflexivity. Qed.

Lemma putbits_8 s v : bitno s = 0%nat ->
  exists s', putbits s v 8 = Some s' /\ done_ s' = done_ s ++ [v mod 256] /\ bitno s' = 0%nat.
Proof.
  destruct s as [dn cb bn md]. cbn [bitno]. intros ->.
  eexists. split; [reflexivity|].
  destruct (grow_proj (putbits_core {| done_ := dn; curb := cb; bitno := 0; maxd := md |} v 8)) as [-> ->].
  unfold putbits_core. cbn [bitno done_ curb maxd Nat.eqb Nat.modulo Nat.min Nat.sub Nat.add Nat.divmod fst snd put_loop N.of_nat].
  rewrite N.shiftl_0_r, N.lor_0_l, chunk_byte0. split; reflexivity.
Qed.

Lemma putbits_16 s v : bitno s = 0%nat ->
  exists s', putbits s v 16 = Some s' /\ done_ s' = done_ s ++ [(v / 256) mod 256; v mod 256] /\ bitno s' = 0%nat.
Proof.
  destruct s as [dn cb bn md]. cbn [bitno]. intros ->.
  eexists. split; [reflexivity|].
  destruct (grow_proj (putbits_core {| done_ := dn; curb := cb; bitno := 0; maxd := md |} v 16)) as [-> ->].
  unfold putbits_core. cbn [bitno done_ curb maxd Nat.eqb Nat.modulo Nat.min Nat.sub Nat.add Nat.divmod fst snd put_loop N.of_nat].
  rewrite !N.shiftl_0_r, N.lor_0_l, chunk_byte0, chunk_byte1. rewrite <- app_assoc. split; reflexivity.
Qed.

Lemma putstring_aligned : forall l s, bitno s = 0%nat -> Forall (fun c => c < 256) l ->
  exists s', putstring s l = Some s' /\ done_ s' = done_ s ++ l /\ bitno s' = 0%nat.
Proof.
  induction l as [|c t IH]; intros s Hb Hl; cbn [putstring].
  - exists s. rewrite app_nil_r. repeat split. exact Hb.
  - inversion Hl as [|? ? Hc Ht]; subst.
    destruct (putbits_8 s c Hb) as (s1 & -> & D1 & B1).
    destruct (IH s1 B1 Ht) as (s2 & -> & D2 & B2).
    exists s2. split; [reflexivity|]. split; [|exact B2].
    rewrite D2, D1, <- app_assoc. rewrite N.mod_small by exact Hc. reflexivity.
Qed.

(* the fields a table update consists of: characters, and 8/16-bit replication counts *)
Definition field_ok (f:sfield) : Prop :=
  match snd f with
  | VStr s => Forall (fun c => c < 256) s
  | VRaw v => fst f = 31001%Z \/ fst f = 31002%Z
  end.

Lemma write_sfields_aligned : forall fl s, bitno s = 0%nat -> Forall field_ok fl ->
  exists s', write_sfields s fl = Some s' /\ done_ s' = done_ s ++ fields_bytes fl /\ bitno s' = 0%nat.
Proof.
  induction fl as [|[d v] t IH]; intros s Hb Hf; cbn [write_sfields].
  - exists s. unfold fields_bytes. cbn [flat_map]. rewrite app_nil_r. repeat split. exact Hb.
  - inversion Hf as [|? ? Hv Ht]; subst. unfold field_ok in Hv. cbn [fst snd] in Hv.
    unfold fields_bytes. cbn [flat_map]. fold (fields_bytes t). unfold field_bytes. cbn [fst snd].
    destruct v as [n|c].
    + destruct Hv as [-> | ->].
      * change (nbits_of 31001) with 8%nat. change (noct 31001) with 1%nat.
        destruct (putbits_8 s n Hb) as (s1 & -> & D1 & B1).
        destruct (IH s1 B1 Ht) as (s2 & -> & D2 & B2).
        exists s2. split; [reflexivity|]. split; [|exact B2].
        rewrite D2, D1, <- app_assoc. cbn [be_bytes N.of_nat]. change (256 ^ 0) with 1. rewrite N.div_1_r. reflexivity.
      * change (nbits_of 31002) with 16%nat. change (noct 31002) with 2%nat.
        destruct (putbits_16 s n Hb) as (s1 & -> & D1 & B1).
        destruct (IH s1 B1 Ht) as (s2 & -> & D2 & B2).
        exists s2. split; [reflexivity|]. split; [|exact B2].
        rewrite D2, D1, <- app_assoc. cbn [be_bytes N.of_nat]. change (256 ^ 0) with 1. change (256 ^ 1) with 256. rewrite N.div_1_r. reflexivity.
    + destruct (putstring_aligned c s Hb Hv) as (s1 & -> & D1 & B1).
      destruct (IH s1 B1 Ht) as (s2 & -> & D2 & B2).
      exists s2. split; [reflexivity|]. split; [|exact B2].
      rewrite D2, D1, <- app_assoc. reflexivity.
Qed.

Theorem store_bytes_spec fl : Forall field_ok fl -> store_bytes fl = Some (fields_bytes fl).
Proof.
  intro H. unfold store_bytes.
  destruct (write_sfields_aligned fl (winit 8192) eq_refl H) as (s & -> & D & B).
  unfold wbytes. rewrite B. cbn [Nat.eqb]. rewrite D. reflexivity.
Qed.
