(* DumpProof.v — proofs about the text dump model Dump.v (property C13). *)
From Coq Require Import List ZArith Arith Lia Bool ZifyBool.
From V Require Import Dump.
Import ListNotations.
Local Open Scope Z_scope.
Ltac Zify.zify_post_hook ::= Z.div_mod_to_equations.

Ltac list_eq := repeat (rewrite <- app_assoc || cbn [app]); reflexivity.

(* ------------------------------------------------------------------ generic list lemmas *)
Lemma takewhile_app_stop : forall p l1 c l2, forallb p l1 = true -> p c = false -> takewhile p (l1 ++ c :: l2) = l1.
Proof. induction l1 as [|x l1 IH]; intros c l2 Hall Hc; cbn in *. - now rewrite Hc. - apply andb_prop in Hall as [Hx Hl]. rewrite Hx. f_equal. now apply IH. Qed.
Lemma dropwhile_app_stop : forall p l1 c l2, forallb p l1 = true -> p c = false -> dropwhile p (l1 ++ c :: l2) = c :: l2.
Proof. induction l1 as [|x l1 IH]; intros c l2 Hall Hc; cbn in *. - now rewrite Hc. - apply andb_prop in Hall as [Hx Hl]. rewrite Hx. now apply IH. Qed.
Lemma takewhile_all : forall p l, forallb p l = true -> takewhile p l = l.
Proof. induction l as [|x l IH]; intros Hall; cbn in *; auto. apply andb_prop in Hall as [Hx Hl]. rewrite Hx. f_equal. auto. Qed.
Lemma dropwhile_all : forall p l, forallb p l = true -> dropwhile p l = [].
Proof. induction l as [|x l IH]; intros Hall; cbn in *; auto. apply andb_prop in Hall as [Hx Hl]. rewrite Hx. auto. Qed.
Lemma dropwhile_head : forall p c l, p c = false -> dropwhile p (c :: l) = c :: l.
Proof. intros p c l H. cbn. now rewrite H. Qed.
Lemma forallb_app' : forall (p:Z->bool) l1 l2, forallb p (l1 ++ l2) = forallb p l1 && forallb p l2.
Proof. intros. apply forallb_app. Qed.

(* ------------------------------------------------------------------ decimal digits *)
Lemma digit_val_chr : forall d, digit_val (digit_chr d) = d.
Proof. intros. unfold digit_val, digit_chr. lia. Qed.
Lemma is_digit_chr : forall d, 0 <= d < 10 -> is_digit (digit_chr d) = true.
Proof. intros. unfold is_digit, digit_chr. lia. Qed.

Lemma parse_digits_acc_app : forall l1 l2 a, parse_digits_acc a (l1 ++ l2) = parse_digits_acc (parse_digits_acc a l1) l2.
Proof. intros. unfold parse_digits_acc. apply fold_left_app. Qed.

Lemma fixed_digits_all_digit : forall k n, forallb is_digit (fixed_digits k n) = true.
Proof.
  induction k as [|k IH]; intros n; cbn [fixed_digits]; auto.
  rewrite forallb_app, IH. cbn. rewrite is_digit_chr; auto. lia.
Qed.
Lemma fixed_digits_length : forall k n, length (fixed_digits k n) = k.
Proof. induction k as [|k IH]; intros n; cbn [fixed_digits]; auto. rewrite app_length, IH. cbn. lia. Qed.

Lemma parse_fixed_acc : forall k n a, 0 <= n -> parse_digits_acc a (fixed_digits k n) = a * 10 ^ Z.of_nat k + n mod 10 ^ Z.of_nat k.
Proof.
  induction k as [|k IH]; intros n a Hn.
  - cbn. rewrite Z.mod_1_r. lia.
  - cbn [fixed_digits]. rewrite parse_digits_acc_app, IH by lia.
    unfold parse_digits_acc at 1. cbn [fold_left]. rewrite digit_val_chr.
    rewrite Nat2Z.inj_succ, Z.pow_succ_r by lia.
    assert (Hp: 0 < 10 ^ Z.of_nat k) by (apply Z.pow_pos_nonneg; lia).
    rewrite (Z.rem_mul_r n 10 (10 ^ Z.of_nat k)) by lia. lia.
Qed.
Lemma parse_fixed : forall k n, 0 <= n -> parse_digits (fixed_digits k n) = n mod 10 ^ Z.of_nat k.
Proof. intros. unfold parse_digits. rewrite parse_fixed_acc by lia. lia. Qed.

Lemma ndigits_fuel_bound : forall fuel n, 0 <= n < 2 ^ Z.of_nat fuel -> n < 10 ^ Z.of_nat (ndigits_fuel fuel n).
Proof.
  induction fuel as [|f IH]; intros n Hn.
  - cbn in *. lia.
  - cbn [ndigits_fuel]. destruct (n <? 10) eqn:E.
    + cbn. lia.
    + rewrite Nat2Z.inj_succ, Z.pow_succ_r by lia.
      assert (n / 10 < 10 ^ Z.of_nat (ndigits_fuel f (n / 10))).
      { apply IH. rewrite Nat2Z.inj_succ, Z.pow_succ_r in Hn by lia. split; [lia|].
        apply Z.div_lt_upper_bound; lia. }
      lia.
Qed.
Lemma ndigits_bound : forall n, 0 <= n -> n < 10 ^ Z.of_nat (ndigits n).
Proof.
  intros n Hn. unfold ndigits. apply ndigits_fuel_bound. split; [lia|].
  destruct (Z.eq_dec n 0) as [->|Hz]. { apply Z.pow_pos_nonneg; lia. }
  rewrite Nat2Z.inj_succ, Z2Nat.id by (apply Z.log2_nonneg).
  apply Z.log2_spec. lia.
Qed.
Lemma ndigits_pos : forall n, (1 <= ndigits n)%nat.
Proof. intros. unfold ndigits. cbn [ndigits_fuel]. destruct (n <? 10); lia. Qed.

Lemma parse_dec_nat : forall n, 0 <= n -> parse_digits (dec_nat n) = n.
Proof. intros n Hn. unfold dec_nat. rewrite parse_fixed by lia. apply Z.mod_small. split; [lia|]. now apply ndigits_bound. Qed.
Lemma dec_nat_all_digit : forall n, forallb is_digit (dec_nat n) = true.
Proof. intros. apply fixed_digits_all_digit. Qed.
Lemma dec_nat_nonempty : forall n, dec_nat n <> [].
Proof.
  intros n H. apply (f_equal (@length Z)) in H. unfold dec_nat in H. rewrite fixed_digits_length in H.
  pose proof (ndigits_pos n). change (length (@nil Z)) with 0%nat in H. lia.
Qed.

(* ------------------------------------------------------------------ (a) numeric values: parse_decimal o print_scaled *)
Lemma hd_is_digit_not : forall c l x, is_digit c = true -> (x < 48 \/ 57 < x) -> hd_is x (c :: l) = false.
Proof. intros c l x Hd Hx. unfold hd_is, is_digit in *. lia. Qed.

Lemma digits_hd : forall l, l <> [] -> forallb is_digit l = true -> exists c t, l = c :: t /\ is_digit c = true.
Proof. intros [|c t] Hne Hall; [congruence|]. cbn in Hall. apply andb_prop in Hall as [Hc _]. eauto. Qed.

Lemma parse_decimal_int : forall ip, ip <> [] -> forallb is_digit ip = true ->
  parse_decimal ip = Some (parse_digits ip, 0).
Proof.
  intros ip Hne Hall. destruct (digits_hd ip Hne Hall) as (c & t & -> & Hc).
  unfold parse_decimal. rewrite (hd_is_digit_not c t 45) by (auto; lia).
  rewrite takewhile_all, dropwhile_all by auto. f_equal. f_equal. lia.
Qed.
Lemma parse_decimal_frac : forall ip fp, ip <> [] -> forallb is_digit ip = true -> forallb is_digit fp = true ->
  parse_decimal (ip ++ 46 :: fp) = Some (parse_digits (ip ++ fp), - Z.of_nat (length fp)).
Proof.
  intros ip fp Hne Hall Hf. destruct (digits_hd ip Hne Hall) as (c & t & -> & Hc).
  unfold parse_decimal. cbn [app]. rewrite (hd_is_digit_not c (t ++ 46 :: fp) 45) by (auto; lia).
  change (c :: t ++ 46 :: fp) with ((c :: t) ++ 46 :: fp).
  rewrite takewhile_app_stop, dropwhile_app_stop by (auto).
  rewrite Z.eqb_refl. rewrite takewhile_all, dropwhile_all by auto.
  cbn [app]. f_equal. f_equal. lia.
Qed.
Lemma parse_decimal_neg : forall l m e, (exists c t, l = c :: t /\ is_digit c = true) ->
  parse_decimal l = Some (m, e) -> parse_decimal (45 :: l) = Some (- m, e).
Proof.
  intros l m e (c & t & -> & Hc) H. unfold parse_decimal in *.
  rewrite (hd_is_digit_not c t 45) in H by (auto; lia).
  change (hd_is 45 (45 :: c :: t)) with true. cbn [tl].
  cbv zeta in *.
  destruct (dropwhile is_digit (c :: t)) as [|d r2].
  - destruct (takewhile is_digit (c :: t)); [discriminate|]. injection H as <- <-. f_equal. f_equal. match goal with |- context [match ?x with _ => _ end] => destruct x end; lia.
  - destruct (d =? 46); [|discriminate].
    destruct (dropwhile is_digit r2); [|discriminate].
    destruct (takewhile is_digit (c :: t) ++ takewhile is_digit r2); [discriminate|].
    injection H as <- <-. f_equal. f_equal. match goal with |- context [match ?x with _ => _ end] => destruct x end; lia.
Qed.

Lemma dec_nat_hd : forall n, exists c t, dec_nat n = c :: t /\ is_digit c = true.
Proof. intros. apply digits_hd. apply dec_nat_nonempty. apply dec_nat_all_digit. Qed.

Lemma parse_print_unsigned : forall a s, 0 <= a ->
  parse_decimal (print_unsigned_scaled a s) = Some (if 0 <=? s then (a, - s) else (a * 10 ^ (1 - s), -1)).
Proof.
  intros a s Ha. unfold print_unsigned_scaled.
  destruct (0 <? s) eqn:E1.
  - assert (Hp: 0 < 10 ^ s) by (apply Z.pow_pos_nonneg; lia).
    rewrite parse_decimal_frac by (auto using dec_nat_nonempty, dec_nat_all_digit, fixed_digits_all_digit).
    replace (0 <=? s) with true by lia. f_equal. f_equal.
    + unfold parse_digits. rewrite parse_digits_acc_app. fold (parse_digits (dec_nat (a / 10 ^ s))).
      rewrite parse_dec_nat by (apply Z.div_pos; lia).
      rewrite parse_fixed_acc by lia. rewrite Z2Nat.id by lia.
      pose proof (Z.div_mod a (10 ^ s)). lia.
    + rewrite fixed_digits_length. lia.
  - destruct (s =? 0) eqn:E2.
    + assert (s = 0) by lia. subst s. cbn [Z.leb Z.compare]. change (0 <=? 0) with true.
      rewrite parse_decimal_int by (auto using dec_nat_nonempty, dec_nat_all_digit).
      rewrite parse_dec_nat by lia. reflexivity.
    + replace (0 <=? s) with false by lia.
      assert (Hp: 0 < 10 ^ (- s)) by (apply Z.pow_pos_nonneg; lia).
      unfold c_dot. rewrite (parse_decimal_frac (dec_nat (a * 10 ^ (- s))) [c_0]) by (auto using dec_nat_nonempty, dec_nat_all_digit).
      f_equal. f_equal.
      unfold parse_digits. rewrite parse_digits_acc_app. fold (parse_digits (dec_nat (a * 10 ^ (- s)))).
      rewrite parse_dec_nat by lia. unfold parse_digits_acc. cbn [fold_left]. unfold digit_val, c_0.
      replace (1 - s) with (Z.succ (- s)) by lia. rewrite Z.pow_succ_r by lia. lia.
Qed.

Lemma print_unsigned_hd : forall a s, exists c t, print_unsigned_scaled a s = c :: t /\ is_digit c = true.
Proof.
  intros. unfold print_unsigned_scaled.
  destruct (0 <? s); [|destruct (s =? 0)].
  - destruct (dec_nat_hd (a / 10 ^ s)) as (c & t & -> & Hc). cbn [app]. eauto.
  - apply dec_nat_hd.
  - destruct (dec_nat_hd (a * 10 ^ (- s))) as (c & t & -> & Hc). cbn [app]. eauto.
Qed.

(* the decimal numeral written for n/10^s is read back as exactly n/10^s *)
Theorem parse_print_scaled : forall n s,
  parse_decimal (print_scaled n s) = Some (if 0 <=? s then (n, - s) else (n * 10 ^ (1 - s), -1)).
Proof.
  intros n s. unfold print_scaled. destruct (n <? 0) eqn:E.
  - cbn [app]. pose proof (parse_print_unsigned (Z.abs n) s ltac:(lia)) as Hu.
    destruct (0 <=? s); (erewrite parse_decimal_neg; [|apply print_unsigned_hd|exact Hu]); f_equal; f_equal; lia.
  - cbn [app]. rewrite parse_print_unsigned by lia. destruct (0 <=? s); f_equal; f_equal; lia.
Qed.

Definition dec_denotes (me:Z*Z) (n s:Z) : Prop :=     (* m * 10^e = n / 10^s, stated without division *)
  snd me + s <= 0 /\ fst me = n * 10 ^ (- (snd me + s)).

Theorem parse_print_id : forall n s, exists me, parse_decimal (print_scaled n s) = Some me /\ dec_denotes me n s.
Proof.
  intros n s. rewrite parse_print_scaled. eexists; split; [reflexivity|].
  unfold dec_denotes. destruct (0 <=? s) eqn:E; cbn [fst snd].
  - split; [lia|]. replace (- (- s + s)) with 0 by lia. cbn. lia.
  - split; [lia|]. f_equal. f_equal. lia.
Qed.

Lemma round_half_away_exact : forall n b, 0 < b -> round_half_away_div (n * b) b = n.
Proof.
  intros n b Hb. unfold round_half_away_div.
  assert (Habs: Z.abs (n * b) = Z.abs n * b) by (rewrite Z.abs_mul; f_equal; lia).
  rewrite Habs.
  assert (Hq: (2 * (Z.abs n * b) + b) / (2 * b) = Z.abs n).
  { symmetry. apply Z.div_unique with (r := b); nia. }
  rewrite Hq. destruct (n * b <? 0) eqn:E; nia.
Qed.

(* re-quantising the decimal read back gives the raw value the element had *)
Theorem requant_parse_print : forall i ref s, exists me,
  parse_decimal (print_scaled (i + ref) s) = Some me /\ requant me s ref = i.
Proof.
  intros i ref s. rewrite parse_print_scaled. eexists; split; [reflexivity|].
  unfold requant, scaled_int. destruct (0 <=? s) eqn:E; cbn [fst snd].
  - replace (- s + s) with 0 by lia. cbn. lia.
  - replace (0 <=? -1 + s) with false by lia.
    replace (- (-1 + s)) with (1 - s) by lia.
    rewrite round_half_away_exact by (apply Z.pow_pos_nonneg; lia). lia.
Qed.

(* ------------------------------------------------------------------ (b) flag tables in binary *)
Definition is_bit (c:Z) : bool := (c =? 48) || (c =? 49).
Lemma bits_msb_all_bit : forall k v, forallb is_bit (bits_msb k v) = true.
Proof.
  induction k as [|k IH]; intros v; cbn [bits_msb]; auto.
  rewrite forallb_app, IH. cbn. destruct (Z.odd v); reflexivity.
Qed.
Lemma bits_msb_length : forall k v, length (bits_msb k v) = k.
Proof. induction k as [|k IH]; intros v; cbn [bits_msb]; auto. rewrite app_length, IH. cbn. lia. Qed.
Lemma count_space_bits : forall l, forallb is_bit l = true -> count_space l = 0%nat.
Proof.
  induction l as [|c l IH]; intros H; cbn in *; auto. apply andb_prop in H as [Hc Hl].
  rewrite IH by auto. unfold is_bit, is_space in *. replace ((c =? 32) || (9 <=? c) && (c <=? 13)) with false by lia. reflexivity.
Qed.
Lemma all_bin_bits : forall l b, forallb is_bit l = true -> all_bin b l = true.
Proof.
  induction l as [|c l IH]; intros b H; cbn in *; auto. apply andb_prop in H as [Hc Hl].
  rewrite IH by auto. unfold is_bit in Hc. lia.
Qed.
Lemma str_is_binary_bits : forall l, forallb is_bit l = true -> str_is_binary l = true.
Proof.
  intros l H. unfold str_is_binary.
  assert (Ht: count_space (tl l) = 0%nat). { apply count_space_bits. destruct l; cbn in *; auto. apply andb_prop in H as [_ H]. exact H. }
  rewrite Ht, Nat.sub_0_r, firstn_all. now apply all_bin_bits.
Qed.

Lemma bin_fold : forall k u b acc, 0 <= u -> 0 <= b -> 0 <= acc -> acc + b * (u mod 2 ^ Z.of_nat k) < 2 ^ 64 ->
  fold_left bin_step (bits_msb k u) (b * 2 ^ Z.of_nat k, acc) = (b, acc + b * (u mod 2 ^ Z.of_nat k)).
Proof.
  induction k as [|k IH]; intros u b acc Hu Hb Hacc Hlt.
  - cbn. rewrite Z.mod_1_r. f_equal; lia.
  - cbn [bits_msb]. rewrite fold_left_app.
    rewrite Nat2Z.inj_succ, Z.pow_succ_r in * by lia.
    assert (Hp: 0 < 2 ^ Z.of_nat k) by (apply Z.pow_pos_nonneg; lia).
    assert (Hsplit: u mod (2 * 2 ^ Z.of_nat k) = u mod 2 + 2 * ((u / 2) mod 2 ^ Z.of_nat k)) by (apply Z.rem_mul_r; lia).
    assert (Hm: 0 <= (u / 2) mod 2 ^ Z.of_nat k) by (apply Z.mod_pos_bound; lia).
    assert (Hm2: 0 <= u mod 2 < 2) by (apply Z.mod_pos_bound; lia).
    replace (b * (2 * 2 ^ Z.of_nat k)) with ((2 * b) * 2 ^ Z.of_nat k) by lia.
    rewrite IH by (try apply Z.div_pos; nia).
    cbn [fold_left]. unfold bin_step. cbn [fst snd].
    replace (2 * b / 2) with b by lia.
    rewrite Hsplit. rewrite (Zmod_odd u) in *.
    destruct (Z.odd u); unfold c_1, c_0.
    + change (49 =? 49) with true. cbv iota. f_equal. rewrite Z.mod_small by nia. lia.
    + change (48 =? 49) with false. cbv iota. f_equal. lia.
Qed.

Lemma bitlen_le : forall w v, 0 <= v < 2 ^ w -> 0 <= w -> (bitlen v <= Z.to_nat w)%nat.
Proof.
  intros w v Hv Hw. unfold bitlen. destruct (v <=? 0) eqn:E; [lia|].
  assert (Z.log2 v < w) by (apply Z.log2_lt_pow2; lia).
  pose proof (Z.log2_nonneg v). lia.
Qed.

(* every value of every width up to 63 bits survives print_binary / binary_to_int *)
Theorem binary_roundtrip : forall w v, 1 <= w <= 63 -> 0 <= v < 2 ^ w ->
  str_is_binary (print_binary w v) = true /\ binary_to_int (print_binary w v) = v /\
  length (print_binary w v) = Z.to_nat w.
Proof.
  intros w v Hw Hv. unfold print_binary. replace (v <? 0) with false by lia.
  rewrite Nat.max_l by (apply bitlen_le; lia).
  pose proof (bits_msb_all_bit (Z.to_nat w) v) as Hb.
  split; [now apply str_is_binary_bits|]. split; [|apply bits_msb_length].
  unfold binary_to_int. rewrite str_is_binary_bits by auto. rewrite bits_msb_length.
  rewrite Z2Nat.id by lia.
  assert (H64: 2 ^ w < 2 ^ 64) by (apply Z.pow_lt_mono_r; lia).
  assert (Hp: 0 < 2 ^ w) by (apply Z.pow_pos_nonneg; lia).
  rewrite Z.mod_small by lia.
  replace (2 ^ w) with (1 * 2 ^ Z.of_nat (Z.to_nat w)) at 1 by (rewrite Z2Nat.id by lia; lia).
  rewrite bin_fold; rewrite ?Z2Nat.id by lia; try lia; cbn [snd]; rewrite Z.mod_small by lia; lia.
Qed.

(* at 64 bits the uint64_t shift of bufr_binary_to_int wraps: (1 << 64) is 0 *)
Theorem binary_64_refuted : exists v, 0 <= v < 2 ^ 64 /\ binary_to_int (print_binary 64 v) <> v.
Proof. exists 1. split; [lia|]. vm_compute. discriminate. Qed.

(* the dump prints a flag table as MSNG when its int32 value is negative *)

(* ------------------------------------------------------------------ tokenizer and trimming lemmas *)
Definition nonep (p:Z->bool) (l:str) : bool := forallb (fun c => negb (p c)) l.

Lemma strtok_whole : forall isd l, l <> [] -> nonep isd l = true -> strtok isd l = Some (l, []).
Proof.
  intros isd [|c t] Hne H; [congruence|]. unfold strtok, nonep in *.
  assert (Hc: isd c = false). { cbn in H. apply andb_prop in H as [Hc _]. now destruct (isd c). }
  rewrite dropwhile_head by auto. rewrite takewhile_all, dropwhile_all by auto. reflexivity.
Qed.
Lemma strtok_split : forall isd tok d rest, tok <> [] -> nonep isd tok = true -> isd d = true ->
  strtok isd (tok ++ d :: rest) = Some (tok, rest).
Proof.
  intros isd [|c t] d rest Hne H Hd; [congruence|]. unfold strtok, nonep in *.
  assert (Hc: isd c = false). { cbn in H. apply andb_prop in H as [Hc _]. now destruct (isd c). }
  cbn [app]. rewrite dropwhile_head by auto.
  change (c :: t ++ d :: rest) with ((c :: t) ++ d :: rest).
  rewrite takewhile_app_stop, dropwhile_app_stop by (auto; now rewrite Hd). reflexivity.
Qed.
Lemma strtok_skip : forall isd pre l, forallb isd pre = true -> strtok isd (pre ++ l) = strtok isd l.
Proof.
  intros isd pre l H. unfold strtok.
  assert (E: dropwhile isd (pre ++ l) = dropwhile isd l).
  { induction pre as [|x pre IH]; cbn in *; auto. apply andb_prop in H as [Hx Hp]. rewrite Hx. auto. }
  now rewrite E.
Qed.
Lemma strtok_nil : forall isd, strtok isd [] = None.
Proof. reflexivity. Qed.

Lemma rstrip_nil : rstrip [] = [].
Proof. reflexivity. Qed.
Lemma rstrip_snoc_space : forall l c, is_space c = true -> rstrip (l ++ [c]) = rstrip l.
Proof. intros l c H. unfold rstrip. rewrite rev_app_distr. cbn. now rewrite H. Qed.
Lemma rstrip_snoc_keep : forall l c, is_space c = false -> rstrip (l ++ [c]) = l ++ [c].
Proof. intros l c H. unfold rstrip. rewrite rev_app_distr. cbn [rev app]. rewrite dropwhile_head by auto. cbn [rev]. now rewrite rev_involutive. Qed.

Lemma before_last_snoc : forall c l, before_last c (l ++ [c]) = Some l.
Proof.
  intros c l. induction l as [|x l IH]; cbn [app before_last].
  - now rewrite Z.eqb_refl.
  - now rewrite IH.
Qed.
Lemma after_last_none : forall c l, nonep (fun x => x =? c) l = true -> after_last c l = None.
Proof.
  intros c l. unfold nonep. induction l as [|x l IH]; intros H; cbn in *; auto.
  apply andb_prop in H as [Hx Hl]. rewrite IH by auto. now destruct (x =? c).
Qed.
Lemma after_last_app : forall c l1 l2, nonep (fun x => x =? c) l2 = true -> after_last c (l1 ++ c :: l2) = Some l2.
Proof.
  intros c l1 l2 H. induction l1 as [|x l1 IH]; cbn [app after_last].
  - rewrite after_last_none by auto. now rewrite Z.eqb_refl.
  - now rewrite IH.
Qed.

Definition no_nul (l:str) : bool := forallb (fun c => negb (c =? 0)) l.
Lemma c_string_id : forall l, no_nul l = true -> c_string l = l.
Proof. intros. unfold c_string. now apply takewhile_all. Qed.
Lemma no_nul_app : forall a b, no_nul (a ++ b) = no_nul a && no_nul b.
Proof. intros. unfold no_nul. apply forallb_app. Qed.

Lemma str_eqb_refl : forall a, str_eqb a a = true.
Proof. induction a as [|x a IH]; cbn; auto. now rewrite Z.eqb_refl, IH. Qed.
Lemma str_eqb_eq : forall a b, str_eqb a b = true -> a = b.
Proof.
  induction a as [|x a IH]; intros [|y b] H; cbn in H; try discriminate; auto.
  apply andb_prop in H as [Hx Hab]. f_equal; [lia|auto].
Qed.
Lemma str_eqb_neq : forall a b, a <> b -> str_eqb a b = false.
Proof. intros a b H. destruct (str_eqb a b) eqn:E; auto. apply str_eqb_eq in E. congruence. Qed.

Lemma forallb_impl : forall (p q:Z->bool) l, (forall c, p c = true -> q c = true) -> forallb p l = true -> forallb q l = true.
Proof. intros p q l Hpq. induction l as [|x l IH]; cbn; auto. intros H. apply andb_prop in H as [Hx Hl]. rewrite Hpq, IH; auto. Qed.

(* ------------------------------------------------------------------ hexadecimal *)
Lemma hex_val_chr : forall d, 0 <= d < 16 -> hex_val (hex_chr d) = Some d.
Proof.
  intros d Hd. unfold hex_val, hex_chr, is_digit. destruct (d <? 10) eqn:E.
  - replace ((48 <=? d + 48) && (d + 48 <=? 57)) with true by lia. f_equal. lia.
  - replace ((48 <=? d + 87) && (d + 87 <=? 57)) with false by lia.
    replace ((97 <=? d + 87) && (d + 87 <=? 102)) with true by lia. f_equal. lia.
Qed.
Lemma parse_fixed_hex : forall k n a l2, 0 <= n ->
  parse_hex_acc a (fixed_hex k n ++ l2) = parse_hex_acc (a * 16 ^ Z.of_nat k + n mod 16 ^ Z.of_nat k) l2.
Proof.
  induction k as [|k IH]; intros n a l2 Hn.
  - cbn [fixed_hex app]. rewrite Z.mod_1_r. f_equal. cbn. lia.
  - cbn [fixed_hex]. rewrite <- app_assoc. cbn [app]. rewrite IH by lia.
    cbn [parse_hex_acc]. rewrite hex_val_chr by lia. f_equal.
    rewrite Nat2Z.inj_succ, Z.pow_succ_r by lia.
    assert (Hp: 0 < 16 ^ Z.of_nat k) by (apply Z.pow_pos_nonneg; lia).
    rewrite (Z.rem_mul_r n 16 (16 ^ Z.of_nat k)) by lia. lia.
Qed.
Lemma nhex_fuel_bound : forall fuel n, 0 <= n < 2 ^ Z.of_nat fuel -> n < 16 ^ Z.of_nat (nhex_fuel fuel n).
Proof.
  induction fuel as [|f IH]; intros n Hn.
  - cbn in *. lia.
  - cbn [nhex_fuel]. destruct (n <? 16) eqn:E.
    + cbn. lia.
    + rewrite Nat2Z.inj_succ, Z.pow_succ_r by lia.
      assert (n / 16 < 16 ^ Z.of_nat (nhex_fuel f (n / 16))).
      { apply IH. rewrite Nat2Z.inj_succ, Z.pow_succ_r in Hn by lia. split; [lia|]. apply Z.div_lt_upper_bound; lia. }
      lia.
Qed.
Lemma scan_hex_nat : forall n l2, 0 <= n -> (forall c t, l2 = c :: t -> hex_val c = None) ->
  parse_hex_acc 0 (hex_nat n ++ l2) = n.
Proof.
  intros n l2 Hn Hl2. unfold hex_nat. rewrite parse_fixed_hex by lia.
  rewrite Z.mod_small.
  - destruct l2 as [|c t]; cbn [parse_hex_acc]; [lia|]. rewrite (Hl2 c t eq_refl). lia.
  - split; [lia|]. apply nhex_fuel_bound. split; [lia|].
    destruct (Z.eq_dec n 0) as [->|Hz]. { apply Z.pow_pos_nonneg; lia. }
    rewrite Nat2Z.inj_succ, Z2Nat.id by (apply Z.log2_nonneg). apply Z.log2_spec. lia.
Qed.
Definition is_hexc (c:Z) : bool := is_digit c || ((97 <=? c) && (c <=? 102)).
Lemma fixed_hex_all : forall k n, 0 <= n -> forallb is_hexc (fixed_hex k n) = true.
Proof.
  induction k as [|k IH]; intros n Hn; cbn [fixed_hex]; auto.
  rewrite forallb_app, IH by lia. cbn. unfold is_hexc, is_digit, hex_chr.
  destruct (n mod 16 <? 10) eqn:E; lia.
Qed.

(* ------------------------------------------------------------------ the {..} comment in front of a value *)
(* a sequence of groups { body } (body without '}'), each followed by any number of blanks *)
Inductive gseq : str -> Prop :=
  | GS_nil : gseq []
  | GS_cons : forall body sp rest, nonep (fun c => c =? 125) body = true -> forallb is_space sp = true -> gseq rest ->
      gseq (123 :: body ++ 125 :: sp ++ rest).
Lemma gseq_app : forall a b, gseq a -> gseq b -> gseq (a ++ b).
Proof.
  intros a b Ha Hb. induction Ha as [|body sp rest H1 H2 H3 IH]; auto.
  cbn [app]. rewrite <- app_assoc. cbn [app]. rewrite <- app_assoc. now constructor.
Qed.
Lemma dropwhile_space_app : forall sp l, forallb is_space sp = true -> dropwhile is_space (sp ++ l) = dropwhile is_space l.
Proof. induction sp as [|x sp IH]; intros l H; cbn in *; auto. apply andb_prop in H as [Hx Hs]. rewrite Hx. auto. Qed.
Definition starts_nonspace (X:str) : Prop := dropwhile is_space X = X.
Lemma gseq_starts_nonspace : forall P X, gseq P -> starts_nonspace X -> starts_nonspace (P ++ X).
Proof. intros P X HP HX. destruct HP; auto. unfold starts_nonspace. reflexivity. Qed.

Lemma skip_groups_gseq : forall P, gseq P -> forall X fuel, (length P <= fuel)%nat -> hd_is 123 X = false -> starts_nonspace X ->
  skip_groups fuel (P ++ X) = X.
Proof.
  intros P HP. induction HP as [|body sp rest H1 H2 H3 IH]; intros X fuel Hf HX Hs.
  - destruct fuel as [|f]; [reflexivity|]. cbn [app skip_groups]. now rewrite HX.
  - destruct fuel as [|f]; [cbn in Hf; lia|].
    cbn [skip_groups app]. change (hd_is 123 (123 :: _)) with true. cbv iota.
    assert (E: dropwhile (fun c => negb (c =? c_rbrace)) (123 :: (body ++ 125 :: sp ++ rest) ++ X) = 125 :: sp ++ rest ++ X).
    { change (123 :: (body ++ 125 :: sp ++ rest) ++ X) with ((123 :: body ++ 125 :: sp ++ rest) ++ X).
      change (123 :: body ++ 125 :: sp ++ rest) with ((123 :: body) ++ 125 :: sp ++ rest).
      rewrite <- app_assoc. cbn [app]. rewrite <- app_assoc.
      change (123 :: body ++ 125 :: sp ++ rest ++ X) with ((123 :: body) ++ 125 :: sp ++ rest ++ X).
      apply dropwhile_app_stop; [|reflexivity]. cbn. exact H1. }
    rewrite E. change (hd_is 125 (125 :: _)) with true. cbv iota. cbn [tl].
    rewrite dropwhile_space_app by auto.
    rewrite (gseq_starts_nonspace rest X H3 Hs).
    apply IH; auto. cbn [length] in Hf. rewrite !app_length in Hf. cbn [length] in Hf. rewrite app_length in Hf. lia.
Qed.

(* prefix written by the dump in front of a value: groups; if not empty the last one is followed by exactly one blank *)
Definition render (gs:list (str * str)) : str := flat_map (fun g => 123 :: fst g ++ 125 :: snd g) gs.
Definition groups_ok (gs:list (str * str)) : Prop :=
  Forall (fun g => nonep (fun c => c =? 125) (fst g) = true /\ forallb is_space (snd g) = true) gs.
Lemma gseq_render : forall gs, groups_ok gs -> gseq (render gs).
Proof.
  induction gs as [|[b sp] gs IH]; intros H; cbn [render flat_map]; [constructor|].
  inversion H as [|? ? [H1 H2] H3]; subst. cbn [fst snd] in *.
  replace ((123 :: b ++ 125 :: sp) ++ flat_map (fun g => 123 :: fst g ++ 125 :: snd g) gs)
    with (123 :: b ++ 125 :: sp ++ render gs) by (cbn [app]; rewrite <- app_assoc; reflexivity).
  constructor; auto.
Qed.
Definition prefix_ok (P:str) : Prop :=
  no_nul P = true /\
  (P = [] \/ exists gs body, groups_ok gs /\ nonep (fun c => c =? 125) body = true /\ P = render gs ++ 123 :: body ++ [125; 32]).

Lemma prefix_gseq : forall P, prefix_ok P -> gseq P.
Proof.
  intros P (_ & [->|(gs & body & Hgs & Hb & ->)]); [constructor|].
  apply gseq_app; [now apply gseq_render|].
  change (123 :: body ++ [125; 32]) with (123 :: body ++ 125 :: [32] ++ []). constructor; auto. constructor.
Qed.
Lemma prefix_stripped_gseq : forall gs body, groups_ok gs -> nonep (fun c => c =? 125) body = true ->
  gseq (render gs ++ 123 :: body ++ [125]).
Proof.
  intros. apply gseq_app; [now apply gseq_render|].
  change (123 :: body ++ [125]) with (123 :: body ++ 125 :: [] ++ []). constructor; auto. constructor.
Qed.

Lemma gseq_hd : forall P, gseq P -> P <> [] -> hd_is 123 P = true.
Proof. intros P H Hne. destruct H; [congruence|reflexivity]. Qed.

Lemma skip_meta_prefix : forall fm P X, prefix_ok P -> P <> [] -> hd_is 123 X = false -> starts_nonspace X ->
  (fm = false -> nonep (fun c => c =? 125) X = true) ->
  skip_meta fm (P ++ X) = (if fm then [] else [32]) ++ X.
Proof.
  intros fm P X HP Hne HX Hs Hno. pose proof (prefix_gseq P HP) as Hg. destruct HP as (_ & Hend).
  unfold skip_meta. destruct fm.
  - cbn [app]. apply skip_groups_gseq; auto. rewrite app_length. lia.
  - destruct Hend as [->|(gs & body & _ & _ & ->)]; [congruence|].
    replace ((render gs ++ 123 :: body ++ [125; 32]) ++ X) with ((render gs ++ 123 :: body) ++ 125 :: 32 :: X)
      by (rewrite <- !app_assoc; cbn [app]; rewrite <- app_assoc; reflexivity).
    unfold c_rbrace. rewrite after_last_app; [reflexivity|]. cbn. now apply Hno.
Qed.
(* the same prefix with the final blank removed (a line that carries no value) is skipped entirely *)
Lemma skip_meta_stripped : forall fm gs body, groups_ok gs -> nonep (fun c => c =? 125) body = true ->
  skip_meta fm (render gs ++ 123 :: body ++ [125]) = [].
Proof.
  intros fm gs body Hgs Hb. unfold skip_meta. destruct fm.
  - rewrite <- (app_nil_r (render gs ++ 123 :: body ++ [125])) at 2.
    apply skip_groups_gseq; auto using prefix_stripped_gseq. reflexivity.
  - replace (render gs ++ 123 :: body ++ [125]) with ((render gs ++ 123 :: body) ++ 125 :: [])
      by (rewrite <- !app_assoc; reflexivity).
    unfold c_rbrace. now rewrite after_last_app.
Qed.

(* ------------------------------------------------------------------ stages of load_rest on what the dump writes *)
Definition ends_nonspace (X:str) : Prop := exists X' c, X = X' ++ [c] /\ is_space c = false.
Definition lead (fm:bool) (P:str) : str := match P with [] => [] | _ => if fm then [] else [32] end.

Lemma hd_is_app : forall c P X, P <> [] -> hd_is c (P ++ X) = hd_is c P.
Proof. intros c [|x P] X H; [congruence|reflexivity]. Qed.

Lemma stage_meta_value : forall fm P X, prefix_ok P -> no_nul X = true -> ends_nonspace X -> starts_nonspace X ->
  hd_is 123 X = false -> (fm = false -> P <> [] -> nonep (fun c => c =? 125) X = true) ->
  stage_meta fm (P ++ X ++ [10]) = lead fm P ++ X.
Proof.
  intros fm P X HP Hnul (X' & c & -> & Hc) Hs HX Hno. unfold stage_meta.
  assert (HnP: no_nul P = true) by apply HP.
  rewrite c_string_id by (rewrite no_nul_app, HnP; cbn [andb]; rewrite no_nul_app, Hnul; reflexivity).
  replace (P ++ (X' ++ [c]) ++ [10]) with ((P ++ X' ++ [c]) ++ [10]) by (now rewrite <- !app_assoc).
  rewrite rstrip_snoc_space by reflexivity.
  replace (P ++ X' ++ [c]) with ((P ++ X') ++ [c]) by (now rewrite <- app_assoc).
  rewrite rstrip_snoc_keep by auto. rewrite <- app_assoc.
  rewrite (gseq_starts_nonspace P (X' ++ [c]) (prefix_gseq P HP) Hs).
  destruct P as [|p P0] eqn:EP.
  - cbn [app lead]. now rewrite HX.
  - rewrite <- EP in *. assert (Hne: P <> []) by (rewrite EP; discriminate).
    rewrite hd_is_app, (gseq_hd P (prefix_gseq P HP)) by auto.
    rewrite skip_meta_prefix by auto. unfold lead. rewrite EP. reflexivity.
Qed.

Lemma stage_meta_novalue : forall fm P, prefix_ok P -> stage_meta fm (P ++ [10]) = [].
Proof.
  intros fm P HP. unfold stage_meta.
  assert (HnP: no_nul P = true) by apply HP.
  rewrite c_string_id by (rewrite no_nul_app, HnP; reflexivity).
  rewrite rstrip_snoc_space by reflexivity.
  destruct HP as (_ & [->|(gs & body & Hgs & Hb & ->)]).
  - reflexivity.
  - replace (render gs ++ 123 :: body ++ [125; 32]) with ((render gs ++ 123 :: body ++ [125]) ++ [32])
      by (rewrite <- !app_assoc; cbn [app]; rewrite <- app_assoc; reflexivity).
    rewrite rstrip_snoc_space by reflexivity.
    replace (render gs ++ 123 :: body ++ [125]) with ((render gs ++ 123 :: body) ++ [125])
      by (rewrite <- !app_assoc; reflexivity).
    rewrite rstrip_snoc_keep by reflexivity.
    replace ((render gs ++ 123 :: body) ++ [125]) with (render gs ++ 123 :: body ++ [125])
      by (rewrite <- !app_assoc; reflexivity).
    pose proof (prefix_stripped_gseq gs body Hgs Hb) as Hg.
    pose proof (gseq_starts_nonspace _ [] Hg eq_refl) as E. rewrite app_nil_r in E. unfold starts_nonspace in E. rewrite E.
    rewrite (gseq_hd _ Hg) by (destruct (render gs); discriminate).
    now apply skip_meta_stripped.
Qed.

(* associated field *)
Definition af_text (oaf:option (Z*Z)) : str := match oaf with Some (b, n) => print_af b n | None => [] end.
Definition af_ok (oaf:option (Z*Z)) : Prop := match oaf with Some (b, n) => 0 <= b /\ 0 <= n | None => True end.

Lemma lead_space : forall fm P, forallb is_space (lead fm P) = true.
Proof. intros fm [|p P]; cbn; auto. destruct fm; reflexivity. Qed.
Lemma lead_32 : forall fm P, forallb (fun c => c =? 32) (lead fm P) = true.
Proof. intros fm [|p P]; cbn; auto. destruct fm; reflexivity. Qed.
Lemma lead_len : forall fm P, (length (lead fm P) <= 1)%nat.
Proof. intros fm [|p P]; cbn; auto. destruct fm; cbn; lia. Qed.

Lemma stage_af_none : forall sp0 V, forallb is_space sp0 = true -> starts_nonspace V -> hd_is 40 V = false ->
  stage_af (sp0 ++ V) = (None, V, false).
Proof.
  intros sp0 V Hsp Hs HV. unfold stage_af. rewrite dropwhile_space_app by auto. rewrite Hs. now rewrite HV.
Qed.

Lemma hex_not_daf : forall l, forallb is_hexc l = true -> nonep d_af l = true.
Proof. intros l. unfold nonep. apply forallb_impl. intros c H. unfold is_hexc, is_digit, d_af in *. lia. Qed.
Lemma digits_not_rpar : forall l, forallb is_digit l = true -> forallb (fun c => negb (c =? c_rpar)) l = true.
Proof. intros l. apply forallb_impl. intros c H. unfold is_digit, c_rpar in *. lia. Qed.

Lemma stage_af_some : forall sp0 b n V, forallb (fun c => c =? 32) sp0 = true -> (length sp0 <= 1)%nat -> 0 <= b -> 0 <= n -> starts_nonspace V ->
  stage_af (sp0 ++ print_af b n ++ V) = (Some b, V, false).
Proof.
  intros sp0 b n V Hsp32 Hlen Hb Hn Hs. unfold stage_af.
  assert (Hsp: forallb is_space sp0 = true) by (revert Hsp32; apply forallb_impl; intros c H; unfold is_space; lia).
  rewrite dropwhile_space_app by auto.
  unfold print_af. cbn [app]. rewrite dropwhile_head by reflexivity.
  change (hd_is 40 (c_lpar :: _)) with true. cbv iota.
  (* strtok *)
  assert (Ht: strtok d_af (sp0 ++ c_lpar :: 48 :: 120 :: (hex_nat b ++ c_colon :: dec_int n ++ [98; 105; 116; 115; c_rpar]) ++ V)
              = Some (48 :: 120 :: hex_nat b, dec_int n ++ [98; 105; 116; 115; c_rpar] ++ V)).
  { change (sp0 ++ c_lpar :: ?r) with (sp0 ++ [c_lpar] ++ r). rewrite app_assoc.
    rewrite strtok_skip.
    - replace (48 :: 120 :: (hex_nat b ++ c_colon :: dec_int n ++ [98; 105; 116; 115; c_rpar]) ++ V)
        with ((48 :: 120 :: hex_nat b) ++ c_colon :: (dec_int n ++ [98; 105; 116; 115; c_rpar] ++ V))
        by list_eq.
      apply strtok_split; [discriminate| |reflexivity].
      unfold nonep. cbn [forallb]. change (negb (d_af 48)) with true. change (negb (d_af 120)) with true. cbn [andb].
      apply hex_not_daf. apply fixed_hex_all. lia.
    - rewrite forallb_app. cbn. rewrite andb_true_r. revert Hsp32. apply forallb_impl. intros c H. unfold d_af in *. lia. }
  assert (Hlens: forall A:str, Nat.sub (length (sp0 ++ A)) (length A) = length sp0).
  { intros A. rewrite app_length. lia. }
  rewrite Ht, Hlens.
  (* the value of the field *)
  assert (Hscan: scan_hex (48 :: 120 :: hex_nat b) = b).
  { unfold scan_hex. cbn [hd_is tl]. change (48 =? 48) with true. change (120 =? 120) with true. cbn [andb orb].
    rewrite <- (app_nil_r (hex_nat b)). apply scan_hex_nat; [lia|]. intros; discriminate. }
  rewrite Hscan.
  (* find the closing parenthesis *)
  unfold dec_int. replace (n <? 0) with false by lia.
  destruct (dec_nat_hd n) as (c & t & En & Hc).
  pose proof (dec_nat_all_digit n) as Hd. rewrite En in *. cbn [forallb] in Hd. apply andb_prop in Hd as [_ Hd].
  assert (Hq: forall k, (k <= 1)%nat ->
      dropwhile (fun c0 => negb (c0 =? c_rpar)) (skipn k ((c :: t) ++ [98; 105; 116; 115; c_rpar] ++ V)) = c_rpar :: V).
  { intros k Hk. destruct k as [|[|k]]; [| |lia]; cbn [skipn app].
    - replace (c :: t ++ 98 :: 105 :: 116 :: 115 :: c_rpar :: V) with ((c :: t ++ [98; 105; 116; 115]) ++ c_rpar :: V)
        by list_eq.
      apply dropwhile_app_stop; [|reflexivity]. cbn [forallb]. rewrite forallb_app, digits_not_rpar by auto.
      unfold is_digit, c_rpar in *. cbn. lia.
    - replace (t ++ 98 :: 105 :: 116 :: 115 :: c_rpar :: V) with ((t ++ [98; 105; 116; 115]) ++ c_rpar :: V)
        by list_eq.
      apply dropwhile_app_stop; [|reflexivity]. rewrite forallb_app, digits_not_rpar by auto. reflexivity. }
  rewrite Hq by auto. change (hd_is 41 (c_rpar :: V)) with true. cbv iota. cbn [tl]. now rewrite Hs.
Qed.

(* ------------------------------------------------------------------ value tokens *)
(* characters of the unquoted value tokens the dump writes: digits, '-', '.', and the letters of MSNG *)
Definition plainc (c:Z) : bool := is_digit c || (c =? 45) || (c =? 46) || (c =? 77) || (c =? 83) || (c =? 78) || (c =? 71).
Definition plain (V:str) : bool := forallb plainc V.

Lemma last_split : forall (l:str), l <> [] -> exists l' c, l = l' ++ [c].
Proof. intros l H. destruct (exists_last H) as (l' & c & ->). eauto. Qed.
Lemma forallb_last : forall (p:Z->bool) l c, forallb p (l ++ [c]) = true -> p c = true.
Proof. intros p l c H. rewrite forallb_app in H. apply andb_prop in H as [_ H]. cbn in H. now rewrite andb_true_r in H. Qed.

Lemma plain_props : forall V, V <> [] -> plain V = true ->
  no_nul V = true /\ ends_nonspace V /\ starts_nonspace V /\ hd_is 123 V = false /\ hd_is 40 V = false /\ hd_is 34 V = false /\
  nonep (fun c => c =? 125) V = true /\ nonep d_value V = true.
Proof.
  intros V Hne Hp. unfold plain in Hp.
  assert (Hall: forall q:Z->bool, (forall c, plainc c = true -> q c = true) -> forallb q V = true)
    by (intros q Hq; revert Hp; now apply forallb_impl).
  split; [apply Hall; intros c H; unfold plainc, is_digit in H; lia|].
  split. { destruct (last_split V Hne) as (V' & c & ->). exists V', c. split; auto.
           apply forallb_last in Hp. unfold plainc, is_digit, is_space in *. lia. }
  destruct V as [|c t]; [congruence|]. cbn [forallb] in Hp. apply andb_prop in Hp as [Hc _].
  assert (Hsp: is_space c = false) by (unfold plainc, is_digit, is_space in *; lia).
  split; [unfold starts_nonspace; cbn; now rewrite Hsp|].
  unfold hd_is. repeat split; try (unfold plainc, is_digit in Hc; lia).
  - apply Hall. intros x H. unfold plainc, is_digit in H. lia.
  - apply Hall. intros x H. unfold plainc, is_digit, d_value in *. lia.
Qed.

Lemma stage_tok_plain : forall fq vt af V, V <> [] -> plain V = true ->
  stage_tok fq vt af V = mkLV af (load_token fq vt false V).
Proof.
  intros fq vt af V Hne Hp. destruct (plain_props V Hne Hp) as (_ & _ & _ & _ & _ & Hq & _ & Hd).
  unfold stage_tok. rewrite Hq. now rewrite strtok_whole.
Qed.

Definition str_ok (s:str) : Prop :=
  s <> [] /\ forallb (fun c => negb (c =? 0) && negb (c =? 10) && negb (c =? 13)) s = true.

Lemma cut_closing_quote_snoc : forall s, s <> [] -> cut_closing_quote (s ++ [c_quote]) = s.
Proof. intros [|x s] H; [congruence|]. cbn [app cut_closing_quote]. now rewrite before_last_snoc. Qed.

Lemma stage_tok_string : forall fq vt af s, str_ok s ->
  stage_tok fq vt af (print_string s) = mkLV af (load_token fq vt true s).
Proof.
  intros fq vt af s (Hne & Hs). unfold stage_tok, print_string.
  rewrite c_string_id by (revert Hs; apply forallb_impl; intros c H; lia).
  change (hd_is 34 (c_quote :: _)) with true. cbv iota. cbn [tl].
  rewrite strtok_whole.
  - now rewrite cut_closing_quote_snoc.
  - destruct s; discriminate.
  - unfold nonep. rewrite forallb_app. cbn. rewrite andb_true_r. revert Hs. apply forallb_impl. intros c H. unfold d_nlcr. lia.
Qed.

(* properties of a quoted string as a value text *)
Lemma string_props : forall s, str_ok s ->
  no_nul (print_string s) = true /\ ends_nonspace (print_string s) /\ starts_nonspace (print_string s) /\
  hd_is 123 (print_string s) = false /\ hd_is 40 (print_string s) = false.
Proof.
  intros s (Hne & Hs). unfold print_string.
  assert (Hn: no_nul s = true) by (revert Hs; apply forallb_impl; intros c H; lia).
  rewrite c_string_id by auto.
  split. { change (c_quote :: s ++ [c_quote]) with ([c_quote] ++ s ++ [c_quote]). rewrite !no_nul_app, Hn. reflexivity. }
  split. { exists (c_quote :: s), c_quote. split; reflexivity. }
  repeat split.
Qed.

Lemma atoi_dec_nat : forall n, 0 <= n -> atoi (dec_nat n) = n.
Proof.
  intros n Hn. unfold atoi. destruct (dec_nat_hd n) as (c & t & E & Hc).
  assert (Hsp: is_space c = false) by (unfold is_digit, is_space in *; lia).
  rewrite E, dropwhile_head by auto.
  rewrite !hd_is_digit_not by (auto; lia). rewrite <- E.
  rewrite takewhile_all by apply dec_nat_all_digit. now apply parse_dec_nat.
Qed.
Lemma atoi_dec_int : forall z, atoi (dec_int z) = z.
Proof.
  intros z. unfold dec_int. destruct (z <? 0) eqn:E; [|apply atoi_dec_nat; lia].
  unfold atoi. rewrite dropwhile_head by reflexivity. change (hd_is 45 (c_minus :: _)) with true. cbv iota. cbn [tl].
  rewrite takewhile_all by apply dec_nat_all_digit. rewrite parse_dec_nat by lia. lia.
Qed.

Lemma dec_nat_plain : forall n, plain (dec_nat n) = true.
Proof. intros. unfold plain. generalize (dec_nat_all_digit n). apply forallb_impl. intros c H. unfold plainc. now rewrite H. Qed.
Lemma fixed_digits_plain : forall k n, plain (fixed_digits k n) = true.
Proof. intros. unfold plain. generalize (fixed_digits_all_digit k n). apply forallb_impl. intros c H. unfold plainc. now rewrite H. Qed.
Lemma dec_int_plain : forall z, plain (dec_int z) = true /\ dec_int z <> [].
Proof.
  intros z. unfold dec_int. destruct (z <? 0).
  - split; [|discriminate]. unfold plain. cbn [forallb]. fold (plain (dec_nat (- z))). now rewrite dec_nat_plain.
  - split; [apply dec_nat_plain|apply dec_nat_nonempty].
Qed.
Lemma print_scaled_plain : forall n s, plain (print_scaled n s) = true /\ print_scaled n s <> [].
Proof.
  intros n s. unfold print_scaled, print_unsigned_scaled. split.
  - unfold plain. rewrite forallb_app. apply andb_true_intro. split; [destruct (n <? 0); reflexivity|].
    destruct (0 <? s); [|destruct (s =? 0)].
    + rewrite forallb_app. fold (plain (dec_nat (Z.abs n / 10 ^ s))). rewrite dec_nat_plain. cbn [forallb andb].
      fold (plain (fixed_digits (Z.to_nat s) (Z.abs n))). now rewrite fixed_digits_plain.
    + apply dec_nat_plain.
    + rewrite forallb_app. fold (plain (dec_nat (Z.abs n * 10 ^ (- s)))). now rewrite dec_nat_plain.
  - destruct (print_unsigned_hd (Z.abs n) s) as (c & t & E & _). unfold print_unsigned_scaled in E. rewrite E.
    destruct (n <? 0); discriminate.
Qed.
Lemma print_binary_plain : forall w v, 1 <= w -> 0 <= v -> plain (print_binary w v) = true /\ print_binary w v <> [].
Proof.
  intros w v Hw Hv. unfold print_binary. replace (v <? 0) with false by lia. split.
  - unfold plain. generalize (bits_msb_all_bit (Nat.max (Z.to_nat w) (bitlen v)) v). apply forallb_impl.
    intros c H. unfold is_bit, plainc, is_digit in *. lia.
  - intros E. apply (f_equal (@length Z)) in E. rewrite bits_msb_length in E. cbn [length] in E. lia.
Qed.
Lemma msng_plain : plain s_MSNG = true.
Proof. reflexivity. Qed.

Lemma not_msng_hd : forall c t, (c =? 77) = false -> str_eqb (c :: t) s_MSNG = false.
Proof. intros c t H. unfold s_MSNG. cbn [str_eqb]. now rewrite H. Qed.

(* ------------------------------------------------------------------ one line: print_item then classify / load_rest *)
Definition expect (v:dvalue) : tokval :=
  match v with
  | DV_none => TV_none
  | DV_missing => TV_missing
  | DV_num n s => if 0 <=? s then TV_dec n (- s) else TV_dec (n * 10 ^ (1 - s)) (-1)
  | DV_int z => if z =? -1 then TV_missing else TV_int z
  | DV_flag w z => if z <? 0 then TV_missing else TV_int z
  | DV_str s => TV_str s
  end.
(* the storage type of the node must be the one of the value; strings: what the text form can carry *)
Definition value_ok (fq:bool) (vt:vtype) (v:dvalue) : Prop :=
  match v with
  | DV_none => True
  | DV_missing => vt <> VT_NONE
  | DV_num n s => vt = VT_F64
  | DV_int z => vt = VT_INT false
  | DV_flag w z => vt = VT_INT true /\ 1 <= w <= 63 /\ z < 2 ^ w
  | DV_str s => vt = VT_STR (length s) /\ str_ok s /\ (fq = false -> s <> s_MSNG)
  end.
Definition no_rbrace (v:dvalue) : Prop := match v with DV_str s => nonep (fun c => c =? 125) s = true | _ => True end.

Lemma set_svalue_id : forall s, no_nul s = true -> set_svalue (length s) s = s.
Proof. intros s H. unfold set_svalue. rewrite c_string_id, firstn_all, Nat.sub_diag by auto. cbn. apply app_nil_r. Qed.

Lemma load_token_value : forall fq vt v, value_ok fq vt v -> v <> DV_none ->
  match v with
  | DV_str s => load_token fq vt true s = expect v
  | _ => load_token fq vt false (print_dvalue v) = expect v
  end.
Proof.
  intros fq vt v Hok Hnn. destruct v as [| |n s|z|w z|s]; cbn [value_ok expect print_dvalue] in *.
  - congruence.
  - destruct vt; try congruence; cbn [load_token]; rewrite str_eqb_refl; rewrite ?andb_false_r; reflexivity.
  - subst vt. cbn [load_token].
    destruct (print_unsigned_hd (Z.abs n) s) as (c & t & E & Hc).
    assert (Hm: str_eqb (print_scaled n s) s_MSNG = false).
    { unfold print_scaled. rewrite E. destruct (n <? 0); cbn [app]; apply not_msng_hd; unfold is_digit, c_minus in *; lia. }
    rewrite Hm, parse_print_scaled. destruct (0 <=? s); reflexivity.
  - subst vt. destruct (z =? -1) eqn:Ez.
    + cbn [load_token]. now rewrite str_eqb_refl.
    + cbn [load_token].
      assert (Hh: exists c t, dec_int z = c :: t /\ (is_digit c = true \/ c = 45)).
      { unfold dec_int. destruct (z <? 0); [eexists _, _; split; [reflexivity|now right]|].
        destruct (dec_nat_hd z) as (c & t & E & Hc). eauto. }
      destruct Hh as (c & t & E & Hc). rewrite E.
      rewrite not_msng_hd by (unfold is_digit in Hc; lia). cbn [andb].
      assert (Hp: hd_is 105 (c :: t) || hd_is 111 (c :: t) || hd_is 120 (c :: t) || hd_is 98 (c :: t) = false)
        by (unfold hd_is, is_digit in *; lia).
      rewrite Hp, <- E. now rewrite atoi_dec_int.
  - destruct Hok as (-> & Hw & Hz). destruct (z <? 0) eqn:Ez.
    + cbn [load_token]. now rewrite str_eqb_refl.
    + cbn [load_token]. destruct (binary_roundtrip w z Hw ltac:(lia)) as (Hb & Hv & Hl).
      assert (Hm: str_eqb (print_binary w z) s_MSNG = false).
      { destruct (print_binary w z) as [|c t] eqn:E; [reflexivity|]. apply not_msng_hd.
        pose proof (print_binary_plain w z ltac:(lia) ltac:(lia)) as [Hp _]. rewrite E in Hp.
        unfold print_binary in E. replace (z <? 0) with false in E by lia.
        pose proof (bits_msb_all_bit (Nat.max (Z.to_nat w) (bitlen z)) z) as Hbits. rewrite E in Hbits.
        cbn [forallb] in Hbits. apply andb_prop in Hbits as [Hc _]. unfold is_bit in Hc. lia. }
      rewrite Hm, Hb, Hv. reflexivity.
  - destruct Hok as (-> & (Hne & Hs) & Hq). cbn [load_token].
    assert (Hn: no_nul s = true) by (revert Hs; apply forallb_impl; intros c H; lia).
    rewrite set_svalue_id by auto.
    destruct fq; cbn [andb negb].
    + now rewrite andb_false_r.
    + rewrite str_eqb_neq by auto. reflexivity.
Qed.

Definition value_text_props (V:str) : Prop :=
  no_nul V = true /\ ends_nonspace V /\ starts_nonspace V /\ hd_is 123 V = false /\ hd_is 40 V = false.

Lemma value_text_ok : forall fq vt v, value_ok fq vt v -> v <> DV_none -> print_dvalue v <> [] /\ value_text_props (print_dvalue v).
Proof.
  intros fq vt v Hok Hnn.
  assert (Hplain: forall V, V <> [] -> plain V = true -> V <> [] /\ value_text_props V).
  { intros V H1 H2. split; auto. destruct (plain_props V H1 H2) as (A & B & C & D & E & _). repeat split; auto. }
  destruct v as [| |n s|z|w z|s]; cbn [print_dvalue value_ok] in *.
  - congruence.
  - apply Hplain; [discriminate|reflexivity].
  - destruct (print_scaled_plain n s). now apply Hplain.
  - destruct (z =? -1); [apply Hplain; [discriminate|reflexivity]|]. destruct (dec_int_plain z). now apply Hplain.
  - destruct Hok as (_ & Hw & Hz). destruct (z <? 0) eqn:E; [apply Hplain; [discriminate|reflexivity]|].
    destruct (print_binary_plain w z ltac:(lia) ltac:(lia)). now apply Hplain.
  - destruct Hok as (_ & Hs & _). split; [discriminate|]. apply string_props; auto.
Qed.

Lemma value_text_no_rbrace : forall fq vt v, value_ok fq vt v -> no_rbrace v -> nonep (fun c => c =? 125) (print_dvalue v) = true.
Proof.
  intros fq vt v Hok Hnr.
  assert (Hplain: forall V, plain V = true -> nonep (fun c => c =? 125) V = true).
  { intros V. unfold plain, nonep. apply forallb_impl. intros c H. unfold plainc, is_digit in H. lia. }
  destruct v as [| |n s|z|w z|s]; cbn [print_dvalue value_ok no_rbrace] in *; auto.
  - apply Hplain, print_scaled_plain.
  - destruct (z =? -1); [reflexivity|]. apply Hplain, dec_int_plain.
  - destruct (z <? 0) eqn:E; [reflexivity|]. destruct Hok as (_ & Hw & _). apply Hplain, print_binary_plain; lia.
  - destruct Hok as (_ & (_ & Hs) & _). unfold print_string.
    rewrite c_string_id by (revert Hs; apply forallb_impl; intros c H; lia).
    unfold nonep in *. cbn [forallb]. rewrite forallb_app, Hnr. reflexivity.
Qed.

Lemma print_af_no_rbrace : forall b n, 0 <= b -> 0 <= n -> nonep (fun c => c =? 125) (print_af b n) = true.
Proof.
  intros b n Hb Hn. unfold print_af, nonep. rewrite !forallb_app. cbn [forallb].
  assert (H1: forallb (fun c => negb (c =? 125)) (hex_nat b) = true).
  { generalize (fixed_hex_all (nhex_fuel (S (Z.to_nat (Z.log2 b))) b) b Hb). apply forallb_impl. intros c H. unfold is_hexc, is_digit in H. lia. }
  assert (H2: forallb (fun c => negb (c =? 125)) (dec_int n) = true).
  { destruct (dec_int_plain n) as [Hp _]. revert Hp. unfold plain. apply forallb_impl. intros c H. unfold plainc, is_digit in H. lia. }
  rewrite H1, H2. reflexivity.
Qed.
Lemma print_af_no_nul : forall b n, 0 <= b -> 0 <= n -> no_nul (print_af b n) = true.
Proof.
  intros b n Hb Hn. unfold print_af, no_nul. rewrite !forallb_app. cbn [forallb].
  assert (H1: forallb (fun c => negb (c =? 0)) (hex_nat b) = true).
  { generalize (fixed_hex_all (nhex_fuel (S (Z.to_nat (Z.log2 b))) b) b Hb). apply forallb_impl. intros c H. unfold is_hexc, is_digit in H. lia. }
  assert (H2: forallb (fun c => negb (c =? 0)) (dec_int n) = true).
  { destruct (dec_int_plain n) as [Hp _]. revert Hp. unfold plain. apply forallb_impl. intros c H. unfold plainc, is_digit in H. lia. }
  rewrite H1, H2. reflexivity.
Qed.

Lemma stage_tok_value : forall fq vt af v, value_ok fq vt v -> v <> DV_none ->
  stage_tok fq vt af (print_dvalue v) = mkLV af (expect v).
Proof.
  intros fq vt af v Hok Hnn. pose proof (load_token_value fq vt v Hok Hnn) as Hl.
  assert (Hplain: forall V, V <> [] -> plain V = true -> load_token fq vt false V = expect v -> stage_tok fq vt af V = mkLV af (expect v)).
  { intros V H1 H2 H3. rewrite stage_tok_plain by auto. now rewrite H3. }
  destruct v as [| |n s|z|w z|s]; cbn [print_dvalue value_ok] in *.
  - congruence.
  - apply Hplain; [discriminate|reflexivity|exact Hl].
  - destruct (print_scaled_plain n s). now apply Hplain.
  - destruct (z =? -1) eqn:E; [apply Hplain; [discriminate|reflexivity|exact Hl]|]. destruct (dec_int_plain z). now apply Hplain.
  - destruct Hok as (Hvt & Hw & Hz). destruct (z <? 0) eqn:E; [apply Hplain; [discriminate|reflexivity|exact Hl]|].
    destruct (print_binary_plain w z ltac:(lia) ltac:(lia)). now apply Hplain.
  - destruct Hok as (_ & Hs & _). rewrite stage_tok_string by auto. now rewrite Hl.
Qed.

(* the text after the descriptor, for an item that carries a value *)
Theorem load_rest_value : forall fm fq vt P oaf v,
  prefix_ok P -> af_ok oaf -> value_ok fq vt v -> v <> DV_none ->
  (fm = false -> P <> [] -> no_rbrace v) ->
  load_rest fm fq vt (P ++ (af_text oaf ++ print_dvalue v) ++ [10]) = mkLV (option_map fst oaf) (expect v).
Proof.
  intros fm fq vt P oaf v HP Haf Hok Hnn Hbr.
  destruct (value_text_ok fq vt v Hok Hnn) as (Vne & Vnul & Vend & Vstart & V123 & V40).
  assert (HX: no_nul (af_text oaf ++ print_dvalue v) = true /\ ends_nonspace (af_text oaf ++ print_dvalue v) /\
              starts_nonspace (af_text oaf ++ print_dvalue v) /\ hd_is 123 (af_text oaf ++ print_dvalue v) = false).
  { destruct oaf as [[b n]|]; cbn [af_text app]; [|auto]. destruct Haf as [Hb Hn].
    split; [rewrite no_nul_app, print_af_no_nul, Vnul by auto; reflexivity|].
    split; [destruct Vend as (V' & c & E & Hc); exists (print_af b n ++ V'), c; rewrite E, app_assoc; auto|].
    split; reflexivity. }
  destruct HX as (Xnul & Xend & Xstart & X123).
  unfold load_rest. rewrite stage_meta_value; auto.
  - destruct oaf as [[b n]|]; cbn [af_text app option_map fst].
    + destruct Haf as [Hb Hn]. rewrite stage_af_some by (auto using lead_32, lead_len).
      now apply stage_tok_value.
    + rewrite stage_af_none by (auto using lead_space). now apply stage_tok_value.
  - intros Hfm HPne. specialize (Hbr Hfm HPne).
    unfold nonep. rewrite forallb_app. apply andb_true_intro. split.
    + destruct oaf as [[b n]|]; [|reflexivity]. destruct Haf. now apply print_af_no_rbrace.
    + now apply (value_text_no_rbrace fq vt).
Qed.

(* a line that carries no value: nothing is assigned *)
Theorem load_rest_novalue : forall fm fq vt P, prefix_ok P -> load_rest fm fq vt (P ++ [10]) = mkLV None TV_none.
Proof. intros. unfold load_rest. rewrite stage_meta_novalue by auto. reflexivity. Qed.

(* ------------------------------------------------------------------ classification of the lines the dump writes *)
Lemma desc6_digits : forall d, forallb is_digit (desc6 d) = true /\ desc6 d <> [].
Proof.
  intros d. unfold desc6. split; [apply fixed_digits_all_digit|].
  intros E. apply (f_equal (@length Z)) in E. rewrite fixed_digits_length in E. cbn [length] in E. lia.
Qed.
Lemma atoi_desc6 : forall d, 0 <= d -> atoi (desc6 d) = d.
Proof.
  intros d Hd. destruct (desc6_digits d) as [Hall Hne]. destruct (digits_hd _ Hne Hall) as (c & t & E & Hc).
  unfold atoi. assert (Hsp: is_space c = false) by (unfold is_digit, is_space in *; lia).
  rewrite E, dropwhile_head by auto. rewrite !hd_is_digit_not by (auto; lia). rewrite <- E.
  rewrite takewhile_all by auto. unfold desc6. rewrite parse_fixed by lia. apply Z.mod_small. split; [lia|].
  eapply Z.lt_le_trans; [apply ndigits_bound; lia|]. apply Z.pow_le_mono_r; lia.
Qed.

Lemma classify_data : forall d rest, 0 <= d -> no_nul rest = true -> classify (desc6 d ++ 32 :: rest) = L_data d rest.
Proof.
  intros d rest Hd Hn. destruct (desc6_digits d) as [Hall Hne]. destruct (digits_hd _ Hne Hall) as (c & t & E & Hc).
  unfold classify.
  assert (Hnn: no_nul (desc6 d ++ 32 :: rest) = true).
  { rewrite no_nul_app. apply andb_true_intro. split; [|cbn; exact Hn].
    revert Hall. apply forallb_impl. intros x H. unfold is_digit in H. lia. }
  rewrite c_string_id by auto.
  assert (Hh: forall x, (x < 48 \/ 57 < x) -> hd_is x (desc6 d ++ 32 :: rest) = false).
  { intros x Hx. rewrite E. cbn [app]. now apply hd_is_digit_not. }
  rewrite !Hh by lia. cbn [orb].
  assert (Hp1: prefixb s_BUFR_EDITION_EQ (desc6 d ++ 32 :: rest) = false).
  { rewrite E. cbn [app]. unfold s_BUFR_EDITION_EQ. cbn [prefixb]. unfold is_digit in Hc. replace (66 =? c) with false by lia. reflexivity. }
  assert (Hp2: prefixb s_DATASUBSET (desc6 d ++ 32 :: rest) = false).
  { rewrite E. cbn [app]. unfold s_DATASUBSET. cbn [prefixb]. unfold is_digit in Hc. replace (68 =? c) with false by lia. reflexivity. }
  rewrite Hp1, Hp2. rewrite strtok_split; auto.
  - now rewrite atoi_desc6.
  - unfold nonep. revert Hall. apply forallb_impl. intros x H. unfold is_digit, d_first in *. lia.
Qed.
Lemma classify_comment : forall l, classify (c_hash :: l) = L_comment.
Proof. intros. unfold classify, c_string. cbn [takewhile]. reflexivity. Qed.

(* ------------------------------------------------------------------ items *)
Definition meta_ok (om:option str) : Prop :=
  match om with
  | None => True
  | Some m => no_nul m = true /\ exists gs body, groups_ok gs /\ nonep (fun c => c =? 125) body = true /\ m = render gs ++ 123 :: body ++ [125]
  end.
Lemma digits_no125 : forall l, forallb is_digit l = true -> nonep (fun c => c =? 125) l = true.
Proof. intros l. unfold nonep. apply forallb_impl. intros c H. unfold is_digit in H. lia. Qed.
Lemma digits_no_nul : forall l, forallb is_digit l = true -> no_nul l = true.
Proof. intros l. unfold no_nul. apply forallb_impl. intros c H. unfold is_digit in H. lia. Qed.

Lemma print_prefix_ok : forall it, meta_ok (di_meta it) -> prefix_ok (print_prefix it).
Proof.
  intros it Hm. unfold print_prefix. destruct (desc6_digits (di_sdesc it)) as [Hd _].
  destruct (di_sdesc it =? 0); destruct (di_meta it) as [m|]; cbn [meta_ok app] in *.
  - destruct Hm as (Hn & gs & body & Hgs & Hb & ->). split.
    + remember (render gs ++ 123 :: body ++ [125]) as m. rewrite no_nul_app, Hn. reflexivity.
    + right. exists gs, body. repeat split; auto. list_eq.
  - split; [reflexivity|now left].
  - destruct Hm as (Hn & gs & body & Hgs & Hb & ->). split.
    + remember (render gs ++ 123 :: body ++ [125]) as m.
      change (c_lbrace :: (desc6 (di_sdesc it) ++ [c_rbrace; c_sp]) ++ m ++ [c_sp]) with ([c_lbrace] ++ (desc6 (di_sdesc it) ++ [c_rbrace; c_sp]) ++ m ++ [c_sp]).
      rewrite !no_nul_app, Hn, (digits_no_nul _ Hd). reflexivity.
    + right. exists ((desc6 (di_sdesc it), [32]) :: gs), body. repeat split; auto.
      * constructor; auto. cbn [fst snd]. split; [now apply digits_no125|reflexivity].
      * cbn [render flat_map fst snd]. unfold c_lbrace, c_rbrace, c_sp. list_eq.
  - split.
    + rewrite app_nil_r. change (c_lbrace :: desc6 (di_sdesc it) ++ [c_rbrace; c_sp]) with ([c_lbrace] ++ desc6 (di_sdesc it) ++ [c_rbrace; c_sp]).
      rewrite !no_nul_app, (digits_no_nul _ Hd). reflexivity.
    + right. exists [], (desc6 (di_sdesc it)). repeat split; [constructor|now apply digits_no125|]. rewrite app_nil_r. reflexivity.
Qed.

Definition item_ok (fm fq:bool) (vt:vtype) (it:ditem) : Prop :=
  0 <= di_desc it /\ meta_ok (di_meta it) /\ af_ok (di_af it) /\ value_ok fq vt (di_val it) /\
  (fm = false -> print_prefix it <> [] -> no_rbrace (di_val it)).
Definition expected_lval (it:ditem) : lval :=
  mkLV (match di_val it with DV_none => None | _ => option_map fst (di_af it) end) (expect (di_val it)).

Lemma prefix_no_nul : forall P, prefix_ok P -> no_nul P = true.
Proof. intros P H. apply H. Qed.

Lemma print_item_valued : forall it, di_skipped it = false -> di_val it <> DV_none ->
  print_item it = desc6 (di_desc it) ++ 32 :: (print_prefix it ++ (af_text (di_af it) ++ print_dvalue (di_val it)) ++ [10]).
Proof.
  intros it Hsk Hv. unfold print_item. rewrite Hsk. unfold af_text, c_sp, c_nl.
  destruct (di_val it); try congruence; destruct (di_af it) as [[? ?]|]; reflexivity.
Qed.
Lemma print_item_novalue : forall it, di_skipped it = false -> di_val it = DV_none ->
  print_item it = desc6 (di_desc it) ++ 32 :: (print_prefix it ++ [10]).
Proof. intros it Hsk Hv. unfold print_item. rewrite Hsk, Hv. reflexivity. Qed.
Lemma print_item_skipped : forall it, di_skipped it = true ->
  print_item it = (if di_ignored it then [c_hash] else []) ++ desc6 (di_desc it) ++ 32 :: [10].
Proof. intros it Hsk. unfold print_item. rewrite Hsk. reflexivity. Qed.

Lemma dvalue_none_dec : forall v, v = DV_none \/ v <> DV_none.
Proof. intros []; auto; right; discriminate. Qed.

Lemma value_text_full_no_nul : forall fq vt oaf v, af_ok oaf -> value_ok fq vt v -> v <> DV_none ->
  no_nul ((af_text oaf ++ print_dvalue v) ++ [10]) = true.
Proof.
  intros fq vt oaf v Haf Hok Hnn. destruct (value_text_ok fq vt v Hok Hnn) as (_ & Vnul & _).
  rewrite !no_nul_app, Vnul. destruct oaf as [[b n]|]; cbn [af_text]; [|reflexivity].
  destruct Haf. rewrite print_af_no_nul by auto. reflexivity.
Qed.

(* every value line the dump writes is read back as the descriptor, associated field and value it was written from *)
Theorem line_roundtrip : forall fm fq vt it, di_skipped it = false -> item_ok fm fq vt it ->
  exists rest, classify (print_item it) = L_data (di_desc it) rest /\ load_rest fm fq vt rest = expected_lval it.
Proof.
  intros fm fq vt it Hsk (Hd & Hm & Haf & Hv & Hbr).
  pose proof (print_prefix_ok it Hm) as HP.
  destruct (dvalue_none_dec (di_val it)) as [Ev|Hnn].
  - (* no value *)
    rewrite print_item_novalue by auto. exists (print_prefix it ++ [10]). split.
    + apply classify_data; auto. rewrite no_nul_app, (prefix_no_nul _ HP). reflexivity.
    + unfold expected_lval. rewrite Ev. cbn [expect]. now apply load_rest_novalue.
  - rewrite print_item_valued by auto. eexists. split.
    + apply classify_data; auto. rewrite no_nul_app, (prefix_no_nul _ HP). cbn [andb].
      now apply (value_text_full_no_nul fq vt).
    + rewrite load_rest_value by auto. unfold expected_lval. destruct (di_val it); try congruence; reflexivity.
Qed.

(* a skipped descriptor: its line assigns nothing; when also FLAG_IGNORED it is a comment *)
Theorem skipped_line : forall fm fq vt it, di_skipped it = true -> 0 <= di_desc it ->
  classify (print_item it) = (if di_ignored it then L_comment else L_data (di_desc it) [10]) /\
  load_rest fm fq vt [10] = mkLV None TV_none.
Proof.
  intros fm fq vt it Hsk Hd. rewrite print_item_skipped by auto. split.
  - destruct (di_ignored it); cbn [app]; [apply classify_comment|]. now apply classify_data.
  - apply (load_rest_novalue fm fq vt []). split; [reflexivity|now left].
Qed.

(* ------------------------------------------------------------------ one subset: the descriptor matching loop *)
Definition all_skipped (l:list lnode) : Prop := Forall (fun n => ln_skipped n = true) l.

Lemma first_unskipped_pend : forall pend l, all_skipped pend -> first_unskipped (pend ++ l) = first_unskipped l.
Proof. induction pend as [|p pend IH]; intros l H; cbn [app first_unskipped]; auto. inversion H; subst. rewrite H2. auto. Qed.
Lemma drop_to_unskipped_pend : forall pend l, all_skipped pend -> drop_to_unskipped (pend ++ l) = drop_to_unskipped l.
Proof. induction pend as [|p pend IH]; intros l H; cbn [app drop_to_unskipped]; auto. inversion H; subst. rewrite H2. auto. Qed.

(* skipping the pending (skipped) nodes: either none has the descriptor of the line, or the cursor stops at the first that has *)
Lemma skip_other_pend : forall d pend l, all_skipped pend ->
  skip_other d (pend ++ l) = skip_other d l \/
  exists p pend2, all_skipped pend2 /\ ln_skipped p = true /\ ln_desc p = d /\ skip_other d (pend ++ l) = p :: pend2 ++ l.
Proof.
  intros d pend l H. induction pend as [|p pend IH]; [now left|].
  inversion H as [|? ? Hp Hrest]; subst. cbn [app skip_other]. rewrite Hp.
  destruct (d =? ln_desc p) eqn:E; cbn [negb andb].
  - right. exists p, pend. repeat split; auto. lia.
  - destruct (IH Hrest) as [IH1|(q & pend2 & A & B & C & D)]; [now left|]. right. exists q, pend2. auto.
Qed.

(* the line of a node the loader does not see as skipped: the value is assigned to it, whatever is pending *)
Lemma step_unskipped : forall fm fq pend nd rest d r, all_skipped pend -> ln_skipped nd = false -> ln_desc nd = d ->
  load_step fm fq (pend ++ nd :: rest) d r = ST_next rest (Some (d, load_rest fm fq (ln_vt nd) r)).
Proof.
  intros fm fq pend nd rest d r Hp Hn Hd. unfold load_step.
  destruct (skip_other_pend d pend (nd :: rest) Hp) as [E|(p & pend2 & A & B & C & E)]; rewrite E.
  - cbn [skip_other]. rewrite Hn, andb_false_r. rewrite Hn, andb_false_r. rewrite Hd, Z.eqb_refl. reflexivity.
  - rewrite B, C, Z.eqb_refl. cbn [andb].
    rewrite first_unskipped_pend by auto. cbn [first_unskipped]. rewrite Hn, Hd, Z.eqb_refl.
    rewrite drop_to_unskipped_pend by auto. cbn [drop_to_unskipped]. rewrite Hn. reflexivity.
Qed.

(* the line of a skipped node: consumed; the cursor may stay in front of pending skipped nodes *)
Lemma step_skipped : forall fm fq pend nd rest d r u, all_skipped pend -> ln_skipped nd = true -> ln_desc nd = d ->
  first_unskipped rest = Some u -> ln_desc u <> d ->
  exists pend', all_skipped pend' /\ load_step fm fq (pend ++ nd :: rest) d r = ST_next (pend' ++ rest) None.
Proof.
  intros fm fq pend nd rest d r u Hp Hn Hd Hu Hne. unfold load_step.
  destruct (skip_other_pend d pend (nd :: rest) Hp) as [E|(p & pend2 & A & B & C & E)]; rewrite E.
  - cbn [skip_other]. rewrite Hn, Hd, Z.eqb_refl. cbn [negb andb]. rewrite Hn, Hd, Z.eqb_refl. cbn [andb]. rewrite Hu.
    replace (d =? ln_desc u) with false by lia. exists []. split; [apply Forall_nil|reflexivity].
  - rewrite B, C, Z.eqb_refl. cbn [andb].
    rewrite first_unskipped_pend by auto. cbn [first_unskipped]. rewrite Hn, Hu.
    replace (d =? ln_desc u) with false by lia.
    exists (pend2 ++ [nd]). split.
    + apply Forall_app. split; auto.
    + rewrite <- app_assoc. reflexivity.
Qed.

(* what dump and loader must agree on for one descriptor of the subset *)
Definition compat (fm fq:bool) (it:ditem) (nd:lnode) (following:list lnode) : Prop :=
  ln_desc nd = di_desc it /\ 0 <= di_desc it /\
  (di_skipped it = false -> ln_skipped nd = false /\ item_ok fm fq (ln_vt nd) it) /\
  (di_skipped it = true -> di_ignored it = true -> ln_skipped nd = true) /\
  (di_skipped it = true -> di_ignored it = false -> ln_skipped nd = true ->
     exists u, first_unskipped following = Some u /\ ln_desc u <> di_desc it).
Fixpoint compat_all (fm fq:bool) (items:list ditem) (nodes:list lnode) : Prop :=
  match items, nodes with
  | [], [] => True
  | it :: is_, nd :: ns => compat fm fq it nd ns /\ compat_all fm fq is_ ns
  | _, _ => False
  end.
Fixpoint outputs (items:list ditem) (nodes:list lnode) : list (Z * lval) :=
  match items, nodes with
  | it :: is_, nd :: ns =>
      (if ln_skipped nd then [] else [(di_desc it, if di_skipped it then mkLV None TV_none else expected_lval it)]) ++ outputs is_ ns
  | _, _ => []
  end.

Lemma classify_blank : classify [c_nl] = L_blank.
Proof. reflexivity. Qed.

Lemma subset_roundtrip_gen : forall fm fq items nodes pend acc, compat_all fm fq items nodes -> all_skipped pend ->
  exists pend', all_skipped pend' /\
    load_subset_lines fm fq (pend ++ nodes) (map print_item items ++ [[c_nl]]) acc = LR_ok (rev acc ++ outputs items nodes) pend'.
Proof.
  intros fm fq items. induction items as [|it items IH]; intros nodes pend acc Hc Hp.
  - destruct nodes; [|contradiction]. cbn [map app load_subset_lines outputs]. rewrite classify_blank.
    exists pend. rewrite !app_nil_r. auto.
  - destruct nodes as [|nd nodes]; [contradiction|]. destruct Hc as ((Hd & Hd0 & Hns & Hig & Hsk) & Hrest).
    cbn [map app load_subset_lines outputs].
    destruct (di_skipped it) eqn:Esk.
    + (* a skipped descriptor *)
      destruct (skipped_line fm fq (ln_vt nd) it Esk Hd0) as [Hcl Hlr]. rewrite Hcl.
      destruct (di_ignored it) eqn:Eig.
      * (* commented out: the node stays pending *)
        specialize (Hig eq_refl eq_refl). rewrite Hig. cbn [app].
        destruct (IH nodes (pend ++ [nd]) acc Hrest) as (pend' & Hp' & E).
        { apply Forall_app. split; auto. }
        rewrite <- app_assoc in E. cbn [app] in E. eauto.
      * destruct (ln_skipped nd) eqn:Enk.
        -- destruct (Hsk eq_refl eq_refl eq_refl) as (u & Hu & Hne).
           destruct (step_skipped fm fq pend nd nodes (di_desc it) [10] u Hp Enk Hd Hu ltac:(congruence)) as (pend1 & Hp1 & E1).
           rewrite E1. cbn [app]. now apply IH.
        -- rewrite (step_unskipped fm fq pend nd nodes (di_desc it) [10]) by auto.
           rewrite Hlr. destruct (IH nodes [] ((di_desc it, mkLV None TV_none) :: acc) Hrest ltac:(constructor)) as (pend' & Hp' & E).
           cbn [app] in E. rewrite E. exists pend'. split; auto. cbn [rev]. rewrite <- app_assoc. reflexivity.
    + (* a descriptor with a line of its own *)
      destruct (Hns eq_refl) as (Hnk & Hok).
      destruct (line_roundtrip fm fq (ln_vt nd) it Esk Hok) as (rest & Hcl & Hlr). rewrite Hcl.
      rewrite (step_unskipped fm fq pend nd nodes (di_desc it) rest) by auto.
      rewrite Hlr, Hnk. destruct (IH nodes [] ((di_desc it, expected_lval it) :: acc) Hrest ltac:(constructor)) as (pend' & Hp' & E).
      cbn [app] in E. rewrite E. exists pend'. split; auto. cbn [rev]. rewrite <- app_assoc. reflexivity.
Qed.

(* the lines of one subset, loaded with the descriptor list of that subset, give back every value in order *)
Theorem subset_roundtrip : forall fm fq items nodes, compat_all fm fq items nodes ->
  exists pend, all_skipped pend /\
    load_subset_lines fm fq nodes (map print_item items ++ [[c_nl]]) [] = LR_ok (outputs items nodes) pend.
Proof. intros. apply (subset_roundtrip_gen fm fq items nodes [] []); auto. constructor. Qed.

(* ------------------------------------------------------------------ header *)
Lemma find_key_own : forall k tail, (k < 19)%nat -> find_key hdr_keys 0 (nth k hdr_keys [] ++ tail) = Some (k, tail).
Proof.
  intros k tail Hk.
  do 19 (destruct k as [|k]; [reflexivity|]). lia.
Qed.
Lemma keys_no_nul : forall k, no_nul (nth k hdr_keys []) = true.
Proof. intros k. do 19 (destruct k as [|k]; [reflexivity|]). destruct k; reflexivity. Qed.
Lemma keys_hd : forall k tail, (k < 19)%nat -> hd_is 35 (nth k hdr_keys [] ++ tail) || hd_is 42 (nth k hdr_keys [] ++ tail) = false.
Proof. intros k tail Hk. do 19 (destruct k as [|k]; [reflexivity|]). lia. Qed.

Lemma dec_int_no_nul : forall v, no_nul (dec_int v) = true.
Proof. intros v. destruct (dec_int_plain v) as [Hp _]. revert Hp. unfold plain, no_nul. apply forallb_impl. intros c H. unfold plainc, is_digit in H. lia. Qed.
Lemma dec_int_not_dhdr : forall v, nonep d_hdr (dec_int v) = true.
Proof. intros v. destruct (dec_int_plain v) as [Hp _]. revert Hp. unfold plain, nonep. apply forallb_impl. intros c H. unfold plainc, is_digit, d_hdr in *. lia. Qed.

Lemma classify_key_line : forall k v, (k < 18)%nat -> classify_hdr (key_line k v) = H_key k (Some v).
Proof.
  intros k v Hk. unfold classify_hdr, key_line.
  rewrite c_string_id.
  2:{ rewrite no_nul_app, keys_no_nul. cbn [andb]. change (c_eq :: dec_int v ++ [c_nl]) with ([c_eq] ++ dec_int v ++ [c_nl]).
      rewrite !no_nul_app, dec_int_no_nul. reflexivity. }
  rewrite keys_hd by lia. rewrite find_key_own by lia.
  replace (k =? K_HEADER_STRING)%nat with false by (unfold K_HEADER_STRING; symmetry; apply Nat.eqb_neq; lia).
  change (c_eq :: dec_int v ++ [c_nl]) with ([c_eq] ++ dec_int v ++ [c_nl]).
  rewrite strtok_skip by reflexivity.
  rewrite strtok_split; [|apply dec_int_plain|apply dec_int_not_dhdr|reflexivity].
  now rewrite atoi_dec_int.
Qed.

Lemma before_last_mid : forall c s tail, nonep (fun x => x =? c) tail = true -> before_last c (s ++ c :: tail) = Some s.
Proof.
  intros c s tail H. induction s as [|x s IH]; cbn [app before_last].
  - assert (E: before_last c tail = None).
    { clear -H. unfold nonep in H. induction tail as [|y t IH]; cbn in *; auto. apply andb_prop in H as [Hy Ht]. rewrite IH by auto. now destruct (y =? c). }
    now rewrite E, Z.eqb_refl.
  - now rewrite IH.
Qed.

Definition hstring_line (s:str) : str := nth K_HEADER_STRING hdr_keys [] ++ c_eq :: c_quote :: c_string s ++ [c_quote; c_nl].
Lemma classify_hstring_line : forall s, classify_hdr (hstring_line s) = H_hstring (c_string s).
Proof.
  intros s. unfold classify_hdr, hstring_line.
  assert (Hcs: no_nul (c_string s) = true).
  { unfold c_string, no_nul. induction s as [|x s IH]; cbn; auto. destruct (x =? 0) eqn:E; cbn; auto. now rewrite E, IH. }
  rewrite c_string_id.
  2:{ rewrite no_nul_app, keys_no_nul. cbn [andb]. change (c_eq :: c_quote :: c_string s ++ [c_quote; c_nl]) with ([c_eq; c_quote] ++ c_string s ++ [c_quote; c_nl]).
      rewrite !no_nul_app, Hcs. reflexivity. }
  rewrite keys_hd by (unfold K_HEADER_STRING; lia). rewrite find_key_own by (unfold K_HEADER_STRING; lia).
  rewrite Nat.eqb_refl. unfold header_string_of. f_equal.
  cbn [dropwhile]. change (negb (c_eq =? c_quote)) with true. cbv iota. change (negb (c_quote =? c_quote)) with false. cbv iota.
  change (hd_is 34 (c_quote :: _)) with true. cbv iota. cbn [tl].
  change (c_string s ++ [c_quote; c_nl]) with (c_string s ++ c_quote :: [c_nl]). now rewrite before_last_mid.
Qed.

Definition is_hdr_line (l:str) : Prop :=
  match classify_hdr l with H_subset | H_other => False | _ => True end.
Lemma load_header_app : forall hl h0 L, Forall is_hdr_line hl ->
  load_header h0 (hl ++ L) = load_header (fold_left (fun h l => hdr_apply h (classify_hdr l)) hl h0) L.
Proof.
  induction hl as [|l hl IH]; intros h0 L H; [reflexivity|]. inversion H as [|? ? Hl Hrest]; subst.
  cbn [app load_header fold_left]. unfold is_hdr_line in Hl.
  destruct (classify_hdr l) eqn:E; try contradiction; now apply IH.
Qed.

Lemma print_header_lines : forall h, Forall is_hdr_line (print_header h).
Proof.
  intros h. unfold print_header.
  assert (Hk: forall k v, (k < 18)%nat -> is_hdr_line (key_line k v)).
  { intros k v Hk. unfold is_hdr_line. now rewrite classify_key_line. }
  constructor; [apply Hk; lia|].
  apply Forall_app. split.
  { destruct (h_string h); [|constructor]. constructor; [|constructor].
    unfold is_hdr_line. fold (hstring_line s). now rewrite classify_hstring_line. }
  constructor; [apply Hk; lia|]. constructor; [apply Hk; lia|].
  apply Forall_app. split. { destruct (3 <=? nth 0 (h_vals h) 0); [|constructor]. constructor; [apply Hk; lia|constructor]. }
  apply Forall_app. split.
  - cbn [map]. repeat (constructor; [apply Hk; lia|]). constructor.
  - constructor; [apply Hk; unfold K_COMPRESSED; lia|constructor].
Qed.

(* what bufr_load_header makes of the header the dump wrote: every Section 1 / Section 3 key that is written comes back *)
Definition loaded_header (h0 h:header) : header :=
  fold_left (fun h l => hdr_apply h (classify_hdr l)) (print_header h) h0.

Theorem header_roundtrip : forall h0 h L marker,
  classify_hdr marker = H_subset ->
  load_header h0 (print_header h ++ marker :: L) = (loaded_header h0 h, true, marker :: L).
Proof.
  intros h0 h L marker Hm. rewrite load_header_app by apply print_header_lines.
  cbn [load_header]. now rewrite Hm.
Qed.

Lemma lor64 : forall a, Z.land a 64 <> 0 -> Z.lor a 64 = a.
Proof.
  intros a H. apply Z.bits_inj'. intros n Hn. rewrite Z.lor_spec. change 64 with (2 ^ 6). rewrite Z.pow2_bits_eqb by lia.
  destruct (6 =? n) eqn:E; [|now rewrite orb_false_r]. assert (n = 6) by lia. subst. rewrite orb_true_r.
  destruct (Z.testbit a 6) eqn:T; auto. exfalso. apply H. apply Z.bits_inj'. intros m Hm.
  rewrite Z.land_spec, Z.bits_0. change 64 with (2 ^ 6). rewrite Z.pow2_bits_eqb by lia.
  destruct (6 =? m) eqn:E2; [|apply andb_false_r]. replace m with 6 by lia. now rewrite T.
Qed.

(* the content of the loaded header *)
Lemma set_nth_length : forall k v l, length (set_nth k v l) = length l.
Proof. intros k v l. revert k. induction l as [|x l IH]; intros [|k]; cbn; auto. Qed.
Lemma nth_set_nth_same : forall k v l, (k < length l)%nat -> nth k (set_nth k v l) 0 = v.
Proof. intros k v l. revert k. induction l as [|x l IH]; intros [|k] H; cbn in *; try lia; auto. apply IH. lia. Qed.
Lemma nth_set_nth_other : forall k j v l, j <> k -> nth j (set_nth k v l) 0 = nth j l 0.
Proof. intros k j v l. revert k j. induction l as [|x l IH]; intros [|k] [|j] H; cbn; auto; try congruence. Qed.

Definition assign (f:nat -> Z) (ks:list nat) (l:list Z) : list Z := fold_left (fun l k => set_nth k (f k) l) ks l.
Lemma assign_length : forall f ks l, length (assign f ks l) = length l.
Proof. intros f ks. induction ks as [|k ks IH]; intros l; cbn; auto. unfold assign in *. rewrite IH. apply set_nth_length. Qed.
Lemma assign_other : forall f ks l j, ~ In j ks -> nth j (assign f ks l) 0 = nth j l 0.
Proof.
  intros f ks. induction ks as [|k ks IH]; intros l j H; [reflexivity|]. unfold assign in *. cbn [fold_left].
  rewrite IH by (intros Hin; apply H; now right). apply nth_set_nth_other. intros ->. apply H. now left.
Qed.
Lemma assign_in : forall f ks l j, NoDup ks -> In j ks -> (j < length l)%nat -> nth j (assign f ks l) 0 = f j.
Proof.
  intros f ks. induction ks as [|k ks IH]; intros l j Hnd Hin Hl; [contradiction|]. inversion Hnd as [|? ? Hnot Hnd']; subst.
  unfold assign in *. cbn [fold_left]. destruct Hin as [->|Hin].
  - fold (assign f ks (set_nth j (f j) l)). rewrite assign_other by auto. now apply nth_set_nth_same.
  - apply IH; auto. now rewrite set_nth_length.
Qed.

Lemma hdr_apply_plain : forall h k v, (1 <= k <= 16)%nat -> hdr_apply h (H_key k (Some v)) = mkH (set_nth k v (h_vals h)) (h_string h).
Proof.
  intros h k v Hk. unfold hdr_apply, K_EDITION, K_COMPRESSED.
  replace (k =? 0)%nat with false by (symmetry; apply Nat.eqb_neq; lia).
  replace (k =? 17)%nat with false by (symmetry; apply Nat.eqb_neq; lia). reflexivity.
Qed.
Lemma fold_plain : forall (g:nat -> Z) ks h, Forall (fun k => (1 <= k <= 16)%nat) ks ->
  fold_left (fun h l => hdr_apply h (classify_hdr l)) (map (fun k => key_line k (g k)) ks) h = mkH (assign g ks (h_vals h)) (h_string h).
Proof.
  intros g ks. induction ks as [|k ks IH]; intros h H; [destruct h; reflexivity|]. inversion H; subst.
  cbn [map fold_left]. rewrite classify_key_line by lia. rewrite hdr_apply_plain by auto. rewrite IH by auto. reflexivity.
Qed.
Lemma hdr_apply_compressed : forall vals str, length vals = 17%nat ->
  hdr_apply (mkH vals str) (H_key K_COMPRESSED (Some (if Z.land (nth K_DATA_FLAG vals 0) 64 =? 0 then 0 else 1))) = mkH vals str.
Proof.
  intros vals str Hl. unfold hdr_apply, K_COMPRESSED, K_EDITION, K_DATA_FLAG. cbn [Nat.eqb h_vals h_string].
  destruct (Z.land (nth 16 vals 0) 64 =? 0) eqn:EF; [reflexivity|]. change (1 =? 0) with false. cbv iota. f_equal.
  rewrite lor64 by lia.
  do 17 (destruct vals as [|? vals]; [discriminate|]). destruct vals; [|discriminate]. reflexivity.
Qed.

Definition hdr_keys_written (ed:Z) : list nat := [1;2]%nat ++ (if 3 <=? ed then [3%nat] else []) ++ [4;5;6;7;8;9;10;11;12;13;14;15;16]%nat.
Lemma print_header_shape : forall h,
  print_header h = key_line 0 (nth 0 (h_vals h) 0) ::
    (match h_string h with Some s => [hstring_line s] | None => [] end) ++
    map (fun k => key_line k (nth k (h_vals h) 0)) (hdr_keys_written (nth 0 (h_vals h) 0)) ++
    [key_line K_COMPRESSED (if Z.land (nth K_DATA_FLAG (h_vals h) 0) 64 =? 0 then 0 else 1)].
Proof.
  intros h. unfold print_header, hdr_keys_written, hstring_line. f_equal. f_equal.
  destruct (3 <=? nth 0 (h_vals h) 0); reflexivity.
Qed.
Lemma keys_written_range : forall ed, Forall (fun k => (1 <= k <= 16)%nat) (hdr_keys_written ed).
Proof. intros ed. unfold hdr_keys_written. destruct (3 <=? ed); cbn [app]; repeat (constructor; [lia|]); constructor. Qed.
Lemma keys_written_nodup : forall ed, NoDup (hdr_keys_written ed).
Proof.
  intros ed. unfold hdr_keys_written. destruct (3 <=? ed); cbn [app];
  repeat (constructor; [cbn [In]; intros H; repeat (destruct H as [H|H]; [discriminate|]); exact H|]); constructor.
Qed.

Theorem header_values : forall h0 h, length (h_vals h0) = 17%nat -> length (h_vals h) = 17%nat ->
  let h' := loaded_header h0 h in
  nth 0 (h_vals h') 0 = nth 0 (h_vals h0) 0 /\
  (forall k, (1 <= k <= 16)%nat -> k <> 3%nat -> nth k (h_vals h') 0 = nth k (h_vals h) 0) /\
  nth 3 (h_vals h') 0 = (if 3 <=? nth 0 (h_vals h) 0 then nth 3 (h_vals h) 0 else nth 3 (h_vals h0) 0) /\
  h_string h' = (match h_string h with Some s => Some (c_string s) | None => h_string h0 end).
Proof.
  intros h0 h H0 H. unfold loaded_header. rewrite print_header_shape.
  set (ed := nth 0 (h_vals h) 0). set (g := fun k => nth k (h_vals h) 0).
  cbn [fold_left]. rewrite classify_key_line by lia.
  assert (E0: hdr_apply h0 (H_key 0 (Some ed)) = h0) by reflexivity. rewrite E0.
  rewrite !fold_left_app.
  set (h1 := fold_left (fun h l => hdr_apply h (classify_hdr l)) (match h_string h with Some s => [hstring_line s] | None => [] end) h0).
  assert (E1: h1 = mkH (h_vals h0) (match h_string h with Some s => Some (c_string s) | None => h_string h0 end)).
  { unfold h1. destruct (h_string h) as [s|]; cbn [fold_left]; [rewrite classify_hstring_line|]; destruct h0; reflexivity. }
  rewrite (fold_plain g) by apply keys_written_range. rewrite E1. cbn [h_vals h_string fold_left].
  rewrite classify_key_line by (unfold K_COMPRESSED; lia).
  set (vals := assign g (hdr_keys_written ed) (h_vals h0)).
  assert (Hlen: length vals = 17%nat) by (unfold vals; now rewrite assign_length).
  assert (E16: nth K_DATA_FLAG vals 0 = nth K_DATA_FLAG (h_vals h) 0).
  { unfold vals, K_DATA_FLAG. rewrite assign_in; auto using keys_written_nodup; [|lia].
    unfold hdr_keys_written. apply in_or_app. right. apply in_or_app. right. cbn [In]. tauto. }
  rewrite <- E16. rewrite hdr_apply_compressed by auto. cbn [h_vals h_string].
  split; [|split; [|split; [|reflexivity]]].
  - unfold vals. apply assign_other. unfold hdr_keys_written. intros Hin. apply in_app_or in Hin as [Hin|Hin]; [cbn in Hin; lia|].
    apply in_app_or in Hin as [Hin|Hin]; [destruct (3 <=? ed); cbn in Hin; lia|cbn in Hin; lia].
  - intros k Hk Hk3. unfold vals. rewrite assign_in; auto using keys_written_nodup; [|lia].
    unfold hdr_keys_written. do 17 (destruct k as [|k]; [try lia; try (apply in_or_app; cbn [In]; tauto); try (apply in_or_app; right; apply in_or_app; right; cbn [In]; tauto)|]). lia.
  - unfold vals, ed. destruct (3 <=? nth 0 (h_vals h) 0) eqn:E3.
    + rewrite assign_in; auto using keys_written_nodup; [|lia]. unfold hdr_keys_written. rewrite E3. cbn [app In]. tauto.
    + apply assign_other. unfold hdr_keys_written. rewrite E3. cbn [app In]. intros Hin. repeat (destruct Hin as [Hin|Hin]; [discriminate|]). exact Hin.
Qed.

(* ------------------------------------------------------------------ a whole dataset *)
Lemma marker_shape : forall i cnt, exists tail, print_subset_marker i cnt = s_DATASUBSET ++ tail /\ no_nul tail = true.
Proof.
  intros i cnt. unfold print_subset_marker. eexists. split; [reflexivity|].
  rewrite !no_nul_app, !dec_int_no_nul. reflexivity.
Qed.
Lemma classify_marker : forall i cnt, classify (print_subset_marker i cnt) = L_subset.
Proof.
  intros i cnt. destruct (marker_shape i cnt) as (tail & -> & Hn). unfold classify.
  rewrite c_string_id by (rewrite no_nul_app, Hn; reflexivity). reflexivity.
Qed.
Lemma classify_hdr_marker : forall i cnt, classify_hdr (print_subset_marker i cnt) = H_subset.
Proof.
  intros i cnt. destruct (marker_shape i cnt) as (tail & -> & Hn). unfold classify_hdr.
  rewrite c_string_id by (rewrite no_nul_app, Hn; reflexivity). reflexivity.
Qed.
Lemma classify_edition_line : forall v, classify (key_line 0 v) = L_edition.
Proof.
  intros v. unfold classify, key_line. cbn [nth hdr_keys].
  rewrite c_string_id.
  2:{ change (c_eq :: dec_int v ++ [c_nl]) with ([c_eq] ++ dec_int v ++ [c_nl]). rewrite !no_nul_app, dec_int_no_nul. reflexivity. }
  reflexivity.
Qed.

Definition body_line (l:str) : Prop := match classify l with L_edition | L_subset => False | _ => True end.

Lemma item_line_body : forall fm fq it nd following, compat fm fq it nd following -> body_line (print_item it).
Proof.
  intros fm fq it nd fo (Hd & Hd0 & Hns & _). unfold body_line. destruct (di_skipped it) eqn:E.
  - destruct (skipped_line fm fq (ln_vt nd) it E Hd0) as [Hc _]. rewrite Hc. now destruct (di_ignored it).
  - destruct (Hns eq_refl) as (_ & Hok). destruct (line_roundtrip fm fq (ln_vt nd) it E Hok) as (rest & Hc & _). now rewrite Hc.
Qed.
Lemma items_lines_body : forall fm fq items nodes, compat_all fm fq items nodes -> Forall body_line (map print_item items ++ [[c_nl]]).
Proof.
  intros fm fq items. induction items as [|it items IH]; intros nodes H.
  - cbn. constructor; [|constructor]. unfold body_line. now rewrite classify_blank.
  - destruct nodes as [|nd nodes]; [contradiction|]. destruct H as [H1 H2]. cbn [map app]. constructor; eauto using item_line_body.
Qed.

Lemma take_dataset_lines_app : forall body rest, Forall body_line body ->
  (rest = [] \/ exists l r, rest = l :: r /\ classify l = L_edition) ->
  take_dataset_lines (body ++ rest) = (body, rest).
Proof.
  induction body as [|l body IH]; intros rest Hb Hr.
  - cbn [app]. destruct Hr as [->|(l & r & -> & Hl)]; [reflexivity|]. cbn [take_dataset_lines]. now rewrite Hl.
  - inversion Hb as [|? ? Hl Hrest]; subst. cbn [app take_dataset_lines]. rewrite IH by auto.
    unfold body_line in Hl. destruct (classify l); try contradiction; reflexivity.
Qed.
(* grouping by DATASUBSET markers *)
Definition flat (gs:list (str * list str)) : list str := concat (map (fun g => fst g :: snd g) gs).
Definition group_ok (g:str * list str) : Prop := classify (fst g) = L_subset /\ Forall body_line (snd g).

Lemma group_lines : forall ls rest cur acc, Forall body_line ls ->
  group_subsets (ls ++ rest) (Some cur) acc = group_subsets rest (Some (rev ls ++ cur)) acc.
Proof.
  induction ls as [|l ls IH]; intros rest cur acc H; [reflexivity|]. inversion H as [|? ? Hl Hrest]; subst.
  cbn [app group_subsets]. unfold body_line in Hl.
  destruct (classify l); try contradiction; rewrite IH by auto; cbn [rev]; rewrite <- app_assoc; reflexivity.
Qed.
Lemma group_flat_some : forall gs c acc, Forall group_ok gs ->
  group_subsets (flat gs) (Some c) acc = rev acc ++ [rev c] ++ map snd gs.
Proof.
  induction gs as [|[m ls] gs IH]; intros c acc H.
  - cbn. reflexivity.
  - inversion H as [|? ? [Hm Hl] Hrest]; subst. cbn [fst snd] in *.
    unfold flat. cbn [map concat fst snd]. fold (flat gs). cbn [app group_subsets]. rewrite Hm.
    rewrite group_lines by auto. rewrite IH by auto. rewrite app_nil_r, rev_involutive. cbn [rev map snd app].
    rewrite <- app_assoc. reflexivity.
Qed.
Lemma group_flat : forall gs, Forall group_ok gs -> group_subsets (flat gs) None [] = map snd gs.
Proof.
  intros [|[m ls] gs] H; [reflexivity|]. inversion H as [|? ? [Hm Hl] Hrest]; subst. cbn [fst snd] in *.
  unfold flat. cbn [map concat fst snd]. fold (flat gs). cbn [app group_subsets]. rewrite Hm.
  rewrite group_lines by auto. rewrite group_flat_some by auto. rewrite app_nil_r, rev_involutive. reflexivity.
Qed.

(* all subsets of a dataset *)
Fixpoint compat_subsets (fm fq:bool) (subsets:list (list ditem)) (nodes:list (list lnode)) : Prop :=
  match subsets, nodes with
  | [], [] => True
  | s :: ss, n :: ns => compat_all fm fq s n /\ compat_subsets fm fq ss ns
  | _, _ => False
  end.
Fixpoint outputs_subsets (subsets:list (list ditem)) (nodes:list (list lnode)) : list (list (Z * lval)) :=
  match subsets, nodes with
  | s :: ss, n :: ns => outputs s n :: outputs_subsets ss ns
  | _, _ => []
  end.

Lemma load_subsets_ok : forall fm fq subsets nodes, compat_subsets fm fq subsets nodes ->
  exists res, load_subsets fm fq nodes (map (fun items => map print_item items ++ [[c_nl]]) subsets) = Some (res, false) /\
              map fst res = outputs_subsets subsets nodes /\ Forall (fun r => all_skipped (snd r)) res.
Proof.
  intros fm fq subsets. induction subsets as [|s ss IH]; intros nodes H.
  - destruct nodes; [|contradiction]. exists []. cbn. auto.
  - destruct nodes as [|n ns]; [contradiction|]. destruct H as [H1 H2].
    destruct (subset_roundtrip fm fq s n H1) as (pend & Hp & E).
    destruct (IH ns H2) as (res & E2 & Hm & Hf).
    exists ((outputs s n, pend) :: res). cbn [map load_subsets tl]. rewrite E, E2. cbn [map fst outputs_subsets]. rewrite Hm.
    repeat split; auto.
Qed.

Definition subset_groups (subsets:list (list ditem)) : list (str * list str) :=
  map (fun p => (print_subset_marker (Z.of_nat (S (fst p))) (Z.of_nat (length (snd p))), map print_item (snd p) ++ [[c_nl]]))
      (combine (seq 0 (length subsets)) subsets).
Lemma print_dataset_flat : forall h subsets, print_dataset h subsets = print_header h ++ flat (subset_groups subsets).
Proof.
  intros h subsets. unfold print_dataset, flat, subset_groups. f_equal. rewrite map_map. reflexivity.
Qed.
Lemma subset_groups_snd : forall subsets, map snd (subset_groups subsets) = map (fun items => map print_item items ++ [[c_nl]]) subsets.
Proof.
  intros subsets. unfold subset_groups. rewrite map_map. cbn [snd].
  generalize 0%nat. induction subsets as [|s ss IH]; intros k; [reflexivity|]. cbn [length seq combine map snd]. f_equal. apply IH.
Qed.
Lemma subset_groups_ok : forall fm fq subsets nodes, compat_subsets fm fq subsets nodes -> Forall group_ok (subset_groups subsets).
Proof.
  intros fm fq subsets nodes H. unfold subset_groups. generalize 0%nat. revert nodes H.
  induction subsets as [|s ss IH]; intros nodes H k; [constructor|].
  destruct nodes as [|n ns]; [contradiction|]. destruct H as [H1 H2].
  cbn [length seq combine map]. constructor; [|eapply IH; eauto].
  split; cbn [fst snd]; [apply classify_marker|eapply items_lines_body; eauto].
Qed.

Lemma flat_body_or_marker : forall gs, Forall group_ok gs ->
  Forall (fun l => classify l <> L_edition) (flat gs).
Proof.
  induction gs as [|[m ls] gs IH]; intros H; [constructor|]. inversion H as [|? ? [Hm Hl] Hrest]; subst. cbn [fst snd] in *.
  unfold flat. cbn [map concat fst snd]. fold (flat gs). constructor; [congruence|].
  apply Forall_app. split; auto. revert Hl. apply Forall_impl. intros l Hb. unfold body_line in Hb. destruct (classify l); try contradiction; discriminate.
Qed.
Lemma take_dataset_lines_noedition : forall body rest, Forall (fun l => classify l <> L_edition) body ->
  (rest = [] \/ exists l r, rest = l :: r /\ classify l = L_edition) ->
  take_dataset_lines (body ++ rest) = (body, rest).
Proof.
  induction body as [|l body IH]; intros rest Hb Hr.
  - cbn [app]. destruct Hr as [->|(l & r & -> & Hl)]; [reflexivity|]. cbn [take_dataset_lines]. now rewrite Hl.
  - inversion Hb as [|? ? Hl Hrest]; subst. cbn [app take_dataset_lines]. rewrite IH by auto.
    destruct (classify l); try congruence; reflexivity.
Qed.

(* one dataset: header and every subset come back; the lines of the following dataset are left untouched *)
Theorem dataset_roundtrip : forall fm fq h0 h subsets nodes rest,
  subsets <> [] -> compat_subsets fm fq subsets nodes ->
  (rest = [] \/ exists l r, rest = l :: r /\ classify l = L_edition) ->
  exists res, load_dataset fm fq h0 nodes (print_dataset h subsets ++ rest) = (DS_ok (loaded_header h0 h) res, rest) /\
              map fst res = outputs_subsets subsets nodes /\ Forall (fun r => all_skipped (snd r)) res.
Proof.
  intros fm fq h0 h subsets nodes rest Hne Hc Hr.
  pose proof (subset_groups_ok fm fq subsets nodes Hc) as Hg.
  destruct (load_subsets_ok fm fq subsets nodes Hc) as (res & E & Hm & Hf).
  exists res. split; auto. unfold load_dataset. rewrite print_dataset_flat, <- app_assoc.
  assert (Hfl: exists m tl_, flat (subset_groups subsets) ++ rest = m :: tl_ /\ classify_hdr m = H_subset).
  { destruct subsets as [|s ss]; [congruence|]. unfold subset_groups, flat. cbn [length seq combine map concat fst snd app].
    eexists _, _. split; [reflexivity|]. apply classify_hdr_marker. }
  destruct Hfl as (m & tl_ & Efl & Hmk). rewrite Efl, header_roundtrip by auto. rewrite <- Efl. cbn [negb].
  rewrite take_dataset_lines_noedition by (auto using flat_body_or_marker).
  rewrite group_flat by auto. rewrite subset_groups_snd, E. reflexivity.
Qed.

(* ------------------------------------------------------------------ several datasets in one file *)
Record dset := mkDS { ds_hdr : header; ds_subsets : list (list ditem); ds_nodes : list (list lnode) }.
Definition dset_ok (fm fq:bool) (d:dset) : Prop := ds_subsets d <> [] /\ compat_subsets fm fq (ds_subsets d) (ds_nodes d).
Definition file_text (ds:list dset) : list str := concat (map (fun d => print_dataset (ds_hdr d) (ds_subsets d)) ds).
(* the headers as they come back: the dataset object is reused, so a key that is not written keeps its previous value *)
Fixpoint loaded_headers (h0:header) (ds:list dset) : list header :=
  match ds with [] => [] | d :: t => loaded_header h0 (ds_hdr d) :: loaded_headers (loaded_header h0 (ds_hdr d)) t end.

Lemma print_dataset_starts_edition : forall h subsets, exists l r, print_dataset h subsets = l :: r /\ classify l = L_edition.
Proof. intros. unfold print_dataset, print_header. cbn [app]. eexists _, _. split; [reflexivity|apply classify_edition_line]. Qed.
Lemma file_text_starts : forall ds, file_text ds = [] \/ exists l r, file_text ds = l :: r /\ classify l = L_edition.
Proof.
  intros [|d t]; [now left|]. right. unfold file_text. cbn [map concat].
  destruct (print_dataset_starts_edition (ds_hdr d) (ds_subsets d)) as (l & r & E & Hl). rewrite E. cbn [app]. eauto.
Qed.

Lemma load_file_step : forall fm fq h0 nodes f lines, lines <> [] ->
  load_file fm fq h0 nodes (S f) lines =
  match load_dataset fm fq h0 (match nodes with n :: _ => n | [] => [] end) lines with
  | (DS_ok h s, rest) => (h, s) :: load_file fm fq h (tl nodes) f rest
  | _ => []
  end.
Proof. intros fm fq h0 nodes f [|l ls] H; [congruence|reflexivity]. Qed.

(* the k-th dataset loaded is the k-th dataset dumped, with all its values *)
Theorem multi_dataset_order : forall fm fq ds h0 fuel, Forall (dset_ok fm fq) ds -> (length ds <= fuel)%nat ->
  let res := load_file fm fq h0 (map ds_nodes ds) fuel (file_text ds) in
  map fst res = loaded_headers h0 ds /\
  map (fun r => map fst (snd r)) res = map (fun d => outputs_subsets (ds_subsets d) (ds_nodes d)) ds /\
  Forall (fun r => Forall (fun s => all_skipped (snd s)) (snd r)) res.
Proof.
  intros fm fq ds. induction ds as [|d t IH]; intros h0 fuel Hok Hf.
  - destruct fuel; cbn; auto.
  - inversion Hok as [|? ? [Hne Hc] Hrest]; subst. destruct fuel as [|f]; [cbn in Hf; lia|].
    unfold file_text. cbn [map concat]. fold (file_text t).
    destruct (dataset_roundtrip fm fq h0 (ds_hdr d) (ds_subsets d) (ds_nodes d) (file_text t) Hne Hc (file_text_starts t)) as (res & E & Hm & Hall).
    destruct (print_dataset_starts_edition (ds_hdr d) (ds_subsets d)) as (l & r & El & _).
    rewrite load_file_step by (rewrite El; discriminate).
    rewrite E. cbn [tl]. cbn [map fst snd loaded_headers].
    destruct (IH (loaded_header h0 (ds_hdr d)) f Hrest ltac:(cbn in Hf; lia)) as (A & B & C).
    rewrite A, B, Hm. repeat split; auto.
Qed.

(* ------------------------------------------------------------------ fgets *)
Lemma take_line_full : forall body rest n, nonep (fun c => c =? c_nl) body = true -> (length body < n)%nat ->
  take_line n (body ++ c_nl :: rest) = (body ++ [c_nl], rest).
Proof.
  induction body as [|x body IH]; intros rest n Hb Hn.
  - destruct n; [cbn in Hn; lia|]. cbn [app take_line]. now rewrite Z.eqb_refl.
  - destruct n; [cbn in Hn; lia|]. unfold nonep in Hb. cbn [forallb] in Hb. apply andb_prop in Hb as [Hx Hb].
    cbn [app take_line]. replace (x =? c_nl) with false by (destruct (x =? c_nl); auto; discriminate).
    rewrite IH by (auto; cbn in Hn; lia). reflexivity.
Qed.
Definition text_line (l:str) : Prop := exists body, l = body ++ [c_nl] /\ nonep (fun c => c =? c_nl) body = true /\ (length l <= 2047)%nat.
Lemma fgets_lines_concat : forall ls fuel, Forall text_line ls -> (length ls <= fuel)%nat -> fgets_lines fuel (concat ls) = ls.
Proof.
  induction ls as [|l ls IH]; intros fuel H Hf.
  - destruct fuel; reflexivity.
  - inversion H as [|? ? (body & -> & Hb & Hl) Hrest]; subst. destruct fuel as [|f]; [cbn in Hf; lia|].
    cbn [concat fgets_lines]. rewrite <- app_assoc. cbn [app].
    destruct (body ++ c_nl :: concat ls) eqn:E; [destruct body; discriminate|]. rewrite <- E.
    rewrite take_line_full by (auto; rewrite app_length in Hl; cbn in Hl; lia).
    rewrite IH by (auto; cbn in Hf; lia). reflexivity.
Qed.
(* the text file is split back into the lines that were written, as long as no line exceeds the 2047 characters of fgets *)
Theorem file_lines_concat : forall ls, Forall text_line ls -> file_lines (concat ls) = ls.
Proof.
  intros ls H. unfold file_lines. apply fgets_lines_concat; auto.
  induction H as [|l ls (body & -> & _) Hrest IH]; cbn [concat length]; [lia|]. rewrite !app_length. cbn [length]. lia.
Qed.

(* ------------------------------------------------------------------ glibc printf / strtod: the decimal contract *)
Definition libc_range (n s:Z) : Prop := Z.abs n < 2 ^ 53 /\ -22 <= s <= 22 /\ (s < 0 -> Z.abs n * 10 ^ (- s) < 2 ^ 53).
Section Libc.
  (* fmt_f n s: what sprintf("%.*f") (precision s, or 1 when s < 0) writes for the double nearest to n / 10^s;
     strtod_dec l: the decimal whose nearest double strtod(l) returns.  Both are tested against glibc by the check. *)
  Variable fmt_f : Z -> Z -> str.
  Variable strtod_dec : str -> option (Z * Z).
  Hypothesis fmt_f_contract : forall n s, libc_range n s -> fmt_f n s = print_scaled n s.
  Hypothesis strtod_contract : forall l me, parse_decimal l = Some me -> strtod_dec l = Some me.

  Theorem numeric_text_roundtrip_libc : forall i ref s, libc_range (i + ref) s ->
    exists me, strtod_dec (fmt_f (i + ref) s) = Some me /\ dec_denotes me (i + ref) s /\ requant me s ref = i.
  Proof.
    intros i ref s Hr. rewrite fmt_f_contract by auto.
    destruct (parse_print_id (i + ref) s) as (me & Hp & Hd).
    destruct (requant_parse_print i ref s) as (me' & Hp' & Hq).
    rewrite Hp in Hp'. injection Hp' as <-. exists me. auto.
  Qed.
End Libc.

(* ------------------------------------------------------------------ where the current code violates the property *)
Definition mk_str_item (d:Z) (meta:option str) (s:str) : ditem := mkDI d false false 0 meta None (DV_str s).
Definition rest_of (l:str) : str := match classify l with L_data _ r => r | _ => [] end.

(* '}' inside a string that follows a {..} comment: the current loader (fix_meta = false) cuts the value at the last '}' *)
Theorem rbrace_refuted : exists it,
  item_ok true false (VT_STR 4) it /\ di_skipped it = false /\
  load_rest true false (VT_STR 4) (rest_of (print_item it)) = expected_lval it /\
  load_rest false false (VT_STR 4) (rest_of (print_item it)) <> expected_lval it.
Proof.
  exists (mk_str_item 1015 (Some [123;82;61;49;125]) [65;125;66;32]).
  split; [|split; [reflexivity|split; [vm_compute; reflexivity|vm_compute; discriminate]]].
  unfold item_ok, mk_str_item. cbn [di_desc di_meta di_af di_val meta_ok af_ok value_ok]. split; [lia|]. split.
  - split; [reflexivity|]. exists [], [82;61;49]. repeat split; constructor.
  - repeat split; try discriminate; try reflexivity; congruence.
Qed.
(* and when '}' is the last character nothing is left after the opening quote: strlen(NULL) *)
Theorem rbrace_crash : 
  lv_val (load_rest false false (VT_STR 4) (rest_of (print_item (mk_str_item 1015 (Some [123;82;61;49;125]) [65;66;67;125])))) = TV_crash.
Proof. vm_compute. reflexivity. Qed.

(* the quoted four-character string MSNG is taken for the missing value (fix_q = false) *)
Theorem quoted_msng_refuted : forall fm,
  load_rest fm false (VT_STR 4) (rest_of (print_item (mk_str_item 1015 None s_MSNG))) = mkLV None TV_missing /\
  load_rest fm true (VT_STR 4) (rest_of (print_item (mk_str_item 1015 None s_MSNG))) = mkLV None (TV_str s_MSNG).
Proof. intros []; split; vm_compute; reflexivity. Qed.

(* nested delayed replication: the flags the library has after expanding 1 03 000 / 0 31 001 = 1 / [1 01 000 / 0 31 001 = 1 / 0 12 101]:
   the inner replication descriptor is FLAG_SKIPPED|FLAG_IGNORED in the dump although the loader has not skipped it yet *)
Definition nested_items (inner_ignored:bool) : list ditem :=
  [ mkDI 103000 true false 0 None None DV_none;
    mkDI 31001 false false 0 (Some [123;82;61;48;125]) None (DV_int 1);
    mkDI 101000 true inner_ignored 0 None None DV_none;
    mkDI 31001 false false 0 (Some [123;82;61;49;46;48;125]) None (DV_int 1);
    mkDI 12101 false false 0 (Some [123;82;61;49;46;49;125]) None (DV_num 27315 2) ].
Definition nested_nodes : list lnode :=
  [ mkLN 103000 false VT_NONE; mkLN 31001 false (VT_INT false); mkLN 101000 false VT_NONE; mkLN 31001 false (VT_INT false); mkLN 12101 false VT_F64 ].
Theorem nested_replication_refuted : forall fm fq,
  load_subset_lines fm fq nested_nodes (map print_item (nested_items true) ++ [[c_nl]]) [] = LR_mismatch /\
  load_subset_lines fm fq nested_nodes (map print_item (nested_items false) ++ [[c_nl]]) [] = LR_ok (outputs (nested_items false) nested_nodes) [].
Proof. intros [] []; split; vm_compute; reflexivity. Qed.

(* ------------------------------------------------------------------ trim-zero mode (bufr_set_trimzero): str_trimchar keeps the value *)
Definition dec_value_eq (me:Z*Z) (n s:Z) : Prop :=
  if 0 <=? snd me + s then fst me * 10 ^ (snd me + s) = n else fst me = n * 10 ^ (- (snd me + s)).

Lemma split_trailing_zeros : forall F, forallb is_digit F = true ->
  exists F1 k, F = F1 ++ repeat 48 k /\ (F1 = [] \/ exists F1' c, F1 = F1' ++ [c] /\ (c =? 48) = false /\ is_digit c = true).
Proof.
  intros F. induction F as [|c F' IH] using rev_ind; intros H.
  - exists [], 0%nat. split; [reflexivity|now left].
  - rewrite forallb_app in H. apply andb_prop in H as [HF Hc]. cbn in Hc. rewrite andb_true_r in Hc.
    destruct (c =? 48) eqn:E.
    + destruct (IH HF) as (F1 & k & -> & Hor). exists F1, (S k). split; auto.
      rewrite <- app_assoc. f_equal. replace c with 48 by lia. change [48] with (repeat 48 1). rewrite <- repeat_app. f_equal. lia.
    + exists (F' ++ [c]), 0%nat. split; [cbn; now rewrite app_nil_r|]. right. eauto.
Qed.
Lemma parse_zeros : forall k a, parse_digits_acc a (repeat 48 k) = a * 10 ^ Z.of_nat k.
Proof.
  induction k as [|k IH]; intros a; [cbn; lia|]. cbn [repeat]. unfold parse_digits_acc in *. cbn [fold_left]. rewrite IH.
  rewrite Nat2Z.inj_succ, Z.pow_succ_r by lia. unfold digit_val. lia.
Qed.
Lemma dropwhile_zeros : forall k X, dropwhile (fun c => c =? 48) (repeat 48 k ++ X) = dropwhile (fun c => c =? 48) X.
Proof. induction k as [|k IH]; intros X; [reflexivity|]. cbn [repeat app dropwhile]. change (48 =? 48) with true. cbv iota. apply IH. Qed.
Lemma rev_repeat : forall (c:Z) k, rev (repeat c k) = repeat c k.
Proof.
  intros c k. induction k as [|k IH]; [reflexivity|]. cbn [repeat rev]. rewrite IH.
  clear IH. induction k as [|k IH]; [reflexivity|]. cbn [repeat app]. now rewrite IH.
Qed.

Theorem trim_zeros_value : forall n s, 0 < s ->
  exists me, parse_decimal (trim_zeros (print_scaled n s)) = Some me /\ dec_value_eq me n s.
Proof.
  intros n s Hs.
  set (a := Z.abs n). set (D := dec_nat (a / 10 ^ s)). set (F := fixed_digits (Z.to_nat s) a).
  set (sg := if n <? 0 then [c_minus] else []).
  assert (Hp: 0 < 10 ^ s) by (apply Z.pow_pos_nonneg; lia).
  assert (Hshape: print_scaled n s = sg ++ D ++ 46 :: F).
  { unfold print_scaled, print_unsigned_scaled. replace (0 <? s) with true by lia. reflexivity. }
  assert (HDF: parse_digits (D ++ F) = a).
  { unfold parse_digits. rewrite parse_digits_acc_app. fold (parse_digits D). unfold D. rewrite parse_dec_nat by (apply Z.div_pos; lia).
    unfold F. rewrite parse_fixed_acc by lia. rewrite Z2Nat.id by lia. pose proof (Z.div_mod a (10 ^ s)). lia. }
  assert (HlenF: length F = Z.to_nat s) by apply fixed_digits_length.
  destruct (split_trailing_zeros F (fixed_digits_all_digit _ _)) as (F1 & k & EF & Hor).
  assert (Hlen: (length F1 + k = Z.to_nat s)%nat) by (rewrite <- HlenF, EF, app_length, repeat_length; reflexivity).
  assert (Hsg: forall X m e, (exists c t, X = c :: t /\ is_digit c = true) -> parse_decimal X = Some (m, e) ->
            exists m', parse_decimal (sg ++ X) = Some (m', e) /\ m' = (if n <? 0 then - m else m)).
  { intros X m e HX HPd. unfold sg. destruct (n <? 0); cbn [app]; [|eauto]. erewrite parse_decimal_neg; eauto. }
  rewrite Hshape. unfold trim_zeros.
  replace (rev (sg ++ D ++ 46 :: F)) with (repeat 48 k ++ rev F1 ++ 46 :: rev D ++ rev sg).
  2:{ rewrite EF. rewrite !rev_app_distr. cbn [rev]. rewrite !rev_app_distr, rev_repeat. cbn [rev app]. list_eq. }
  rewrite dropwhile_zeros.
  destruct (dec_nat_hd (a / 10 ^ s)) as (c0 & t0 & ED & Hc0). fold D in ED.
  destruct Hor as [->|(F1' & c & -> & Hc48 & Hcd)].
  - (* all fractional digits are zero: the point goes as well *)
    cbn [rev app dropwhile]. change (46 =? 48) with false. cbv iota. change (hd_is 46 (46 :: _)) with true. cbv iota. cbn [tl].
    rewrite rev_app_distr, !rev_involutive.
    destruct (Hsg D (parse_digits D) 0) as (m' & Hm & Em).
    { rewrite ED. eauto. } { apply parse_decimal_int; [apply dec_nat_nonempty|apply dec_nat_all_digit]. }
    exists (m', 0). split; auto. unfold dec_value_eq. cbn [fst snd]. replace (0 + s) with s by lia. replace (0 <=? s) with true by lia.
    cbn [app] in EF. rewrite EF in HDF. unfold parse_digits in HDF. rewrite parse_digits_acc_app, parse_zeros in HDF.
    fold (parse_digits D) in HDF. cbn [length] in Hlen. replace (Z.of_nat k) with s in HDF by lia.
    subst m'. unfold a in *. destruct (n <? 0) eqn:En; lia.
  - rewrite rev_app_distr. cbn [rev app dropwhile]. rewrite Hc48. cbv iota.
    assert (H46: hd_is 46 (c :: rev F1' ++ 46 :: rev D ++ rev sg) = false) by (unfold hd_is, is_digit in *; lia).
    rewrite H46. cbn [rev]. rewrite !rev_app_distr. cbn [rev app]. rewrite !rev_app_distr, !rev_involutive. cbn [rev app].
    match goal with |- context [parse_decimal ?L] => replace L with (sg ++ D ++ 46 :: F1' ++ [c]) by list_eq end.
    assert (HdF1: forallb is_digit (F1' ++ [c]) = true).
    { pose proof (fixed_digits_all_digit (Z.to_nat s) a) as HF. fold F in HF. rewrite EF, forallb_app in HF. now apply andb_prop in HF as [HF _]. }
    destruct (Hsg (D ++ 46 :: F1' ++ [c]) (parse_digits (D ++ F1' ++ [c])) (- Z.of_nat (length (F1' ++ [c])))) as (m' & Hm & Em).
    { rewrite ED. cbn [app]. eauto. }
    { apply parse_decimal_frac; [apply dec_nat_nonempty|apply dec_nat_all_digit|exact HdF1]. }
    eexists. split; [exact Hm|]. unfold dec_value_eq. cbn [fst snd].
    replace (0 <=? - Z.of_nat (length (F1' ++ [c])) + s) with true by lia.
    replace (- Z.of_nat (length (F1' ++ [c])) + s) with (Z.of_nat k) by lia.
    rewrite EF in HDF. unfold parse_digits in HDF. rewrite app_assoc, parse_digits_acc_app, parse_zeros in HDF.
    fold (parse_digits (D ++ F1' ++ [c])) in HDF.
    subst m'. unfold a in *. destruct (n <? 0) eqn:En; lia.
Qed.

(* ------------------------------------------------------------------ the message *)
Theorem same_message : forall (Msg:Type) (encode : header -> list (list (Z * lval)) -> Msg) fm fq ds h0 fuel,
  Forall (dset_ok fm fq) ds -> (length ds <= fuel)%nat ->
  map (fun r => encode (fst r) (map fst (snd r))) (load_file fm fq h0 (map ds_nodes ds) fuel (file_text ds)) =
  map (fun p => encode (fst p) (outputs_subsets (ds_subsets (snd p)) (ds_nodes (snd p)))) (combine (loaded_headers h0 ds) ds).
Proof.
  intros Msg encode fm fq ds h0 fuel Hok Hf.
  destruct (multi_dataset_order fm fq ds h0 fuel Hok Hf) as (A & B & _).
  set (res := load_file fm fq h0 (map ds_nodes ds) fuel (file_text ds)) in *.
  clearbody res. revert res A B. generalize (loaded_headers h0 ds) as hs.
  induction ds as [|d t IH]; intros hs res A B.
  - destruct res; [|discriminate]. destruct hs; reflexivity.
  - destruct res as [|r res]; [discriminate|]. cbn [map] in A, B. destruct hs as [|hh hs]; [discriminate|].
    injection A as A1 A2. injection B as B1 B2. cbn [combine map fst snd]. f_equal.
    + now rewrite A1, B1.
    + inversion Hok; subst. apply IH; auto. cbn in Hf. lia.
Qed.

(* ------------------------------------------------------------------ examples: the hypotheses can be met *)
Lemma meta_ok_R : forall body, nonep (fun c => c =? 125) body = true -> no_nul body = true -> meta_ok (Some (123 :: body ++ [125])).
Proof.
  intros body Hb Hn. split.
  - change (123 :: body ++ [125]) with ([123] ++ body ++ [125]). rewrite !no_nul_app, Hn. reflexivity.
  - exists [], body. repeat split; auto. constructor.
Qed.
Lemma compat_example : compat_all true true (nested_items false) nested_nodes /\ dset_ok true true (mkDS (mkH (repeat 0 17) None) [nested_items false] [nested_nodes]).
Proof.
  assert (H: compat_all true true (nested_items false) nested_nodes).
  { unfold nested_items, nested_nodes. cbn [compat_all].
    repeat split; cbn [di_desc di_skipped di_ignored di_meta di_af di_val ln_desc ln_skipped ln_vt]; try lia; try discriminate; try congruence;
      try (intros; exact I); auto.
    all: try (apply (meta_ok_R [82;61;48]); reflexivity).
    all: try (apply (meta_ok_R [82;61;49;46;48]); reflexivity).
    all: try (apply (meta_ok_R [82;61;49;46;49]); reflexivity).
    all: try (intros; discriminate). }
  split; auto. split; [discriminate|]. cbn. auto.
Qed.
Lemma text_line_example : Forall text_line (print_dataset (mkH (4 :: repeat 0 16) None) [nested_items false]).
Proof.
  assert (H: forall l, (exists body, l = body ++ [c_nl] /\ forallb (fun c => negb (c =? c_nl)) body = true /\ (length l <=? 2047)%nat = true) -> text_line l).
  { intros l (body & E & Hb & Hl). exists body. repeat split; auto. now apply Nat.leb_le. }
  vm_compute. repeat (constructor; [apply H; eexists; split; [|split]; [| |]; 
     [match goal with |- ?l = _ => let b := eval vm_compute in (removelast l) in instantiate (1 := b) end; reflexivity|reflexivity|reflexivity]|]).
  constructor.
Qed.
Lemma item_ok_example :
  item_ok true true (VT_STR 8) (mkDI 1015 false false 0 (Some [123;82;61;49;125]) (Some (5, 4)) (DV_str [32;65;34;125;32;66;32;32])).
Proof.
  unfold item_ok. cbn [di_desc di_meta di_af di_val af_ok value_ok]. split; [lia|]. split; [apply (meta_ok_R [82;61;49]); reflexivity|].
  split; [lia|]. split; [|intros; discriminate]. split; [reflexivity|]. split; [|intros; discriminate]. split; [discriminate|reflexivity].
Qed.
