(* ScalImpl.v — C08: executable mirror of the library's scaling functions on IEEE-754 binary64/binary32 (Flocq).
     bufr_tables.c : bufr_cvt_i64_to_dval, bufr_cvt_dval_to_i64, bufr_cvt_i32_to_fval, bufr_cvt_fval_to_i32, bufr_value_nbits
     bufr_value.c  : bufr_missing_ivalue, bufr_is_missing_double/float, bufr_cvt_ivalue, bufr_negative_ivalue
     bufr_desc.c   : bufr_descriptor_get_range, the range test of bufr_descriptor_set_dvalue
   C integer types are written out (wrap64 = uint64_t, wrap32 = uint32_t, sint32 = int, sint64 = int64_t).
   libm's pow(10.0,(double)k) is the section variable [pow10]; its contract is a hypothesis of the theorems
   (ScalImplProof.v) and is instantiated for execution by the correctly rounded [pow10_rn].
   Conversions double -> integer outside the target range are undefined in C; they are modelled with the
   x86-64/SSE2 behaviour of the code gcc emits (cvttsd2si "integer indefinite"), which the correspondence run checks
   where reachable.
   Two booleans select the variant of the code that is mirrored (lib/c08.py probes which one the tree implements):
     fx_neg = true : negative scales use the exact power 10^-scale (x * pow(10,-scale), x / pow(10,-scale)) in
                     bufr_cvt_i64_to_dval, bufr_cvt_dval_to_i64 and bufr_descriptor_get_range
                     (false: x / pow(10,scale) and x * pow(10,scale) with the inexact 10^scale);
     fx_f32 = true : the single-precision functions keep pow(10,scale) in a double (false: in a float);
     fx_f32n = true: (only with fx_f32) the single-precision functions use the exact 10^-scale for negative scales, like
                     the double functions with fx_neg (false: x / pow(10,scale), x * pow(10,scale)).
   Definitions only. *)
From Coq Require Import ZArith Bool QArith.
From Flocq Require Import Core BinarySingleNaN.
From V Require Import ScalSpec.

Local Open Scope Z_scope.

(* ---------------------------------------------------------------- formats *)
Global Instance Hprec64 : Prec_gt_0 53 := eq_refl.
Global Instance Hmax64 : Prec_lt_emax 53 1024 := eq_refl.
Global Instance Hprec32 : Prec_gt_0 24 := eq_refl.
Global Instance Hmax32 : Prec_lt_emax 24 128 := eq_refl.
Notation b64 := (binary_float 53 1024).
Notation b32 := (binary_float 24 128).

(* ---------------------------------------------------------------- C integer conversions *)
Definition wrap64 (z : Z) : Z := z mod 2 ^ 64.
Definition wrap32 (z : Z) : Z := z mod 2 ^ 32.
Definition sint32 (z : Z) : Z := (z + 2 ^ 31) mod 2 ^ 32 - 2 ^ 31.
Definition sint64 (z : Z) : Z := (z + 2 ^ 63) mod 2 ^ 64 - 2 ^ 63.

(* ---------------------------------------------------------------- float helpers *)
Definition d_of_Z (z : Z) : b64 := binary_normalize 53 1024 Hprec64 Hmax64 mode_NE z 0 false.   (* (double)integer *)
Definition f_of_Z (z : Z) : b32 := binary_normalize 24 128 Hprec32 Hmax32 mode_NE z 0 false.    (* (float)integer  *)

Definition ddiv : b64 -> b64 -> b64 := @Bdiv 53 1024 Hprec64 Hmax64 mode_NE.
Definition dmul : b64 -> b64 -> b64 := @Bmult 53 1024 Hprec64 Hmax64 mode_NE.
Definition dsub : b64 -> b64 -> b64 := @Bminus 53 1024 Hprec64 Hmax64 mode_NE.
Definition dadd : b64 -> b64 -> b64 := @Bplus 53 1024 Hprec64 Hmax64 mode_NE.
Definition dround : b64 -> b64 := @Bnearbyint 53 1024 Hmax64 mode_NA.                     (* round()  *)
Definition fdiv : b32 -> b32 -> b32 := @Bdiv 24 128 Hprec32 Hmax32 mode_NE.
Definition fmul : b32 -> b32 -> b32 := @Bmult 24 128 Hprec32 Hmax32 mode_NE.
Definition fsub : b32 -> b32 -> b32 := @Bminus 24 128 Hprec32 Hmax32 mode_NE.
Definition fadd : b32 -> b32 -> b32 := @Bplus 24 128 Hprec32 Hmax32 mode_NE.

Definition dzero : b64 := B754_zero false.
Definition fzero : b32 := B754_zero false.
Definition dbl_max : b64 := @Bmax_float 53 1024 Hprec64 Hmax64.      (* DBL_MAX: the library's "missing" double *)
Definition flt_max : b32 := @Bmax_float 24 128 Hprec32 Hmax32.       (* FLT_MAX *)

Definition bgt {p e} (a b : binary_float p e) : bool := match Bcompare a b with Some Gt => true | _ => false end.
Definition blt {p e} (a b : binary_float p e) : bool := match Bcompare a b with Some Lt => true | _ => false end.
Definition bge {p e} (a b : binary_float p e) : bool := match Bcompare a b with Some Gt | Some Eq => true | _ => false end.
Definition ble {p e} (a b : binary_float p e) : bool := match Bcompare a b with Some Lt | Some Eq => true | _ => false end.
Definition beq {p e} (a b : binary_float p e) : bool := match Bcompare a b with Some Eq => true | _ => false end.

(* float <-> double *)
Definition f2d (f : b32) : b64 :=
  match f with
  | B754_zero s => B754_zero s
  | B754_infinity s => B754_infinity s
  | B754_nan => B754_nan
  | B754_finite s m e _ => binary_normalize 53 1024 Hprec64 Hmax64 mode_NE (cond_Zopp s (Zpos m)) e s
  end.
Definition d2f (d : b64) : b32 :=
  match d with
  | B754_zero s => B754_zero s
  | B754_infinity s => B754_infinity s
  | B754_nan => B754_nan
  | B754_finite s m e _ => binary_normalize 24 128 Hprec32 Hmax32 mode_NE (cond_Zopp s (Zpos m)) e s
  end.

(* truncation toward zero; None for NaN and infinities *)
Definition trunc_opt {p e} (x : binary_float p e) : option Z :=
  match x with
  | B754_nan | B754_infinity _ => None
  | _ => Some (Btrunc x)
  end.

(* cvttsd2si / cvttss2si: out of range and NaN give the "integer indefinite" value *)
Definition cvt_si32 {p e} (x : binary_float p e) : Z :=
  match trunc_opt x with
  | Some t => if (- 2 ^ 31 <=? t) && (t <? 2 ^ 31) then t else - 2 ^ 31
  | None => - 2 ^ 31
  end.
Definition cvt_si64 {p e} (x : binary_float p e) : Z :=
  match trunc_opt x with
  | Some t => if (- 2 ^ 63 <=? t) && (t <? 2 ^ 63) then t else - 2 ^ 63
  | None => - 2 ^ 63
  end.
(* (uint32_t)x : 64-bit cvtt, low 32 bits *)
Definition cvt_u32 {p e} (x : binary_float p e) : Z := wrap32 (cvt_si64 x).
(* (uint64_t)x for a double: gcc's two-range sequence *)
Definition two63 : b64 := d_of_Z (2 ^ 63).
Definition cvt_u64 (x : b64) : Z :=
  if bge x two63 then Z.lxor (wrap64 (cvt_si64 (dsub x two63))) (2 ^ 63)
  else wrap64 (cvt_si64 x).

(* exact rational value of a finite float (0 for NaN/infinity) *)
Definition B2Q {p e} (x : binary_float p e) : Q :=
  match x with
  | B754_finite s m ex _ =>
      if 0 <=? ex then inject_Z (cond_Zopp s (Zpos m) * 2 ^ ex) else Qmake (cond_Zopp s (Zpos m)) (Z.to_pos (2 ^ (- ex)))
  | _ => 0%Q
  end.

(* SF2B with the validity test executed instead of proved *)
Definition SF2B_checked (p e : Z) (x : SpecFloat.spec_float) : binary_float p e :=
  match SpecFloat.valid_binary p e x as b return (SpecFloat.valid_binary p e x = b -> binary_float p e) with
  | true => fun H => @SF2B p e x H
  | false => fun _ => B754_nan
  end eq_refl.

(* correctly rounded 10^k: what an ideal pow(10.0, k) returns *)
Definition pow10_rn (k : Z) : b64 :=
  if 0 <=? k then d_of_Z (10 ^ k)
  else
    let '(q, e', l) := SpecFloat.SFdiv_core_binary 53 1024 1 0 (10 ^ (- k)) 0 in
    SF2B_checked 53 1024 (binary_round_aux 53 1024 mode_NE false q e' l).

(* ---------------------------------------------------------------- bufr_value.c *)
(* bufr_missing_ivalue: table (1ULL<<i)-1, i=1..64; entry 64 is computed by the undefined shift 1ULL<<64 (x86: 1) *)
Definition missing_ivalue (nbits : Z) : Z :=
  if nbits <=? 0 then 0 else if 64 <=? nbits then 0 else 2 ^ nbits - 1.

Definition is_missing_double (d : b64) : bool :=
  match d with
  | B754_nan | B754_infinity _ => true
  | _ => beq d dbl_max
  end.
Definition is_missing_float (f : b32) : bool :=
  match f with
  | B754_nan | B754_infinity _ => true
  | _ => beq f flt_max
  end.

(* the for-loops of bufr_value_nbits: first i in 1..64 passing the test, 65 if none *)
Fixpoint first_from (fuel : nat) (i : Z) (test : Z -> bool) : Z :=
  match fuel with
  | O => i
  | S f => if test i then i else first_from f (i + 1) test
  end.
Definition value_nbits (val : Z) : Z :=
  if 0 <=? val then first_from 64 1 (fun i => val <? (if i =? 64 then 0 else 2 ^ i - 1))
  else let ival := Z.abs (sint32 val) in                       (* abs() is the int function *)
       first_from 64 1 (fun i => ival <? (if i =? 1 then 0 else 2 ^ (i - 1))).

(* the operand of 2 03 YYY: sign and magnitude, no "missing" value (all ones is -(2^(nbits-1)-1); the test for all ones
   that the function had was removed by the fix f42a628) *)
Definition cvt_ivalue (value nbits : Z) : Z :=
  if Z.testbit value (nbits - 1) then sint64 (wrap64 (- (value mod 2 ^ (nbits - 1)))) else sint64 value.

Definition negative_ivalue (value nbits : Z) : Z :=
  if 0 <=? value then value
  else if nbits <=? 0 then 2 ^ 64 - 1
  else let nb := if 64 <? nbits then 64 else nbits in
       Z.lor (Z.abs (sint32 value)) (2 ^ (nb - 1)).

(* ---------------------------------------------------------------- encodings *)
Record enc : Set := { e_scale : Z; e_ref : Z; e_nbits : Z }.

Definition desc_x (desc : Z) : Z := (desc / 1000) mod 100.

Section WithPow.
Variable pow10 : Z -> b64.       (* pow(10.0, (double)k) of libm *)
Variable fx_neg : bool.
Variable fx_f32 : bool.
Variable fx_f32n : bool.

(* bufr_cvt_i64_to_dval: (double)(int64)(ival+reference) / 10^scale *)
Definition cvt_i64_to_dval (en : enc) (ival : Z) : b64 :=
  let missing := missing_ivalue (e_nbits en) in
  if (ival <? 0) || (ival =? missing) then dbl_max
  else if fx_neg && (e_scale en <? 0) then dmul (d_of_Z (sint64 (ival + e_ref en))) (pow10 (- e_scale en))
  else ddiv (d_of_Z (sint64 (ival + e_ref en))) (pow10 (e_scale en)).

(* bufr_cvt_dval_to_i64 *)
Definition cvt_dval_to_i64 (desc : Z) (en : enc) (fval : b64) : Z :=
  let nbits := e_nbits en in let ref := e_ref en in let scale := e_scale en in
  if 32 <? nbits then 0 else
  let missing := missing_ivalue nbits in
  if is_missing_double fval then missing else
  let maxval := wrap64 (2 ^ nbits - 1) in
  let val_pow := pow10 scale in
  let ival_pow := cvt_si32 val_pow in
  let exact_neg := fx_neg && (scale <? 0) in
  let fmin := if exact_neg then dmul (d_of_Z ref) (pow10 (- scale)) else ddiv (d_of_Z ref) val_pow in
  let fmax := if exact_neg then dmul (d_of_Z (sint64 (maxval - 1 + ref))) (pow10 (- scale))
              else ddiv (d_of_Z (sint64 (maxval - 1 + ref))) val_pow in
  if bgt fval fmax then
    (if desc_x desc =? 31 then
       let ival := wrap64 (cvt_si32 fval) in if ival =? maxval then ival else missing
     else missing)
  else if blt fval fmin then maxval
  else if 0 <=? scale then
    let val1 := dsub fval (ddiv (d_of_Z ref) val_pow) in
    let ival0 := cvt_u64 (dround (dmul val1 val_pow)) in
    let delta := sint32 (maxval - ival0) in
    let ival :=
      if delta <? ref then
        let iv := cvt_u64 val1 in
        let rem := cvt_u64 (dround (dmul (dsub val1 (d_of_Z iv)) val_pow)) in
        cvt_u64 (dadd (dmul (d_of_Z iv) val_pow) (d_of_Z rem))
      else if bgt fval dzero then
        let iv := cvt_u64 fval in
        let sval := wrap64 (iv * wrap64 ival_pow) in
        let rem := cvt_u64 (dround (dmul (dsub fval (d_of_Z iv)) val_pow)) in
        wrap64 (wrap64 (sval - ref) + rem)
      else
        let sval := cvt_si64 (dround (dmul fval val_pow)) in
        wrap64 (sval - ref) in
    if maxval <=? ival then missing else ival
  else
    let sval := cvt_si64 (dround (if fx_neg then ddiv fval (pow10 (- scale)) else dmul fval val_pow)) in
    let ival := wrap64 (sval - ref) in
    if maxval <=? ival then missing else ival.

(* bufr_cvt_i32_to_fval *)
Definition cvt_i32_to_fval (en : enc) (ival : Z) : b32 :=
  let ref := e_ref en in
  let missing := wrap32 (missing_ivalue (e_nbits en)) in
  if ival =? missing then flt_max else
  let num := if (ref <? 0) && (ival <? wrap32 (- ref)) then f_of_Z (sint32 (wrap32 (ival + ref)))
             else f_of_Z (wrap32 (ival + ref)) in
  if fx_f32 then                                                 (* double val_pow: float op double is a double operation *)
    (if fx_f32n && (e_scale en <? 0) then d2f (dmul (f2d num) (pow10 (- e_scale en)))
     else d2f (ddiv (f2d num) (pow10 (e_scale en))))
  else fdiv num (d2f (pow10 (e_scale en))).

(* bufr_cvt_fval_to_i32 with `float val_pow` *)
Definition cvt_fval_to_i32_flt (desc : Z) (en : enc) (fval : b32) : Z :=
  let nbits := e_nbits en in let ref := e_ref en in let scale := e_scale en in
  if 32 <? nbits then 0 else
  let missing := missing_ivalue nbits in
  if is_missing_float fval then wrap32 missing else
  let maxval := wrap64 (2 ^ nbits - 1) in
  let val_pow := d2f (pow10 scale) in
  let ival_pow := cvt_si32 val_pow in
  let fmin := fdiv (f_of_Z ref) val_pow in
  let fmax := fdiv (f_of_Z (sint64 (maxval - 1 + ref))) val_pow in
  if bgt fval fmax then
    (if desc_x desc =? 31 then
       let ival := wrap32 (cvt_si32 fval) in if ival =? maxval then ival else wrap32 missing
     else wrap32 missing)
  else if blt fval fmin then wrap32 maxval
  else if 0 <=? scale then
    let val1 := f2d (fsub fval (fdiv (f_of_Z ref) val_pow)) in
    let ival0 := cvt_u32 (dround (dmul val1 (f2d val_pow))) in
    let delta := sint32 (wrap64 (maxval - ival0)) in
    let ival :=
      if delta <? ref then
        let iv := cvt_u32 val1 in
        let rem := cvt_u32 (dround (dmul (dsub val1 (d_of_Z iv)) (f2d val_pow))) in
        cvt_u32 (fadd (fmul (f_of_Z iv) val_pow) (f_of_Z rem))
      else if bgt fval fzero then
        let iv := cvt_u32 fval in
        let sval := wrap32 (iv * wrap32 ival_pow) in
        let rem := cvt_u32 (dround (f2d (fmul (fsub fval (f_of_Z iv)) val_pow))) in
        wrap32 (wrap32 (sval - ref) + rem)
      else
        let sval := cvt_si32 (dround (f2d (fmul fval val_pow))) in
        wrap32 (sval - ref) in
    if maxval <=? ival then wrap32 missing else ival
  else
    let sval := cvt_si32 (dround (f2d (fmul fval val_pow))) in
    let ival := wrap32 (sval - ref) in
    if maxval <=? ival then wrap32 missing else ival.

(* bufr_cvt_fval_to_i32 with `double val_pow`: every expression is evaluated in double *)
Definition cvt_fval_to_i32_dbl (desc : Z) (en : enc) (fval : b32) : Z :=
  let nbits := e_nbits en in let ref := e_ref en in let scale := e_scale en in
  if 32 <? nbits then 0 else
  let missing := missing_ivalue nbits in
  if is_missing_float fval then wrap32 missing else
  let maxval := wrap64 (2 ^ nbits - 1) in
  let val_pow := pow10 scale in
  let ival_pow := cvt_si32 val_pow in
  let exact_neg := fx_f32n && (scale <? 0) in
  let fmin := if exact_neg then d2f (dmul (d_of_Z ref) (pow10 (- scale))) else d2f (ddiv (d_of_Z ref) val_pow) in
  let fmax := if exact_neg then d2f (dmul (d_of_Z (sint64 (maxval - 1 + ref))) (pow10 (- scale)))
              else d2f (ddiv (d_of_Z (sint64 (maxval - 1 + ref))) val_pow) in
  if bgt fval fmax then
    (if desc_x desc =? 31 then
       let ival := wrap32 (cvt_si32 fval) in if ival =? maxval then ival else wrap32 missing
     else wrap32 missing)
  else if blt fval fmin then wrap32 maxval
  else if 0 <=? scale then
    let val1 := dsub (f2d fval) (ddiv (d_of_Z ref) val_pow) in
    let ival0 := cvt_u32 (dround (dmul val1 val_pow)) in
    let delta := sint32 (wrap64 (maxval - ival0)) in
    let ival :=
      if delta <? ref then
        let iv := cvt_u32 val1 in
        let rem := cvt_u32 (dround (dmul (dsub val1 (d_of_Z iv)) val_pow)) in
        cvt_u32 (dadd (dmul (d_of_Z iv) val_pow) (d_of_Z rem))
      else if bgt fval fzero then
        let iv := cvt_u32 fval in
        let sval := wrap32 (iv * wrap32 ival_pow) in
        let rem := cvt_u32 (dround (dmul (f2d (fsub fval (f_of_Z iv))) val_pow)) in
        wrap32 (wrap32 (sval - ref) + rem)
      else
        let sval := cvt_si32 (dround (dmul (f2d fval) val_pow)) in
        wrap32 (sval - ref) in
    if maxval <=? ival then wrap32 missing else ival
  else
    let sval := cvt_si32 (dround (if fx_f32n then ddiv (f2d fval) (pow10 (- scale)) else dmul (f2d fval) val_pow)) in
    let ival := wrap32 (sval - ref) in
    if maxval <=? ival then wrap32 missing else ival.

Definition cvt_fval_to_i32 (desc : Z) (en : enc) (fval : b32) : Z :=
  if fx_f32 then cvt_fval_to_i32_dbl desc en fval else cvt_fval_to_i32_flt desc en fval.

(* bufr_descriptor_get_range for TYPE_NUMERIC/CODETABLE/FLAGTABLE: (min, max) *)
Definition get_range (desc : Z) (en : enc) : b64 * b64 :=
  let imax := sint64 (wrap64 (2 ^ e_nbits en - 1)) in
  let imax := if desc_x desc =? 31 then imax else imax - 1 in
  if fx_neg && (e_scale en <? 0) then
    let sf := pow10 (- e_scale en) in (dmul (d_of_Z (e_ref en)) sf, dmul (d_of_Z (imax + e_ref en)) sf)
  else
    let sf := pow10 (e_scale en) in (ddiv (d_of_Z (e_ref en)) sf, ddiv (d_of_Z (imax + e_ref en)) sf).

(* the value bufr_descriptor_set_dvalue stores in a FLT64 value: dval itself when missing or in range, else DBL_MAX *)
Definition set_dvalue_stored (desc : Z) (en : enc) (dval : b64) : b64 :=
  if is_missing_double dval then dval
  else let '(mn, mx) := get_range desc en in
       if bge dval mn && ble dval mx then dval else dbl_max.

End WithPow.
