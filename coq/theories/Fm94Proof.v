(* Fm94Proof.v — proofs of the central theorems about the FM 94 reference codec (Fm94.v). *)
From Coq Require Import List ZArith NArith Arith Lia Bool ZifyBool.
From V Require Import Walk Fm94.
Import ListNotations.
Local Open Scope Z_scope.

(* ------------------------------------------------------------------ fixed-width integers *)
Lemma mod_pow2_succ (v k:N) : (v mod 2 ^ N.succ k = N.b2n (N.testbit v k) * 2 ^ k + v mod 2 ^ k)%N.
Proof.
  rewrite N.testbit_spec', N.pow_succ_r', (N.mul_comm 2).
  rewrite N.mod_mul_r; [lia| apply N.pow_nonzero; discriminate | discriminate].
Qed.

Lemma enc_n_length w v : length (enc_n w v) = w.
Proof. induction w as [|k IH]; cbn [enc_n length]; [reflexivity|rewrite IH; reflexivity]. Qed.

Lemma dec_enc_n : forall w acc v tl,
  dec_n w acc (enc_n w v ++ tl) = Some ((acc * 2 ^ N.of_nat w + v mod 2 ^ N.of_nat w)%N, tl).
Proof.
  induction w as [|k IH]; intros acc v tl.
  - cbn [enc_n dec_n app N.of_nat]. rewrite N.pow_0_r, N.mod_1_r. do 2 f_equal. lia.
  - cbn [enc_n dec_n app]. rewrite IH, Nat2N.inj_succ, mod_pow2_succ, N.pow_succ_r'. do 2 f_equal. ring.
Qed.

Lemma dec_enc_n_small w v tl : (v < 2 ^ N.of_nat w)%N -> dec_n w 0%N (enc_n w v ++ tl) = Some (v, tl).
Proof. intro H. rewrite dec_enc_n, N.mod_small by exact H. reflexivity. Qed.

Lemma enc_n_mod : forall j k v, (j <= k)%nat -> enc_n j (v mod 2 ^ N.of_nat k) = enc_n j v.
Proof.
  induction j as [|j IH]; intros k v LE; cbn [enc_n]; [reflexivity|].
  rewrite N.mod_pow2_bits_low by lia. rewrite IH by lia. reflexivity.
Qed.

Lemma dec_n_sound : forall w acc l v tl, dec_n w acc l = Some (v, tl) ->
  exists x, (x < 2 ^ N.of_nat w)%N /\ v = (acc * 2 ^ N.of_nat w + x)%N /\ l = enc_n w x ++ tl.
Proof.
  induction w as [|k IH]; intros acc l v tl H.
  - cbn [dec_n] in H. inversion H; subst. exists 0%N. cbn. repeat split; lia.
  - cbn [dec_n] in H. destruct l as [|b0 t]; [discriminate|].
    destruct (IH _ _ _ _ H) as (x' & Hx' & Hv & Ht).
    set (P := (2 ^ N.of_nat k)%N) in *.
    assert (P2 : (2 ^ N.of_nat (S k) = 2 * P)%N) by (rewrite Nat2N.inj_succ, N.pow_succ_r'; reflexivity).
    exists (N.b2n b0 * P + x')%N. rewrite P2. split; [|split].
    + destruct b0; cbn [N.b2n]; lia.
    + rewrite Hv. ring.
    + cbn [enc_n app]. f_equal.
      * apply N.b2n_inj. rewrite N.testbit_spec'. fold P.
        replace ((N.b2n b0 * P + x') / P)%N with (N.b2n b0).
        -- destruct b0; reflexivity.
        -- apply N.div_unique with x'; [exact Hx'|ring].
      * rewrite Ht. f_equal. rewrite <- (enc_n_mod k k (N.b2n b0 * P + x')%N) by lia. fold P. f_equal.
        apply N.mod_unique with (N.b2n b0); [exact Hx'|ring].
Qed.

Lemma dec_n_sound0 w l v tl : dec_n w 0%N l = Some (v, tl) ->
  (v < 2 ^ N.of_nat w)%N /\ l = enc_n w v ++ tl.
Proof.
  intro H. destruct (dec_n_sound _ _ _ _ _ H) as (x & Hx & Hv & Hl).
  rewrite N.mul_0_l, N.add_0_l in Hv. subst x. split; assumption.
Qed.

(* ------------------------------------------------------------------ octet strings *)
Definition bytes_ok (s:list N) : bool := forallb (fun c => (c <? 256)%N) s.

Lemma dec_enc_bytes : forall s tl, bytes_ok s = true -> dec_bytes (length s) (enc_bytes s ++ tl) = Some (s, tl).
Proof.
  induction s as [|c t IH]; intros tl H; [reflexivity|].
  cbn [bytes_ok forallb] in H. apply andb_true_iff in H. destruct H as [Hc Ht].
  cbn [length dec_bytes enc_bytes]. rewrite <- app_assoc, dec_enc_n_small.
  - rewrite (IH _ Ht). reflexivity.
  - change (2 ^ N.of_nat 8)%N with 256%N. lia.
Qed.

Lemma dec_bytes_sound : forall k l s tl, dec_bytes k l = Some (s, tl) ->
  length s = k /\ bytes_ok s = true /\ l = enc_bytes s ++ tl.
Proof.
  induction k as [|k IH]; intros l s tl H; cbn [dec_bytes] in H.
  - inversion H; subst. repeat split.
  - destruct (dec_n 8 0%N l) as [[c l1]|] eqn:E1; [|discriminate].
    destruct (dec_bytes k l1) as [[s' l2]|] eqn:E2; [|discriminate].
    inversion H; subst. destruct (IH _ _ _ E2) as (L & B & ->).
    destruct (dec_n_sound0 _ _ _ _ E1) as (Hc & ->).
    change (2 ^ N.of_nat 8)%N with 256%N in Hc.
    cbn [length bytes_ok forallb enc_bytes]. split; [|split].
    + rewrite L; reflexivity.
    + fold (bytes_ok s'). rewrite B. lia.
    + rewrite app_assoc. reflexivity.
Qed.

Lemma enc_bytes_length s : length (enc_bytes s) = (8 * length s)%nat.
Proof. induction s as [|c t IH]; cbn [enc_bytes length]; [reflexivity|]. rewrite app_length, enc_n_length, IH. lia. Qed.

(* ------------------------------------------------------------------ one element *)
Lemma wf_spec f : wf_field f = true ->
  0 < f_width f /\ 0 <= f_afw f <= 64 /\
  (if is_str (f_kind f) then f_width f <= 2040 /\ f_width f mod 8 = 0 else f_width f <= 64).
Proof. unfold wf_field. destruct (is_str (f_kind f)); lia. Qed.

Lemma of_nat_to_nat w : N.of_nat (Z.to_nat w) = Z.to_N w.
Proof. lia. Qed.

Lemma val_rt f val b tl : wf_field f = true -> enc_val f val = Ok b -> dec_val f (b ++ tl) = Ok (val, tl).
Proof.
  intros WF H. apply wf_spec in WF. destruct WF as (W0 & A & WS). unfold enc_val in H. unfold dec_val.
  destruct val as [n|s].
  - destruct (is_str (f_kind f)); [discriminate|]. cbn [negb andb] in H.
    destruct (n <? 2 ^ Z.to_N (f_width f))%N eqn:Hn; [|discriminate]. inversion H; subst.
    rewrite dec_enc_n_small; [reflexivity|]. rewrite of_nat_to_nat. lia.
  - destruct (is_str (f_kind f)); [|discriminate]. cbn [andb] in H.
    destruct (Z.of_nat (length s) * 8 =? f_width f) eqn:HL; [|discriminate]. cbn [andb] in H.
    destruct (forallb (fun c => (c <? 256)%N) s) eqn:HB; [|discriminate]. inversion H; subst.
    replace (Z.to_nat (f_width f / 8)) with (length s).
    + rewrite dec_enc_bytes by exact HB. reflexivity.
    + apply Z.eqb_eq in HL. rewrite <- HL, Z.div_mul by lia. lia.
Qed.

Lemma val_sound f l val tl : wf_field f = true -> dec_val f l = Ok (val, tl) ->
  exists b, enc_val f val = Ok b /\ l = b ++ tl.
Proof.
  intros WF H. apply wf_spec in WF. destruct WF as (W0 & A & WS). unfold dec_val in H. unfold enc_val.
  destruct (is_str (f_kind f)) eqn:IS.
  - destruct (dec_bytes (Z.to_nat (f_width f / 8)) l) as [[s t]|] eqn:E; [|discriminate]. inversion H; subst.
    destruct (dec_bytes_sound _ _ _ _ E) as (L & B & ->). exists (enc_bytes s). split; [|reflexivity].
    unfold bytes_ok in B. rewrite B.
    replace (Z.of_nat (length s) * 8 =? f_width f) with true; [reflexivity|].
    symmetry. apply Z.eqb_eq. rewrite L. destruct WS as [_ M].
    rewrite Z2Nat.id by (apply Z.div_pos; lia).
    pose proof (Z.div_mod (f_width f) 8). lia.
  - destruct (dec_n (Z.to_nat (f_width f)) 0%N l) as [[n t]|] eqn:E; [|discriminate]. inversion H; subst.
    destruct (dec_n_sound0 _ _ _ _ E) as (Hn & ->). rewrite of_nat_to_nat in Hn.
    exists (enc_n (Z.to_nat (f_width f)) n). split; [|reflexivity]. cbn [negb andb].
    replace (n <? 2 ^ Z.to_N (f_width f))%N with true; [reflexivity|]. symmetry. apply N.ltb_lt. exact Hn.
Qed.

Theorem elem_rt : forall f v b tl, enc_elem f v = Ok b -> dec_elem f (b ++ tl) = Ok (v, tl).
Proof.
  intros f [af val] b tl H. unfold enc_elem in H. unfold dec_elem.
  destruct (wf_field f) eqn:WF; [|discriminate].
  destruct (enc_af f (mkD af val)) as [a|e] eqn:EA; [|discriminate]. cbn [bind d_val] in H.
  destruct (enc_val f val) as [bv|e] eqn:EV; [|discriminate]. cbn [bind] in H. inversion H; subst.
  unfold enc_af in EA. cbn [d_af] in EA.
  destruct (0 <? f_afw f) eqn:A0.
  - destruct (af <? 2 ^ Z.to_N (f_afw f))%N eqn:HA; [|discriminate]. inversion EA; subst.
    rewrite <- app_assoc, dec_enc_n_small by (rewrite of_nat_to_nat; lia).
    rewrite (val_rt _ _ _ _ WF EV). reflexivity.
  - destruct (N.eqb af 0) eqn:HA; [|discriminate]. inversion EA; subst.
    apply N.eqb_eq in HA. subst af. cbn [app]. rewrite (val_rt _ _ _ _ WF EV). reflexivity.
Qed.

Theorem elem_sound : forall f l v tl, dec_elem f l = Ok (v, tl) -> exists b, enc_elem f v = Ok b /\ l = b ++ tl.
Proof.
  intros f l v tl H. unfold dec_elem in H. unfold enc_elem.
  destruct (wf_field f) eqn:WF; [|discriminate].
  unfold enc_af. destruct (0 <? f_afw f) eqn:A0.
  - destruct (dec_n (Z.to_nat (f_afw f)) 0%N l) as [[a t]|] eqn:EA; [|discriminate].
    destruct (dec_val f t) as [[val t2]|e] eqn:EV; [|discriminate]. cbn [bind] in H. inversion H; subst.
    destruct (dec_n_sound0 _ _ _ _ EA) as (Ha & ->). rewrite of_nat_to_nat in Ha.
    destruct (val_sound _ _ _ _ WF EV) as (bv & BV & ->).
    cbn [d_af d_val]. apply N.ltb_lt in Ha. rewrite Ha. cbn [bind]. rewrite BV. cbn [bind].
    eexists. split; [reflexivity|]. apply app_assoc.
  - destruct (dec_val f l) as [[val t2]|e] eqn:EV; [|discriminate]. cbn [bind] in H. inversion H; subst.
    destruct (val_sound _ _ _ _ WF EV) as (bv & BV & ->).
    cbn [d_af d_val N.eqb bind]. rewrite BV. cbn [bind app]. eexists. split; reflexivity.
Qed.

(* ------------------------------------------------------------------ uncompressed Section 4 *)
Lemma walk1_rt T ed fuel st ds vs st' vs' b :
  walk_enc1 T ed fuel st ds vs = Ok (st', vs', b) ->
  forall tail, exists used, vs = used ++ vs' /\ walk_dec1 T ed fuel st ds (b ++ tail) = Ok (st', tail, used).
Proof. unfold walk_enc1, walk_dec1. intro H. eapply walk_roundtrip; [exact elem_rt|exact H]. Qed.

Lemma walk1_sound T ed fuel st ds l st' tl vs :
  walk_dec1 T ed fuel st ds l = Ok (st', tl, vs) ->
  forall rest, exists b, walk_enc1 T ed fuel st ds (vs ++ rest) = Ok (st', rest, b) /\ l = b ++ tl.
Proof. unfold walk_enc1, walk_dec1. intro H. eapply walk_sound; [exact elem_sound|exact H]. Qed.

Theorem plain_roundtrip : forall T ed fuel tmpl subsets b tl,
  enc_plain T ed fuel tmpl subsets = Ok b ->
  dec_plain T ed fuel tmpl (length subsets) (b ++ tl) = Ok (subsets, tl).
Proof.
  intros T ed fuel tmpl. induction subsets as [|s rest IH]; intros b tl H; cbn [enc_plain dec_plain length] in *.
  - inversion H; subst. reflexivity.
  - destruct (walk_enc1 T ed fuel op0 tmpl s) as [[[st' lft] b1]|e] eqn:E1; [|discriminate]. cbn [bind] in H.
    destruct lft; [|discriminate].
    destruct (enc_plain T ed fuel tmpl rest) as [b2|e] eqn:E2; [|discriminate]. cbn [bind] in H. inversion H; subst.
    destruct (walk1_rt _ _ _ _ _ _ _ _ _ E1 (b2 ++ tl)) as (used & -> & D). rewrite app_nil_r.
    rewrite <- app_assoc, D. cbn [bind]. rewrite (IH _ _ eq_refl). reflexivity.
Qed.

Theorem plain_sound : forall T ed fuel tmpl nsub l subsets tl,
  dec_plain T ed fuel tmpl nsub l = Ok (subsets, tl) ->
  length subsets = nsub /\ exists b, enc_plain T ed fuel tmpl subsets = Ok b /\ l = b ++ tl.
Proof.
  intros T ed fuel tmpl. induction nsub as [|k IH]; intros l subsets tl H; cbn [dec_plain] in H.
  - inversion H; subst. split; [reflexivity|]. exists []. split; reflexivity.
  - destruct (walk_dec1 T ed fuel op0 tmpl l) as [[[st' l1] vs]|e] eqn:E1; [|discriminate]. cbn [bind] in H.
    destruct (dec_plain T ed fuel tmpl k l1) as [[rest l2]|e] eqn:E2; [|discriminate]. cbn [bind] in H.
    inversion H; subst.
    destruct (IH _ _ _ E2) as (L & b2 & B2 & ->).
    destruct (walk1_sound _ _ _ _ _ _ _ _ _ E1 []) as (b1 & B1 & ->). rewrite app_nil_r in B1.
    split; [cbn [length]; rewrite L; reflexivity|]. exists (b1 ++ b2). split; [|apply app_assoc].
    cbn [enc_plain]. rewrite B1. cbn [bind]. rewrite B2. reflexivity.
Qed.

Theorem plain_is_layout : forall T ed fuel tmpl s st' lft b,
  walk_enc1 T ed fuel op0 tmpl s = Ok (st', lft, b) ->
  exists fl, layout T ed fuel tmpl s = Ok fl /\
             concat_r (map (fun p => enc_elem (fst p) (snd p)) fl) = Ok b /\
             s = map snd fl ++ lft.
Proof.
  intros T ed fuel tmpl s st' lft b H. unfold walk_enc1 in H.
  eapply (walk_enc_fields _ _ _ _ _ _ _ _ _ _ enc_elem
            (fun fl => concat_r (map (fun p => enc_elem (fst p) (snd p)) fl))) in H.
  - destruct H as (fl & W & C & S). exists fl. split; [|split; assumption].
    unfold layout, walk_list. unfold walk_fields in W.
    change (list_elem) with (l_elem field datum). rewrite W. reflexivity.
  - reflexivity.
  - intros f v fl b1 b2 E1 E2. cbn [map concat_r fst snd]. rewrite E1. cbn [bind]. rewrite E2. reflexivity.
Qed.

Theorem fuel_monotone : forall T ed f1 f2 tmpl s r,
  (f1 <= f2)%nat -> walk_enc1 T ed f1 op0 tmpl s = Ok r -> walk_enc1 T ed f2 op0 tmpl s = Ok r.
Proof.
  intros T ed f1 f2 tmpl s r LE H. unfold walk_enc1, walk_enc in *.
  eapply walk_fuel_mono; eassumption.
Qed.

(* ------------------------------------------------------------------ octet packing *)
Lemma bits_to_bytes_fuel_nil fuel : bits_to_bytes_fuel fuel [] = [].
Proof. destruct fuel; reflexivity. Qed.

Lemma bytes_bits_fuel : forall fuel l, (length l < 8 * fuel)%nat ->
  exists pad, enc_bytes (bits_to_bytes_fuel fuel l) = l ++ repeat false pad /\ (pad < 8)%nat.
Proof.
  induction fuel as [|f IH]; intros l L; [lia|].
  destruct l as [|b0 t] eqn:El.
  - exists 0%nat. split; [reflexivity|lia].
  - rewrite <- El in *. assert (NE : (0 < length l)%nat) by (rewrite El; cbn [length]; lia). clear El b0 t.
    cbn [bits_to_bytes_fuel]. destruct l as [|b0 t] eqn:El; [cbn [length] in NE; lia|]. rewrite <- El in *. clear El b0 t.
    set (ch := firstn 8 l). set (padded := ch ++ repeat false (8 - length ch)).
    assert (LP : length padded = 8%nat).
    { unfold padded, ch. rewrite app_length, repeat_length, firstn_length. lia. }
    destruct (dec_n 8 0%N padded) as [[c r]|] eqn:E.
    + destruct (dec_n_sound0 _ _ _ _ E) as (Hc & EP).
      assert (r = []).
      { apply (f_equal (@length bool)) in EP. rewrite app_length, enc_n_length, LP in EP. destruct r; [reflexivity|cbn [length] in EP; lia]. }
      subst r. rewrite app_nil_r in EP. cbn [enc_bytes]. rewrite <- EP.
      destruct (Nat.le_gt_cases 8 (length l)) as [GE|LT].
      * destruct (IH (skipn 8 l)) as (pad & EQ & PL); [rewrite skipn_length; lia|].
        exists pad. split; [|exact PL]. rewrite EQ. unfold padded.
        replace (8 - length ch)%nat with 0%nat by (unfold ch; rewrite firstn_length; lia).
        cbn [repeat]. rewrite app_nil_r, app_assoc. unfold ch. rewrite firstn_skipn. reflexivity.
      * exists (8 - length l)%nat. split; [|lia].
        rewrite skipn_all2 by lia. rewrite bits_to_bytes_fuel_nil. cbn [enc_bytes]. rewrite app_nil_r.
        unfold padded, ch. rewrite firstn_all2 by lia. reflexivity.
    + exfalso. clear - E LP. destruct padded as [|x0 [|x1 [|x2 [|x3 [|x4 [|x5 [|x6 [|x7 p]]]]]]]]; cbn [length] in LP; try lia.
      cbn [dec_n] in E. discriminate.
Qed.

Theorem bytes_bits : forall l, exists pad, bytes_to_bits (bits_to_bytes l) = l ++ repeat false pad /\ (pad < 8)%nat.
Proof.
  intro l. unfold bytes_to_bits, bits_to_bytes. apply bytes_bits_fuel.
  pose proof (Nat.div_mod (length l) 8). pose proof (Nat.mod_upper_bound (length l) 8). lia.
Qed.

(* ------------------------------------------------------------------ compressed numeric columns *)
Lemma nbits_fuel_spec : forall fuel k x,
  (k <= nbits_fuel fuel k x)%N /\
  ((nbits_fuel fuel k x < k + N.of_nat fuel)%N -> (x < 2 ^ nbits_fuel fuel k x - 1)%N).
Proof.
  induction fuel as [|f IH]; intros k x; cbn [nbits_fuel].
  - split; lia.
  - destruct (x <? 2 ^ k - 1)%N eqn:E.
    + split; [lia|]. intros _. lia.
    + destruct (IH (k + 1)%N x) as [L U]. split; [lia|]. intro B. apply U. lia.
Qed.

Lemma minl_le : forall l d v, In v l -> (minl l d <= v)%N.
Proof.
  induction l as [|x t IH]; intros d v H; [contradiction|]. cbn [minl].
  destruct H as [->|H]; [lia|]. specialize (IH x v H). lia.
Qed.

Lemma maxl_ge : forall l d v, In v l -> (v <= maxl l d)%N.
Proof.
  induction l as [|x t IH]; intros d v H; [contradiction|]. cbn [maxl].
  destruct H as [->|H]; [lia|]. specialize (IH x v H). lia.
Qed.

Lemma all_same_repeat {A} (p:A) : forall l, (forall v, In v l -> v = p) -> l = repeat p (length l).
Proof.
  induction l as [|x t IH]; intro H; [reflexivity|]. cbn [length repeat].
  rewrite (H x (or_introl eq_refl)). f_equal. apply IH. intros v Hv. apply H. right. exact Hv.
Qed.

Lemma all_eq_same l : all_eq l = true -> forall p v, In p l -> In v l -> v = p.
Proof.
  destruct l as [|x t]; intros H p v Hp Hv; [contradiction|]. cbn [all_eq] in H.
  rewrite forallb_forall in H.
  assert (E : forall y, In y (x :: t) -> y = x).
  { intros y [<-|Hy]; [reflexivity|]. symmetry. apply N.eqb_eq. apply H. exact Hy. }
  rewrite (E p Hp), (E v Hv). reflexivity.
Qed.

Lemma dec_incs_rt nb r0 miss tl : forall vals,
  (forall v, In v vals ->
     (match miss with Some m => v = m | None => False end) \/ (r0 <= v /\ v - r0 < 2 ^ nb - 1)%N) ->
  dec_incs (length vals) (N.to_nat nb) r0 miss
    (flat_map (fun v => enc_n (N.to_nat nb)
                 (match miss with
                  | Some m => if N.eqb v m then (2 ^ nb - 1)%N else (v - r0)%N
                  | None => (v - r0)%N end)) vals ++ tl) = Some (vals, tl).
Proof.
  assert (P0 : (0 < 2 ^ nb)%N) by (apply N.neq_0_lt_0, N.pow_nonzero; discriminate).
  induction vals as [|v t IH]; intro H; [reflexivity|].
  cbn [length dec_incs flat_map]. rewrite <- app_assoc.
  rewrite dec_enc_n_small.
  - rewrite IH by (intros v' Hv'; apply H; right; exact Hv'). rewrite N2Nat.id.
    set (P := (2 ^ nb)%N) in *.
    do 2 f_equal. destruct miss as [m|].
    + destruct (N.eqb v m) eqn:E.
      * rewrite N.eqb_refl. apply N.eqb_eq in E. subst v. reflexivity.
      * destruct (H v (or_introl eq_refl)) as [->|[A B]]; [rewrite N.eqb_refl in E; discriminate|].
        replace (N.eqb (v - r0) (P - 1)) with false by (symmetry; apply N.eqb_neq; lia). f_equal. lia.
    + destruct (H v (or_introl eq_refl)) as [[]|[A B]]. f_equal. lia.
  - rewrite N2Nat.id. set (P := (2 ^ nb)%N) in *. destruct miss as [m|].
    + destruct (N.eqb v m) eqn:E; [lia|].
      destruct (H v (or_introl eq_refl)) as [->|[A B]]; [rewrite N.eqb_refl in E; discriminate|lia].
    + destruct (H v (or_introl eq_refl)) as [[]|[A B]]. lia.
Qed.

Lemma Ok_inj {A} (a b:A) : Ok a = Ok b -> a = b.
Proof. intro H; inversion H; reflexivity. Qed.

Lemma numcol_rt w miss c vals b tl :
  0 < w <= 64 -> vals <> [] ->
  enc_numcol w miss c vals = Ok b ->
  dec_numcol w miss (length vals) (b ++ tl) = Ok (vals, tl).
Proof.
  intros W NE H. unfold enc_numcol in H. cbv zeta in H. unfold dec_numcol.
  destruct (forallb (fun v => (v <? 2 ^ Z.to_N w)%N) vals) eqn:BD; [|discriminate]. cbn [negb] in H.
  rewrite forallb_forall in BD.
  assert (BD' : forall v, In v vals -> (v < 2 ^ N.of_nat (Z.to_nat w))%N).
  { intros v Hv. rewrite of_nat_to_nat. apply N.ltb_lt, BD, Hv. }
  remember (match miss with Some m => filter (fun v => negb (N.eqb v m)) vals | None => vals end) as present eqn:EP.
  assert (PS : forall v, In v present -> In v vals).
  { intros v Hv. subst present. destruct miss as [m|]; [apply filter_In in Hv; tauto|exact Hv]. }
  assert (PM : forall v, In v vals -> (match miss with Some m => v = m | None => False end) \/ In v present).
  { intros v Hv. subst present. destruct miss as [m|]; [|right; exact Hv].
    destruct (N.eqb v m) eqn:E; [left; apply N.eqb_eq; exact E|right].
    apply filter_In. split; [exact Hv|rewrite E; reflexivity]. }
  assert (S6 : (2 ^ N.of_nat 6 = 64)%N) by reflexivity.
  destruct present as [|p0 pr].
  - destruct miss as [m|]; [|discriminate]. apply Ok_inj in H. subst b.
    assert (AM : forall v, In v vals -> v = m).
    { intros v Hv. destruct (PM v Hv) as [E|[]]. exact E. }
    assert (Hm : (m < 2 ^ N.of_nat (Z.to_nat w))%N).
    { destruct vals as [|v0 t]; [congruence|]. rewrite <- (AM v0 (or_introl eq_refl)). apply BD'. left; reflexivity. }
    rewrite <- app_assoc, dec_enc_n_small by exact Hm.
    rewrite dec_enc_n_small by (rewrite S6; lia). cbn [N.eqb].
    rewrite <- (all_same_repeat m vals AM). reflexivity.
  - assert (P0 : In p0 vals) by (apply PS; left; reflexivity).
    destruct (all_eq vals && N.eqb (c_r0off c) 0 && Nat.eqb (c_extra c) 0) eqn:SC.
    + apply Ok_inj in H. subst b.
      apply andb_true_iff in SC. destruct SC as [SC _]. apply andb_true_iff in SC. destruct SC as [SC _].
      rewrite <- app_assoc, dec_enc_n_small by (apply BD'; exact P0).
      rewrite dec_enc_n_small by (rewrite S6; lia). cbn [N.eqb].
      rewrite <- (all_same_repeat p0 vals); [reflexivity|].
      intros v Hv. exact (all_eq_same _ SC p0 v P0 Hv).
    + set (mn0 := minl (p0 :: pr) p0) in *.
      destruct (mn0 <? c_r0off c)%N eqn:R0; [discriminate|].
      set (mn := (mn0 - c_r0off c)%N) in *.
      set (mx := maxl (p0 :: pr) p0) in *.
      set (k0 := nbits_inc (mx - mn)) in *.
      set (nb := (k0 + N.of_nat (c_extra c))%N) in *.
      destruct ((match miss with Some _ => (Z.to_N w <? nb)%N | None => false end) || (63 <? nb)%N) eqn:NB; [discriminate|].
      apply Ok_inj in H. subst b.
      apply orb_false_iff in NB. destruct NB as [NB1 NB2].
      destruct (nbits_fuel_spec 70 1%N (mx - mn)%N) as [K1 K2]. fold (nbits_inc (mx - mn)) in K1, K2. fold k0 in K1, K2.
      assert (SP : (mx - mn < 2 ^ k0 - 1)%N) by (apply K2; lia).
      assert (PW : (2 ^ k0 <= 2 ^ nb)%N) by (apply N.pow_le_mono_r; lia).
      assert (M0 : (mn0 <= p0)%N) by (apply minl_le; left; reflexivity).
      rewrite <- app_assoc, dec_enc_n_small by (specialize (BD' p0 P0); lia).
      rewrite <- app_assoc, dec_enc_n_small by (rewrite S6; lia).
      replace (N.eqb nb 0) with false by (symmetry; apply N.eqb_neq; lia).
      rewrite NB1.
      rewrite dec_incs_rt; [reflexivity|].
      intros v Hv. destruct (PM v Hv) as [E|Hp]; [left; exact E|right].
      pose proof (minl_le (p0 :: pr) p0 v Hp) as Lo. pose proof (maxl_ge (p0 :: pr) p0 v Hp) as Hi.
      fold mn0 in Lo. fold mx in Hi. lia.
Qed.

(* ------------------------------------------------------------------ compressed character columns *)
Lemma dec_enc_bytes' k s tl : length s = k -> bytes_ok s = true -> dec_bytes k (enc_bytes s ++ tl) = Some (s, tl).
Proof. intros <- B. apply dec_enc_bytes. exact B. Qed.

Lemma str_eqb_eq : forall a b, str_eqb a b = true -> a = b.
Proof.
  unfold str_eqb. induction a as [|x a IH]; intros [|y b] H; cbn [length combine forallb fst snd Nat.eqb andb] in H;
    try reflexivity; try discriminate.
  apply andb_true_iff in H. destruct H as [L H]. apply andb_true_iff in H. destruct H as [E H].
  apply N.eqb_eq in E. subst y. f_equal. apply IH. rewrite L, H. reflexivity.
Qed.

Lemma land_255 a : (N.land a 255 < 256)%N.
Proof. change 255%N with (N.ones 8). rewrite N.land_ones. change 256%N with (2 ^ 8)%N. apply N.mod_lt. discriminate. Qed.

Lemma bytes_ok_repeat x n : (x < 256)%N -> bytes_ok (repeat x n) = true.
Proof. intro H. induction n as [|n IH]; [reflexivity|]. cbn [repeat bytes_ok forallb]. fold (bytes_ok (repeat x n)). rewrite IH. lia. Qed.

Lemma dec_strs_rt wo tl : forall vals, (forall s, In s vals -> length s = wo /\ bytes_ok s = true) ->
  dec_strs (length vals) wo (flat_map enc_bytes vals ++ tl) = Some (vals, tl).
Proof.
  induction vals as [|s t IH]; intro H; [reflexivity|]. cbn [length dec_strs flat_map]. rewrite <- app_assoc.
  destruct (H s (or_introl eq_refl)) as [L B]. rewrite (dec_enc_bytes' _ _ _ L B).
  rewrite IH by (intros s' Hs'; apply H; right; exact Hs'). reflexivity.
Qed.

Lemma strcol_rt w c vals b tl : (0 < Z.to_nat (w / 8))%nat ->
  enc_strcol w c vals = Ok b -> dec_strcol w (length vals) (b ++ tl) = Ok (vals, tl).
Proof.
  intros W H. unfold enc_strcol in H. cbv zeta in H. unfold dec_strcol. cbv zeta.
  set (wo := Z.to_nat (w / 8)) in *.
  assert (S6 : (2 ^ N.of_nat 6 = 64)%N) by reflexivity.
  destruct (forallb (fun s => Nat.eqb (length s) wo && forallb (fun ch => (ch <? 256)%N) s) vals) eqn:AL; [|discriminate].
  cbn [negb] in H. rewrite forallb_forall in AL.
  assert (AL' : forall s, In s vals -> length s = wo /\ bytes_ok s = true).
  { intros s Hs. specialize (AL s Hs). apply andb_true_iff in AL. destruct AL as [L B]. apply Nat.eqb_eq in L. split; assumption. }
  destruct vals as [|s0 t]; [discriminate|].
  destruct (AL' s0 (or_introl eq_refl)) as [L0 B0].
  destruct (forallb (str_eqb s0) t && Nat.eqb (c_extra c) 0) eqn:SC.
  - apply Ok_inj in H. subst b. apply andb_true_iff in SC. destruct SC as [SC _]. rewrite forallb_forall in SC.
    rewrite <- app_assoc, (dec_enc_bytes' _ _ _ L0 B0). rewrite dec_enc_n_small by (rewrite S6; lia). cbn [N.eqb].
    do 2 f_equal. symmetry. apply all_same_repeat. intros v [<-|Hv]; [reflexivity|]. symmetry. apply str_eqb_eq, SC, Hv.
  - destruct (63 <? wo)%nat eqn:W63; [discriminate|]. apply Ok_inj in H. subst b.
    apply Nat.ltb_ge in W63.
    rewrite <- app_assoc, dec_enc_bytes'; [|apply repeat_length|apply bytes_ok_repeat, land_255].
    rewrite <- app_assoc, dec_enc_n_small by (rewrite S6; lia).
    replace (N.eqb (N.of_nat wo) 0) with false by (symmetry; apply N.eqb_neq; lia).
    rewrite N.eqb_refl. cbn [negb].
    rewrite dec_strs_rt by exact AL'. reflexivity.
Qed.

(* ------------------------------------------------------------------ one compressed column *)
Lemma raws_cons d t : raws (d :: t) = match d_val d, raws t with VRaw n, Some l => Some (n :: l) | _, _ => None end.
Proof. reflexivity. Qed.
Lemma strs_cons d t : strs (d :: t) = match d_val d, strs t with VStr s, Some l => Some (s :: l) | _, _ => None end.
Proof. reflexivity. Qed.

Lemma raws_combine : forall col ns, raws col = Some ns ->
  length ns = length col /\ map (fun p => mkD (fst p) (VRaw (snd p))) (combine (map d_af col) ns) = col.
Proof.
  induction col as [|[a v] t IH]; intros ns H.
  - cbn in H. inversion H; subst. split; reflexivity.
  - rewrite raws_cons in H. cbn [d_val] in H. destruct v as [n|s]; [|discriminate].
    destruct (raws t) as [l|] eqn:E; [|discriminate]. inversion H; subst.
    destruct (IH l eq_refl) as [L M]. cbn [map combine d_af fst snd length]. rewrite L, M. split; reflexivity.
Qed.

Lemma strs_combine : forall col ss, strs col = Some ss ->
  length ss = length col /\ map (fun p => mkD (fst p) (VStr (snd p))) (combine (map d_af col) ss) = col.
Proof.
  induction col as [|[a v] t IH]; intros ss H.
  - cbn in H. inversion H; subst. split; reflexivity.
  - rewrite strs_cons in H. cbn [d_val] in H. destruct v as [n|s]; [discriminate|].
    destruct (strs t) as [l|] eqn:E; [|discriminate]. inversion H; subst.
    destruct (IH l eq_refl) as [L M]. cbn [map combine d_af fst snd length]. rewrite L, M. split; reflexivity.
Qed.

Lemma af0_repeat col : forallb (fun d => N.eqb (d_af d) 0) col = true -> map d_af col = repeat 0%N (length col).
Proof.
  intro H. rewrite forallb_forall in H. rewrite <- (map_length d_af col). apply all_same_repeat.
  intros v Hv. apply in_map_iff in Hv. destruct Hv as (d & <- & Hd). apply N.eqb_eq. apply H. exact Hd.
Qed.

Theorem col_rt : forall nsub pick f col b tl,
  enc_col nsub pick f col = Ok b -> dec_col nsub f (b ++ tl) = Ok (col, tl).
Proof.
  intros nsub pick f col b tl H. unfold enc_col in H. unfold dec_col.
  destruct (wf_field f) eqn:WF; [|discriminate]. cbn [negb] in *.
  destruct (Nat.eqb (length col) nsub) eqn:LN; [|discriminate]. cbn [negb orb] in H.
  destruct (Nat.eqb nsub 0) eqn:N0; [discriminate|].
  apply Nat.eqb_eq in LN. apply Nat.eqb_neq in N0.
  destruct (is_factor (f_desc f) && negb (match raws col with Some l => all_eq l | None => false end)) eqn:FC; [discriminate|].
  destruct (wf_spec _ WF) as (W0 & A & WS).
  assert (CN : col <> []) by (intro; subst col; cbn [length] in LN; congruence).
  match type of H with bind ?X _ = _ => destruct X as [a|e] eqn:EA; [|discriminate] end. cbn [bind] in H.
  match type of H with bind ?X _ = _ => destruct X as [bv|e] eqn:EV; [|discriminate] end. cbn [bind] in H.
  apply Ok_inj in H. subst b. rewrite <- app_assoc.
  match goal with |- bind ?X _ = _ => assert (HA : X = Ok (map d_af col, bv ++ tl)) end.
  { destruct (0 <? f_afw f) eqn:A0.
    - rewrite <- LN, <- (map_length d_af col). eapply numcol_rt; [lia| |exact EA].
      destruct col; [congruence|discriminate].
    - destruct (forallb (fun d => N.eqb (d_af d) 0) col) eqn:Z0; [|discriminate].
      apply Ok_inj in EA; subst a. cbn [app]. rewrite <- LN, (af0_repeat _ Z0). reflexivity. }
  rewrite HA. cbn [bind]. clear HA EA.
  destruct (is_str (f_kind f)) eqn:IS.
  - destruct (strs col) as [ss|] eqn:ES; [|discriminate].
    destruct (strs_combine _ _ ES) as [L M].
    rewrite <- LN, <- L. assert (WO : (0 < Z.to_nat (f_width f / 8))%nat).
    { destruct WS as [_ M8]. pose proof (Z.div_mod (f_width f) 8 ltac:(lia)) as DM. lia. }
    rewrite (strcol_rt _ _ _ _ _ WO EV).
    cbn [bind]. rewrite M, FC. reflexivity.
  - destruct (raws col) as [ns|] eqn:ES; [|discriminate].
    destruct (raws_combine _ _ ES) as [L M].
    rewrite <- LN, <- L. assert (NN : ns <> []) by (destruct ns; [destruct col; [congruence|discriminate]|discriminate]).
    rewrite (numcol_rt _ _ _ _ _ _ (conj W0 WS) NN EV).
    cbn [bind]. rewrite M, ES, FC. reflexivity.
Qed.

(* ------------------------------------------------------------------ rows <-> columns *)
Definition heads {A} (rows:list (list A)) : list A :=
  flat_map (fun r => match r with [] => [] | x :: _ => [x] end) rows.
Definition zipcons {A} (c:list A) (rows:list (list A)) : list (list A) :=
  map (fun p => fst p :: snd p) (combine c rows).

Lemma transpose_length {A} : forall n (rows:list (list A)), length (transpose n rows) = n.
Proof. induction n as [|n IH]; intro rows; cbn [transpose length]; [reflexivity|]. rewrite IH. reflexivity. Qed.

Lemma transpose_nil {A} : forall m, transpose m (@nil (list A)) = repeat [] m.
Proof. induction m as [|m IH]; cbn [transpose repeat flat_map map]; [reflexivity|]. rewrite IH. reflexivity. Qed.

Lemma transpose_cons {A} : forall m (c:list A) cols, length c = m ->
  transpose m (c :: cols) = zipcons c (transpose m cols).
Proof.
  induction m as [|m IH]; intros c cols L.
  - destruct c; [reflexivity|discriminate].
  - destruct c as [|x c']; [discriminate|]. cbn [length] in L.
    cbn [transpose flat_map map tl app]. rewrite IH by lia. reflexivity.
Qed.

Lemma rect_succ {A} n : forall rows:list (list A), rect (S n) rows = true ->
  length (heads rows) = length rows /\ zipcons (heads rows) (map (@tl A) rows) = rows /\ rect n (map (@tl A) rows) = true.
Proof.
  unfold rect, heads, zipcons. induction rows as [|r t IH]; intro R.
  - repeat split.
  - cbn [forallb] in R. apply andb_true_iff in R. destruct R as [R0 R]. destruct (IH R) as (L & Z & R').
    destruct r as [|x r']; [discriminate|]. cbn [length Nat.eqb] in R0.
    cbn [flat_map app map tl length combine fst snd forallb]. rewrite L, Z, R', R0. repeat split.
Qed.

Lemma transpose_invol {A} : forall n (rows:list (list A)), rect n rows = true ->
  transpose (length rows) (transpose n rows) = rows.
Proof.
  induction n as [|n IH]; intros rows R.
  - cbn [transpose]. rewrite transpose_nil. symmetry. apply all_same_repeat. intros r Hr.
    unfold rect in R. rewrite forallb_forall in R. specialize (R r Hr). apply Nat.eqb_eq in R.
    destruct r; [reflexivity|discriminate].
  - destruct (rect_succ _ _ R) as (L & Z & R'). cbn [transpose]. fold (heads rows).
    rewrite transpose_cons by exact L.
    replace (length rows) with (length (map (@tl A) rows)) by apply map_length.
    rewrite (IH _ R'). exact Z.
Qed.

(* ------------------------------------------------------------------ compressed Section 4 *)
Theorem comp_roundtrip : forall T ed pick fuel tmpl subsets b tl,
  enc_comp T ed pick fuel tmpl subsets = Ok b ->
  dec_comp T ed fuel tmpl (length subsets) (b ++ tl) = Ok (subsets, tl).
Proof.
  intros T ed pick fuel tmpl subsets b tl H. unfold enc_comp in H.
  destruct subsets as [|s0 rest] eqn:ES; [discriminate|]. rewrite <- ES in *. clear ES rest.
  cbv zeta in H. destruct (rect (length s0) subsets) eqn:R; [|discriminate].
  unfold enc_comp_cols in H.
  destruct (walk_encC T ed (length subsets) pick fuel op0 tmpl (transpose (length s0) subsets))
    as [[[st' lft] b1]|e] eqn:E1; [|discriminate].
  cbn [bind] in H. destruct lft; [|discriminate]. apply Ok_inj in H. subst b1.
  unfold walk_encC in E1.
  destruct (walk_roundtrip _ _ _ _ _ _ _ _ _ _ _ _ (col_rt (length subsets) pick) _ _ _ _ _ _ _ E1 tl) as (used & U & D).
  rewrite app_nil_r in U.
  unfold dec_comp, dec_comp_cols, walk_decC. rewrite D. cbn [bind]. rewrite <- U.
  rewrite transpose_invol by exact R. reflexivity.
Qed.

Theorem compression_preserves_content : forall T ed pick fuel tmpl subsets b1 b2 tl1 tl2,
  enc_plain T ed fuel tmpl subsets = Ok b1 ->
  enc_comp T ed pick fuel tmpl subsets = Ok b2 ->
  exists d, dec_plain T ed fuel tmpl (length subsets) (b1 ++ tl1) = Ok (d, tl1) /\
            dec_comp T ed fuel tmpl (length subsets) (b2 ++ tl2) = Ok (d, tl2) /\ d = subsets.
Proof.
  intros T ed pick fuel tmpl subsets b1 b2 tl1 tl2 H1 H2. exists subsets. split; [|split].
  - apply plain_roundtrip. exact H1.
  - eapply comp_roundtrip. exact H2.
  - reflexivity.
Qed.
