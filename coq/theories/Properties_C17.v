(* Properties_C17.v — property C17 (search returns the first match, honouring value, range, missing and qualifier keys)
   as theorems about the mirror Search.v.  Only statements, `exact`, and Print Assumptions.
   The mirror has a [variant] per defect found in the current code: [legacy] = the code as it is, [fixed] = after the fixes
   proposed in /verif/proposed_fixes/C17_*.md.  The search loop, the descriptor search and the qualifier stack are proved for the
   code as it is; the matcher meets the property for [fixed] and is refuted (with the concrete witness) for [legacy]. *)
From Coq Require Import List ZArith QArith Qabs Bool Lia.
From V Require Import Search SearchProof.
Import ListNotations.
Local Open Scope Z_scope.

(* ---- the search loop of bufr_subset_find_values, generic in the per-position / per-key predicate m:
   with the fuel the mirror uses it ends with Found r where r is the first match (least p >= start with the nb keys matching
   consecutively at p .. p+nb-1 inside the subset), or -1 when there is none.  No descriptor is skipped: every position of the
   subset's descriptor array counts (replication and Table C descriptors included). *)
Theorem C17_find_is_first_match : forall (count nb : Z) (m : Z -> Z -> option bool) (mb : Z -> Z -> bool) (start : Z),
  0 <= nb -> 0 <= start <= count ->
  (forall i j, start <= i < count -> 0 <= j < nb -> m i j = Some (mb i j)) ->
  exists r, loop count nb m (loop_fuel count nb start) start 0 start = Found r /\ is_first_match mb nb count start r.
Proof. exact find_is_first_match. Qed.
Print Assumptions C17_find_is_first_match.

(* termination of the backtracking (i = jj restart): the bound (count-start+1)*(nb+1)+1 on the number of iterations suffices *)
Theorem C17_loop_terminates : forall (count nb : Z) (m : Z -> Z -> option bool) (mb : Z -> Z -> bool) (start : Z),
  0 <= nb -> 0 <= start <= count ->
  (forall i j, start <= i < count -> 0 <= j < nb -> m i j = Some (mb i j)) ->
  loop count nb m (loop_fuel count nb start) start 0 start <> NoFuel.
Proof. exact loop_terminates. Qed.
Print Assumptions C17_loop_terminates.

(* the relational specification determines the result, and the executable brute-force specification meets it *)
Theorem C17_first_match_unique : forall mb nb count start r1 r2,
  is_first_match mb nb count start r1 -> is_first_match mb nb count start r2 -> r1 = r2.
Proof. exact is_first_match_unique. Qed.
Print Assumptions C17_first_match_unique.

Theorem C17_first_match_spec : forall mb nb count start, 0 <= nb -> 0 <= start <= count ->
  is_first_match mb nb count start (first_match mb nb count start).
Proof. exact first_match_spec. Qed.
Print Assumptions C17_first_match_spec.

(* ---- bufr_subset_find_descriptor *)
Theorem C17_find_descriptor_first : forall es d startpos,
  let count := zlen es in
  let start := Z.max 0 startpos in
  let r := find_descriptor es d startpos in
  (r = -1 /\ forall p, start <= p < count -> e_desc (znth es p elem0) <> d) \/
  (start <= r < count /\ e_desc (znth es r elem0) = d /\ forall p, start <= p < r -> e_desc (znth es p elem0) <> d).
Proof. exact find_descriptor_first. Qed.
Print Assumptions C17_find_descriptor_first.

(* ---- bufr_subset_find_values as a whole (either variant): with well-formed keys (no time/location key; callbacks present;
   for the current code every qualifier key has a value) the result is the first position where the element keys match
   consecutively, each element also satisfying every qualifier key *)
Theorem C17_find_values_first_match : forall vr es keys startpos qual desc,
  es <> [] -> keys <> [] -> startpos < zlen es ->
  split_keys keys = ([], qual, desc) -> keys_wf vr qual desc ->
  exists r, find_values vr es keys startpos = Found r /\
            is_first_match (pos_matchb vr es qual desc) (zlen desc) (zlen es) (Z.max 0 startpos) r.
Proof. exact find_values_first_match. Qed.
Print Assumptions C17_find_values_first_match.

Theorem C17_find_values_edges : forall vr es keys startpos,
  (es = [] -> find_values vr es keys startpos = Found (-1)) /\
  (zlen es <= startpos -> find_values vr es keys startpos = Found (-1)) /\
  (es <> [] -> startpos < zlen es -> keys = [] -> find_values vr es keys startpos = Found (Z.max 0 startpos)).
Proof. exact find_values_edges. Qed.
Print Assumptions C17_find_values_edges.

(* the flag bits 17..19 of the key descriptor: exact for every F=0 descriptor *)
Theorem C17_key_flags : forall d, 0 <= d < 131072 ->
  has_flag d TLC_FLAG_BIT = false /\ has_flag d QUAL_FLAG_BIT = false /\ has_flag d CB_FLAG_BIT = false /\
  clear_flags d FLAG_BITS = d /\
  has_flag (Z.lor d QUAL_FLAG_BIT) TLC_FLAG_BIT = false /\ has_flag (Z.lor d QUAL_FLAG_BIT) QUAL_FLAG_BIT = true /\
  clear_flags (Z.lor d QUAL_FLAG_BIT) QUAL_FLAG_BIT = d /\
  has_flag (Z.lor d CB_FLAG_BIT) TLC_FLAG_BIT = false /\ has_flag (Z.lor d CB_FLAG_BIT) QUAL_FLAG_BIT = false /\
  has_flag (Z.lor d CB_FLAG_BIT) CB_FLAG_BIT = true /\ clear_flags (Z.lor d CB_FLAG_BIT) FLAG_BITS = d.
Proof. exact key_flags. Qed.
Print Assumptions C17_key_flags.

(* ---- the matcher.  A value is the exact rational its C float/double holds (None = missing); close s a b = both missing, or
   |a - b| <= 0.5 * 10^-s. *)
(* float-typed elements (FLT64: every numeric element with a scale or a negative reference), every key type, either variant *)
Theorem C17_matcher_spec_float : forall t a k scale,
  cmp_eq (VFlt t a) k (half_prec scale) = true <-> close scale a (get_flt k).
Proof. exact matcher_spec_float. Qed.
Print Assumptions C17_matcher_spec_float.

(* integer-typed elements (scale 0 numerics with reference >= 0, code and flag tables) with integral keys *)
Theorem C17_matcher_spec_int : forall t i k scale, 0 <= scale -> int_key_ok k ->
  cmp_eq (VInt t i) k (half_prec scale) = true <-> close scale (get_flt (VInt t i)) (get_flt k).
Proof. exact matcher_spec_int. Qed.
Print Assumptions C17_matcher_spec_int.

(* two-value keys: an inclusive range -- with the proposed fix *)
Theorem C17_range_spec : forall lo e hi a x b,
  wt lo -> wt e -> wt hi ->
  get_flt lo = Some a -> get_flt e = Some x -> get_flt hi = Some b ->
  between fixed lo e hi = true <-> (a <= x)%Q /\ (x <= b)%Q.
Proof. exact range_spec. Qed.
Print Assumptions C17_range_spec.

Theorem C17_range_missing_elem : forall vr lo t hi a b,
  t = TF32 \/ t = TF64 ->
  get_flt lo = Some a -> get_flt hi = Some b -> between vr lo (VFlt t None) hi = false.
Proof. exact range_missing_elem. Qed.
Print Assumptions C17_range_missing_elem.

(* ... and refuted for the code as it is: bounds 270, 280 (FLT32, as bufr_set_key_flt32 builds them) against 0 12 101 = 273.15 *)
Theorem C17_range_refuted :
  exists lo e hi a x b, wt lo /\ wt e /\ wt hi /\ get_flt lo = Some a /\ get_flt e = Some x /\ get_flt hi = Some b /\
    (a <= x)%Q /\ (x <= b)%Q /\ between legacy lo e hi = false.
Proof. exact range_refuted. Qed.
Print Assumptions C17_range_refuted.

Theorem C17_range_refuted_flt64_bounds :
  exists lo e hi x b, get_flt lo = Some x /\ get_flt e = Some x /\ get_flt hi = Some b /\ (x <= b)%Q /\
    vtype_of lo = TF64 /\ vtype_of e = TF64 /\ vtype_of hi = TF64 /\ between legacy lo e hi = false.
Proof. exact range_refuted_flt64_bounds. Qed.
Print Assumptions C17_range_refuted_flt64_bounds.

(* missing keys match exactly the missing elements: the missing float key in either variant, the missing integer key
   (bufr_set_key_int32 with -1) with the proposed fix *)
Theorem C17_missing_float_key_spec : forall e t scale, is_numeric e = true ->
  cmp_eq e (VFlt t None) (half_prec scale) = true <-> is_missing e = true.
Proof. exact missing_float_key_spec. Qed.
Print Assumptions C17_missing_float_key_spec.

Theorem C17_missing_key_spec : forall e scale, is_numeric e = true ->
  cmp_eq e (key_int_value fixed (-1)) (half_prec scale) = true <-> is_missing e = true.
Proof. exact missing_key_spec. Qed.
Print Assumptions C17_missing_key_spec.

Theorem C17_missing_key_refuted :
  exists e, is_numeric e = true /\ is_missing e = true /\ cmp_eq e (key_int_value legacy (-1)) (half_prec 2) = false.
Proof. exact missing_key_refuted. Qed.
Print Assumptions C17_missing_key_refuted.

(* ---- qualifiers: what bufr_expand_qualifiers attaches to an element and bufr_fetch_rtmd_qualifier finds there is the most
   recent occurrence of the descriptor (classes 01-09) before the element, none when that occurrence is missing *)
Theorem C17_qualifiers_in_effect : forall es p d,
  (p < length es)%nat -> e_cls (nth p es elem0) = false ->
  fetch_qualifier d (nth p (expand_qualifiers es) []) = qual_in_effect es p d.
Proof. exact qualifiers_in_effect. Qed.
Print Assumptions C17_qualifiers_in_effect.

Theorem C17_qualifiers_of_cls_element : forall es p,
  (p < length es)%nat -> e_cls (nth p es elem0) = true -> nth p (expand_qualifiers es) [] = [].
Proof. exact qualifiers_of_cls_element. Qed.
Print Assumptions C17_qualifiers_of_cls_element.

(* qualifier keys with the proposed fixes: the qualifier in effect equals the key within half the precision of the qualifier;
   a key without value asks for any qualifier in effect *)
Theorem C17_qual_key_spec : forall es p d kvs cb,
  0 <= d < 131072 -> (p < length es)%nat -> e_cls (nth p es elem0) = false ->
  qual_ok fixed (nth p es elem0) (nth p (expand_qualifiers es) []) {| k_desc := d; k_vals := kvs; k_cb := cb |} =
  Some match qual_in_effect es p d, kvs with
       | None, _ => false
       | Some q, kv :: _ => cmp_eq (q_val q) kv (half_prec (q_scale q))
       | Some q, [] => true
       end.
Proof. exact qual_key_spec. Qed.
Print Assumptions C17_qual_key_spec.

(* refuted for the code as it is: the comparison uses the precision of the element; a key without value crashes *)
Theorem C17_qual_eps_refuted :
  exists es p d kv q, 0 <= d < 131072 /\ (p < length es)%nat /\ e_cls (nth p es elem0) = false /\
    qual_in_effect es p d = Some q /\ cmp_eq (q_val q) kv (half_prec (q_scale q)) = false /\
    qual_ok legacy (nth p es elem0) (nth p (expand_qualifiers es) []) {| k_desc := d; k_vals := [kv]; k_cb := None |} = Some true.
Proof. exact qual_eps_refuted. Qed.
Print Assumptions C17_qual_eps_refuted.

Theorem C17_qual_any_refuted :
  exists es keys, find_values legacy es keys 0 = Crash /\ find_values fixed es keys 0 = Found 1.
Proof. exact qual_any_refuted. Qed.
Print Assumptions C17_qual_any_refuted.

(* ---- the full statement: the search returns the first match with respect to the matcher that meets the property (the
   [fixed] matcher: C17_matcher_spec_*, C17_range_spec, C17_missing_key_spec, C17_qual_key_spec).  It holds for the mirror
   of the code with the proposed fixes and is refuted for the mirror of the code as it is. *)
Definition C17_full_statement (vr : variant) : Prop :=
  forall es keys startpos qual desc,
    es <> [] -> keys <> [] -> startpos < zlen es -> split_keys keys = ([], qual, desc) -> keys_wf fixed qual desc ->
    exists r, find_values vr es keys startpos = Found r /\
              is_first_match (pos_matchb fixed es qual desc) (zlen desc) (zlen es) (Z.max 0 startpos) r.

Theorem C17_full_statement_fixed : C17_full_statement fixed.
Proof. exact full_statement_fixed. Qed.
Print Assumptions C17_full_statement_fixed.

Theorem C17_full_statement_legacy_refuted : ~ C17_full_statement legacy.
Proof. exact full_statement_legacy_refuted. Qed.
Print Assumptions C17_full_statement_legacy_refuted.

(* ---- non-vacuity: a subset with qualifiers that are replaced and cancelled, searched with value + qualifier keys *)
Example C17_example :
  let es := [ {| e_desc := 4004; e_val := Some (VInt TI32 3); e_scale := 0; e_cls := false |};
              {| e_desc := 4005; e_val := Some (VInt TI32 11); e_scale := 0; e_cls := false |};
              {| e_desc := 12101; e_val := Some (VFlt TF64 (Some (27315 # 100))); e_scale := 2; e_cls := false |};
              {| e_desc := 4005; e_val := Some (VInt TI32 12); e_scale := 0; e_cls := false |};
              {| e_desc := 12101; e_val := Some (VFlt TF64 (Some (28050 # 100))); e_scale := 2; e_cls := false |};
              {| e_desc := 4005; e_val := Some (VInt TI32 (-1)); e_scale := 0; e_cls := false |};
              {| e_desc := 12101; e_val := Some (VFlt TF64 None); e_scale := 2; e_cls := false |} ] in
  find_values legacy es [ set_key_qualifier_int32 legacy 4005 12; set_key_int32 legacy 12101 [] ] 0 = Found 4 /\
  find_values fixed es [ set_key_flt32 12101 [Some (270 # 1); Some (280 # 1)] ] 0 = Found 2 /\
  find_values fixed es [ set_key_flt32 12101 [Some (270 # 1); Some (280 # 1)] ] 3 = Found (-1) /\
  find_values fixed es [ set_key_int32 fixed 4005 []; set_key_int32 fixed 12101 [-1] ] 0 = Found 5 /\
  map (map q_pos) (expand_qualifiers es) = [ []; [0]; [0;1]; [0;1]; [0;3]; [0;3]; [0] ]%nat /\
  split_keys [ set_key_qualifier_int32 legacy 4005 12; set_key_int32 legacy 12101 [] ]
    = ([], [ {| k_desc := 4005; k_vals := [VInt TI32 12]; k_cb := None |} ], [ set_key_int32 legacy 12101 [] ]).
Proof. vm_compute. repeat split. Qed.
