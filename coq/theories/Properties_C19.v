(* Properties_C19.v — property C19: IEEE 754 fields (2 09 032 / 2 09 064) are stored bit-exactly.
   Model: IeeeSoft.v (mirror of API/Sources/bufr_ieee754.c).  Specification: Flocq.IEEE754.Bits.
   The model has two variants of two statements of the C code (see IeeeSoft.v): fixsub/fixsel = false is the code of the
   unchanged tree, true the proposed repairs (proposed_fixes/C19_*.md).  Theorems named _cur_ are about the unchanged code. *)
From Coq Require Import ZArith Bool.
From Flocq Require Import Core IEEE754.Binary IEEE754.Bits.
From V Require Import IeeeSoft IeeeSoftProof IeeeFlocqProof.
From Coq Require Import List NArith.
From V Require Fm94 IeeeCol IeeeColProof.
Import ListNotations.
Open Scope Z_scope.

(* ------------------------------------------------------------------------------------------------------------------
   The property at full strength, for a variant of the code: whatever libm does within its contract (exponent estimate
   between one too low and two too high, pow(2,e) exact), on a host with IEEE 754 float/double objects and in either mode (native / software),
   encoding any non-NaN float or double object returns its IEEE 754 bit pattern, decoding any pattern returns the object
   with that pattern (NaN patterns: a NaN), and when the five compliance sub-checks pass the native mode is selected. *)
Definition C19_full_statement (fixsub fixsel : bool) : Prop :=
  forall ilog2f ilog2d pow2 pow2f,
  libm_ok fmt32 ilog2f pow2 pow2f ->          (* logf, pow, powf *)
  libm_ok fmt64 ilog2d pow2 pow2 ->           (* log, pow *)
  (forall c_use img, 0 <= img < 2 ^ 32 -> is_nan _ _ (b32_of_bits img) = false ->
     ieee_encode ilog2f pow2 fmt32 fixsub c_use host32 img = Some img) /\
  (forall c_use img, 0 <= img < 2 ^ 64 -> is_nan _ _ (b64_of_bits img) = false ->
     ieee_encode ilog2d pow2 fmt64 fixsub c_use host64 img = Some img) /\
  (forall c_use bits, 0 <= bits < 2 ^ 32 ->
     ieee_decode pow2 pow2f fmt32 c_use host32 bits = Some (fval_of_b32 (b32_of_bits bits))) /\
  (forall c_use bits, 0 <= bits < 2 ^ 64 ->
     ieee_decode pow2 pow2 fmt64 c_use host64 bits = Some (fval_of_b64 (b64_of_bits bits))) /\
  (forall use, use_C_ieee754 fixsel 0 true true true true true use = (1, use)).

Theorem C19_full_repaired : C19_full_statement true true.
Proof. exact full_repaired. Qed.
Print Assumptions C19_full_repaired.

(* the unchanged tree violates it twice: the subnormal encoder and the selection of the native path *)
Theorem C19_full_cur_refuted : ~ C19_full_statement false false /\ ~ C19_full_statement false true /\ ~ C19_full_statement true false.
Proof. exact full_cur_refuted. Qed.
Print Assumptions C19_full_cur_refuted.

(* ------------------------------------------------------------------------------------------------------------------ decoder *)
(* every pattern, NaN patterns included (they decode to a NaN) *)
Theorem C19_decode :
  (forall ilog2 pow2 pow2s, libm_ok fmt32 ilog2 pow2 pow2s ->
   forall bits, 0 <= bits < 2 ^ 32 -> soft_decode pow2 pow2s fmt32 bits = Some (fval_of_b32 (b32_of_bits bits))) /\
  (forall ilog2 pow2 pow2s, libm_ok fmt64 ilog2 pow2 pow2s ->
   forall bits, 0 <= bits < 2 ^ 64 -> soft_decode pow2 pow2s fmt64 bits = Some (fval_of_b64 (b64_of_bits bits))).
Proof. exact decode_both. Qed.
Print Assumptions C19_decode.

(* ------------------------------------------------------------------------------------------------------------------ encoder *)
(* repaired encoder: every finite value (normal AND subnormal), both zeros, both infinities; the estimate of the exponent may
   be one too low, one or two too high (libm_ok) *)
Theorem C19_encode :
  (forall ilog2 pow2 pow2s, libm_ok fmt32 ilog2 pow2 pow2s ->
   forall x : binary32, is_nan _ _ x = false -> soft_encode ilog2 pow2 fmt32 true (fval_of_b32 x) = Some (bits_of_b32 x)) /\
  (forall ilog2 pow2 pow2s, libm_ok fmt64 ilog2 pow2 pow2s ->
   forall x : binary64, is_nan _ _ x = false -> soft_encode ilog2 pow2 fmt64 true (fval_of_b64 x) = Some (bits_of_b64 x)).
Proof. exact encode_both. Qed.
Print Assumptions C19_encode.

(* encoder of the unchanged tree: correct except on subnormals whose leading fraction bit is 0 ... *)
Theorem C19_encode_cur_partial :
  (forall ilog2 pow2 pow2s, libm_ok fmt32 ilog2 pow2 pow2s ->
   forall x : binary32, is_nan _ _ x = false -> not_deep 23 (B2FF _ _ x) ->
   soft_encode ilog2 pow2 fmt32 false (fval_of_b32 x) = Some (bits_of_b32 x)) /\
  (forall ilog2 pow2 pow2s, libm_ok fmt64 ilog2 pow2 pow2s ->
   forall x : binary64, is_nan _ _ x = false -> not_deep 52 (B2FF _ _ x) ->
   soft_encode ilog2 pow2 fmt64 false (fval_of_b64 x) = Some (bits_of_b64 x)).
Proof. exact encode_cur_partial_both. Qed.
Print Assumptions C19_encode_cur_partial.
(* ... and wrong on every one of those: the fraction comes out shifted left until its leading 1 is the top fraction bit *)
Theorem C19_encode32_cur_refuted : forall ilog2 pow2 pow2s, libm_ok fmt32 ilog2 pow2 pow2s ->
  forall s m, 0 < m < 2 ^ 22 ->
  soft_encode ilog2 pow2 fmt32 false (FFin s m (-149)) = Some (join fmt32 s 0 (m * 2 ^ (22 - Z.log2 m))) /\
  soft_encode ilog2 pow2 fmt32 false (FFin s m (-149)) <> Some (spec_encode fmt32 (FFin s m (-149))).
Proof. exact encode32_cur_deep. Qed.
Print Assumptions C19_encode32_cur_refuted.
Theorem C19_encode64_cur_refuted : forall ilog2 pow2 pow2s, libm_ok fmt64 ilog2 pow2 pow2s ->
  forall s m, 0 < m < 2 ^ 51 ->
  soft_encode ilog2 pow2 fmt64 false (FFin s m (-1074)) = Some (join fmt64 s 0 (m * 2 ^ (51 - Z.log2 m))) /\
  soft_encode ilog2 pow2 fmt64 false (FFin s m (-1074)) <> Some (spec_encode fmt64 (FFin s m (-1074))).
Proof. exact encode64_cur_deep. Qed.
Print Assumptions C19_encode64_cur_refuted.
(* the witnesses replayed on the C library by lib/c19.py: 0x00000001 -> 0x00400000, 0x00012345 -> 0x0048d140, 0x1 -> 0x0008000000000000 *)
Theorem C19_encode_cur_witnesses :
  soft_encode ilog2_exact pow2_exact fmt32 false (FFin false 1 (-149)) = Some 0x00400000 /\
  spec_encode fmt32 (FFin false 1 (-149)) = 1 /\
  soft_encode ilog2_exact pow2_exact fmt32 false (FFin false 0x12345 (-149)) = Some 0x0048d140 /\
  soft_encode ilog2_exact pow2_exact fmt64 false (FFin false 1 (-1074)) = Some 0x0008000000000000 /\
  spec_encode fmt64 (FFin false 1 (-1074)) = 1.
Proof. exact encode_cur_witnesses. Qed.
Print Assumptions C19_encode_cur_witnesses.

(* ------------------------------------------------------------------------------------------------------------------ round trips *)
(* software codec with the repaired encoder: decode (encode x) = x for every non-NaN x, encode (decode b) = b for every
   non-NaN pattern b *)
Theorem C19_roundtrip :
  (forall ilog2 pow2 pow2s, libm_ok fmt32 ilog2 pow2 pow2s ->
   forall x : binary32, is_nan _ _ x = false ->
   exists b, soft_encode ilog2 pow2 fmt32 true (fval_of_b32 x) = Some b /\ 0 <= b < 2 ^ 32 /\
             soft_decode pow2 pow2s fmt32 b = Some (fval_of_b32 x)) /\
  (forall ilog2 pow2 pow2s, libm_ok fmt64 ilog2 pow2 pow2s ->
   forall x : binary64, is_nan _ _ x = false ->
   exists b, soft_encode ilog2 pow2 fmt64 true (fval_of_b64 x) = Some b /\ 0 <= b < 2 ^ 64 /\
             soft_decode pow2 pow2s fmt64 b = Some (fval_of_b64 x)) /\
  (forall ilog2 pow2 pow2s, libm_ok fmt32 ilog2 pow2 pow2s ->
   forall b, 0 <= b < 2 ^ 32 -> is_nan _ _ (b32_of_bits b) = false ->
   exists v, soft_decode pow2 pow2s fmt32 b = Some v /\ soft_encode ilog2 pow2 fmt32 true v = Some b) /\
  (forall ilog2 pow2 pow2s, libm_ok fmt64 ilog2 pow2 pow2s ->
   forall b, 0 <= b < 2 ^ 64 -> is_nan _ _ (b64_of_bits b) = false ->
   exists v, soft_decode pow2 pow2s fmt64 b = Some v /\ soft_encode ilog2 pow2 fmt64 true v = Some b).
Proof. exact roundtrip_all. Qed.
Print Assumptions C19_roundtrip.

(* ------------------------------------------------------------------------------------------------------------------ native path, selection *)
Theorem C19_native_identity : forall ilog2 pow2 pow2s f fixsub host img,
  ieee_encode ilog2 pow2 f fixsub true host img = Some img /\
  ieee_decode pow2 pow2s f true host img = Some (host img).
Proof. exact native_identity. Qed.
Print Assumptions C19_native_identity.

Theorem C19_selection : forall use,
  check_compliance true true true true true true = true /\
  use_C_ieee754 true 0 true true true true true use = (1, use).
Proof. exact selection_fixed. Qed.
Print Assumptions C19_selection.
(* the native path is never selected without a passed self-check and a request *)
Theorem C19_selection_sound : forall fixsel checked sz sg sl dl m2 use,
  snd (use_C_ieee754 fixsel checked sz sg sl dl m2 use) = true ->
  use = true /\ (checked = 0 -> sz && sg && sl && dl && (m2 || negb fixsel) = true /\ fixsel = true).
Proof. exact selection_sound. Qed.
Print Assumptions C19_selection_sound.
(* unchanged tree: the stray ';' makes the self-check fail whatever the sub-checks say, the native path is never enabled *)
Theorem C19_selection_cur_refuted : forall sz sg sl dl m2 use,
  use_C_ieee754 false 0 sz sg sl dl m2 use = (-1, false).
Proof. exact selection_cur_refuted. Qed.
Print Assumptions C19_selection_cur_refuted.

(* ------------------------------------------------------------------------------------------------------------------
   The same results on the explicit layout (sign, biased exponent, fraction), for any format with at least 2 fraction and
   3 exponent bits; integers only, no axioms.  IeeeFlocqProof.v shows spec_decode/spec_encode are Flocq's functions. *)
Theorem C19_layout_decode : forall pow2 pow2s f, fmt_ok f ->
  pow2_ok pow2 0 (fb f) -> pow2_ok pow2s (emin f) (emax f) ->
  forall bits, 0 <= bits < 2 ^ (fb f + eb f + 1) -> soft_decode pow2 pow2s f bits = Some (spec_decode f bits).
Proof. exact soft_decode_correct. Qed.
Print Assumptions C19_layout_decode.
Theorem C19_layout_encode : forall ilog2 pow2 f, fmt_ok f -> ilog2_ok f ilog2 -> pow2_ok pow2 (emin f) (emax f) ->
  forall fixsub x, enc_ok f fixsub x -> soft_encode ilog2 pow2 f fixsub x = Some (spec_encode f x).
Proof. exact soft_encode_correct. Qed.
Print Assumptions C19_layout_encode.
Theorem C19_layout_bijective : forall f, fmt_ok f ->
  (forall bits, 0 <= bits < 2 ^ (fb f + eb f + 1) -> spec_decode f bits <> FNan -> spec_encode f (spec_decode f bits) = bits) /\
  (forall x, valid_fval f x -> spec_decode f (spec_encode f x) = x /\ 0 <= spec_encode f x < 2 ^ (fb f + eb f + 1)).
Proof. exact layout_bijective. Qed.
Print Assumptions C19_layout_bijective.
Theorem C19_layout_is_flocq :
  (forall bits, 0 <= bits -> spec_decode fmt32 bits = fval_of_b32 (b32_of_bits bits)) /\
  (forall bits, 0 <= bits -> spec_decode fmt64 bits = fval_of_b64 (b64_of_bits bits)) /\
  (forall x : binary32, is_nan _ _ x = false -> spec_encode fmt32 (fval_of_b32 x) = bits_of_b32 x) /\
  (forall x : binary64, is_nan _ _ x = false -> spec_encode fmt64 (fval_of_b64 x) = bits_of_b64 x).
Proof. exact layout_is_flocq. Qed.
Print Assumptions C19_layout_is_flocq.

(* ------------------------------------------------------------------------------------------------------------------ hypotheses are satisfiable *)
Example C19_libm_contract_satisfiable :
  libm_ok fmt32 ilog2_exact pow2_exact pow2_exact /\ libm_ok fmt64 ilog2_exact pow2_double pow2_double.
Proof. split; [exact (libm_exact_ok fmt32 fmt32_ok) |]. split; [exact (ilog2_exact_ok fmt64 fmt64_ok) | split; apply pow2_double_ok]. Qed.
(* the estimate may be one too low everywhere, one too high everywhere, or two too high on every normal number *)
Example C19_estimates_off_admissible : forall f,
  ilog2_ok f (fun x => ilog2_exact x - 1) /\ ilog2_ok f (fun x => ilog2_exact x + 1) /\
  ilog2_ok f (fun x => if ilog2_exact x <? emin f then ilog2_exact x + 1 else ilog2_exact x + 2).
Proof.
  intros f. split; [| split].
  - apply (ilog2_off_ok f (-1)). split; discriminate.
  - apply (ilog2_off_ok f 1). split; discriminate.
  - apply ilog2_off2_ok.
Qed.
Example C19_formats_ok : fmt_ok fmt32 /\ fmt_ok fmt64.
Proof. split; [exact fmt32_ok | exact fmt64_ok]. Qed.
Example C19_constants_are_the_C_macros :
  sign_bit fmt32 = 0x80000000 /\ expon_bits fmt32 = 0x7f800000 /\ fract_bits fmt32 = 0x007fffff /\ bias fmt32 = 127 /\
  sign_bit fmt64 = 0x8000000000000000 /\ expon_bits fmt64 = 0x7ff0000000000000 /\ fract_bits fmt64 = 0x000fffffffffffff /\ bias fmt64 = 1023.
Proof. repeat split; reflexivity. Qed.

(* ------------------------------------------------------------------------------------------------------------------ compressed columns *)
(* A compressed message carries a 2 09 YYY column in the library's own convention (IeeeCol.v).  Every column of patterns - zeros
   of either sign are different patterns - is read back pattern for pattern, whatever follows it in Section 4. *)
Theorem C19_compressed_column_roundtrip : forall (w:nat) (vals:list N) (tl:Fm94.bits),
  (8 <= w)%nat -> (w < 512)%nat -> vals <> nil -> Forall (fun v => (v < 2 ^ N.of_nat w)%N) vals ->
  IeeeCol.ieee_col_dec w (length vals) (IeeeCol.ieee_col_enc w vals ++ tl) = Some (vals, tl).
Proof. exact IeeeColProof.ieee_col_roundtrip. Qed.
Print Assumptions C19_compressed_column_roundtrip.
Example C19_signed_zeros_are_distinct :
  IeeeCol.ieee_col_dec 32 2 (IeeeCol.ieee_col_enc 32 [0; 0x80000000]%N) = Some ([0; 0x80000000]%N, nil).
Proof. vm_compute. reflexivity. Qed.
