(* part 1: printf / atoi *)
From Coq Require Import List ZArith NArith Arith Lia Bool ZifyBool.
From V Require Import Walk BitIO Fm94.
From V Require Import LocalTab.
Import ListNotations.
Local Open Scope Z_scope.
Ltac Zify.zify_post_hook ::= Z.to_euclidean_division_equations.

Definition digit_char (c:N) : Prop := (48 <= c <= 57)%N.

Lemma is_digit_true c : digit_char c -> is_digit c = true.
Proof. unfold digit_char, is_digit. lia. Qed.
Lemma digit_not_space c : digit_char c -> is_space c = false.
Proof. unfold digit_char, is_space. lia. Qed.

Lemma dec_rev_digits : forall fuel n, Forall digit_char (dec_rev fuel n).
Proof.
  induction fuel as [|f IH]; intro n; cbn [dec_rev]; [constructor|].
  destruct (n <? 10)%N eqn:E.
  - constructor; [|constructor]. unfold digit_char. lia.
  - constructor; [|apply IH]. unfold digit_char.
    pose proof (N.mod_upper_bound n 10). lia.
Qed.

Lemma dec_rev_length : forall fuel n, (length (dec_rev fuel n) <= fuel)%nat.
Proof.
  induction fuel as [|f IH]; intro n; cbn [dec_rev]; [cbn; lia|].
  destruct (n <? 10)%N; cbn [length]; [lia|]. specialize (IH (n / 10)%N). lia.
Qed.

Lemma dec_rev_nonempty : forall fuel n, (1 <= length (dec_rev (S fuel) n))%nat.
Proof. intros. cbn [dec_rev]. destruct (n <? 10)%N; cbn [length]; lia. Qed.

(* with enough fuel the digit count does not depend on the fuel and is bounded by the magnitude *)
Lemma dec_rev_length_bound : forall k fuel n, (Z.of_N n < 10 ^ Z.of_nat (S k)) ->
  (length (dec_rev fuel n) <= S k)%nat.
Proof.
  induction k as [|k IH]; intros fuel n H.
  - destruct fuel; cbn [dec_rev length]; [lia|].
    change (10 ^ Z.of_nat 1) with 10 in H.
    replace (n <? 10)%N with true by lia. cbn [length]. lia.
  - destruct fuel; cbn [dec_rev length]; [lia|].
    destruct (n <? 10)%N eqn:E; cbn [length]; [lia|].
    assert (H2 : Z.of_N (n / 10) < 10 ^ Z.of_nat (S k)).
    { rewrite N2Z.inj_div. change (Z.of_N 10) with 10.
      rewrite (Nat2Z.inj_succ (S k)), Z.pow_succ_r in H by lia.
      apply Z.div_lt_upper_bound; lia. }
    specialize (IH fuel _ H2). lia.
Qed.

Lemma digits_val_app_digits : forall l acc r, Forall digit_char l ->
  digits_val acc (l ++ r) = digits_val (digits_val acc l) r.
Proof.
  induction l as [|c t IH]; intros acc r H; cbn [app digits_val]; [reflexivity|].
  inversion H as [|? ? Hc Ht]; subst. rewrite (is_digit_true _ Hc). apply IH; assumption.
Qed.

(* the value of the digits, read most significant first *)
Lemma digits_val_dec_rev : forall fuel n acc, Z.of_N n < 10 ^ Z.of_nat fuel ->
  digits_val acc (rev (dec_rev fuel n)) = acc * 10 ^ Z.of_nat (length (dec_rev fuel n)) + Z.of_N n.
Proof.
  induction fuel as [|f IH]; intros n acc H.
  - change (10 ^ Z.of_nat 0) with 1 in H. cbn [dec_rev rev length digits_val]. change (10 ^ Z.of_nat 0) with 1. lia.
  - cbn [dec_rev]. destruct (n <? 10)%N eqn:E.
    + cbn [rev app length digits_val]. replace (is_digit (48 + n)) with true by (unfold is_digit; lia).
      change (10 ^ Z.of_nat 1) with 10. lia.
    + cbn [rev length].
      assert (H2 : Z.of_N (n / 10) < 10 ^ Z.of_nat f).
      { rewrite N2Z.inj_div. change (Z.of_N 10) with 10.
        rewrite Nat2Z.inj_succ, Z.pow_succ_r in H by lia.
        apply Z.div_lt_upper_bound; lia. }
      rewrite digits_val_app_digits by (apply Forall_rev, dec_rev_digits).
      rewrite (IH _ _ H2). cbn [digits_val].
      pose proof (N.mod_upper_bound n 10 ltac:(lia)) as Hm.
      replace (is_digit (48 + n mod 10)) with true by (unfold is_digit; lia).
      rewrite Nat2Z.inj_succ, Z.pow_succ_r by lia.
      rewrite N2Z.inj_add, N2Z.inj_mod, N2Z.inj_div. change (Z.of_N 10) with 10. change (Z.of_N 48) with 48.
      set (P := 10 ^ Z.of_nat (length (dec_rev f (n / 10)%N))).
      pose proof (Z.div_mod (Z.of_N n) 10 ltac:(lia)). nia.
Qed.

Lemma pow2_le_pow10 k : (2 ^ k <= 10 ^ k)%N.
Proof. apply N.pow_le_mono_l. lia. Qed.

Lemma dec_fuel_enough n : Z.of_N n < 10 ^ Z.of_nat (S (N.to_nat (N.log2 n))).
Proof.
  assert (H : (n < 10 ^ N.succ (N.log2 n))%N).
  { destruct (N.eq_dec n 0) as [->|Hn]; [cbn; lia|].
    pose proof (N.log2_spec n ltac:(lia)) as [_ Hu].
    pose proof (pow2_le_pow10 (N.succ (N.log2 n))). lia. }
  rewrite Nat2Z.inj_succ, N_nat_Z.
  apply N2Z.inj_lt in H. rewrite N2Z.inj_pow, N2Z.inj_succ in H. exact H.
Qed.

Lemma dec_digits_digits n : Forall digit_char (dec_digits n).
Proof. unfold dec_digits. apply Forall_rev, dec_rev_digits. Qed.

Lemma dec_digits_val n acc :
  digits_val acc (dec_digits n) = acc * 10 ^ Z.of_nat (length (dec_digits n)) + Z.of_N n.
Proof.
  unfold dec_digits. rewrite rev_length. apply digits_val_dec_rev, dec_fuel_enough.
Qed.

Lemma dec_digits_length n k : Z.of_N n < 10 ^ Z.of_nat (S k) -> (1 <= length (dec_digits n) <= S k)%nat.
Proof.
  intro H. unfold dec_digits. rewrite rev_length. split.
  - apply dec_rev_nonempty.
  - apply dec_rev_length_bound. exact H.
Qed.

Lemma dec_digits_hd n : exists c t, dec_digits n = c :: t /\ digit_char c.
Proof.
  pose proof (dec_digits_digits n) as H.
  assert (L : (1 <= length (dec_digits n))%nat).
  { unfold dec_digits. rewrite rev_length. apply dec_rev_nonempty. }
  destruct (dec_digits n) as [|c t]; [cbn in L; lia|].
  inversion H; subst. eauto.
Qed.

(* ---- atoi of the formatted texts ---- *)
Lemma skip_ws_blanks k l : skip_ws (repeat 32%N k ++ l) = skip_ws l.
Proof. induction k as [|k IH]; cbn [repeat app skip_ws]; [reflexivity|]. exact IH. Qed.

Lemma digits_val_zeros k l acc : digits_val acc (repeat 48%N k ++ l) = digits_val (acc * 10 ^ Z.of_nat k) l.
Proof.
  revert acc. induction k as [|k IH]; intro acc; cbn [repeat app].
  - change (10 ^ Z.of_nat 0) with 1. f_equal. lia.
  - cbn [digits_val]. change (is_digit 48) with true. cbv iota. rewrite IH.
    rewrite Nat2Z.inj_succ, Z.pow_succ_r by lia. f_equal. change (Z.of_N 48) with 48. lia.
Qed.

Lemma atoi_digits l : (exists c t, l = c :: t /\ digit_char c) -> atoi l = digits_val 0 l.
Proof.
  intros (c & t & -> & Hc). unfold atoi. cbn [skip_ws]. rewrite (digit_not_space _ Hc).
  unfold digit_char in Hc. replace (c =? 45)%N with false by lia. replace (c =? 43)%N with false by lia. reflexivity.
Qed.

Lemma atoi_blanks k l : atoi (repeat 32%N k ++ l) = atoi l.
Proof. unfold atoi. rewrite skip_ws_blanks. reflexivity. Qed.

Lemma firstn_all_le {A} (l:list A) n : (length l <= n)%nat -> firstn n l = l.
Proof. apply firstn_all2. Qed.

Lemma pad_left_length c w l : length (pad_left c w l) = Nat.max w (length l).
Proof. unfold pad_left. rewrite app_length, repeat_length. lia. Qed.

(* "%<w>d" of a non-negative number that fits *)
Lemma fmt_width_nonneg w z : 0 <= z -> fmt_width w z = pad_left 32%N w (dec_digits (Z.to_N z)).
Proof.
  intro H. unfold fmt_width, sign_chars. replace (z <? 0) with false by lia. cbn [app].
  replace (Z.abs_N z) with (Z.to_N z) by lia. reflexivity.
Qed.

Lemma put_fmt_width w z : 0 <= z < 10 ^ Z.of_nat (S w) ->
  put_fmt (S w) (fmt_width (S w) z) = repeat 32%N (S w - length (dec_digits (Z.to_N z))) ++ dec_digits (Z.to_N z)
  /\ length (put_fmt (S w) (fmt_width (S w) z)) = S w.
Proof.
  intros [H0 H1]. rewrite fmt_width_nonneg by lia.
  assert (L := dec_digits_length (Z.to_N z) w ltac:(rewrite Z2N.id by lia; exact H1)).
  unfold put_fmt. rewrite firstn_all_le by (rewrite pad_left_length; lia).
  split; [reflexivity|]. rewrite pad_left_length. lia.
Qed.

Lemma atoi_fmt_width w z : 0 <= z < 10 ^ Z.of_nat (S w) -> atoi (put_fmt (S w) (fmt_width (S w) z)) = z.
Proof.
  intro H. destruct (put_fmt_width w z H) as [-> _].
  rewrite atoi_blanks, atoi_digits by apply dec_digits_hd.
  rewrite dec_digits_val. rewrite Z2N.id by lia. lia.
Qed.

(* "%.<w>d" of a non-negative number that fits *)
Lemma fmt_prec_nonneg w z : 0 <= z -> fmt_prec w z = pad_left 48%N w (dec_digits (Z.to_N z)).
Proof.
  intro H. unfold fmt_prec, sign_chars. replace (z <? 0) with false by lia. cbn [app].
  replace (Z.abs_N z) with (Z.to_N z) by lia. reflexivity.
Qed.

Lemma put_fmt_prec w z : 0 <= z < 10 ^ Z.of_nat (S w) ->
  put_fmt (S w) (fmt_prec (S w) z) = repeat 48%N (S w - length (dec_digits (Z.to_N z))) ++ dec_digits (Z.to_N z)
  /\ length (put_fmt (S w) (fmt_prec (S w) z)) = S w.
Proof.
  intros [H0 H1]. rewrite fmt_prec_nonneg by lia.
  assert (L := dec_digits_length (Z.to_N z) w ltac:(rewrite Z2N.id by lia; exact H1)).
  unfold put_fmt. rewrite firstn_all_le by (rewrite pad_left_length; lia).
  split; [reflexivity|]. rewrite pad_left_length. lia.
Qed.

Lemma atoi_fmt_prec w z : 0 <= z < 10 ^ Z.of_nat (S w) -> atoi (put_fmt (S w) (fmt_prec (S w) z)) = z.
Proof.
  intro H. destruct (put_fmt_prec w z H) as [E _]. rewrite E.
  assert (L := dec_digits_length (Z.to_N z) w ltac:(rewrite Z2N.id by lia; lia)).
  rewrite atoi_digits.
  - rewrite digits_val_zeros, dec_digits_val. rewrite Z2N.id by lia. lia.
  - destruct (S w - length (dec_digits (Z.to_N z)))%nat as [|k] eqn:Ek; cbn [repeat app].
    + apply dec_digits_hd.
    + eexists _, _. split; [reflexivity|]. unfold digit_char. lia.
Qed.

(* every character of a formatted non-negative number is a digit or the fill character *)
Lemma put_fmt_width_chars w z : 0 <= z < 10 ^ Z.of_nat (S w) ->
  Forall (fun c => c = 32%N \/ digit_char c) (put_fmt (S w) (fmt_width (S w) z)).
Proof.
  intro H. destruct (put_fmt_width w z H) as [-> _]. apply Forall_app. split.
  - apply Forall_forall. intros c Hc. apply repeat_spec in Hc. left. exact Hc.
  - eapply Forall_impl; [|apply dec_digits_digits]. intros c Hc. right. exact Hc.
Qed.
Lemma put_fmt_prec_chars w z : 0 <= z < 10 ^ Z.of_nat (S w) ->
  Forall digit_char (put_fmt (S w) (fmt_prec (S w) z)).
Proof.
  intro H. destruct (put_fmt_prec w z H) as [-> _]. apply Forall_app. split.
  - apply Forall_forall. intros c Hc. apply repeat_spec in Hc. subst. unfold digit_char. lia.
  - apply dec_digits_digits.
Qed.
