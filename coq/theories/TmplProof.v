(* TmplProof.v — proofs about the template text model (Tmpl.v). *)
From Coq Require Import List ZArith NArith Arith Lia Bool ZifyBool.
From V Require Import Walk Fm94 Fm94Exp Tmpl.
Import ListNotations.
Local Open Scope Z_scope.
Ltac Zify.zify_post_hook ::= Z.div_mod_to_equations.

Arguments print_flt : simpl never.
Arguments print_e : simpl never.
Arguments print_f : simpl never.
Arguments strtof : simpl never.
Arguments accepts : simpl never.
Arguments Z.mul : simpl never.
Arguments Z.add : simpl never.
Arguments Z.pow : simpl never.
Arguments Z.div : simpl never.
Arguments Z.modulo : simpl never.

(* ------------------------------------------------------------------ characters *)
Notation allb := (@forallb Z).

Lemma digit_isdigit n : isdigit (digit n) = true.
Proof. unfold isdigit, digit. assert (0 <= n mod 10 < 10) by (apply Z.mod_pos_bound; lia). lia. Qed.

Lemma allb_app p a b : allb p (a ++ b) = allb p a && allb p b.
Proof. apply forallb_app. Qed.

Lemma dec_fuel_digits : forall f n, allb isdigit (dec_fuel f n) = true.
Proof.
  induction f as [|f IH]; intro n; [reflexivity|].
  cbn [dec_fuel]. destruct (n <? 10).
  - cbn. rewrite digit_isdigit. reflexivity.
  - rewrite allb_app, IH. cbn. rewrite digit_isdigit. reflexivity.
Qed.
Lemma dec_digits n : allb isdigit (dec n) = true.
Proof. apply dec_fuel_digits. Qed.
Lemma dec_fuel_nonempty f n : dec_fuel (S f) n <> [].
Proof. cbn [dec_fuel]. destruct (n <? 10); [discriminate|]. destruct (dec_fuel f (n / 10)); discriminate. Qed.
Lemma dec_nonempty n : dec n <> [].
Proof. apply dec_fuel_nonempty. Qed.
Lemma fixed_digits_digits : forall k n, allb isdigit (fixed_digits k n) = true.
Proof.
  induction k as [|k IH]; intro n; [reflexivity|].
  cbn [fixed_digits]. rewrite allb_app, IH. cbn. rewrite digit_isdigit. reflexivity.
Qed.

(* value of a digit string *)
Lemma digits_val_app : forall l a d, allb isdigit l = true -> isdigit d = true ->
  digits_val a (l ++ [d]) = 10 * digits_val a l + (d - 48).
Proof.
  induction l as [|c l IH]; intros a d Hl Hd.
  - cbn. rewrite Hd. reflexivity.
  - cbn in Hl. apply andb_true_iff in Hl as [Hc Hl]. cbn [app digits_val]. rewrite Hc. apply IH; assumption.
Qed.
Lemma digits_val_dec_fuel : forall f n, 0 <= n < 2 ^ Z.of_nat f -> digits_val 0 (dec_fuel f n) = n.
Proof.
  induction f as [|f IH]; intros n Hn.
  - cbn in Hn. assert (n = 0) by lia. subst. reflexivity.
  - cbn [dec_fuel]. destruct (n <? 10) eqn:E.
    + cbn. rewrite digit_isdigit. unfold digit. rewrite Z.mod_small by lia. lia.
    + rewrite digits_val_app by (apply dec_fuel_digits || apply digit_isdigit).
      rewrite IH.
      * unfold digit. lia.
      * rewrite Nat2Z.inj_succ, Z.pow_succ_r in Hn by lia. lia.
Qed.
Lemma digits_val_dec n : 0 <= n -> digits_val 0 (dec n) = n.
Proof.
  intro Hn. unfold dec. apply digits_val_dec_fuel. split; [lia|].
  rewrite Nat2Z.inj_succ, Z2Nat.id by apply Z.log2_nonneg.
  destruct (Z.eq_dec n 0) as [->|Hz]; [cbn; lia|].
  apply Z.log2_spec. lia.
Qed.

(* ------------------------------------------------------------------ print_Z / atoi / atol *)
Definition zchar (c:Z) : bool := isdigit c || (c =? 45).
Lemma isdigit_zchar c : isdigit c = true -> zchar c = true.
Proof. unfold zchar. intros ->. reflexivity. Qed.
Lemma allb_impl (p q:Z -> bool) s : (forall c, p c = true -> q c = true) -> allb p s = true -> allb q s = true.
Proof.
  intros H. induction s as [|c s IH]; [reflexivity|]. cbn. intro Hs. apply andb_true_iff in Hs as [Hc Hs].
  rewrite (H _ Hc), (IH Hs). reflexivity.
Qed.
Lemma print_Z_zchar z : allb zchar (print_Z z) = true.
Proof.
  unfold print_Z. destruct (z <? 0).
  - cbn. apply (allb_impl isdigit zchar); [apply isdigit_zchar | apply dec_digits].
  - apply (allb_impl isdigit zchar); [apply isdigit_zchar | apply dec_digits].
Qed.
Lemma print_Z_nonempty z : print_Z z <> [].
Proof. unfold print_Z. destruct (z <? 0); [discriminate | apply dec_nonempty]. Qed.
(* a non-negative number starts with a digit *)
Lemma dec_head n : exists c t, dec n = c :: t /\ isdigit c = true.
Proof.
  pose proof (dec_digits n) as H. pose proof (dec_nonempty n) as N.
  destruct (dec n) as [|c t]; [contradiction|]. exists c, t. split; [reflexivity|].
  cbn in H. apply andb_true_iff in H. tauto.
Qed.

Lemma isdigit_not_space c : isdigit c = true -> isspace c = false.
Proof. unfold isdigit, isspace. lia. Qed.

Lemma strtol_print_Z z : - 2 ^ 63 <= z < 2 ^ 63 -> strtol (print_Z z) = z.
Proof.
  intro Hz. unfold strtol, print_Z. destruct (z <? 0) eqn:E.
  - cbn [skipb]. change (isspace 45) with false. cbv iota. change (45 =? 45) with true. cbv iota.
    rewrite digits_val_dec by lia. unfold clamp64. lia.
  - destruct (dec_head z) as (c & t & Hd & Hc). rewrite Hd. cbn [skipb]. rewrite (isdigit_not_space _ Hc).
    assert (c =? 45 = false) as -> by (unfold isdigit in Hc; lia).
    assert (c =? 43 = false) as -> by (unfold isdigit in Hc; lia).
    rewrite <- Hd, digits_val_dec by lia. unfold clamp64. lia.
Qed.
Lemma atol_print_Z z : - 2 ^ 63 <= z < 2 ^ 63 -> atol (print_Z z) = z.
Proof. apply strtol_print_Z. Qed.
Lemma atoi_print_Z z : - 2 ^ 31 <= z < 2 ^ 31 -> atoi (print_Z z) = z.
Proof. intro Hz. unfold atoi. rewrite strtol_print_Z by lia. unfold wrap32. lia. Qed.

(* ------------------------------------------------------------------ tokens *)
Definition clean (dl:Z -> bool) (s:text) : bool := allb (fun c => negb (dl c)) s.

Lemma skipb_clean dl c t : dl c = false -> skipb dl (c :: t) = c :: t.
Proof. intro H. cbn. rewrite H. reflexivity. Qed.
Lemma spand_clean_end dl : forall a, clean dl a = true -> spand dl a = (a, []).
Proof.
  induction a as [|c a IH]; intro H; [reflexivity|].
  cbn in H. apply andb_true_iff in H as [Hc Ha]. cbn. apply negb_true_iff in Hc. rewrite Hc, (IH Ha). reflexivity.
Qed.
Lemma spand_clean_delim dl : forall a c r, clean dl a = true -> dl c = true -> spand dl (a ++ c :: r) = (a, r).
Proof.
  induction a as [|x a IH]; intros c r H Hc.
  - cbn. rewrite Hc. reflexivity.
  - cbn in H. apply andb_true_iff in H as [Hx Ha]. cbn. apply negb_true_iff in Hx. rewrite Hx, (IH _ _ Ha Hc). reflexivity.
Qed.
Lemma strtok_nil dl : strtok dl [] = None.
Proof. reflexivity. Qed.
Lemma strtok_clean_end dl a : a <> [] -> clean dl a = true -> strtok dl a = Some (a, []).
Proof.
  intros N H. unfold strtok. destruct a as [|c t]; [contradiction|].
  pose proof H as H'. cbn in H'. apply andb_true_iff in H' as [Hc _]. apply negb_true_iff in Hc.
  rewrite skipb_clean by exact Hc. rewrite spand_clean_end by exact H. reflexivity.
Qed.
Lemma strtok_clean_delim dl a c r : a <> [] -> clean dl a = true -> dl c = true -> strtok dl (a ++ c :: r) = Some (a, r).
Proof.
  intros N H Hd. unfold strtok. destruct a as [|x t]; [contradiction|].
  pose proof H as H'. cbn in H'. apply andb_true_iff in H' as [Hx _]. apply negb_true_iff in Hx.
  cbn [app]. rewrite skipb_clean by exact Hx. change (x :: t ++ c :: r) with ((x :: t) ++ c :: r).
  rewrite spand_clean_delim by assumption. reflexivity.
Qed.

Lemma cut0_clean : forall s, allb (fun c => negb (c =? 0)) s = true -> cut0 s = s.
Proof.
  induction s as [|c s IH]; intro H; [reflexivity|].
  cbn in H. apply andb_true_iff in H as [Hc Hs]. cbn. apply negb_true_iff in Hc. rewrite Hc, (IH Hs). reflexivity.
Qed.

(* ------------------------------------------------------------------ lines *)
Definition no_nl (s:text) : bool := allb (fun c => negb (c =? 10)) s.
Lemma split_nl_line : forall a rest cur, no_nl a = true -> split_nl (a ++ 10 :: rest) cur = (rev cur ++ a) :: split_nl rest [].
Proof.
  induction a as [|c a IH]; intros rest cur H.
  - cbn. rewrite app_nil_r. reflexivity.
  - cbn in H. apply andb_true_iff in H as [Hc Ha]. apply negb_true_iff in Hc. cbn [app split_nl]. rewrite Hc.
    rewrite IH by exact Ha. cbn [rev]. rewrite <- app_assoc. reflexivity.
Qed.
(* processing a text line by line from a given state *)
Definition run_gen (vals:vtype -> text -> list dvalue) (T:tables) (st:lstate) (s:text) : lstate :=
  fold_left (load_line_gen vals T) (split_nl s []) st.
Lemma run_gen_line vals T st a rest : no_nl a = true -> run_gen vals T st (a ++ 10 :: rest) = run_gen vals T (load_line_gen vals T st a) rest.
Proof. intro H. unfold run_gen. rewrite split_nl_line by exact H. reflexivity. Qed.
Lemma load_line_gen_empty vals T st : load_line_gen vals T st [] = st.
Proof. reflexivity. Qed.
Lemma run_gen_nil vals T st : run_gen vals T st [] = st.
Proof. reflexivity. Qed.
Definition run : tables -> lstate -> text -> lstate := run_gen legacy_values.
Lemma run_line T st a rest : no_nl a = true -> run T st (a ++ 10 :: rest) = run T (load_line T st a) rest.
Proof. apply run_gen_line. Qed.
Lemma load_line_empty T st : load_line T st [] = st.
Proof. reflexivity. Qed.
Lemma run_nil T st : run T st [] = st.
Proof. reflexivity. Qed.

(* ------------------------------------------------------------------ one line of bufr_load_template *)
Definition nonzero (s:text) : bool := allb (fun c => negb (c =? 0)) s.
Definition tokchar (c:Z) : bool := negb (dl_tab_nl_comma_eq c) && negb (c =? 0).

Lemma zchar_props c : zchar c = true ->
  dl_sp_tab_nl_comma_eq c = false /\ dl_tab_nl_comma_eq c = false /\ dl_sp_eq_tab_nl c = false /\ (c =? 0) = false /\ (c =? 10) = false.
Proof. unfold zchar, isdigit, dl_sp_tab_nl_comma_eq, dl_tab_nl_comma_eq, dl_sp_eq_tab_nl. lia. Qed.
Lemma print_Z_clean1 z : clean dl_sp_tab_nl_comma_eq (print_Z z) = true.
Proof. eapply allb_impl; [|apply print_Z_zchar]. intros c H. apply zchar_props in H. apply negb_true_iff. tauto. Qed.
Lemma print_Z_clean2 z : clean dl_tab_nl_comma_eq (print_Z z) = true.
Proof. eapply allb_impl; [|apply print_Z_zchar]. intros c H. apply zchar_props in H. apply negb_true_iff. tauto. Qed.
Lemma print_Z_cleanE z : clean dl_sp_eq_tab_nl (print_Z z) = true.
Proof. eapply allb_impl; [|apply print_Z_zchar]. intros c H. apply zchar_props in H. apply negb_true_iff. tauto. Qed.
Lemma print_Z_nonzero z : nonzero (print_Z z) = true.
Proof. eapply allb_impl; [|apply print_Z_zchar]. intros c H. apply zchar_props in H. apply negb_true_iff. tauto. Qed.
Lemma print_Z_no_nl z : no_nl (print_Z z) = true.
Proof. eapply allb_impl; [|apply print_Z_zchar]. intros c H. apply zchar_props in H. apply negb_true_iff. tauto. Qed.
Lemma print_Z_tokchar z : allb tokchar (print_Z z) = true.
Proof. eapply allb_impl; [|apply print_Z_zchar]. intros c H. apply zchar_props in H. unfold tokchar. apply andb_true_iff. split; apply negb_true_iff; tauto. Qed.
Lemma print_Z_head z : 0 <= z -> exists c t, print_Z z = c :: t /\ isdigit c = true.
Proof. intro H. unfold print_Z. replace (z <? 0) with false by lia. apply dec_head. Qed.

Lemma strtok_skip dl c s : dl c = true -> strtok dl (c :: s) = strtok dl s.
Proof. intro H. unfold strtok. cbn [skipb]. rewrite H. reflexivity. Qed.

Lemma load_line_gen_comment vals T st x : load_line_gen vals T st (35 :: x) = st.
Proof. reflexivity. Qed.
Lemma load_line_comment T st x : load_line T st (35 :: x) = st.
Proof. reflexivity. Qed.

Lemma load_line_gen_edition vals T st ed : 0 <= ed < 2 ^ 31 ->
  load_line_gen vals T st (s_BUFR_EDITION_eq ++ print_Z ed) = mkL ed (l_seq st).
Proof.
  intro Hed. unfold load_line_gen.
  rewrite cut0_clean.
  2:{ unfold nonzero. rewrite allb_app. fold (nonzero (print_Z ed)). rewrite print_Z_nonzero. reflexivity. }
  unfold s_BUFR_EDITION_eq. cbn [app]. change ((66 =? 35) || (66 =? 42)) with false. cbv iota.
  change (starts s_LOCAL_TABLEB (66 :: 85 :: 70 :: 82 :: 95 :: 69 :: 68 :: 73 :: 84 :: 73 :: 79 :: 78 :: 61 :: print_Z ed)) with false.
  change (starts s_MASTER_TABLEB (66 :: 85 :: 70 :: 82 :: 95 :: 69 :: 68 :: 73 :: 84 :: 73 :: 79 :: 78 :: 61 :: print_Z ed)) with false.
  change (starts s_LOCAL_TABLED (66 :: 85 :: 70 :: 82 :: 95 :: 69 :: 68 :: 73 :: 84 :: 73 :: 79 :: 78 :: 61 :: print_Z ed)) with false.
  change (starts s_MASTER_TABLED (66 :: 85 :: 70 :: 82 :: 95 :: 69 :: 68 :: 73 :: 84 :: 73 :: 79 :: 78 :: 61 :: print_Z ed)) with false.
  change (starts s_BUFR_EDITION (66 :: 85 :: 70 :: 82 :: 95 :: 69 :: 68 :: 73 :: 84 :: 73 :: 79 :: 78 :: 61 :: print_Z ed)) with true.
  cbv iota. cbn [orb skipn Z.to_nat Pos.to_nat Pos.iter_op Nat.add].
  change (skipn 12 (66 :: 85 :: 70 :: 82 :: 95 :: 69 :: 68 :: 73 :: 84 :: 73 :: 79 :: 78 :: 61 :: print_Z ed)) with (61 :: print_Z ed).
  rewrite strtok_skip by reflexivity.
  rewrite strtok_clean_end by (apply print_Z_nonempty || apply print_Z_cleanE).
  rewrite atoi_print_Z by lia. reflexivity.
Qed.
Lemma load_line_edition T st ed : 0 <= ed < 2 ^ 31 ->
  load_line T st (s_BUFR_EDITION_eq ++ print_Z ed) = mkL ed (l_seq st).
Proof. apply load_line_gen_edition. Qed.

(* a line that starts with a digit is neither a comment nor a directive: it is read as a descriptor line *)
Definition item_line_gen (vals:vtype -> text -> list dvalue) (T:tables) (st:lstate) (line:text) : lstate :=
  match strtok dl_sp_tab_nl_comma_eq line with
  | None => st
  | Some (tok, r) =>
    let d := atoi tok in
    let ty := vtype_of T d in
    let vs :=
      match strtok dl_sp_tab_nl_comma_eq r with
      | Some (k, r2) => if text_eqb k s_VALUE then vals ty r2 else []
      | None => []
      end in
    mkL (l_ed st) (mkItem d vs :: l_seq st)
  end.
Definition item_line : tables -> lstate -> text -> lstate := item_line_gen legacy_values.

Lemma load_line_gen_digit vals T st c t : isdigit c = true -> nonzero (c :: t) = true ->
  load_line_gen vals T st (c :: t) = item_line_gen vals T st (c :: t).
Proof.
  intros Hc Hz. unfold load_line_gen. rewrite cut0_clean by exact Hz.
  assert ((c =? 35) || (c =? 42) = false) as -> by (unfold isdigit in Hc; lia).
  assert (H1 : starts s_LOCAL_TABLEB (c :: t) = false)
    by (unfold s_LOCAL_TABLEB; cbn [starts]; assert (76 =? c = false) as -> by (unfold isdigit in Hc; lia); reflexivity).
  assert (H2 : starts s_MASTER_TABLEB (c :: t) = false)
    by (unfold s_MASTER_TABLEB; cbn [starts]; assert (77 =? c = false) as -> by (unfold isdigit in Hc; lia); reflexivity).
  assert (H3 : starts s_LOCAL_TABLED (c :: t) = false)
    by (unfold s_LOCAL_TABLED; cbn [starts]; assert (76 =? c = false) as -> by (unfold isdigit in Hc; lia); reflexivity).
  assert (H4 : starts s_MASTER_TABLED (c :: t) = false)
    by (unfold s_MASTER_TABLED; cbn [starts]; assert (77 =? c = false) as -> by (unfold isdigit in Hc; lia); reflexivity).
  assert (H5 : starts s_BUFR_EDITION (c :: t) = false)
    by (unfold s_BUFR_EDITION; cbn [starts]; assert (66 =? c = false) as -> by (unfold isdigit in Hc; lia); reflexivity).
  rewrite H1, H2, H3, H4, H5. reflexivity.
Qed.
Lemma load_line_digit T st c t : isdigit c = true -> nonzero (c :: t) = true ->
  load_line T st (c :: t) = item_line T st (c :: t).
Proof. apply load_line_gen_digit. Qed.

(* "<descriptor>" *)
Lemma load_line_gen_desc vals T st d : 0 <= d < 2 ^ 31 ->
  load_line_gen vals T st (print_Z d) = mkL (l_ed st) (mkItem d [] :: l_seq st).
Proof.
  intro Hd. destruct (print_Z_head d) as (c & t & E & Hc); [lia|].
  pose proof (print_Z_nonzero d) as Hz. pose proof (print_Z_clean1 d) as Hcl. pose proof (print_Z_nonempty d) as Hne.
  pose proof (atoi_print_Z d) as Ha.
  rewrite E in *. rewrite load_line_gen_digit by assumption.
  unfold item_line_gen. rewrite strtok_clean_end by assumption. rewrite Ha by lia. reflexivity.
Qed.
Lemma load_line_desc T st d : 0 <= d < 2 ^ 31 ->
  load_line T st (print_Z d) = mkL (l_ed st) (mkItem d [] :: l_seq st).
Proof. apply load_line_gen_desc. Qed.

(* "<descriptor>,VALUE=<token>" *)
Lemma load_line_desc_value T st d txt : 0 <= d < 2 ^ 31 -> txt <> [] -> allb tokchar txt = true ->
  load_line T st (print_Z d ++ s_cVALUE ++ txt) = mkL (l_ed st) (mkItem d [parse_val (vtype_of T d) txt] :: l_seq st).
Proof.
  intros Hd Hne Htk.
  assert (Hcl2 : clean dl_tab_nl_comma_eq txt = true).
  { eapply allb_impl; [|exact Htk]. intros c H. unfold tokchar in H. apply andb_true_iff in H. tauto. }
  assert (Hnz : nonzero txt = true).
  { eapply allb_impl; [|exact Htk]. intros c H. unfold tokchar in H. apply andb_true_iff in H. tauto. }
  destruct (print_Z_head d) as (c & t & E & Hc); [lia|].
  assert (Hz : nonzero (print_Z d ++ s_cVALUE ++ txt) = true).
  { unfold nonzero. rewrite !allb_app. fold (nonzero (print_Z d)). fold (nonzero txt). rewrite print_Z_nonzero, Hnz. reflexivity. }
  pose proof (print_Z_clean1 d) as Hcl. pose proof (print_Z_nonempty d) as Hpn. pose proof (atoi_print_Z d) as Ha.
  revert Hz. rewrite E in *. cbn [app]. intro Hz. rewrite load_line_digit by assumption.
  unfold item_line, item_line_gen. change (c :: t ++ s_cVALUE ++ txt) with ((c :: t) ++ 44 :: (s_VALUE ++ 61 :: txt)).
  rewrite strtok_clean_delim by (assumption || reflexivity).
  rewrite Ha by lia.
  rewrite strtok_clean_delim by (discriminate || reflexivity).
  change (text_eqb s_VALUE s_VALUE) with true. cbv iota.
  unfold legacy_values. rewrite strtok_clean_end by assumption. reflexivity.
Qed.

(* ------------------------------------------------------------------ the printed form of a FLT64 is one clean token *)
Definition fchar (c:Z) : bool :=
  isdigit c || (c =? 43) || (c =? 45) || (c =? 46) || (c =? 69) || (c =? 77) || (c =? 83) || (c =? 78) || (c =? 71).
Lemma isdigit_fchar c : isdigit c = true -> fchar c = true.
Proof. unfold fchar. intros ->. reflexivity. Qed.
Lemma fchar_tokchar c : fchar c = true -> tokchar c = true.
Proof. unfold fchar, isdigit, tokchar, dl_tab_nl_comma_eq. lia. Qed.
Lemma zchar_tokchar c : zchar c = true -> tokchar c = true.
Proof. unfold zchar, isdigit, tokchar, dl_tab_nl_comma_eq. lia. Qed.
Lemma allb_rev (p:Z -> bool) l : allb p (rev l) = allb p l.
Proof.
  apply eq_true_iff_eq. rewrite !forallb_forall. split; intros H x Hx; apply H; [apply in_rev in Hx | apply in_rev]; assumption.
Qed.
Lemma strip0_allb (p:Z -> bool) : forall r, allb p r = true -> allb p (strip0 r) = true.
Proof.
  induction r as [|c r IH]; intro H; [reflexivity|]. cbn [strip0]. destruct (c =? 48); [|exact H].
  apply IH. cbn in H. apply andb_true_iff in H. tauto.
Qed.
Lemma dec_fchar n : allb fchar (dec n) = true.
Proof. eapply allb_impl; [apply isdigit_fchar | apply dec_digits]. Qed.

Lemma print_f_fchar m e : allb fchar (print_f m e) = true.
Proof.
  unfold print_f. destruct (frac_of m e) as [n0 d0].
  set (fr := rev (strip0 (rev (fixed_digits 6 _)))).
  assert (Hfr : allb fchar fr = true).
  { unfold fr. rewrite allb_rev. apply strip0_allb. rewrite allb_rev.
    eapply allb_impl; [apply isdigit_fchar | apply fixed_digits_digits]. }
  rewrite allb_app, dec_fchar. destruct fr as [|c t]; [reflexivity|]. cbn [forallb andb] in *. rewrite Hfr. reflexivity.
Qed.
Lemma print_f_nonempty m e : print_f m e <> [].
Proof.
  unfold print_f. destruct (frac_of m e) as [n0 d0]. intro H. apply app_eq_nil in H as [H _]. exact (dec_nonempty _ H).
Qed.
Lemma print_e_fchar m e : allb fchar (print_e m e) = true.
Proof.
  unfold print_e. destruct (m =? 0); [reflexivity|].
  destruct (frac_of (Z.abs m) e) as [n d].
  set (k1 := up10 8 n d _).
  destruct (scale10 n d (k1 - 14)) as [a b].
  destruct (10 ^ 15 <=? rhe a b).
  - rewrite !allb_app. set (q := rhe a b / 10). set (k := k1 + 1).
    pose proof (fixed_digits_digits 15 q) as Hd.
    replace (allb fchar (if m <? 0 then [45] else [])) with true by (destruct (m <? 0); reflexivity).
    replace (allb fchar (if k <? 0 then [45] else [43])) with true by (destruct (k <? 0); reflexivity).
    replace (allb fchar (if Z.abs k <? 10 then [48] else [])) with true by (destruct (Z.abs k <? 10); reflexivity).
    rewrite dec_fchar.
    destruct (fixed_digits 15 q) as [|c t]; [reflexivity|].
    cbn [forallb] in *. apply andb_true_iff in Hd as [Hc Ht].
    rewrite (isdigit_fchar _ Hc). rewrite (allb_impl isdigit fchar t isdigit_fchar Ht). reflexivity.
  - rewrite !allb_app. set (q := rhe a b). set (k := k1).
    pose proof (fixed_digits_digits 15 q) as Hd.
    replace (allb fchar (if m <? 0 then [45] else [])) with true by (destruct (m <? 0); reflexivity).
    replace (allb fchar (if k <? 0 then [45] else [43])) with true by (destruct (k <? 0); reflexivity).
    replace (allb fchar (if Z.abs k <? 10 then [48] else [])) with true by (destruct (Z.abs k <? 10); reflexivity).
    rewrite dec_fchar.
    destruct (fixed_digits 15 q) as [|c t]; [reflexivity|].
    cbn [forallb] in *. apply andb_true_iff in Hd as [Hc Ht].
    rewrite (isdigit_fchar _ Hc). rewrite (allb_impl isdigit fchar t isdigit_fchar Ht). reflexivity.
Qed.
Lemma print_e_nonempty m e : print_e m e <> [].
Proof.
  unfold print_e. destruct (m =? 0); [discriminate|].
  destruct (frac_of (Z.abs m) e) as [n d].
  set (k1 := up10 8 n d _).
  destruct (scale10 n d (k1 - 14)) as [a b].
  destruct (10 ^ 15 <=? rhe a b); intro H; apply app_eq_nil in H as [_ H]; apply app_eq_nil in H as [_ H]; discriminate.
Qed.
Lemma print_flt_fchar m e : allb fchar (print_flt m e) = true.
Proof.
  unfold print_flt. destruct ((m =? dbl_max_m) && (e =? dbl_max_e)); [reflexivity|].
  destruct (dy_ltb m e one_e_minus5_m one_e_minus5_e || dy_ltb 2147483647 0 m e); [apply print_e_fchar | apply print_f_fchar].
Qed.
Lemma print_flt_nonempty m e : print_flt m e <> [].
Proof.
  unfold print_flt. destruct ((m =? dbl_max_m) && (e =? dbl_max_e)); [discriminate|].
  destruct (dy_ltb m e one_e_minus5_m one_e_minus5_e || dy_ltb 2147483647 0 m e); [apply print_e_nonempty | apply print_f_nonempty].
Qed.

(* ------------------------------------------------------------------ values the format carries *)
Lemma carried_value_token ty v : carried_value ty v ->
  exists txt, print_value v = Some txt /\ txt <> [] /\ allb tokchar txt = true /\ parse_val ty txt = v.
Proof.
  destruct ty, v; cbn [carried_value]; try contradiction.
  - intros [Hn Hr]. exists (print_Z z). cbn [print_value]. replace (z =? -1) with false by lia.
    repeat split; [apply print_Z_nonempty | apply print_Z_tokchar |]. cbn [parse_val]. rewrite atoi_print_Z by lia. reflexivity.
  - intros [Hn Hr]. exists (print_Z z). cbn [print_value]. replace (z =? -1) with false by lia.
    repeat split; [apply print_Z_nonempty | apply print_Z_tokchar |]. cbn [parse_val]. rewrite atol_print_Z by lia. reflexivity.
  - intro H. exists (print_flt m e). cbn [print_value]. repeat split; [apply print_flt_nonempty | | exact H].
    eapply allb_impl; [apply fchar_tokchar | apply print_flt_fchar].
Qed.

Lemma tokchar_no_nl txt : allb tokchar txt = true -> no_nl txt = true.
Proof. apply allb_impl. intro c. unfold tokchar, dl_tab_nl_comma_eq. lia. Qed.

Lemma item_eta it : mkItem (i_desc it) (i_vals it) = it.
Proof. destruct it; reflexivity. Qed.

(* one item of the saved text, read back *)
Lemma run_item T st it rest : 0 <= i_desc it < 2 ^ 31 -> carried_item T it ->
  run T st (save_item it ++ rest) = run T (mkL (l_ed st) (it :: l_seq st)) rest.
Proof.
  intros Hd Hc. unfold carried_item in Hc. unfold save_item.
  destruct (i_vals it) as [|v [|v2 vs]] eqn:EV; [| |contradiction].
  - replace ((print_Z (i_desc it) ++ [] ++ [10]) ++ rest) with (print_Z (i_desc it) ++ 10 :: rest)
      by (rewrite <- !app_assoc; reflexivity).
    rewrite run_line by apply print_Z_no_nl.
    rewrite load_line_desc by exact Hd. rewrite <- EV, item_eta. reflexivity.
  - destruct (carried_value_token _ _ Hc) as (txt & Hp & Hne & Htk & Hv).
    cbn [length Z.of_nat Pos.of_succ_nat]. change (1 <? 1) with false. cbv iota.
    cbn [save_vals]. rewrite Hp. change ((0 <? 0) && (0 + 1 <? 1)) with false. cbv iota.
    rewrite !app_nil_r.
    replace ((print_Z (i_desc it) ++ (s_cVALUE ++ txt ++ [10]) ++ [10]) ++ rest)
      with ((print_Z (i_desc it) ++ s_cVALUE ++ txt) ++ 10 :: [] ++ 10 :: rest)
      by (rewrite <- !app_assoc; reflexivity).
    rewrite run_line.
    2:{ unfold no_nl. rewrite !allb_app. fold (no_nl (print_Z (i_desc it))). fold (no_nl txt).
        rewrite print_Z_no_nl, (tokchar_no_nl _ Htk). reflexivity. }
    rewrite load_line_desc_value by assumption.
    rewrite run_line by reflexivity. rewrite load_line_empty.
    rewrite Hv, <- EV, item_eta. reflexivity.
Qed.

Lemma run_items T : forall items st rest,
  Forall (fun it => 0 <= i_desc it < 2 ^ 31) items -> Forall (carried_item T) items ->
  run T st (concat (map save_item items) ++ rest) = run T (mkL (l_ed st) (rev items ++ l_seq st)) rest.
Proof.
  induction items as [|it items IH]; intros st rest Hd Hc.
  - destruct st; reflexivity.
  - inversion Hd; subst. inversion Hc; subst. cbn [map concat]. rewrite <- app_assoc.
    rewrite run_item by assumption. rewrite IH by assumption. cbn [l_ed l_seq rev]. rewrite <- app_assoc. reflexivity.
Qed.

Lemma is_descriptor_range d : is_descriptor d = true -> 0 <= d < 2 ^ 31.
Proof. unfold is_descriptor, dF. intro H. assert (0 <= d) by lia. assert (d / 100000 <= 3) by lia. lia. Qed.

(* the text of a template whose defaults the format carries parses back to the template *)
Lemma save_text_shape t :
  save_text t = (s_head1 ++ print_Z (Z.of_nat (length (t_items t))) ++ s_head2) ++ 10 ::
                (s_BUFR_EDITION_eq ++ print_Z (t_ed t)) ++ 10 :: [35] ++ 10 :: concat (map save_item (t_items t)) ++ [35] ++ 10 :: [].
Proof. unfold save_text, s_hash. rewrite <- !app_assoc. reflexivity. Qed.

Theorem parse_save T t : 0 <= t_ed t < 2 ^ 31 -> Forall (fun it => 0 <= i_desc it < 2 ^ 31) (t_items t) -> carried T t ->
  parse_lines T (save t) = t.
Proof.
  intros Hed Hd Hc. unfold parse_lines, parse_lines_gen, save, load_lines_gen. fold (run_gen legacy_values T (mkL 4 []) (save_text t)). fold (run T (mkL 4 []) (save_text t)).
  rewrite save_text_shape.
  rewrite run_line.
  2:{ unfold no_nl. rewrite !allb_app. fold (no_nl (print_Z (Z.of_nat (length (t_items t))))). rewrite print_Z_no_nl. reflexivity. }
  replace (load_line T (mkL 4 []) (s_head1 ++ print_Z (Z.of_nat (length (t_items t))) ++ s_head2)) with (mkL 4 []) by reflexivity.
  rewrite run_line.
  2:{ unfold no_nl. rewrite !allb_app. fold (no_nl (print_Z (t_ed t))). rewrite print_Z_no_nl. reflexivity. }
  rewrite load_line_edition by exact Hed. cbn [l_seq].
  rewrite run_line by reflexivity. rewrite load_line_comment.
  rewrite run_items by assumption. cbn [l_ed l_seq].
  rewrite run_line by reflexivity. rewrite load_line_comment. rewrite run_nil. cbn [l_ed l_seq].
  rewrite app_nil_r, rev_involutive. destruct t; reflexivity.
Qed.

(* ------------------------------------------------------------------ save then load *)
Lemma finalize_ok_range fuel T ds : finalize_ok fuel T ds = true -> Forall (fun d => 0 <= d < 2 ^ 31) ds.
Proof.
  unfold finalize_ok. intro H. apply andb_true_iff in H as [H _]. rewrite forallb_forall in H.
  apply Forall_forall. intros d Hd. apply is_descriptor_range, H, Hd.
Qed.

Theorem save_load_id fuel T t : wf_template fuel T t -> carried T t -> load fuel T (save t) = Ok t.
Proof.
  intros [Hf Hed] Hc. unfold load, load_gen. fold (parse_lines T (save t)). rewrite parse_save; [rewrite Hf; reflexivity | exact Hed | | exact Hc].
  apply finalize_ok_range in Hf. unfold descs in Hf. rewrite Forall_map in Hf. exact Hf.
Qed.
Corollary save_load_text_id fuel T t : wf_template fuel T t -> carried T t -> load_text fuel T (save_text t) = Ok t.
Proof. apply save_load_id. Qed.

(* ------------------------------------------------------------------ copy *)
Lemma repeat_0 {A} (x:A) : repeat x 0 = [].
Proof. reflexivity. Qed.
Lemma set_string_id s : forallb (fun c => negb (c =? 0)) s = true -> set_string s (Z.of_nat (length s)) = s.
Proof.
  intro H. unfold set_string. rewrite cut0_clean by exact H. rewrite Nat2Z.id, firstn_all, Nat.sub_diag. cbn [repeat]. apply app_nil_r.
Qed.
Lemma dup_value_id v : no_nul_value v -> dup_value v = v.
Proof. destruct v; cbn; try reflexivity. intro H. rewrite set_string_id by exact H. reflexivity. Qed.
Lemma dup_item_id it : Forall no_nul_value (i_vals it) -> dup_item it = it.
Proof.
  intro H. unfold dup_item. replace (map dup_value (i_vals it)) with (i_vals it); [apply item_eta|].
  induction H as [|v vs Hv _ IH]; [reflexivity|]. cbn [map]. rewrite dup_value_id by exact Hv. rewrite <- IH. reflexivity.
Qed.
Theorem copy_id fuel T t : wf_template fuel T t -> no_nul t -> copy fuel T t = Ok t.
Proof.
  intros [Hf _] Hn. unfold copy.
  replace (map dup_item (t_items t)) with (t_items t).
  - replace (mkTmpl (t_ed t) (t_items t)) with t by (destruct t; reflexivity). rewrite Hf. reflexivity.
  - unfold no_nul in Hn. induction Hn as [|it its Hi _ IH]; [reflexivity|]. cbn [map]. rewrite dup_item_id by exact Hi. rewrite <- IH. reflexivity.
Qed.

(* ------------------------------------------------------------------ compare *)
Lemma zlist_eqb_refl : forall l, zlist_eqb l l = true.
Proof. induction l as [|x l IH]; [reflexivity|]. cbn. rewrite Z.eqb_refl, IH. reflexivity. Qed.
Lemma zlist_eqb_sym : forall a b, zlist_eqb a b = zlist_eqb b a.
Proof.
  induction a as [|x a IH]; destruct b as [|y b]; try reflexivity. cbn. rewrite IH, Z.eqb_sym. reflexivity.
Qed.
Lemma zlist_eqb_eq : forall a b, zlist_eqb a b = true -> a = b.
Proof.
  induction a as [|x a IH]; destruct b as [|y b]; try discriminate; [reflexivity|].
  cbn. intro H. apply andb_true_iff in H as [H1 H2]. apply Z.eqb_eq in H1. subst. f_equal. apply IH, H2.
Qed.

(* whatever the regulation-level static expansion accepts, the marker-keeping expansion (gabarit) also produces *)
Lemma sexpand_gexpand_ok : forall f T ds l, sexpand f T ds = Ok l -> exists g, gexpand f T ds = Ok g.
Proof.
  induction f as [|f IH]; intros T ds l H; [discriminate|].
  cbn [sexpand gexpand] in *. destruct ds as [|d rest]; [exists []; reflexivity|].
  destruct (dF d =? 3).
  - destruct (lookupD T d) as [seq|]; [|discriminate]. destruct (IH _ _ _ H) as [g Hg]. rewrite Hg. cbn [bind]. eexists; reflexivity.
  - destruct (dF d =? 1).
    + destruct (dY d =? 0).
      * destruct rest as [|c rest']; [discriminate|]. destruct (is_factor c); [|discriminate].
        destruct (length rest' <? Z.to_nat (dX d))%nat; [discriminate|].
        destruct (sexpand f T (skipn (Z.to_nat (dX d)) rest')) as [tl|e] eqn:E; [|discriminate].
        destruct (IH _ _ _ E) as [g Hg]. rewrite Hg. cbn [bind]. eexists; reflexivity.
      * destruct (length rest <? Z.to_nat (dX d))%nat; [discriminate|].
        destruct (IH _ _ _ H) as [g Hg]. rewrite Hg. cbn [bind]. eexists; reflexivity.
    + destruct (sexpand f T rest) as [tl|e] eqn:E; [|discriminate].
      destruct (IH _ _ _ E) as [g Hg]. rewrite Hg. cbn [bind]. eexists; reflexivity.
Qed.
Lemma finalize_ok_gexpand fuel T ds : finalize_ok fuel T ds = true -> exists g, gexpand fuel T ds = Ok g.
Proof.
  unfold finalize_ok, accepts. intro H. apply andb_true_iff in H as [_ H]. apply andb_true_iff in H as [_ H].
  destruct (sexpand fuel T ds) as [l|e] eqn:E; [|discriminate]. eapply sexpand_gexpand_ok; exact E.
Qed.

Theorem compare_refl fuel T t : wf_template fuel T t -> tcompare fuel T t t = 0.
Proof.
  intros [Hf _]. destruct (finalize_ok_gexpand _ _ _ Hf) as [g Hg]. unfold tcompare. rewrite Hg, zlist_eqb_refl. reflexivity.
Qed.
Theorem compare_sym fuel T t1 t2 : tcompare fuel T t1 t2 = tcompare fuel T t2 t1.
Proof.
  unfold tcompare. destruct (gexpand fuel T (descs t1)) as [a|e1], (gexpand fuel T (descs t2)) as [b|e2]; try reflexivity.
  rewrite zlist_eqb_sym. reflexivity.
Qed.
(* the comparison looks at the descriptors only: two templates with the same Section 3 list compare equal whatever their
   editions and default values *)
Theorem compare_descs_only fuel T t1 t2 : wf_template fuel T t1 -> descs t2 = descs t1 -> tcompare fuel T t1 t2 = 0.
Proof.
  intros [Hf _] E. destruct (finalize_ok_gexpand _ _ _ Hf) as [g Hg]. unfold tcompare. rewrite E, Hg, zlist_eqb_refl. reflexivity.
Qed.
(* and a result of 0 means the expanded lists are the same *)
Theorem compare_0_expansion fuel T t1 t2 : tcompare fuel T t1 t2 = 0 ->
  exists g, gexpand fuel T (descs t1) = Ok g /\ gexpand fuel T (descs t2) = Ok g.
Proof.
  unfold tcompare. destruct (gexpand fuel T (descs t1)) as [a|e1]; [|discriminate].
  destruct (gexpand fuel T (descs t2)) as [b|e2]; [|discriminate].
  destruct (zlist_eqb a b) eqn:E; [|discriminate]. intros _. apply zlist_eqb_eq in E. subst. exists b. split; reflexivity.
Qed.

(* ------------------------------------------------------------------ refusal *)
(* a descriptor no table knows: an element that is not local, or a sequence *)
Definition unknown_desc (T:tables) (d:Z) : Prop :=
  (dF d = 0 /\ lookupB T d = None /\ is_local d = false) \/ (dF d = 3 /\ lookupD T d = None).

Lemma in_rep {A} (x:A) l : forall n, (0 < n)%nat -> In x l -> In x (rep n l).
Proof. intros n Hn H. destruct n as [|n]; [lia|]. cbn. apply in_or_app. left. exact H. Qed.

Lemma sexpand_keeps_unknown : forall f T ds l d, sexpand f T ds = Ok l -> unknown_desc T d -> In d ds -> In d l.
Proof.
  induction f as [|f IH]; intros T ds l d H U Hin; [discriminate|].
  cbn [sexpand] in H. destruct ds as [|d0 rest]; [contradiction|].
  assert (HF : dF d = 0 \/ dF d = 3) by (destruct U as [[? _]|[? _]]; tauto).
  destruct (dF d0 =? 3) eqn:F3.
  - apply Z.eqb_eq in F3. destruct (lookupD T d0) as [seq|] eqn:LD; [|discriminate].
    destruct Hin as [->|Hin].
    + destruct U as [[U0 _]|[_ U3]]; [lia | congruence].
    + eapply IH; [exact H | exact U | apply in_or_app; right; exact Hin].
  - apply Z.eqb_neq in F3. destruct (dF d0 =? 1) eqn:F1.
    + apply Z.eqb_eq in F1. assert (Hne : d <> d0) by (intros ->; lia).
      destruct Hin as [E|Hin]; [congruence|].
      destruct (dY d0 =? 0) eqn:Y0.
      * destruct rest as [|c rest']; [contradiction|]. destruct (is_factor c); [|discriminate].
        destruct (length rest' <? Z.to_nat (dX d0))%nat; [discriminate|].
        destruct (sexpand f T (skipn (Z.to_nat (dX d0)) rest')) as [tl|e] eqn:E; [|discriminate].
        cbn [bind] in H. inversion H; subst l. right.
        destruct Hin as [->|Hin]; [left; reflexivity|]. right.
        rewrite <- (firstn_skipn (Z.to_nat (dX d0)) rest') in Hin. apply in_app_or in Hin as [Hin|Hin].
        -- apply in_or_app. left. exact Hin.
        -- apply in_or_app. right. eapply IH; eassumption.
      * apply Z.eqb_neq in Y0. destruct (length rest <? Z.to_nat (dX d0))%nat; [discriminate|].
        eapply IH; [exact H | exact U |].
        rewrite <- (firstn_skipn (Z.to_nat (dX d0)) rest) in Hin. apply in_app_or in Hin as [Hin|Hin].
        -- apply in_or_app. left. apply in_rep; [|exact Hin]. unfold dY in *. assert (0 <= d0 mod 1000) by (apply Z.mod_pos_bound; lia). lia.
        -- apply in_or_app. right. exact Hin.
    + destruct (sexpand f T rest) as [tl|e] eqn:E; [|discriminate]. cbn [bind] in H. inversion H; subst l.
      destruct Hin as [->|Hin]; [left; reflexivity|]. right. eapply IH; eassumption.
Qed.

Lemma all_known_rejects_unknown T d : unknown_desc T d -> forall l prev, In d l -> all_known T prev l = false.
Proof.
  intro U. induction l as [|x l IH]; intros prev Hin; [contradiction|].
  cbn [all_known]. destruct Hin as [->|Hin].
  - destruct U as [(F0 & LB & LOC)|(F3 & LD)].
    + rewrite F0. change (0 =? 0) with true. cbv iota. rewrite LB, LOC. reflexivity.
    + rewrite F3. change (3 =? 0) with false. change (3 =? 3) with true. cbv iota. rewrite LD. reflexivity.
  - rewrite (IH _ Hin). apply andb_false_r.
Qed.

Theorem accepts_rejects_unknown fuel T ds d : unknown_desc T d -> In d ds -> accepts fuel T ds = false.
Proof.
  intros U Hin. unfold accepts. destruct (sexpand fuel T ds) as [l|e] eqn:E; [|apply andb_false_r].
  rewrite (all_known_rejects_unknown T d U l 0); [apply andb_false_r|]. eapply sexpand_keeps_unknown; eassumption.
Qed.

(* whatever the lines are, and however the defaults are read: if what they name contains an unknown descriptor, or its
   replication is ill formed, load refuses *)
Theorem load_gen_rejects_unknown vals fuel T lines d :
  unknown_desc T d -> In d (descs (parse_lines_gen vals T lines)) -> load_gen vals fuel T lines = Err Reject.
Proof.
  intros U Hin. unfold load_gen, finalize_ok. rewrite (accepts_rejects_unknown _ _ _ _ U Hin), andb_false_r. reflexivity.
Qed.
Theorem load_gen_rejects_ill_nested vals fuel T lines :
  well_nested (descs (parse_lines_gen vals T lines)) = false -> load_gen vals fuel T lines = Err Reject.
Proof. intro H. unfold load_gen, finalize_ok, accepts. rewrite H. cbn [andb]. rewrite andb_false_r. reflexivity. Qed.
Theorem load_gen_rejects_not_a_descriptor vals fuel T lines d :
  is_descriptor d = false -> In d (descs (parse_lines_gen vals T lines)) -> load_gen vals fuel T lines = Err Reject.
Proof.
  intros Hd Hin. unfold load_gen, finalize_ok.
  assert (forallb is_descriptor (descs (parse_lines_gen vals T lines)) = false) as ->; [|reflexivity].
  apply not_true_is_false. intro H. rewrite forallb_forall in H. rewrite (H _ Hin) in Hd. discriminate.
Qed.
Theorem load_rejects_unknown fuel T lines d :
  unknown_desc T d -> In d (descs (parse_lines T lines)) -> load fuel T lines = Err Reject.
Proof. apply load_gen_rejects_unknown. Qed.
Theorem load_rejects_ill_nested fuel T lines :
  well_nested (descs (parse_lines T lines)) = false -> load fuel T lines = Err Reject.
Proof. apply load_gen_rejects_ill_nested. Qed.
Theorem load_rejects_not_a_descriptor fuel T lines d :
  is_descriptor d = false -> In d (descs (parse_lines T lines)) -> load fuel T lines = Err Reject.
Proof. apply load_gen_rejects_not_a_descriptor. Qed.
(* in terms of texts: the text written for a list of descriptors (no defaults) that names an unknown one is refused *)
Definition plain (ed:Z) (ds:list Z) : template := mkTmpl ed (map (fun d => mkItem d []) ds).
Lemma descs_plain ed ds : descs (plain ed ds) = ds.
Proof. unfold descs, plain. cbn [t_items]. rewrite map_map. cbn [i_desc]. apply map_id. Qed.
Lemma carried_plain T ed ds : carried T (plain ed ds).
Proof. unfold carried, plain. cbn [t_items]. apply Forall_forall. intros it Hin. apply in_map_iff in Hin as (d & <- & _). exact I. Qed.
Theorem load_text_rejects_unknown fuel T ed ds d :
  0 <= ed < 2 ^ 31 -> Forall (fun x => 0 <= x < 2 ^ 31) ds -> unknown_desc T d -> In d ds ->
  load_text fuel T (save_text (plain ed ds)) = Err Reject.
Proof.
  intros Hed Hds U Hin. unfold load_text. fold (save (plain ed ds)). eapply load_rejects_unknown; [exact U|].
  rewrite parse_save; [rewrite descs_plain; exact Hin | exact Hed | | apply carried_plain].
  unfold plain. cbn [t_items]. rewrite Forall_map. cbn [i_desc]. exact Hds.
Qed.
Theorem load_text_rejects_ill_nested fuel T ed ds :
  0 <= ed < 2 ^ 31 -> Forall (fun x => 0 <= x < 2 ^ 31) ds -> well_nested ds = false ->
  load_text fuel T (save_text (plain ed ds)) = Err Reject.
Proof.
  intros Hed Hds W. unfold load_text. fold (save (plain ed ds)). apply load_rejects_ill_nested.
  rewrite parse_save; [rewrite descs_plain; exact W | exact Hed | | apply carried_plain].
  unfold plain. cbn [t_items]. rewrite Forall_map. cbn [i_desc]. exact Hds.
Qed.

(* ------------------------------------------------------------------ character defaults: the opening quote stays in the value *)
Lemma cut0_nonzero : forall s, nonzero (cut0 s) = true.
Proof.
  unfold nonzero. induction s as [|c s IH]; [reflexivity|]. cbn [cut0]. destruct (c =? 0) eqn:E; [reflexivity|].
  cbn [forallb]. rewrite E, IH. reflexivity.
Qed.
Lemma cut0_idem s : cut0 (cut0 s) = cut0 s.
Proof. apply cut0_clean, cut0_nonzero. Qed.

(* whatever follows the opening quote on the line: the first value read starts with the quote *)
Theorem string_default_keeps_quote T st d n x :
  0 <= d < 2 ^ 31 -> vtype_of T d = TString n -> 1 <= n -> nonzero x = true ->
  exists y more, load_line T st (print_Z d ++ s_cVALUE ++ 34 :: x) = mkL (l_ed st) (mkItem d (DStr (34 :: y) :: more) :: l_seq st).
Proof.
  intros Hd Hty Hn Hx.
  destruct (print_Z_head d) as (c & t & E & Hc); [lia|].
  assert (Hz : nonzero (print_Z d ++ s_cVALUE ++ 34 :: x) = true).
  { unfold nonzero. rewrite !allb_app. fold (nonzero (print_Z d)). rewrite print_Z_nonzero. cbn. exact Hx. }
  pose proof (print_Z_clean1 d) as Hcl. pose proof (print_Z_nonempty d) as Hpn. pose proof (atoi_print_Z d) as Ha.
  revert Hz. rewrite E in *. cbn [app]. intro Hz. rewrite load_line_digit by assumption.
  unfold item_line, item_line_gen. change (c :: t ++ s_cVALUE ++ 34 :: x) with ((c :: t) ++ 44 :: (s_VALUE ++ 61 :: 34 :: x)).
  rewrite strtok_clean_delim by (assumption || reflexivity).
  rewrite Ha by lia.
  rewrite strtok_clean_delim by (discriminate || reflexivity).
  change (text_eqb s_VALUE s_VALUE) with true. cbv iota.
  unfold legacy_values. unfold strtok at 1. cbn [skipb]. change (dl_tab_nl_comma_eq 34) with false. cbv iota.
  cbn [spand]. change (dl_tab_nl_comma_eq 34) with false. cbv iota.
  destruct (spand dl_tab_nl_comma_eq x) as [a b].
  rewrite Hty. cbn [parse_val]. unfold set_string. cbn [cut0]. change (34 =? 0) with false. cbv iota.
  destruct (Z.to_nat n) as [|k] eqn:EN; [lia|]. cbn [firstn app].
  eexists. eexists. reflexivity.
Qed.

(* ------------------------------------------------------------------ witnesses on a small table *)
Definition T0 : tables :=
  Fm94.mkT [ (1001, mkB UNum 0 0 7); (1002, mkB UNum 0 0 10); (2001, mkB UCode 0 0 2); (1015, mkB UStr 0 0 160);
             (12001, mkB UNum 1 0 12); (12101, mkB UNum 2 0 16); (6001, mkB UNum 5 (-18000000) 26); (31001, mkB UNum 0 0 8) ]
           [ (301001, [1001; 1002]) ].
Definition blanks (n:nat) : text := repeat 32 n.
(* two defaults on one descriptor: the second lands on a line of its own and is taken for descriptor 0 00 072 *)
Definition w_multi : template := mkTmpl 4 [mkItem 1001 [DInt32 71; DInt32 72]; mkItem 1002 []].
(* ... or, when it happens to be the number of a known descriptor, silently becomes one *)
Definition w_multi2 : template := mkTmpl 4 [mkItem 1001 [DInt32 71; DInt32 2001]; mkItem 1002 []].
Definition w_string : template := mkTmpl 4 [mkItem 1015 [DStr ([65; 66; 67] ++ blanks 17)]].
Definition w_intmissing : template := mkTmpl 4 [mkItem 1001 [DInt32 (-1)]].
(* 179.99999 on 0 06 001 (scale 5): read back as the float 179.99998474 *)
Definition w_float5 : template := mkTmpl 4 [mkItem 6001 [DFlt 6333186624146039 (-45)]].
(* 273.15 on 0 12 101 (scale 2): read back as the float 273.149994, which still quantises to 27315 *)
Definition w_float2 : template := mkTmpl 4 [mkItem 12101 [DFlt 2402652809016115 (-43)]].
(* defaults the format carries: an integer, a float-representable FLT64, a replication count *)
Definition w_good : template :=
  mkTmpl 3 [mkItem 1001 [DInt32 71]; mkItem 101000 []; mkItem 31001 [DInt32 2]; mkItem 12101 [DFlt 1093 (-2)]; mkItem 301001 []].

Ltac fa := repeat first [apply Forall_nil | apply Forall_cons].
Ltac fin := vm_compute; first [exact I | reflexivity | (repeat split; first [discriminate | reflexivity | (let H := fresh in intro H; discriminate H)])].

Lemma w_good_wf : wf_template 100 T0 w_good.
Proof. split; fin. Qed.
Lemma w_good_carried : carried T0 w_good.
Proof. unfold carried, w_good. cbn [t_items]. fa; unfold carried_item; cbn [i_vals i_desc]; fin. Qed.
Lemma w_good_natural : natural T0 w_good.
Proof. unfold natural, w_good. cbn [t_items]. fa; cbn [i_vals i_desc]; fa; fin. Qed.

Lemma w_multi_refused : wf_template 100 T0 w_multi /\ natural T0 w_multi /\ load_text 100 T0 (save_text w_multi) = Err Reject.
Proof.
  split; [split; fin|]. split; [|fin].
  unfold natural, w_multi. cbn [t_items]. fa; cbn [i_vals i_desc]; fa; fin.
Qed.
Lemma w_multi2_different : wf_template 100 T0 w_multi2 /\ natural T0 w_multi2 /\
  load_text 100 T0 (save_text w_multi2) = Ok (mkTmpl 4 [mkItem 1001 []; mkItem 2001 []; mkItem 1002 []]).
Proof.
  split; [split; fin|]. split; [|fin].
  unfold natural, w_multi2. cbn [t_items]. fa; cbn [i_vals i_desc]; fa; fin.
Qed.
Lemma w_string_shifted : wf_template 100 T0 w_string /\ natural T0 w_string /\ no_nul w_string /\
  load_text 100 T0 (save_text w_string) = Ok (mkTmpl 4 [mkItem 1015 [DStr ([34; 65; 66; 67] ++ blanks 16)]]).
Proof.
  split; [split; fin|]. split; [|split; [|fin]].
  - unfold natural, w_string. cbn [t_items]. fa; cbn [i_vals i_desc]; fa; fin.
  - unfold no_nul, w_string. cbn [t_items]. fa; cbn [i_vals]; fa; fin.
Qed.
Lemma w_intmissing_zero : wf_template 100 T0 w_intmissing /\ natural T0 w_intmissing /\
  load_text 100 T0 (save_text w_intmissing) = Ok (mkTmpl 4 [mkItem 1001 [DInt32 0]]).
Proof.
  split; [split; fin|]. split; [|fin].
  unfold natural, w_intmissing. cbn [t_items]. fa; cbn [i_vals i_desc]; fa; fin.
Qed.
Lemma w_float5_requantised : wf_template 100 T0 w_float5 /\ natural T0 w_float5 /\
  exists m' e', load_text 100 T0 (save_text w_float5) = Ok (mkTmpl 4 [mkItem 6001 [DFlt m' e']]) /\
                quant 5 (-18000000) 6333186624146039 (-45) = 35999999 /\ quant 5 (-18000000) m' e' = 35999998.
Proof.
  split; [split; fin|]. split.
  - unfold natural, w_float5. cbn [t_items]. fa; cbn [i_vals i_desc]; fa; fin.
  - eexists. eexists. split; [vm_compute; reflexivity|]. split; vm_compute; reflexivity.
Qed.
Lemma w_float2_same_raw :
  exists m' e', load_text 100 T0 (save_text w_float2) = Ok (mkTmpl 4 [mkItem 12101 [DFlt m' e']]) /\
                (m', e') <> (2402652809016115, -43) /\
                quant 2 0 2402652809016115 (-43) = 27315 /\ quant 2 0 m' e' = 27315.
Proof.
  eexists. eexists. split; [vm_compute; reflexivity|]. split; [discriminate|]. split; vm_compute; reflexivity.
Qed.

(* ------------------------------------------------------------------ the property at full strength, and why the current code does not have it *)
Definition full_statement : Prop :=
  forall fuel T t, wf_template fuel T t -> natural T t -> no_nul t ->
    (exists t', load_text fuel T (save_text t) = Ok t' /\ tcompare fuel T t t' = 0 /\ t_ed t' = t_ed t /\ descs t' = descs t /\
                Forall2 (fun it it' => Forall2 (value_equiv T (i_desc it)) (i_vals it) (i_vals it')) (t_items t) (t_items t'))
    /\ copy fuel T t = Ok t /\ tcompare fuel T t t = 0.
Lemma w_multi_no_nul : no_nul w_multi.
Proof. unfold no_nul, w_multi. cbn [t_items]. fa; cbn [i_vals]; fa; exact I. Qed.
Lemma F2_cons {A B} (R:A -> B -> Prop) x y l l' : Forall2 R (x :: l) (y :: l') -> R x y /\ Forall2 R l l'.
Proof. intro H. inversion H; subst. split; assumption. Qed.
Theorem full_statement_refuted : ~ full_statement.
Proof.
  intro H. destruct w_multi_refused as (W & N & L).
  destruct (H 100%nat T0 w_multi W N w_multi_no_nul) as [(t' & L' & _) _]. rewrite L in L'. discriminate.
Qed.
(* each recorded weakness on its own breaks "same default values", also where the load succeeds *)
Theorem string_default_refuted : exists fuel T t t', wf_template fuel T t /\ natural T t /\ no_nul t /\
  load_text fuel T (save_text t) = Ok t' /\
  ~ Forall2 (fun it it' => Forall2 (value_equiv T (i_desc it)) (i_vals it) (i_vals it')) (t_items t) (t_items t').
Proof.
  destruct w_string_shifted as (W & N & Z0 & L). exists 100%nat, T0, w_string. eexists.
  split; [exact W|]. split; [exact N|]. split; [exact Z0|]. split; [exact L|]. cbn [t_items w_string].
  intro F. apply F2_cons in F as [F1 _]. cbn [i_vals] in F1. apply F2_cons in F1 as [E _]. vm_compute in E. discriminate E.
Qed.
Theorem int_missing_refuted : exists fuel T t t', wf_template fuel T t /\ natural T t /\
  load_text fuel T (save_text t) = Ok t' /\
  ~ Forall2 (fun it it' => Forall2 (value_equiv T (i_desc it)) (i_vals it) (i_vals it')) (t_items t) (t_items t').
Proof.
  destruct w_intmissing_zero as (W & N & L). exists 100%nat, T0, w_intmissing. eexists.
  split; [exact W|]. split; [exact N|]. split; [exact L|]. cbn [t_items w_intmissing].
  intro F. apply F2_cons in F as [F1 _]. cbn [i_vals] in F1. apply F2_cons in F1 as [E _]. vm_compute in E. discriminate E.
Qed.
Theorem float_default_refuted : exists fuel T t t', wf_template fuel T t /\ natural T t /\
  load_text fuel T (save_text t) = Ok t' /\
  ~ Forall2 (fun it it' => Forall2 (value_equiv T (i_desc it)) (i_vals it) (i_vals it')) (t_items t) (t_items t').
Proof.
  destruct w_float5_requantised as (W & N & m' & e' & L & Q1 & Q2). exists 100%nat, T0, w_float5. eexists.
  split; [exact W|]. split; [exact N|]. split; [exact L|]. cbn [t_items w_float5].
  intro F. apply F2_cons in F as [F1 _]. cbn [i_vals] in F1. apply F2_cons in F1 as [E _].
  unfold value_equiv in E. cbn [i_desc] in E. change (lookupB T0 6001) with (Some (mkB UNum 5 (-18000000) 26)) in E.
  cbn [b_scale b_ref] in E. rewrite Q1, Q2 in E. discriminate E.
Qed.
Theorem multi_values_silently_different_refuted : exists fuel T t t', wf_template fuel T t /\ natural T t /\
  load_text fuel T (save_text t) = Ok t' /\ descs t' <> descs t /\ tcompare fuel T t t' = -1.
Proof.
  destruct w_multi2_different as (W & N & L). exists 100%nat, T0, w_multi2. eexists.
  split; [exact W|]. split; [exact N|]. split; [exact L|]. split; [discriminate | vm_compute; reflexivity].
Qed.
