(* BitProof.v — proofs about the executable model BitIO.v (property C11). *)
From Coq Require Import List NArith ZArith Arith Lia Bool.
From V Require Import BitIO.
Import ListNotations.
Local Open Scope N_scope.

(* ====================================================================== *)
(* Definitions used by the statements in Properties_C11.v:
   reader well-formedness, and writing / reading a list of bit fields. *)

Definition RWF (L:nat) (s:rst) : Prop := (rbit s < 8)%nat /\ (cur s <= L)%nat /\ (rbit s <> 0%nat -> (cur s < L)%nat).

Fixpoint write_fields (s:wst) (fs:list (N*nat)) : option wst :=
  match fs with
  | [] => Some s
  | (v,n) :: t => match putbits s v n with Some s1 => write_fields s1 t | None => None end
  end.
Fixpoint read_fields (d:list N) (L:nat) (s:rst) (ws:list nat) : option (list N * rst) :=
  match ws with
  | [] => Some ([], s)
  | n :: t => match getbits d L s n with
              | RRes v 0%Z s1 => match read_fields d L s1 t with Some (vs,s2) => Some (v::vs, s2) | None => None end
              | _ => None
              end
  end.
Definition rst_of_pos (p:nat) : rst := {| cur := p / 8; rbit := p mod 8 |}.

(* ====================================================================== *)
(* Arithmetic helpers *)

Lemma chunk_arith v l t : chunk v l t = (v / 2^(N.of_nat l)) mod 2^(N.of_nat t).
Proof. unfold chunk. rewrite N.land_ones, N.shiftr_div_pow2. reflexivity. Qed.

Lemma take_bits_arith v l t : take_bits v l t = (v / 2^(N.of_nat l)) mod 2^(N.of_nat t).
Proof. unfold take_bits. rewrite N.land_ones, N.shiftr_div_pow2. reflexivity. Qed.

Lemma bytes_val_app l b : bytes_val (l ++ [b]) = bytes_val l * 256 + b.
Proof.
  induction l as [|a l IH]; cbn [bytes_val app length].
  - cbn. lia.
  - rewrite IH, app_length. cbn [length]. rewrite Nat.add_1_r.
    replace (8 * N.of_nat (S (length l))) with (8 * N.of_nat (length l) + 8) by lia.
    rewrite N.pow_add_r. change (2^8) with 256. lia.
Qed.

Lemma lor_disjoint a x k : a mod 2^k = 0 -> x < 2^k -> N.lor a x = a + x.
Proof.
  intros Ha Hx.
  assert (H0 : N.land a x = 0).
  { apply N.bits_inj. intro i. rewrite N.land_spec, N.bits_0.
    destruct (N.lt_ge_cases i k) as [Hi|Hi].
    - rewrite <- (N.mod_pow2_bits_low a k i Hi), Ha, N.bits_0. reflexivity.
    - replace x with (x mod 2^k) by (apply N.mod_small; exact Hx).
      rewrite N.mod_pow2_bits_high by exact Hi. apply Bool.andb_false_r. }
  rewrite N.add_nocarry_lxor by exact H0. symmetry. apply N.lxor_lor. exact H0.
Qed.

Lemma mod_split v a b : v mod 2^(a+b) = ((v / 2^a) mod 2^b) * 2^a + v mod 2^a.
Proof.
  rewrite N.pow_add_r. rewrite N.mod_mul_r by (apply N.pow_nonzero; discriminate). lia.
Qed.

Lemma pow2_split (a b : nat) : (a <= b)%nat -> 2^N.of_nat b = 2^N.of_nat a * 2^N.of_nat (b - a).
Proof. intro H. rewrite <- N.pow_add_r. f_equal. lia. Qed.

Lemma pow2_nz k : 2^k <> 0.
Proof. apply N.pow_nonzero; discriminate. Qed.

(* ====================================================================== *)
(* Writer *)

Lemma zero_case v s : bitno s = 0%nat -> Forall (fun b => b < 256) (done_ s) ->
  sval s = sval s * 2^(N.of_nat 0) + v mod 2^(N.of_nat 0) /\ slen s = slen s + N.of_nat 0 /\ WF s.
Proof.
  intros Hb Hd. change (2^N.of_nat 0) with 1. rewrite N.mod_1_r. split; [lia|]. split; [cbn; lia|].
  unfold WF. rewrite Hb. split; [lia|]. split; [exact Hd|]. intro H; exfalso; apply H; reflexivity.
Qed.

Lemma put_loop_maxd : forall fuel v left s, maxd (put_loop fuel v left s) = maxd s.
Proof.
  induction fuel as [|f IH]; intros v left s; cbn [put_loop]; [reflexivity|].
  destruct (Nat.eqb left 0); [reflexivity|].
  destruct (Nat.eqb ((bitno s + Nat.min left 8) mod 8) 0); rewrite IH; reflexivity.
Qed.

Lemma putbits_core_maxd s v n : maxd (putbits_core s v n) = maxd s.
Proof.
  unfold putbits_core. rewrite put_loop_maxd.
  destruct (Nat.eqb ((bitno s + Nat.min n (8 - bitno s mod 8)) mod 8) 0); reflexivity.
Qed.

Lemma loop_spec : forall fuel v left s,
  (left <= fuel)%nat -> bitno s = 0%nat -> Forall (fun b => b < 256) (done_ s) ->
  let s' := put_loop fuel v left s in
  sval s' = sval s * 2^(N.of_nat left) + v mod 2^(N.of_nat left) /\
  slen s' = slen s + N.of_nat left /\ WF s'.
Proof.
  induction fuel as [|f IH]; intros v left s Hf Hb Hd; cbn [put_loop].
  - assert (left = 0%nat) by lia. subst left. apply zero_case; assumption.
  - destruct (Nat.eqb_spec left 0) as [->|Hl].
    + apply zero_case; assumption.
    + rewrite Hb. cbn [Nat.add].
      destruct (Nat.le_gt_cases 8 left) as [H8|H8].
      * rewrite Nat.min_r by exact H8. change (8 mod 8)%nat with 0%nat. cbn [Nat.eqb].
        change (8-8)%nat with 0%nat. rewrite N.shiftl_0_r, chunk_arith.
        set (b := (v / 2^N.of_nat (left - 8)) mod 2^N.of_nat 8).
        assert (Hb256 : b < 256) by (apply N.mod_lt; discriminate).
        specialize (IH v (left - 8)%nat {| done_ := done_ s ++ [b]; curb := 0; bitno := 0; maxd := maxd s |}).
        cbn [bitno done_] in IH.
        destruct IH as (Hv & Hl' & Hw); [lia | reflexivity | apply Forall_app; split; [exact Hd|constructor; [exact Hb256|constructor]] |].
        split; [|split; [|exact Hw]].
        -- rewrite Hv. unfold sval at 1 2. cbn [bitno done_ Nat.eqb]. rewrite Hb. cbn [Nat.eqb N.of_nat].
           rewrite bytes_val_app. rewrite !N.mul_1_r, !N.add_0_r.
           replace (N.of_nat left) with (N.of_nat (left - 8) + 8) by lia.
           rewrite (mod_split v (N.of_nat (left-8)) 8). fold b. rewrite N.pow_add_r. change (2^8) with 256.
           change (2 ^ N.of_nat 8) with 256 in b. lia.
        -- rewrite Hl'. unfold slen. cbn [done_ bitno]. rewrite app_length. cbn [length]. lia.
      * rewrite Nat.min_l by lia. rewrite Nat.sub_diag.
        rewrite (Nat.mod_small left 8) by lia.
        destruct (Nat.eqb_spec left 0) as [?|_]; [lia|].
        destruct f as [|f']; cbn [put_loop Nat.eqb].
        all: rewrite chunk_arith; change (2 ^ N.of_nat 0) with 1; rewrite N.div_1_r, N.shiftl_mul_pow2.
        all: unfold sval, slen, WF; cbn [bitno done_ curb]; rewrite Hb; cbn [Nat.eqb N.of_nat].
        all: destruct (Nat.eqb_spec left 0) as [?|_]; [lia|].
        all: assert (Hm : v mod 2^N.of_nat left < 2^N.of_nat left) by (apply N.mod_lt, N.pow_nonzero; discriminate).
        all: assert (Hp : 2^N.of_nat left * 2^N.of_nat (8-left) = 256)
               by (rewrite <- N.pow_add_r; replace (N.of_nat left + N.of_nat (8-left)) with 8 by lia; reflexivity).
        all: assert (Hnz : 2^N.of_nat (8-left) <> 0) by (apply N.pow_nonzero; discriminate).
        all: rewrite N.div_mul by exact Hnz.
        all: change (2^0) with 1.
        all: split; [lia|]. all: split; [lia|]. all: split; [lia|]. all: split; [exact Hd|].
        all: intros _; split; [nia | apply N.mod_mul; exact Hnz].
Qed.

Theorem putbits_core_spec s v n :
  WF s -> (1 <= n)%nat ->
  let s' := putbits_core s v n in
  sval s' = sval s * 2^(N.of_nat n) + v mod 2^(N.of_nat n) /\
  slen s' = slen s + N.of_nat n /\ WF s'.
Proof.
  intros (Hbn & Hd & Hc) Hn. unfold putbits_core.
  rewrite (Nat.mod_small (bitno s) 8) by exact Hbn.
  set (p := bitno s) in *.
  set (take := Nat.min n (8 - p)).
  set (left := (n - take)%nat).
  assert (Htake : (1 <= take <= 8 - p)%nat) by (unfold take; lia).
  assert (Hn' : n = (left + take)%nat) by (unfold left, take; lia).
  set (c0 := if Nat.eqb p 0 then 0 else curb s).
  set (x := N.shiftl (chunk v left take) (N.of_nat (8 - p - take))).
  (* arithmetic facts about the first chunk *)
  assert (Hch : chunk v left take < 2^N.of_nat take)
    by (rewrite chunk_arith; apply N.mod_lt, N.pow_nonzero; discriminate).
  assert (Hx : x = chunk v left take * 2^N.of_nat (8 - p - take))
    by (unfold x; apply N.shiftl_mul_pow2).
  assert (Hxlt : x < 2^N.of_nat (8 - p)).
  { rewrite Hx, (pow2_split take (8-p)) by lia.
    apply N.mul_lt_mono_pos_r; [|exact Hch].
    apply N.neq_0_lt_0, N.pow_nonzero; discriminate. }
  assert (Hc0 : c0 mod 2^N.of_nat (8 - p) = 0 /\ c0 < 256 /\
                sval s = bytes_val (done_ s) * 2^N.of_nat p + c0 / 2^N.of_nat (8 - p)).
  { unfold c0, sval. fold p. destruct (Nat.eqb_spec p 0) as [Hp0|Hp0].
    - rewrite N.mod_0_l by (apply N.pow_nonzero; discriminate).
      rewrite N.div_0_l by (apply N.pow_nonzero; discriminate). repeat split; lia.
    - destruct (Hc Hp0) as [H1 H2]. repeat split; auto. }
  destruct Hc0 as (Hc0m & Hc0lt & Hsv).
  assert (Hlor : N.lor c0 x = c0 + x) by (eapply lor_disjoint; eauto).
  rewrite Hlor.
  (* c0 = h * 2^(8-p) *)
  set (P := 2^N.of_nat (8 - p)) in *.
  assert (HPnz : P <> 0) by (apply N.pow_nonzero; discriminate).
  pose proof (N.div_mod c0 P HPnz) as Hdm. rewrite Hc0m, N.add_0_r in Hdm.
  set (h := c0 / P) in *.
  destruct (Nat.eqb_spec ((p + take) mod 8) 0) as [Hfull|Hpart].
  - (* first byte completed: p + take = 8 *)
    assert (Hpt : (p + take = 8)%nat).
    { destruct (Nat.eq_dec (p+take) 8) as [E|E]; [exact E|]. rewrite Nat.mod_small in Hfull by lia. lia. }
    assert (H8p : (8 - p - take = 0)%nat) by lia.
    pose proof (loop_spec left v left {| done_ := done_ s ++ [c0 + x]; curb := curb s; bitno := 0; maxd := maxd s |}
                  (le_n _) eq_refl) as L. cbn [done_ bitno] in L.
    assert (Hbyte : c0 + x < 256).
    { rewrite Hdm. unfold P in *. replace 256 with (2^N.of_nat p * 2^N.of_nat (8-p)).
      2:{ rewrite <- N.pow_add_r. replace (N.of_nat p + N.of_nat (8-p)) with 8 by lia. reflexivity. }
      assert (h < 2^N.of_nat p).
      { apply (N.mul_lt_mono_pos_l (2^N.of_nat (8-p))); [apply N.neq_0_lt_0; exact HPnz|].
        rewrite <- Hdm. rewrite <- N.pow_add_r. replace (N.of_nat (8-p) + N.of_nat p) with 8 by lia. exact Hc0lt. }
      nia. }
    destruct L as (Lv & Ll & Lw).
    { apply Forall_app; split; [exact Hd|]. constructor; [exact Hbyte|constructor]. }
    split; [|split; [|exact Lw]].
    + rewrite Lv. unfold sval at 1. cbn [bitno done_ Nat.eqb N.of_nat]. rewrite bytes_val_app.
      rewrite Hsv. fold h. rewrite Hn'.
      rewrite Nat2N.inj_add, (mod_split v (N.of_nat left) (N.of_nat take)), N.pow_add_r.
      rewrite <- chunk_arith. rewrite Hx, H8p. change (2^N.of_nat 0) with 1. rewrite N.mul_1_r.
      rewrite Hdm. unfold P. replace (8-p)%nat with take by lia.
      replace 256 with (2^N.of_nat p * 2^N.of_nat take).
      2:{ rewrite <- N.pow_add_r. replace (N.of_nat p + N.of_nat take) with 8 by lia. reflexivity. }
      change (2^0) with 1. lia.
    + rewrite Ll. unfold slen. cbn [done_ bitno]. rewrite app_length. cbn [length]. fold p. lia.
  - (* first byte not completed: left = 0 *)
    assert (Hlt : (p + take < 8)%nat).
    { assert (p + take <= 8)%nat by lia. destruct (Nat.eq_dec (p+take) 8) as [E|E]; [|lia].
      rewrite E in Hpart. exfalso; apply Hpart; reflexivity. }
    assert (Hl0 : left = 0%nat) by (unfold left, take in *; lia).
    rewrite Hl0. cbn [put_loop]. rewrite Nat.mod_small by lia.
    assert (Htn : take = n) by lia.
    unfold sval at 1. unfold slen at 1. unfold WF. cbn [done_ bitno curb].
    destruct (Nat.eqb_spec (p + take) 0) as [?|_]; [lia|].
    set (Q := 2^N.of_nat (8 - (p + take))).
    assert (HQnz : Q <> 0) by (apply N.pow_nonzero; discriminate).
    assert (HPQ : P = 2^N.of_nat take * Q).
    { unfold P, Q. rewrite <- N.pow_add_r. f_equal. lia. }
    assert (Hxq : x = chunk v 0 take * Q).
    { rewrite Hx, Hl0. unfold Q. f_equal. f_equal. f_equal. lia. }
    assert (Hsum : c0 + x = (h * 2^N.of_nat take + chunk v 0 take) * Q) by (rewrite Hdm, HPQ, Hxq; lia).
    split; [|split; [unfold slen; fold p; lia|]].
    + rewrite Hsum, N.div_mul by exact HQnz. rewrite Hsv. fold h.
      rewrite chunk_arith. change (2^N.of_nat 0) with 1. rewrite N.div_1_r, Htn.
      rewrite Nat2N.inj_add, N.pow_add_r. lia.
    + split; [lia|]. split; [exact Hd|]. intros _. split.
      * rewrite Hsum. rewrite Hl0 in Hch.
        assert (h < 2^N.of_nat p).
        { apply (N.mul_lt_mono_pos_l P); [apply N.neq_0_lt_0; exact HPnz|].
          rewrite <- Hdm. unfold P. rewrite <- N.pow_add_r. replace (N.of_nat (8-p) + N.of_nat p) with 8 by lia. exact Hc0lt. }
        replace 256 with (2^N.of_nat p * 2^N.of_nat take * Q).
        2:{ unfold Q. rewrite <- !N.pow_add_r. replace (N.of_nat p + N.of_nat take + N.of_nat (8 - (p+take))) with 8 by lia. reflexivity. }
        apply N.mul_lt_mono_pos_r; [apply N.neq_0_lt_0; exact HQnz|]. nia.
      * rewrite Hsum. apply N.mod_mul. exact HQnz.
Qed.

Lemma grow_sval s : sval (grow s) = sval s.
Proof. unfold grow. destruct (N.ltb _ _); reflexivity. Qed.
Lemma grow_slen s : slen (grow s) = slen s.
Proof. unfold grow. destruct (N.ltb _ _); reflexivity. Qed.
Lemma grow_WF s : WF (grow s) <-> WF s.
Proof. unfold grow. destruct (N.ltb _ _); reflexivity. Qed.
Lemma grow_done s : done_ (grow s) = done_ s.
Proof. unfold grow. destruct (N.ltb _ _); reflexivity. Qed.
Lemma grow_bitno s : bitno (grow s) = bitno s.
Proof. unfold grow. destruct (N.ltb _ _); reflexivity. Qed.

Theorem putbits_append : forall s v n,
  WF s -> (1 <= n <= 64)%nat ->
  exists s', putbits s v n = Some s' /\
    sval s' = sval s * 2^(N.of_nat n) + v mod 2^(N.of_nat n) /\
    slen s' = slen s + N.of_nat n /\ WF s'.
Proof.
  intros s v n Hwf Hn. unfold putbits.
  destruct (Nat.eqb_spec n 0) as [?|_]; [lia|].
  destruct (Nat.ltb_spec 64 n) as [?|_]; [lia|].
  eexists. split; [reflexivity|].
  destruct (putbits_core_spec s v n Hwf) as (Hv & Hl & Hw); [lia|].
  rewrite grow_sval, grow_slen, grow_WF. auto.
Qed.

Theorem putbits_alloc : forall s v n s',
  WF s -> WFalloc s -> (n <= 64)%nat -> putbits s v n = Some s' ->
  WFalloc s' /\ put_hi s n < maxd s + 10.
Proof.
  intros s v n s' Hwf Ha Hn Hp. unfold WFalloc in *. unfold put_hi.
  assert (Hbn : (bitno s < 8)%nat) by (destruct Hwf; assumption).
  assert (Hq : ((bitno s + n) / 8 < 9)%nat).
  { apply Nat.div_lt_upper_bound; lia. }
  split; [|lia].
  unfold putbits in Hp.
  destruct (Nat.eqb_spec n 0) as [Hn0|Hn0]; [injection Hp as <-; exact Ha|].
  destruct (Nat.ltb_spec 64 n) as [?|_]; [lia|].
  injection Hp as <-.
  destruct (putbits_core_spec s v n Hwf) as (_ & Hl & Hw); [lia|].
  set (s1 := putbits_core s v n) in *.
  pose proof (putbits_core_maxd s v n) as Hm. fold s1 in Hm.
  unfold grow. destruct (N.ltb_spec (maxd s1) (N.of_nat (length (done_ s1)))) as [Hlt|Hge]; cbn [done_ maxd].
  - unfold slen in Hl. destruct Hw as (Hb1 & _). rewrite Hm. lia.
  - exact Hge.
Qed.

(* ====================================================================== *)
(* The specification function rd *)

Lemma rd_lt : forall d p n, rd d p n < 2^N.of_nat n.
Proof.
  intros d p n. induction n as [|k IH]; cbn [rd].
  - cbn. lia.
  - rewrite Nat2N.inj_succ, N.pow_succ_r'.
    destruct (bit_at d (p + k)); cbn [N.b2n]; lia.
Qed.

Lemma rd_add : forall d p a b,
  rd d p (a + b) = rd d p a * 2^N.of_nat b + rd d (p + a) b.
Proof.
  intros d p a b. induction b as [|k IH].
  - rewrite Nat.add_0_r. cbn [rd N.of_nat]. change (2^0) with 1. lia.
  - rewrite Nat.add_succ_r. cbn [rd]. rewrite IH.
    rewrite Nat2N.inj_succ, N.pow_succ_r', Nat.add_assoc. lia.
Qed.

Lemma rd_ext : forall d d' p n,
  (forall i, (p <= i < p + n)%nat -> bit_at d i = bit_at d' i) -> rd d p n = rd d' p n.
Proof.
  intros d d' p n. induction n as [|k IH]; intro H; cbn [rd]; [reflexivity|].
  rewrite IH by (intros i Hi; apply H; lia).
  rewrite (H (p + k)%nat) by lia. reflexivity.
Qed.

Lemma rd_app_l : forall d e p n, (p + n <= 8 * length d)%nat -> rd (d ++ e) p n = rd d p n.
Proof.
  intros d e p n H. apply rd_ext. intros i Hi. unfold bit_at.
  rewrite app_nth1; [reflexivity|].
  apply Nat.div_lt_upper_bound; lia.
Qed.

(* bits inside one byte *)
Lemma rd_in_byte : forall d c r t, (r + t <= 8)%nat ->
  rd d (8 * c + r) t = take_bits (nth c d 0) (8 - r - t) t.
Proof.
  intros d c r t. induction t as [|k IH]; intro H.
  - cbn [rd]. unfold take_bits. cbn [N.of_nat]. rewrite N.land_ones. change (2^0) with 1. rewrite N.mod_1_r. reflexivity.
  - cbn [rd]. rewrite IH by lia. rewrite !take_bits_arith.
    unfold bit_at.
    assert (Hd : ((8 * c + r + k) / 8 = c)%nat).
    { symmetry. apply (Nat.div_unique _ 8 c (r + k)); lia. }
    assert (Hm : ((8 * c + r + k) mod 8 = r + k)%nat).
    { symmetry. apply (Nat.mod_unique _ 8 c (r + k)); lia. }
    rewrite Hd, Hm. rewrite N.testbit_spec'.
    replace (7 - (r + k))%nat with (8 - r - S k)%nat by lia.
    set (m := (8 - r - S k)%nat).
    replace (8 - r - k)%nat with (S m) by (unfold m; lia).
    set (b := nth c d 0).
    rewrite !Nat2N.inj_succ, !N.pow_succ_r'.
    rewrite (N.mul_comm 2 (2^N.of_nat m)).
    rewrite <- N.div_div by (try discriminate; apply pow2_nz).
    set (x := b / 2 ^ N.of_nat m).
    rewrite (N.mod_mul_r x 2 (2^N.of_nat k)) by (try discriminate; apply pow2_nz).
    lia.
Qed.

Lemma rd_bytes : forall d, Forall (fun b => b < 256) d -> rd d 0 (8 * length d) = bytes_val d.
Proof.
  induction d as [|b l IH] using rev_ind; intro H.
  - reflexivity.
  - apply Forall_app in H. destruct H as [Hl Hb]. inversion Hb as [|? ? Hb' _]; subst.
    rewrite app_length. cbn [length].
    replace (8 * (length l + 1))%nat with (8 * length l + 8)%nat by lia.
    rewrite rd_add. rewrite rd_app_l by lia. rewrite IH by exact Hl.
    rewrite bytes_val_app. cbn [Nat.add].
    replace (8 * length l)%nat with (8 * length l + 0)%nat at 1 by lia.
    rewrite rd_in_byte by lia. rewrite take_bits_arith.
    rewrite app_nth2 by lia. rewrite Nat.sub_diag. cbn [nth].
    change (8 - 0 - 8)%nat with 0%nat. change (2^N.of_nat 0) with 1. rewrite N.div_1_r.
    change (2^N.of_nat 8) with 256. rewrite N.mod_small by exact Hb'. reflexivity.
Qed.

Lemma slen_nat s : N.to_nat (slen s) = (8 * length (done_ s) + bitno s)%nat.
Proof. unfold slen. lia. Qed.

Theorem wbytes_rd : forall s, WF s -> rd (wbytes s) 0 (N.to_nat (slen s)) = sval s.
Proof.
  intros s (Hb & Hd & Hc). rewrite slen_nat. unfold wbytes, sval.
  destruct (Nat.eqb_spec (bitno s) 0) as [E|E].
  - rewrite E, Nat.add_0_r. rewrite rd_bytes by exact Hd. cbn [N.of_nat]. change (2^0) with 1. lia.
  - destruct (Hc E) as [Hc1 _].
    rewrite rd_add. rewrite rd_app_l by lia. rewrite rd_bytes by exact Hd.
    f_equal. cbn [Nat.add].
    replace (8 * length (done_ s))%nat with (8 * length (done_ s) + 0)%nat by lia.
    rewrite rd_in_byte by lia. rewrite take_bits_arith.
    rewrite app_nth2 by lia. rewrite Nat.sub_diag. cbn [nth].
    replace (8 - 0 - bitno s)%nat with (8 - bitno s)%nat by lia.
    apply N.mod_small.
    apply N.div_lt_upper_bound; [apply pow2_nz|].
    rewrite <- N.pow_add_r. replace (N.of_nat (8 - bitno s) + N.of_nat (bitno s)) with 8 by lia. exact Hc1.
Qed.

(* ====================================================================== *)
(* Reader *)

Lemma rd_in_byte0 : forall d c t, (t <= 8)%nat ->
  rd d (8 * c) t = take_bits (nth c d 0) (8 - t) t.
Proof.
  intros d c t H. replace (8 * c)%nat with (8 * c + 0)%nat by lia.
  rewrite rd_in_byte by lia. reflexivity.
Qed.

Lemma lor_shift bits t x : x < 2^N.of_nat t ->
  N.lor (N.shiftl bits (N.of_nat t)) x = bits * 2^N.of_nat t + x.
Proof.
  intro H. rewrite N.shiftl_mul_pow2.
  apply (lor_disjoint _ _ (N.of_nat t)); [apply N.mod_mul, pow2_nz|exact H].
Qed.

Lemma take_bits_lt b sh t : take_bits b sh t < 2^N.of_nat t.
Proof. rewrite take_bits_arith. apply N.mod_lt, pow2_nz. Qed.

Lemma rd_byte_in d L i : (L <= length d)%nat -> (i < L)%nat -> rd_byte d L i = Some (nth i d 0).
Proof.
  intros HL Hi. unfold rd_byte. destruct (Nat.ltb_spec i L) as [_|?]; [|lia].
  apply nth_error_nth'. lia.
Qed.

(* the part of bufr_getbits after the nbbits > 64 check *)
Definition getbits_body (d:list N) (L:nat) (s:rst) (n:nat) : rres :=
  if Nat.eqb n 0 then RRes 0 0%Z s else
  if Nat.leb L (cur s) then RRes 0 (-1)%Z s else
  let p1 := (rbit s mod 8)%nat in
  let take := Nat.min n (8 - p1) in
  let left := (n - take)%nat in
  match rd_byte d L (cur s) with
  | None => ROob
  | Some byte =>
    let bits := take_bits byte (8 - (take + p1)) take in
    let bn := ((rbit s + take) mod 8)%nat in
    if Nat.eqb bn 0 then
      if andb (Nat.leb (L - 1) (cur s)) (Nat.ltb take n) then RRes 0 (-1)%Z s
      else get_loop left d L n left take bits {| cur := S (cur s); rbit := 0 |}
    else get_loop left d L n left take bits {| cur := cur s; rbit := bn |}
  end.

Lemma getbits_unfold d L s n :
  getbits d L s n = if Nat.ltb 64 n then RRes 0 (-2)%Z s else getbits_body d L s n.
Proof. reflexivity. Qed.

(* ---- no out-of-bounds access ---- *)

Lemma get_loop_no_oob : forall fuel d L nb left nread bits s,
  (L <= length d)%nat -> (left = 0%nat \/ (cur s < L)%nat) ->
  get_loop fuel d L nb left nread bits s <> ROob.
Proof.
  induction fuel as [|f IH]; intros d L nb left nread bits s HL H; cbn [get_loop]; [discriminate|].
  destruct (Nat.eqb_spec left 0) as [E|E]; [discriminate|].
  destruct H as [H|H]; [contradiction|].
  rewrite rd_byte_in by assumption.
  destruct (Nat.eqb_spec ((rbit s + Nat.min left 8) mod 8) 0) as [_|_].
  - destruct (Nat.leb_spec (L - 1) (cur s)) as [_|Hlt]; [discriminate|].
    apply IH; [assumption|]. right. cbn [cur]. lia.
  - apply IH; [assumption|]. right. cbn [cur]. exact H.
Qed.

Lemma body_no_oob : forall d L s n, (L <= length d)%nat -> getbits_body d L s n <> ROob.
Proof.
  intros d L s n HL. unfold getbits_body.
  destruct (Nat.eqb_spec n 0) as [_|_]; [discriminate|].
  destruct (Nat.leb_spec L (cur s)) as [_|Hlt]; [discriminate|].
  rewrite rd_byte_in by assumption.
  set (take := Nat.min n (8 - rbit s mod 8)).
  destruct (Nat.eqb_spec ((rbit s + take) mod 8) 0) as [_|_].
  - destruct (Nat.leb_spec (L - 1) (cur s)) as [_|Hlt1]; cbn [andb].
    + destruct (Nat.ltb_spec take n) as [_|Hge]; [discriminate|].
      apply get_loop_no_oob; [assumption|]. left. lia.
    + apply get_loop_no_oob; [assumption|]. right. cbn [cur]. lia.
  - apply get_loop_no_oob; [assumption|]. right. cbn [cur]. exact Hlt.
Qed.

Theorem getbits_no_oob : forall d L s n, (L <= length d)%nat -> getbits d L s n <> ROob.
Proof.
  intros d L s n HL. rewrite getbits_unfold.
  destruct (Nat.ltb 64 n); [discriminate|]. apply body_no_oob. exact HL.
Qed.

(* ---- skip = get without the data ---- *)

Lemma skip_loop_eq_get : forall fuel d L nb left nread bits s v e s',
  get_loop fuel d L nb left nread bits s = RRes v e s' ->
  skip_loop fuel L nb left nread s = (e, s').
Proof.
  induction fuel as [|f IH]; intros d L nb left nread bits s v e s' H; cbn [get_loop skip_loop] in *.
  - injection H as _ <- <-. reflexivity.
  - destruct (Nat.eqb left 0).
    + injection H as _ <- <-. reflexivity.
    + destruct (rd_byte d L (cur s)) as [byte|]; [|discriminate].
      destruct (Nat.eqb ((rbit s + Nat.min left 8) mod 8) 0).
      * destruct (Nat.leb (L - 1) (cur s)).
        -- injection H as _ <- <-. reflexivity.
        -- eapply IH. exact H.
      * eapply IH. exact H.
Qed.

Lemma body_skip : forall d L s n v e s',
  getbits_body d L s n = RRes v e s' -> skip_bits L s n = (e, s').
Proof.
  intros d L s n v e s' H. unfold getbits_body in H. unfold skip_bits.
  destruct (Nat.eqb n 0).
  - injection H as _ <- <-. reflexivity.
  - destruct (Nat.leb L (cur s)).
    + injection H as _ <- <-. reflexivity.
    + destruct (rd_byte d L (cur s)) as [byte|]; [|discriminate].
      destruct (Nat.eqb ((rbit s + Nat.min n (8 - rbit s mod 8)) mod 8) 0).
      * destruct (Nat.leb (L - 1) (cur s) && Nat.ltb (Nat.min n (8 - rbit s mod 8)) n)%bool.
        -- injection H as _ <- <-. reflexivity.
        -- eapply skip_loop_eq_get. exact H.
      * eapply skip_loop_eq_get. exact H.
Qed.

Theorem skip_eq_get : forall d L s n v e s',
  (L <= length d)%nat -> (n <= 64)%nat -> getbits d L s n = RRes v e s' -> skip_bits L s n = (e, s').
Proof.
  intros d L s n v e s' _ Hn H. rewrite getbits_unfold in H.
  destruct (Nat.ltb_spec 64 n) as [?|_]; [lia|].
  eapply body_skip. exact H.
Qed.

(* ---- functional specification of the reader ---- *)

Lemma get_loop_done : forall fuel d L n nread bits s,
  get_loop fuel d L n 0 nread bits s = RRes bits 0%Z s.
Proof. destruct fuel; reflexivity. Qed.

Definition loop_post (d:list N) (L:nat) (left:nat) (bits:N) (s:rst) (r:rres) : Prop :=
  ((8 * cur s + left <= 8 * L)%nat ->
     exists v s', r = RRes v 0%Z s' /\ v = bits * 2^N.of_nat left + rd d (8 * cur s) left
        /\ rpos s' = (8 * cur s + left)%nat /\ RWF L s') /\
  ((8 * cur s + left > 8 * L)%nat ->
     exists v e s', r = RRes v e s' /\ (e < 0)%Z /\ RWF L s').

Lemma done_case d L bits s : rbit s = 0%nat -> (cur s <= L)%nat ->
  loop_post d L 0 bits s (RRes bits 0%Z s).
Proof.
  intros Hr Hc. split; intro H; [|exfalso; lia].
  exists bits, s. split; [reflexivity|]. split; [cbn [rd N.of_nat]; change (2^0) with 1; lia|].
  split; [unfold rpos; lia|]. unfold RWF. lia.
Qed.

Lemma get_loop_spec : forall fuel d L n left nread bits s,
  L = length d -> (left <= fuel)%nat -> rbit s = 0%nat -> (cur s <= L)%nat ->
  (left = 0%nat \/ (cur s < L)%nat) -> (nread + left = n)%nat ->
  loop_post d L left bits s (get_loop fuel d L n left nread bits s).
Proof.
  induction fuel as [|f IH]; intros d L n left nread bits s HL Hf Hr Hc Hor Hn.
  - assert (left = 0%nat) by lia. subst left. rewrite get_loop_done. apply done_case; assumption.
  - destruct (Nat.eq_dec left 0) as [->|Hl0]; [rewrite get_loop_done; apply done_case; assumption|].
    destruct Hor as [?|Hlt]; [contradiction|].
    cbn [get_loop]. destruct (Nat.eqb_spec left 0) as [?|_]; [contradiction|].
    rewrite rd_byte_in by lia. rewrite Hr. cbn [Nat.add].
    set (byte := nth (cur s) d 0).
    destruct (Nat.le_gt_cases 8 left) as [H8|H8].
    + rewrite Nat.min_r by exact H8. change (8 mod 8)%nat with 0%nat. cbn [Nat.eqb]. change (8-8)%nat with 0%nat.
      rewrite lor_shift by apply take_bits_lt.
      replace (take_bits byte 0 8) with (rd d (8 * cur s) 8) by (rewrite rd_in_byte0 by lia; reflexivity).
      set (bits' := bits * 2^N.of_nat 8 + rd d (8 * cur s) 8).
      destruct (Nat.leb_spec (L-1) (cur s)) as [Hlast|Hnl].
      * split; intro H.
        -- assert (left = 8%nat) by lia. subst left.
           destruct (Nat.ltb_spec (nread+8) n) as [?|_]; [lia|].
           exists bits', {| cur := S (cur s); rbit := 0 |}.
           split; [reflexivity|]. split; [reflexivity|].
           split; [unfold rpos; cbn [cur rbit]; lia|]. unfold RWF; cbn [cur rbit]; lia.
        -- destruct (Nat.ltb_spec (nread+8) n) as [_|?]; [|lia].
           exists bits', (-1)%Z, {| cur := S (cur s); rbit := 0 |}.
           split; [reflexivity|]. split; [lia|]. unfold RWF; cbn [cur rbit]; lia.
      * specialize (IH d L n (left-8)%nat (nread+8)%nat bits' {| cur := S (cur s); rbit := 0 |} HL).
        unfold loop_post in IH. cbn [cur rbit] in IH.
        destruct IH as [I1 I2]; [lia|reflexivity|lia|lia|lia|].
        split; intro H.
        -- destruct I1 as (v & s' & Hg & Hv & Hp & Hw); [lia|]. exists v, s'.
           split; [exact Hg|]. split; [|split;[lia|exact Hw]].
           rewrite Hv.
           replace (rd d (8 * cur s) left) with (rd d (8 * cur s) (8 + (left-8))) by (f_equal; lia).
           rewrite rd_add. replace (8 * cur s + 8)%nat with (8 * S (cur s))%nat by lia.
           replace (2^N.of_nat left) with (2^N.of_nat 8 * 2^N.of_nat (left-8))
             by (rewrite <- N.pow_add_r; f_equal; lia).
           unfold bits'. ring.
        -- destruct I2 as (v & e & s' & Hg & He & Hw); [lia|]. exists v, e, s'. auto.
    + rewrite Nat.min_l by lia. rewrite Nat.sub_diag. rewrite (Nat.mod_small left 8) by lia.
      destruct (Nat.eqb_spec left 0) as [?|_]; [contradiction|].
      rewrite get_loop_done. rewrite lor_shift by apply take_bits_lt.
      split; intro H; [|exfalso; lia].
      eexists _, _. split; [reflexivity|].
      split; [rewrite rd_in_byte0 by lia; reflexivity|].
      split; [unfold rpos; cbn [cur rbit]; lia|]. unfold RWF; cbn [cur rbit]; lia.
Qed.

Lemma body_spec : forall d L s n,
  L = length d -> RWF L s -> (1 <= n)%nat ->
  ((rpos s + n <= 8 * L)%nat ->
     exists v s', getbits_body d L s n = RRes v 0%Z s' /\ v = rd d (rpos s) n
        /\ rpos s' = (rpos s + n)%nat /\ RWF L s') /\
  ((rpos s + n > 8 * L)%nat ->
     exists v e s', getbits_body d L s n = RRes v e s' /\ (e < 0)%Z /\ RWF L s').
Proof.
  intros d L s n HL Hrwf Hn. pose proof Hrwf as (Hb & Hc & Hbc). unfold getbits_body, rpos.
  destruct (Nat.eqb_spec n 0) as [?|_]; [lia|].
  destruct (Nat.leb_spec L (cur s)) as [Hge|Hlt].
  { split; intro H; [exfalso; lia|].
    exists 0, (-1)%Z, s. split; [reflexivity|]. split; [lia|exact Hrwf]. }
  rewrite rd_byte_in by lia. cbv zeta.
  rewrite (Nat.mod_small (rbit s) 8) by exact Hb.
  set (r := rbit s) in *. set (c := cur s) in *.
  set (take := Nat.min n (8 - r)).
  set (left := (n - take)%nat).
  set (byte := nth c d 0).
  assert (Htake : (1 <= take <= 8 - r)%nat) by (unfold take; lia).
  assert (Hn' : n = (take + left)%nat) by (unfold left, take; lia).
  assert (Hmin : (take = n \/ take = 8 - r)%nat) by (unfold take; lia).
  assert (Hbits : take_bits byte (8 - (take + r)) take = rd d (8*c+r) take).
  { rewrite rd_in_byte by lia. f_equal. lia. }
  rewrite Hbits.
  destruct (Nat.eqb_spec ((r + take) mod 8) 0) as [Hfull|Hpart].
  - assert (Hrt : (r + take = 8)%nat).
    { destruct (Nat.eq_dec (r+take) 8) as [E|E]; [exact E|]. rewrite Nat.mod_small in Hfull by lia. lia. }
    destruct (Nat.leb (L - 1) c && Nat.ltb take n)%bool eqn:Hand.
    + apply andb_true_iff in Hand. destruct Hand as [H1 H2].
      apply Nat.leb_le in H1. apply Nat.ltb_lt in H2.
      split; intro H; [exfalso; lia|].
      exists 0, (-1)%Z, s. split; [reflexivity|]. split; [lia|exact Hrwf].
    + assert (Hor : (left = 0 \/ S c < L)%nat).
      { apply andb_false_iff in Hand. destruct Hand as [H1|H2].
        - apply Nat.leb_gt in H1. right. lia.
        - apply Nat.ltb_ge in H2. left. lia. }
      pose proof (get_loop_spec left d L n left take (rd d (8*c+r) take) {| cur := S c; rbit := 0 |}
                    HL (le_n _) eq_refl) as G. unfold loop_post in G. cbn [cur rbit] in G.
      destruct G as [G1 G2]; [lia|exact Hor|lia|]. cbn [cur rbit] in G1, G2.
      split; intro H.
      * destruct G1 as (v & s' & Hg & Hv & Hp & Hw); [lia|]. exists v, s'.
        split; [exact Hg|]. split; [|split; [unfold rpos in Hp; lia|exact Hw]].
        rewrite Hv. replace (rd d (8*c+r) n) with (rd d (8*c+r) (take + left)) by (f_equal; lia).
        rewrite rd_add. replace (8*c+r+take)%nat with (8 * S c)%nat by lia. reflexivity.
      * destruct G2 as (v & e & s' & Hg & He & Hw); [lia|]. exists v, e, s'. auto.
  - assert (Hlt8 : (r + take < 8)%nat).
    { destruct (Nat.eq_dec (r+take) 8) as [E|E]; [rewrite E in Hpart; exfalso; apply Hpart; reflexivity|lia]. }
    assert (Hl0 : left = 0%nat) by lia.
    rewrite Hl0. rewrite get_loop_done. rewrite Nat.mod_small by lia.
    split; intro H; [|exfalso; lia].
    eexists _, _. split; [reflexivity|]. split; [f_equal; lia|].
    split; [cbn [cur rbit]; lia|]. unfold RWF; cbn [cur rbit]; lia.
Qed.

Theorem getbits_spec : forall d L s n,
  L = length d -> RWF L s -> (1 <= n <= 64)%nat ->
  ((rpos s + n <= 8 * L)%nat ->
     exists s', getbits d L s n = RRes (rd d (rpos s) n) 0%Z s' /\ rpos s' = (rpos s + n)%nat /\ RWF L s') /\
  ((rpos s + n > 8 * L)%nat ->
     exists v e s', getbits d L s n = RRes v e s' /\ (e < 0)%Z /\ RWF L s').
Proof.
  intros d L s n HL Hw Hn. rewrite getbits_unfold.
  destruct (Nat.ltb_spec 64 n) as [?|_]; [lia|].
  destruct (body_spec d L s n HL Hw) as [B1 B2]; [lia|].
  split; intro H.
  - destruct (B1 H) as (v & s' & Hg & Hv & Hp & Hw'). subst v. exists s'. auto.
  - exact (B2 H).
Qed.

Theorem skip_spec : forall L s n,
  RWF L s ->
  ((rpos s + n <= 8 * L)%nat -> exists s', skip_bits L s n = (0%Z, s') /\ rpos s' = (rpos s + n)%nat /\ RWF L s') /\
  ((rpos s + n > 8 * L)%nat -> exists e s', skip_bits L s n = (e, s') /\ (e < 0)%Z).
Proof.
  intros L s n Hw.
  destruct (Nat.eq_dec n 0) as [->|Hn].
  - pose proof Hw as (Hb & Hc & Hbc). unfold rpos.
    split; intro H; [|exfalso; lia].
    exists s. split; [reflexivity|]. split; [unfold rpos; lia|exact Hw].
  - destruct (body_spec (repeat 0 L) L s n) as [B1 B2];
      [symmetry; apply repeat_length|exact Hw|lia|].
    split; intro H.
    + destruct (B1 H) as (v & s' & Hg & _ & Hp & Hw'). exists s'.
      split; [eapply body_skip; exact Hg|auto].
    + destruct (B2 H) as (v & e & s' & Hg & He & _). exists e, s'.
      split; [eapply body_skip; exact Hg|exact He].
Qed.

(* ====================================================================== *)
(* Strings *)

Lemma putstring_fields : forall l s,
  putstring s l = write_fields s (map (fun c => (c, 8%nat)) l).
Proof.
  induction l as [|c t IH]; intro s; cbn [putstring write_fields map]; [reflexivity|].
  destruct (putbits s c 8); [apply IH|reflexivity].
Qed.

Theorem padstring_fields : forall s str enclen s',
  WF s -> Forall (fun c => c < 256) str -> put_padstring s str enclen = Some s' ->
  let body := firstn enclen str in
  write_fields s (map (fun c => (c, 8%nat)) (body ++ repeat 32 (enclen - length body))) = Some s'.
Proof.
  intros s str enclen s' _ _ H body. unfold put_padstring in H.
  rewrite <- putstring_fields. exact H.
Qed.

(* ====================================================================== *)
(* Round trip *)

(* s extends s1: the bit string of s1 is a prefix of the bit string of s *)
Definition Pre (s1 s:wst) : Prop :=
  exists k w, slen s = slen s1 + N.of_nat k /\ sval s = sval s1 * 2^N.of_nat k + w /\ w < 2^N.of_nat k.

Lemma write_fields_pre : forall fs s0 s,
  WF s0 -> Forall (fun f => (1 <= snd f <= 64)%nat) fs -> write_fields s0 fs = Some s ->
  Pre s0 s /\ WF s.
Proof.
  induction fs as [|[v n] t IH]; intros s0 s Hw Hf H; cbn [write_fields] in H.
  - injection H as <-. split; [|exact Hw]. exists 0%nat, 0. cbn [N.of_nat]. change (2^0) with 1. lia.
  - inversion Hf as [|? ? Hn Ht]; subst. cbn [snd] in Hn.
    destruct (putbits_append s0 v n Hw Hn) as (s1 & Hp & Hv & Hl & Hw1). rewrite Hp in H.
    destruct (IH s1 s Hw1 Ht H) as ((k & w & Hk & Hvk & Hwk) & Hws). split; [|exact Hws].
    exists (n + k)%nat, (v mod 2^N.of_nat n * 2^N.of_nat k + w).
    split; [lia|].
    rewrite Nat2N.inj_add, N.pow_add_r.
    assert (Hm : v mod 2^N.of_nat n < 2^N.of_nat n) by (apply N.mod_lt, pow2_nz).
    set (A := 2^N.of_nat n) in *. set (K := 2^N.of_nat k) in *. set (a := v mod A) in *.
    split.
    + rewrite Hvk, Hv. ring.
    + apply N.lt_le_trans with ((a + 1) * K); [lia|]. apply N.mul_le_mono_r. lia.
Qed.

Lemma pre_rd : forall s1 s, Pre s1 s -> WF s ->
  rd (wbytes s) 0 (N.to_nat (slen s1)) = sval s1.
Proof.
  intros s1 s (k & w & Hk & Hv & Hw) Hwf.
  pose proof (wbytes_rd s Hwf) as R.
  replace (N.to_nat (slen s)) with (N.to_nat (slen s1) + k)%nat in R by lia.
  rewrite rd_add in R. cbn [Nat.add] in R.
  pose proof (rd_lt (wbytes s) (N.to_nat (slen s1)) k) as Hlt.
  set (A := rd (wbytes s) 0 (N.to_nat (slen s1))) in *.
  set (B := rd (wbytes s) (N.to_nat (slen s1)) k) in *.
  destruct (N.div_mod_unique (2^N.of_nat k) A (sval s1) B w Hlt Hw) as [E _]; [lia|exact E].
Qed.

Lemma pre_len : forall s1 s, Pre s1 s -> (N.to_nat (slen s1) <= N.to_nat (slen s))%nat.
Proof. intros s1 s (k & w & Hk & _). lia. Qed.

Lemma wbytes_len : forall s, (bitno s < 8)%nat -> (N.to_nat (slen s) <= 8 * length (wbytes s))%nat.
Proof.
  intros s Hb. rewrite slen_nat. unfold wbytes.
  destruct (Nat.eqb_spec (bitno s) 0) as [E|E]; [lia|].
  rewrite app_length. cbn [length]. lia.
Qed.

Lemma rr_gen : forall fs s0 s r d,
  WF s0 -> Forall (fun f => (1 <= snd f <= 64)%nat) fs -> write_fields s0 fs = Some s ->
  d = wbytes s -> RWF (length d) r -> rpos r = N.to_nat (slen s0) ->
  exists s', read_fields d (length d) r (map snd fs)
             = Some (map (fun f => fst f mod 2^(N.of_nat (snd f))) fs, s')
          /\ rpos s' = N.to_nat (slen s).
Proof.
  induction fs as [|[v n] t IH]; intros s0 s r d Hw Hf H Hd Hr Hp.
  - cbn [write_fields] in H. injection H as <-. exists r. split; [reflexivity|exact Hp].
  - destruct (write_fields_pre _ _ _ Hw Hf H) as (Hpre0 & Hws).
    cbn [write_fields] in H.
    inversion Hf as [|? ? Hn Ht]; subst. cbn [snd] in Hn.
    destruct (putbits_append s0 v n Hw Hn) as (s1 & Hpb & Hv & Hl & Hw1). rewrite Hpb in H.
    destruct (write_fields_pre _ _ _ Hw1 Ht H) as (Hpre1 & _).
    pose proof (pre_rd s0 s Hpre0 Hws) as R0. pose proof (pre_rd s1 s Hpre1 Hws) as R1.
    pose proof (pre_len _ _ Hpre1) as Hlen1.
    assert (Hbs : (bitno s < 8)%nat) by (destruct Hws; assumption).
    pose proof (wbytes_len s Hbs) as Hlen.
    set (d := wbytes s) in *.
    assert (Hp1 : N.to_nat (slen s1) = (N.to_nat (slen s0) + n)%nat) by lia.
    rewrite Hp1, rd_add, R0 in R1. cbn [Nat.add] in R1.
    assert (Hrd : rd d (N.to_nat (slen s0)) n = v mod 2^N.of_nat n) by lia.
    destruct (getbits_spec d (length d) r n eq_refl Hr Hn) as [G1 _].
    destruct G1 as (r1 & Hg & Hpr1 & Hr1); [lia|].
    destruct (IH s1 s r1 d Hw1 Ht H eq_refl Hr1) as (s' & Hrf & Hps); [lia|].
    exists s'. split; [|exact Hps].
    cbn [map read_fields fst snd]. rewrite Hg. cbv beta iota. rewrite Hrf.
    rewrite Hp, Hrd. reflexivity.
Qed.

Theorem write_read_roundtrip : forall s0 fs s,
  WF s0 -> Forall (fun f => (1 <= snd f <= 64)%nat) fs -> write_fields s0 fs = Some s ->
  let d := wbytes s in
  exists s', read_fields d (length d) (rst_of_pos (N.to_nat (slen s0))) (map snd fs)
             = Some (map (fun f => fst f mod 2^(N.of_nat (snd f))) fs, s')
          /\ rpos s' = N.to_nat (slen s).
Proof.
  intros s0 fs s Hw Hf H d.
  destruct (write_fields_pre _ _ _ Hw Hf H) as (Hpre & Hws).
  pose proof (pre_len _ _ Hpre) as Hl.
  assert (Hbs : (bitno s < 8)%nat) by (destruct Hws; assumption).
  pose proof (wbytes_len s Hbs) as Hlen. fold d in Hlen.
  set (p := N.to_nat (slen s0)) in *.
  pose proof (Nat.div_mod p 8) as Hdm. pose proof (Nat.mod_upper_bound p 8) as Hub.
  apply (rr_gen fs s0 s _ d Hw Hf H eq_refl).
  - unfold RWF, rst_of_pos. cbn [cur rbit]. lia.
  - unfold rpos, rst_of_pos. cbn [cur rbit]. fold p. lia.
Qed.


(* ====================================================================== *)
(* Strings read back (bufr_getstring) *)

(* bufr_getstring is len successive 8-bit reads: when those reads succeed it returns their bytes, error code 0 *)
Lemma getstring_read_fields : forall len d L s acc vs s',
  read_fields d L s (repeat 8%nat len) = Some (vs, s') ->
  getstring d L s len acc = Some (rev acc ++ map (fun c => N.land c 255) vs, 0%Z, s').
Proof.
  induction len as [|k IH]; intros d L s acc vs s' H; cbn [repeat read_fields getstring] in *.
  - injection H as <- <-. cbn [map]. rewrite app_nil_r. reflexivity.
  - destruct (getbits d L s 8) as [|v e s1]; [discriminate|].
    destruct e as [|p|p]; try discriminate.
    destruct (read_fields d L s1 (repeat 8%nat k)) as [[vs1 s2]|] eqn:E; [|discriminate].
    injection H as <- <-.
    change (Z.ltb 0 0) with false. cbv iota.
    rewrite (IH d L s1 (N.land v 255 :: acc) vs1 s2 E).
    cbn [rev map]. rewrite <- app_assoc. reflexivity.
Qed.

Lemma land255_small c : c < 256 -> N.land c 255 = c.
Proof. intro H. change 255 with (N.ones 8). rewrite N.land_ones. apply N.mod_small. exact H. Qed.

Lemma map_snd_bytes (l : list N) : map snd (map (fun c => (c, 8%nat)) l) = repeat 8%nat (length l).
Proof. induction l as [|c t IH]; cbn [map length repeat snd]; [reflexivity|]. rewrite IH. reflexivity. Qed.

Lemma map_val_bytes (l : list N) : Forall (fun c => c < 256) l ->
  map (fun c => N.land c 255) (map (fun f : N * nat => fst f mod 2^(N.of_nat (snd f))) (map (fun c => (c, 8%nat)) l)) = l.
Proof.
  induction 1 as [|c t Hc Ht IH]; cbn [map fst snd]; [reflexivity|].
  rewrite IH. f_equal. change (2^N.of_nat 8) with 256. rewrite N.mod_small by exact Hc. apply land255_small. exact Hc.
Qed.

(* character strings: what bufr_putstring / bufr_put_padstring wrote at ANY bit offset is what bufr_getstring reads *)
Theorem string_roundtrip : forall s0 str enclen s,
  WF s0 -> Forall (fun c => c < 256) str -> put_padstring s0 str enclen = Some s ->
  let d := wbytes s in
  let body := firstn enclen str in
  exists s', getstring d (length d) (rst_of_pos (N.to_nat (slen s0))) enclen []
               = Some (body ++ repeat 32 (enclen - length body), 0%Z, s')
          /\ rpos s' = N.to_nat (slen s).
Proof.
  intros s0 str enclen s Hw Hs H d body.
  pose proof (padstring_fields s0 str enclen s Hw Hs H) as Hf. cbv zeta in Hf. fold body in Hf.
  set (l := body ++ repeat 32 (enclen - length body)) in *.
  assert (Hl : Forall (fun c => c < 256) l).
  { apply Forall_app. split.
    - apply Forall_forall. intros x Hx. apply (proj1 (Forall_forall _ _) Hs). rewrite <- (firstn_skipn enclen str). apply in_or_app. left. exact Hx.
    - apply Forall_forall. intros x Hx. apply repeat_spec in Hx. subst x. reflexivity. }
  assert (Hlen : length l = enclen).
  { unfold l. rewrite app_length, repeat_length. pose proof (firstn_le_length enclen str) as Hfl. fold body in Hfl. lia. }
  assert (Hfs : Forall (fun f : N * nat => (1 <= snd f <= 64)%nat) (map (fun c => (c, 8%nat)) l)).
  { apply Forall_forall. intros f Hfi. apply in_map_iff in Hfi. destruct Hfi as (c & <- & _). cbn [snd]. lia. }
  destruct (write_read_roundtrip s0 _ s Hw Hfs Hf) as (s' & Hr & Hp). fold d in Hr.
  rewrite map_snd_bytes, Hlen in Hr.
  exists s'. split; [|exact Hp].
  rewrite (getstring_read_fields _ _ _ _ [] _ _ Hr). cbn [rev app].
  rewrite map_val_bytes by exact Hl. reflexivity.
Qed.

(* reading a string never touches memory outside the section, whatever the cursor and the length *)
Theorem getstring_no_oob : forall len d L s acc, (L <= length d)%nat -> getstring d L s len acc <> None.
Proof.
  induction len as [|k IH]; intros d L s acc HL; cbn [getstring]; [discriminate|].
  destruct (getbits d L s 8) as [|v e s1] eqn:E.
  - exfalso. exact (getbits_no_oob d L s 8 HL E).
  - destruct (Z.ltb e 0); [discriminate|]. apply IH. exact HL.
Qed.

(* ... and a string that runs past the end of the section reports an error *)
Theorem getstring_past_end : forall len d L s acc r,
  L = length d -> RWF L s -> (rpos s + 8 * len > 8 * L)%nat ->
  getstring d L s len acc = Some r -> (snd (fst r) < 0)%Z.
Proof.
  induction len as [|k IH]; intros d L s acc r HL Hr Hp H; [unfold RWF, rpos in *; lia|].
  cbn [getstring] in H.
  destruct (getbits_spec d L s 8 HL Hr ltac:(lia)) as [G1 G2].
  destruct (Nat.le_gt_cases (rpos s + 8) (8 * L)) as [Hin|Hout].
  - destruct (G1 Hin) as (s1 & Hg & Hp1 & Hr1). rewrite Hg in H.
    change (Z.ltb 0 0) with false in H. cbv iota in H.
    eapply (IH d L s1 _ r HL Hr1); [lia|exact H].
  - destruct (G2 Hout) as (v & e & s1 & Hg & He & _). rewrite Hg in H.
    destruct (Z.ltb_spec e 0) as [_|C]; [|lia]. injection H as <-. cbn [fst snd]. exact He.
Qed.
