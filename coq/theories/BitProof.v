(* BitProof.v — proofs about the executable model BitIO.v (property C11). *)
From Coq Require Import List NArith ZArith Arith Lia Bool.
From V Require Import BitIO.
From V Require Export BitFields.
Import ListNotations.
Local Open Scope N_scope.

(* ====================================================================== *)
(* Arithmetic helpers *)

Lemma chunk_arith v l t : chunk v l t = (v / 2^(N.of_nat l)) mod 2^(N.of_nat t).
Proof. unfold chunk. rewrite N.land_ones, N.shiftr_div_pow2. reflexivity. Qed.

Lemma take_bits_arith v l t : take_bits v l t = (v / 2^(N.of_nat l)) mod 2^(N.of_nat t).
Proof. unfold take_bits. rewrite N.land_ones, N.shiftr_div_pow2. reflexivity. Qed.

Lemma bytes_val_app l b : bytes_val (l ++ [b]) = bytes_val l * 256 + b.
Proof.
  induction l as [|a l IH]; cbn [bytes_val app length].
  - cbn. lia.
  - rewrite IH, app_length. cbn [length]. rewrite Nat.add_1_r.
    replace (8 * N.of_nat (S (length l))) with (8 * N.of_nat (length l) + 8) by lia.
    rewrite N.pow_add_r. change (2^8) with 256. lia.
Qed.

Lemma lor_disjoint a x k : a mod 2^k = 0 -> x < 2^k -> N.lor a x = a + x.
Proof.
  intros Ha Hx.
  assert (H0 : N.land a x = 0).
  { apply N.bits_inj. intro i. rewrite N.land_spec, N.bits_0.
    destruct (N.lt_ge_cases i k) as [Hi|Hi].
    - rewrite <- (N.mod_pow2_bits_low a k i Hi), Ha, N.bits_0. reflexivity.
    - replace x with (x mod 2^k) by (apply N.mod_small; exact Hx).
      rewrite N.mod_pow2_bits_high by exact Hi. apply Bool.andb_false_r. }
  rewrite N.add_nocarry_lxor by exact H0. symmetry. apply N.lxor_lor. exact H0.
Qed.

Lemma mod_split v a b : v mod 2^(a+b) = ((v / 2^a) mod 2^b) * 2^a + v mod 2^a.
Proof.
  rewrite N.pow_add_r. rewrite N.mod_mul_r by (apply N.pow_nonzero; discriminate). lia.
Qed.

Lemma pow2_split (a b : nat) : (a <= b)%nat -> 2^N.of_nat b = 2^N.of_nat a * 2^N.of_nat (b - a).
Proof. intro H. rewrite <- N.pow_add_r. f_equal. lia. Qed.

Lemma pow2_nz k : 2^k <> 0.
Proof. apply N.pow_nonzero; discriminate. Qed.

(* ====================================================================== *)
(* Writer *)

Lemma zero_case v s : bitno s = 0%nat -> Forall (fun b => b < 256) (done_ s) ->
  sval s = sval s * 2^(N.of_nat 0) + v mod 2^(N.of_nat 0) /\ slen s = slen s + N.of_nat 0 /\ WF s.
Proof.
  intros Hb Hd. change (2^N.of_nat 0) with 1. rewrite N.mod_1_r. split; [lia|]. split; [cbn; lia|].
  unfold WF. rewrite Hb. split; [lia|]. split; [exact Hd|]. intro H; exfalso; apply H; reflexivity.
Qed.

Lemma put_loop_maxd : forall fuel v left s, maxd (put_loop fuel v left s) = maxd s.
Proof.
  induction fuel as [|f IH]; intros v left s; cbn [put_loop]; [reflexivity|].
  destruct (Nat.eqb left 0); [reflexivity|].
  destruct (Nat.eqb ((bitno s + Nat.min left 8) mod 8) 0); rewrite IH; reflexivity.
Qed.

Lemma putbits_core_maxd s v n : maxd (putbits_core s v n) = maxd s.
Proof.
  unfold putbits_core. rewrite put_loop_maxd.
  destruct (Nat.eqb ((bitno s + Nat.min n (8 - bitno s mod 8)) mod 8) 0); reflexivity.
Qed.

Lemma loop_spec : forall fuel v left s,
  (left <= fuel)%nat -> bitno s = 0%nat -> Forall (fun b => b < 256) (done_ s) ->
  let s' := put_loop fuel v left s in
  sval s' = sval s * 2^(N.of_nat left) + v mod 2^(N.of_nat left) /\
  slen s' = slen s + N.of_nat left /\ WF s'.
Proof.
  induction fuel as [|f IH]; intros v left s Hf Hb Hd; cbn [put_loop].
  - assert (left = 0%nat) by lia. subst left. apply zero_case; assumption.
  - destruct (Nat.eqb_spec left 0) as [->|Hl].
    + apply zero_case; assumption.
    + rewrite Hb. cbn [Nat.add].
      destruct (Nat.le_gt_cases 8 left) as [H8|H8].
      * rewrite Nat.min_r by exact H8. change (8 mod 8)%nat with 0%nat. cbn [Nat.eqb].
        change (8-8)%nat with 0%nat. rewrite N.shiftl_0_r, chunk_arith.
        set (b := (v / 2^N.of_nat (left - 8)) mod 2^N.of_nat 8).
        assert (Hb256 : b < 256) by (apply N.mod_lt; discriminate).
        specialize (IH v (left - 8)%nat {| done_ := done_ s ++ [b]; curb := 0; bitno := 0; maxd := maxd s |}).
        cbn [bitno done_] in IH.
        destruct IH as (Hv & Hl' & Hw); [lia | reflexivity | apply Forall_app; split; [exact Hd|constructor; [exact Hb256|constructor]] |].
        split; [|split; [|exact Hw]].
        -- rewrite Hv. unfold sval at 1 2. cbn [bitno done_ Nat.eqb]. rewrite Hb. cbn [Nat.eqb N.of_nat].
           rewrite bytes_val_app. rewrite !N.mul_1_r, !N.add_0_r.
           replace (N.of_nat left) with (N.of_nat (left - 8) + 8) by lia.
           rewrite (mod_split v (N.of_nat (left-8)) 8). fold b. rewrite N.pow_add_r. change (2^8) with 256.
           change (2 ^ N.of_nat 8) with 256 in b. lia.
        -- rewrite Hl'. unfold slen. cbn [done_ bitno]. rewrite app_length. cbn [length]. lia.
      * rewrite Nat.min_l by lia. rewrite Nat.sub_diag.
        rewrite (Nat.mod_small left 8) by lia.
        destruct (Nat.eqb_spec left 0) as [?|_]; [lia|].
        destruct f as [|f']; cbn [put_loop Nat.eqb].
        all: rewrite chunk_arith; change (2 ^ N.of_nat 0) with 1; rewrite N.div_1_r, N.shiftl_mul_pow2.
        all: unfold sval, slen, WF; cbn [bitno done_ curb]; rewrite Hb; cbn [Nat.eqb N.of_nat].
        all: destruct (Nat.eqb_spec left 0) as [?|_]; [lia|].
        all: assert (Hm : v mod 2^N.of_nat left < 2^N.of_nat left) by (apply N.mod_lt, N.pow_nonzero; discriminate).
        all: assert (Hp : 2^N.of_nat left * 2^N.of_nat (8-left) = 256)
               by (rewrite <- N.pow_add_r; replace (N.of_nat left + N.of_nat (8-left)) with 8 by lia; reflexivity).
        all: assert (Hnz : 2^N.of_nat (8-left) <> 0) by (apply N.pow_nonzero; discriminate).
        all: rewrite N.div_mul by exact Hnz.
        all: change (2^0) with 1.
        all: split; [lia|]. all: split; [lia|]. all: split; [lia|]. all: split; [exact Hd|].
        all: intros _; split; [nia | apply N.mod_mul; exact Hnz].
Qed.

Theorem putbits_core_spec s v n :
  WF s -> (1 <= n)%nat ->
  let s' := putbits_core s v n in
  sval s' = sval s * 2^(N.of_nat n) + v mod 2^(N.of_nat n) /\
  slen s' = slen s + N.of_nat n /\ WF s'.
Proof.
  intros (Hbn & Hd & Hc) Hn. unfold putbits_core.
  rewrite (Nat.mod_small (bitno s) 8) by exact Hbn.
  set (p := bitno s) in *.
  set (take := Nat.min n (8 - p)).
  set (left := (n - take)%nat).
  assert (Htake : (1 <= take <= 8 - p)%nat) by (unfold take; lia).
  assert (Hn' : n = (left + take)%nat) by (unfold left, take; lia).
  set (c0 := if Nat.eqb p 0 then 0 else curb s).
  set (x := N.shiftl (chunk v left take) (N.of_nat (8 - p - take))).
  (* arithmetic facts about the first chunk *)
  assert (Hch : chunk v left take < 2^N.of_nat take)
    by (rewrite chunk_arith; apply N.mod_lt, N.pow_nonzero; discriminate).
  assert (Hx : x = chunk v left take * 2^N.of_nat (8 - p - take))
    by (unfold x; apply N.shiftl_mul_pow2).
  assert (Hxlt : x < 2^N.of_nat (8 - p)).
  { rewrite Hx, (pow2_split take (8-p)) by lia.
    apply N.mul_lt_mono_pos_r; [|exact Hch].
    apply N.neq_0_lt_0, N.pow_nonzero; discriminate. }
  assert (Hc0 : c0 mod 2^N.of_nat (8 - p) = 0 /\ c0 < 256 /\
                sval s = bytes_val (done_ s) * 2^N.of_nat p + c0 / 2^N.of_nat (8 - p)).
  { unfold c0, sval. fold p. destruct (Nat.eqb_spec p 0) as [Hp0|Hp0].
    - rewrite N.mod_0_l by (apply N.pow_nonzero; discriminate).
      rewrite N.div_0_l by (apply N.pow_nonzero; discriminate). repeat split; lia.
    - destruct (Hc Hp0) as [H1 H2]. repeat split; auto. }
  destruct Hc0 as (Hc0m & Hc0lt & Hsv).
  assert (Hlor : N.lor c0 x = c0 + x) by (eapply lor_disjoint; eauto).
  rewrite Hlor.
  (* c0 = h * 2^(8-p) *)
  set (P := 2^N.of_nat (8 - p)) in *.
  assert (HPnz : P <> 0) by (apply N.pow_nonzero; discriminate).
  pose proof (N.div_mod c0 P HPnz) as Hdm. rewrite Hc0m, N.add_0_r in Hdm.
  set (h := c0 / P) in *.
  destruct (Nat.eqb_spec ((p + take) mod 8) 0) as [Hfull|Hpart].
  - (* first byte completed: p + take = 8 *)
    assert (Hpt : (p + take = 8)%nat).
    { destruct (Nat.eq_dec (p+take) 8) as [E|E]; [exact E|]. rewrite Nat.mod_small in Hfull by lia. lia. }
    assert (H8p : (8 - p - take = 0)%nat) by lia.
    pose proof (loop_spec left v left {| done_ := done_ s ++ [c0 + x]; curb := curb s; bitno := 0; maxd := maxd s |}
                  (le_n _) eq_refl) as L. cbn [done_ bitno] in L.
    assert (Hbyte : c0 + x < 256).
    { rewrite Hdm. unfold P in *. replace 256 with (2^N.of_nat p * 2^N.of_nat (8-p)).
      2:{ rewrite <- N.pow_add_r. replace (N.of_nat p + N.of_nat (8-p)) with 8 by lia. reflexivity. }
      assert (h < 2^N.of_nat p).
      { apply (N.mul_lt_mono_pos_l (2^N.of_nat (8-p))); [apply N.neq_0_lt_0; exact HPnz|].
        rewrite <- Hdm. rewrite <- N.pow_add_r. replace (N.of_nat (8-p) + N.of_nat p) with 8 by lia. exact Hc0lt. }
      nia. }
    destruct L as (Lv & Ll & Lw).
    { apply Forall_app; split; [exact Hd|]. constructor; [exact Hbyte|constructor]. }
    split; [|split; [|exact Lw]].
    + rewrite Lv. unfold sval at 1. cbn [bitno done_ Nat.eqb N.of_nat]. rewrite bytes_val_app.
      rewrite Hsv. fold h. rewrite Hn'.
      rewrite Nat2N.inj_add, (mod_split v (N.of_nat left) (N.of_nat take)), N.pow_add_r.
      rewrite <- chunk_arith. rewrite Hx, H8p. change (2^N.of_nat 0) with 1. rewrite N.mul_1_r.
      rewrite Hdm. unfold P. replace (8-p)%nat with take by lia.
      replace 256 with (2^N.of_nat p * 2^N.of_nat take).
      2:{ rewrite <- N.pow_add_r. replace (N.of_nat p + N.of_nat take) with 8 by lia. reflexivity. }
      change (2^0) with 1. lia.
    + rewrite Ll. unfold slen. cbn [done_ bitno]. rewrite app_length. cbn [length]. fold p. lia.
  - (* first byte not completed: left = 0 *)
    assert (Hlt : (p + take < 8)%nat).
    { assert (p + take <= 8)%nat by lia. destruct (Nat.eq_dec (p+take) 8) as [E|E]; [|lia].
      rewrite E in Hpart. exfalso; apply Hpart; reflexivity. }
    assert (Hl0 : left = 0%nat) by (unfold left, take in *; lia).
    rewrite Hl0. cbn [put_loop]. rewrite Nat.mod_small by lia.
    assert (Htn : take = n) by lia.
    unfold sval at 1. unfold slen at 1. unfold WF. cbn [done_ bitno curb].
    destruct (Nat.eqb_spec (p + take) 0) as [?|_]; [lia|].
    set (Q := 2^N.of_nat (8 - (p + take))).
    assert (HQnz : Q <> 0) by (apply N.pow_nonzero; discriminate).
    assert (HPQ : P = 2^N.of_nat take * Q).
    { unfold P, Q. rewrite <- N.pow_add_r. f_equal. lia. }
    assert (Hxq : x = chunk v 0 take * Q).
    { rewrite Hx, Hl0. unfold Q. f_equal. f_equal. f_equal. lia. }
    assert (Hsum : c0 + x = (h * 2^N.of_nat take + chunk v 0 take) * Q) by (rewrite Hdm, HPQ, Hxq; lia).
    split; [|split; [unfold slen; fold p; lia|]].
    + rewrite Hsum, N.div_mul by exact HQnz. rewrite Hsv. fold h.
      rewrite chunk_arith. change (2^N.of_nat 0) with 1. rewrite N.div_1_r, Htn.
      rewrite Nat2N.inj_add, N.pow_add_r. lia.
    + split; [lia|]. split; [exact Hd|]. intros _. split.
      * rewrite Hsum. rewrite Hl0 in Hch.
        assert (h < 2^N.of_nat p).
        { apply (N.mul_lt_mono_pos_l P); [apply N.neq_0_lt_0; exact HPnz|].
          rewrite <- Hdm. unfold P. rewrite <- N.pow_add_r. replace (N.of_nat (8-p) + N.of_nat p) with 8 by lia. exact Hc0lt. }
        replace 256 with (2^N.of_nat p * 2^N.of_nat take * Q).
        2:{ unfold Q. rewrite <- !N.pow_add_r. replace (N.of_nat p + N.of_nat take + N.of_nat (8 - (p+take))) with 8 by lia. reflexivity. }
        apply N.mul_lt_mono_pos_r; [apply N.neq_0_lt_0; exact HQnz|]. nia.
      * rewrite Hsum. apply N.mod_mul. exact HQnz.
Qed.

Lemma grow_sval s : sval (grow s) = sval s.
Proof. unfold grow. destruct (N.ltb _ _); reflexivity. Qed.
Lemma grow_slen s : slen (grow s) = slen s.
Proof. unfold grow. destruct (N.ltb _ _); reflexivity. Qed.
Lemma grow_WF s : WF (grow s) <-> WF s.
Proof. unfold grow. destruct (N.ltb _ _); reflexivity. Qed.
Lemma grow_done s : done_ (grow s) = done_ s.
Proof. unfold grow. destruct (N.ltb _ _); reflexivity. Qed.
Lemma grow_bitno s : bitno (grow s) = bitno s.
Proof. unfold grow. destruct (N.ltb _ _); reflexivity. Qed.

Theorem putbits_append : forall s v n,
  WF s -> (1 <= n <= 64)%nat ->
  exists s', putbits s v n = Some s' /\
    sval s' = sval s * 2^(N.of_nat n) + v mod 2^(N.of_nat n) /\
    slen s' = slen s + N.of_nat n /\ WF s'.
Proof.
  intros s v n Hwf Hn. unfold putbits.
  destruct (Nat.eqb_spec n 0) as [?|_]; [lia|].
  destruct (Nat.ltb_spec 64 n) as [?|_]; [lia|].
  eexists. split; [reflexivity|].
  destruct (putbits_core_spec s v n Hwf) as (Hv & Hl & Hw); [lia|].
  rewrite grow_sval, grow_slen, grow_WF. auto.
Qed.

Theorem putbits_alloc : forall s v n s',
  WF s -> WFalloc s -> (n <= 64)%nat -> putbits s v n = Some s' ->
  WFalloc s' /\ put_hi s n < maxd s + 10.
Proof.
  intros s v n s' Hwf Ha Hn Hp. unfold WFalloc in *. unfold put_hi.
  assert (Hbn : (bitno s < 8)%nat) by (destruct Hwf; assumption).
  assert (Hq : ((bitno s + n) / 8 <= 8)%nat).
  { apply Nat.div_le_upper_bound; lia. }
  split; [|lia].
  unfold putbits in Hp.
  destruct (Nat.eqb_spec n 0) as [Hn0|Hn0]; [injection Hp as <-; exact Ha|].
  destruct (Nat.ltb_spec 64 n) as [?|_]; [lia|].
  injection Hp as <-.
  destruct (putbits_core_spec s v n Hwf) as (_ & Hl & Hw); [lia|].
  set (s1 := putbits_core s v n) in *.
  pose proof (putbits_core_maxd s v n) as Hm. fold s1 in Hm.
  unfold grow. destruct (N.ltb_spec (maxd s1) (N.of_nat (length (done_ s1)))) as [Hlt|Hge]; cbn [done_ maxd].
  - unfold slen in Hl. destruct Hw as (Hb1 & _). rewrite Hm. lia.
  - exact Hge.
Qed.
