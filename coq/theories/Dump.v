(* Dump.v — executable model of the text dump format of libecbufr (property C13):
     the printer   bufr_fdump_dataset / bufr_print_dscptr_value / bufr_print_scaled_value / bufr_print_binary /
                   bufr_print_af                                          (API/Sources/bufr_dataset.c, bufr_desc.c, bufr_value.c, bufr_af.c)
     the loader    bufr_load_header / bufr_load_datasubsets / bufr_read_dataset_dump, bufr_str_is_binary,
                   bufr_binary_to_int, bufr_value_set_string
   as pure functions on byte strings (list Z, one Z in 0..255 per octet).  Definitions only; proofs in DumpProof.v.

   What is NOT modelled: the descriptor list the loader walks is an input (`lnode`s: descriptor, whether the loader sees
   the node as skipped when its cursor reaches it, storage type); bufr_apply_tables2node / Table C operator effects and the
   on-the-fly expansion of delayed replication (bufr_expand_node_descriptor) that produce that list are the business of
   C09/C10.  glibc printf('%.*f') / strtod are represented by their decimal contract (Section Libc in DumpProof.v).

   Two places of the loader exist in two variants selected by booleans, because the current code violates the
   property there (see proposed_fixes/C13_*.md): fix_meta (how the {..} comment in front of a value is skipped) and
   fix_q (whether a QUOTED 'MSNG' is the missing value). false = the code as it is. *)
From Coq Require Import List ZArith Arith Lia Bool.
Import ListNotations.
Local Open Scope Z_scope.

Definition str := list Z.

(* ------------------------------------------------------------------ characters *)
Definition c_nl := 10. Definition c_cr := 13. Definition c_tab := 9. Definition c_sp := 32.
Definition c_quote := 34. Definition c_hash := 35. Definition c_lpar := 40. Definition c_rpar := 41.
Definition c_star := 42. Definition c_comma := 44. Definition c_minus := 45. Definition c_dot := 46.
Definition c_0 := 48. Definition c_1 := 49. Definition c_colon := 58. Definition c_eq := 61.
Definition c_lbrace := 123. Definition c_rbrace := 125.

Definition is_space (c:Z) : bool := (c =? 32) || ((9 <=? c) && (c <=? 13)).     (* isspace in the C locale *)
Definition is_digit (c:Z) : bool := (48 <=? c) && (c <=? 57).
Definition digit_chr (d:Z) : Z := d + 48.
Definition digit_val (c:Z) : Z := c - 48.

Fixpoint takewhile (p:Z->bool) (l:str) : str := match l with [] => [] | c :: t => if p c then c :: takewhile p t else [] end.
Fixpoint dropwhile (p:Z->bool) (l:str) : str := match l with [] => [] | c :: t => if p c then dropwhile p t else l end.
Definition rstrip (l:str) : str := rev (dropwhile is_space (rev l)).
Fixpoint str_eqb (a b:str) : bool :=
  match a, b with [], [] => true | x :: a', y :: b' => (x =? y) && str_eqb a' b' | _, _ => false end.
Fixpoint prefixb (p l:str) : bool :=       (* strncmp(l, p, strlen p) == 0 *)
  match p, l with [] , _ => true | x :: p', y :: l' => (x =? y) && prefixb p' l' | _ :: _, [] => false end.

Definition hd_is (c:Z) (l:str) : bool := match l with x :: _ => x =? c | [] => false end.

Definition s_MSNG : str := [77;83;78;71].

(* ------------------------------------------------------------------ decimal integers *)
(* the k least significant decimal digits of n, most significant first *)
Fixpoint fixed_digits (k:nat) (n:Z) : str :=
  match k with O => [] | S k' => fixed_digits k' (n / 10) ++ [digit_chr (n mod 10)] end.
Fixpoint ndigits_fuel (fuel:nat) (n:Z) : nat :=
  match fuel with O => 1%nat | S f => if n <? 10 then 1%nat else S (ndigits_fuel f (n / 10)) end.
Definition ndigits (n:Z) : nat := ndigits_fuel (S (Z.to_nat (Z.log2 n))) n.
Definition dec_nat (n:Z) : str := fixed_digits (ndigits n) n.                      (* '%d' of n >= 0 *)
Definition dec_int (n:Z) : str := if n <? 0 then c_minus :: dec_nat (- n) else dec_nat n.   (* '%d' *)
Definition parse_digits_acc (a:Z) (l:str) : Z := fold_left (fun a c => 10 * a + digit_val c) l a.
Definition parse_digits (l:str) : Z := parse_digits_acc 0 l.
(* '%.6d' of a descriptor *)
Definition desc6 (d:Z) : str := fixed_digits (Nat.max 6 (ndigits d)) d.

(* atoi / atol: leading white space, optional sign, digits; anything else ends the number *)
Definition atoi (l:str) : Z :=
  let l1 := dropwhile is_space l in
  if hd_is 45 l1 then - parse_digits (takewhile is_digit (tl l1))
  else if hd_is 43 l1 then parse_digits (takewhile is_digit (tl l1))
  else parse_digits (takewhile is_digit l1).

(* hexadecimal, '%llx' *)
Definition hex_chr (d:Z) : Z := if d <? 10 then d + 48 else d + 87.
Definition hex_val (c:Z) : option Z :=
  if is_digit c then Some (c - 48) else if (97 <=? c) && (c <=? 102) then Some (c - 87)
  else if (65 <=? c) && (c <=? 70) then Some (c - 55) else None.
Fixpoint fixed_hex (k:nat) (n:Z) : str :=
  match k with O => [] | S k' => fixed_hex k' (n / 16) ++ [hex_chr (n mod 16)] end.
Fixpoint nhex_fuel (fuel:nat) (n:Z) : nat :=
  match fuel with O => 1%nat | S f => if n <? 16 then 1%nat else S (nhex_fuel f (n / 16)) end.
Definition hex_nat (n:Z) : str := fixed_hex (nhex_fuel (S (Z.to_nat (Z.log2 n))) n) n.
Fixpoint parse_hex_acc (a:Z) (l:str) : Z :=          (* stops at the first non-hex character *)
  match l with [] => a | c :: t => match hex_val c with Some d => parse_hex_acc (16 * a + d) t | None => a end end.
(* sscanf('%llx'): optional 0x / 0X prefix *)
Definition scan_hex (l:str) : Z :=
  if hd_is 48 l && (hd_is 120 (tl l) || hd_is 88 (tl l)) then parse_hex_acc 0 (tl (tl l)) else parse_hex_acc 0 l.

(* ------------------------------------------------------------------ (a) scaled numeric values *)
(* bufr_print_scaled_value on the element whose exact value is n / 10^s  (n = raw + reference, s = scale in force):
   FLT64 storage: '%.<s>f' for s >= 0, '%.1f' of the (integral) value for s < 0; INT storage (s = 0): '%d'. *)
Definition print_unsigned_scaled (a s:Z) : str :=
  if 0 <? s then dec_nat (a / 10 ^ s) ++ c_dot :: fixed_digits (Z.to_nat s) a
  else if s =? 0 then dec_nat a
  else dec_nat (a * 10 ^ (- s)) ++ [c_dot; c_0].
Definition print_scaled (n s:Z) : str :=
  (if n <? 0 then [c_minus] else []) ++ print_unsigned_scaled (Z.abs n) s.

(* the decimal numeral strtod receives: optional '-', digits, optional '.' digits -> (mantissa, exponent of ten) *)
Definition parse_decimal (l:str) : option (Z * Z) :=
  let neg := hd_is 45 l in
  let r := if neg then tl l else l in
  let ip := takewhile is_digit r in
  let r1 := dropwhile is_digit r in
  let sgn := if neg then -1 else 1 in
  match r1 with
  | [] => match ip with [] => None | _ => Some (sgn * parse_digits ip, 0) end
  | c :: r2 =>
      if c =? 46 then
        let fp := takewhile is_digit r2 in
        match dropwhile is_digit r2, ip ++ fp with
        | [], _ :: _ => Some (sgn * parse_digits (ip ++ fp), - Z.of_nat (length fp))
        | _, _ => None
        end
      else None
  end.

(* exact re-quantisation of the decimal m * 10^e at scale s, reference ref: round(m*10^(e+s)) - ref, ties away from 0 *)
Definition round_half_away_div (a b:Z) : Z :=
  let q := (2 * Z.abs a + b) / (2 * b) in if a <? 0 then - q else q.
Definition scaled_int (m e s:Z) : Z :=
  if 0 <=? e + s then m * 10 ^ (e + s) else round_half_away_div m (10 ^ (- (e + s))).
Definition requant (me:Z*Z) (s ref:Z) : Z := scaled_int (fst me) (snd me) s - ref.

(* str_trimchar(str,'0') as used by bufr_print_double / bufr_print_float when bufr_is_trimzero() *)
Definition trim_zeros (l:str) : str :=
  let r := dropwhile (fun c => c =? 48) (rev l) in
  if hd_is 46 r then rev (tl r) else rev r.

(* ------------------------------------------------------------------ (b) flag tables in binary *)
Fixpoint bits_msb (k:nat) (v:Z) : str :=
  match k with O => [] | S k' => bits_msb k' (v / 2) ++ [if Z.odd v then c_1 else c_0] end.
Definition bitlen (v:Z) : nat := if v <=? 0 then O else S (Z.to_nat (Z.log2 v)).
(* bufr_print_binary( outstr, ival, nbit ) *)
Definition print_binary (w v:Z) : str :=
  if v <? 0 then repeat c_1 (Z.to_nat w) else bits_msb (Nat.max (Z.to_nat w) (bitlen v)) v.
Fixpoint count_space (l:str) : nat := match l with [] => O | c :: t => ((if is_space c then 1 else 0) + count_space t)%nat end.
Fixpoint all_bin (first:bool) (l:str) : bool :=
  match l with [] => true | c :: t => ((c =? 48) || (c =? 49) || (first && (c =? 98))) && all_bin false t end.
(* bufr_str_is_binary: every white-space character after the first shortens the examined prefix *)
Definition str_is_binary (l:str) : bool := all_bin true (firstn (length l - count_space (tl l)) l).
(* bufr_binary_to_int: uint64_t arithmetic written out: bval = (1 << len) >> 1 with the shifts wrapping at 2^64 *)
Definition bin_step (st:Z*Z) (c:Z) : Z*Z :=
  let b := fst st / 2 in (b, if c =? 49 then (snd st + b) mod 2 ^ 64 else snd st).
Definition binary_to_int (l:str) : Z :=
  if str_is_binary l then snd (fold_left bin_step l (2 ^ Z.of_nat (length l) mod 2 ^ 64, 0)) else -1.

(* ------------------------------------------------------------------ (c) strings *)
(* sprintf('<dq>%s<dq>', value): %s stops at a NUL *)
Definition c_string (s:str) : str := takewhile (fun c => negb (c =? 0)) s.
Definition print_string (s:str) : str := c_quote :: c_string s ++ [c_quote].
(* suffix after the last occurrence of c *)
Fixpoint after_last (c:Z) (l:str) : option str :=
  match l with
  | [] => None
  | x :: t => match after_last c t with Some s => Some s | None => if x =? c then Some t else None end
  end.
(* the part before the last occurrence of c at an index > 0 (the loop 'for (i = len-1; i > 0; i--) if (tok[i]=='<dq>') tok[i]=0') *)
Fixpoint before_last (c:Z) (l:str) : option str :=
  match l with
  | [] => None
  | x :: t => match before_last c t with Some s => Some (x :: s) | None => if x =? c then Some [] else None end
  end.
Definition cut_closing_quote (t:str) : str :=
  match t with
  | [] => []
  | x :: t' => match before_last c_quote t' with Some s => x :: s | None => t end
  end.
(* bufr_value_set_string( bv, tok, len ): truncate to the element width, pad with blanks (with 0xFF if only 0xFF so far) *)
Definition set_svalue (w:nat) (tok:str) : str :=
  let t := firstn w (c_string tok) in
  t ++ repeat (if forallb (fun c => c =? 255) t then 255 else 32) (w - length t).

(* ------------------------------------------------------------------ strtok_r *)
(* skip leading delimiters; the token runs to the next delimiter (consumed) or the end.  None = NULL. *)
Definition strtok (isd:Z->bool) (l:str) : option (str * str) :=
  let l1 := dropwhile isd l in
  match l1 with
  | [] => None
  | _ => Some (takewhile (fun c => negb (isd c)) l1, tl (dropwhile (fun c => negb (isd c)) l1))
  end.
Definition d_first (c:Z) : bool := (c =? 32) || (c =? 9) || (c =? 10) || (c =? 13) || (c =? 44) || (c =? 61).   (* ' \t\n\r,=' *)
Definition d_value (c:Z) : bool := (c =? 32) || (c =? 9) || (c =? 10) || (c =? 13) || (c =? 61).               (* ' \t\n\r=' *)
Definition d_af (c:Z) : bool := (c =? 32) || (c =? 9) || (c =? 10) || (c =? 13) || (c =? 40) || (c =? 41) || (c =? 58).  (* ' \t\n\r():' *)
Definition d_nlcr (c:Z) : bool := (c =? 10) || (c =? 13).                                                    (* '\n\r' *)
Definition d_hdr (c:Z) : bool := (c =? 32) || (c =? 61) || (c =? 9) || (c =? 10).                              (* ' =\t\n' *)

(* ------------------------------------------------------------------ (f) one data line of the loader *)
Inductive vtype := VT_NONE | VT_STR (w:nat) | VT_INT (flag:bool) | VT_F64.
Inductive tokval :=
  | TV_none                      (* no token: the node keeps its fresh (missing) value *)
  | TV_missing                   (* MSNG *)
  | TV_int (z:Z)
  | TV_dec (m e:Z)               (* strtod of the decimal m * 10^e *)
  | TV_str (s:str)               (* the stored string, after bufr_value_set_string *)
  | TV_unmodelled                (* i/o/x/b prefixed integers, exponents, inf/nan ...: never written by the dump *)
  | TV_crash.                    (* NULL passed to strlen / sscanf in the C code *)
Record lval := mkLV { lv_af : option Z; lv_val : tokval }.

(* the {..} comment in front of the value.  l starts with '{'. *)
Fixpoint skip_groups (fuel:nat) (l:str) : str :=
  match fuel with
  | O => l
  | S f =>
    if hd_is 123 l then
      let r := dropwhile (fun c => negb (c =? c_rbrace)) l in
      let r1 := if hd_is 125 r then tl r else r in
      skip_groups f (dropwhile is_space r1)
    else l
  end.
Definition skip_meta (fix_meta:bool) (l:str) : str :=
  if fix_meta then skip_groups (length l) l
  else match after_last c_rbrace l with Some r => r | None => l end.

Definition load_token (fix_q:bool) (vt:vtype) (quoted:bool) (tok:str) : tokval :=
  match vt with
  | VT_NONE => TV_none
  | VT_STR w => if str_eqb tok s_MSNG && negb (fix_q && quoted) then TV_missing else TV_str (set_svalue w tok)
  | VT_INT flag =>
      if str_eqb tok s_MSNG then TV_missing
      else if flag && str_is_binary tok then TV_int (binary_to_int tok)
      else if hd_is 105 tok || hd_is 111 tok || hd_is 120 tok || hd_is 98 tok then TV_unmodelled
      else TV_int (atoi tok)
  | VT_F64 =>
      if str_eqb tok s_MSNG then TV_missing
      else match parse_decimal tok with Some (m, e) => TV_dec m e | None => TV_unmodelled end
  end.

(* the text after the descriptor: trailing white space removed, the {..} comment skipped.  The result still carries the
   blanks in front of the value; their number is the stale index `i` of the C code. *)
Definition stage_meta (fix_meta:bool) (rest:str) : str :=
  let r1 := rstrip (c_string rest) in
  let r2 := dropwhile is_space r1 in
  if hd_is 123 r2 then skip_meta fix_meta r2 else r1.
(* associated field "(0x..:..bits)": -> (bits, text of the value, NULL passed to sscanf) *)
Definition stage_af (r3:str) : option Z * str * bool :=
  let sp := (length r3 - length (dropwhile is_space r3))%nat in
  let r4 := dropwhile is_space r3 in
  if hd_is 40 r4 then
    match strtok d_af r3 with
    | None => (None, r4, true)
    | Some (tok, p) =>
        let q := dropwhile (fun c => negb (c =? c_rpar)) (skipn sp p) in
        let q1 := if hd_is 41 q then tl q else q in
        (Some (scan_hex tok), dropwhile is_space q1, false)
    end
  else (None, r4, false).
(* the value token: quoted string or blank-delimited word *)
Definition stage_tok (fix_q:bool) (vt:vtype) (af:option Z) (r5:str) : lval :=
  if hd_is 34 r5 then
      match strtok d_nlcr (tl r5) with
      | None => mkLV af TV_crash
      | Some (tok, _) => mkLV af (load_token fix_q vt true (cut_closing_quote tok))
      end
  else
      match strtok d_value r5 with
      | None => mkLV af TV_none
      | Some (tok, _) => mkLV af (load_token fix_q vt false tok)
      end.
(* load_rest: everything bufr_load_datasubsets does with the text after the descriptor token *)
Definition load_rest (fix_meta fix_q:bool) (vt:vtype) (rest:str) : lval :=
  match stage_af (stage_meta fix_meta rest) with
  | (_, _, true) => mkLV None TV_crash
  | (af, r5, false) => stage_tok fix_q vt af r5
  end.

(* ------------------------------------------------------------------ lines *)
Inductive line :=
  | L_comment | L_edition | L_subset | L_blank
  | L_data (icode:Z) (rest:str).
Definition s_BUFR_EDITION_EQ : str := [66;85;70;82;95;69;68;73;84;73;79;78;61].      (* 'BUFR_EDITION=' *)
Definition s_DATASUBSET : str := [68;65;84;65;83;85;66;83;69;84].                    (* 'DATASUBSET' *)
Definition classify (l:str) : line :=
  let l := c_string l in
  if hd_is 35 l || hd_is 42 l then L_comment
  else if prefixb s_BUFR_EDITION_EQ l then L_edition
  else if prefixb s_DATASUBSET l then L_subset
  else match strtok d_first l with
       | None => L_blank
       | Some (tok, rest) => L_data (atoi tok) rest
       end.

(* ------------------------------------------------------------------ the printer *)
Inductive dvalue :=
  | DV_none                        (* no BufrValue: operators, replication, Table D *)
  | DV_missing                     (* FLT64 missing or string NULL *)
  | DV_num (n s:Z)                 (* FLT64: exact value n / 10^s *)
  | DV_int (z:Z)                   (* INT32/INT64 printed with %d (-1 = MSNG) *)
  | DV_flag (w z:Z)                (* flag table *)
  | DV_str (s:str).
Record ditem := mkDI {
  di_desc : Z; di_skipped : bool; di_ignored : bool; di_sdesc : Z;
  di_meta : option str;            (* text of bufr_print_rtmd_data, opaque *)
  di_af : option (Z * Z);          (* bits, nbits *)
  di_val : dvalue }.

Definition print_af (bits nbits:Z) : str :=
  [c_lpar; 48; 120] ++ hex_nat bits ++ [c_colon] ++ dec_int nbits ++ [98;105;116;115; c_rpar].   (* '(0x%llx:%dbits)' *)
Definition print_dvalue (v:dvalue) : str :=
  match v with
  | DV_none => []
  | DV_missing => s_MSNG
  | DV_num n s => print_scaled n s
  | DV_int z => if z =? -1 then s_MSNG else dec_int z
  | DV_flag w z => if z <? 0 then s_MSNG else print_binary w z
  | DV_str s => print_string s
  end.
Definition print_prefix (it:ditem) : str :=
  (if di_sdesc it =? 0 then [] else c_lbrace :: desc6 (di_sdesc it) ++ [c_rbrace; c_sp]) ++
  (match di_meta it with Some m => m ++ [c_sp] | None => [] end).
Definition print_item (it:ditem) : str :=
  if di_skipped it then (if di_ignored it then [c_hash] else []) ++ desc6 (di_desc it) ++ [c_sp; c_nl]
  else desc6 (di_desc it) ++ c_sp :: print_prefix it ++
       (match di_val it with
        | DV_none => []
        | v => (match di_af it with Some (b, n) => print_af b n | None => [] end) ++ print_dvalue v
        end) ++ [c_nl].

(* 'DATASUBSET %d : %d codes\n' *)
Definition print_subset_marker (i cnt:Z) : str :=
  s_DATASUBSET ++ [c_sp] ++ dec_int i ++ [c_sp; c_colon; c_sp] ++ dec_int cnt ++ [c_sp; 99;111;100;101;115; c_nl].
Definition print_subset (i:Z) (items:list ditem) : list str :=
  print_subset_marker i (Z.of_nat (length items)) :: map print_item items ++ [[c_nl]].

(* ------------------------------------------------------------------ the subset loader: descriptor matching *)
Record lnode := mkLN { ln_desc : Z; ln_skipped : bool; ln_vt : vtype }.
Inductive lresult := LR_ok (vals:list (Z * lval)) (rest:list lnode) | LR_stop (vals:list (Z * lval)) | LR_mismatch | LR_undefined.

(* first node of l that is not skipped *)
Fixpoint first_unskipped (l:list lnode) : option lnode :=
  match l with [] => None | n :: t => if ln_skipped n then first_unskipped t else Some n end.
Fixpoint drop_to_unskipped (l:list lnode) : list lnode :=
  match l with [] => [] | n :: t => if ln_skipped n then drop_to_unskipped t else l end.
Fixpoint skip_other (icode:Z) (l:list lnode) : list lnode :=      (* while (icode != cb->descriptor && FLAG_SKIPPED) node = next *)
  match l with
  | [] => []
  | n :: t => if negb (icode =? ln_desc n) && ln_skipped n then skip_other icode t else l
  end.

Inductive step := ST_next (nodes:list lnode) (out:option (Z * lval)) | ST_stop | ST_mismatch | ST_undefined.
Definition load_step (fm fq:bool) (nodes:list lnode) (icode:Z) (rest:str) : step :=
  match skip_other icode nodes with
  | [] => ST_stop                                              (* 'no more descriptors for data': break *)
  | cb :: t =>
    if (icode =? ln_desc cb) && ln_skipped cb then
      (* look ahead for the next node that is not skipped *)
      match first_unskipped t with
      | Some cb1 =>
          if icode =? ln_desc cb1 then
            match drop_to_unskipped t with
            | _ :: t1 => ST_next t1 (Some (ln_desc cb1, load_rest fm fq (ln_vt cb1) rest))
            | [] => ST_undefined
            end
          else ST_next t None
      | None =>
          (* cb1 is left at the last node examined *)
          if icode =? ln_desc (last t cb) then ST_undefined else ST_next t None
      end
    else if negb (icode =? ln_desc cb) then ST_mismatch
    else ST_next t (Some (ln_desc cb, load_rest fm fq (ln_vt cb) rest))
  end.

(* the lines of ONE subset (after its DATASUBSET marker, up to the next marker) *)
Fixpoint load_subset_lines (fm fq:bool) (nodes:list lnode) (lines:list str) (acc:list (Z * lval)) : lresult :=
  match lines with
  | [] => LR_ok (rev acc) nodes
  | l :: ls =>
    match classify l with
    | L_data icode rest =>
        match load_step fm fq nodes icode rest with
        | ST_next nodes' out => load_subset_lines fm fq nodes' ls (match out with Some o => o :: acc | None => acc end)
        | ST_stop => LR_stop (rev acc)
        | ST_mismatch => LR_mismatch
        | ST_undefined => LR_undefined
        end
    | _ => load_subset_lines fm fq nodes ls acc
    end
  end.

(* ------------------------------------------------------------------ header *)
(* keys in the order bufr_load_header tests them *)
Definition hdr_keys : list str :=
  [ [66;85;70;82;95;69;68;73;84;73;79;78];                                        (* BUFR_EDITION *)
    [66;85;70;82;95;77;65;83;84;69;82;95;84;65;66;76;69];                         (* BUFR_MASTER_TABLE *)
    [79;82;73;71;95;67;69;78;84;69;82];                                           (* ORIG_CENTER *)
    [79;82;73;71;95;83;85;66;95;67;69;78;84;69;82];                               (* ORIG_SUB_CENTER *)
    [85;80;68;65;84;69;95;83;69;81;85;69;78;67;69];                               (* UPDATE_SEQUENCE *)
    [68;65;84;65;95;67;65;84;69;71;79;82;89];                                     (* DATA_CATEGORY *)
    [73;78;84;69;82;78;95;83;85;66;95;67;65;84;69;71;79;82;89];                   (* INTERN_SUB_CATEGORY *)
    [76;79;67;65;76;95;83;85;66;95;67;65;84;69;71;79;82;89];                      (* LOCAL_SUB_CATEGORY *)
    [77;65;83;84;69;82;95;84;65;66;76;69;95;86;69;82;83;73;79;78];                (* MASTER_TABLE_VERSION *)
    [76;79;67;65;76;95;84;65;66;76;69;95;86;69;82;83;73;79;78];                   (* LOCAL_TABLE_VERSION *)
    [89;69;65;82];                                                                (* YEAR *)
    [77;79;78;84;72];                                                             (* MONTH *)
    [68;65;89];                                                                   (* DAY *)
    [72;79;85;82];                                                                (* HOUR *)
    [77;73;78;85;84;69];                                                          (* MINUTE *)
    [83;69;67;79;78;68];                                                          (* SECOND *)
    [68;65;84;65;95;70;76;65;71];                                                 (* DATA_FLAG *)
    [67;79;77;80;82;69;83;83;69;68];                                              (* COMPRESSED *)
    [72;69;65;68;69;82;95;83;84;82;73;78;71] ].                                   (* HEADER_STRING *)
Definition K_EDITION := 0%nat. Definition K_SUBCENTER := 3%nat. Definition K_DATA_FLAG := 16%nat.
Definition K_COMPRESSED := 17%nat. Definition K_HEADER_STRING := 18%nat.

Fixpoint find_key (keys:list str) (i:nat) (l:str) : option (nat * str) :=
  match keys with
  | [] => None
  | k :: ks => if prefixb k l then Some (i, skipn (length k) l) else find_key ks (S i) l
  end.
Inductive hline := H_comment | H_key (k:nat) (v:option Z) | H_hstring (s:str) | H_subset | H_other.
(* HEADER_STRING: between the first ''' after the key and the last ''' of the line (or the whole rest of the line) *)
Definition header_string_of (r:str) : str :=
  let r' := dropwhile (fun c => negb (c =? c_quote)) r in
  if hd_is 34 r' then (match before_last c_quote (tl r') with Some s => s | None => tl r' end)
  else match strtok (fun c => (c =? 61) || (c =? 9) || (c =? 10)) r with Some (tok, _) => tok | None => [] end.
Definition classify_hdr (l:str) : hline :=
  let l := c_string l in
  if hd_is 35 l || hd_is 42 l then H_comment
  else
    match find_key hdr_keys 0 l with
    | Some (k, r) =>
        if (k =? K_HEADER_STRING)%nat then H_hstring (header_string_of r)
        else H_key k (match strtok d_hdr r with Some (tok, _) => Some (atoi tok) | None => None end)
    | None => if prefixb (firstn 9 s_DATASUBSET) l then H_subset else H_other
    end.

(* Section 1 / Section 3 fields of a dataset as the loader keeps them: the 16 integer keys 1..16 (index = key number)
   and the header string.  hdr_set k v h: assign; DATA_FLAG assigns, COMPRESSED ors bit 64 in. *)
Record header := mkH { h_vals : list Z; h_string : option str }.
Fixpoint set_nth (i:nat) (v:Z) (l:list Z) : list Z :=
  match l, i with [], _ => [] | _ :: t, O => v :: t | x :: t, S j => x :: set_nth j v t end.
Definition hdr_apply (h:header) (hl:hline) : header :=
  match hl with
  | H_key k (Some v) =>
      if (k =? K_EDITION)%nat then h
      else if (k =? K_COMPRESSED)%nat then
        (if v =? 0 then h else mkH (set_nth K_DATA_FLAG (Z.lor (nth K_DATA_FLAG (h_vals h) 0) 64) (h_vals h)) (h_string h))
      else mkH (set_nth k v (h_vals h)) (h_string h)
  | H_hstring s => mkH (h_vals h) (Some s)
  | _ => h
  end.
(* bufr_load_header: returns the header, whether a DATASUBSET line was reached, and the remaining lines *)
Fixpoint load_header (h:header) (lines:list str) : header * bool * list str :=
  match lines with
  | [] => (h, false, [])
  | l :: ls =>
    match classify_hdr l with
    | H_subset => (h, true, lines)
    | H_other => (h, false, lines)
    | hl => load_header (hdr_apply h hl) ls
    end
  end.

Definition key_line (k:nat) (v:Z) : str := nth k hdr_keys [] ++ c_eq :: dec_int v ++ [c_nl].
(* bufr_fdump_dataset, header part.  vals: index 1..16 as above (index 0 = edition). *)
Definition print_header (h:header) : list str :=
  let v := h_vals h in
  let ed := nth 0 v 0 in
  key_line 0 ed ::
  (match h_string h with Some s => [nth K_HEADER_STRING hdr_keys [] ++ c_eq :: c_quote :: c_string s ++ [c_quote; c_nl]] | None => [] end) ++
  key_line 1 (nth 1 v 0) :: key_line 2 (nth 2 v 0) ::
  (if 3 <=? ed then [key_line 3 (nth 3 v 0)] else []) ++
  map (fun k => key_line k (nth k v 0)) [4;5;6;7;8;9;10;11;12;13;14;15;16]%nat ++
  [key_line K_COMPRESSED (if Z.land (nth K_DATA_FLAG v 0) 64 =? 0 then 0 else 1)].

(* ------------------------------------------------------------------ a whole dataset / a whole file *)
(* split the lines after the header into subsets: lines up to the next BUFR_EDITION= line belong to this dataset *)
Fixpoint take_dataset_lines (lines:list str) : list str * list str :=
  match lines with
  | [] => ([], [])
  | l :: ls => match classify l with
               | L_edition => ([], lines)
               | _ => let '(a, b) := take_dataset_lines ls in (l :: a, b)
               end
  end.
(* group the lines of a dataset body by DATASUBSET markers; lines before the first marker are dropped *)
Fixpoint group_subsets (lines:list str) (cur:option (list str)) (acc:list (list str)) : list (list str) :=
  match lines with
  | [] => rev (match cur with Some c => rev c :: acc | None => acc end)
  | l :: ls =>
    match classify l with
    | L_subset => group_subsets ls (Some []) (match cur with Some c => rev c :: acc | None => acc end)
    | _ => group_subsets ls (match cur with Some c => Some (l :: c) | None => None end) acc
    end
  end.

Inductive dsresult :=
  | DS_ok (h:header) (subsets:list (list (Z * lval) * list lnode))
  | DS_none                       (* bufr_read_dataset_dump returns 0: nothing loaded *)
  | DS_error.                     (* returns -1 (descriptor mismatch) or the C code's behaviour is undefined *)
(* -> subsets loaded, and whether reading stopped early ('no more descriptors for data': the rest of the file is left unread) *)
Fixpoint load_subsets (fm fq:bool) (nodes:list (list lnode)) (groups:list (list str)) : option (list (list (Z * lval) * list lnode) * bool) :=
  match groups with
  | [] => Some ([], false)
  | g :: gs =>
    let nd := match nodes with n :: _ => n | [] => [] end in
    match load_subset_lines fm fq nd g [] with
    | LR_ok vals rest =>
        match load_subsets fm fq (tl nodes) gs with Some (r, st) => Some ((vals, rest) :: r, st) | None => None end
    | LR_stop vals => Some ([(vals, [])], true)
    | _ => None
    end
  end.
(* bufr_read_dataset_dump on the remaining lines of the file.  nodes = per subset, the descriptor list the loader walks *)
Definition load_dataset (fm fq:bool) (h0:header) (nodes:list (list lnode)) (lines:list str) : dsresult * list str :=
  let '(h, ok, rest) := load_header h0 lines in
  if negb ok then (DS_none, rest) else
  let '(body, rest') := take_dataset_lines rest in
  match load_subsets fm fq nodes (group_subsets body None []) with
  | Some (s, stopped) => (DS_ok h s, if stopped then [] else rest')
  | None => (DS_error, rest')
  end.
(* bufr_genmsgs_from_dump: while (bufr_read_dataset_dump(dts, fp) > 0) *)
Fixpoint load_file (fm fq:bool) (h0:header) (nodes:list (list (list lnode))) (fuel:nat) (lines:list str) : list (header * list (list (Z * lval) * list lnode)) :=
  match fuel with
  | O => []
  | S f =>
    match lines with
    | [] => []
    | _ =>
      match load_dataset fm fq h0 (match nodes with n :: _ => n | [] => [] end) lines with
      | (DS_ok h s, rest) => (h, s) :: load_file fm fq h (tl nodes) f rest
      | _ => []
      end
    end
  end.

Definition print_dataset (h:header) (subsets:list (list ditem)) : list str :=
  print_header h ++
  concat (map (fun p => print_subset (Z.of_nat (S (fst p))) (snd p)) (combine (seq 0 (length subsets)) subsets)).

(* ------------------------------------------------------------------ fgets(ligne, 2048, fp) *)
Fixpoint take_line (n:nat) (text:str) : str * str :=        (* at most n characters, through the first '\n' *)
  match n with
  | O => ([], text)
  | S n' => match text with
            | [] => ([], [])
            | c :: t => if c =? c_nl then ([c], t) else let '(a, b) := take_line n' t in (c :: a, b)
            end
  end.
Fixpoint fgets_lines (fuel:nat) (text:str) : list str :=
  match fuel with
  | O => []
  | S f => match text with
           | [] => []
           | _ => let '(l, rest) := take_line 2047 text in l :: fgets_lines f rest
           end
  end.
Definition file_lines (text:str) : list str := fgets_lines (length text) text.
