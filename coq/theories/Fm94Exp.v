(* Fm94Exp.v — regulation 94.5 as equations of the walk (Table D, fixed and delayed replication, rejections),
   the static expansion (what can be expanded before any data are known), and lemmas about them. *)
From Coq Require Import List ZArith NArith Arith Lia Bool.
From V Require Import Walk Fm94.
Import ListNotations.
Local Open Scope Z_scope.

Ltac simpF :=
  repeat first [ progress change (3 =? 0) with false | progress change (3 =? 1) with false | progress change (3 =? 2) with false
               | progress change (1 =? 0) with false | progress change (1 =? 1) with true | progress change (0 =? 0) with true ];
  cbv iota.

Section Equations.
  Variable T : tables.
  Variable ed : Z.
  Notation wl := (walk_list T ed).

  (* a Table D descriptor is replaced by its sequence *)
  Lemma walk_tableD f st d seq rest s :
    dF d = 3 -> lookupD T d = Some seq -> wl (S f) st (d :: rest) s = wl f st (seq ++ rest) s.
  Proof. intros HF HD. unfold walk_list. cbn [walk]. rewrite HF. simpF. rewrite HD. reflexivity. Qed.

  Lemma walk_tableD_unknown f st d rest s :
    dF d = 3 -> lookupD T d = None -> wl (S f) st (d :: rest) s = Err Reject.
  Proof. intros HF HD. unfold walk_list. cbn [walk]. rewrite HF. simpF. rewrite HD. reflexivity. Qed.

  (* 1 XX YYY, YYY > 0: the next XX descriptors are repeated YYY times *)
  Lemma walk_fixed_replication f st d rest s :
    dF d = 1 -> dY d <> 0 -> (Z.to_nat (dX d) <= length rest)%nat ->
    wl (S f) st (d :: rest) s = wl f st (rep (Z.to_nat (dY d)) (firstn (Z.to_nat (dX d)) rest) ++ skipn (Z.to_nat (dX d)) rest) s.
  Proof.
    intros HF HY HL. unfold walk_list. cbn [walk]. rewrite HF. simpF.
    destruct (dY d =? 0) eqn:E; [apply Z.eqb_eq in E; contradiction|].
    destruct (length rest <? Z.to_nat (dX d))%nat eqn:L; [apply Nat.ltb_lt in L; lia|]. reflexivity.
  Qed.

  (* a replication whose span runs past the end of the template is refused *)
  Lemma walk_span_past_end f st d rest s :
    dF d = 1 -> dY d <> 0 -> (length rest < Z.to_nat (dX d))%nat -> wl (S f) st (d :: rest) s = Err Reject.
  Proof.
    intros HF HY HL. unfold walk_list. cbn [walk]. rewrite HF. simpF.
    destruct (dY d =? 0) eqn:E; [apply Z.eqb_eq in E; contradiction|].
    apply Nat.ltb_lt in HL. rewrite HL. reflexivity.
  Qed.

  (* 1 XX 000: the class 31 factor comes first on the wire, then its count copies of the XX descriptors *)
  Lemma walk_delayed_replication f st d c rest v s' fld :
    dF d = 1 -> dY d = 0 -> is_factor c = true -> mk_field T st c = Ok fld ->
    (Z.to_nat (dX d) <= length rest)%nat ->
    wl (S f) st (d :: c :: rest) (v :: s') =
      ('(st2, s2, w2) <- wl f st (rep (count_of c v) (firstn (Z.to_nat (dX d)) rest) ++ skipn (Z.to_nat (dX d)) rest) s' ;;
       Ok (st2, s2, (fld, v) :: w2)).
  Proof.
    intros HF HY HC HM HL. unfold walk_list. cbn [walk]. rewrite HF. simpF. rewrite HY. simpF. rewrite HC, HM. cbn [bind list_elem].
    match goal with |- context [if ?b then Err Reject else _] => replace b with false by (symmetry; apply Nat.ltb_ge; exact HL) end.
    reflexivity.
  Qed.

  (* delayed replication without a class 31 factor is refused *)
  Lemma walk_delayed_without_factor f st d c rest s :
    dF d = 1 -> dY d = 0 -> is_factor c = false -> wl (S f) st (d :: c :: rest) s = Err Reject.
  Proof. intros HF HY HC. unfold walk_list. cbn [walk]. rewrite HF. simpF. rewrite HY. simpF. rewrite HC. reflexivity. Qed.
  Lemma walk_delayed_at_end f st d s :
    dF d = 1 -> dY d = 0 -> wl (S f) st [d] s = Err Reject.
  Proof. intros HF HY. unfold walk_list. cbn [walk]. rewrite HF. simpF. rewrite HY. reflexivity. Qed.

  (* an element that is in no table (and is not a local descriptor announced by 2 06) is refused *)
  Lemma walk_unknown_element f st d rest s :
    dF d = 0 -> lookupB T d = None -> (is_local d = false \/ o_locw st <= 0) -> wl (S f) st (d :: rest) s = Err Reject.
  Proof.
    intros HF HB HL. unfold walk_list. cbn [walk]. rewrite HF. simpF. unfold mk_field. rewrite HB.
    assert (is_local d && (0 <? o_locw st) = false) as ->.
    { destruct HL as [-> | HL]; [reflexivity|]. destruct (0 <? o_locw st) eqn:L; [apply Z.ltb_lt in L; lia|]. apply andb_false_r. }
    reflexivity.
  Qed.

  (* a Table D entry that refers to itself is never expanded: every amount of fuel is exhausted *)
  Lemma walk_self_reference : forall f st d seq rest s,
    dF d = 3 -> lookupD T d = Some (d :: seq) -> wl f st (d :: rest) s = Err OutOfFuel.
  Proof.
    induction f as [|f IH]; intros st d seq rest s HF HD; [reflexivity|].
    rewrite (walk_tableD f st d (d :: seq) rest s HF HD). cbn [app]. apply IH with (seq := seq); assumption.
  Qed.
End Equations.

(* ------------------------------------------------------------------ static expansion (no data) *)
(* Table D and fixed replication are expanded; a delayed replication stays as descriptor, factor and (raw) body *)
Fixpoint sexpand (fuel:nat) (T:tables) (ds:list Z) : result (list Z) :=
  match fuel with
  | O => Err OutOfFuel
  | S f =>
    match ds with
    | [] => Ok []
    | d :: rest =>
      if dF d =? 3 then
        match lookupD T d with Some seq => sexpand f T (seq ++ rest) | None => Err Reject end
      else if dF d =? 1 then
        let x := Z.to_nat (dX d) in
        if dY d =? 0 then
          match rest with
          | c :: rest' =>
            if is_factor c then
              if (length rest' <? x)%nat then Err Reject else
              tl <- sexpand f T (skipn x rest') ;; Ok (d :: c :: firstn x rest' ++ tl)
            else Err Reject
          | [] => Err Reject
          end
        else
          if (length rest <? x)%nat then Err Reject else
          sexpand f T (rep (Z.to_nat (dY d)) (firstn x rest) ++ skipn x rest)
      else
        tl <- sexpand f T rest ;; Ok (d :: tl)
    end
  end.

(* every Table D entry of a table set expands (terminates within the fuel, no unknown sequence, no bad span) *)
Definition all_tableD_expand (fuel:nat) (T:tables) : bool :=
  forallb (fun p => match sexpand fuel T [fst p] with Ok _ => true | Err _ => false end) (tD T).

Lemma all_tableD_expand_spec fuel T : all_tableD_expand fuel T = true ->
  forall d seq, In (d, seq) (tD T) -> exists l, sexpand fuel T [d] = Ok l.
Proof.
  unfold all_tableD_expand. rewrite forallb_forall. intros H d seq Hin.
  specialize (H _ Hin). cbn in H. destruct (sexpand fuel T [d]) as [l|e]; [exists l; reflexivity | discriminate].
Qed.

Lemma sexpand_fuel_mono : forall f1 T ds l, sexpand f1 T ds = Ok l -> forall f2, (f1 <= f2)%nat -> sexpand f2 T ds = Ok l.
Proof.
  induction f1 as [|f1 IH]; intros T ds l H f2 Hle; [discriminate|].
  destruct f2 as [|f2]; [lia|]. assert (Hle' : (f1 <= f2)%nat) by lia.
  cbn [sexpand] in *. destruct ds as [|d rest]; [exact H|].
  destruct (dF d =? 3).
  - destruct (lookupD T d); [|discriminate]. eapply IH; eauto.
  - destruct (dF d =? 1).
    + destruct (dY d =? 0).
      * destruct rest as [|c rest']; [discriminate|]. destruct (is_factor c); [|discriminate].
        destruct (length rest' <? Z.to_nat (dX d))%nat; [discriminate|].
        destruct (sexpand f1 T (skipn (Z.to_nat (dX d)) rest')) as [tl|e] eqn:E; [|discriminate].
        rewrite (IH _ _ _ E f2 Hle'). exact H.
      * destruct (length rest <? Z.to_nat (dX d))%nat; [discriminate|]. eapply IH; eauto.
    + destruct (sexpand f1 T rest) as [tl|e] eqn:E; [|discriminate]. rewrite (IH _ _ _ E f2 Hle'). exact H.
Qed.

(* ------------------------------------------------------------------ well-nested replication *)
(* every replication span lies inside the template and inside every enclosing span; a delayed replication is followed
   by its class 31 factor.  (Table D sequences count as one descriptor; each is checked on its own.) *)
Fixpoint wf_nest (fuel:nat) (ds:list Z) : bool :=
  match fuel with
  | O => false
  | S f =>
    match ds with
    | [] => true
    | d :: rest =>
      if dF d =? 1 then
        let x := Z.to_nat (dX d) in
        if dY d =? 0 then
          match rest with
          | c :: rest' => is_factor c && (x <=? length rest')%nat && wf_nest f (firstn x rest') && wf_nest f (skipn x rest')
          | [] => false
          end
        else (x <=? length rest)%nat && wf_nest f (firstn x rest) && wf_nest f (skipn x rest)
      else wf_nest f rest
    end
  end.
Definition well_nested (ds:list Z) : bool := wf_nest (S (length ds)) ds.
Definition tableD_well_nested (T:tables) : bool := forallb (fun p => well_nested (snd p)) (tD T).

(* what the regulation accepts as a template, statically: well nested, and everything it names exists *)
Fixpoint all_known (T:tables) (prev:Z) (ds:list Z) : bool :=
  match ds with
  | [] => true
  | d :: rest =>
    (if dF d =? 0 then (match lookupB T d with Some _ => true | None => is_local d && (dF prev =? 2) && (dX prev =? 6) end)
     else if dF d =? 3 then (match lookupD T d with Some _ => true | None => false end) else true) && all_known T d rest
  end.
Definition accepts (fuel:nat) (T:tables) (tmpl:list Z) : bool :=
  well_nested tmpl && match sexpand fuel T tmpl with Ok l => all_known T 0 l | Err _ => false end.
