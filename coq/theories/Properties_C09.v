(* Properties_C09.v — C09: what operators 2 01 - 2 08 do to the data fields, as theorems about the field computation
   (Fm94.mk_field / resolve / post) that encoder and decoder of the reference codec share (Walk.walk is one function). *)
From Coq Require Import List ZArith NArith Arith Lia Bool.
From V Require Import Walk Fm94 Fm94Proof Fm94Ops.
Import ListNotations.
Local Open Scope Z_scope.

Theorem C09_class31_untouched : forall T st d e,
  lookupB T d = Some e -> dX d = 31 ->
  mk_field T st d = Ok (mkF d (kind_of (b_kind e)) (b_width e) (b_scale e) (b_ref e) 0).
Proof. exact class31_untouched. Qed.
Print Assumptions C09_class31_untouched.

Theorem C09_code_and_flag_tables_only_get_the_associated_field : forall T st d e,
  lookupB T d = Some e -> dX d <> 31 -> (b_kind e = UCode \/ b_kind e = UFlag) ->
  mk_field T st d = Ok (mkF d (kind_of (b_kind e)) (b_width e) (b_scale e) (b_ref e) (afw st)).
Proof. exact code_flag_only_af. Qed.
Print Assumptions C09_code_and_flag_tables_only_get_the_associated_field.

Theorem C09_character_elements_only_208_and_204 : forall T st d e,
  lookupB T d = Some e -> dX d <> 31 -> b_kind e = UStr ->
  mk_field T st d = Ok (mkF d FStr (if 0 <? o_cw st then 8 * o_cw st else b_width e) (b_scale e) (b_ref e) (afw st)).
Proof. exact string_only_208_and_af. Qed.
Print Assumptions C09_character_elements_only_208_and_204.

Theorem C09_numeric_elements : forall T st d e,
  lookupB T d = Some e -> dX d <> 31 -> b_kind e = UNum -> o_refdef st <= 0 -> (is_local d = false \/ o_locw st <= 0) ->
  mk_field T st d = Ok (mkF d FNum
     (b_width e + o_dw st + (if o_207 st =? 0 then 0 else (10 * o_207 st + 2) / 3))
     (b_scale e + o_ds st + o_207 st)
     ((match assoc d (o_refs st) with Some r => r | None => b_ref e end) * 10 ^ o_207 st)
     (afw st)).
Proof. exact numeric_operators. Qed.
Print Assumptions C09_numeric_elements.

Theorem C09_203_operands : forall T st d e,
  lookupB T d = Some e -> dX d <> 31 -> b_kind e = UNum -> 0 < o_refdef st ->
  mk_field T st d = Ok (mkF d FRefDef (o_refdef st) 0 0 0).
Proof. exact refdef_operand. Qed.
Print Assumptions C09_203_operands.

Theorem C09_203_new_reference_takes_effect : forall st d w n,
  assoc d (o_refs (post st (mkF d FRefDef w 0 0 0) (mkD 0 (VRaw n)))) = Some (refdef_value w n).
Proof. exact refdef_takes_effect. Qed.
Print Assumptions C09_203_new_reference_takes_effect.

Theorem C09_203_sign_and_magnitude : forall w m, 1 < w -> 0 <= m < 2 ^ (w - 1) ->
  refdef_value w (Z.to_N m) = m /\ (0 < m -> refdef_value w (Z.to_N (2 ^ (w - 1) + m)) = - m).
Proof. exact refdef_value_sign. Qed.
Print Assumptions C09_203_sign_and_magnitude.

Theorem C09_201_cancel : forall ed st y, 0 < y < 256 -> dX (201000 + y) = 1 /\
  forall st1, resolve ed st (201000 + y) = Ok st1 -> o_dw st1 = y - 128 /\
  exists st2, resolve ed st1 201000 = Ok st2 /\ o_dw st2 = 0 /\ o_ds st2 = o_ds st /\ o_af st2 = o_af st /\ o_cw st2 = o_cw st /\ o_207 st2 = o_207 st.
Proof. exact cancel_201. Qed.
Print Assumptions C09_201_cancel.

Theorem C09_204_nesting_and_cancel : forall ed st y, 0 < y < 256 ->
  exists st1, resolve ed st (204000 + y) = Ok st1 /\ afw st1 = y + afw st /\
  exists st2, resolve ed st1 204000 = Ok st2 /\ afw st2 = afw st /\ o_af st2 = o_af st.
Proof. exact af_nesting. Qed.
Print Assumptions C09_204_nesting_and_cancel.

Theorem C09_edition_gate : forall ed st y, 0 <= y < 256 ->
  (ed < 4 -> resolve ed st (207000 + y) = Err Reject /\ resolve ed st (208000 + y) = Err Reject) /\
  (4 <= ed -> (exists s, resolve ed st (207000 + y) = Ok s) /\ (exists s, resolve ed st (208000 + y) = Ok s)) /\
  (exists s, resolve ed st (201000 + y) = Ok s) /\ (exists s, resolve ed st (202000 + y) = Ok s) /\
  (exists s, resolve ed st (203000 + y) = Ok s) /\ (exists s, resolve ed st (204000 + y) = Ok s) /\ (exists s, resolve ed st (206000 + y) = Ok s).
Proof. exact edition_gate. Qed.
Print Assumptions C09_edition_gate.

Theorem C09_206_applies_once : forall T st d y, 0 < y ->
  lookupB T d = None -> is_local d = true ->
  mk_field T (set_locw st y) d = Ok (mkF d FNum y 0 0 (afw st)) /\
  forall v, o_locw (post (set_locw st y) (mkF d FNum y 0 0 (afw st)) v) = 0.
Proof. exact op206_one_shot. Qed.
Print Assumptions C09_206_applies_once.

(* encoder and decoder use the same layout: the data section is the concatenation of the fields of `layout` *)
Theorem C09_encoder_uses_the_layout : forall T ed fuel tmpl s st' lft b,
  walk_enc1 T ed fuel op0 tmpl s = Ok (st', lft, b) ->
  exists fl, layout T ed fuel tmpl s = Ok fl /\ concat_r (map (fun p => enc_elem (fst p) (snd p)) fl) = Ok b /\ s = map snd fl ++ lft.
Proof. exact plain_is_layout. Qed.
Print Assumptions C09_encoder_uses_the_layout.
