(* Properties_C10.v — C10: template expansion = regulation 94.5, and it terminates.
   The walk is the regulation read literally ("replace the descriptor by its expansion"); these theorems state its
   equations, the rejections, termination facts, and the finite theorem over the regenerated shipped tables. *)
From Coq Require Import List ZArith NArith Arith Lia Bool.
From V Require Import Walk Fm94 Fm94Proof Fm94Exp GenTables GenTablesProof.
Import ListNotations.
Local Open Scope Z_scope.

Theorem C10_tableD_replaced_by_its_sequence : forall T ed f st d seq rest s,
  dF d = 3 -> lookupD T d = Some seq -> walk_list T ed (S f) st (d :: rest) s = walk_list T ed f st (seq ++ rest) s.
Proof. exact walk_tableD. Qed.
Print Assumptions C10_tableD_replaced_by_its_sequence.

Theorem C10_fixed_replication : forall T ed f st d rest s,
  dF d = 1 -> dY d <> 0 -> (Z.to_nat (dX d) <= length rest)%nat ->
  walk_list T ed (S f) st (d :: rest) s =
  walk_list T ed f st (rep (Z.to_nat (dY d)) (firstn (Z.to_nat (dX d)) rest) ++ skipn (Z.to_nat (dX d)) rest) s.
Proof. exact walk_fixed_replication. Qed.
Print Assumptions C10_fixed_replication.

Theorem C10_delayed_replication : forall T ed f st d c rest v s' fld,
  dF d = 1 -> dY d = 0 -> is_factor c = true -> mk_field T st c = Ok fld -> (Z.to_nat (dX d) <= length rest)%nat ->
  walk_list T ed (S f) st (d :: c :: rest) (v :: s') =
    ('(st2, s2, w2) <- walk_list T ed f st (rep (count_of c v) (firstn (Z.to_nat (dX d)) rest) ++ skipn (Z.to_nat (dX d)) rest) s' ;;
     Ok (st2, s2, (fld, v) :: w2)).
Proof. exact walk_delayed_replication. Qed.
Print Assumptions C10_delayed_replication.

(* zero factors, 0 31 000 (0/1), 0 31 001/002 (count), 0 31 011/012 (repetition: one copy on the wire) *)
Theorem C10_factor_meaning : forall n,
  count_raw 31000 n = (if N.eqb n 0 then 0 else 1)%nat /\ count_raw 31001 n = N.to_nat n /\ count_raw 31002 n = N.to_nat n /\
  count_raw 31011 n = 1%nat /\ count_raw 31012 n = 1%nat.
Proof. intro n. repeat split. Qed.
Print Assumptions C10_factor_meaning.

Theorem C10_rejects_unknown_sequence : forall T ed f st d rest s,
  dF d = 3 -> lookupD T d = None -> walk_list T ed (S f) st (d :: rest) s = Err Reject.
Proof. exact walk_tableD_unknown. Qed.
Print Assumptions C10_rejects_unknown_sequence.

Theorem C10_rejects_span_past_end : forall T ed f st d rest s,
  dF d = 1 -> dY d <> 0 -> (length rest < Z.to_nat (dX d))%nat -> walk_list T ed (S f) st (d :: rest) s = Err Reject.
Proof. exact walk_span_past_end. Qed.
Print Assumptions C10_rejects_span_past_end.

Theorem C10_rejects_delayed_without_factor : forall T ed f st d c rest s,
  dF d = 1 -> dY d = 0 -> is_factor c = false -> walk_list T ed (S f) st (d :: c :: rest) s = Err Reject.
Proof. exact walk_delayed_without_factor. Qed.
Print Assumptions C10_rejects_delayed_without_factor.

Theorem C10_rejects_unknown_element : forall T ed f st d rest s,
  dF d = 0 -> lookupB T d = None -> (is_local d = false \/ o_locw st <= 0) -> walk_list T ed (S f) st (d :: rest) s = Err Reject.
Proof. exact walk_unknown_element. Qed.
Print Assumptions C10_rejects_unknown_element.

(* a self-referential Table D entry is never expanded into anything: no amount of fuel yields a result *)
Theorem C10_circular_never_expanded : forall T ed f st d seq rest s,
  dF d = 3 -> lookupD T d = Some (d :: seq) -> walk_list T ed f st (d :: rest) s = Err OutOfFuel.
Proof. exact walk_self_reference. Qed.
Print Assumptions C10_circular_never_expanded.

(* fuel is only a termination device: a result, once obtained, is the result for every larger fuel *)
Theorem C10_fuel_irrelevant : forall T ed f1 f2 tmpl s r,
  (f1 <= f2)%nat -> walk_enc1 T ed f1 op0 tmpl s = Ok r -> walk_enc1 T ed f2 op0 tmpl s = Ok r.
Proof. exact fuel_monotone. Qed.
Print Assumptions C10_fuel_irrelevant.

(* finite theorem (bound: the table literals regenerated from /repo/Tables by lib/gentables.py on this run):
   every Table D entry of every shipped version expands, within 400000 steps *)
Theorem C10_every_shipped_tableD_entry_expands :
  forallb (all_tableD_expand (Z.to_nat 400000)) shipped_tables = true.
Proof. exact shipped_tableD_expand. Qed.
Print Assumptions C10_every_shipped_tableD_entry_expands.

Theorem C10_every_shipped_tableD_entry_expands_unfolded : forall T, In T shipped_tables ->
  forall d seq, In (d, seq) (tD T) -> exists l, sexpand (Z.to_nat 400000) T [d] = Ok l.
Proof.
  intros T HT. apply all_tableD_expand_spec.
  exact (proj1 (forallb_forall _ _) shipped_tableD_expand T HT).
Qed.
Print Assumptions C10_every_shipped_tableD_entry_expands_unfolded.
