(* Fm94Bound.v — size bounds for the reference decoder: every successfully decoded element (or compressed column)
   consumes at least one input bit, so the amount of decoded data never exceeds the number of input bits,
   whatever replication factors the data claim.  Used by Properties_C05.v. *)
From Coq Require Import List ZArith NArith Arith Lia Bool.
From V Require Import Walk Fm94 Fm94Proof.
Import ListNotations.
Local Open Scope Z_scope.

(* ------------------------------------------------------------------ the generic walk *)
Section WalkBound.
  Variable opstate field datum : Type.
  Variable lookupD : desc -> option (list desc).
  Variable mk_field : opstate -> desc -> result field.
  Variable resolve  : opstate -> desc -> result opstate.
  Variable op_field : opstate -> desc -> option field.
  Variable post     : opstate -> field -> datum -> opstate.
  Variable is_factor : desc -> bool.
  Variable count_of : desc -> datum -> nat.
  Variable dec : field -> list bool -> result (datum * list bool).
  Hypothesis dec_shrinks : forall f l v tl, dec f l = Ok (v, tl) -> (length tl < length l)%nat.

  Lemma e_dec_shrinks f l s1 v w1 : e_dec field datum dec f l = Ok (s1, v, w1) ->
    w1 = [v] /\ (length s1 < length l)%nat.
  Proof.
    unfold e_dec. destruct (dec f l) as [[v0 t0]|e] eqn:E; [|discriminate]. cbn [bind].
    intro H. inversion H; subst. split; [reflexivity|]. exact (dec_shrinks _ _ _ _ E).
  Qed.

  Lemma walk_dec_bound : forall fuel st ds l st' tl vs,
    walk_dec opstate field datum lookupD mk_field resolve op_field post is_factor count_of dec fuel st ds l
      = Ok (st', tl, vs) ->
    (length vs + length tl <= length l)%nat.
  Proof.
    induction fuel as [|f IH]; intros st ds l st' tl vs H; [discriminate|].
    unfold walk_dec in *. cbn [walk] in *.
    destruct ds as [|d rest0].
    - inversion H; subst. cbn [length]. lia.
    - destruct (dF d =? 0) eqn:F0.
      + destruct (mk_field st d) as [fld|e]; [|discriminate]. cbn [bind] in *.
        destruct (e_dec field datum dec fld l) as [[[s1 v] w1]|e] eqn:E1; [|discriminate]. cbn [bind] in H.
        destruct (e_dec_shrinks _ _ _ _ _ E1) as (-> & L1).
        destruct (walk _ _ _ _ _ _ _ _ _ _ _ _ _ _ _ f (post st fld v) rest0 s1) as [[[st2 s2] w2]|e] eqn:E2; [|discriminate].
        cbn [bind] in H. inversion H; subst.
        pose proof (IH _ _ _ _ _ _ E2) as L2. cbn [app length]. lia.
      + destruct (dF d =? 1) eqn:F1.
        * destruct (dY d =? 0) eqn:Y0.
          -- destruct rest0 as [|c rest']; [discriminate|].
             destruct (is_factor c); [|discriminate].
             destruct (mk_field st c) as [fld|e]; [|discriminate]. cbn [bind] in *.
             destruct (e_dec field datum dec fld l) as [[[s1 v] w1]|e] eqn:E1; [|discriminate]. cbn [bind] in H.
             destruct (e_dec_shrinks _ _ _ _ _ E1) as (-> & L1).
             destruct (length rest' <? Z.to_nat (dX d))%nat; [discriminate|].
             destruct (walk _ _ _ _ _ _ _ _ _ _ _ _ _ _ _ f st _ s1) as [[[st2 s2] w2]|e] eqn:E2; [|discriminate].
             cbn [bind] in H. inversion H; subst.
             pose proof (IH _ _ _ _ _ _ E2) as L2. cbn [app length]. lia.
          -- destruct (length rest0 <? Z.to_nat (dX d))%nat; [discriminate|].
             exact (IH _ _ _ _ _ _ H).
        * destruct (dF d =? 2).
          -- destruct (op_field st d) as [fld|].
             ++ destruct (e_dec field datum dec fld l) as [[[s1 v] w1]|e] eqn:E1; [|discriminate]. cbn [bind] in H.
                destruct (e_dec_shrinks _ _ _ _ _ E1) as (-> & L1).
                destruct (walk _ _ _ _ _ _ _ _ _ _ _ _ _ _ _ f st rest0 s1) as [[[st2 s2] w2]|e] eqn:E2; [|discriminate].
                cbn [bind] in H. inversion H; subst.
                pose proof (IH _ _ _ _ _ _ E2) as L2. cbn [app length]. lia.
             ++ destruct (resolve st d) as [st1|e]; [|discriminate]. cbn [bind] in *. exact (IH _ _ _ _ _ _ H).
          -- destruct (lookupD d) as [seq|]; [|discriminate]. exact (IH _ _ _ _ _ _ H).
  Qed.
End WalkBound.

(* ------------------------------------------------------------------ bit readers consume exactly what they read *)
Lemma dec_n_length : forall w acc l v tl, dec_n w acc l = Some (v, tl) -> length l = (w + length tl)%nat.
Proof.
  induction w as [|k IH]; intros acc l v tl H; cbn [dec_n] in H.
  - inversion H; subst. reflexivity.
  - destruct l as [|b0 t]; [discriminate|]. cbn [length]. rewrite (IH _ _ _ _ H). lia.
Qed.

Lemma dec_bytes_length : forall k l s tl, dec_bytes k l = Some (s, tl) -> length l = (8 * k + length tl)%nat.
Proof.
  induction k as [|k IH]; intros l s tl H; cbn [dec_bytes] in H.
  - inversion H; subst. reflexivity.
  - destruct (dec_n 8 0%N l) as [[c l1]|] eqn:E1; [|discriminate].
    destruct (dec_bytes k l1) as [[s' l2]|] eqn:E2; [|discriminate].
    inversion H; subst. rewrite (dec_n_length _ _ _ _ _ E1), (IH _ _ _ E2). lia.
Qed.

Lemma str_octets_pos w : 0 < w -> w mod 8 = 0 -> (1 <= Z.to_nat (w / 8))%nat.
Proof. intros W M. pose proof (Z.div_mod w 8). lia. Qed.

(* ------------------------------------------------------------------ one element *)
Lemma dec_val_consumes f l v tl : wf_field f = true -> dec_val f l = Ok (v, tl) -> (length tl < length l)%nat.
Proof.
  intros WF H. apply wf_spec in WF. destruct WF as (W0 & A & WS). unfold dec_val in H.
  destruct (is_str (f_kind f)) eqn:IS.
  - destruct (dec_bytes (Z.to_nat (f_width f / 8)) l) as [[s t]|] eqn:E; [|discriminate]. inversion H; subst.
    rewrite (dec_bytes_length _ _ _ _ E). destruct WS as [_ M].
    pose proof (str_octets_pos _ W0 M). lia.
  - destruct (dec_n (Z.to_nat (f_width f)) 0%N l) as [[n t]|] eqn:E; [|discriminate]. inversion H; subst.
    rewrite (dec_n_length _ _ _ _ _ E). lia.
Qed.

Lemma dec_elem_consumes : forall f l v tl, dec_elem f l = Ok (v, tl) -> (length tl < length l)%nat.
Proof.
  intros f l v tl H. unfold dec_elem in H.
  destruct (wf_field f) eqn:WF; [|discriminate].
  destruct (0 <? f_afw f) eqn:A0.
  - destruct (dec_n (Z.to_nat (f_afw f)) 0%N l) as [[a t]|] eqn:EA; [|discriminate].
    destruct (dec_val f t) as [[val t2]|e] eqn:EV; [|discriminate]. cbn [bind] in H. inversion H; subst.
    pose proof (dec_n_length _ _ _ _ _ EA) as L1. pose proof (dec_val_consumes _ _ _ _ WF EV) as L2. lia.
  - destruct (dec_val f l) as [[val t2]|e] eqn:EV; [|discriminate]. cbn [bind] in H. inversion H; subst.
    exact (dec_val_consumes _ _ _ _ WF EV).
Qed.

(* ------------------------------------------------------------------ uncompressed Section 4 *)
Lemma walk_dec1_bound T ed fuel st ds l st' tl vs :
  walk_dec1 T ed fuel st ds l = Ok (st', tl, vs) -> (length vs + length tl <= length l)%nat.
Proof. unfold walk_dec1. intro H. eapply walk_dec_bound; [exact dec_elem_consumes|exact H]. Qed.

Lemma dec_plain_size_bound : forall T ed fuel tmpl nsub l subsets tl,
  dec_plain T ed fuel tmpl nsub l = Ok (subsets, tl) ->
  (fold_right (fun s acc => length s + acc) 0 subsets + length tl <= length l)%nat.
Proof.
  intros T ed fuel tmpl. induction nsub as [|k IH]; intros l subsets tl H; cbn [dec_plain] in H.
  - inversion H; subst. cbn [fold_right]. lia.
  - destruct (walk_dec1 T ed fuel op0 tmpl l) as [[[st' l1] vs]|e] eqn:E1; [|discriminate]. cbn [bind] in H.
    destruct (dec_plain T ed fuel tmpl k l1) as [[rest l2]|e] eqn:E2; [|discriminate]. cbn [bind] in H.
    inversion H; subst.
    pose proof (IH _ _ _ E2) as L2. pose proof (walk_dec1_bound _ _ _ _ _ _ _ _ _ E1) as L1.
    cbn [fold_right]. lia.
Qed.

(* ------------------------------------------------------------------ compressed columns *)
Lemma dec_incs_length : forall k nb r0 miss l vs tl, dec_incs k nb r0 miss l = Some (vs, tl) ->
  (length tl <= length l)%nat.
Proof.
  induction k as [|k IH]; intros nb r0 miss l vs tl H; cbn [dec_incs] in H.
  - inversion H; subst. lia.
  - destruct (dec_n nb 0%N l) as [[i l1]|] eqn:E1; [|discriminate].
    destruct (dec_incs k nb r0 miss l1) as [[vs' l2]|] eqn:E2; [|discriminate].
    inversion H; subst. pose proof (dec_n_length _ _ _ _ _ E1). pose proof (IH _ _ _ _ _ _ E2). lia.
Qed.

Lemma dec_strs_length : forall k wo l ss tl, dec_strs k wo l = Some (ss, tl) -> (length tl <= length l)%nat.
Proof.
  induction k as [|k IH]; intros wo l ss tl H; cbn [dec_strs] in H.
  - inversion H; subst. lia.
  - destruct (dec_bytes wo l) as [[s l1]|] eqn:E1; [|discriminate].
    destruct (dec_strs k wo l1) as [[ss' l2]|] eqn:E2; [|discriminate].
    inversion H; subst. pose proof (dec_bytes_length _ _ _ _ E1). pose proof (IH _ _ _ _ E2). lia.
Qed.

(* a numeric column reads w bits of R0 and 6 bits of NBINC before anything else *)
Lemma dec_numcol_length w miss nsub l vs tl : dec_numcol w miss nsub l = Ok (vs, tl) ->
  (Z.to_nat w + 6 + length tl <= length l)%nat.
Proof.
  unfold dec_numcol. intro H.
  destruct (dec_n (Z.to_nat w) 0%N l) as [[r0 l1]|] eqn:E1; [|discriminate].
  destruct (dec_n 6 0%N l1) as [[nb l2]|] eqn:E2; [|discriminate].
  pose proof (dec_n_length _ _ _ _ _ E1) as L1. pose proof (dec_n_length _ _ _ _ _ E2) as L2.
  destruct (N.eqb nb 0) eqn:NB0.
  - inversion H; subst. lia.
  - destruct (match miss with Some _ => (Z.to_N w <? nb)%N | None => false end) eqn:MW; [discriminate|].
    destruct (dec_incs nsub (N.to_nat nb) r0 miss l2) as [[vs' l3]|] eqn:E3; [|discriminate].
    inversion H; subst. pose proof (dec_incs_length _ _ _ _ _ _ _ E3). lia.
Qed.

Lemma dec_strcol_length w nsub l ss tl : dec_strcol w nsub l = Ok (ss, tl) ->
  (8 * Z.to_nat (w / 8) + 6 + length tl <= length l)%nat.
Proof.
  unfold dec_strcol. intro H.
  destruct (dec_bytes (Z.to_nat (w / 8)) l) as [[r0 l1]|] eqn:E1; [|discriminate].
  destruct (dec_n 6 0%N l1) as [[nb l2]|] eqn:E2; [|discriminate].
  pose proof (dec_bytes_length _ _ _ _ E1) as L1. pose proof (dec_n_length _ _ _ _ _ E2) as L2.
  destruct (N.eqb nb 0) eqn:NB0.
  - inversion H; subst. lia.
  - destruct (negb (N.eqb nb (N.of_nat (Z.to_nat (w / 8))))) eqn:NW; [discriminate|].
    destruct (dec_strs nsub (Z.to_nat (w / 8)) l2) as [[ss' l3]|] eqn:E3; [|discriminate].
    inversion H; subst. pose proof (dec_strs_length _ _ _ _ _ E3). lia.
Qed.

Lemma dec_col_consumes nsub : forall f l col tl, dec_col nsub f l = Ok (col, tl) -> (length tl < length l)%nat.
Proof.
  intros f l col tl H. unfold dec_col in H.
  destruct (wf_field f) eqn:WF; [|discriminate]. cbn [negb] in H.
  destruct (Nat.eqb nsub 0) eqn:N0; [discriminate|].
  assert (LA : forall afs l1,
    (if 0 <? f_afw f then dec_numcol (f_afw f) None nsub l else Ok (repeat 0%N nsub, l)) = Ok (afs, l1) ->
    (length l1 <= length l)%nat).
  { intros afs l1 HA. destruct (0 <? f_afw f) eqn:A0.
    - pose proof (dec_numcol_length _ _ _ _ _ _ HA). lia.
    - inversion HA; subst. lia. }
  destruct (if 0 <? f_afw f then dec_numcol (f_afw f) None nsub l else Ok (repeat 0%N nsub, l))
    as [[afs l1]|e] eqn:EA; [|discriminate].
  pose proof (LA _ _ eq_refl) as L1. clear LA. cbn [bind] in H.
  assert (L2 : forall c2 l2,
    (if is_str (f_kind f)
     then '(ss, t) <- dec_strcol (f_width f) nsub l1 ;; Ok (map (fun p => mkD (fst p) (VStr (snd p))) (combine afs ss), t)
     else '(ns, t) <- dec_numcol (f_width f) (Some (allones (f_width f))) nsub l1 ;;
          Ok (map (fun p => mkD (fst p) (VRaw (snd p))) (combine afs ns), t)) = Ok (c2, l2) ->
    (length l2 < length l1)%nat).
  { intros c2 l2 HV. destruct (is_str (f_kind f)) eqn:IS.
    - destruct (dec_strcol (f_width f) nsub l1) as [[ss t]|e] eqn:ES; [|discriminate]. cbn [bind] in HV.
      inversion HV; subst. pose proof (dec_strcol_length _ _ _ _ _ ES). lia.
    - destruct (dec_numcol (f_width f) (Some (allones (f_width f))) nsub l1) as [[ns t]|e] eqn:EN; [|discriminate].
      cbn [bind] in HV. inversion HV; subst. pose proof (dec_numcol_length _ _ _ _ _ _ EN). lia. }
  destruct (if is_str (f_kind f) then _ else _) as [[c2 l2]|e] eqn:EV; [|discriminate].
  pose proof (L2 _ _ eq_refl) as L2'. clear L2. cbn [bind] in H.
  destruct (is_factor (f_desc f) && negb (match raws c2 with Some l => all_eq l | None => false end));
    [discriminate|].
  inversion H; subst. lia.
Qed.

Lemma dec_comp_cols_size_bound : forall T ed fuel tmpl nsub l cols tl,
  dec_comp_cols T ed nsub fuel tmpl l = Ok (cols, tl) -> (length cols + length tl <= length l)%nat.
Proof.
  intros T ed fuel tmpl nsub l cols tl H. unfold dec_comp_cols in H.
  destruct (walk_decC T ed nsub fuel op0 tmpl l) as [[[st' l1] cs]|e] eqn:E1; [|discriminate]. cbn [bind] in H.
  inversion H; subst. unfold walk_decC in E1.
  eapply walk_dec_bound; [exact (dec_col_consumes nsub)|exact E1].
Qed.
