(* Properties_Fm94.v — the central theorems about the FM 94 reference codec (Fm94.v), used by
   properties C01, C02, C03, C04 and C07.  Only statements, `exact`, Print Assumptions. *)
From Coq Require Import List ZArith NArith Arith Lia Bool.
From V Require Import Walk Fm94 Fm94Proof.
Import ListNotations.
Local Open Scope Z_scope.

(* one element: what is encoded is what is decoded, whatever follows it in the bit stream *)
Theorem Fm94_elem_roundtrip : forall f v b tl,
  enc_elem f v = Ok b -> dec_elem f (b ++ tl) = Ok (v, tl).
Proof. exact elem_rt. Qed.
Print Assumptions Fm94_elem_roundtrip.

(* ... and the uncompressed encoding of an element is unique: whatever decodes was produced by the encoder *)
Theorem Fm94_elem_sound : forall f l v tl,
  dec_elem f l = Ok (v, tl) -> exists b, enc_elem f v = Ok b /\ l = b ++ tl.
Proof. exact elem_sound. Qed.
Print Assumptions Fm94_elem_sound.

(* one compressed column, for EVERY legal choice of local reference value and increment width *)
Theorem Fm94_column_roundtrip : forall nsub pick f col b tl,
  enc_col nsub pick f col = Ok b -> dec_col nsub f (b ++ tl) = Ok (col, tl).
Proof. exact col_rt. Qed.
Print Assumptions Fm94_column_roundtrip.

(* uncompressed Section 4: any template (any nesting depth, any replication counts, operators), any number of subsets *)
Theorem Fm94_plain_roundtrip : forall T ed fuel tmpl subsets b tl,
  enc_plain T ed fuel tmpl subsets = Ok b ->
  dec_plain T ed fuel tmpl (length subsets) (b ++ tl) = Ok (subsets, tl).
Proof. exact plain_roundtrip. Qed.
Print Assumptions Fm94_plain_roundtrip.

(* the decoder accepts nothing the encoder could not have produced (uncompressed data have one encoding) *)
Theorem Fm94_plain_sound : forall T ed fuel tmpl nsub l subsets tl,
  dec_plain T ed fuel tmpl nsub l = Ok (subsets, tl) ->
  length subsets = nsub /\ exists b, enc_plain T ed fuel tmpl subsets = Ok b /\ l = b ++ tl.
Proof. exact plain_sound. Qed.
Print Assumptions Fm94_plain_sound.

(* compressed Section 4, for every choice policy *)
Theorem Fm94_comp_roundtrip : forall T ed pick fuel tmpl subsets b tl,
  enc_comp T ed pick fuel tmpl subsets = Ok b ->
  dec_comp T ed fuel tmpl (length subsets) (b ++ tl) = Ok (subsets, tl).
Proof. exact comp_roundtrip. Qed.
Print Assumptions Fm94_comp_roundtrip.

(* compression never changes content *)
Theorem Fm94_compression_preserves_content : forall T ed pick fuel tmpl subsets b1 b2 tl1 tl2,
  enc_plain T ed fuel tmpl subsets = Ok b1 ->
  enc_comp T ed pick fuel tmpl subsets = Ok b2 ->
  exists d, dec_plain T ed fuel tmpl (length subsets) (b1 ++ tl1) = Ok (d, tl1) /\
            dec_comp T ed fuel tmpl (length subsets) (b2 ++ tl2) = Ok (d, tl2) /\ d = subsets.
Proof. exact compression_preserves_content. Qed.
Print Assumptions Fm94_compression_preserves_content.

(* the encoder lays the data out exactly as the field list (layout) says: widths, in order, AF first *)
Theorem Fm94_plain_is_layout : forall T ed fuel tmpl s st' lft b,
  walk_enc1 T ed fuel op0 tmpl s = Ok (st', lft, b) ->
  exists fl, layout T ed fuel tmpl s = Ok fl /\
             concat_r (map (fun p => enc_elem (fst p) (snd p)) fl) = Ok b /\
             s = map snd fl ++ lft.
Proof. exact plain_is_layout. Qed.
Print Assumptions Fm94_plain_is_layout.

(* more fuel never changes a result: fuel is only a termination device *)
Theorem Fm94_fuel_monotone : forall T ed f1 f2 tmpl s r,
  (f1 <= f2)%nat -> walk_enc1 T ed f1 op0 tmpl s = Ok r -> walk_enc1 T ed f2 op0 tmpl s = Ok r.
Proof. exact fuel_monotone. Qed.
Print Assumptions Fm94_fuel_monotone.

(* octet packing of Section 4 *)
Theorem Fm94_bytes_bits : forall l, exists pad, bytes_to_bits (bits_to_bytes l) = l ++ repeat false pad /\ (pad < 8)%nat.
Proof. exact bytes_bits. Qed.
Print Assumptions Fm94_bytes_bits.

(* non-vacuity: a template with a Table D sequence, delayed replication with a zero count, an operator scope *)
Definition exT : tables := mkT
  [(1001, mkB UNum 0 0 7); (12101, mkB UNum 2 0 16); (31001, mkB UNum 0 0 8); (1015, mkB UStr 0 0 160); (20011, mkB UCode 0 0 4)]
  [(301001, [1001; 12101])].
Example Fm94_example :
  let subsets := [[mkD 0 (VRaw 71); mkD 0 (VRaw 27315); mkD 0 (VRaw 2); mkD 0 (VRaw 3); mkD 0 (VRaw 4); mkD 0 (VRaw 100000)];
                  [mkD 0 (VRaw 72); mkD 0 (VRaw 65535); mkD 0 (VRaw 0); mkD 0 (VRaw 131071)]] in
  exists b, enc_plain exT 4 100 [301001; 101000; 31001; 20011; 201129; 12101; 201000] subsets = Ok b /\ length b = 104%nat.
Proof. eexists. split; [vm_compute; reflexivity|reflexivity]. Qed.
