(* ScalImplProof.v — C08: theorems about the floating-point mirror of the library's scaling functions. *)
From Coq Require Import ZArith QArith Qreals Reals Bool Lia Lra Psatz.
From Flocq Require Import Core BinarySingleNaN Relative.
From V Require Import ScalSpec ScalSpecProof ScalImpl.
Open Scope R_scope.

Notation fexp64 := (SpecFloat.fexp 53 1024).

(* ------------------------------------------------------------------ integers below 2^53 are doubles *)
Lemma format_int (z : Z) : (Z.abs z < 2 ^ 53)%Z -> generic_format radix2 fexp64 (IZR z).
Proof.
  intro H. change fexp64 with (FLT_exp (3 - 1024 - 53) 53).
  apply generic_format_FLT.
  exists (Float radix2 z 0).
  - unfold F2R; simpl. lra.
  - simpl. exact H.
  - simpl. lia.
Qed.

Lemma d_of_Z_exact z : (Z.abs z < 2 ^ 53)%Z -> B2R (d_of_Z z) = IZR z /\ is_finite (d_of_Z z) = true.
Proof.
  intro H. unfold d_of_Z.
  pose proof (binary_normalize_correct 53 1024 Hprec64 Hmax64 mode_NE z 0 false) as C.
  cbv zeta in C. unfold F2R in C; simpl Fnum in C; simpl Fexp in C. rewrite Rmult_1_r in C.
  rewrite round_generic in C; [|apply valid_rnd_round_mode | apply format_int; exact H].
  rewrite Rlt_bool_true in C. { destruct C as (C1 & C2 & _). split; assumption. }
  rewrite <- abs_IZR. apply Rle_lt_trans with (IZR (2 ^ 53)). apply IZR_le; lia.
  change (bpow radix2 1024) with (IZR (2 ^ 1024)). apply IZR_lt. reflexivity.
Qed.

(* ------------------------------------------------------------------ one correctly rounded division of exact operands *)
Lemma ddiv_close n (p : b64) P :
  (Z.abs n < 2 ^ 53)%Z -> (1 <= P < 2 ^ 1000)%Z ->
  B2R p = IZR P -> is_finite p = true ->
  Rabs (B2R (ddiv (d_of_Z n) p) - IZR n / IZR P) <= / 2 * bpow radix2 (- 53 + 1) * Rabs (IZR n / IZR P)
  /\ is_finite (ddiv (d_of_Z n) p) = true.
Proof.
  intros Hn Hp Ep Fp.
  destruct (d_of_Z_exact n Hn) as [En Fn].
  assert (Hp0 : IZR P <> 0) by (apply not_0_IZR; lia).
  assert (Hp1 : 1 <= IZR P) by (apply IZR_le; lia).
  unfold ddiv.
  pose proof (Bdiv_correct 53 1024 Hprec64 Hmax64 mode_NE (d_of_Z n) p) as C.
  rewrite En, Ep in C. specialize (C Hp0).
  set (x := IZR n / IZR P) in *.
  assert (Hx : Rabs x <= IZR (2 ^ 53 - 1)).
  { unfold x, Rdiv. rewrite Rabs_mult, Rabs_inv, <- abs_IZR, (Rabs_pos_eq (IZR P)) by lra.
    apply Rle_trans with (IZR (Z.abs n) * 1).
    - apply Rmult_le_compat_l; [apply IZR_le; lia|]. rewrite <- Rinv_1. apply Rinv_le_contravar; lra.
    - rewrite Rmult_1_r. apply IZR_le. lia. }
  assert (Hov : Rabs (round radix2 fexp64 (round_mode mode_NE) x) < bpow radix2 1024).
  { apply Rle_lt_trans with (IZR (2 ^ 53 - 1)).
    - apply abs_round_le_generic; [apply (fexp_correct 53 1024 Hprec64) | apply valid_rnd_round_mode | | exact Hx].
      apply format_int. vm_compute. reflexivity.
    - change (bpow radix2 1024) with (IZR (2 ^ 1024)). apply IZR_lt. reflexivity. }
  rewrite Rlt_bool_true in C by exact Hov.
  destruct C as (C1 & C2 & _). split; [|rewrite C2; exact Fn].
  rewrite C1.
  destruct (Z.eq_dec n 0) as [->|Hn0].
  - unfold x. unfold Rdiv. rewrite Rmult_0_l, round_0 by apply valid_rnd_round_mode.
    rewrite Rminus_0_r, Rabs_R0. lra.
  - change fexp64 with (FLT_exp (3 - 1024 - 53) 53). simpl round_mode.
    apply relative_error_N_FLT. reflexivity.
    apply Rle_trans with (/ IZR (2 ^ 1000)).
    + change (bpow radix2 (3 - 1024 - 53 + 53 - 1)) with (/ IZR (2 ^ 1022)). apply Rinv_le_contravar.
      apply IZR_lt; reflexivity. apply IZR_le. vm_compute. discriminate.
    + unfold x, Rdiv. rewrite Rabs_mult, Rabs_inv, <- abs_IZR, (Rabs_pos_eq (IZR P)) by lra.
      apply Rle_trans with (1 * / IZR P).
      * rewrite Rmult_1_l. apply Rinv_le_contravar; [lra|]. apply IZR_le. lia.
      * apply Rmult_le_compat_r. apply Rlt_le, Rinv_0_lt_compat; lra. apply IZR_le. lia.
Qed.

(* ------------------------------------------------------------------ one correctly rounded product of exact operands *)
Lemma dmul_close n (p : b64) P :
  (Z.abs n < 2 ^ 53)%Z -> (1 <= P < 2 ^ 100)%Z ->
  B2R p = IZR P -> is_finite p = true ->
  Rabs (B2R (dmul (d_of_Z n) p) - IZR n * IZR P) <= / 2 * bpow radix2 (- 53 + 1) * Rabs (IZR n * IZR P)
  /\ is_finite (dmul (d_of_Z n) p) = true.
Proof.
  intros Hn Hp Ep Fp.
  destruct (d_of_Z_exact n Hn) as [En Fn].
  assert (Hp1 : 1 <= IZR P) by (apply IZR_le; lia).
  unfold dmul.
  pose proof (Bmult_correct 53 1024 Hprec64 Hmax64 mode_NE (d_of_Z n) p) as C.
  rewrite En, Ep in C.
  set (x := IZR n * IZR P) in *.
  assert (Hx : Rabs x <= bpow radix2 200).
  { unfold x. rewrite <- mult_IZR, <- abs_IZR. change (bpow radix2 200) with (IZR (2 ^ 200)). apply IZR_le.
    rewrite Z.abs_mul. rewrite (Z.abs_eq P) by lia.
    apply Z.le_trans with (2 ^ 53 * 2 ^ 100)%Z; [|vm_compute; discriminate].
    apply Z.mul_le_mono_nonneg; lia. }
  assert (Hov : Rabs (round radix2 fexp64 (round_mode mode_NE) x) < bpow radix2 1024).
  { apply Rle_lt_trans with (bpow radix2 200).
    - apply abs_round_le_generic; [apply (fexp_correct 53 1024 Hprec64) | apply valid_rnd_round_mode | | exact Hx].
      apply generic_format_bpow. unfold fexp64, SpecFloat.fexp, SpecFloat.emin. lia.
    - apply bpow_lt. lia. }
  rewrite Rlt_bool_true in C by exact Hov.
  destruct C as (C1 & C2 & _). split; [|rewrite C2, Fn, Fp; reflexivity].
  rewrite C1.
  destruct (Z.eq_dec n 0) as [->|Hn0].
  - unfold x. rewrite Rmult_0_l, round_0 by apply valid_rnd_round_mode.
    rewrite Rminus_0_r, Rabs_R0. lra.
  - change fexp64 with (FLT_exp (3 - 1024 - 53) 53). simpl round_mode.
    apply relative_error_N_FLT. reflexivity.
    apply Rle_trans with 1.
    + change 1 with (bpow radix2 0). apply bpow_le. lia.
    + unfold x. rewrite Rabs_mult, (Rabs_pos_eq (IZR P)), <- abs_IZR by lra.
      assert (1 <= IZR (Z.abs n)) by (apply IZR_le; lia). nra.
Qed.

(* ------------------------------------------------------------------ the contract assumed about libm's pow *)
Definition pow10_contract (pow10 : Z -> b64) : Prop :=
  forall k, (0 <= k <= 22)%Z -> B2R (pow10 k) = IZR (10 ^ k) /\ is_finite (pow10 k) = true.

Lemma pow10_lt_2_53 k : (0 <= k <= 22)%Z -> (1 <= 10 ^ k < 2 ^ 1000)%Z.
Proof.
  intro H. split.
  - apply (Z.pow_le_mono_r 10 0 k); lia.
  - apply Z.le_lt_trans with (10 ^ 22)%Z; [apply Z.pow_le_mono_r; lia | reflexivity].
Qed.

Lemma pow10_lt_2_100 k : (0 <= k <= 22)%Z -> (1 <= 10 ^ k < 2 ^ 100)%Z.
Proof.
  intro H. split.
  - apply (Z.pow_le_mono_r 10 0 k); lia.
  - apply Z.le_lt_trans with (10 ^ 22)%Z; [apply Z.pow_le_mono_r; lia | reflexivity].
Qed.

Lemma p10_as_pow s : (0 <= s)%Z -> bpow radix10 s = IZR (10 ^ s).
Proof. intro H. symmetry. change 10%Z with (radix_val radix10). apply IZR_Zpower. exact H. Qed.

Lemma p10_as_inv s : (0 <= s)%Z -> bpow radix10 (- s) = / IZR (10 ^ s).
Proof.
  intro H. rewrite bpow_opp. f_equal. symmetry. change 10%Z with (radix_val radix10). apply IZR_Zpower. exact H.
Qed.

Lemma sint64_id z : (- 2 ^ 63 <= z < 2 ^ 63)%Z -> sint64 z = z.
Proof. intro H. unfold sint64. rewrite Z.mod_small by lia. lia. Qed.

Section WithPow.
Variable pow10 : Z -> b64.
Variable fx_neg : bool.       (* which variant of the negative-scale arithmetic (ScalImpl.v): the theorems of this section hold for both *)
Hypothesis pow10_ok : pow10_contract pow10.

(* the library's decode is within 2^-53 relative of the exact physical value *)
Theorem decode_float_close en i :
  (0 <= e_scale en <= 22)%Z -> (0 <= i)%Z -> i <> missing_ivalue (e_nbits en) ->
  (Z.abs (i + e_ref en) < 2 ^ 53)%Z ->
  Rabs (B2R (cvt_i64_to_dval pow10 fx_neg en i) - physR (e_scale en) (e_ref en) i)
    <= bpow radix2 (- 53) * Rabs (physR (e_scale en) (e_ref en) i)
  /\ is_finite (cvt_i64_to_dval pow10 fx_neg en i) = true.
Proof.
  intros Hs Hi Hm Hn. unfold cvt_i64_to_dval.
  destruct (Z.ltb_spec i 0) as [L|_]; [lia|].
  destruct (Z.eqb_spec i (missing_ivalue (e_nbits en))) as [E|_]; [contradiction|].
  cbn [orb]. rewrite sint64_id by lia.
  destruct (Z.ltb_spec (e_scale en) 0) as [L|_]; [lia|]. rewrite andb_false_r.
  destruct (pow10_ok (e_scale en) Hs) as [Ep Fp].
  destruct (ddiv_close (i + e_ref en) (pow10 (e_scale en)) (10 ^ e_scale en) Hn (pow10_lt_2_53 _ Hs) Ep Fp) as [C F].
  split; [|exact F].
  unfold physR. rewrite p10_as_inv by lia. fold (Rdiv (IZR (i + e_ref en)) (IZR (10 ^ e_scale en))).
  replace (bpow radix2 (-53)) with (/ 2 * bpow radix2 (- 53 + 1)); [exact C|].
  change (bpow radix2 (-53 + 1)) with (bpow radix2 (1 + -53)). rewrite bpow_plus. change (bpow radix2 1) with 2. field.
Qed.

(* every representable raw value survives the library's decode followed by the regulation's quantisation *)
Theorem spec_raw_of_library_decode en i :
  (0 <= e_scale en <= 22)%Z -> (1 <= e_nbits en <= 32)%Z -> (- 2 ^ 31 <= e_ref en < 2 ^ 31)%Z ->
  (0 <= i <= 2 ^ e_nbits en - 2)%Z ->
  quantR (e_scale en) (e_ref en) (e_nbits en) (B2R (cvt_i64_to_dval pow10 fx_neg en i)) = i.
Proof.
  intros Hs Hw Hr Hi.
  assert (W : (2 ^ e_nbits en <= 2 ^ 32)%Z) by (apply Z.pow_le_mono_r; lia).
  assert (Hm : i <> missing_ivalue (e_nbits en)).
  { unfold missing_ivalue. destruct (Z.leb_spec (e_nbits en) 0); [lia|]. destruct (Z.leb_spec 64 (e_nbits en)); lia. }
  assert (Hn : (Z.abs (i + e_ref en) < 2 ^ 52)%Z) by lia.
  destruct (decode_float_close en i Hs (proj1 Hi) Hm) as [C _]; [lia|].
  apply quant_tolerant; [exact Hi|].
  eapply Rle_lt_trans; [exact C|].
  unfold physR. rewrite Rabs_mult, (Rabs_pos_eq (bpow radix10 _)) by apply Rlt_le, p10_pos.
  rewrite <- Rmult_assoc. unfold Rdiv. rewrite (Rmult_comm (bpow radix10 _) (/ 2)).
  apply Rmult_lt_compat_r; [apply p10_pos|].
  rewrite <- abs_IZR.
  apply Rle_lt_trans with (bpow radix2 (-53) * IZR (2 ^ 52 - 1)).
  - apply Rmult_le_compat_l; [apply bpow_ge_0|]. apply IZR_le. lia.
  - change (bpow radix2 (-53)) with (/ IZR (2 ^ 53)).
    apply Rmult_lt_reg_l with (IZR (2 ^ 53)); [apply IZR_lt; reflexivity|].
    rewrite <- Rmult_assoc, Rinv_r, Rmult_1_l by (apply not_0_IZR; discriminate).
    replace (IZR (2 ^ 53) * / 2) with (IZR (2 ^ 52)).
    + apply IZR_lt. reflexivity.
    + change (2 ^ 53)%Z with (2 * 2 ^ 52)%Z. rewrite mult_IZR. field.
Qed.


(* all ones <-> missing, library side *)
Theorem decode_allones_is_missing en :
  (1 <= e_nbits en < 64)%Z -> cvt_i64_to_dval pow10 fx_neg en (2 ^ e_nbits en - 1) = dbl_max.
Proof.
  intro Hw. unfold cvt_i64_to_dval, missing_ivalue.
  destruct (Z.leb_spec (e_nbits en) 0); [lia|]. destruct (Z.leb_spec 64 (e_nbits en)); [lia|].
  rewrite Z.eqb_refl, orb_true_r. reflexivity.
Qed.

Lemma is_missing_dbl_max : is_missing_double dbl_max = true.
Proof. vm_compute. reflexivity. Qed.

Theorem encode_missing_is_allones desc en :
  (1 <= e_nbits en <= 32)%Z -> cvt_dval_to_i64 pow10 fx_neg desc en dbl_max = (2 ^ e_nbits en - 1)%Z.
Proof.
  intro Hw. unfold cvt_dval_to_i64.
  destruct (Z.ltb_spec 32 (e_nbits en)); [lia|].
  rewrite is_missing_dbl_max. unfold missing_ivalue.
  destruct (Z.leb_spec (e_nbits en) 0); [lia|]. destruct (Z.leb_spec 64 (e_nbits en)); [lia|]. reflexivity.
Qed.

Lemma B2R_dbl_max : B2R dbl_max = IZR (2 ^ 53 - 1) * bpow radix2 971.
Proof. reflexivity. Qed.

(* a raw value below all-ones never decodes to the missing double *)
Theorem decode_not_missing en i :
  (0 <= e_scale en <= 22)%Z -> (0 <= i)%Z -> i <> missing_ivalue (e_nbits en) ->
  (Z.abs (i + e_ref en) < 2 ^ 53)%Z ->
  is_missing_double (cvt_i64_to_dval pow10 fx_neg en i) = false.
Proof.
  intros Hs Hi Hm Hn.
  destruct (decode_float_close en i Hs Hi Hm Hn) as [C F].
  set (d := cvt_i64_to_dval pow10 fx_neg en i) in *.
  assert (B : Rabs (B2R d) < B2R dbl_max).
  { assert (P : Rabs (physR (e_scale en) (e_ref en) i) <= IZR (2 ^ 53)).
    { unfold physR. rewrite Rabs_mult, (Rabs_pos_eq (bpow radix10 _)) by apply Rlt_le, p10_pos.
      rewrite <- abs_IZR. rewrite p10_as_inv by lia.
      destruct (pow10_lt_2_53 (e_scale en) Hs) as [P1 _]. apply IZR_le in P1.
      apply Rle_trans with (IZR (Z.abs (i + e_ref en)) * 1).
      - apply Rmult_le_compat_l; [apply IZR_le; lia|]. rewrite <- Rinv_1. apply Rinv_le_contravar; lra.
      - rewrite Rmult_1_r. apply IZR_le. lia. }
    assert (T : Rabs (B2R d) <= 2 * IZR (2 ^ 53)).
    { replace (B2R d) with ((B2R d - physR (e_scale en) (e_ref en) i) + physR (e_scale en) (e_ref en) i) by ring.
      eapply Rle_trans; [apply Rabs_triang|].
      assert (Q : bpow radix2 (-53) <= 1) by (change 1 with (bpow radix2 0); apply bpow_le; lia).
      assert (Q0 := Rabs_pos (physR (e_scale en) (e_ref en) i)).
      nra. }
    eapply Rle_lt_trans; [exact T|]. rewrite B2R_dbl_max.
    change (bpow radix2 971) with (IZR (2 ^ 971)). rewrite <- mult_IZR.
    change 2 with (IZR 2). rewrite <- mult_IZR. apply IZR_lt. reflexivity. }
  assert (Cmp : Bcompare d dbl_max = Some Lt).
  { rewrite Bcompare_correct by (try exact F; reflexivity).
    f_equal. apply Rcompare_Lt. apply Rle_lt_trans with (Rabs (B2R d)); [apply Rle_abs|exact B]. }
  unfold is_missing_double. destruct d; try discriminate F; unfold beq; rewrite Cmp; reflexivity.
Qed.

End WithPow.

(* ------------------------------------------------------------------ exact rational value of a float *)
Lemma B2Q_correct (x : b64) : Q2R (B2Q x) = B2R x.
Proof.
  destruct x as [s|s| |s m e Hb]; try (unfold B2Q, B2R, Q2R; simpl; lra).
  unfold B2Q, B2R, F2R. cbn [Fnum Fexp].
  destruct (Z.leb_spec 0 e) as [He|He].
  - rewrite Q2R_inject_Z, mult_IZR. f_equal. change 2%Z with (radix_val radix2). apply IZR_Zpower. exact He.
  - unfold Q2R. cbn [Qnum Qden]. f_equal.
    assert (P : (0 < 2 ^ (- e))%Z) by (apply Z.pow_pos_nonneg; lia).
    rewrite Z2Pos.id by exact P. change 2%Z with (radix_val radix2). rewrite IZR_Zpower by lia.
    rewrite <- bpow_opp. f_equal. lia.
Qed.

(* the executable form of spec_raw_of_library_decode: what the correspondence driver prints *)
Theorem spec_raw_of_library_decode_Q pow10 fx_neg en i :
  pow10_contract pow10 ->
  (0 <= e_scale en <= 22)%Z -> (1 <= e_nbits en <= 32)%Z -> (- 2 ^ 31 <= e_ref en < 2 ^ 31)%Z ->
  (0 <= i <= 2 ^ e_nbits en - 2)%Z ->
  quantQ (e_scale en) (e_ref en) (e_nbits en) (B2Q (cvt_i64_to_dval pow10 fx_neg en i)) = i.
Proof.
  intros Hc Hs Hw Hr Hi. rewrite quantQ_correct, B2Q_correct. apply spec_raw_of_library_decode; assumption.
Qed.

(* ------------------------------------------------------------------ the contract is satisfiable: correctly rounded powers *)
Lemma format_scaled (m e : Z) : (Z.abs m < 2 ^ 53)%Z -> (0 <= e)%Z -> generic_format radix2 fexp64 (IZR (m * 2 ^ e)).
Proof.
  intros Hm He. change fexp64 with (FLT_exp (3 - 1024 - 53) 53).
  apply generic_format_FLT.
  exists (Float radix2 m e).
  - unfold F2R; cbn [Fnum Fexp]. rewrite mult_IZR. f_equal. change 2%Z with (radix_val radix2). apply IZR_Zpower. exact He.
  - exact Hm.
  - cbn [Fexp]. lia.
Qed.

Theorem pow10_rn_contract : pow10_contract pow10_rn.
Proof.
  intros k Hk. unfold pow10_rn. destruct (Z.leb_spec 0 k) as [_|]; [|lia].
  assert (E : (10 ^ k = 5 ^ k * 2 ^ k)%Z) by (change 10%Z with (5 * 2)%Z; apply Z.pow_mul_l).
  assert (H5 : (Z.abs (5 ^ k) < 2 ^ 53)%Z).
  { rewrite Z.abs_eq by (apply Z.pow_nonneg; lia).
    apply Z.le_lt_trans with (5 ^ 22)%Z; [apply Z.pow_le_mono_r; lia | reflexivity]. }
  unfold d_of_Z.
  pose proof (binary_normalize_correct 53 1024 Hprec64 Hmax64 mode_NE (10 ^ k) 0 false) as C.
  cbv zeta in C. unfold F2R in C; cbn [Fnum Fexp] in C. change (bpow radix2 0) with 1 in C. rewrite Rmult_1_r in C.
  rewrite round_generic in C; [|apply valid_rnd_round_mode | rewrite E; apply format_scaled; [exact H5|lia]].
  rewrite Rlt_bool_true in C. { destruct C as (C1 & C2 & _). split; assumption. }
  destruct (pow10_lt_2_53 k Hk) as [P1 P2].
  rewrite <- abs_IZR, Z.abs_eq by lia.
  change (bpow radix2 1024) with (IZR (2 ^ 1024)). apply IZR_lt.
  apply Z.lt_trans with (2 ^ 1000)%Z; [exact P2|reflexivity].
Qed.

(* ------------------------------------------------------------------ negative scales: pow(10,s) is itself rounded *)
Definition pow10_neg_contract (pow10 : Z -> b64) : Prop :=
  forall k, (-22 <= k < 0)%Z ->
  is_finite (pow10 k) = true /\
  Rabs (B2R (pow10 k) - bpow radix10 k) <= bpow radix2 (-52) * bpow radix10 k.

Lemma two_rounding_bound (N t p d u : R) :
  0 < t -> 0 < u <= / 4 -> Rabs (p - t) <= u * t ->
  Rabs (d - N / p) <= u / 2 * Rabs (N / p) ->
  Rabs (d - N / t) <= 2 * u * Rabs (N / t).
Proof.
  intros Ht Hu Hp Hd.
  assert (Pl : 3 / 4 * t <= p).
  { assert (H := Rabs_le_inv _ _ Hp). nra. }
  assert (Pp : 0 < p) by nra.
  set (A := Rabs N). assert (A0 : 0 <= A) by apply Rabs_pos.
  assert (Ex : Rabs (N / p) = A / p).
  { unfold Rdiv. rewrite Rabs_mult, Rabs_inv, (Rabs_pos_eq p) by lra. reflexivity. }
  assert (Eph : Rabs (N / t) = A / t).
  { unfold Rdiv. rewrite Rabs_mult, Rabs_inv, (Rabs_pos_eq t) by lra. reflexivity. }
  assert (X1 : A / p <= 4 / 3 * (A / t)).
  { replace (4 / 3 * (A / t)) with (A * (/ (3 / 4 * t))) by (field; lra). unfold Rdiv at 1.
    apply Rmult_le_compat_l; [exact A0|]. apply Rinv_le_contravar; lra. }
  assert (X2 : Rabs (N / p - N / t) <= u * (A / p)).
  { replace (N / p - N / t) with (N * (t - p) * / (p * t)) by (field; lra).
    rewrite 2!Rabs_mult, Rabs_inv, (Rabs_pos_eq (p * t)) by nra. fold A.
    rewrite <- Rabs_Ropp, Ropp_minus_distr.
    apply Rle_trans with (A * (u * t) * / (p * t)).
    - apply Rmult_le_compat_r; [apply Rlt_le, Rinv_0_lt_compat; nra|].
      apply Rmult_le_compat_l; [exact A0|exact Hp].
    - apply Req_le. field. lra. }
  rewrite Ex in Hd. rewrite Eph.
  replace (d - N / t) with ((d - N / p) + (N / p - N / t)) by ring.
  eapply Rle_trans; [apply Rabs_triang|].
  assert (Ap : 0 <= A / p) by (apply Rmult_le_pos; [exact A0|apply Rlt_le, Rinv_0_lt_compat; exact Pp]).
  nra.
Qed.

Section WithPowNeg.
Variable pow10 : Z -> b64.
Hypothesis pow10_neg_ok : pow10_neg_contract pow10.

Theorem decode_float_close_neg_div en i :
  (-22 <= e_scale en < 0)%Z -> (0 <= i)%Z -> i <> missing_ivalue (e_nbits en) ->
  (Z.abs (i + e_ref en) < 2 ^ 53)%Z ->
  Rabs (B2R (cvt_i64_to_dval pow10 false en i) - physR (e_scale en) (e_ref en) i)
    <= bpow radix2 (- 51) * Rabs (physR (e_scale en) (e_ref en) i)
  /\ is_finite (cvt_i64_to_dval pow10 false en i) = true.
Proof.
  intros Hs Hi Hm Hn. unfold cvt_i64_to_dval.
  destruct (Z.ltb_spec i 0) as [L|_]; [lia|].
  destruct (Z.eqb_spec i (missing_ivalue (e_nbits en))) as [E|_]; [contradiction|].
  cbn [orb andb]. rewrite sint64_id by lia.
  set (n := (i + e_ref en)%Z) in *. set (s := e_scale en) in *.
  destruct (pow10_neg_ok s Hs) as [Fp Cp].
  destruct (d_of_Z_exact n Hn) as [En Fn].
  set (t := bpow radix10 s) in *. set (p := B2R (pow10 s)) in *.
  assert (Ht : 0 < t) by apply p10_pos.
  assert (Ht1 : t <= / 10).
  { unfold t. change (/ 10) with (bpow radix10 (-1)). apply bpow_le. lia. }
  assert (Ht2 : bpow radix10 (-22) <= t) by (apply bpow_le; lia).
  set (u := bpow radix2 (-52)) in *.
  assert (Hu : 0 < u <= / 4).
  { split; [apply bpow_gt_0|]. change (/ 4) with (bpow radix2 (-2)). apply bpow_le. lia. }
  assert (Pl : 3 / 4 * t <= p <= 5 / 4 * t).
  { assert (H := Rabs_le_inv _ _ Cp). nra. }
  assert (Pp : 0 < p) by nra.
  unfold ddiv.
  pose proof (Bdiv_correct 53 1024 Hprec64 Hmax64 mode_NE (d_of_Z n) (pow10 s)) as C.
  fold p in C. rewrite En in C. specialize (C (Rgt_not_eq _ _ Pp)).
  set (x := IZR n / p) in *.
  assert (Hx : Rabs x <= bpow radix2 200).
  { unfold x, Rdiv. rewrite Rabs_mult, Rabs_inv, (Rabs_pos_eq p), <- abs_IZR by lra.
    apply Rle_trans with (IZR (2 ^ 53) * / (3 / 4 * bpow radix10 (-22))).
    - apply Rmult_le_compat; [apply IZR_le; lia | apply Rlt_le, Rinv_0_lt_compat; exact Pp | apply IZR_le; lia |].
      apply Rinv_le_contravar; [assert (0 < bpow radix10 (-22)) by apply bpow_gt_0; lra | lra].
    - change (bpow radix10 (-22)) with (/ IZR (10 ^ 22)). change (bpow radix2 200) with (IZR (2 ^ 200)).
      replace (IZR (2 ^ 53) * / (3 / 4 * / IZR (10 ^ 22))) with (IZR (2 ^ 53 * 10 ^ 22 * 4) / 3).
      + apply Rle_trans with (IZR (2 ^ 53 * 10 ^ 22 * 4)).
        * assert (0 <= IZR (2 ^ 53 * 10 ^ 22 * 4)) by (apply IZR_le; vm_compute; discriminate). lra.
        * apply IZR_le. vm_compute. discriminate.
      + rewrite 2!mult_IZR. field. apply not_0_IZR. discriminate. }
  assert (Hov : Rabs (round radix2 fexp64 (round_mode mode_NE) x) < bpow radix2 1024).
  { apply Rle_lt_trans with (bpow radix2 200).
    - apply abs_round_le_generic; [apply (fexp_correct 53 1024 Hprec64) | apply valid_rnd_round_mode | | exact Hx].
      apply generic_format_bpow. unfold fexp64, SpecFloat.fexp, SpecFloat.emin. lia.
    - apply bpow_lt. lia. }
  rewrite Rlt_bool_true in C by exact Hov.
  destruct C as (C1 & C2 & _). split; [|rewrite C2; exact Fn].
  rewrite C1.
  assert (Hd : Rabs (round radix2 fexp64 (round_mode mode_NE) x - x) <= u / 2 * Rabs x).
  { destruct (Z.eq_dec n 0) as [N0|N0].
    - unfold x. rewrite N0. unfold Rdiv. rewrite Rmult_0_l, round_0 by apply valid_rnd_round_mode.
      rewrite Rminus_0_r, Rabs_R0. lra.
    - replace (u / 2) with (/ 2 * bpow radix2 (- 53 + 1)).
      2:{ unfold u. change (-53 + 1)%Z with (-52)%Z. field. }
      change fexp64 with (FLT_exp (3 - 1024 - 53) 53). simpl round_mode.
      apply relative_error_N_FLT. reflexivity.
      apply Rle_trans with 1.
      + change 1 with (bpow radix2 0). apply bpow_le. lia.
      + unfold x, Rdiv. rewrite Rabs_mult, Rabs_inv, (Rabs_pos_eq p), <- abs_IZR by lra.
        apply Rle_trans with (1 * / p).
        * rewrite Rmult_1_l. rewrite <- Rinv_1. apply Rinv_le_contravar; lra.
        * apply Rmult_le_compat_r; [apply Rlt_le, Rinv_0_lt_compat; exact Pp|]. apply IZR_le. lia. }
  assert (T := two_rounding_bound (IZR n) t p (round radix2 fexp64 (round_mode mode_NE) x) u Ht Hu Cp Hd).
  unfold physR. fold n. replace (- s)%Z with (- s)%Z by reflexivity. rewrite bpow_opp. fold t.
  fold (Rdiv (IZR n) t).
  replace (bpow radix2 (-51)) with (2 * u); [exact T|].
  unfold u. change (-51)%Z with (1 + -52)%Z. rewrite bpow_plus. reflexivity.
Qed.

Theorem spec_raw_of_library_decode_neg_div en i :
  (-22 <= e_scale en < 0)%Z -> (1 <= e_nbits en <= 32)%Z -> (- 2 ^ 31 <= e_ref en < 2 ^ 31)%Z ->
  (0 <= i <= 2 ^ e_nbits en - 2)%Z ->
  quantR (e_scale en) (e_ref en) (e_nbits en) (B2R (cvt_i64_to_dval pow10 false en i)) = i.
Proof.
  intros Hs Hw Hr Hi.
  assert (W : (2 ^ e_nbits en <= 2 ^ 32)%Z) by (apply Z.pow_le_mono_r; lia).
  assert (Hm : i <> missing_ivalue (e_nbits en)).
  { unfold missing_ivalue. destruct (Z.leb_spec (e_nbits en) 0); [lia|]. destruct (Z.leb_spec 64 (e_nbits en)); lia. }
  assert (Hn : (Z.abs (i + e_ref en) < 2 ^ 49)%Z) by lia.
  destruct (decode_float_close_neg_div en i Hs (proj1 Hi) Hm) as [C _]; [lia|].
  apply quant_tolerant; [exact Hi|].
  eapply Rle_lt_trans; [exact C|].
  unfold physR. rewrite Rabs_mult, (Rabs_pos_eq (bpow radix10 _)) by apply Rlt_le, p10_pos.
  rewrite <- Rmult_assoc. unfold Rdiv. rewrite (Rmult_comm (bpow radix10 _) (/ 2)).
  apply Rmult_lt_compat_r; [apply p10_pos|].
  rewrite <- abs_IZR.
  apply Rle_lt_trans with (bpow radix2 (-51) * IZR (2 ^ 49)).
  - apply Rmult_le_compat_l; [apply bpow_ge_0|]. apply IZR_le. lia.
  - change (bpow radix2 (-51)) with (/ IZR (2 ^ 51)).
    change (2 ^ 51)%Z with (4 * 2 ^ 49)%Z. rewrite mult_IZR.
    assert (0 < IZR (2 ^ 49)) by (apply IZR_lt; reflexivity).
    replace (/ (4 * IZR (2 ^ 49)) * IZR (2 ^ 49)) with (/ 4) by (field; lra). lra.
Qed.

End WithPowNeg.

(* ------------------------------------------------------------------ negative scales: one correctly rounded product by the exact 10^-s *)
Section WithPowNegExact.
Variable pow10 : Z -> b64.
Hypothesis pow10_ok : pow10_contract pow10.

Theorem decode_float_close_neg_mul en i :
  (-22 <= e_scale en < 0)%Z -> (0 <= i)%Z -> i <> missing_ivalue (e_nbits en) ->
  (Z.abs (i + e_ref en) < 2 ^ 53)%Z ->
  Rabs (B2R (cvt_i64_to_dval pow10 true en i) - physR (e_scale en) (e_ref en) i)
    <= bpow radix2 (- 53) * Rabs (physR (e_scale en) (e_ref en) i)
  /\ is_finite (cvt_i64_to_dval pow10 true en i) = true.
Proof.
  intros Hs Hi Hm Hn. unfold cvt_i64_to_dval.
  destruct (Z.ltb_spec i 0) as [L|_]; [lia|].
  destruct (Z.eqb_spec i (missing_ivalue (e_nbits en))) as [E|_]; [contradiction|].
  cbn [orb]. rewrite sint64_id by lia.
  destruct (Z.ltb_spec (e_scale en) 0) as [_|L]; [|lia]. cbn [andb].
  assert (Hk : (0 <= - e_scale en <= 22)%Z) by lia.
  destruct (pow10_ok (- e_scale en)%Z Hk) as [Ep Fp].
  destruct (dmul_close (i + e_ref en) (pow10 (- e_scale en)%Z) (10 ^ (- e_scale en))%Z Hn (pow10_lt_2_100 _ Hk) Ep Fp) as [C F].
  split; [|exact F].
  unfold physR. rewrite p10_as_pow by lia.
  replace (bpow radix2 (-53)) with (/ 2 * bpow radix2 (- 53 + 1)); [exact C|].
  change (bpow radix2 (-53 + 1)) with (bpow radix2 (1 + -53)). rewrite bpow_plus. change (bpow radix2 1) with 2. field.
Qed.

Theorem spec_raw_of_library_decode_neg_mul en i :
  (-22 <= e_scale en < 0)%Z -> (1 <= e_nbits en <= 32)%Z -> (- 2 ^ 31 <= e_ref en < 2 ^ 31)%Z ->
  (0 <= i <= 2 ^ e_nbits en - 2)%Z ->
  quantR (e_scale en) (e_ref en) (e_nbits en) (B2R (cvt_i64_to_dval pow10 true en i)) = i.
Proof.
  intros Hs Hw Hr Hi.
  assert (W : (2 ^ e_nbits en <= 2 ^ 32)%Z) by (apply Z.pow_le_mono_r; lia).
  assert (Hm : i <> missing_ivalue (e_nbits en)).
  { unfold missing_ivalue. destruct (Z.leb_spec (e_nbits en) 0); [lia|]. destruct (Z.leb_spec 64 (e_nbits en)); lia. }
  assert (Hn : (Z.abs (i + e_ref en) < 2 ^ 52)%Z) by lia.
  destruct (decode_float_close_neg_mul en i Hs (proj1 Hi) Hm) as [C _]; [lia|].
  apply quant_tolerant; [exact Hi|].
  eapply Rle_lt_trans; [exact C|].
  unfold physR. rewrite Rabs_mult, (Rabs_pos_eq (bpow radix10 _)) by apply Rlt_le, p10_pos.
  rewrite <- Rmult_assoc. unfold Rdiv. rewrite (Rmult_comm (bpow radix10 _) (/ 2)).
  apply Rmult_lt_compat_r; [apply p10_pos|].
  rewrite <- abs_IZR.
  apply Rle_lt_trans with (bpow radix2 (-53) * IZR (2 ^ 52 - 1)).
  - apply Rmult_le_compat_l; [apply bpow_ge_0|]. apply IZR_le. lia.
  - change (bpow radix2 (-53)) with (/ IZR (2 ^ 53)).
    apply Rmult_lt_reg_l with (IZR (2 ^ 53)); [apply IZR_lt; reflexivity|].
    rewrite <- Rmult_assoc, Rinv_r, Rmult_1_l by (apply not_0_IZR; discriminate).
    replace (IZR (2 ^ 53) * / 2) with (IZR (2 ^ 52)).
    + apply IZR_lt. reflexivity.
    + change (2 ^ 53)%Z with (2 * 2 ^ 52)%Z. rewrite mult_IZR. field.
Qed.

End WithPowNegExact.

(* both variants *)
Theorem spec_raw_of_library_decode_neg pow10 fx_neg en i :
  pow10_contract pow10 -> pow10_neg_contract pow10 ->
  (-22 <= e_scale en < 0)%Z -> (1 <= e_nbits en <= 32)%Z -> (- 2 ^ 31 <= e_ref en < 2 ^ 31)%Z ->
  (0 <= i <= 2 ^ e_nbits en - 2)%Z ->
  quantR (e_scale en) (e_ref en) (e_nbits en) (B2R (cvt_i64_to_dval pow10 fx_neg en i)) = i.
Proof.
  intros H1 H2. destruct fx_neg.
  - apply spec_raw_of_library_decode_neg_mul. exact H1.
  - apply spec_raw_of_library_decode_neg_div. exact H2.
Qed.


(* the negative-scale contract is satisfiable too: the correctly rounded powers meet it (checked by computation, k = -22..-1) *)
Definition pow_close_check (f : b64) (k : Z) : bool :=
  match f with
  | B754_finite false m e _ =>
      (e <=? 0)%Z && (Z.abs (Zpos m * 10 ^ (- k) * 2 ^ 52 - 2 ^ (52 - e)) <=? 2 ^ (- e))%Z
  | _ => false
  end.

Lemma pow_close_check_sound f k :
  (k < 0)%Z -> pow_close_check f k = true ->
  is_finite f = true /\ Rabs (B2R f - bpow radix10 k) <= bpow radix2 (-52) * bpow radix10 k.
Proof.
  intros Hk H. destruct f as [| | |[|] m e Hb]; try discriminate H. split; [reflexivity|].
  unfold pow_close_check in H. apply andb_true_iff in H. destruct H as [He H].
  apply Z.leb_le in He. apply Z.leb_le in H.
  set (T := (10 ^ (- k))%Z) in *. set (E := (2 ^ (- e))%Z) in *.
  assert (HT : (0 < T)%Z) by (apply Z.pow_pos_nonneg; lia).
  assert (HE : (0 < E)%Z) by (apply Z.pow_pos_nonneg; lia).
  assert (E52 : (2 ^ (52 - e) = E * 2 ^ 52)%Z).
  { unfold E. rewrite <- Z.pow_add_r by lia. f_equal. lia. }
  rewrite E52 in H. apply IZR_le in H. rewrite abs_IZR, minus_IZR, !mult_IZR in H.
  assert (Bk : bpow radix10 k = / IZR T).
  { unfold T. change 10%Z with (radix_val radix10). rewrite IZR_Zpower by lia.
    rewrite <- bpow_opp. f_equal. lia. }
  assert (Be : bpow radix2 e = / IZR E).
  { unfold E. change 2%Z with (radix_val radix2). rewrite IZR_Zpower by lia.
    rewrite <- bpow_opp. f_equal. lia. }
  unfold B2R, F2R. cbn [Fnum Fexp cond_Zopp]. rewrite Bk, Be.
  change (bpow radix2 (-52)) with (/ IZR (2 ^ 52)).
  set (M := IZR (Z.pos m)) in *. set (t := IZR T) in *. set (ee := IZR E) in *. set (c := IZR (2 ^ 52)) in *.
  assert (Ht : 0 < t) by (apply IZR_lt; exact HT).
  assert (Hee : 0 < ee) by (apply IZR_lt; exact HE).
  assert (Hc : 0 < c) by (apply IZR_lt; reflexivity).
  replace (M * / ee - / t) with ((M * t * c - ee * c) * / (ee * t * c)) by (field; lra).
  rewrite Rabs_mult, Rabs_inv, (Rabs_pos_eq (ee * t * c)).
  2:{ apply Rlt_le. apply Rmult_lt_0_compat; [apply Rmult_lt_0_compat|]; assumption. }
  replace (/ c * / t) with (ee * / (ee * t * c)) by (field; lra).
  apply Rmult_le_compat_r; [|exact H].
  apply Rlt_le, Rinv_0_lt_compat. apply Rmult_lt_0_compat; [apply Rmult_lt_0_compat|]; assumption.
Qed.

Definition neg_ks : list Z := List.map (fun n => (- 1 - Z.of_nat n)%Z) (List.seq 0 22).

Lemma pow10_rn_neg_checked : List.forallb (fun k => pow_close_check (pow10_rn k) k) neg_ks = true.
Proof. vm_compute. reflexivity. Qed.

Theorem pow10_rn_neg_contract : pow10_neg_contract pow10_rn.
Proof.
  intros k Hk. apply pow_close_check_sound; [lia|].
  assert (A := proj1 (List.forallb_forall _ _) pow10_rn_neg_checked k). apply A.
  unfold neg_ks. apply List.in_map_iff. exists (Z.to_nat (- 1 - k)). split.
  - rewrite Z2Nat.id by lia. lia.
  - apply List.in_seq. lia.
Qed.

(* ------------------------------------------------------------------ the encoder never returns a value wider than the field *)
Local Open Scope Z_scope.
Lemma wrap64_range z : 0 <= wrap64 z < 2 ^ 64.
Proof. unfold wrap64. apply Z.mod_pos_bound. reflexivity. Qed.

(* the encoder never returns a value wider than the field, whatever double it is given: anything not below all-ones is
   reported as all-ones (both variants, every scale) *)
Theorem encode_never_wider pow10 fx_neg desc en f :
  1 <= e_nbits en <= 32 ->
  0 <= cvt_dval_to_i64 pow10 fx_neg desc en f <= 2 ^ e_nbits en - 1.
Proof.
  intros Hw. unfold cvt_dval_to_i64.
  assert (W : 2 ^ 1 <= 2 ^ e_nbits en <= 2 ^ 32) by (split; apply Z.pow_le_mono_r; lia).
  assert (M : missing_ivalue (e_nbits en) = 2 ^ e_nbits en - 1).
  { unfold missing_ivalue. destruct (Z.leb_spec (e_nbits en) 0); [lia|]. destruct (Z.leb_spec 64 (e_nbits en)); [lia|reflexivity]. }
  assert (X : wrap64 (2 ^ e_nbits en - 1) = 2 ^ e_nbits en - 1).
  { unfold wrap64. apply Z.mod_small. change (2 ^ 64) with (2 ^ 32 * 2 ^ 32). lia. }
  destruct (Z.ltb_spec 32 (e_nbits en)); [lia|].
  rewrite M, X.
  destruct (is_missing_double f); [lia|].
  destruct (bgt f _).
  { destruct (desc_x desc =? 31); [|lia].
    destruct (Z.eqb_spec (wrap64 (cvt_si32 f)) (2 ^ e_nbits en - 1)) as [E|E]; [rewrite E|]; lia. }
  destruct (blt f _); [lia|].
  match goal with |- context [if (2 ^ e_nbits en - 1 <=? ?v) then _ else _] => set (r := v) end.
  destruct (Z.leb_spec 0 (e_scale en)).
  - assert (R : 0 <= r).
    { unfold r. destruct (_ <? e_ref en).
      - unfold cvt_u64. destruct (bge _ _).
        + apply Z.lxor_nonneg. split; intros _; [vm_compute; discriminate | apply wrap64_range].
        + apply wrap64_range.
      - destruct (bgt f dzero); apply wrap64_range. }
    destruct (Z.leb_spec (2 ^ e_nbits en - 1) r); lia.
  - match goal with |- context [if (2 ^ e_nbits en - 1 <=? ?v) then _ else _] => set (r2 := v); assert (R : 0 <= r2) by apply wrap64_range end.
    destruct (Z.leb_spec (2 ^ e_nbits en - 1) r2); lia.
Qed.
Local Close Scope Z_scope.

(* ------------------------------------------------------------------ the full claim about the library's branchy float encoder *)
(* On every double its own decoder can produce, bufr_cvt_dval_to_i64 returns the raw value.
   Proved for the variant the library implements (fx_neg = true) in ScalFull.v (encode_decode_roundtrip, by error analysis of
   every branch), together with the agreement of the encoder with the specification on every double away from rounding ties.
   For the historical variant fx_neg = false only the finite instance ScalPartial.encode_float_eq_raw_partial is proved. *)
Definition C08_full_statement : Prop :=
  forall (pow10 : Z -> b64) (fx_neg : bool), pow10_contract pow10 -> pow10_neg_contract pow10 ->
  forall (desc : Z) (en : enc) (i : Z),
    (-22 <= e_scale en <= 22)%Z -> (1 <= e_nbits en <= 32)%Z -> (- 2 ^ 31 <= e_ref en < 2 ^ 31)%Z ->
    (0 <= i <= 2 ^ e_nbits en - 2)%Z ->
    cvt_dval_to_i64 pow10 fx_neg desc en (cvt_i64_to_dval pow10 fx_neg en i) = i.
