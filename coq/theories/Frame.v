(* Frame.v — executable mirror of the message framing code of libecbufr (property C06):
     bufr_end_message / bufr_encode_sect3 / bufr_sect2_set_data      (API/Sources/bufr_message.c)
     bufr_wr_section0..5, bufr_wr_header_string, bufr_callback_write_message,
     bufr_seek_msg_start, bufr_rd_section0..5, bufr_decode_sect3, bufr_callback_read_message   (bufr_io.c)
     str_schar2oct / str_oct2char                                     (bufr_util.c)
   Definitions only; proofs are in FrameProof.v.  Octets and C integers are unbounded Z; an octet written is `v mod 256`
   (conversion to unsigned char).  The four I/O paths (FILE*, fd, memory, callbacks) only differ in the byte source/sink
   callback, so one model serves all of them; a short read (end of input) is `None`. *)
From Coq Require Import List ZArith Bool Lia.
Import ListNotations.
Local Open Scope Z_scope.

Definition byte := Z.
Definition zlen {A} (l : list A) : Z := Z.of_nat (length l).

(* Two points where the library was found wrong while this check was built are parameters of the model, so that the code
   before and after the repairs is modelled and the check can follow the tree it is run on (it probes the library):
     esc_bs  : str_schar2oct also escapes the backslash         (false before commit a38e739 of /repo, true since)
     maxlen  : bufr_callback_write_message refuses len_msg > maxlen   (16777216 = BUFR_MAX_MSG_LEN before commit 750fe5b,
                                                                       16777215 since: the comparison became >=)
   cfg_current = the code as it was when the check was written, cfg_fixed = with both repairs. *)
Record cfg := { esc_bs : bool; maxlen : Z }.
Definition cfg_current : cfg := {| esc_bs := false; maxlen := 16777216 |}.
Definition cfg_fixed : cfg := {| esc_bs := true; maxlen := 16777215 |}.

(* ------------------------------------------------------------------------------------------------------------- *)
(* The message as the encoder holds it before bufr_end_message.                                                    *)
Record sect1 := {
  master : Z; centre : Z; subcentre : Z; upd : Z; flag : Z; cat : Z; isub : Z; lsub : Z;
  mver : Z; lver : Z; year : Z; month : Z; day : Z; hour : Z; minute : Z; second : Z }.

Record msg := {
  ed : Z;                      (* 2..5 after bufr_init_header *)
  s1 : sect1;
  s2 : option (list byte);     (* Some p: bufr_sect2_set_data(p) was called (it also sets flag |= 128) *)
  nsub : Z; s3flag : Z; descs : list Z;           (* descriptors as FXXYYY integers *)
  s4 : list byte;              (* completed octets of Section 4 (s4.filled of them) *)
  s4bit : Z;                   (* s4.bitno: bits used in the octet under the cursor, 0..7 *)
  s4cur : byte;                (* that octet (unused bits are 0) *)
  hdr : list byte              (* header_string (escaped form); [] = NULL *)
}.

(* ------------------------------------------------------------------------------------------------------------- *)
(* Header escaping (bufr_util.c)                                                                                   *)
Definition oct3 (b : byte) : list byte := [48 + (b / 64) mod 8; 48 + (b / 8) mod 8; 48 + b mod 8].

(* isspace(c) || iscntrl(c) || c == 0 in the C locale on a (signed) char: octets 0..32 and 127 *)
Definition needs_esc (c : cfg) (b : byte) : bool :=
  (b <=? 32) || (b =? 127) || (esc_bs c && (b =? 92)).

Fixpoint schar2oct (c : cfg) (l : list byte) : list byte :=
  match l with
  | [] => []
  | b :: t => (if needs_esc c b then 92 :: oct3 b else [b]) ++ schar2oct c t
  end.

(* sscanf(buf, "%o", &c) on the (at most 3) characters after a backslash: leading white space, an optional sign,
   octal digits; None = no conversion (the C variable stays uninitialised) *)
Definition is_ws (b : byte) : bool := (b =? 32) || ((9 <=? b) && (b <=? 13)).
Definition odig (b : byte) : bool := (48 <=? b) && (b <=? 55).
Fixpoint drop_ws (l : list byte) : list byte :=
  match l with b :: t => if is_ws b then drop_ws t else l | [] => [] end.
Fixpoint odigits (acc : Z) (n : nat) (l : list byte) : Z * nat :=
  match l with
  | b :: t => if odig b then odigits (acc * 8 + (b - 48)) (S n) t else (acc, n)
  | [] => (acc, n)
  end.
Definition scan_oct (l : list byte) : option Z :=
  let l1 := drop_ws l in
  let '(neg, l2) := match l1 with
                    | b :: t => if b =? 45 then (true, t) else if b =? 43 then (false, t) else (false, l1)
                    | [] => (false, l1) end in
  let '(v, n) := odigits 0 0 l2 in
  match n with O => None | _ => Some ((if neg then - v else v) mod 256) end.

(* str_oct2char.  None = the result depends on uninitialised or out-of-bounds memory (backslash followed by fewer than
   3 characters, or by characters sscanf cannot convert) or the input is not a C string (contains NUL). *)
Fixpoint oct2char_go (l : list byte) : option (list byte) :=
  match l with
  | [] => Some []
  | b :: t =>
    if b =? 92 then
      match t with
      | [] => None
      | n1 :: t1 =>
        if n1 =? 92 then option_map (cons 92) (oct2char_go t1)
        else if n1 =? 110 then option_map (cons 10) (oct2char_go t1)
        else match t1 with
             | n2 :: n3 :: t3 =>
               match scan_oct [n1; n2; n3] with
               | Some v => option_map (cons v) (oct2char_go t3)
               | None => None
               end
             | _ => None
             end
      end
    else option_map (cons b) (oct2char_go t)
  end.
Definition oct2char (l : list byte) : option (list byte) :=
  if existsb (fun b => b =? 0) l then None else oct2char_go l.

(* ------------------------------------------------------------------------------------------------------------- *)
(* bufr_end_message: section lengths and padding                                                                   *)
Definition u8 (v : Z) : list byte := [v mod 256].
Definition u16 (v : Z) : list byte := [(v / 256) mod 256; v mod 256].
Definition u24 (v : Z) : list byte := [(v / 65536) mod 256; (v / 256) mod 256; v mod 256].
Definition zeros (n : Z) : list byte := repeat 0 (Z.to_nat n).

Definition s1hdrlen (e : Z) : Z := if 4 <=? e then 22 else 17.
Definition s1len (e : Z) : Z := if 4 <=? e then 22 else 18.          (* bufr_init_sect1 *)

(* s1.flag after bufr_sect2_set_data *)
Definition flag_eff (m : msg) : Z :=
  match s2 m with Some _ => Z.lor (flag (s1 m)) 128 | None => flag (s1 m) end.
Definition has2flag (f : Z) : bool := negb (Z.land f 129 =? 0).     (* BUFR_FLAG_HAS_SECT2 = 128+1 *)
Definition has2 (m : msg) : bool := has2flag (flag_eff m).

(* s2.data after bufr_sect2_set_data: padded to an even count for editions <= 3 *)
Definition s2data (m : msg) : list byte :=
  match s2 m with
  | Some p => if (ed m <=? 3) && Z.odd (zlen p) then p ++ [0] else p
  | None => []
  end.
Definition s2len (m : msg) : Z := if has2 m then 4 + zlen (s2data m) else 0.

(* bufr_descriptor_i32_to_i16: ((f&3)<<14)|((x&63)<<8)|(y&255), octets code>>8 and code%256 *)
Definition pack_desc (d : Z) : list byte :=
  let f := d / 100000 in let x := (d / 1000) mod 100 in let y := d mod 1000 in
  let code := (f mod 4) * 16384 + (x mod 64) * 256 + y mod 256 in
  [code / 256; code mod 256].
Definition unpack_desc (hi lo : byte) : Z :=
  let code := hi * 256 + lo in
  ((code / 16384) mod 4) * 100000 + ((code / 256) mod 64) * 1000 + code mod 256.

(* bufr_encode_sect3 (pads edition 3) followed by the padding of bufr_end_message (editions <= 3) *)
Definition s3len (m : msg) : Z :=
  let l0 := 7 + 2 * zlen (descs m) in
  let l1 := if (ed m =? 3) && Z.odd l0 then l0 + 1 else l0 in
  if (ed m <=? 3) && Z.odd l1 then l1 + 1 else l1.

(* Section 4 octets after bufr_end_message.  For an edition <= 3 message of odd length bufr_putbits(0, nbits) with
   nbits = 8 - bitno (+8 when bitno != 0) is called: it completes the octet under the cursor and, when bitno != 0,
   adds one more zero octet; when bitno = 0 it adds one zero octet. *)
Definition s4data (m : msg) : list byte :=
  let rem := if 0 <? s4bit m then 1 else 0 in
  let len := zlen (s4 m) + 4 + rem in
  if (ed m <=? 3) && Z.odd len
  then (if s4bit m mod 8 =? 0 then s4 m ++ [0] else s4 m ++ [s4cur m; 0])
  else (if 0 <? s4bit m then s4 m ++ [s4cur m] else s4 m).
Definition s4len (m : msg) : Z := 4 + zlen (s4data m).

Definition lenmsg (m : msg) : Z := 8 + s1len (ed m) + s2len m + s3len m + s4len m + 4.

(* ------------------------------------------------------------------------------------------------------------- *)
(* bufr_wr_section0..5                                                                                             *)
Definition sect0_bytes (m : msg) : list byte := [66; 85; 70; 82] ++ u24 (lenmsg m) ++ u8 (ed m).

Definition sect1_bytes (m : msg) : list byte :=
  let s := s1 m in let e := ed m in
  u24 (s1len e) ++ u8 0                                 (* octet 4: any master table other than 0 is overridden with 0 *)
  ++ (if e =? 2 then u16 (centre s)
      else if e =? 3 then u8 (subcentre s) ++ u8 (centre s)
      else if 4 <=? e then u16 (centre s) ++ u16 (subcentre s) else [])
  ++ u8 (upd s) ++ u8 (flag_eff m) ++ u8 (cat s)
  ++ (if 4 <=? e then u8 (isub s) else [])
  ++ u8 (lsub s) ++ u8 (mver s) ++ u8 (lver s)
  ++ (if 4 <=? e then u16 (year s) else u8 (Z.rem (year s - 1) 100 + 1))
  ++ u8 (month s) ++ u8 (day s) ++ u8 (hour s) ++ u8 (minute s)
  ++ (if 4 <=? e then u8 (second s) else [])
  ++ zeros (s1len e - s1hdrlen e).                      (* filler up to s1.len *)

Definition sect2_bytes (m : msg) : list byte :=
  if has2 m then u24 (s2len m) ++ [0] ++ s2data m else [].

Definition sect3_bytes (m : msg) : list byte :=
  u24 (s3len m) ++ [0] ++ u16 (nsub m) ++ u8 (s3flag m)
  ++ flat_map pack_desc (descs m) ++ zeros (s3len m - 7 - 2 * zlen (descs m)).

Definition sect4_bytes (m : msg) : list byte := u24 (s4len m) ++ [0] ++ s4data m.

Definition sect5_bytes : list byte := [55; 55; 55; 55].

Definition wr_body (m : msg) : list byte :=
  sect0_bytes m ++ sect1_bytes m ++ sect2_bytes m ++ sect3_bytes m ++ sect4_bytes m ++ sect5_bytes.

Inductive wres := WOk (bytes : list byte) | WRefused | WUndef.

(* bufr_end_message; bufr_callback_write_message *)
Definition wr (c : cfg) (m : msg) : wres :=
  if maxlen c <? lenmsg m then WRefused else
  match hdr m with
  | [] => WOk (wr_body m)
  | h => match oct2char h with Some hb => WOk (hb ++ wr_body m) | None => WUndef end
  end.

(* ------------------------------------------------------------------------------------------------------------- *)
(* bufr_seek_msg_start                                                                                             *)
Inductive sres := SFound (header : list byte) (rest : list byte) | SEof | SFuel.

(* while (c != 'B') { read c; if (c != '\004') append c; }        acc = appended characters, last first *)
Fixpoint skipB (c : byte) (acc : list byte) (l : list byte) {struct l} : option (list byte * list byte) :=
  if c =? 66 then Some (acc, l) else
  match l with
  | [] => None
  | c' :: l' => skipB c' (if c' =? 4 then acc else c' :: acc) l'
  end.

(* while (notfound) { ... }: one unit of fuel per iteration of the outer loop *)
Fixpoint seek (fuel : nat) (c : byte) (acc : list byte) (l : list byte) : sres :=
  match fuel with
  | O => SFuel
  | S f =>
    match skipB c acc l with
    | None => SEof
    | Some (acc1, l1) =>
      match l1 with
      | [] => SEof
      | c1 :: l2 =>
        let acc2 := c1 :: acc1 in
        if c1 =? 85 then
          match l2 with
          | [] => SEof
          | c2 :: l3 =>
            let acc3 := c2 :: acc2 in
            if c2 =? 70 then
              match l3 with
              | [] => SEof
              | c3 :: l4 =>
                let acc4 := c3 :: acc3 in
                if c3 =? 82 then SFound (rev (skipn 4 acc4)) l4      (* i -= 4 *)
                else seek f c3 acc4 l4
              end
            else seek f c2 acc3 l3
          end
        else seek f c1 acc2 l2
      end
    end
  end.

Definition seek_start (l : list byte) : sres :=
  match l with
  | [] => SEof
  | c :: l' => seek (S (length l')) c (if c =? 4 then [] else [c]) l'
  end.

(* ------------------------------------------------------------------------------------------------------------- *)
(* Readers                                                                                                         *)
Definition get1 (l : list byte) : option (Z * list byte) :=
  match l with b :: t => Some (b, t) | [] => None end.
Definition get2 (l : list byte) : option (Z * list byte) :=
  match l with a :: b :: t => Some (a * 256 + b, t) | _ => None end.
(* a 2-octet value stored into a C short and then tested "< 0": 32768..65535 are refused (sub-centre, year) *)
Definition get2s (l : list byte) : option (Z * list byte) :=
  match get2 l with Some (v, t) => if 32768 <=? v then None else Some (v, t) | None => None end.
Definition get3 (l : list byte) : option (Z * list byte) :=
  match l with a :: b :: c :: t => Some (a * 65536 + b * 256 + c, t) | _ => None end.
(* readcb(cd, n, buf) != n is an error; a negative count (huge as size_t) can never be satisfied *)
Definition getn (n : Z) (l : list byte) : option (list byte * list byte) :=
  if n <? 0 then None else
  if n <=? zlen l then Some (firstn (Z.to_nat n) l, skipn (Z.to_nat n) l) else None.

Notation "'do' p <- e ; f" := (match e with Some p => f | None => None end)
  (at level 200, p pattern, e at level 100, f at level 200, right associativity).

(* what a reader returns: the message fields plus the lengths it stored *)
Record rres := {
  r_msg : msg; r_lm : Z; r_s1len : Z; r_s1x : list byte; r_s2len : Z; r_s3len : Z; r_s4len : Z; r_used : Z }.

(* bufr_rd_section0 + bufr_init_header *)
Definition rd_sect0 (l : list byte) : option ((Z * Z) * list byte) :=
  do (lm, l1) <- get3 l;
  do (e, l2) <- get1 l1;
  Some ((lm, if (e <? 2) || (5 <? e) then 4 else e), l2).

Fixpoint skip_bytes (n : nat) (l : list byte) : option (list byte) :=
  match n with O => Some l | S k => match l with [] => None | _ :: t => skip_bytes k t end end.

(* bufr_rd_section1: result (fields, s1.len, extra data) *)
Definition rd_sect1 (e : Z) (l : list byte) : option ((sect1 * Z * list byte) * list byte) :=
  do (c, l) <- get3 l;
  if (c <? s1len e) then None else
  let dlen := if c =? s1len e then 0 else c - s1hdrlen e in
  do (mt, l) <- get1 l;
  do (cs, l) <- (if e =? 3 then do (sc, l) <- get1 l; do (ce, l) <- get1 l; Some ((ce, sc), l)
                 else do (ce, l) <- get2 l;
                      if 4 <=? e then do (sc, l) <- get2s l; Some ((ce, sc), l) else Some ((ce, 0), l));
  do (up, l) <- get1 l;
  do (fl, l) <- get1 l;
  do (ca, l) <- get1 l;
  do (isb, l) <- (if 4 <=? e then get1 l else Some (0, l));
  do (lsb, l) <- get1 l;
  do (mv, l) <- get1 l;
  do (lv, l) <- get1 l;
  do (yr, l) <- (if 4 <=? e then get2s l else get1 l);
  do (mo, l) <- get1 l;
  do (dy, l) <- get1 l;
  do (hr, l) <- get1 l;
  do (mi, l) <- get1 l;
  do (se, l) <- (if 4 <=? e then get1 l else Some (0, l));
  do (x, l) <- (if 0 <? dlen then getn dlen l else Some ([], l));
  do l <- skip_bytes (Z.to_nat (c - s1hdrlen e - dlen)) l;
  Some (({| master := mt; centre := fst cs; subcentre := snd cs; upd := up; flag := fl; cat := ca; isub := isb;
            lsub := lsb; mver := mv; lver := lv; year := yr; month := mo; day := dy; hour := hr; minute := mi;
            second := se |}, c, x), l).

(* bufr_rd_section2: (s2.len, data) *)
Definition rd_sect2 (fl : Z) (l : list byte) : option ((Z * option (list byte)) * list byte) :=
  if has2flag fl then
    do (n, l) <- get3 l;
    do (_, l) <- get1 l;
    do (d, l) <- getn (n - 4) l;
    Some ((n, Some d), l)
  else Some ((0, None), l).

(* bufr_decode_sect3: count = (s3.len - 7) / 2 descriptors *)
Fixpoint unpack_descs (l : list byte) : list Z :=
  match l with hi :: lo :: t => unpack_desc hi lo :: unpack_descs t | _ => [] end.

(* bufr_rd_section3: (s3.len, subsets, flag, descriptors) *)
Definition rd_sect3 (l : list byte) : option ((Z * Z * Z * list Z) * list byte) :=
  do (n, l) <- get3 l;
  do (_, l) <- get1 l;
  do (ns, l) <- get2 l;
  do (fl, l) <- get1 l;
  do (d, l) <- getn (n - 7) l;
  Some ((n, ns, fl, unpack_descs d), l).

(* bufr_rd_section4: when the section lengths do not add up to len_msg the length is derived from len_msg *)
Definition rd_sect4 (lm others : Z) (l : list byte) : option ((Z * list byte) * list byte) :=
  do (n, l) <- get3 l;
  do (_, l) <- get1 l;
  let len := if others + n =? lm then n - 4 else lm - others - 4 in
  do (d, l) <- getn len l;
  Some ((4 + len, d), l).

Definition rd_sect5 (l : list byte) : option (list byte) :=
  match l with
  | a :: b :: c :: d :: t => if (a =? 55) && (b =? 55) && (c =? 55) && (d =? 55) then Some t else None
  | _ => None
  end.

(* Sections 0-5 after the start marker (bufr_rd_section0 .. bufr_rd_section5); hs = header string already found *)
Definition rd_sections (hs : list byte) (l0 : list byte) : option (rres * list byte) :=
  do (lme, l1) <- rd_sect0 l0;
  let '(lm, e) := lme in
  do (r1, l2) <- rd_sect1 e l1;
  let '(f1, n1, x1) := r1 in
  do (r2, l3) <- rd_sect2 (flag f1) l2;
  let '(n2, d2) := r2 in
  do (r3, l4) <- rd_sect3 l3;
  let '(n3, ns, fl3, ds) := r3 in
  do (r4, l5) <- rd_sect4 lm (8 + n1 + n2 + n3 + 4) l4;
  let '(n4, d4) := r4 in
  do l6 <- rd_sect5 l5;
  Some ({| r_msg := {| ed := e; s1 := f1; s2 := d2; nsub := ns; s3flag := fl3; descs := ds;
                       s4 := d4; s4bit := 0; s4cur := 0; hdr := hs |};
           r_lm := lm; r_s1len := n1; r_s1x := x1; r_s2len := n2; r_s3len := n3; r_s4len := n4;
           r_used := 0 |}, l6).

Definition set_used (r : rres) (u : Z) : rres :=
  {| r_msg := r_msg r; r_lm := r_lm r; r_s1len := r_s1len r; r_s1x := r_s1x r; r_s2len := r_s2len r;
     r_s3len := r_s3len r; r_s4len := r_s4len r; r_used := u |}.

(* bufr_callback_read_message; r_used = bytes taken from the source (what bufr_memread_message returns) *)
Definition rd (c : cfg) (l : list byte) : option (rres * list byte) :=
  match seek_start l with
  | SFound h l0 =>
    match rd_sections (schar2oct c h) l0 with
    | Some (r, l6) => Some (set_used r (zlen l - zlen l6), l6)
    | None => None
    end
  | _ => None
  end.

(* repeated bufr_read_message on one stream until it fails *)
Fixpoint rd_stream (fuel : nat) (c : cfg) (l : list byte) : list rres :=
  match fuel with
  | O => []
  | S f => match rd c l with Some (r, rest) => r :: rd_stream f c rest | None => [] end
  end.
Definition rd_all (c : cfg) (l : list byte) : list rres := rd_stream (S (length l)) c l.
