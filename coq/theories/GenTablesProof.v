(* GenTablesProof.v — finite theorems over the table literals regenerated from /repo/Tables on every run. *)
From Coq Require Import List ZArith Bool.
From V Require Import Walk Fm94 Fm94Exp GenTables.
Import ListNotations.

(* every Table D entry of every shipped table version expands: terminates (no circular reference), names only known
   sequences, has no replication span running past its end and no delayed replication without a class 31 factor *)
Lemma shipped_tableD_expand : forallb (all_tableD_expand (Z.to_nat 400000)) shipped_tables = true.
Proof. vm_compute. reflexivity. Qed.

Lemma shipped_tables_nonempty : (Nat.leb 3 (length shipped_tables) && forallb (fun T => Nat.leb 200 (length (tD T))) shipped_tables) = true.
Proof. vm_compute. reflexivity. Qed.
