(* Tables.v — executable model of the Table B / Table D state of libecbufr (property C12): bufr_tables.c
   (bufr_load_[ml]_table[BD], bufr_load_csv_table[BD] after parsing, bufr_merge_tables / bufr_merge_TablesSet /
   bufr_merge_table[BD], bufr_fetch_tableB with last_searched and tableB_cache, bufr_fetch_tableD,
   bufr_match_tableD_sequence, bufr_check_loop_tableD / bufr_check_desc_tableD), bufr_array.c (arr_sort = libc qsort,
   arr_search = libc bsearch, arr_find = lfind) and cmc_tables.c (bufr_use_tables_list).
   A "file" is the list of entries its well-formed lines denote, in file order (the parsing itself is compared with an
   independent reader by lib/c12.py, it is not modelled).  Table B entries live in a heap of cells addressed by
   identifiers, because the library keeps POINTERS to entries in tableB_cache / last_searched: an entry can be updated in
   place (seen through the pointer) or freed (the pointer dangles).
   The model is parametrised by [fixes]: [current_code] mirrors the code as it is, each flag switches one proposed
   repair on (see /verif/proposed_fixes/C12_*.md).  Definitions only; proofs are in TablesProof.v. *)
From Coq Require Import List ZArith Arith Bool Lia FMapPositive.
From V Require Import Fm94.
Import ListNotations.
Local Open Scope Z_scope.

Definition ent := (Z * bent)%type.          (* Table B: descriptor, (unit kind, scale, reference, width) *)
Definition dent := (Z * list Z)%type.       (* Table D: descriptor, sequence *)

Record fixes := mkFx {
  fx_cache : bool;   (* drop tableB_cache and last_searched whenever a Table B is loaded or merged *)
  fx_merge : bool;   (* bufr_merge_table[BD] scan the destination linearly (it grows unsorted) and overwrite every entry of the descriptor *)
  fx_own : bool      (* bufr_load_tableB takes a private copy of a REFERENCED table before merging a file into it *)
}.
Definition current_code := mkFx false false false.
Definition all_fixed := mkFx true true true.

(* ------------------------------------------------------------------ arr_sort: glibc qsort is a stable merge sort *)
Section Sort.
  Context {A : Type} (kf : A -> Z).
  Fixpoint sinsert (x : A) (l : list A) : list A :=
    match l with
    | [] => [x]
    | y :: t => if kf x <=? kf y then x :: l else y :: sinsert x t
    end.
  Definition ssort (l : list A) : list A := fold_right sinsert [] l.
End Sort.

(* ------------------------------------------------------------------ arr_search: glibc bsearch, verbatim
     l = 0; u = n; while (l < u) { idx = (l + u) / 2; c = cmp(key, base[idx]); if (c < 0) u = idx; else if (c > 0) l = idx + 1; else return idx; }
   The keys are read through the stored pointers: None = the entry was freed (dangling pointer). *)
Inductive bsres := BFound (i : nat) | BNone | BDang.

Fixpoint bs (fuel : nat) (get : nat -> option Z) (k : Z) (lo hi : nat) : bsres :=
  match fuel with
  | O => BNone
  | S f =>
    if (lo <? hi)%nat then
      let i := Nat.div2 (lo + hi) in
      match get i with
      | None => BDang
      | Some ki => if k <? ki then bs f get k lo i else if ki <? k then bs f get k (S i) hi else BFound i
      end
    else BNone
  end.
Definition bsearch_f (n : nat) (get : nat -> option Z) (k : Z) : bsres := bs (S n) get k 0%nat n.
Definition bsearch (ks : list (option Z)) (k : Z) : bsres := bsearch_f (length ks) (fun i => nth i ks None) k.

(* ------------------------------------------------------------------ heap of Table B entries (malloc'ed EntryTableB) *)
Record heap := mkH { hmap : PositiveMap.t ent; hnext : positive }.
Definition hempty : heap := mkH (PositiveMap.empty ent) 1%positive.
Definition hget (h : heap) (i : positive) : option ent := PositiveMap.find i (hmap h).
Definition hkey (h : heap) (i : positive) : option Z := option_map fst (hget h i).
Definition hkeyz (h : heap) (i : positive) : Z := match hkey h i with Some k => k | None => 0 end.
Definition hset (h : heap) (i : positive) (e : ent) : heap := mkH (PositiveMap.add i e (hmap h)) (hnext h).
Definition hfree (h : heap) (i : positive) : heap := mkH (PositiveMap.remove i (hmap h)) (hnext h).
Definition halloc (h : heap) (e : ent) : heap * positive := (mkH (PositiveMap.add (hnext h) e (hmap h)) (Pos.succ (hnext h)), hnext h).
Definition hfree_all (h : heap) (ids : list positive) : heap := fold_left hfree ids h.
Fixpoint alloc_all (h : heap) (es : list ent) : heap * list positive :=
  match es with
  | [] => (h, [])
  | e :: r => let '(h1, i) := halloc h e in let '(h2, ids) := alloc_all h1 r in (h2, i :: ids)
  end.
Definition akeys (h : heap) (ids : list positive) : list (option Z) := map (hkey h) ids.
Fixpoint avals (h : heap) (ids : list positive) : list ent :=
  match ids with [] => [] | i :: t => match hget h i with Some e => e :: avals h t | None => avals h t end end.
(* arr_search on an array of entry pointers *)
Definition asearch (h : heap) (ids : list positive) (k : Z) : bsres :=
  bsearch_f (length ids) (fun i => match nth_error ids i with Some id => hkey h id | None => None end) k.

(* bufr_merge_tableB( table1, table2 ): entries of table2 in array order; found -> bufr_copy_EntryTableB in place,
   otherwise a new entry is appended to table1 (which is therefore no longer sorted while the loop runs).
   Current code: the entry is looked up with arr_search (bsearch) in the growing array.
   Repaired code (fx_merge): linear scan, EVERY entry of the descriptor is overwritten, appended when there is none. *)
Definition key_is (h : heap) (k : Z) (id : positive) : bool := match hkey h id with Some k' => k' =? k | None => false end.
Definition set_all (h : heap) (ids : list positive) (e : ent) : heap := fold_left (fun h0 id => hset h0 id e) ids h.
Fixpoint merge_idsB (fx : fixes) (h : heap) (t : list positive) (es : list ent) : heap * list positive :=
  match es with
  | [] => (h, t)
  | e :: r =>
    if fx_merge fx then
      match filter (key_is h (fst e)) t with
      | [] => let '(h1, id) := halloc h e in merge_idsB fx h1 (t ++ [id]) r
      | hits => merge_idsB fx (set_all h hits e) t r
      end
    else
      match asearch h t (fst e) with
      | BFound i => merge_idsB fx (match nth_error t i with Some id => hset h id e | None => h end) t r
      | _ => let '(h1, id) := halloc h e in merge_idsB fx h1 (t ++ [id]) r
      end
  end.

Fixpoint upd_nth {A} (i : nat) (v : A) (l : list A) : list A :=
  match l, i with
  | [], _ => []
  | _ :: t, O => v :: t
  | x :: t, S j => x :: upd_nth j v t
  end.
Definition dkeys (t : list dent) : list (option Z) := map (fun x => Some (fst x)) t.
Fixpoint merge_D (fx : fixes) (t : list dent) (es : list dent) : list dent :=
  match es with
  | [] => t
  | e :: r =>
    if fx_merge fx then
      if existsb (fun x => fst x =? fst e) t
      then merge_D fx (map (fun x => if fst x =? fst e then (fst x, snd e) else x) t) r
      else merge_D fx (t ++ [e]) r
    else
      match bsearch (dkeys t) (fst e) with
      | BFound i => merge_D fx (upd_nth i (fst (nth i t e), snd e) t) r
      | _ => merge_D fx (t ++ [e]) r
      end
  end.

(* ------------------------------------------------------------------ the state of one BUFR_Tables object *)
Record tstate := mkS {
  hp : heap;
  mB : option (list positive);  mBown : bool;     (* master.tableB, master.tableBtype == TYPE_ALLOCATED *)
  lB : option (list positive);                    (* local.tableB (always allocated when present) *)
  mD : option (list dent);
  lD : option (list dent);
  mver : Z; lver : Z;
  cache : list positive;                          (* tableB_cache (NULL and empty behave alike) *)
  last : option positive                          (* last_searched *)
}.
Definition empty_state (h : heap) : tstate := mkS h None false None None None 0 0 [] None.

Definition drop_cache (fx : fixes) (s : tstate) : tstate :=
  if fx_cache fx then mkS (hp s) (mB s) (mBown s) (lB s) (mD s) (lD s) (mver s) (lver s) [] None else s.

(* bufr_load_tableB / bufr_load_csv_tableB on one table of the object: returns the new heap and array *)
Definition load_B (fx : fixes) (h : heap) (t : option (list positive)) (own : bool) (es : list ent) : heap * list positive :=
  let '(h1, t1) :=
    match t with
    | None => alloc_all h es
    | Some ids =>
      if fx_own fx && negb own
      then let '(h0, ids0) := merge_idsB fx h [] (avals h ids) in merge_idsB fx h0 ids0 es
      else merge_idsB fx h ids es
    end in
  (h1, ssort (hkeyz h1) t1).

Definition load_D (fx : fixes) (t : option (list dent)) (es : list dent) : list dent :=
  ssort fst (match t with None => es | Some t0 => merge_D fx t0 es end).

(* ------------------------------------------------------------------ lookups *)
Definition descF (d : Z) : Z := Z.quot d 100000.

Definition searchD (t : option (list dent)) (d : Z) : option dent :=
  match t with
  | None => None
  | Some l => match bsearch (dkeys l) d with BFound i => nth_error l i | _ => None end
  end.
Definition fetchD (s : tstate) (d : Z) : option dent :=
  if descF d =? 3 then match searchD (lD s) d with Some e => Some e | None => searchD (mD s) d end else None.

Inductive sres := SFound (id : positive) | SNone | SDang.
Definition searchB (h : heap) (t : option (list positive)) (d : Z) : sres :=
  match t with None => SNone | Some ids => match asearch h ids d with BFound i => match nth_error ids i with Some id => SFound id | None => SNone end | BNone => SNone | BDang => SDang end end.

Inductive fres := FAbsent | FEntry (e : ent) | FCrash.     (* FCrash: a freed entry was read (heap-use-after-free) *)

Definition set_last (s : tstate) (i : positive) : tstate :=
  mkS (hp s) (mB s) (mBown s) (lB s) (mD s) (lD s) (mver s) (lver s) (cache s) (Some i).
Definition set_cache (s : tstate) (c : list positive) (i : positive) : tstate :=
  mkS (hp s) (mB s) (mBown s) (lB s) (mD s) (lD s) (mver s) (lver s) c (Some i).

Definition entry_of (s : tstate) (i : positive) : fres := match hget (hp s) i with Some e => FEntry e | None => FCrash end.

(* the part of bufr_fetch_tableB after the last_searched shortcut *)
Definition fetchB_slow (s : tstate) (d : Z) : fres * tstate :=
  match asearch (hp s) (cache s) d with
  | BDang => (FCrash, s)
  | BFound i => match nth_error (cache s) i with Some id => (entry_of s id, set_last s id) | None => (FCrash, s) end
  | BNone =>
    if (1 <=? descF d) && (descF d <=? 3) then (FAbsent, s)
    else
      let r := match searchB (hp s) (lB s) d with SFound id => SFound id | _ => searchB (hp s) (mB s) d end in
      match r with
      | SFound id =>
        let c := cache s ++ [id] in
        (* arr_sort compares (reads) every element as soon as there are two *)
        if (2 <=? length c)%nat && existsb (fun j => match hget (hp s) j with None => true | Some _ => false end) c
        then (FCrash, s)
        else (entry_of s id, set_cache s (ssort (hkeyz (hp s)) c) id)
      | _ => (FAbsent, s)
      end
  end.

Definition fetchB (s : tstate) (d : Z) : fres * tstate :=
  match last s with
  | Some id =>
    match hget (hp s) id with
    | None => (FCrash, s)
    | Some e => if fst e =? d then (FEntry e, s) else fetchB_slow s d
    end
  | None => fetchB_slow s d
  end.

(* bufr_tabled_match_sequence: linear scan, local first *)
Fixpoint list_eqb (a b : list Z) : bool :=
  match a, b with [], [] => true | x :: a', y :: b' => (x =? y) && list_eqb a' b' | _, _ => false end.
Definition match_seq (t : option (list dent)) (sq : list Z) : option Z :=
  match t with None => None | Some l => option_map fst (find (fun e => list_eqb (snd e) sq) l) end.
Definition matchD (s : tstate) (sq : list Z) : option Z :=
  match sq with [] => None | _ => match match_seq (lD s) sq with Some d => Some d | None => match_seq (mD s) sq end end.

(* ------------------------------------------------------------------ bufr_check_loop_tableD / bufr_check_desc_tableD
   [path] is the IntArray of the C code; the early returns that leave it dirty are mirrored.  Out of fuel = -3
   (the C recursion has no counter; TablesProof.fuel_enough shows that [loop_fuel] is never exhausted). *)
(* the loop over the members of a sequence inside bufr_check_desc_tableD; [chk] is the recursive call *)
Fixpoint check_children (chk : Z -> list Z -> Z * list Z) (l : list Z) (p : list Z) : Z * list Z :=
  match l with
  | [] => (1, removelast p)                          (* arr_del(array,1) *)
  | x :: r => let '(rc, p1) := chk x p in
              if rc <? 0 then ((if rc =? -3 then -3 else -1), p1) else check_children chk r p1
  end.

Section Loop.
  Variable fetch : Z -> option dent.
  Fixpoint check_desc (fuel : nat) (d : Z) (path : list Z) : Z * list Z :=
    match fuel with
    | O => (-3, path)
    | S f =>
      if descF d =? 3 then
        if existsb (Z.eqb d) path then (-2, path)
        else
          match fetch d with
          | None => (-1, path)                                   (* arr_add; arr_del(array,1) *)
          | Some e => check_children (check_desc f) (snd e) (path ++ [d])
          end
      else (1, path)
    end.

  (* the two nested loops of bufr_check_loop_tableD over the table just loaded *)
  Fixpoint check_seq (fuel : nat) (l : list Z) (path : list Z) (err : Z) : list Z * Z :=
    match l with
    | [] => (path, err)
    | x :: r => let '(rc, p1) := check_desc fuel x path in
                check_seq fuel r p1 (if (rc <? 0) && (rc <? err) then rc else err)
    end.
  Fixpoint check_entries (fuel : nat) (t : list dent) (path : list Z) (err : Z) : list Z * Z :=
    match t with
    | [] => (path, err)
    | e :: r => let '(p1, err1) := check_seq fuel (snd e) path err in check_entries fuel r p1 err1
    end.
End Loop.

Definition tcount (t : option (list dent)) : nat := match t with None => O | Some l => length l end.
Definition loop_fuel (s : tstate) : nat := S (S (tcount (lD s) + tcount (mD s))).
Definition check_loop (s : tstate) (t : list dent) : Z := snd (check_entries (fetchD s) (loop_fuel s) t [] 0).

(* ------------------------------------------------------------------ operations of a history *)
Record mergearg := mkM {
  a_mb : option (option Z * list ent);    (* master Table B file of the source object: version (None: CSV), entries *)
  a_md : option (list dent);
  a_lb : option (Z * list ent);
  a_ld : option (list dent)
}.

Inductive op :=
| OLoadMB (ver : option Z) (es : list ent)      (* bufr_load_m_tableB (Some version) / bufr_load_csv_tableB (None) *)
| OLoadLB (ver : Z) (es : list ent)
| OLoadMD (es : list dent)                       (* bufr_load_m_tableD / bufr_load_csv_tableD *)
| OLoadLD (es : list dent)
| OMerge (a : mergearg)
| OFetchB (d : Z) | OFetchD (d : Z) | OMatchD (sq : list Z) | OVer.

Inductive result :=
| RRc (rc : Z) | RMerged | RB (r : option ent) | RD (r : option dent) | RM (r : option Z) | RVer (m l : Z) | RCrash.

Definition vals_of (s : tstate) (t : option (list positive)) : list ent := match t with None => [] | Some ids => avals (hp s) ids end.

Definition do_loadMB (fx : fixes) (s : tstate) (ver : option Z) (es : list ent) : tstate :=
  let '(h1, t1) := load_B fx (hp s) (mB s) (mBown s) es in
  drop_cache fx (mkS h1 (Some t1) true (lB s) (mD s) (lD s) (match ver with Some v => v | None => mver s end) (lver s) (cache s) (last s)).
Definition do_loadLB (fx : fixes) (s : tstate) (ver : Z) (es : list ent) : tstate :=
  let '(h1, t1) := load_B fx (hp s) (lB s) true es in
  drop_cache fx (mkS h1 (mB s) (mBown s) (Some t1) (mD s) (lD s) (mver s) ver (cache s) (last s)).
Definition do_loadMD (fx : fixes) (s : tstate) (es : list dent) : Z * tstate :=
  let t1 := load_D fx (mD s) es in
  let s1 := mkS (hp s) (mB s) (mBown s) (lB s) (Some t1) (lD s) (mver s) (lver s) (cache s) (last s) in
  (check_loop s1 t1, s1).
Definition do_loadLD (fx : fixes) (s : tstate) (es : list dent) : Z * tstate :=
  let t1 := load_D fx (lD s) es in
  let s1 := mkS (hp s) (mB s) (mBown s) (lB s) (mD s) (Some t1) (mver s) (lver s) (cache s) (last s) in
  (check_loop s1 t1, s1).

(* the source object of a merge: a fresh object into which the named files are loaded (sharing the heap) *)
Definition build_other (fx : fixes) (h : heap) (a : mergearg) : tstate :=
  let s0 := empty_state h in
  let s1 := match a_mb a with Some (v, es) => do_loadMB fx s0 v es | None => s0 end in
  let s2 := match a_md a with Some es => snd (do_loadMD fx s1 es) | None => s1 end in
  let s3 := match a_lb a with Some (v, es) => do_loadLB fx s2 v es | None => s2 end in
  match a_ld a with Some es => snd (do_loadLD fx s3 es) | None => s3 end.

Definition do_merge (fx : fixes) (s : tstate) (a : mergearg) : tstate :=
  let o := build_other fx (hp s) a in
  let h0 := hp o in
  (* master tables are referenced; an owned master Table B of the destination is freed first *)
  let '(h1, mB1, own1, mv1) :=
    match mB o with
    | Some ids => ((if mBown s then match mB s with Some old => hfree_all h0 old | None => h0 end else h0), Some ids, false, mver o)
    | None => (h0, mB s, mBown s, mver s)
    end in
  let mD1 := match mD o with Some t => Some t | None => mD s end in
  (* bufr_merge_TablesSet( local, local ) *)
  let '(h2, lB2) := merge_idsB fx h1 (match lB s with Some ids => ids | None => [] end) (vals_of o (lB o)) in
  let lB3 := ssort (hkeyz h2) lB2 in
  let lD3 := ssort fst (merge_D fx (match lD s with Some t => t | None => [] end) (match lD o with Some t => t | None => [] end)) in
  drop_cache fx (mkS h2 mB1 own1 (Some lB3) mD1 (Some lD3) mv1 (Z.max (lver s) (lver o)) (cache s) (last s)).

Definition exec (fx : fixes) (s : tstate) (o : op) : result * tstate :=
  match o with
  | OLoadMB v es => (RRc 0, do_loadMB fx s v es)
  | OLoadLB v es => (RRc 0, do_loadLB fx s v es)
  | OLoadMD es => let '(rc, s1) := do_loadMD fx s es in (RRc rc, s1)
  | OLoadLD es => let '(rc, s1) := do_loadLD fx s es in (RRc rc, s1)
  | OMerge a => (RMerged, do_merge fx s a)
  | OFetchB d => match fetchB s d with
                 | (FAbsent, s1) => (RB None, s1)
                 | (FEntry e, s1) => (RB (Some e), s1)
                 | (FCrash, s1) => (RCrash, s1)
                 end
  | OFetchD d => (RD (fetchD s d), s)
  | OMatchD sq => (RM (matchD s sq), s)
  | OVer => (RVer (mver s) (lver s), s)
  end.

(* a history: the run stops at the first crash (the process is gone) *)
Fixpoint run (fx : fixes) (s : tstate) (ops : list op) : list result * tstate :=
  match ops with
  | [] => ([], s)
  | o :: r => let '(x, s1) := exec fx s o in
              match x with RCrash => ([RCrash], s1) | _ => let '(xs, s2) := run fx s1 r in (x :: xs, s2) end
  end.
Definition state_after (fx : fixes) (ops : list op) : tstate := snd (run fx (empty_state hempty) ops).

(* ------------------------------------------------------------------ bufr_use_tables_list: versions of the list -> index *)
Fixpoint use_list_from (i : nat) (vs : list Z) (v : Z) (btn ltn : option (nat * Z)) : option nat :=
  match vs with
  | [] => option_map fst (match btn with Some b => Some b | None => ltn end)
  | x :: r =>
    if x =? v then Some i
    else if v <? x then
      use_list_from (S i) r v (match btn with None => Some (i, x) | Some (_, bv) => if bv <? x then Some (i, x) else btn end) ltn
    else
      use_list_from (S i) r v btn (match ltn with None => Some (i, x) | Some (_, lv) => if lv <? x then Some (i, x) else ltn end)
  end.
Definition use_tables_list (vs : list Z) (v : Z) : option nat := use_list_from 0%nat vs v None None.

(* ------------------------------------------------------------------ SPECIFICATION: a table set denotes finite maps.
   [over m f]: the entries of file f added to map m, replacing those with the same descriptor (assoc takes the first). *)
Definition over {A} (m f : list (Z * A)) : list (Z * A) := f ++ m.
Record spec := mkSp { sp_lB : list ent; sp_mB : list ent; sp_lD : list dent; sp_mD : list dent }.
Definition spec0 := mkSp [] [] [] [].
Definition spec_step (sp : spec) (o : op) : spec :=
  match o with
  | OLoadMB _ es => mkSp (sp_lB sp) (over (sp_mB sp) es) (sp_lD sp) (sp_mD sp)
  | OLoadLB _ es => mkSp (over (sp_lB sp) es) (sp_mB sp) (sp_lD sp) (sp_mD sp)
  | OLoadMD es => mkSp (sp_lB sp) (sp_mB sp) (sp_lD sp) (over (sp_mD sp) es)
  | OLoadLD es => mkSp (sp_lB sp) (sp_mB sp) (over (sp_lD sp) es) (sp_mD sp)
  | OMerge a =>
    mkSp (match a_lb a with Some (_, es) => over (sp_lB sp) es | None => sp_lB sp end)
         (match a_mb a with Some (_, es) => es | None => sp_mB sp end)
         (match a_ld a with Some es => over (sp_lD sp) es | None => sp_lD sp end)
         (match a_md a with Some es => es | None => sp_mD sp end)
  | _ => sp
  end.
Definition spec_after (ops : list op) : spec := fold_left spec_step ops spec0.
(* local entries take precedence over master entries *)
Definition spec_fetchB (sp : spec) (d : Z) : option ent :=
  if (1 <=? descF d) && (descF d <=? 3) then None
  else match assoc d (sp_lB sp ++ sp_mB sp) with Some b => Some (d, b) | None => None end.
Definition spec_fetchD (sp : spec) (d : Z) : option dent :=
  if descF d =? 3 then match assoc d (sp_lD sp ++ sp_mD sp) with Some q => Some (d, q) | None => None end else None.

(* well-formed files: one entry per descriptor *)
Definition nodupk {A} (l : list (Z * A)) : Prop := NoDup (map fst l).
Definition wf_arg (a : mergearg) : Prop :=
  match a_mb a with Some (_, es) => nodupk es | None => True end /\
  match a_lb a with Some (_, es) => nodupk es | None => True end /\
  match a_md a with Some es => nodupk es | None => True end /\
  match a_ld a with Some es => nodupk es | None => True end.
Definition wf_op (o : op) : Prop :=
  match o with
  | OLoadMB _ es | OLoadLB _ es => nodupk es
  | OLoadMD es | OLoadLD es => nodupk es
  | OMerge a => wf_arg a
  | _ => True
  end.
