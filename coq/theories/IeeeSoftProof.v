(* IeeeSoftProof.v — proofs about the executable model IeeeSoft.v (property C19); integers only, no axioms.
   Contents: arithmetic helpers; [store] returns the canonical datum of any representable value; the decoder
   (significand table loop, scaling) equals the IEEE 754 layout [spec_decode]; the encoder's while loop
   (invariant: after j iterations ival = m / 2^(L-j), dvalue = (m mod 2^(L-j)) * 2^-(L-j), rem = R - j) and
   [get_significand] for an exponent estimate that is exact, one too low, one or two too high; [soft_encode] equals
   [spec_encode]; what the unrepaired encoder does on subnormals; [spec_decode]/[spec_encode] are inverse bijections. *)
From Coq Require Import ZArith Bool Lia ZifyBool.
From V Require Import IeeeSoft.
Open Scope Z_scope.
Ltac Zify.zify_post_hook ::= Z.div_mod_to_equations.

(* ===== arithmetic and bit-operation helpers ===== *)
Lemma p2pos k : 0 <= k -> 0 < 2 ^ k.
Proof. intros Hk. apply Z.pow_pos_nonneg; lia. Qed.

Lemma p2succ k : 0 <= k -> 2 ^ (k + 1) = 2 * 2 ^ k.
Proof. intros Hk. rewrite Z.pow_add_r by lia. change (2 ^ 1) with 2. lia. Qed.

Lemma half_step m k : 0 <= k -> 0 <= m ->
  m / 2 ^ k = 2 * (m / 2 ^ (k + 1)) + (if 2 ^ k <=? m mod 2 ^ (k + 1) then 1 else 0) /\
  m mod 2 ^ k = m mod 2 ^ (k + 1) - (if 2 ^ k <=? m mod 2 ^ (k + 1) then 2 ^ k else 0).
Proof.
  intros Hk Hm. rewrite (p2succ k Hk). pose proof (p2pos k Hk) as Hp. set (p := 2 ^ k) in *.
  pose proof (Z.div_mod m (2 * p) ltac:(lia)) as Hdm.
  pose proof (Z.mod_pos_bound m (2 * p) ltac:(lia)) as Hb.
  set (a := m / (2 * p)) in *. set (r := m mod (2 * p)) in *.
  destruct (p <=? r) eqn:Hle.
  - assert (Hq : m = p * (2 * a + 1) + (r - p)) by lia.
    split.
    + symmetry. apply (Z.div_unique m p (2 * a + 1) (r - p)); lia.
    + symmetry. apply (Z.mod_unique m p (2 * a + 1) (r - p)); lia.
  - assert (Hq : m = p * (2 * a) + r) by lia.
    split.
    + symmetry. rewrite Z.add_0_r. apply (Z.div_unique m p (2 * a) r); lia.
    + symmetry. rewrite Z.sub_0_r. apply (Z.mod_unique m p (2 * a) r); lia.
Qed.

Lemma land_disjoint a b n : 0 <= n -> 0 <= b < 2 ^ n -> Z.land (a * 2 ^ n) b = 0.
Proof.
  intros Hn Hb. apply Z.bits_inj'. intros i Hi. rewrite Z.land_spec, Z.bits_0.
  destruct (Z.lt_ge_cases i n) as [Hlt | Hge].
  - rewrite Z.mul_pow2_bits_low by lia. reflexivity.
  - destruct (Z.eq_dec b 0) as [-> | Hnz].
    + rewrite Z.bits_0. apply andb_false_r.
    + rewrite (Z.bits_above_log2 b i); [apply andb_false_r | lia |].
      apply Z.log2_lt_pow2; [lia |]. apply Z.lt_le_trans with (2 ^ n); [lia |].
      apply Z.pow_le_mono_r; lia.
Qed.

Lemma lor_add a b n : 0 <= n -> 0 <= b < 2 ^ n -> Z.lor (a * 2 ^ n) b = a * 2 ^ n + b.
Proof.
  intros Hn Hb. pose proof (land_disjoint a b n Hn Hb) as Hl.
  rewrite <- Z.lxor_lor by exact Hl. symmetry. apply Z.add_nocarry_lxor. exact Hl.
Qed.

Lemma lor_shiftl_add a b n : 0 <= n -> 0 <= b < 2 ^ n -> Z.lor (Z.shiftl a n) b = a * 2 ^ n + b.
Proof. intros Hn Hb. rewrite Z.shiftl_mul_pow2 by lia. apply lor_add; assumption. Qed.

Lemma shiftl1 a : Z.shiftl a 1 = 2 * a.
Proof. rewrite Z.shiftl_mul_pow2 by lia. change (2 ^ 1) with 2. lia. Qed.

Lemma lor_shiftl1 a : Z.lor (Z.shiftl a 1) 1 = 2 * a + 1.
Proof. rewrite (lor_shiftl_add a 1 1) by (change (2 ^ 1) with 2; lia). change (2 ^ 1) with 2. lia. Qed.

Lemma land_bit a n : 0 <= n -> (Z.land a (Z.shiftl 1 n) =? 0) = negb (Z.testbit a n).
Proof.
  intros Hn. rewrite Z.shiftl_1_l.
  assert (H : Z.land a (2 ^ n) = if Z.testbit a n then 2 ^ n else 0).
  { apply Z.bits_inj'. intros i Hi. rewrite Z.land_spec, Z.pow2_bits_eqb by lia.
    destruct (Z.eqb_spec n i) as [<- | Hne].
    - destruct (Z.testbit a n); [rewrite Z.pow2_bits_true by lia; reflexivity | rewrite Z.bits_0; reflexivity].
    - rewrite andb_false_r. destruct (Z.testbit a n); [rewrite Z.pow2_bits_false by lia; reflexivity | rewrite Z.bits_0; reflexivity]. }
  rewrite H. pose proof (p2pos n Hn). destruct (Z.testbit a n); cbn [negb]; lia.
Qed.

Lemma testbit_div a n : 0 <= n -> Z.testbit a n = ((a / 2 ^ n) mod 2 =? 1).
Proof.
  intros Hn. destruct (Z.testbit a n) eqn:Ht.
  - apply Z.testbit_true in Ht; [| lia]. lia.
  - apply Z.testbit_false in Ht; [| lia]. lia.
Qed.

(* the bit tested by the encoder loop (2^k <= m mod 2^(k+1)) is bit k of m *)
Lemma bit_as_cmp m k : 0 <= k -> 0 <= m -> (2 ^ k <=? m mod 2 ^ (k + 1)) = ((m / 2 ^ k) mod 2 =? 1).
Proof.
  intros Hk Hm. destruct (half_step m k Hk Hm) as [H1 _].
  destruct (2 ^ k <=? m mod 2 ^ (k + 1)); lia.
Qed.

Lemma log2_mul_pow2' a b : 0 < a -> 0 <= b -> Z.log2 (a * 2 ^ b) = Z.log2 a + b.
Proof. intros. rewrite Z.log2_mul_pow2 by lia. lia. Qed.

Lemma leftest_123 : leftest_bit 1 = 1 /\ leftest_bit 2 = 2 /\ leftest_bit 3 = 2.
Proof. repeat split; reflexivity. Qed.

(* ===== libm contracts, store, the decoder's significand loop ===== *)
Definition pow2_ok (pw : Z -> dy) (lo hi : Z) : Prop :=
  forall e, lo <= e <= hi -> exists k, 0 <= k /\ pw e = (2 ^ k, e - k).
(* the exponent estimate (int)(log(x)/log(2.0)) for x = m * 2^e > 0, against floor(log2 x) = Z.log2 m + e: it may be one
   too low (x = 2^k with the quotient rounded just below k), one too high (truncation toward zero for x < 1) or two too high
   (x just below 2^k < 1 with the quotient rounded just above k); a subnormal must not be estimated above the minimum exponent *)
Definition ilog2_ok (f : fmt) (il : dy -> Z) : Prop :=
  forall m e, 0 < m -> -1 <= il (m, e) - (Z.log2 m + e) <= 2 /\ (Z.log2 m + e < emin f -> il (m, e) <= emin f).
Definition fmt_ok (f : fmt) : Prop := 2 <= fb f /\ 3 <= eb f /\ 2 <= wcast f.

Lemma div_p2_ok x k e : 0 <= k -> dy_div_p2 x (2 ^ k, e - k) = Some (fst x, snd x - e).
Proof.
  intros Hk. unfold dy_div_p2. cbn [fst snd]. rewrite Z.log2_pow2 by lia.
  pose proof (p2pos k Hk) as Hp.
  replace (0 <? 2 ^ k) with true by lia. rewrite Z.eqb_refl. cbn [andb].
  f_equal. f_equal. lia.
Qed.

Lemma store_value f s m e M ec n :
  0 < M -> n <= e -> n <= ec -> m * 2 ^ (e - n) = M * 2 ^ (ec - n) ->
  ec = Z.max (ec + (Z.log2 M + 1) - (fb f + 1)) (emin f - fb f) ->
  ec + Z.log2 M <= emax f ->
  store f s (m, e) = Some (FFin s M ec).
Proof.
  intros HM Hne Hnec Heq Hcan Hov.
  pose proof (p2pos (e - n) ltac:(lia)) as Hp1. pose proof (p2pos (ec - n) ltac:(lia)) as Hp2.
  assert (Hm : 0 < m) by nia.
  assert (Hlog : Z.log2 m + e = Z.log2 M + ec).
  { pose proof (f_equal Z.log2 Heq) as Hl. rewrite !log2_mul_pow2' in Hl by lia. lia. }
  unfold store. replace (m =? 0) with false by lia.
  replace (e + (Z.log2 m + 1) - (fb f + 1)) with (ec + (Z.log2 M + 1) - (fb f + 1)) by lia.
  rewrite <- Hcan. replace (emax f <? e + (Z.log2 m + 1) - 1) with false by lia.
  destruct (ec <=? e) eqn:Hle.
  - f_equal. f_equal.
    replace (e - n) with ((e - ec) + (ec - n)) in Heq by lia.
    rewrite Z.pow_add_r in Heq by lia.
    apply (Z.mul_reg_r _ _ (2 ^ (ec - n))); lia.
  - replace (ec - n) with ((ec - e) + (e - n)) in Heq by lia.
    rewrite Z.pow_add_r in Heq by lia.
    assert (Hm2 : m = M * 2 ^ (ec - e)) by (apply (Z.mul_reg_r _ _ (2 ^ (e - n))); lia).
    pose proof (p2pos (ec - e) ltac:(lia)) as Hp3.
    rewrite Hm2. rewrite Z.mod_mul by lia. rewrite Z.eqb_refl. rewrite Z.div_mul by lia. reflexivity.
Qed.

Section Dec.
Variable pow2 : Z -> dy.
Variables nbits fraction h : Z.
Hypothesis Hn : 0 <= nbits.
Hypothesis Hfr : 0 <= fraction < 2 ^ nbits.
Hypothesis Hpow : pow2_ok pow2 0 nbits.

Lemma fraction2_ok i : 0 <= i <= nbits -> fraction2 pow2 i = Some (1, - i).
Proof.
  intros Hi. unfold fraction2. destruct (Hpow i Hi) as (k & Hk & ->).
  rewrite div_p2_ok by lia. cbn [fst snd]. reflexivity.
Qed.

Lemma sigval_loop_ok : forall k j sm se,
  Z.of_nat k = nbits - j -> 0 <= j -> - j <= se <= 0 ->
  sm * 2 ^ (se + j) = h * 2 ^ j + fraction / 2 ^ (nbits - j) ->
  exists sm' se', sigval_loop pow2 nbits fraction k (j + 1) (sm, se) = Some (sm', se') /\
                  - nbits <= se' <= 0 /\ sm' * 2 ^ (se' + nbits) = h * 2 ^ nbits + fraction.
Proof.
  induction k as [| k IH]; intros j sm se Hk Hj Hse Hinv.
  - cbn [sigval_loop]. exists sm, se. assert (j = nbits) by lia. subst j.
    rewrite Z.sub_diag in Hinv. change (2 ^ 0) with 1 in Hinv. rewrite Z.div_1_r in Hinv.
    repeat split; try lia.
  - cbn [sigval_loop].
    assert (Hkk : 0 <= nbits - (j + 1)) by lia.
    rewrite land_bit by lia. rewrite negb_involutive. rewrite testbit_div by lia.
    destruct (half_step fraction (nbits - (j + 1)) Hkk ltac:(lia)) as [Hh _].
    rewrite bit_as_cmp in Hh by lia.
    replace (nbits - (j + 1) + 1) with (nbits - j) in Hh by lia.
    assert (H2 : sm * 2 ^ (se + (j + 1)) = 2 * (sm * 2 ^ (se + j))).
    { replace (se + (j + 1)) with (se + j + 1) by lia. rewrite p2succ by lia. lia. }
    assert (H3 : h * 2 ^ (j + 1) = 2 * (h * 2 ^ j)) by (rewrite p2succ by lia; lia).
    destruct ((fraction / 2 ^ (nbits - (j + 1))) mod 2 =? 1) eqn:Hbit.
    + rewrite fraction2_ok by lia.
      unfold dy_add. cbn [fst snd].
      replace (Z.min se (- (j + 1))) with (- (j + 1)) by lia.
      apply IH; try lia.
      replace (- (j + 1) + (j + 1)) with 0 by lia.
      replace (- (j + 1) - - (j + 1)) with 0 by lia.
      replace (se - - (j + 1)) with (se + (j + 1)) by lia.
      change (2 ^ 0) with 1. lia.
    + apply IH; try lia.
Qed.

Lemma significand_value_ok :
  (h = 0 \/ h = 1) ->
  exists sm se, significand_value pow2 fraction nbits (h =? 0) = Some (sm, se) /\
                - nbits <= se <= 0 /\ sm * 2 ^ (se + nbits) = h * 2 ^ nbits + fraction.
Proof.
  intros Hh. unfold significand_value.
  assert (Hs0 : (if h =? 0 then Some (0, 0) else fraction2 pow2 0) = Some (h, 0)).
  { destruct Hh as [-> | ->]; cbn [Z.eqb]; [reflexivity |]. rewrite fraction2_ok by lia. reflexivity. }
  rewrite Hs0. change 1 with (0 + 1) at 1.
  apply sigval_loop_ok; try lia.
  rewrite Z.sub_0_r. rewrite Z.div_small by lia. change (2 ^ (0 + 0)) with 1. change (2 ^ 0) with 1. lia.
Qed.
End Dec.

(* ===== field extraction; the decoder equals the layout ===== *)
Section Fields.
Variable f : fmt.
Hypothesis Hf : fmt_ok f.

Lemma eb_facts : 4 <= 2 ^ (eb f - 1) /\ 2 ^ eb f = 2 * 2 ^ (eb f - 1).
Proof.
  destruct Hf as (_ & He & _). split.
  - change 4 with (2 ^ 2). apply Z.pow_le_mono_r; lia.
  - replace (eb f) with (eb f - 1 + 1) at 1 by lia. apply p2succ. lia.
Qed.

Variable bits : Z.
Hypothesis Hb : 0 <= bits < 2 ^ (fb f + eb f + 1).

Lemma fld_fract : Z.land bits (fract_bits f) = bits mod 2 ^ fb f.
Proof. unfold fract_bits. destruct Hf. apply Z.land_ones. lia. Qed.

Lemma fld_expon : Z.shiftr (Z.land bits (expon_bits f)) (fb f) = (bits / 2 ^ fb f) mod 2 ^ eb f.
Proof.
  destruct Hf as (? & ? & ?). unfold expon_bits. rewrite Z.shiftr_land.
  rewrite Z.shiftr_shiftl_l by lia. rewrite Z.sub_diag, Z.shiftl_0_r.
  rewrite Z.land_ones by lia. rewrite Z.shiftr_div_pow2 by lia. reflexivity.
Qed.

Lemma fld_sign : negb (Z.land bits (sign_bit f) =? 0) = (2 ^ (fb f + eb f) <=? bits).
Proof.
  destruct Hf as (? & ? & ?). unfold sign_bit. rewrite land_bit by lia. rewrite negb_involutive.
  rewrite testbit_div by lia. rewrite p2succ in Hb by lia.
  pose proof (p2pos (fb f + eb f) ltac:(lia)) as Hp. set (P := 2 ^ (fb f + eb f)) in *.
  assert (Hq : 0 <= bits / P < 2).
  { split; [apply Z.div_pos; lia | apply Z.div_lt_upper_bound; lia]. }
  pose proof (Z.div_mod bits P ltac:(lia)) as Hdm. pose proof (Z.mod_pos_bound bits P ltac:(lia)) as Hm.
  assert (Hc : bits / P = 0 \/ bits / P = 1) by lia.
  destruct Hc as [Hc | Hc]; rewrite Hc in *; [change (0 mod 2) with 0 | change (1 mod 2) with 1]; lia.
Qed.

Lemma fld_ranges : 0 <= bits mod 2 ^ fb f < 2 ^ fb f /\ 0 <= (bits / 2 ^ fb f) mod 2 ^ eb f < 2 ^ eb f.
Proof.
  destruct Hf as (? & ? & ?). split; apply Z.mod_pos_bound; apply p2pos; lia.
Qed.
End Fields.

Section Decode.
Variable pow2 pow2s : Z -> dy.
Variable f : fmt.
Hypothesis Hf : fmt_ok f.
Hypothesis Hpow : pow2_ok pow2 0 (fb f).
Hypothesis Hpows : pow2_ok pow2s (emin f) (emax f).

Theorem soft_decode_correct : forall bits, 0 <= bits < 2 ^ (fb f + eb f + 1) ->
  soft_decode pow2 pow2s f bits = Some (spec_decode f bits).
Proof.
  intros bits Hb. unfold soft_decode, spec_decode.
  rewrite (fld_sign f Hf bits Hb), (fld_expon f Hf bits), (fld_fract f Hf bits).
  destruct (fld_ranges f Hf bits) as [Hfr Hex].
  destruct (eb_facts f Hf) as [HB H2B].
  pose proof Hf as (Hfb & Heb & _).
  set (sg := 2 ^ (fb f + eb f) <=? bits). set (fr := bits mod 2 ^ fb f) in *.
  set (ex := (bits / 2 ^ fb f) mod 2 ^ eb f) in *.
  rewrite Z.ones_equiv. unfold Z.pred.
  pose proof (p2pos (fb f) ltac:(lia)) as Hpfb.
  destruct (ex =? 0) eqn:Hex0.
  - (* exponent field 0 *)
    destruct (fr =? 0) eqn:Hfr0; cbn [andb]; [reflexivity |].
    replace (0 =? 2 ^ eb f + -1) with false by lia.
    assert (Hex00 : ex = 0) by lia. rewrite Hex00.
    replace (0 =? 2 ^ eb f + -1) with false by lia.
    destruct (significand_value_ok pow2 (fb f) fr 0 ltac:(lia) Hfr Hpow ltac:(lia)) as (sm & se & Hsv & Hse & Hval).
    change (0 =? 0) with true in *. cbv iota. rewrite Hsv.
    destruct (Hpows (emin f) ltac:(unfold emin, emax, bias; lia)) as (k & Hk & ->).
    unfold dy_mul. cbn [fst snd].
    assert (Hlog : Z.log2 fr < fb f) by (apply Z.log2_lt_pow2; lia).
    pose proof (Z.log2_nonneg fr) as Hl0.
    apply (store_value f sg (sm * 2 ^ k) (se + (emin f - k)) fr (emin f - fb f) (emin f - fb f - k)); try lia.
    + replace (se + (emin f - k) - (emin f - fb f - k)) with (se + fb f) by lia.
      replace (emin f - fb f - (emin f - fb f - k)) with k by lia. nia.
    + unfold emin, emax, bias. lia.
  - destruct (ex =? 2 ^ eb f + -1) eqn:Hex1; cbn [andb].
    + replace (ex =? 2 ^ eb f - 1) with true by lia. destruct (fr =? 0); reflexivity.
    + replace (ex =? 2 ^ eb f - 1) with false by lia.
      destruct (significand_value_ok pow2 (fb f) fr 1 ltac:(lia) Hfr Hpow ltac:(lia)) as (sm & se & Hsv & Hse & Hval).
      change (1 =? 0) with false in *. cbv iota. rewrite Hsv.
      destruct (Hpows (ex - bias f) ltac:(unfold emin, emax, bias; lia)) as (k & Hk & ->).
      unfold dy_mul. cbn [fst snd].
      assert (Hlog : Z.log2 (fr + 2 ^ fb f) = fb f).
      { apply Z.log2_unique; [lia |]. unfold Z.succ. rewrite p2succ by lia. lia. }
      apply (store_value f sg (sm * 2 ^ k) (se + (ex - bias f - k)) (fr + 2 ^ fb f) (ex - bias f - fb f) (ex - bias f - fb f - k)); try lia.
      * replace (se + (ex - bias f - k) - (ex - bias f - fb f - k)) with (se + fb f) by lia.
        replace (ex - bias f - fb f - (ex - bias f - fb f - k)) with k by lia. nia.
      * rewrite Hlog. unfold emin, bias. lia.
      * rewrite Hlog. unfold emax, bias. lia.
Qed.
End Decode.

(* ===== the encoder's while loop ===== *)
Section Loop.
Variables (fixc : bool) (nb m L : Z).
Hypothesis Hm : 0 <= m.
Hypothesis HL : 0 <= L.

(* one iteration of the while loop, from the state reached after j iterations *)
Lemma sig_while_step fuel j rem n ni0 :
  0 <= j < L -> 0 < m mod 2 ^ (L - j) -> 0 < rem ->
  sig_while fixc nb (S fuel) (m / 2 ^ (L - j)) (m mod 2 ^ (L - j), - (L - j)) rem n ni0 =
  let bit := 2 ^ (L - (j + 1)) <=? m mod 2 ^ (L - j) in
  let ni0' := if bit then (if ni0 =? 0 then n + 1 else ni0) else ni0 in
  let rem' := if (0 <? ni0') || (0 <? nb) || fixc then rem - 1 else rem in
  sig_while fixc nb fuel (m / 2 ^ (L - (j + 1))) (m mod 2 ^ (L - (j + 1)), - (L - (j + 1))) rem' (n + 1) ni0'.
Proof.
  intros Hj Hdm Hrem. cbn [sig_while]. unfold dy_pos. cbn [fst].
  replace (0 <? m mod 2 ^ (L - j)) with true by lia. replace (0 <? rem) with true by lia. cbn [andb].
  unfold dy_mul2, dy_ge1, dy_sub_int. cbn [fst snd].
  replace (Z.max 0 (- (- (L - j) + 1))) with (L - (j + 1)) by lia.
  replace (Z.max 0 (- (L - j) + 1)) with 0 by lia.
  replace (Z.min (- (L - j) + 1) 0) with (- (L - (j + 1))) by lia.
  replace (- (L - j) + 1) with (- (L - (j + 1))) by lia.
  change (2 ^ 0) with 1. rewrite !Z.mul_1_r, !Z.mul_1_l.
  destruct (half_step m (L - (j + 1)) ltac:(lia) Hm) as [Hd Hr].
  replace (L - (j + 1) + 1) with (L - j) in Hd, Hr by lia.
  destruct (2 ^ (L - (j + 1)) <=? m mod 2 ^ (L - j)) eqn:Hbit; cbv zeta.
  - rewrite lor_shiftl1. rewrite Hd, Hr. replace (2 * (m / 2 ^ (L - j)) + 1) with (2 * (m / 2 ^ (L - j)) + 1) by lia.
    reflexivity.
  - rewrite shiftl1. rewrite Hd, Hr. rewrite Z.add_0_r, Z.sub_0_r. reflexivity.
Qed.

Variable R : Z.

Lemma sig_while_counting : forall fuel j n ni0,
  0 <= j <= L -> L - j < Z.of_nat fuel -> 0 <= R - j -> 0 <= n ->
  (0 <? ni0) || (0 <? nb) || fixc = true ->
  exists j' ni0', sig_while fixc nb fuel (m / 2 ^ (L - j)) (m mod 2 ^ (L - j), - (L - j)) (R - j) n ni0
                  = Some (m / 2 ^ (L - j'), R - j', ni0') /\
     j <= j' <= L /\ 0 <= R - j' /\ (m mod 2 ^ (L - j') = 0 \/ R - j' = 0) /\ (0 < ni0 -> ni0' = ni0).
Proof.
  induction fuel as [| fuel IH]; intros j n ni0 Hj Hfuel HR Hn Hcnt; [lia |].
  pose proof (p2pos (L - j) ltac:(lia)) as Hp.
  pose proof (Z.mod_pos_bound m (2 ^ (L - j)) Hp) as Hmb.
  destruct ((0 <? m mod 2 ^ (L - j)) && (0 <? R - j)) eqn:Hc.
  - assert (HjL : j < L).
    { destruct (Z.eq_dec j L) as [-> | ?]; [| lia]. rewrite Z.sub_diag in Hc. change (2 ^ 0) with 1 in Hc.
      rewrite Z.mod_1_r in Hc. discriminate. }
    rewrite sig_while_step by lia. cbv zeta.
    set (ni0' := if 2 ^ (L - (j + 1)) <=? m mod 2 ^ (L - j) then if ni0 =? 0 then n + 1 else ni0 else ni0).
    assert (Hni : (0 <? ni0') || (0 <? nb) || fixc = true).
    { unfold ni0'. destruct (2 ^ (L - (j + 1)) <=? m mod 2 ^ (L - j)); [| exact Hcnt].
      destruct (ni0 =? 0) eqn:?; [| exact Hcnt]. replace (0 <? n + 1) with true by lia. reflexivity. }
    rewrite Hni. replace (R - j - 1) with (R - (j + 1)) by lia.
    destruct (IH (j + 1) (n + 1) ni0' ltac:(lia) ltac:(lia) ltac:(lia) ltac:(lia) Hni) as (j' & ni0'' & Heq & Hj' & HR' & Hend & Hkeep).
    exists j', ni0''. rewrite Heq. repeat split; try lia.
    intros Hpos. rewrite Hkeep; unfold ni0'.
    + destruct (2 ^ (L - (j + 1)) <=? m mod 2 ^ (L - j)); [| reflexivity]. replace (ni0 =? 0) with false by lia. reflexivity.
    + destruct (2 ^ (L - (j + 1)) <=? m mod 2 ^ (L - j)); [| lia]. replace (ni0 =? 0) with false by lia. lia.
  - exists j, ni0. cbn [sig_while]. unfold dy_pos. cbn [fst]. rewrite Hc.
    repeat split; try lia.
Qed.

(* nothing counted yet (nb = 0, ni0 = 0, no fix) but the next fraction bit is 1: it is found in this iteration *)
Lemma sig_while_first_one : forall fuel n,
  0 <= n -> 1 <= L -> L < Z.of_nat fuel -> 1 <= R -> 2 ^ (L - 1) <= m < 2 ^ L ->
  exists j' , sig_while fixc nb fuel 0 (m, - L) R n 0 = Some (m / 2 ^ (L - j'), R - j', n + 1) /\
     1 <= j' <= L /\ 0 <= R - j' /\ (m mod 2 ^ (L - j') = 0 \/ R - j' = 0).
Proof.
  intros fuel n Hn HL1 Hfuel HR Hmr. destruct fuel as [| fuel]; [lia |].
  pose proof (p2pos (L - 1) ltac:(lia)) as Hp.
  assert (Hd0 : m / 2 ^ (L - 0) = 0) by (rewrite Z.sub_0_r; apply Z.div_small; lia).
  assert (Hm0 : m mod 2 ^ (L - 0) = m) by (rewrite Z.sub_0_r; apply Z.mod_small; lia).
  pose proof (sig_while_step fuel 0 R n 0 ltac:(lia) ltac:(lia) ltac:(lia)) as Hstep.
  rewrite Hd0, Hm0 in Hstep. rewrite Z.sub_0_r in Hstep. rewrite Hstep. cbv zeta.
  change (0 + 1) with 1. replace (2 ^ (L - 1) <=? m) with true by lia. change (0 =? 0) with true. cbv iota.
  replace (0 <? n + 1) with true by lia. cbn [orb].
  destruct (sig_while_counting fuel 1 (n + 1) (n + 1) ltac:(lia) ltac:(lia) ltac:(lia) ltac:(lia)
              ltac:(replace (0 <? n + 1) with true by lia; reflexivity))
    as (j' & ni0' & Heq & Hj' & HR' & Hend & Hkeep).
  exists j'. rewrite Heq. rewrite Hkeep by lia. repeat split; try lia.
Qed.
End Loop.

(* the code as it stands (no fix, nb = 0): leading zero fraction bits are shifted in without being counted *)
Lemma sig_while_skip : forall fuel L n m R,
  0 < m < 2 ^ L -> 0 <= n -> L < Z.of_nat fuel -> 1 <= R ->
  exists j', sig_while false 0 fuel 0 (m, - L) R n 0
             = Some (m / 2 ^ (Z.log2 m + 1 - j'), R - j', n + (L - (Z.log2 m + 1)) + 1) /\
     1 <= j' <= Z.log2 m + 1 /\ 0 <= R - j' /\ (m mod 2 ^ (Z.log2 m + 1 - j') = 0 \/ R - j' = 0).
Proof.
  induction fuel as [| fuel IH]; intros L n m R Hm Hn Hfuel HR; [rewrite Z.pow_neg_r in Hm by lia; lia |].
  assert (HL0 : 0 <= L).
  { destruct (Z.lt_ge_cases L 0) as [Hneg | ?]; [| assumption]. rewrite Z.pow_neg_r in Hm by assumption. lia. }
  pose proof (Z.log2_spec m ltac:(lia)) as Hlog. unfold Z.succ in Hlog.
  pose proof (Z.log2_nonneg m) as Hl0.
  assert (HlL : Z.log2 m < L) by (apply Z.log2_lt_pow2; lia).
  destruct (Z.eq_dec L (Z.log2 m + 1)) as [HLe | HLne].
  - destruct (sig_while_first_one false 0 m L ltac:(lia) HL0 R (S fuel) n Hn ltac:(lia) Hfuel HR
                ltac:(rewrite HLe; replace (Z.log2 m + 1 - 1) with (Z.log2 m) by lia; lia)) as (j' & Heq & Hj & HRj & Hend).
    exists j'. rewrite Heq. rewrite <- HLe. replace (n + (L - L) + 1) with (n + 1) by lia. repeat split; try lia.
  - assert (Hsmall : m < 2 ^ (L - 1)).
    { apply Z.lt_le_trans with (2 ^ (Z.log2 m + 1)); [lia |]. apply Z.pow_le_mono_r; lia. }
    pose proof (p2pos (L - 1) ltac:(lia)) as Hp.
    assert (Hd0 : m / 2 ^ (L - 0) = 0) by (rewrite Z.sub_0_r; apply Z.div_small; lia).
    assert (Hm0 : m mod 2 ^ (L - 0) = m) by (rewrite Z.sub_0_r; apply Z.mod_small; lia).
    pose proof (sig_while_step false 0 m L ltac:(lia) fuel 0 R n 0 ltac:(lia) ltac:(lia) ltac:(lia)) as Hstep.
    rewrite Hd0, Hm0 in Hstep. rewrite Z.sub_0_r in Hstep. rewrite Hstep. cbv zeta.
    change (0 + 1) with 1. replace (2 ^ (L - 1) <=? m) with false by lia. cbv iota.
    change (0 <? 0) with false. cbn [orb]. cbv iota.
    rewrite (Z.div_small m (2 ^ (L - 1))) by lia. rewrite (Z.mod_small m (2 ^ (L - 1))) by lia.
    destruct (IH (L - 1) (n + 1) m R ltac:(lia) ltac:(lia) ltac:(lia) HR) as (j' & Heq & Hj & HRj & Hend).
    exists j'. rewrite Heq. replace (n + 1 + (L - 1 - (Z.log2 m + 1)) + 1) with (n + (L - (Z.log2 m + 1)) + 1) by lia.
    repeat split; try lia.
Qed.

(* ===== get_significand ===== *)
Definition valid_fin (f : fmt) (m e : Z) : Prop :=
  (2 ^ fb f <= m < 2 ^ (fb f + 1) /\ emin f - fb f <= e <= emax f - fb f) \/
  (0 < m < 2 ^ fb f /\ e = emin f - fb f).

Lemma counting0 fixc nb m L R fuel :
  0 <= m -> 0 <= L -> L < Z.of_nat fuel -> 0 <= R -> (0 <? nb) || fixc = true ->
  exists j' ni0', sig_while fixc nb fuel (m / 2 ^ L) (m mod 2 ^ L, - L) R 0 0 = Some (m / 2 ^ (L - j'), R - j', ni0') /\
     0 <= j' <= L /\ 0 <= R - j' /\ (m mod 2 ^ (L - j') = 0 \/ R - j' = 0).
Proof.
  intros Hm HL Hfuel HR Hcnt.
  destruct (sig_while_counting fixc nb m L Hm R fuel 0 0 0 ltac:(lia) ltac:(lia) ltac:(lia) ltac:(lia) Hcnt)
    as (j' & ni0' & Heq & Hj & HRj & Hend & _).
  rewrite !Z.sub_0_r in Heq. exists j', ni0'. repeat split; try assumption; lia.
Qed.

Lemma assemble m r n : 0 <= m -> 0 <= r -> 0 <= n -> m mod 2 ^ r = 0 ->
  Z.land (Z.shiftl (m / 2 ^ r) r) (Z.ones n) = m mod 2 ^ n.
Proof.
  intros Hm Hr Hn Hmod. rewrite Z.shiftl_mul_pow2 by lia. pose proof (p2pos r Hr).
  replace (m / 2 ^ r * 2 ^ r) with m by (pose proof (Z.div_mod m (2 ^ r) ltac:(lia)); lia).
  apply Z.land_ones. lia.
Qed.

Section Encode.
Variable ilog2 : dy -> Z.
Variable pow2 : Z -> dy.
Variable f : fmt.
Hypothesis Hf : fmt_ok f.
Hypothesis Hil : ilog2_ok f ilog2.
Hypothesis Hpow : pow2_ok pow2 (emin f) (emax f).

Lemma fits_small m L : 0 < m -> Z.log2 m <= fb f -> fb f - 1 <= L <= fb f + 2 -> fits f (m, - L) = true.
Proof.
  intros Hm Hlog HL. destruct (eb_facts f Hf) as [HB H2B]. destruct Hf as (Hfb & Heb & _).
  unfold fits, store. replace (m =? 0) with false by lia.
  pose proof (Z.log2_nonneg m).
  replace (emax f <? - L + (Z.log2 m + 1) - 1) with false by (unfold emax, bias; lia).
  replace (Z.max (- L + (Z.log2 m + 1) - (fb f + 1)) (emin f - fb f) <=? - L) with true by (unfold emin, bias; lia).
  reflexivity.
Qed.

Lemma trunc_q m L : 1 <= L -> dy_trunc (m, - L) = m / 2 ^ L.
Proof.
  intros HL. unfold dy_trunc. cbn [fst snd].
  replace (Z.max 0 (- L)) with 0 by lia. replace (Z.max 0 (- - L)) with L by lia.
  change (2 ^ 0) with 1. rewrite Z.mul_1_r. reflexivity.
Qed.

Lemma sub_int_q m L : 1 <= L -> dy_sub_int (m, - L) (m / 2 ^ L) = (m mod 2 ^ L, - L).
Proof.
  intros HL. unfold dy_sub_int. cbn [fst snd].
  replace (Z.max 0 (- L)) with 0 by lia. replace (Z.max 0 (- - L)) with L by lia.
  replace (Z.min (- L) 0) with (- L) by lia.
  change (2 ^ 0) with 1. rewrite Z.mul_1_r. f_equal. pose proof (p2pos L ltac:(lia)).
  rewrite Z.mod_eq by lia. lia.
Qed.

Lemma clamp_cases est t :
  emin f <= t <= emax f -> -1 <= est - t <= 2 ->
  let c := (if emax f <? (if est <? emin f then emin f else est) then emax f else (if est <? emin f then emin f else est)) in
  emin f <= c <= emax f /\ t - 1 <= c <= t + 2.
Proof.
  intros Ht He. cbv zeta. destruct (est <? emin f) eqn:H1.
  - destruct (emax f <? emin f) eqn:H2; lia.
  - destruct (emax f <? est) eqn:H2; lia.
Qed.

Lemma get_significand_normal fixsub m e :
  2 ^ fb f <= m < 2 ^ (fb f + 1) -> emin f - fb f <= e <= emax f - fb f ->
  get_significand ilog2 pow2 f fixsub (m, e) = Some (m - 2 ^ fb f, e + fb f, false).
Proof.
  intros Hm He. destruct (eb_facts f Hf) as [HB H2B]. pose proof Hf as (Hfb & Heb & Hw).
  pose proof (p2pos (fb f) ltac:(lia)) as Hpfb.
  assert (Hlog : Z.log2 m = fb f) by (apply Z.log2_unique; [lia | unfold Z.succ; lia]).
  unfold get_significand, fract_bits.
  pose proof (Hil m e ltac:(lia)) as [Hest _]. rewrite Hlog in Hest.
  destruct (clamp_cases (ilog2 (m, e)) (fb f + e) ltac:(lia) ltac:(lia)) as [Hc1 Hc2].
  set (c := if emax f <? (if ilog2 (m, e) <? emin f then emin f else ilog2 (m, e)) then emax f
            else if ilog2 (m, e) <? emin f then emin f else ilog2 (m, e)) in *.
  destruct (Hpow c Hc1) as (k & Hk & ->). rewrite div_p2_ok by lia. cbn [fst snd].
  set (L := c - e). replace (e - c) with (- L) by (unfold L; lia).
  assert (HL : fb f - 1 <= L <= fb f + 2) by (unfold L; lia).
  rewrite fits_small by lia. cbn [negb].
  rewrite trunc_q, sub_int_q by lia.
  pose proof (p2pos L ltac:(lia)) as HpL.
  assert (H4 : 4 <= 2 ^ wcast f) by (change 4 with (2 ^ 2); apply Z.pow_le_mono_r; lia).
  replace (Z.max 0 (- - L)) with L by lia.
  assert (Hcase : L = fb f - 1 \/ L = fb f \/ fb f + 1 <= L) by lia.
  assert (Hfrac : m mod 2 ^ fb f = m - 2 ^ fb f).
  { symmetry. apply (Z.mod_unique m (2 ^ fb f) 1 (m - 2 ^ fb f)); rewrite p2succ in Hm by lia; lia. }
  destruct Hcase as [HLc | [HLc | HLc]].
  - (* estimate one too low: the quotient is in [2,4) *)
    assert (Hiv : m / 2 ^ L = 2 \/ m / 2 ^ L = 3).
    { assert (H2p : 2 ^ fb f = 2 * 2 ^ L) by (replace (fb f) with (L + 1) by lia; apply p2succ; lia).
      rewrite p2succ in Hm by lia.
      assert (2 <= m / 2 ^ L) by (apply Z.div_le_lower_bound; lia).
      assert (m / 2 ^ L < 4) by (apply Z.div_lt_upper_bound; lia). lia. }
    assert (Hnb : leftest_bit (m / 2 ^ L) = 2) by (destruct Hiv as [-> | ->]; reflexivity).
    replace (2 ^ wcast f <=? m / 2 ^ L) with false by lia.
    replace (0 <? m / 2 ^ L) with true by lia. rewrite Hnb. change (0 <? 2) with true. cbv iota.
    destruct (counting0 (fixsub && (c =? emin f)) 2 m L (fb f - 2 + 1) (Z.to_nat L + 1) ltac:(lia) ltac:(lia) ltac:(lia) ltac:(lia) ltac:(reflexivity))
      as (j' & ni0' & Heq & Hj & HR & Hend).
    rewrite Heq.
    assert (Hmod : m mod 2 ^ (L - j') = 0).
    { destruct Hend as [? | Hz]; [assumption |]. replace (L - j') with 0 by lia. apply Z.mod_1_r. }
    f_equal. f_equal. f_equal.
    + destruct (0 <? fb f - 2 + 1 - j') eqn:Hrem.
      * replace (fb f - 2 + 1 - j') with (L - j') by lia. rewrite assemble by lia. exact Hfrac.
      * replace (L - j') with 0 by lia. change (2 ^ 0) with 1. rewrite Z.div_1_r.
        rewrite Z.land_ones by lia. exact Hfrac.
    + unfold L in HLc. lia.
  - (* exact estimate: the quotient is in [1,2) *)
    assert (Hiv : m / 2 ^ L = 1).
    { rewrite HLc. rewrite p2succ in Hm by lia. symmetry. apply (Z.div_unique m (2 ^ fb f) 1 (m - 2 ^ fb f)); lia. }
    assert (Hnb : leftest_bit (m / 2 ^ L) = 1) by (rewrite Hiv; reflexivity).
    replace (2 ^ wcast f <=? m / 2 ^ L) with false by lia.
    replace (0 <? m / 2 ^ L) with true by lia. rewrite Hnb. change (0 <? 1) with true. cbv iota.
    destruct (counting0 (fixsub && (c =? emin f)) 1 m L (fb f - 1 + 1) (Z.to_nat L + 1) ltac:(lia) ltac:(lia) ltac:(lia) ltac:(lia) ltac:(reflexivity))
      as (j' & ni0' & Heq & Hj & HR & Hend).
    rewrite Heq.
    assert (Hmod : m mod 2 ^ (L - j') = 0).
    { destruct Hend as [? | Hz]; [assumption |]. replace (L - j') with 0 by lia. apply Z.mod_1_r. }
    f_equal. f_equal. f_equal.
    + destruct (0 <? fb f - 1 + 1 - j') eqn:Hrem.
      * replace (fb f - 1 + 1 - j') with (L - j') by lia. rewrite assemble by lia. exact Hfrac.
      * replace (L - j') with 0 by lia. change (2 ^ 0) with 1. rewrite Z.div_1_r.
        rewrite Z.land_ones by lia. exact Hfrac.
    + unfold L in HLc. lia.
  - (* estimate one or two too high: the quotient is below 1; the loop shifts in the leading zero (if any) without counting
       it, finds the leading 1 at iteration ni0 = L - fb and counts from there *)
    assert (Hiv : m / 2 ^ L = 0).
    { apply Z.div_small. split; [lia |]. apply Z.lt_le_trans with (2 ^ (fb f + 1)); [lia | apply Z.pow_le_mono_r; lia]. }
    assert (Hmm : m mod 2 ^ L = m).
    { apply Z.mod_small. split; [lia |]. apply Z.lt_le_trans with (2 ^ (fb f + 1)); [lia | apply Z.pow_le_mono_r; lia]. }
    rewrite Hiv, Hmm. replace (2 ^ wcast f <=? 0) with false by lia. change (0 <? 0) with false. cbv iota.
    change (0 <? 0) with false. cbv iota.
    replace (c =? emin f) with false by (unfold L in HLc; lia). rewrite andb_false_r.
    destruct (sig_while_skip (Z.to_nat L + 1) L 0 m (fb f + 1) ltac:(split; [lia |]; apply Z.lt_le_trans with (2 ^ (fb f + 1)); [lia | apply Z.pow_le_mono_r; lia])
                ltac:(lia) ltac:(lia) ltac:(lia)) as (j' & Heq & Hj & HR & Hend).
    rewrite Heq. rewrite Hlog in *.
    assert (Hmod : m mod 2 ^ (fb f + 1 - j') = 0).
    { destruct Hend as [? | Hz]; [assumption |]. replace (fb f + 1 - j') with 0 by lia. apply Z.mod_1_r. }
    f_equal. f_equal. f_equal.
    + rewrite assemble by lia. exact Hfrac.
    + unfold L. lia.
Qed.

Lemma get_significand_subnormal fixsub m :
  0 < m < 2 ^ fb f -> fixsub = true \/ 2 ^ (fb f - 1) <= m ->
  get_significand ilog2 pow2 f fixsub (m, emin f - fb f) = Some (m, emin f, true).
Proof.
  intros Hm Hfix. destruct (eb_facts f Hf) as [HB H2B]. pose proof Hf as (Hfb & Heb & Hw).
  pose proof (p2pos (fb f) ltac:(lia)) as Hpfb.
  assert (Hlog : Z.log2 m < fb f) by (apply Z.log2_lt_pow2; lia).
  pose proof (Z.log2_nonneg m) as Hl0.
  unfold get_significand, fract_bits.
  pose proof (Hil m (emin f - fb f) ltac:(lia)) as [_ Hest]. specialize (Hest ltac:(lia)).
  assert (Hc : (if emax f <? (if ilog2 (m, emin f - fb f) <? emin f then emin f else ilog2 (m, emin f - fb f)) then emax f
            else if ilog2 (m, emin f - fb f) <? emin f then emin f else ilog2 (m, emin f - fb f)) = emin f).
  { destruct (ilog2 (m, emin f - fb f) <? emin f) eqn:H1.
    - replace (emax f <? emin f) with false by (unfold emin, emax, bias; lia). reflexivity.
    - replace (emax f <? ilog2 (m, emin f - fb f)) with false by (unfold emin, emax, bias in *; lia). lia. }
  rewrite Hc.
  destruct (Hpow (emin f) ltac:(unfold emin, emax, bias; lia)) as (k & Hk & ->). rewrite div_p2_ok by lia. cbn [fst snd].
  replace (emin f - fb f - emin f) with (- fb f) by lia.
  rewrite fits_small by lia. cbn [negb].
  rewrite trunc_q, sub_int_q by lia.
  assert (H4 : 4 <= 2 ^ wcast f) by (change 4 with (2 ^ 2); apply Z.pow_le_mono_r; lia).
  replace (Z.max 0 (- - fb f)) with (fb f) by lia.
  assert (Hiv : m / 2 ^ fb f = 0) by (apply Z.div_small; lia).
  assert (Hmm : m mod 2 ^ fb f = m) by (apply Z.mod_small; lia).
  rewrite Z.eqb_refl, andb_true_r.
  assert (Hloop : exists j' ni0', sig_while fixsub 0 (Z.to_nat (fb f) + 1) (m / 2 ^ fb f) (m mod 2 ^ fb f, - fb f) (fb f + 1) 0 0
                    = Some (m / 2 ^ (fb f - j'), fb f + 1 - j', ni0') /\ 0 <= j' <= fb f /\ m mod 2 ^ (fb f - j') = 0).
  { destruct Hfix as [-> | Hbig].
    - destruct (counting0 true 0 m (fb f) (fb f + 1) (Z.to_nat (fb f) + 1) ltac:(lia) ltac:(lia) ltac:(lia) ltac:(lia) ltac:(reflexivity))
        as (j' & ni0' & Heq & Hj & HR & Hend).
      exists j', ni0'. repeat split; try lia; exact Heq.
    - rewrite Hiv, Hmm.
      destruct (sig_while_first_one fixsub 0 m (fb f) ltac:(lia) ltac:(lia) (fb f + 1) (Z.to_nat (fb f) + 1) 0
                  ltac:(lia) ltac:(lia) ltac:(lia) ltac:(lia) ltac:(lia)) as (j' & Heq & Hj & HR & Hend).
      exists j', 1. repeat split; try lia; exact Heq. }
  destruct Hloop as (j' & ni0' & Heq & Hj & Hmod).
  replace (2 ^ wcast f <=? m / 2 ^ fb f) with false by lia. replace (0 <? m / 2 ^ fb f) with false by lia. cbv iota.
  change (0 <? 0) with false. cbv iota.
  rewrite Heq. f_equal. f_equal. f_equal.
  destruct (1 <? fb f + 1 - j') eqn:Hrem.
  - replace (fb f + 1 - j' - 1) with (fb f - j') by lia. rewrite assemble by lia. exact Hmm.
  - replace (fb f - j') with 0 by lia. change (2 ^ 0) with 1. apply Z.div_1_r.
Qed.

(* the code as it stands, on ANY subnormal: the fraction is shifted left until its leading 1 sits in the top fraction bit *)
Lemma get_significand_subnormal_cur m :
  0 < m < 2 ^ fb f ->
  get_significand ilog2 pow2 f false (m, emin f - fb f) = Some (m * 2 ^ (fb f - 1 - Z.log2 m), emin f, true).
Proof.
  intros Hm. destruct (eb_facts f Hf) as [HB H2B]. pose proof Hf as (Hfb & Heb & Hw).
  pose proof (p2pos (fb f) ltac:(lia)) as Hpfb.
  assert (Hlog : Z.log2 m < fb f) by (apply Z.log2_lt_pow2; lia).
  pose proof (Z.log2_nonneg m) as Hl0.
  pose proof (Z.log2_spec m ltac:(lia)) as Hls. unfold Z.succ in Hls.
  unfold get_significand, fract_bits.
  pose proof (Hil m (emin f - fb f) ltac:(lia)) as [_ Hest]. specialize (Hest ltac:(lia)).
  assert (Hc : (if emax f <? (if ilog2 (m, emin f - fb f) <? emin f then emin f else ilog2 (m, emin f - fb f)) then emax f
            else if ilog2 (m, emin f - fb f) <? emin f then emin f else ilog2 (m, emin f - fb f)) = emin f).
  { destruct (ilog2 (m, emin f - fb f) <? emin f) eqn:H1.
    - replace (emax f <? emin f) with false by (unfold emin, emax, bias; lia). reflexivity.
    - replace (emax f <? ilog2 (m, emin f - fb f)) with false by (unfold emin, emax, bias in *; lia). lia. }
  rewrite Hc.
  destruct (Hpow (emin f) ltac:(unfold emin, emax, bias; lia)) as (k & Hk & ->). rewrite div_p2_ok by lia. cbn [fst snd].
  replace (emin f - fb f - emin f) with (- fb f) by lia.
  rewrite fits_small by lia. cbn [negb].
  rewrite trunc_q, sub_int_q by lia.
  assert (H4 : 4 <= 2 ^ wcast f) by (change 4 with (2 ^ 2); apply Z.pow_le_mono_r; lia).
  replace (Z.max 0 (- - fb f)) with (fb f) by lia.
  assert (Hiv : m / 2 ^ fb f = 0) by (apply Z.div_small; lia).
  assert (Hmm : m mod 2 ^ fb f = m) by (apply Z.mod_small; lia).
  rewrite Hiv, Hmm. cbn [andb].
  replace (2 ^ wcast f <=? 0) with false by lia. change (0 <? 0) with false. cbv iota.
  change (0 <? 0) with false. cbv iota.
  destruct (sig_while_skip (Z.to_nat (fb f) + 1) (fb f) 0 m (fb f + 1) ltac:(lia) ltac:(lia) ltac:(lia) ltac:(lia))
    as (j' & Heq & Hj & HR & Hend).
  rewrite Heq. rewrite Z.eqb_refl. f_equal. f_equal. f_equal.
  assert (Hmod : m mod 2 ^ (Z.log2 m + 1 - j') = 0) by (destruct Hend; [assumption | lia]).
  pose proof (p2pos (Z.log2 m + 1 - j') ltac:(lia)) as Hpr.
  pose proof (p2pos (fb f - 1 - Z.log2 m) ltac:(lia)) as Hpz.
  assert (Hm' : m / 2 ^ (Z.log2 m + 1 - j') * 2 ^ (Z.log2 m + 1 - j') = m).
  { pose proof (Z.div_mod m (2 ^ (Z.log2 m + 1 - j')) ltac:(lia)). lia. }
  destruct (1 <? fb f + 1 - j') eqn:Hrem.
  - replace (fb f + 1 - j' - 1) with ((Z.log2 m + 1 - j') + (fb f - 1 - Z.log2 m)) by lia.
    rewrite Z.shiftl_mul_pow2 by lia. rewrite Z.pow_add_r by lia. rewrite Z.mul_assoc, Hm'.
    rewrite Z.land_ones by lia. apply Z.mod_small.
    assert (2 ^ fb f = 2 ^ (Z.log2 m + 1) * 2 ^ (fb f - 1 - Z.log2 m)) by (rewrite <- Z.pow_add_r by lia; f_equal; lia).
    nia.
  - assert (j' = fb f) by lia. assert (Z.log2 m + 1 = fb f) by lia.
    replace (Z.log2 m + 1 - j') with 0 by lia. replace (fb f - 1 - Z.log2 m) with 0 by lia.
    change (2 ^ 0) with 1. rewrite Z.div_1_r. lia.
Qed.
End Encode.

(* ===== the encoder equals the layout; the layout is a bijection ===== *)
(* inputs of the encoder: canonical IEEE data; [deep] excludes, for the unrepaired code, the subnormals whose leading
   fraction bit is 0 *)
Definition enc_ok (f : fmt) (fixsub : bool) (x : fval) : Prop :=
  match x with
  | FFin s m e => valid_fin f m e /\ (fixsub = true \/ 2 ^ (fb f - 1) <= m)
  | _ => True
  end.

Section Encode2.
Variable ilog2 : dy -> Z.
Variable pow2 : Z -> dy.
Variable f : fmt.
Hypothesis Hf : fmt_ok f.
Hypothesis Hil : ilog2_ok f ilog2.
Hypothesis Hpow : pow2_ok pow2 (emin f) (emax f).

Lemma sign_or (s : bool) v : 0 <= v < 2 ^ (fb f + eb f) ->
  (if s then Z.lor v (sign_bit f) else v) = (if s then 2 ^ eb f else 0) * 2 ^ fb f + v.
Proof.
  intros Hv. destruct Hf as (Hfb & Heb & _). destruct s; [| lia].
  unfold sign_bit. rewrite Z.lor_comm. rewrite lor_shiftl_add by lia.
  rewrite (Z.add_comm (fb f)), Z.pow_add_r by lia. lia.
Qed.

Lemma expon_bits_val : expon_bits f = (2 ^ eb f - 1) * 2 ^ fb f.
Proof.
  destruct Hf as (Hfb & Heb & _). unfold expon_bits. rewrite Z.shiftl_mul_pow2 by lia.
  rewrite Z.ones_equiv. unfold Z.pred. lia.
Qed.

Theorem soft_encode_correct fixsub x :
  enc_ok f fixsub x -> soft_encode ilog2 pow2 f fixsub x = Some (spec_encode f x).
Proof.
  intros Hx. destruct (eb_facts f Hf) as [HB H2B]. pose proof Hf as (Hfb & Heb & Hw).
  pose proof (p2pos (fb f) ltac:(lia)) as Hpfb. pose proof (p2pos (eb f) ltac:(lia)) as Hpeb.
  assert (Hsplit : 2 ^ (fb f + eb f) = 2 ^ eb f * 2 ^ fb f) by (rewrite (Z.add_comm (fb f)), Z.pow_add_r by lia; reflexivity).
  destruct x as [s | s | | s m e]; unfold soft_encode, spec_encode, join.
  - (* zero *) f_equal. rewrite Z.lor_0_l.
    change (if s then sign_bit f else 0) with (if s then sign_bit f else 0).
    destruct s; [| lia]. unfold sign_bit. rewrite Z.shiftl_1_l. lia.
  - (* infinity *) f_equal.
    replace (if s then Z.lor (expon_bits f) (sign_bit f) else expon_bits f)
      with (if s then Z.lor (expon_bits f) (sign_bit f) else (expon_bits f)) by reflexivity.
    rewrite (sign_or s (expon_bits f)); rewrite expon_bits_val; nia.
  - (* NaN: the quiet NaN with the top fraction bit *) f_equal.
    unfold expon_bits. rewrite Z.shiftl_1_l.
    pose proof (p2pos (fb f - 1) ltac:(lia)) as Hp1.
    assert (2 ^ fb f = 2 * 2 ^ (fb f - 1)) by (replace (fb f) with (fb f - 1 + 1) at 1 by lia; apply p2succ; lia).
    rewrite lor_shiftl_add by lia. rewrite Z.ones_equiv. unfold Z.pred. lia.
  - (* finite *)
    destruct Hx as [[[Hm He] | [Hm He]] Hfix].
    + rewrite get_significand_normal by assumption.
      replace (2 ^ fb f <=? m) with true by lia. f_equal.
      rewrite p2succ in Hm by lia.
      assert (Hex : 1 <= e + fb f + bias f <= 2 ^ eb f - 2) by (unfold emin, emax, bias in *; lia).
      rewrite lor_shiftl_add by lia.
      rewrite sign_or by nia. lia.
    + subst e. rewrite get_significand_subnormal by assumption.
      replace (2 ^ fb f <=? m) with false by lia. f_equal.
      replace (emin f + bias f - 1) with 0 by (unfold emin; lia). rewrite Z.shiftl_0_l, Z.lor_0_l.
      replace (if den_or_exp f then m else m) with m by (destruct (den_or_exp f); reflexivity).
      rewrite sign_or by nia. lia.
Qed.
(* the encoder as it stands, on any subnormal (s, m): it produces fraction m * 2^(fb-1-log2 m) instead of m *)
Theorem soft_encode_cur_subnormal s m : 0 < m < 2 ^ fb f ->
  soft_encode ilog2 pow2 f false (FFin s m (emin f - fb f)) = Some (join f s 0 (m * 2 ^ (fb f - 1 - Z.log2 m))).
Proof.
  intros Hm. pose proof Hf as (Hfb & Heb & Hw).
  pose proof (p2pos (fb f) ltac:(lia)) as Hpfb. pose proof (p2pos (eb f) ltac:(lia)) as Hpeb.
  assert (Hsplit : 2 ^ (fb f + eb f) = 2 ^ eb f * 2 ^ fb f) by (rewrite (Z.add_comm (fb f)), Z.pow_add_r by lia; reflexivity).
  assert (Hlog : Z.log2 m < fb f) by (apply Z.log2_lt_pow2; lia).
  pose proof (Z.log2_nonneg m) as Hl0.
  pose proof (Z.log2_spec m ltac:(lia)) as Hls. unfold Z.succ in Hls.
  pose proof (p2pos (fb f - 1 - Z.log2 m) ltac:(lia)) as Hpz.
  assert (Hb : 0 < m * 2 ^ (fb f - 1 - Z.log2 m) < 2 ^ fb f).
  { assert (2 ^ fb f = 2 ^ (Z.log2 m + 1) * 2 ^ (fb f - 1 - Z.log2 m)) by (rewrite <- Z.pow_add_r by lia; f_equal; lia). nia. }
  unfold soft_encode. rewrite get_significand_subnormal_cur by assumption.
  f_equal. replace (emin f + bias f - 1) with 0 by (unfold emin; lia). rewrite Z.shiftl_0_l, Z.lor_0_l.
  set (v := m * 2 ^ (fb f - 1 - Z.log2 m)) in *.
  replace (if den_or_exp f then v else v) with v by (destruct (den_or_exp f); reflexivity).
  rewrite sign_or by nia. unfold join. lia.
Qed.

Corollary soft_encode_cur_deep_wrong s m : 0 < m < 2 ^ (fb f - 1) ->
  soft_encode ilog2 pow2 f false (FFin s m (emin f - fb f)) <> Some (spec_encode f (FFin s m (emin f - fb f))).
Proof.
  intros Hm. pose proof Hf as (Hfb & Heb & Hw).
  assert (H2 : 2 ^ fb f = 2 * 2 ^ (fb f - 1)) by (replace (fb f) with (fb f - 1 + 1) at 1 by lia; apply p2succ; lia).
  pose proof (p2pos (fb f - 1) ltac:(lia)) as Hp1.
  rewrite soft_encode_cur_subnormal by lia. unfold spec_encode. replace (2 ^ fb f <=? m) with false by lia.
  unfold join. intros Heq. injection Heq as Heq.
  assert (Hlog : Z.log2 m < fb f - 1) by (apply Z.log2_lt_pow2; lia).
  assert (Hz : 2 <= 2 ^ (fb f - 1 - Z.log2 m)).
  { change 2 with (2 ^ 1) at 1. apply Z.pow_le_mono_r; lia. }
  nia.
Qed.
End Encode2.


(* ---- the explicit layout is a bijection between canonical data and bit patterns *)
Definition valid_fval (f : fmt) (x : fval) : Prop :=
  match x with FFin s m e => valid_fin f m e | FNan => False | _ => True end.

Section Spec.
Variable f : fmt.
Hypothesis Hf : fmt_ok f.

Lemma spec_decode_valid bits : 0 <= bits < 2 ^ (fb f + eb f + 1) -> enc_ok f true (spec_decode f bits).
Proof.
  intros Hb. destruct (eb_facts f Hf) as [HB H2B]. pose proof Hf as (Hfb & Heb & Hw).
  destruct (fld_ranges f Hf bits) as [Hfr Hex]. unfold spec_decode.
  set (fr := bits mod 2 ^ fb f) in *. set (ex := (bits / 2 ^ fb f) mod 2 ^ eb f) in *.
  destruct (ex =? 0) eqn:H0.
  - destruct (fr =? 0) eqn:H1; cbn [enc_ok]; [exact I |]. split; [| left; reflexivity]. right. lia.
  - destruct (ex =? 2 ^ eb f - 1) eqn:H2.
    + destruct (fr =? 0); exact I.
    + cbn [enc_ok]. split; [| left; reflexivity]. left. rewrite p2succ by lia. unfold emin, emax, bias. lia.
Qed.

Lemma spec_encode_decode bits : 0 <= bits < 2 ^ (fb f + eb f + 1) ->
  spec_decode f bits <> FNan -> spec_encode f (spec_decode f bits) = bits.
Proof.
  intros Hb Hnn. destruct (eb_facts f Hf) as [HB H2B]. pose proof Hf as (Hfb & Heb & Hw).
  destruct (fld_ranges f Hf bits) as [Hfr Hex].
  pose proof (p2pos (fb f) ltac:(lia)) as Hpfb. pose proof (p2pos (eb f) ltac:(lia)) as Hpeb.
  assert (Hsplit : 2 ^ (fb f + eb f) = 2 ^ eb f * 2 ^ fb f) by (rewrite (Z.add_comm (fb f)), Z.pow_add_r by lia; reflexivity).
  rewrite p2succ in Hb by lia.
  assert (Hdec : bits = ((if 2 ^ (fb f + eb f) <=? bits then 2 ^ eb f else 0) + (bits / 2 ^ fb f) mod 2 ^ eb f) * 2 ^ fb f + bits mod 2 ^ fb f).
  { pose proof (Z.div_mod bits (2 ^ fb f) ltac:(lia)) as H1.
    pose proof (Z.div_mod (bits / 2 ^ fb f) (2 ^ eb f) ltac:(lia)) as H2.
    assert (Hq : 0 <= bits / 2 ^ fb f / 2 ^ eb f < 2).
    { rewrite Z.div_div by lia. split; [apply Z.div_pos; nia | apply Z.div_lt_upper_bound; nia]. }
    assert (Hq' : bits / 2 ^ fb f / 2 ^ eb f = if 2 ^ (fb f + eb f) <=? bits then 1 else 0).
    { rewrite Z.div_div by lia. rewrite (Z.mul_comm (2 ^ fb f)), <- Hsplit.
      pose proof (p2pos (fb f + eb f) ltac:(lia)) as HpP.
      destruct (2 ^ (fb f + eb f) <=? bits) eqn:Hs.
      - symmetry. apply (Z.div_unique bits (2 ^ (fb f + eb f)) 1 (bits - 2 ^ (fb f + eb f))); lia.
      - apply Z.div_small. lia. }
    rewrite Hq' in H2. destruct (2 ^ (fb f + eb f) <=? bits); nia. }
  revert Hnn. unfold spec_decode, spec_encode.
  set (sg := 2 ^ (fb f + eb f) <=? bits) in *.
  set (fr := bits mod 2 ^ fb f) in *. set (ex := (bits / 2 ^ fb f) mod 2 ^ eb f) in *.
  destruct (ex =? 0) eqn:H0.
  - destruct (fr =? 0) eqn:H1; intros _; unfold join.
    + assert (ex = 0) by lia. assert (fr = 0) by lia. lia.
    + replace (2 ^ fb f <=? fr) with false by lia. assert (ex = 0) by lia. lia.
  - destruct (ex =? 2 ^ eb f - 1) eqn:H2.
    + destruct (fr =? 0) eqn:H1; intros Hnn; [| congruence]. unfold join. assert (fr = 0) by lia. lia.
    + intros _. unfold join. replace (2 ^ fb f <=? fr + 2 ^ fb f) with true by lia.
      replace (ex - bias f - fb f + fb f + bias f) with ex by lia. lia.
Qed.

Lemma join_fields s ex fr : 0 <= ex < 2 ^ eb f -> 0 <= fr < 2 ^ fb f ->
  let b := join f s ex fr in
  0 <= b < 2 ^ (fb f + eb f + 1) /\ (2 ^ (fb f + eb f) <=? b) = s /\ b mod 2 ^ fb f = fr /\ (b / 2 ^ fb f) mod 2 ^ eb f = ex.
Proof.
  intros Hex Hfr. pose proof Hf as (Hfb & Heb & Hw). cbv zeta. unfold join.
  pose proof (p2pos (fb f) ltac:(lia)) as Hpfb. pose proof (p2pos (eb f) ltac:(lia)) as Hpeb.
  assert (Hsplit : 2 ^ (fb f + eb f) = 2 ^ eb f * 2 ^ fb f) by (rewrite (Z.add_comm (fb f)), Z.pow_add_r by lia; reflexivity).
  rewrite p2succ by lia. rewrite Hsplit.
  set (hi := (if s then 2 ^ eb f else 0) + ex).
  assert (Hmod : (hi * 2 ^ fb f + fr) mod 2 ^ fb f = fr).
  { symmetry. apply (Z.mod_unique _ _ hi fr); lia. }
  assert (Hdiv : (hi * 2 ^ fb f + fr) / 2 ^ fb f = hi).
  { symmetry. apply (Z.div_unique _ _ hi fr); lia. }
  rewrite Hmod, Hdiv. unfold hi. destruct s.
  - repeat split; try nia.
    symmetry. apply (Z.mod_unique _ _ 1 ex); lia.
  - repeat split; try nia.
    symmetry. apply (Z.mod_unique _ _ 0 ex); lia.
Qed.

Lemma spec_decode_encode x : valid_fval f x -> spec_decode f (spec_encode f x) = x /\ 0 <= spec_encode f x < 2 ^ (fb f + eb f + 1).
Proof.
  intros Hx. destruct (eb_facts f Hf) as [HB H2B]. pose proof Hf as (Hfb & Heb & Hw).
  pose proof (p2pos (fb f) ltac:(lia)) as Hpfb. pose proof (p2pos (eb f) ltac:(lia)) as Hpeb.
  destruct x as [s | s | | s m e]; cbn [valid_fval] in Hx; unfold spec_encode.
  - destruct (join_fields s 0 0 ltac:(lia) ltac:(lia)) as (Hr & Hs & Hm & He). split; [| exact Hr].
    unfold spec_decode. rewrite Hs, Hm, He. reflexivity.
  - destruct (join_fields s (2 ^ eb f - 1) 0 ltac:(lia) ltac:(lia)) as (Hr & Hs & Hm & He). split; [| exact Hr].
    unfold spec_decode. rewrite Hs, Hm, He. replace (2 ^ eb f - 1 =? 0) with false by lia. rewrite Z.eqb_refl. reflexivity.
  - contradiction.
  - destruct Hx as [[Hm He] | [Hm He]].
    + replace (2 ^ fb f <=? m) with true by lia. rewrite p2succ in Hm by lia.
      destruct (join_fields s (e + fb f + bias f) (m - 2 ^ fb f) ltac:(unfold emin, emax, bias in *; lia) ltac:(lia)) as (Hr & Hs & Hmm & Hee).
      split; [| exact Hr]. unfold spec_decode. rewrite Hs, Hmm, Hee.
      replace (e + fb f + bias f =? 0) with false by (unfold emin, emax, bias in *; lia).
      replace (e + fb f + bias f =? 2 ^ eb f - 1) with false by (unfold emin, emax, bias in *; lia).
      f_equal; lia.
    + replace (2 ^ fb f <=? m) with false by lia.
      destruct (join_fields s 0 m ltac:(lia) ltac:(lia)) as (Hr & Hs & Hmm & Hee).
      split; [| exact Hr]. unfold spec_decode. rewrite Hs, Hmm, Hee. change (0 =? 0) with true. cbv iota.
      replace (m =? 0) with false by lia. subst e. reflexivity.
Qed.
End Spec.
Lemma layout_bijective : forall f, fmt_ok f ->
  (forall bits, 0 <= bits < 2 ^ (fb f + eb f + 1) -> spec_decode f bits <> FNan -> spec_encode f (spec_decode f bits) = bits) /\
  (forall x, valid_fval f x -> spec_decode f (spec_encode f x) = x /\ 0 <= spec_encode f x < 2 ^ (fb f + eb f + 1)).
Proof. intros f Hf. split; [exact (spec_encode_decode f Hf) | exact (spec_decode_encode f Hf)]. Qed.
