(* ScalSpec.v — C08: the regulation's scaling arithmetic (FM 94 BUFR 94.1.x / Table B: value = (raw + reference) / 10^scale),
   stated twice: over the reals (used by the proofs, shares Flocq's rounding operators) and over Q (executable, extracted,
   run by the correspondence driver).  ScalSpecProof.v proves the two agree.   Definitions only. *)
From Coq Require Import ZArith QArith Qround Reals Bool.
From Flocq Require Import Core.

Definition radix10 : radix := Build_radix 10 eq_refl.

(* ---------- over the reals ---------- *)
Definition p10R (s : Z) : R := bpow radix10 s.

(* physical value of raw value i under (scale s, reference ref) *)
Definition physR (s ref i : Z) : R := (IZR (i + ref) * bpow radix10 (- s))%R.

(* round half away from zero (the C function round(), Flocq's ZnearestA) *)
Definition rndA (x : R) : Z := ZnearestA x.

Definition allones (w : Z) : Z := (2 ^ w - 1)%Z.

(* the property's statement of the encoder: a value outside [phys 0, phys (2^w-2)] is missing (all ones) *)
Definition rawR (s ref w : Z) (q : R) : Z :=
  if Rlt_bool q (physR s ref 0) || Rlt_bool (physR s ref (2 ^ w - 2)) q
  then allones w
  else (rndA (q * bpow radix10 s) - ref)%Z.

(* the same quantisation with the range test made after rounding (values within half a unit outside the extremes
   are quantised to the extremes); coincides with rawR inside the range *)
Definition quantR (s ref w : Z) (q : R) : Z :=
  let r := (rndA (q * bpow radix10 s) - ref)%Z in
  if (0 <=? r)%Z && (r <=? 2 ^ w - 2)%Z then r else allones w.

(* ---------- over Q (executable) ---------- *)
Definition p10Q (s : Z) : Q :=
  if (0 <=? s)%Z then inject_Z (10 ^ s) else (1 # Z.to_pos (10 ^ (- s))).

Definition physQ (s ref i : Z) : Q := (inject_Z (i + ref) * p10Q (- s))%Q.

Definition rndAQ (q : Q) : Z :=
  if Qle_bool 0 q then Qfloor (q + (1 # 2)) else (- Qfloor (- q + (1 # 2)))%Z.

Definition Qltb (a b : Q) : bool := negb (Qle_bool b a).

Definition rawQ (s ref w : Z) (q : Q) : Z :=
  if Qltb q (physQ s ref 0) || Qltb (physQ s ref (2 ^ w - 2)) q
  then allones w
  else (rndAQ (q * p10Q s) - ref)%Z.

Definition quantQ (s ref w : Z) (q : Q) : Z :=
  let r := (rndAQ (q * p10Q s) - ref)%Z in
  if (0 <=? r)%Z && (r <=? 2 ^ w - 2)%Z then r else allones w.
