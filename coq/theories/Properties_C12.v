(* Properties_C12.v — property C12: loaded tables are exactly what the files say; local entries override master.
   Model: Tables.v (state of one BUFR_Tables object: master/local Table B as arrays of pointers into a heap of entries,
   tableB_cache / last_searched, Table D arrays, merge, loop detector, version selection).  [current_code] mirrors
   bufr_tables.c as it is; [all_fixed] applies the three repairs of /verif/proposed_fixes/C12_*.md.
   A history is a list of operations  load master/local B/D | merge | fetch B | fetch D | match D | version;
   a file is the list of entries its lines denote; [wf_op]: one entry per descriptor in each file.
   Specification: [spec_after ops] = the finite maps denoted by the files (later files replace earlier entries, the
   source of a merge replaces the master tables and extends the local ones); [spec_fetchB] consults the local map first. *)
From Coq Require Import List ZArith Arith Bool Sorting.Sorted.
From V Require Import Fm94 GenTables Tables TablesProof TablesLoopProof TablesCor TablesFinite.
Import ListNotations.
Local Open Scope Z_scope.

(* the property at full strength, for a variant [fx] of the code: after EVERY history the next Table B lookup answers
   what the finite maps say; likewise Table D *)
Definition C12_full_statement (fx : fixes) : Prop :=
  forall ops d, Forall wf_op ops ->
    fst (exec fx (state_after fx ops) (OFetchB d)) = RB (spec_fetchB (spec_after ops) d) /\
    fst (exec fx (state_after fx ops) (OFetchD d)) = RD (spec_fetchD (spec_after ops) d).

(* ---------------------------------------------------------------- lookup_correct *)
Theorem C12_lookup_correct : forall (l : list dent) (k : Z),
  StronglySorted Z.lt (map fst l) ->
  searchD (Some l) k = match assoc k l with Some v => Some (k, v) | None => None end.
Proof. exact searchD_assoc. Qed.
Print Assumptions C12_lookup_correct.

(* duplicate keys (array sorted by <=): some entry of that descriptor is returned; "absent" only when there is none *)
Theorem C12_lookup_duplicates : forall (l : list dent) (k : Z),
  StronglySorted Z.le (map fst l) ->
  match searchD (Some l) k with
  | Some e => In e l /\ fst e = k
  | None => forall e, In e l -> fst e <> k
  end.
Proof. exact searchD_duplicates. Qed.
Print Assumptions C12_lookup_duplicates.

(* the same through the array of entry pointers of Table B *)
Theorem C12_lookupB_correct : forall h ids k,
  live h ids -> StronglySorted Z.lt (map fst (avals h ids)) ->
  match searchB h (Some ids) k with
  | SFound id => In id ids /\ exists e, hget h id = Some e /\ vfind (avals h ids) k = Some e
  | SNone => vfind (avals h ids) k = None
  | SDang => False
  end.
Proof. exact searchB_ok. Qed.
Print Assumptions C12_lookupB_correct.

(* ---------------------------------------------------------------- cache_coherent *)
Theorem C12_cache_coherent_fixed : C12_full_statement all_fixed.
Proof. exact (fun ops d WF => conj (cache_coherent_fixed ops d WF) (tableD_coherent_fixed ops d WF)). Qed.
Print Assumptions C12_cache_coherent_fixed.

(* the code as it is: a lookup, a local file redefining the descriptor, the same lookup -> the stale master entry *)
Theorem C12_cache_coherent_refuted :
  exists ops d, Forall wf_op ops /\
    fst (exec current_code (state_after current_code ops) (OFetchB d)) <> RB (spec_fetchB (spec_after ops) d).
Proof. exact cache_coherent_refuted. Qed.
Print Assumptions C12_cache_coherent_refuted.

(* the code as it is: a lookup, a merge that replaces the object's own master table, a lookup -> a freed entry is read *)
Theorem C12_cache_dangling_refuted :
  exists ops d, Forall wf_op ops /\ fst (exec current_code (state_after current_code ops) (OFetchB d)) = RCrash.
Proof. exact cache_dangling_refuted. Qed.
Print Assumptions C12_cache_dangling_refuted.

(* repaired code: no history makes a lookup read a freed entry *)
Theorem C12_no_crash_fixed : forall ops, Forall wf_op ops -> ~ In RCrash (fst (run all_fixed (empty_state hempty) ops)).
Proof. exact no_crash_fixed. Qed.
Print Assumptions C12_no_crash_fixed.

(* ---------------------------------------------------------------- local_over_master *)
Theorem C12_local_over_master_fixed : forall ops d b,
  Forall wf_op ops -> (1 <=? descF d) && (descF d <=? 3) = false -> assoc d (sp_lB (spec_after ops)) = Some b ->
  fst (exec all_fixed (state_after all_fixed ops) (OFetchB d)) = RB (Some (d, b)).
Proof. exact local_over_master_fixed. Qed.
Print Assumptions C12_local_over_master_fixed.

Theorem C12_local_load_wins_fixed : forall ops v es d b,
  Forall wf_op ops -> nodupk es -> (1 <=? descF d) && (descF d <=? 3) = false -> In (d, b) es ->
  fst (exec all_fixed (state_after all_fixed (ops ++ [OLoadLB v es])) (OFetchB d)) = RB (Some (d, b)).
Proof. exact local_load_wins_fixed. Qed.
Print Assumptions C12_local_load_wins_fixed.

(* ---------------------------------------------------------------- merge_union *)
Theorem C12_merge_union_fixed : forall ops a d,
  Forall wf_op ops -> wf_arg a ->
  let sp := spec_after ops in
  let src_l := match a_lb a with Some (_, es) => es | None => [] end in
  let mas := match a_mb a with Some (_, es) => es | None => sp_mB sp end in
  fst (exec all_fixed (state_after all_fixed (ops ++ [OMerge a])) (OFetchB d)) =
  RB (if (1 <=? descF d) && (descF d <=? 3) then None else
      match assoc d src_l with Some b => Some (d, b) | None =>
      match assoc d (sp_lB sp) with Some b => Some (d, b) | None =>
      match assoc d mas with Some b => Some (d, b) | None => None end end end).
Proof. exact merge_union_fixed. Qed.
Print Assumptions C12_merge_union_fixed.

(* the code as it is: two local files and NO lookup in between; the second does not replace the first's entry *)
Theorem C12_merge_union_refuted :
  exists ops d, Forall wf_op ops /\ (forall o, In o ops -> match o with OFetchB _ => False | _ => True end) /\
    fst (exec current_code (state_after current_code ops) (OFetchB d)) <> RB (spec_fetchB (spec_after ops) d).
Proof. exact merge_union_refuted. Qed.
Print Assumptions C12_merge_union_refuted.

(* ---------------------------------------------------------------- absent_is_absent *)
Theorem C12_absent_is_absent_fixed : forall ops d,
  Forall wf_op ops ->
  (fst (exec all_fixed (state_after all_fixed ops) (OFetchB d)) = RB None <->
   (1 <=? descF d) && (descF d <=? 3) = true \/
   (~ In d (map fst (sp_lB (spec_after ops))) /\ ~ In d (map fst (sp_mB (spec_after ops))))).
Proof. exact absent_is_absent_fixed. Qed.
Print Assumptions C12_absent_is_absent_fixed.

(* ---------------------------------------------------------------- cyclic_detected (the detector is the same in both variants) *)
(* a Table D load returns 0 exactly when no member of an entry of the loaded table leads, through the tables of the
   object (local before master), to a sequence that reaches itself or to a sequence that is defined nowhere *)
Theorem C12_cyclic_detected : forall s t,
  check_loop s t = 0 <->
  (forall e x, In e t -> In x (snd e) ->
     (forall y, reachs (fetchD s) x y -> ~ reachp (fetchD s) y y) /\
     (forall y, reachs (fetchD s) x y -> descF y = 3 -> fetchD s y <> None)).
Proof. exact check_loop_zero_cycles. Qed.
Print Assumptions C12_cyclic_detected.

Theorem C12_cyclic_reported : forall s t e x y,
  In e t -> In x (snd e) -> reachs (fetchD s) x y -> reachp (fetchD s) y y -> check_loop s t < 0.
Proof. exact cyclic_reported. Qed.
Print Assumptions C12_cyclic_reported.

(* the C recursion has no counter; the model's fuel (number of Table D entries + 2) is never exhausted *)
Theorem C12_check_loop_fuel : forall s t, check_loop s t <> -3.
Proof. exact check_loop_fuel. Qed.
Print Assumptions C12_check_loop_fuel.

(* ---------------------------------------------------------------- version_exact *)
Theorem C12_version_exact : forall vs v,
  In v vs ->
  exists k, use_tables_list vs v = Some k /\ nth_error vs k = Some v /\ forall j, (j < k)%nat -> nth_error vs j <> Some v.
Proof. exact version_exact. Qed.
Print Assumptions C12_version_exact.

Theorem C12_version_some : forall vs v, use_tables_list vs v = None <-> vs = [].
Proof. exact version_some. Qed.
Print Assumptions C12_version_some.

(* ---------------------------------------------------------------- finite theorems over the regenerated shipped tables *)
Theorem C12_shipped_unique_keys :
  forallb (fun T => nodupb (map fst (tB T)) && nodupb (map fst (tD T))) shipped_tables = true.
Proof. exact shipped_unique_keys. Qed.
Print Assumptions C12_shipped_unique_keys.

Theorem C12_shipped_tableD_acyclic :
  forallb (fun T => match fst (run current_code (empty_state hempty) (load_master current_code T)) with
                    | [RRc 0; RRc 0] => true | _ => false end) shipped_tables = true.
Proof. exact shipped_tableD_acyclic. Qed.
Print Assumptions C12_shipped_tableD_acyclic.

Theorem C12_shipped_lookup_exact : forallb probe_shipped shipped_tables = true.
Proof. exact shipped_lookup_exact. Qed.
Print Assumptions C12_shipped_lookup_exact.

(* ---------------------------------------------------------------- the hypotheses are satisfiable *)
Example C12_wf_history : Forall wf_op [OLoadMB (Some 35) w_m; OFetchB 30030; OLoadLB (-1) w_l; OMerge (mkM None None (Some (-1, w_l)) None)].
Proof.
  constructor; [exact nodupk_w_m|]. constructor; [exact I|]. constructor; [exact nodupk_w_l|]. constructor; [|constructor].
  cbn. repeat split; try exact I. exact nodupk_w_l.
Qed.
Example C12_shipped_files_wf : Forall (fun T => nodupk (tB T) /\ nodupk (tD T)) shipped_tables.
Proof. exact shipped_files_wf. Qed.
Example C12_witnesses_repaired :
  fst (exec all_fixed (state_after all_fixed [OLoadMB (Some 35) w_m; OFetchB 30030; OLoadLB (-1) w_l]) (OFetchB 30030)) = RB (Some (30030, mkB UNum 2 (-30030) 12)) /\
  fst (exec all_fixed (state_after all_fixed [OLoadMB (Some 35) w_m; OFetchB 30030; OMerge (mkM (Some (Some 35, w_l)) None None None)]) (OFetchB 30030)) = RB (Some (30030, mkB UNum 2 (-30030) 12)) /\
  fst (exec all_fixed (state_after all_fixed [OLoadLB (-1) w_m; OLoadLB (-1) w_l]) (OFetchB 30030)) = RB (Some (30030, mkB UNum 2 (-30030) 12)).
Proof. exact witnesses_repaired. Qed.
Example C12_version_ex : use_tables_list [13; 31; 35; 31] 31 = Some 1%nat /\ use_tables_list [13; 35] 31 = Some 1%nat /\ use_tables_list [13; 14] 31 = Some 1%nat.
Proof. vm_compute. repeat split. Qed.
