(* BitFields.v — definitions shared by BitProof.v and Properties_C11.v:
   reader well-formedness, and writing / reading a list of bit fields. *)
From Coq Require Import List NArith ZArith Arith Lia.
From V Require Import BitIO.
Import ListNotations.
Local Open Scope N_scope.

Definition RWF (L:nat) (s:rst) : Prop := (rbit s < 8)%nat /\ (cur s <= L)%nat /\ (rbit s <> 0%nat -> (cur s < L)%nat).

Fixpoint write_fields (s:wst) (fs:list (N*nat)) : option wst :=
  match fs with
  | [] => Some s
  | (v,n) :: t => match putbits s v n with Some s1 => write_fields s1 t | None => None end
  end.
Fixpoint read_fields (d:list N) (L:nat) (s:rst) (ws:list nat) : option (list N * rst) :=
  match ws with
  | [] => Some ([], s)
  | n :: t => match getbits d L s n with
              | RRes v 0%Z s1 => match read_fields d L s1 t with Some (vs,s2) => Some (v::vs, s2) | None => None end
              | _ => None
              end
  end.
Definition rst_of_pos (p:nat) : rst := {| cur := p / 8; rbit := p mod 8 |}.
