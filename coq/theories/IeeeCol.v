(* IeeeCol.v — the library's convention for a 2 09 YYY (IEEE 754) column of a compressed message, as coded in
   bufr_put_ieeefp_compressed / bufr_get_ieeefp_compressed (bufr_dataset.c), on bit patterns:
     all patterns equal :  R0 = the pattern (w bits), NBINC = 0 (6 bits), nothing else
     otherwise          :  R0 = 0, NBINC = w/8, then every pattern in full (w bits each)
   and the range decoder (subsets a..b of n): R0, NBINC, then - only when NBINC > 0 - skip (a-1) values, read b-a+1, skip n-b.
   Values are patterns (N below 2^w): "equal" is equality of patterns, so zeros of either sign are distinct values. *)
From Coq Require Import List NArith Arith Lia Bool.
From V Require Import Walk Fm94.
Import ListNotations.

Definition pats_equal (vals:list N) : bool :=
  match vals with [] => true | v0 :: t => forallb (N.eqb v0) t end.

Definition ieee_col_enc (w:nat) (vals:list N) : bits :=
  match vals with
  | [] => []
  | v0 :: _ =>
      if pats_equal vals then enc_n w v0 ++ enc_n 6 0%N
      else enc_n w 0%N ++ enc_n 6 (N.of_nat (w / 8)) ++ flat_map (enc_n w) vals
  end.

Fixpoint dec_vals (k:nat) (w:nat) (l:bits) : option (list N * bits) :=
  match k with
  | O => Some ([], l)
  | S k' => match dec_n w 0%N l with
            | None => None
            | Some (v, l1) => match dec_vals k' w l1 with None => None | Some (vs, l2) => Some (v :: vs, l2) end
            end
  end.

Definition skip_bits (n:nat) (l:bits) : option bits :=
  if Nat.leb n (length l) then Some (skipn n l) else None.

Definition ieee_col_dec (w:nat) (nsub:nat) (l:bits) : option (list N * bits) :=
  match dec_n w 0%N l with
  | None => None
  | Some (r0, l1) =>
      match dec_n 6 0%N l1 with
      | None => None
      | Some (nb, l2) => if N.eqb nb 0 then Some (repeat r0 nsub, l2) else dec_vals nsub w l2
      end
  end.

(* subsets a..b (1-based, 1 <= a <= b <= nsub) *)
Definition ieee_col_dec_range (w:nat) (nsub a b:nat) (l:bits) : option (list N * bits) :=
  match dec_n w 0%N l with
  | None => None
  | Some (r0, l1) =>
      match dec_n 6 0%N l1 with
      | None => None
      | Some (nb, l2) =>
          if N.eqb nb 0 then Some (repeat r0 (b - a + 1), l2)
          else match skip_bits (w * (a - 1)) l2 with
               | None => None
               | Some l3 => match dec_vals (b - a + 1) w l3 with
                            | None => None
                            | Some (vs, l4) => match skip_bits (w * (nsub - b)) l4 with None => None | Some l5 => Some (vs, l5) end
                            end
               end
      end
  end.

Definition slice {A} (a b:nat) (l:list A) : list A := firstn (b - a + 1) (skipn (a - 1) l).
