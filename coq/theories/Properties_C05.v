(* Properties_C05.v — C05 (partial by design): what an executable model can say about decoding arbitrary bytes.
   The reference decoder is a total function on every bit string (any Coq function is), so "terminates" and "no access
   outside the input" hold for it by construction; the theorems below are the quantitative part:
   whatever decodes is no larger than the input, whatever replication factors the input claims, and malformed
   replication structure is refused.  Memory safety, stack use and wall time of the C code are NOT provable here;
   they are observed by the sanitizer run of lib/c05.py. *)
From Coq Require Import List ZArith NArith Arith Lia Bool.
From V Require Import Walk Fm94 Fm94Proof Fm94Exp Fm94Bound.
Import ListNotations.
Local Open Scope Z_scope.

(* one element always consumes at least one bit *)
Theorem C05_element_consumes_input : forall f l v tl,
  dec_elem f l = Ok (v, tl) -> (length tl < length l)%nat.
Proof. exact dec_elem_consumes. Qed.
Print Assumptions C05_element_consumes_input.

(* uncompressed: the number of decoded elements (all subsets together) never exceeds the number of input bits,
   whatever delayed replication factors the data claim *)
Theorem C05_decoded_size_bounded_by_input : forall T ed fuel tmpl nsub l subsets tl,
  dec_plain T ed fuel tmpl nsub l = Ok (subsets, tl) ->
  (fold_right (fun s acc => length s + acc) 0 subsets + length tl <= length l)%nat.
Proof. exact dec_plain_size_bound. Qed.
Print Assumptions C05_decoded_size_bounded_by_input.

(* compressed: the number of decoded columns never exceeds the number of input bits *)
Theorem C05_decoded_columns_bounded_by_input : forall T ed fuel tmpl nsub l cols tl,
  dec_comp_cols T ed nsub fuel tmpl l = Ok (cols, tl) -> (length cols + length tl <= length l)%nat.
Proof. exact dec_comp_cols_size_bound. Qed.
Print Assumptions C05_decoded_columns_bounded_by_input.

(* a replication span running past the end is refused, never expanded *)
Theorem C05_span_past_end_refused : forall T ed f st d rest s,
  dF d = 1 -> dY d <> 0 -> (length rest < Z.to_nat (dX d))%nat -> walk_list T ed (S f) st (d :: rest) s = Err Reject.
Proof. exact walk_span_past_end. Qed.
Print Assumptions C05_span_past_end_refused.

Theorem C05_delayed_without_factor_refused : forall T ed f st d c rest s,
  dF d = 1 -> dY d = 0 -> is_factor c = false -> walk_list T ed (S f) st (d :: c :: rest) s = Err Reject.
Proof. exact walk_delayed_without_factor. Qed.
Print Assumptions C05_delayed_without_factor_refused.

(* a circular Table D reference never yields an expansion *)
Theorem C05_circular_tableD_never_expanded : forall T ed f st d seq rest s,
  dF d = 3 -> lookupD T d = Some (d :: seq) -> walk_list T ed f st (d :: rest) s = Err OutOfFuel.
Proof. exact walk_self_reference. Qed.
Print Assumptions C05_circular_tableD_never_expanded.
