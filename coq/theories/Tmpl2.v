(* Tmpl2.v — executable model of the template text format as corrected by proposed_fixes/C18_template_text.md:
   bufr_save_template writes "<desc>,VALUE=v1,v2,..." on one line (bufr_save_template_value: MSNG, quoted and escaped
   character values, %.17g), bufr_load_template reads the list with bufr_next_template_value.
   Everything else (lines, directives, acceptance, copy, compare) is Tmpl.v's.  Definitions only; proofs in Tmpl2Proof.v. *)
From Coq Require Import List ZArith NArith Arith Lia Bool.
From V Require Import Walk Fm94 Fm94Exp Tmpl.
Import ListNotations.
Local Open Scope Z_scope.

(* ------------------------------------------------------------------ printf("%.17g") *)
Definition print_g17 (m e:Z) : text :=
  let sign := if m <? 0 then [45] else [] in
  if m =? 0 then [48] else
  let '(n, d) := frac_of (Z.abs m) e in
  let l := Z.log2 n - Z.log2 d in
  let k0 := ((l - 1) * 30103) / 100000 - 2 in
  let k1 := up10 8 n d k0 in
  let '(a, b) := scale10 n d (k1 - 16) in
  let q := rhe a b in
  let '(q, k) := if 10 ^ 17 <=? q then (q / 10, k1 + 1) else (q, k1) in
  let ds := fixed_digits 17 q in
  let strip l := rev (strip0 (rev l)) in
  sign ++
  (if (0 <=? k) && (k <? 17) then
     let fp := strip (skipn (Z.to_nat (k + 1)) ds) in
     firstn (Z.to_nat (k + 1)) ds ++ match fp with [] => [] | _ => 46 :: fp end
   else if (-4 <=? k) && (k <? 0) then
     48 :: 46 :: repeat 48 (Z.to_nat (- k - 1)) ++ strip ds
   else
     let fp := strip (tl ds) in
     firstn 1 ds ++ (match fp with [] => [] | _ => 46 :: fp end)
     ++ [101] ++ (if k <? 0 then [45] else [43]) ++ (if Z.abs k <? 10 then [48] else []) ++ dec (Z.abs k)).

(* ------------------------------------------------------------------ bufr_save_template_value *)
Definition hexdigit (n:Z) : Z := if n <? 10 then 48 + n else 87 + n.          (* %02x *)
Definition escape_char (c:Z) : text :=
  if (c =? 34) || (c =? 92) then [92; c]
  else if (c <? 32) || (c =? 127) then [92; 120; hexdigit (c / 16); hexdigit (c mod 16)]
  else [c].
Fixpoint escape (s:text) : text := match s with [] => [] | c :: t => escape_char c ++ escape t end.
Definition is_dbl_max (m e:Z) : bool := (m =? dbl_max_m) && (e =? dbl_max_e).
Definition print_value2 (v:dvalue) : text :=
  match v with
  | DNull => s_MSNG
  | DInt32 z | DInt64 z => if z =? -1 then s_MSNG else print_Z z
  | DFlt m e => if is_dbl_max m e then s_MSNG else print_g17 m e
  | DStr s => 34 :: escape (cut0 s) ++ [34]
  end.
Definition save2_item (it:item) : text :=
  print_Z (i_desc it)
  ++ (match i_vals it with
      | [] => []
      | v :: vs => s_cVALUE ++ print_value2 v ++ concat (map (fun w => 44 :: print_value2 w) vs)
      end)
  ++ [10].
Definition save2_text (t:template) : text :=
  s_head1 ++ print_Z (Z.of_nat (length (t_items t))) ++ s_head2 ++ [10]
  ++ s_BUFR_EDITION_eq ++ print_Z (t_ed t) ++ [10]
  ++ s_hash ++ [10]
  ++ concat (map save2_item (t_items t))
  ++ s_hash ++ [10].
Definition save2 (t:template) : list text := split_nl (save2_text t) [].

(* ------------------------------------------------------------------ bufr_next_template_value *)
Definition dl_next (c:Z) : bool := (c =? 32) || (c =? 9) || (c =? 44) || (c =? 61) || (c =? 10) || (c =? 13).
Definition dl_plain_end (c:Z) : bool := (c =? 44) || (c =? 9) || (c =? 10) || (c =? 13).
Definition isxdigit (c:Z) : bool := isdigit c || ((97 <=? c) && (c <=? 102)) || ((65 <=? c) && (c <=? 70)).
Definition hexval (c:Z) : Z := if isdigit c then c - 48 else if 97 <=? c then c - 87 else c - 55.
(* the body of a quoted value up to the closing quote: (value, rest behind the quote) *)
Fixpoint unquote (q:text) : text * text :=
  match q with
  | [] => ([], [])
  | c :: t =>
    if c =? 34 then ([], t)
    else if c =? 92 then
      match t with
      | [] => ([92], [])
      | c2 :: t2 =>
        match t2 with
        | h1 :: h2 :: t4 =>
          if (c2 =? 120) && isxdigit h1 && isxdigit h2
          then let '(a, r) := unquote t4 in ((16 * hexval h1 + hexval h2) mod 256 :: a, r)
          else let '(a, r) := unquote t2 in (c2 :: a, r)
        | _ => let '(a, r) := unquote t2 in (c2 :: a, r)
        end
      end
    else let '(a, r) := unquote t in (c :: a, r)
  end.
(* up to the next delimiter, which is left in place *)
Fixpoint span_plain (s:text) : text * text :=
  match s with
  | [] => ([], [])
  | c :: t => if dl_plain_end c then ([], s) else let '(a, r) := span_plain t in (c :: a, r)
  end.
Inductive vkind := KPlain | KQuoted.
Definition next_value (p:text) : option (vkind * text * text) :=
  match skipb dl_next p with
  | [] => None
  | c :: t => if c =? 34 then let '(a, r) := unquote t in Some (KQuoted, a, r)
              else let '(a, r) := span_plain (c :: t) in Some (KPlain, a, r)
  end.

(* ------------------------------------------------------------------ the loader's value conversion *)
Definition has_dot_e (s:text) : bool := existsb (fun c => (c =? 46) || (c =? 101) || (c =? 69)) (cut0 s).
(* llround of a finite double: half away from zero; clamped to long long *)
Definition llround (m e:Z) : Z :=
  let '(n, d) := frac_of (Z.abs m) e in
  let q := (2 * n + d) / (2 * d) in clamp64 (if m <? 0 then - q else q).
Definition strtod_llround (s:text) : Z := match strtod s with FInf => 2 ^ 63 - 1 | FVal m e => llround m e end.
Definition parse_val2 (ty:vtype) (k:vkind) (buf:text) : dvalue :=
  if (match k with KPlain => true | KQuoted => false end) && text_eqb (cut0 buf) s_MSNG then
    match ty with
    | TString n => DStr (set_string [] n)
    | TInt64 => DInt64 (-1)
    | TInt32 => DInt32 (-1)
    | TFlt64 => DFlt dbl_max_m dbl_max_e
    | TUndef => DNull
    end
  else
    match ty with
    | TString n => DStr (set_string buf n)
    | TInt64 => DInt64 (if has_dot_e buf then strtod_llround buf else strtol buf)
    | TInt32 => DInt32 (if has_dot_e buf then wrap32 (strtod_llround buf) else atoi buf)
    | TFlt64 => match strtod buf with
                | FInf => DFlt dbl_max_m dbl_max_e
                | FVal m e => DFlt m e
                end
    | TUndef => DNull
    end.
Fixpoint values2 (fuel:nat) (ty:vtype) (p:text) : list dvalue :=
  match fuel with
  | O => []
  | S f => match next_value p with
           | None => []
           | Some (k, buf, rest) => parse_val2 ty k buf :: values2 f ty rest
           end
  end.

Definition fixed_values (ty:vtype) (r2:text) : list dvalue := values2 (S (length r2)) ty r2.
Definition load2_line : tables -> lstate -> text -> lstate := load_line_gen fixed_values.
Definition parse2_lines : tables -> list text -> template := parse_lines_gen fixed_values.
Definition load2 : nat -> tables -> list text -> result template := load_gen fixed_values.
Definition load2_text (fuel:nat) (T:tables) (s:text) : result template := load2 fuel T (split_nl s []).

(* ------------------------------------------------------------------ predicates of the statements *)
(* the libc contract the corrected format relies on: 17 significant digits identify a double (DBL_DECIMAL_DIG) *)
Definition dbl_carried (m e:Z) : Prop := strtod (print_g17 m e) = FVal m e.
Definition carried2_value (ty:vtype) (v:dvalue) : Prop :=
  match ty, v with
  | TInt32, DInt32 z => - 2 ^ 31 <= z < 2 ^ 31
  | TInt64, DInt64 z => - 2 ^ 63 <= z < 2 ^ 63
  | TFlt64, DFlt m e => is_dbl_max m e = true \/ dbl_carried m e
  | TString n, DStr s => Z.of_nat (length s) = n /\ forallb (fun c => (0 <? c) && (c <? 256)) s = true
  | _, _ => False
  end.
Definition carried2 (T:tables) (t:template) : Prop :=
  Forall (fun it => Forall (carried2_value (vtype_of T (i_desc it))) (i_vals it)) (t_items t).
