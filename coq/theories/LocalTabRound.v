(* LocalTabRound.v — the stored octets under the reference encoder / decoder of Fm94.v, and the whole round trip
   store -> octets -> Fm94.dec_plain -> extract; the pre-fix behaviour documented by a computed witness. *)
From Coq Require Import List ZArith NArith Arith Lia Bool ZifyBool.
From V Require Import Walk BitIO Fm94 Fm94Proof.
From V Require Import LocalTab LocalTabFmt LocalTabExtract LocalTabBytes LocalTabProof.
Import ListNotations.
Local Open Scope Z_scope.
Ltac Zify.zify_post_hook ::= Z.to_euclidean_division_equations.

(* ------------------------------------------------------------------ bits of octets *)
Lemma enc_bytes_app : forall a b, enc_bytes (a ++ b) = enc_bytes a ++ enc_bytes b.
Proof. induction a as [|c t IH]; intro b; cbn [app enc_bytes]; [reflexivity|]. rewrite IH, app_assoc. reflexivity. Qed.

Lemma enc_n_app : forall a b v, enc_n (a + b) v = enc_n a (v / 2 ^ N.of_nat b)%N ++ enc_n b v.
Proof.
  induction a as [|a IH]; intros b v; [reflexivity|].
  cbn [Nat.add enc_n app]. rewrite IH. f_equal.
  rewrite N.div_pow2_bits. f_equal. lia.
Qed.

Lemma enc_n_8_byte v : enc_n 8 (v mod 256)%N = enc_n 8 v.
Proof. exact (enc_n_mod 8 8 v (le_n 8)). Qed.

Lemma enc_n_16_bytes v : enc_n 16 v = enc_n 8 ((v / 256) mod 256)%N ++ enc_n 8 (v mod 256)%N.
Proof.
  change 16%nat with (8 + 8)%nat. rewrite enc_n_app. change (2 ^ N.of_nat 8)%N with 256%N.
  rewrite !enc_n_8_byte. reflexivity.
Qed.

(* ------------------------------------------------------------------ one field *)
Definition field_fits (p:sfield) : Prop :=
  match snd p with
  | VStr s => is_sdesc (fst p) = true /\ Z.of_nat (length s) * 8 = f_width (fld_of (fst p)) /\ Forall (fun c => (c < 256)%N) s
  | VRaw n => (fst p = 31001 /\ (n < 256)%N) \/ (fst p = 31002 /\ (n < 65536)%N)
  end.

Lemma forallb_lt256 s : Forall (fun c => (c < 256)%N) s -> forallb (fun c => (c <? 256)%N) s = true.
Proof. induction 1 as [|c t Hc Ht IH]; cbn [forallb]; [reflexivity|]. rewrite IH. lia. Qed.

Lemma enc_field p : field_fits p -> enc_elem (fld_of (fst p)) (dat p) = Ok (enc_bytes (field_bytes p)).
Proof.
  destruct p as [d v]. unfold field_fits, dat, field_bytes. cbn [fst snd]. destruct v as [n|s].
  - intros [[-> Hn] | [-> Hn]].
    + vm_compute fld_of. unfold enc_elem. cbn [wf_field f_width f_kind f_afw is_str]. cbn [Z.ltb Z.leb Z.compare Pos.compare Pos.compare_cont andb].
      unfold enc_af, enc_val. cbn [f_afw f_width f_kind d_af d_val is_str negb andb bind Z.ltb Z.compare N.eqb].
      change (Z.to_N 8) with 8%N. change (2 ^ 8)%N with 256%N. replace (n <? 256)%N with true by lia. cbn [bind app].
      change (Z.to_nat 8) with 8%nat. change (noct 31001) with 1%nat. cbn [be_bytes enc_bytes N.of_nat].
      change (256 ^ 0)%N with 1%N. rewrite N.div_1_r, enc_n_8_byte, app_nil_r. reflexivity.
    + vm_compute fld_of. unfold enc_elem. cbn [wf_field f_width f_kind f_afw is_str]. cbn [Z.ltb Z.leb Z.compare Pos.compare Pos.compare_cont andb].
      unfold enc_af, enc_val. cbn [f_afw f_width f_kind d_af d_val is_str negb andb bind Z.ltb Z.compare N.eqb].
      change (Z.to_N 16) with 16%N. change (2 ^ 16)%N with 65536%N. replace (n <? 65536)%N with true by lia. cbn [bind app].
      change (Z.to_nat 16) with 16%nat. change (noct 31002) with 2%nat. cbn [be_bytes enc_bytes N.of_nat].
      change (256 ^ 0)%N with 1%N. change (256 ^ 1)%N with 256%N. rewrite N.div_1_r, enc_n_16_bytes, app_nil_r. reflexivity.
  - intros (Hd & Hl & Hc).
    destruct (sdesc_props d Hd) as (_ & _ & _ & K & A & W & _ & _).
    unfold enc_elem. rewrite W. unfold enc_af, enc_val. rewrite A, K. cbn [Z.ltb Z.compare d_af d_val N.eqb bind is_str andb].
    rewrite Hl, Z.eqb_refl.
    rewrite (forallb_lt256 s Hc). cbn [bind app]. reflexivity.
Qed.

Lemma field_desc p : field_fits p -> f_desc (fld_of (fst p)) = fst p.
Proof.
  destruct p as [d v]. unfold field_fits. cbn [fst snd]. destruct v as [n|s].
  - intros [[-> _] | [-> _]]; reflexivity.
  - intros (Hd & _). apply (sdesc_props d Hd).
Qed.

Lemma field_bytes_nonempty p : field_fits p -> (1 <= length (field_bytes p))%nat.
Proof.
  destruct p as [d v]. unfold field_fits, field_bytes. cbn [fst snd]. destruct v as [n|s].
  - intros [[-> _] | [-> _]]; [change (noct 31001) with 1%nat|change (noct 31002) with 2%nat]; cbn [be_bytes length]; lia.
  - intros (Hd & Hl & _). destruct (sdesc_props d Hd) as (_ & _ & _ & _ & _ & W & _ & _).
    destruct (wf_spec _ W) as (P & _). lia.
Qed.

Definition cat_fields (fl:list (field * datum)) : result bits := concat_r (map (fun p => enc_elem (fst p) (snd p)) fl).

Lemma cat_store : forall fl, Forall field_fits fl -> cat_fields (map lay fl) = Ok (enc_bytes (fields_bytes fl)).
Proof.
  unfold cat_fields. induction fl as [|p t IH]; intro H; [reflexivity|].
  inversion H as [|? ? Hp Ht]; subst. cbn [map concat_r]. change (fst (lay p)) with (fld_of (fst p)). change (snd (lay p)) with (dat p).
  rewrite (enc_field p Hp). cbn [bind]. rewrite (IH Ht). cbn [bind].
  unfold fields_bytes. cbn [flat_map]. rewrite enc_bytes_app. reflexivity.
Qed.

Lemma lay_descs : forall fl, Forall field_fits fl ->
  map (fun p : field * datum => (f_desc (fst p), d_val (snd p))) (map lay fl) = fl.
Proof.
  induction fl as [|p t IH]; intro H; [reflexivity|].
  inversion H as [|? ? Hp Ht]; subst. cbn [map]. rewrite (IH Ht). unfold lay, dat. cbn [fst snd d_val].
  rewrite (field_desc p Hp). destruct p. reflexivity.
Qed.

Lemma fields_bytes_length : forall fl, Forall field_fits fl -> (length fl <= length (fields_bytes fl))%nat.
Proof.
  unfold fields_bytes. induction fl as [|p t IH]; intro H; [cbn; lia|].
  inversion H as [|? ? Hp Ht]; subst. cbn [flat_map length]. rewrite app_length.
  pose proof (field_bytes_nonempty p Hp). specialize (IH Ht). lia.
Qed.

(* ------------------------------------------------------------------ every field store writes fits its descriptor *)
Lemma text_lt256 s : text s -> Forall (fun c => (c < 256)%N) s.
Proof. apply Forall_impl. unfold printable. intros. lia. Qed.

Lemma fits_str d s w : is_sdesc d = true -> f_width (fld_of d) = 8 * Z.of_nat w -> length s = w -> text s ->
  field_fits (d, VStr s).
Proof. intros Hd Hw Hl Ht. unfold field_fits. cbn [fst snd]. repeat split; [exact Hd|lia|apply text_lt256; exact Ht]. Qed.

Lemma fits_fxy d : 0 <= d < 1000000 -> Forall field_fits (fxy_fields d).
Proof.
  intro H. unfold fxy_fields.
  assert (HF : 0 <= dF d < 10 ^ Z.of_nat 1) by (unfold dF; change (10 ^ Z.of_nat 1) with 10; lia).
  assert (HX : 0 <= dX d < 10 ^ Z.of_nat 2) by (unfold dX; change (10 ^ Z.of_nat 2) with 100; lia).
  assert (HY : 0 <= dY d < 10 ^ Z.of_nat 3) by (unfold dY; change (10 ^ Z.of_nat 3) with 1000; lia).
  apply Forall_cons; [apply (fits_str 10 _ 1); [reflexivity|reflexivity|apply (put_fmt_prec 0 _ HF)|apply text_digits, (put_fmt_prec_chars 0 _ HF)]|].
  apply Forall_cons; [apply (fits_str 11 _ 2); [reflexivity|reflexivity|apply (put_fmt_prec 1 _ HX)|apply text_digits, (put_fmt_prec_chars 1 _ HX)]|].
  apply Forall_cons; [apply (fits_str 12 _ 3); [reflexivity|reflexivity|apply (put_fmt_prec 2 _ HY)|apply text_digits, (put_fmt_prec_chars 2 _ HY)]|].
  apply Forall_nil.
Qed.

Lemma text_sign z : text [sign_char z].
Proof. constructor; [|constructor]. unfold sign_char, printable. destruct (0 <=? z); lia. Qed.

Lemma fits_b e : wf_b e -> Forall field_fits (b_fields e).
Proof.
  intros (Hd & Hn & Hnl & Hnt & Hu & Hul & Hut & Hs & Hr & Hw & Hk).
  unfold b_fields. apply Forall_app. split; [apply fits_fxy; exact Hd|].
  assert (HS : 0 <= Z.abs (lb_scale e) < 10 ^ Z.of_nat 3) by (change (10 ^ Z.of_nat 3) with 1000; lia).
  assert (HR : 0 <= Z.abs (lb_ref e) < 10 ^ Z.of_nat 10) by (change (10 ^ Z.of_nat 10) with 10000000000; lia).
  assert (HW : 0 <= lb_width e < 10 ^ Z.of_nat 3) by (change (10 ^ Z.of_nat 3) with 1000; lia).
  change (noct 13) with 32%nat. change (noct 14) with 32%nat. change (noct 15) with 24%nat.
  unfold split_lines. cbn [fst snd].
  apply Forall_cons; [apply (fits_str 13 _ 32); [reflexivity|reflexivity|apply fill_line_length|apply text_fill_line; exact Hn]|].
  apply Forall_cons; [apply (fits_str 14 _ 32); [reflexivity|reflexivity|apply fill_line_length|apply text_fill_line, text_skipn; exact Hn]|].
  apply Forall_cons; [apply (fits_str 15 _ 24); [reflexivity|reflexivity|apply fill_line_length|apply text_fill_line; exact Hu]|].
  apply Forall_cons; [apply (fits_str 16 _ 1); [reflexivity|reflexivity|reflexivity|apply text_sign]|].
  apply Forall_cons; [apply (fits_str 17 _ 3); [reflexivity|reflexivity|apply (put_fmt_width 2 _ HS)|apply text_blank_or_digit, (put_fmt_width_chars 2 _ HS)]|].
  apply Forall_cons; [apply (fits_str 18 _ 1); [reflexivity|reflexivity|reflexivity|apply text_sign]|].
  apply Forall_cons; [apply (fits_str 19 _ 10); [reflexivity|reflexivity|apply (put_fmt_width 9 _ HR)|apply text_blank_or_digit, (put_fmt_width_chars 9 _ HR)]|].
  apply Forall_cons; [apply (fits_str 20 _ 3); [reflexivity|reflexivity|apply (put_fmt_width 2 _ HW)|apply text_blank_or_digit, (put_fmt_width_chars 2 _ HW)]|].
  apply Forall_nil.
Qed.

Lemma fits_f30 d : 0 <= d < 1000000 -> field_fits (f30 d).
Proof.
  intro H. assert (H6 : 0 <= d < 10 ^ Z.of_nat 6) by (change (10 ^ Z.of_nat 6) with 1000000; lia).
  unfold f30. change (noct 30) with 6%nat.
  apply (fits_str 30 _ 6); [reflexivity|reflexivity|apply fill_line_length|].
  apply text_fill_line, text_digits, (put_fmt_prec_chars 5 _ H6).
Qed.

Lemma fits_d e : wf_d e -> Forall field_fits (d_fields e).
Proof.
  intros (Hd & Hl & Hs). unfold d_fields. apply Forall_app. split; [apply fits_fxy; exact Hd|].
  apply Forall_cons.
  - unfold field_fits. cbn [fst snd]. left. split; [reflexivity|lia].
  - change (map (fun d => (30, VStr (fill_line (noct 30) (put_fmt 6 (fmt_prec 6 d))))) (ld_seq e)) with (map f30 (ld_seq e)).
    clear Hl. induction Hs as [|d t Hd1 Ht IH]; cbn [map]; [apply Forall_nil|apply Forall_cons; [apply fits_f30; exact Hd1|exact IH]].
Qed.

Lemma fits_flat {A} (f:A -> list sfield) (P:A -> Prop) : (forall a, P a -> Forall field_fits (f a)) ->
  forall l, Forall P l -> Forall field_fits (flat_map f l).
Proof.
  intros Hf l. induction 1 as [|a t Ha Ht IH]; cbn [flat_map]; [apply Forall_nil|].
  apply Forall_app. split; [apply Hf; exact Ha|exact IH].
Qed.

Theorem store_fields_fit T : wf_t T -> Forall field_fits (store_fields T).
Proof.
  intros (Hc & Ht & Hl & Hb & HB & Hd & HD). unfold store_fields.
  replace (0 <? length (lt_B T))%nat with true by lia.
  apply Forall_app. split.
  - change (noct 2) with 32%nat. change (noct 3) with 32%nat. unfold split_lines. cbn [fst snd].
    assert (HC : 0 <= Z.abs (lt_cat T) mod 256 < 10 ^ Z.of_nat 3) by (change (10 ^ Z.of_nat 3) with 1000; lia).
    apply Forall_cons; [unfold field_fits; cbn [fst snd]; left; split; [reflexivity|lia]|].
    apply Forall_cons; [apply (fits_str 1 _ 3); [reflexivity|reflexivity|apply (put_fmt_prec 2 _ HC)|apply text_digits, (put_fmt_prec_chars 2 _ HC)]|].
    apply Forall_cons; [apply (fits_str 2 _ 32); [reflexivity|reflexivity|apply fill_line_length|apply text_fill_line; exact Ht]|].
    apply Forall_cons; [apply (fits_str 3 _ 32); [reflexivity|reflexivity|apply fill_line_length|apply text_fill_line, text_skipn; exact Ht]|].
    apply Forall_cons.
    + unfold field_fits, count_desc. cbn [fst snd].
      destruct (length (lt_B T) <? 256)%nat eqn:E; [left|right]; (split; [reflexivity|lia]).
    + apply (fits_flat b_fields wf_b fits_b). exact HB.
  - destruct (0 <? length (lt_D T))%nat; [|apply Forall_nil].
    apply (fits_flat d_fields wf_d fits_d). exact HD.
Qed.

(* ------------------------------------------------------------------ enough fuel for the decoder *)
Definition dsum (es:list ld_entry) : nat := fold_right (fun e a => length (ld_seq e) + a)%nat 0%nat es.
Lemma d_steps_sum es : d_steps es = (1 + 6 * length es + dsum es)%nat.
Proof. unfold d_steps, dsum. induction es as [|e t IH]; cbn [fold_right length]; [reflexivity|]. rewrite IH. lia. Qed.
Lemma d_fields_length es : length (flat_map d_fields es) = (4 * length es + dsum es)%nat.
Proof.
  unfold dsum. induction es as [|e t IH]; cbn [flat_map fold_right length]; [reflexivity|].
  rewrite app_length, IH. unfold d_fields, fxy_fields. cbn [app length]. rewrite map_length. lia.
Qed.
Lemma b_fields_length es : length (flat_map b_fields es) = (11 * length es)%nat.
Proof.
  induction es as [|e t IH]; cbn [flat_map length]; [reflexivity|].
  rewrite app_length, IH. unfold b_fields, fxy_fields. cbn [app length]. lia.
Qed.

Lemma need_le_fuel T : wf_t T -> (need T <= dec_fuel (fields_bytes (store_fields T)))%nat.
Proof.
  intro W. pose proof (fields_bytes_length _ (store_fields_fit T W)) as L.
  destruct W as (Hc & Ht & Hl & Hb & HB & Hd & HD).
  unfold dec_fuel, need. rewrite d_steps_sum.
  assert (LF : (5 + 11 * length (lt_B T) + (if (0 <? length (lt_D T))%nat then 4 * length (lt_D T) + dsum (lt_D T) else 0) = length (store_fields T))%nat).
  { unfold store_fields. replace (0 <? length (lt_B T))%nat with true by lia.
    rewrite app_length. cbn [length]. rewrite b_fields_length.
    destruct (0 <? length (lt_D T))%nat; [rewrite d_fields_length|cbn [length]]; lia. }
  destruct (0 <? length (lt_D T))%nat eqn:E.
  - lia.
  - assert (length (lt_D T) = 0)%nat by lia. destruct (lt_D T); [cbn [dsum fold_right length] in *|cbn in *; lia]. lia.
Qed.

(* ------------------------------------------------------------------ the reference encoder produces the stored octets *)
Lemma cat_nil_inv b : cat_fields [] = Ok b -> b = [].
Proof. unfold cat_fields. cbn [map concat_r]. intro H. inversion H. reflexivity. Qed.
Lemma cat_cons_inv f v fl b : cat_fields ((f, v) :: fl) = Ok b ->
  exists b1 b2, enc_elem f v = Ok b1 /\ cat_fields fl = Ok b2 /\ b = b1 ++ b2.
Proof.
  unfold cat_fields. cbn [map concat_r fst snd]. intro H.
  destruct (enc_elem f v) as [b1|e]; [|discriminate]. cbn [bind] in H.
  destruct (concat_r _) as [b2|e]; [|discriminate]. cbn [bind] in H. inversion H; subst.
  exists b1, b2. repeat split.
Qed.

Lemma wl_mono ed f1 f2 st ds s r : walk_list T0 ed f1 st ds s = Ok r -> (f1 <= f2)%nat -> walk_list T0 ed f2 st ds s = Ok r.
Proof. unfold walk_list. intros H LE. eapply walk_fuel_mono; eassumption. Qed.

Lemma walk_list_at_fuel ed T fuel : wf_t T -> (need T <= fuel)%nat ->
  walk_list T0 ed fuel op0 (store_s3 T) (map dat (store_fields T)) = Ok (op0, [], map lay (store_fields T)).
Proof. intros W LE. exact (wl_mono ed _ _ _ _ _ _ (layout_store ed T W) LE). Qed.

Theorem walk_enc_store ed T fuel : wf_t T -> (need T <= fuel)%nat ->
  walk_enc1 T0 ed fuel op0 (store_s3 T) (map dat (store_fields T)) = Ok (op0, [], enc_bytes (fields_bytes (store_fields T))).
Proof.
  intros W LE. pose proof (walk_list_at_fuel ed T fuel W LE) as H.
  unfold walk_enc1.
  eapply (walk_fields_enc opst field datum (lookupD T0) (mk_field T0) (resolve ed) op_field post is_factor count_of enc_elem
            cat_fields cat_nil_inv cat_cons_inv).
  - exact H.
  - apply cat_store, store_fields_fit. exact W.
Qed.

(* store_is_legal: the hand-written data section is what the FM 94 encoder produces for the hand-written Section 3 *)
Theorem store_is_legal ed T fuel : wf_t T -> (need T <= fuel)%nat ->
  enc_plain T0 ed fuel (store_s3 T) [map dat (store_fields T)] = Ok (bytes_to_bits (fields_bytes (store_fields T))).
Proof.
  intros W LE. cbn [enc_plain]. rewrite (walk_enc_store ed T fuel W LE). cbn [bind]. rewrite app_nil_r. reflexivity.
Qed.

Theorem decode_store ed T : wf_t T ->
  decode_elements ed (store_s3 T) (fields_bytes (store_fields T)) = Some (store_fields T).
Proof.
  intro W. unfold decode_elements.
  set (bytes := fields_bytes (store_fields T)). set (fuel := dec_fuel bytes).
  assert (LE : (need T <= fuel)%nat) by (apply need_le_fuel; exact W).
  pose proof (plain_roundtrip T0 ed fuel (store_s3 T) [map dat (store_fields T)] _ [] (store_is_legal ed T fuel W LE)) as D.
  rewrite app_nil_r in D. cbn [length] in D. fold bytes in D. rewrite D.
  unfold layout. change (walk_list T0 ed fuel op0 (store_s3 T) (map dat (store_fields T))) with
    (walk_list T0 ed fuel op0 (store_s3 T) (map dat (store_fields T))).
  rewrite (walk_list_at_fuel ed T fuel W LE). cbn [bind].
  rewrite lay_descs by (apply store_fields_fit; exact W). reflexivity.
Qed.

Theorem roundtrip_store junk ed T : wf_t T ->
  roundtrip junk ed T = Some (mkLT (lt_cat T) (lt_cdesc T) (map (set_aux junk) (lt_B T)) (lt_D T)).
Proof.
  intro W. unfold roundtrip, store.
  pose proof W as (Hc & Ht & Hl & Hb & HB & Hd & HD).
  replace (length (lt_B T) =? 0)%nat with false by lia. cbn [andb].
  rewrite (decode_store ed T W), (extract_store_fields junk T W). reflexivity.
Qed.

Theorem roundtrip_id ed T : wf_t T -> Forall (fun e => lb_aux e = (0, 0)) (lt_B T) -> roundtrip (0, 0) ed T = Some T.
Proof.
  intros W A. rewrite (roundtrip_store (0, 0) ed T W), set_aux_id by exact A. destruct T. reflexivity.
Qed.

(* ------------------------------------------------------------------ the defect fixed by 8fe08d3, as a computed witness *)
(* 0 48 002 "INTEGER" NUMERIC scale 0 reference 5 width 20 (the element of proposed_fixes/C20_extract_uninit.md) *)
Definition wit_T : ltables :=
  mkLT 11 (repeat 32%N 64) [mkLB 48002 [73; 78; 84; 69; 71; 69; 82]%N [78; 85; 77; 69; 82; 73; 67]%N 0 5 20 UNum (0, 0)] [].

Lemma wit_wf : wf_t wit_T.
Proof.
  unfold wf_t, wit_T. cbn [lt_cat lt_cdesc lt_B lt_D].
  split; [lia|]. split; [apply text_blanks|]. split; [reflexivity|]. split; [cbn; lia|].
  split.
  - apply Forall_cons; [|apply Forall_nil]. unfold wf_b, text, printable.
    cbn [lb_desc lb_name lb_unit lb_scale lb_ref lb_width lb_kind length].
    repeat split; try lia; try reflexivity; repeat (apply Forall_cons; [lia|]); apply Forall_nil.
  - split; [cbn; lia|apply Forall_nil].
Qed.

(* with stack garbage (here 0xA5, what the harness scrubs the stack with) in the two never-assigned fields, the entry that
   comes back makes bufr_encoding_to_valtype choose a different C type for the element's values (double instead of int) *)
Theorem extract_valtype_refuted :
  exists junk ed T T', wf_t T /\ Forall (fun e => lb_aux e = (0, 0)) (lt_B T) /\
    roundtrip junk ed T = Some T' /\ map entry_valtype (lt_B T') <> map entry_valtype (lt_B T).
Proof.
  exists (165, 165), 4, wit_T.
  eexists. split; [exact wit_wf|]. split; [apply Forall_cons; [reflexivity|apply Forall_nil]|].
  split; [vm_compute; reflexivity|]. vm_compute. discriminate.
Qed.

(* once the fields are initialised the value types are those of the original entries *)
Theorem extract_valtype_same ed T T' : wf_t T -> Forall (fun e => lb_aux e = (0, 0)) (lt_B T) ->
  roundtrip (0, 0) ed T = Some T' -> map entry_valtype (lt_B T') = map entry_valtype (lt_B T).
Proof. intros W A H. rewrite (roundtrip_id ed T W A) in H. inversion H. reflexivity. Qed.
