(* ScalFull.v — C08: general correctness of the library's branchy float encoder bufr_cvt_dval_to_i64 (mirror
   ScalImpl.cvt_dval_to_i64, variant fx_neg = true: the code of /repo since 0ee245d), by error analysis of every branch. *)
From Coq Require Import ZArith Reals Bool Lia Lra Psatz.
From Flocq Require Import Core BinarySingleNaN Relative.
From V Require Import ScalSpec ScalSpecProof ScalImpl ScalImplProof.
Open Scope R_scope.

(* ------------------------------------------------------------------ round to nearest even on binary64, as a real function *)
Notation RN := (round radix2 fexp64 ZnearestE).
Definition u53 : R := / IZR (2 ^ 53).
Definition eta64 : R := / IZR (2 ^ 1075).

Lemma u53_pos : 0 < u53.
Proof. unfold u53. apply Rinv_0_lt_compat. apply IZR_lt. reflexivity. Qed.

Lemma eta64_pos : 0 < eta64.
Proof. unfold eta64. apply Rinv_0_lt_compat. apply IZR_lt. reflexivity. Qed.

Lemma RN_err x : Rabs (RN x - x) <= u53 * Rabs x + eta64.
Proof.
  destruct (error_N_FLT radix2 (-1074) 53 eq_refl (fun t => negb (Z.even t)) x) as (eps & et & He & Ht & _ & E).
  change (FLT_exp (-1074) 53) with fexp64 in E. rewrite E.
  replace (x * (1 + eps) + et - x) with (x * eps + et) by ring.
  eapply Rle_trans; [apply Rabs_triang|].
  rewrite Rabs_mult.
  assert (He' : Rabs eps <= u53).
  { eapply Rle_trans; [exact He|]. unfold u53. assert (B : bpow radix2 (- (53) + 1) = / IZR (2 ^ 52)) by reflexivity. rewrite B.
    apply Req_le. change (2 ^ 53)%Z with (2 * 2 ^ 52)%Z. rewrite mult_IZR.
    assert (0 < IZR (2 ^ 52)) by (apply IZR_lt; reflexivity). set (c := IZR (2 ^ 52)) in *. field. lra. }
  assert (Ht' : Rabs et <= eta64).
  { eapply Rle_trans; [exact Ht|]. unfold eta64. assert (B : bpow radix2 (-1074) = / IZR (2 ^ 1074)) by reflexivity. rewrite B.
    apply Req_le. change (2 ^ 1075)%Z with (2 * 2 ^ 1074)%Z. rewrite mult_IZR.
    assert (0 < IZR (2 ^ 1074)) by (apply IZR_lt; reflexivity). set (c := IZR (2 ^ 1074)) in *. field. lra. }
  assert (0 <= Rabs x) by apply Rabs_pos.
  rewrite (Rmult_comm u53). apply Rplus_le_compat; [|exact Ht'].
  apply Rmult_le_compat_l; assumption.
Qed.

Lemma RN_mono x y : x <= y -> RN x <= RN y.
Proof. apply round_le; [apply (fexp_correct 53 1024 Hprec64) | apply valid_rnd_N]. Qed.

Lemma RN_0 : RN 0 = 0.
Proof. apply round_0. apply valid_rnd_N. Qed.

Lemma RN_int z : (Z.abs z < 2 ^ 53)%Z -> RN (IZR z) = IZR z.
Proof. intro H. apply round_generic; [apply valid_rnd_N | apply format_int; exact H]. Qed.

Lemma RN_ge_0 x : 0 <= x -> 0 <= RN x.
Proof. intro H. rewrite <- RN_0. apply RN_mono. exact H. Qed.

Lemma RN_le_0 x : x <= 0 -> RN x <= 0.
Proof. intro H. rewrite <- RN_0. apply RN_mono. exact H. Qed.

Definition big : R := bpow radix2 200.

Lemma RN_no_overflow x : Rabs x <= big -> Rabs (RN x) < bpow radix2 1024.
Proof.
  intro H. apply Rle_lt_trans with big.
  - apply abs_round_le_generic; [apply (fexp_correct 53 1024 Hprec64) | apply valid_rnd_N | | exact H].
    apply generic_format_bpow. unfold fexp64, SpecFloat.fexp, SpecFloat.emin. lia.
  - apply bpow_lt. lia.
Qed.

(* ------------------------------------------------------------------ the float operations of ScalImpl as real functions *)
Lemma dmul_spec a b :
  is_finite a = true -> is_finite b = true -> Rabs (B2R a * B2R b) <= big ->
  B2R (dmul a b) = RN (B2R a * B2R b) /\ is_finite (dmul a b) = true.
Proof.
  intros Fa Fb H. unfold dmul.
  pose proof (Bmult_correct 53 1024 Hprec64 Hmax64 mode_NE a b) as C.
  simpl round_mode in C. rewrite Rlt_bool_true in C by (apply RN_no_overflow; exact H).
  destruct C as (C1 & C2 & _). split; [exact C1|]. rewrite C2, Fa, Fb. reflexivity.
Qed.

Lemma ddiv_spec a b :
  is_finite a = true -> is_finite b = true -> B2R b <> 0 -> Rabs (B2R a / B2R b) <= big ->
  B2R (ddiv a b) = RN (B2R a / B2R b) /\ is_finite (ddiv a b) = true.
Proof.
  intros Fa Fb Nb H. unfold ddiv.
  pose proof (Bdiv_correct 53 1024 Hprec64 Hmax64 mode_NE a b Nb) as C.
  simpl round_mode in C. rewrite Rlt_bool_true in C by (apply RN_no_overflow; exact H).
  destruct C as (C1 & C2 & _). split; [exact C1|]. rewrite C2. exact Fa.
Qed.

Lemma dsub_spec a b :
  is_finite a = true -> is_finite b = true -> Rabs (B2R a - B2R b) <= big ->
  B2R (dsub a b) = RN (B2R a - B2R b) /\ is_finite (dsub a b) = true.
Proof.
  intros Fa Fb H. unfold dsub.
  pose proof (Bminus_correct 53 1024 Hprec64 Hmax64 mode_NE a b Fa Fb) as C.
  simpl round_mode in C. rewrite Rlt_bool_true in C by (apply RN_no_overflow; exact H).
  destruct C as (C1 & C2 & _). split; assumption.
Qed.

Lemma dadd_spec a b :
  is_finite a = true -> is_finite b = true -> Rabs (B2R a + B2R b) <= big ->
  B2R (dadd a b) = RN (B2R a + B2R b) /\ is_finite (dadd a b) = true.
Proof.
  intros Fa Fb H. unfold dadd.
  pose proof (Bplus_correct 53 1024 Hprec64 Hmax64 mode_NE a b Fa Fb) as C.
  simpl round_mode in C. rewrite Rlt_bool_true in C by (apply RN_no_overflow; exact H).
  destruct C as (C1 & C2 & _). split; assumption.
Qed.

Lemma dround_spec a :
  is_finite a = true -> B2R (dround a) = IZR (ZnearestA (B2R a)) /\ is_finite (dround a) = true.
Proof.
  intro Fa. unfold dround.
  destruct (Bnearbyint_correct 53 1024 Hmax64 mode_NA a) as (C1 & C2 & _).
  split; [|rewrite C2; exact Fa]. rewrite C1. simpl round_mode. apply round_FIX_IZR.
Qed.

Lemma Btrunc_spec (a : b64) : Btrunc a = Ztrunc (B2R a).
Proof. apply eq_IZR. rewrite Btrunc_correct by exact Hmax64. apply round_FIX_IZR. Qed.

Lemma cvt_si64_spec (a : b64) :
  is_finite a = true -> (- 2 ^ 63 <= Ztrunc (B2R a) < 2 ^ 63)%Z -> cvt_si64 a = Ztrunc (B2R a).
Proof.
  intros Fa H. unfold cvt_si64, trunc_opt. rewrite Btrunc_spec.
  set (t := Ztrunc (B2R a)) in *. clearbody t.
  destruct a; try discriminate Fa;
  (destruct (Z.leb_spec (- 2 ^ 63) t); [|lia]; destruct (Z.ltb_spec t (2 ^ 63)); [reflexivity|lia]).
Qed.

Lemma cvt_si32_spec (a : b64) :
  is_finite a = true -> (- 2 ^ 31 <= Ztrunc (B2R a) < 2 ^ 31)%Z -> cvt_si32 a = Ztrunc (B2R a).
Proof.
  intros Fa H. unfold cvt_si32, trunc_opt. rewrite Btrunc_spec.
  set (t := Ztrunc (B2R a)) in *. clearbody t.
  destruct a; try discriminate Fa;
  (destruct (Z.leb_spec (- 2 ^ 31) t); [|lia]; destruct (Z.ltb_spec t (2 ^ 31)); [reflexivity|lia]).
Qed.

Lemma two63_val : B2R two63 = IZR (2 ^ 63) /\ is_finite two63 = true.
Proof.
  unfold two63, d_of_Z.
  pose proof (binary_normalize_correct 53 1024 Hprec64 Hmax64 mode_NE (2 ^ 63) 0 false) as C.
  cbv zeta in C. unfold F2R in C; cbn [Fnum Fexp] in C. change (bpow radix2 0) with 1 in C. rewrite Rmult_1_r in C.
  rewrite round_generic in C; [|apply valid_rnd_round_mode | change (2 ^ 63)%Z with (1 * 2 ^ 63)%Z; apply format_scaled; [reflexivity|lia]].
  rewrite Rlt_bool_true in C. { destruct C as (C1 & C2 & _). split; assumption. }
  rewrite <- abs_IZR. change (bpow radix2 1024) with (IZR (2 ^ 1024)). apply IZR_lt. reflexivity.
Qed.

Lemma bcmp (a b : b64) : is_finite a = true -> is_finite b = true -> Bcompare a b = Some (Rcompare (B2R a) (B2R b)).
Proof. apply Bcompare_correct. Qed.

Lemma bgt_false (a b : b64) : is_finite a = true -> is_finite b = true -> bgt a b = false -> B2R a <= B2R b.
Proof.
  intros Fa Fb H. unfold bgt in H. rewrite (bcmp a b Fa Fb) in H.
  destruct (Rcompare_spec (B2R a) (B2R b)); try discriminate H; lra.
Qed.

Lemma bgt_true (a b : b64) : is_finite a = true -> is_finite b = true -> bgt a b = true -> B2R b < B2R a.
Proof.
  intros Fa Fb H. unfold bgt in H. rewrite (bcmp a b Fa Fb) in H.
  destruct (Rcompare_spec (B2R a) (B2R b)); try discriminate H; lra.
Qed.

Lemma blt_false (a b : b64) : is_finite a = true -> is_finite b = true -> blt a b = false -> B2R b <= B2R a.
Proof.
  intros Fa Fb H. unfold blt in H. rewrite (bcmp a b Fa Fb) in H.
  destruct (Rcompare_spec (B2R a) (B2R b)); try discriminate H; lra.
Qed.

Lemma blt_true (a b : b64) : is_finite a = true -> is_finite b = true -> blt a b = true -> B2R a < B2R b.
Proof.
  intros Fa Fb H. unfold blt in H. rewrite (bcmp a b Fa Fb) in H.
  destruct (Rcompare_spec (B2R a) (B2R b)); try discriminate H; lra.
Qed.

Lemma bge_false (a b : b64) : is_finite a = true -> is_finite b = true -> B2R a < B2R b -> bge a b = false.
Proof.
  intros Fa Fb H. unfold bge. rewrite (bcmp a b Fa Fb). rewrite Rcompare_Lt by exact H. reflexivity.
Qed.

Lemma not_missing_finite v : is_missing_double v = false -> is_finite v = true.
Proof. destruct v; try discriminate; reflexivity. Qed.

Lemma Ztrunc_nonneg x : 0 <= x -> Ztrunc x = Zfloor x /\ (0 <= Zfloor x)%Z.
Proof. intro H. split; [apply Ztrunc_floor; exact H | apply Zfloor_lub; exact H]. Qed.

Lemma cvt_u64_spec (a : b64) :
  is_finite a = true -> 0 <= B2R a < IZR (2 ^ 63) -> cvt_u64 a = Zfloor (B2R a).
Proof.
  intros Fa [H0 H1]. destruct two63_val as [E63 F63].
  unfold cvt_u64. rewrite (bge_false a two63 Fa F63) by (rewrite E63; exact H1).
  destruct (Ztrunc_nonneg _ H0) as [Et Ef].
  assert (Hlt : (Zfloor (B2R a) < 2 ^ 63)%Z).
  { apply lt_IZR. apply Rle_lt_trans with (B2R a); [apply Zfloor_lb|exact H1]. }
  rewrite cvt_si64_spec by (try exact Fa; rewrite Et; lia).
  rewrite Et. unfold wrap64. apply Z.mod_small. lia.
Qed.

Lemma near_int n y : Rabs (y - IZR n) < / 2 -> ZnearestA y = n.
Proof. apply Znearest_imp. Qed.

Lemma rndA_nonneg x : 0 <= x -> (0 <= ZnearestA x)%Z.
Proof. intro H. apply (rndA_le 0 x) in H. rewrite (rndA_IZR 0) in H. exact H. Qed.

Lemma le_big x : Rabs x <= IZR (2 ^ 150) -> Rabs x <= big.
Proof.
  intro H. eapply Rle_trans; [exact H|]. unfold big. change (bpow radix2 200) with (IZR (2 ^ 200)). apply IZR_le. vm_compute. discriminate.
Qed.

(* one rounding costs at most 2^-16 in absolute terms as long as the (scaled) magnitude stays below 2^36 *)
Definition e16 : R := / IZR (2 ^ 16).

Lemma RN_err_abs y : Rabs y <= IZR (2 ^ 36) -> Rabs (RN y - y) <= e16.
Proof.
  intro H. eapply Rle_trans; [apply RN_err|].
  assert (A : u53 * Rabs y <= u53 * IZR (2 ^ 36)) by (apply Rmult_le_compat_l; [apply Rlt_le, u53_pos|exact H]).
  assert (B : u53 * IZR (2 ^ 36) = / IZR (2 ^ 17)).
  { unfold u53. change (2 ^ 53)%Z with (2 ^ 36 * 2 ^ 17)%Z. rewrite mult_IZR.
    assert (0 < IZR (2 ^ 36)) by (apply IZR_lt; reflexivity). assert (0 < IZR (2 ^ 17)) by (apply IZR_lt; reflexivity).
    set (a := IZR (2 ^ 36)) in *. set (b := IZR (2 ^ 17)) in *. field. lra. }
  assert (C : eta64 <= / IZR (2 ^ 17)).
  { unfold eta64. apply Rinv_le_contravar; [apply IZR_lt; reflexivity | apply IZR_le; vm_compute; discriminate]. }
  assert (D : / IZR (2 ^ 17) + / IZR (2 ^ 17) = e16).
  { unfold e16. change (2 ^ 17)%Z with (2 * 2 ^ 16)%Z. rewrite mult_IZR.
    assert (0 < IZR (2 ^ 16)) by (apply IZR_lt; reflexivity). set (a := IZR (2 ^ 16)) in *. field. lra. }
  lra.
Qed.

(* the same after scaling by a positive factor P <= 2^74 (a power of ten 10^-22..10^22): |RN x * P - x * P| *)
Lemma RN_err_mul x P : 0 < P <= IZR (2 ^ 74) -> Rabs (x * P) <= IZR (2 ^ 36) -> Rabs (RN x * P - x * P) <= e16.
Proof.
  intros [P0 P2] H.
  replace (RN x * P - x * P) with ((RN x - x) * P) by ring.
  rewrite Rabs_mult, (Rabs_pos_eq P) by lra.
  assert (E := RN_err x).
  apply Rle_trans with ((u53 * Rabs x + eta64) * P); [apply Rmult_le_compat_r; lra|].
  rewrite Rabs_mult, (Rabs_pos_eq P) in H by lra.
  assert (A : u53 * (Rabs x * P) <= u53 * IZR (2 ^ 36)) by (apply Rmult_le_compat_l; [apply Rlt_le, u53_pos|exact H]).
  assert (B : u53 * IZR (2 ^ 36) = / IZR (2 ^ 17)).
  { unfold u53. change (2 ^ 53)%Z with (2 ^ 36 * 2 ^ 17)%Z. rewrite mult_IZR.
    assert (0 < IZR (2 ^ 36)) by (apply IZR_lt; reflexivity). assert (0 < IZR (2 ^ 17)) by (apply IZR_lt; reflexivity).
    set (a := IZR (2 ^ 36)) in *. set (b := IZR (2 ^ 17)) in *. field. lra. }
  assert (C : eta64 * P <= / IZR (2 ^ 17)).
  { apply Rle_trans with (eta64 * IZR (2 ^ 74)); [apply Rmult_le_compat_l; [apply Rlt_le, eta64_pos|exact P2]|].
    unfold eta64. change (2 ^ 1075)%Z with (2 ^ 74 * 2 ^ 1001)%Z. rewrite mult_IZR.
    assert (0 < IZR (2 ^ 74)) by (apply IZR_lt; reflexivity). assert (0 < IZR (2 ^ 1001)) by (apply IZR_lt; reflexivity).
    replace (/ (IZR (2 ^ 74) * IZR (2 ^ 1001)) * IZR (2 ^ 74)) with (/ IZR (2 ^ 1001)).
    - apply Rinv_le_contravar; [apply IZR_lt; reflexivity | apply IZR_le; vm_compute; discriminate].
    - set (a := IZR (2 ^ 74)) in *. set (b := IZR (2 ^ 1001)) in *. field. lra. }
  assert (D : / IZR (2 ^ 17) + / IZR (2 ^ 17) = e16).
  { unfold e16. change (2 ^ 17)%Z with (2 * 2 ^ 16)%Z. rewrite mult_IZR.
    assert (0 < IZR (2 ^ 16)) by (apply IZR_lt; reflexivity). set (a := IZR (2 ^ 16)) in *. field. lra. }
  nra.
Qed.

(* ... and after division by K (1 <= K): |RN x / K - x / K| *)
Lemma RN_err_div x K : 1 <= K -> Rabs (x / K) <= IZR (2 ^ 36) -> Rabs (RN x / K - x / K) <= e16.
Proof.
  intros K1 H.
  assert (K0 : 0 < / K) by (apply Rinv_0_lt_compat; lra).
  assert (K2 : / K <= 1) by (rewrite <- Rinv_1; apply Rinv_le_contravar; lra).
  unfold Rdiv in *. replace (RN x * / K - x * / K) with ((RN x - x) * / K) by ring.
  rewrite Rabs_mult, (Rabs_pos_eq (/ K)) by lra.
  assert (E := RN_err x).
  apply Rle_trans with ((u53 * Rabs x + eta64) * / K); [apply Rmult_le_compat_r; lra|].
  rewrite Rabs_mult, (Rabs_pos_eq (/ K)) in H by lra.
  assert (A : u53 * (Rabs x * / K) <= u53 * IZR (2 ^ 36)) by (apply Rmult_le_compat_l; [apply Rlt_le, u53_pos|exact H]).
  assert (B : u53 * IZR (2 ^ 36) = / IZR (2 ^ 17)).
  { unfold u53. change (2 ^ 53)%Z with (2 ^ 36 * 2 ^ 17)%Z. rewrite mult_IZR.
    assert (0 < IZR (2 ^ 36)) by (apply IZR_lt; reflexivity). assert (0 < IZR (2 ^ 17)) by (apply IZR_lt; reflexivity).
    set (a := IZR (2 ^ 36)) in *. set (b := IZR (2 ^ 17)) in *. field. lra. }
  assert (C : eta64 * / K <= / IZR (2 ^ 17)).
  { apply Rle_trans with (eta64 * 1); [apply Rmult_le_compat_l; [apply Rlt_le, eta64_pos|exact K2]|].
    rewrite Rmult_1_r. unfold eta64. apply Rinv_le_contravar; [apply IZR_lt; reflexivity | apply IZR_le; vm_compute; discriminate]. }
  assert (D : / IZR (2 ^ 17) + / IZR (2 ^ 17) = e16).
  { unfold e16. change (2 ^ 17)%Z with (2 * 2 ^ 16)%Z. rewrite mult_IZR.
    assert (0 < IZR (2 ^ 16)) by (apply IZR_lt; reflexivity). set (a := IZR (2 ^ 16)) in *. field. lra. }
  nra.
Qed.

Lemma e16_val : e16 = / 65536.
Proof. reflexivity. Qed.

Lemma Z2R_74 : IZR (2 ^ 74) = 18889465931478580854784.
Proof. reflexivity. Qed.

Definition tie_margin : R := / 2 - / 4096.

(* ------------------------------------------------------------------ the branches of the encoder for scale >= 0 *)
Section PosBranches.
Variable p : b64.            (* val_pow = pow(10, scale) *)
Variable P : Z.
Hypothesis Pval : B2R p = IZR P.
Hypothesis Pfin : is_finite p = true.
Hypothesis Prange : (1 <= P <= 10 ^ 22)%Z.
Variable v : b64.            (* the value to encode *)
Hypothesis vfin : is_finite v = true.
Variable n : Z.              (* the integer its scaled value is close to *)
Hypothesis near : Rabs (B2R v * IZR P - IZR n) <= tie_margin.
Hypothesis mag : Rabs (B2R v * IZR P) <= 17179869184.       (* 2^34 *)

Let Pr := IZR P.
Let X := B2R v.

Lemma Pr_bounds : 1 <= Pr <= IZR (2 ^ 74).
Proof.
  unfold Pr. split; [apply IZR_le; lia|]. apply IZR_le. apply Z.le_trans with (10 ^ 22)%Z; [lia|vm_compute; discriminate].
Qed.

Lemma n_bound : Rabs (IZR n) <= 17179869185.
Proof.
  replace (IZR n) with (B2R v * IZR P - (B2R v * IZR P - IZR n)) by ring.
  eapply Rle_trans; [apply Rabs_triang|]. rewrite Rabs_Ropp. unfold tie_margin in near. lra.
Qed.

Lemma X_bound : Rabs X <= 17179869184.
Proof.
  destruct Pr_bounds as [P1 _]. fold Pr X in mag. rewrite Rabs_mult, (Rabs_pos_eq Pr) in mag by lra.
  assert (0 <= Rabs X) by apply Rabs_pos. nra.
Qed.

(* fval <= 0:  sval = round(fval * val_pow) *)
Lemma branch_nonpos : cvt_si64 (dround (dmul v p)) = n.
Proof.
  assert (M1 : Rabs (B2R v * B2R p) <= big).
  { rewrite Pval. apply le_big. eapply Rle_trans; [exact mag|]. apply IZR_le. vm_compute. discriminate. }
  destruct (dmul_spec v p vfin Pfin M1) as [E1 F1]. rewrite Pval in E1.
  destruct (dround_spec _ F1) as [E2 F2].
  assert (G : Rabs (RN (B2R v * IZR P) - B2R v * IZR P) <= e16).
  { apply RN_err_abs. eapply Rle_trans; [exact mag|]. apply IZR_le. vm_compute. discriminate. }
  assert (N : ZnearestA (B2R (dmul v p)) = n).
  { apply near_int. rewrite E1.
    replace (RN (B2R v * IZR P) - IZR n) with ((RN (B2R v * IZR P) - B2R v * IZR P) + (B2R v * IZR P - IZR n)) by ring.
    eapply Rle_lt_trans; [apply Rabs_triang|]. unfold tie_margin in near. rewrite e16_val in G. lra. }
  rewrite cvt_si64_spec.
  - rewrite E2, N, Ztrunc_IZR. reflexivity.
  - exact F2.
  - rewrite E2, N, Ztrunc_IZR.
    assert (B := n_bound). apply Rabs_le_inv in B.
    split; [apply le_IZR | apply lt_IZR]; [change (IZR (- 2 ^ 63)) with (-9223372036854775808) | change (IZR (2 ^ 63)) with 9223372036854775808]; lra.
Qed.

(* fval > 0:  ival = (uint64)fval; rem = round((fval - ival) * val_pow) *)
Lemma branch_pos :
  0 < X ->
  (cvt_u64 v = Zfloor X) /\ (0 <= Zfloor X)%Z /\ IZR (Zfloor X) * Pr <= 17179869184 /\
  cvt_u64 (dround (dmul (dsub v (d_of_Z (Zfloor X))) p)) = (n - Zfloor X * P)%Z.
Proof.
  intro Xpos.
  destruct Pr_bounds as [P1 P2]. assert (XB := X_bound). apply Rabs_le_inv in XB.
  assert (MB : X * Pr <= 17179869184) by (apply Rabs_le_inv in mag; fold X Pr in mag; lra).
  set (iv := Zfloor X).
  assert (IV0 : (0 <= iv)%Z) by (apply Zfloor_lub; lra).
  assert (IVl : IZR iv <= X) by apply Zfloor_lb.
  assert (IVu : X < IZR iv + 1) by apply Zfloor_ub.
  assert (IV00 : 0 <= IZR iv) by (apply IZR_le; exact IV0).
  assert (IVs : (Z.abs iv < 2 ^ 53)%Z).
  { rewrite Z.abs_eq by exact IV0. apply lt_IZR. change (IZR (2 ^ 53)) with 9007199254740992. lra. }
  assert (C1 : cvt_u64 v = iv).
  { apply cvt_u64_spec; [exact vfin|]. fold X. change (IZR (2 ^ 63)) with 9223372036854775808. lra. }
  split; [exact C1|]. split; [exact IV0|].
  assert (IVP : IZR iv * Pr <= 17179869184).
  { apply Rle_trans with (X * Pr); [apply Rmult_le_compat_r; lra | lra]. }
  split; [exact IVP|].
  destruct (d_of_Z_exact iv IVs) as [Ei Fi].
  set (D := X - IZR iv).
  assert (D0 : 0 <= D < 1) by (unfold D; lra).
  assert (M3 : Rabs (B2R v - B2R (d_of_Z iv)) <= big).
  { rewrite Ei. fold X D. apply le_big. rewrite Rabs_pos_eq by lra. change (IZR (2 ^ 150)) with 1427247692705959881058285969449495136382746624. lra. }
  destruct (dsub_spec v (d_of_Z iv) vfin Fi M3) as [E3 F3]. rewrite Ei in E3. fold X D in E3.
  set (F := RN D) in *.
  assert (F0 : 0 <= F) by (apply RN_ge_0; lra).
  assert (DP : 0 <= D * Pr <= 17179869184).
  { split; [apply Rmult_le_pos; lra | apply Rle_trans with (X * Pr); [apply Rmult_le_compat_r; unfold D; lra | lra]]. }
  assert (S1 : Rabs (F * Pr - D * Pr) <= e16).
  { apply RN_err_mul; [split; [lra|assumption]|]. rewrite Rabs_pos_eq by lra. change (IZR (2 ^ 36)) with 68719476736. lra. }
  rewrite e16_val in S1. apply Rabs_le_inv in S1.
  assert (FP : 0 <= F * Pr <= 17179869185) by (split; [apply Rmult_le_pos; lra | lra]).
  assert (M4 : Rabs (B2R (dsub v (d_of_Z iv)) * B2R p) <= big).
  { rewrite E3, Pval. fold Pr. apply le_big. rewrite Rabs_pos_eq by lra. change (IZR (2 ^ 150)) with 1427247692705959881058285969449495136382746624. lra. }
  destruct (dmul_spec _ p F3 Pfin M4) as [E4 F4]. rewrite E3, Pval in E4. fold Pr in E4.
  set (G := RN (F * Pr)) in *.
  assert (G0 : 0 <= G) by (apply RN_ge_0; lra).
  assert (S2 : Rabs (G - F * Pr) <= e16).
  { apply RN_err_abs. rewrite Rabs_pos_eq by lra. change (IZR (2 ^ 36)) with 68719476736. lra. }
  rewrite e16_val in S2. apply Rabs_le_inv in S2.
  destruct (dround_spec _ F4) as [E5 F5]. rewrite E4 in E5.
  assert (NR := near). fold X Pr in NR. unfold tie_margin in NR. apply Rabs_le_inv in NR.
  assert (N : ZnearestA G = (n - iv * P)%Z).
  { apply near_int. rewrite minus_IZR, mult_IZR. fold Pr.
    replace (G - (IZR n - IZR iv * Pr)) with ((G - F * Pr) + (F * Pr - D * Pr) + (X * Pr - IZR n)) by (unfold D; ring).
    apply Rabs_lt. lra. }
  assert (NN : (0 <= n - iv * P)%Z).
  { rewrite <- N. apply rndA_nonneg. exact G0. }
  rewrite cvt_u64_spec.
  - rewrite E5, N, Zfloor_IZR. reflexivity.
  - exact F5.
  - rewrite E5, N. split; [apply IZR_le; exact NN|].
    rewrite minus_IZR, mult_IZR. fold Pr. assert (B := n_bound). apply Rabs_le_inv in B.
    change (IZR (2 ^ 63)) with 9223372036854775808. nra.
Qed.

(* delta < reference:  val1 = fval - reference/val_pow; ival = val1; rem = round((val1 - ival) * val_pow); ival = ival * val_pow + rem *)
Section DeltaBranch.
Variable c : b64.            (* reference / val_pow, as computed *)
Variable r : Z.
Hypothesis cfin : is_finite c = true.
Hypothesis cclose : Rabs (B2R c * Pr - IZR r) <= e16.
Hypothesis cle : B2R c <= X.
Hypothesis rrange : (- 2 ^ 31 <= r < 2 ^ 31)%Z.
Hypothesis rn : (r <= n)%Z.

Lemma branch_delta :
  let val1 := dsub v c in
  let iv := cvt_u64 val1 in
  let rem := cvt_u64 (dround (dmul (dsub val1 (d_of_Z iv)) p)) in
  cvt_u64 (dadd (dmul (d_of_Z iv) p) (d_of_Z rem)) = (n - r)%Z.
Proof.
  destruct Pr_bounds as [P1 P2]. assert (XB := X_bound). apply Rabs_le_inv in XB.
  assert (MB := mag). fold X Pr in MB. apply Rabs_le_inv in MB.
  assert (NR := near). fold X Pr in NR. unfold tie_margin in NR. apply Rabs_le_inv in NR.
  assert (CC := cclose). rewrite e16_val in CC. apply Rabs_le_inv in CC.
  assert (RB : -2147483648 <= IZR r <= 2147483648).
  { split; [change (-2147483648) with (IZR (- 2 ^ 31)) | change 2147483648 with (IZR (2 ^ 31))]; apply IZR_le; lia. }
  assert (NB := n_bound). apply Rabs_le_inv in NB.
  set (Cv := B2R c) in *.
  set (E := X - Cv).
  assert (E0 : 0 <= E) by (unfold E; lra).
  assert (EP : E * Pr = X * Pr - Cv * Pr) by (unfold E; ring).
  assert (EPb : 0 <= E * Pr <= 19327352833) by (split; [apply Rmult_le_pos; lra | lra]).
  assert (Eb : E <= 19327352833).
  { apply Rle_trans with (E * Pr); [|lra]. rewrite <- (Rmult_1_r E) at 1. apply Rmult_le_compat_l; lra. }
  assert (M1 : Rabs (B2R v - B2R c) <= big).
  { fold X Cv E. apply le_big. rewrite Rabs_pos_eq by lra. change (IZR (2 ^ 150)) with 1427247692705959881058285969449495136382746624. lra. }
  destruct (dsub_spec v c vfin cfin M1) as [E1 F1]. fold X Cv E in E1.
  set (val1 := dsub v c) in *. set (D1 := RN E) in *.
  assert (D10 : 0 <= D1) by (apply RN_ge_0; exact E0).
  assert (S0 : Rabs (D1 * Pr - E * Pr) <= e16).
  { apply RN_err_mul; [split; [lra|assumption]|]. rewrite Rabs_pos_eq by lra. change (IZR (2 ^ 36)) with 68719476736. lra. }
  rewrite e16_val in S0. apply Rabs_le_inv in S0.
  assert (D1P : 0 <= D1 * Pr <= 19327352834) by (split; [apply Rmult_le_pos; lra | lra]).
  assert (D1b : D1 <= 19327352834).
  { apply Rle_trans with (D1 * Pr); [|lra]. rewrite <- (Rmult_1_r D1) at 1. apply Rmult_le_compat_l; lra. }
  set (iv := Zfloor D1).
  assert (IV0 : (0 <= iv)%Z) by (apply Zfloor_lub; exact D10).
  assert (IVl : IZR iv <= D1) by apply Zfloor_lb.
  assert (IVu : D1 < IZR iv + 1) by apply Zfloor_ub.
  assert (IV00 : 0 <= IZR iv) by (apply IZR_le; exact IV0).
  assert (C1 : cvt_u64 val1 = iv).
  { unfold iv. rewrite <- E1. apply cvt_u64_spec; [exact F1|]. rewrite E1. change (IZR (2 ^ 63)) with 9223372036854775808. lra. }
  cbv zeta. rewrite C1.
  assert (IVs : (Z.abs iv < 2 ^ 53)%Z).
  { rewrite Z.abs_eq by exact IV0. apply lt_IZR. change (IZR (2 ^ 53)) with 9007199254740992. lra. }
  destruct (d_of_Z_exact iv IVs) as [Ei Fi].
  assert (IVP : 0 <= IZR iv * Pr <= 19327352834).
  { split; [apply Rmult_le_pos; lra|]. apply Rle_trans with (D1 * Pr); [apply Rmult_le_compat_r; lra | lra]. }
  set (D := D1 - IZR iv).
  assert (D0 : 0 <= D < 1) by (unfold D; lra).
  assert (DP : 0 <= D * Pr <= 19327352834).
  { split; [apply Rmult_le_pos; lra | apply Rle_trans with (D1 * Pr); [apply Rmult_le_compat_r; unfold D; lra | lra]]. }
  assert (M3 : Rabs (B2R val1 - B2R (d_of_Z iv)) <= big).
  { rewrite E1, Ei. fold D. apply le_big. rewrite Rabs_pos_eq by lra. change (IZR (2 ^ 150)) with 1427247692705959881058285969449495136382746624. lra. }
  destruct (dsub_spec val1 (d_of_Z iv) F1 Fi M3) as [E3 F3]. rewrite E1, Ei in E3. fold D in E3.
  set (F := RN D) in *.
  assert (F0 : 0 <= F) by (apply RN_ge_0; lra).
  assert (S1 : Rabs (F * Pr - D * Pr) <= e16).
  { apply RN_err_mul; [split; [lra|assumption]|]. rewrite Rabs_pos_eq by lra. change (IZR (2 ^ 36)) with 68719476736. lra. }
  rewrite e16_val in S1. apply Rabs_le_inv in S1.
  assert (FP : 0 <= F * Pr <= 19327352835) by (split; [apply Rmult_le_pos; lra | lra]).
  assert (M4 : Rabs (B2R (dsub val1 (d_of_Z iv)) * B2R p) <= big).
  { rewrite E3, Pval. fold Pr. apply le_big. rewrite Rabs_pos_eq by lra. change (IZR (2 ^ 150)) with 1427247692705959881058285969449495136382746624. lra. }
  destruct (dmul_spec _ p F3 Pfin M4) as [E4 F4]. rewrite E3, Pval in E4. fold Pr in E4.
  set (G := RN (F * Pr)) in *.
  assert (G0 : 0 <= G) by (apply RN_ge_0; lra).
  assert (S2 : Rabs (G - F * Pr) <= e16).
  { apply RN_err_abs. rewrite Rabs_pos_eq by lra. change (IZR (2 ^ 36)) with 68719476736. lra. }
  rewrite e16_val in S2. apply Rabs_le_inv in S2.
  destruct (dround_spec _ F4) as [E5 F5]. rewrite E4 in E5.
  assert (N : ZnearestA G = (n - r - iv * P)%Z).
  { apply near_int. rewrite !minus_IZR, mult_IZR. fold Pr.
    replace (G - (IZR n - IZR r - IZR iv * Pr))
      with ((G - F * Pr) + (F * Pr - D * Pr) + (D1 * Pr - E * Pr) - (Cv * Pr - IZR r) + (X * Pr - IZR n)) by (unfold D; rewrite EP; ring).
    apply Rabs_lt. lra. }
  assert (NN : (0 <= n - r - iv * P)%Z) by (rewrite <- N; apply rndA_nonneg; exact G0).
  assert (IVPz : (0 <= iv * P)%Z) by (apply Z.mul_nonneg_nonneg; lia).
  assert (NRb : (n - r < 2 ^ 36)%Z).
  { apply lt_IZR. rewrite minus_IZR. change (IZR (2 ^ 36)) with 68719476736. lra. }
  assert (C2 : cvt_u64 (dround (dmul (dsub val1 (d_of_Z iv)) p)) = (n - r - iv * P)%Z).
  { rewrite cvt_u64_spec.
    - rewrite E5, N, Zfloor_IZR. reflexivity.
    - exact F5.
    - rewrite E5, N. split; [apply IZR_le; exact NN|]. apply IZR_lt. lia. }
  rewrite C2.
  set (rem := (n - r - iv * P)%Z) in *.
  assert (Rs : (Z.abs rem < 2 ^ 53)%Z) by (rewrite Z.abs_eq by exact NN; unfold rem; lia).
  destruct (d_of_Z_exact rem Rs) as [Er Fr].
  assert (IPs : (Z.abs (iv * P) < 2 ^ 53)%Z) by (rewrite Z.abs_eq by exact IVPz; unfold rem in NN; lia).
  assert (M5 : Rabs (B2R (d_of_Z iv) * B2R p) <= big).
  { rewrite Ei, Pval. fold Pr. apply le_big. rewrite Rabs_pos_eq by lra. change (IZR (2 ^ 150)) with 1427247692705959881058285969449495136382746624. lra. }
  destruct (dmul_spec _ p Fi Pfin M5) as [E6 F6]. rewrite Ei, Pval, <- mult_IZR, RN_int in E6 by exact IPs.
  assert (SUM : (iv * P + rem = n - r)%Z) by (unfold rem; lia).
  assert (M6 : Rabs (B2R (dmul (d_of_Z iv) p) + B2R (d_of_Z rem)) <= big).
  { rewrite E6, Er, <- plus_IZR, SUM. apply le_big. rewrite <- abs_IZR. apply IZR_le. lia. }
  destruct (dadd_spec _ _ F6 Fr M6) as [E7 F7]. rewrite E6, Er, <- plus_IZR, SUM, RN_int in E7 by lia.
  rewrite cvt_u64_spec.
  - rewrite E7, Zfloor_IZR. reflexivity.
  - exact F7.
  - rewrite E7. split; [apply IZR_le; lia | apply IZR_lt; lia].
Qed.

End DeltaBranch.

End PosBranches.

(* ------------------------------------------------------------------ the branch of the encoder for scale < 0 (exact 10^-scale) *)
Section NegBranch.
Variable k : b64.            (* pow(10, -scale) *)
Variable K : Z.
Hypothesis Kval : B2R k = IZR K.
Hypothesis Kfin : is_finite k = true.
Hypothesis Krange : (1 <= K <= 10 ^ 22)%Z.
Variable v : b64.
Hypothesis vfin : is_finite v = true.
Variable n : Z.
Hypothesis near : Rabs (B2R v / IZR K - IZR n) <= tie_margin.
Hypothesis mag : Rabs (B2R v / IZR K) <= 17179869184.

Lemma branch_neg : cvt_si64 (dround (ddiv v k)) = n.
Proof.
  assert (K1 : 1 <= IZR K) by (apply IZR_le; lia).
  assert (M1 : Rabs (B2R v / B2R k) <= big).
  { rewrite Kval. apply le_big. eapply Rle_trans; [exact mag|]. apply IZR_le. vm_compute. discriminate. }
  assert (K0 : B2R k <> 0) by (rewrite Kval; lra).
  destruct (ddiv_spec v k vfin Kfin K0 M1) as [E1 F1]. rewrite Kval in E1.
  destruct (dround_spec _ F1) as [E2 F2].
  assert (G : Rabs (RN (B2R v / IZR K) - B2R v / IZR K) <= e16).
  { apply RN_err_abs. eapply Rle_trans; [exact mag|]. apply IZR_le. vm_compute. discriminate. }
  assert (N : ZnearestA (B2R (ddiv v k)) = n).
  { apply near_int. rewrite E1.
    replace (RN (B2R v / IZR K) - IZR n) with ((RN (B2R v / IZR K) - B2R v / IZR K) + (B2R v / IZR K - IZR n)) by ring.
    eapply Rle_lt_trans; [apply Rabs_triang|]. unfold tie_margin in near. rewrite e16_val in G. lra. }
  assert (NB : Rabs (IZR n) <= 17179869185).
  { replace (IZR n) with (B2R v / IZR K - (B2R v / IZR K - IZR n)) by ring.
    eapply Rle_trans; [apply Rabs_triang|]. rewrite Rabs_Ropp. unfold tie_margin in near. lra. }
  rewrite cvt_si64_spec.
  - rewrite E2, N, Ztrunc_IZR. reflexivity.
  - exact F2.
  - rewrite E2, N, Ztrunc_IZR. apply Rabs_le_inv in NB.
    split; [apply le_IZR | apply lt_IZR]; [change (IZR (- 2 ^ 63)) with (-9223372036854775808) | change (IZR (2 ^ 63)) with 9223372036854775808]; lra.
Qed.

End NegBranch.

(* ------------------------------------------------------------------ assembling the branches *)
Lemma wrap64_small z : (0 <= z < 2 ^ 64)%Z -> wrap64 z = z.
Proof. intro H. unfold wrap64. apply Z.mod_small. exact H. Qed.

Lemma wrap64_chain a b r m : wrap64 (wrap64 (wrap64 (a * wrap64 b) - r) + m) = wrap64 (a * b - r + m).
Proof.
  unfold wrap64. rewrite Zmult_mod_idemp_r, Zplus_mod_idemp_l.
  replace ((a * b) mod 2 ^ 64 - r + m)%Z with ((a * b) mod 2 ^ 64 + (- r + m))%Z by ring.
  rewrite Zplus_mod_idemp_l. f_equal. ring.
Qed.

Lemma B2R_dzero : B2R dzero = 0 /\ is_finite dzero = true.
Proof. split; reflexivity. Qed.

(* the range limits exactly as bufr_cvt_dval_to_i64 computes them (variant fx_neg = true) *)
Definition enc_fmin (pow10 : Z -> b64) (en : enc) : b64 :=
  if true && (e_scale en <? 0)%Z then dmul (d_of_Z (e_ref en)) (pow10 (- e_scale en)%Z)
  else ddiv (d_of_Z (e_ref en)) (pow10 (e_scale en)).
Definition enc_fmax (pow10 : Z -> b64) (en : enc) : b64 :=
  if true && (e_scale en <? 0)%Z
  then dmul (d_of_Z (sint64 (wrap64 (2 ^ e_nbits en - 1) - 1 + e_ref en))) (pow10 (- e_scale en)%Z)
  else ddiv (d_of_Z (sint64 (wrap64 (2 ^ e_nbits en - 1) - 1 + e_ref en))) (pow10 (e_scale en)).

Lemma pow_P k : (0 <= k <= 22)%Z -> (1 <= 10 ^ k <= 10 ^ 22)%Z.
Proof. intro H. split; [apply (Z.pow_le_mono_r 10 0 k); lia | apply Z.pow_le_mono_r; lia]. Qed.

Section Assemble.
Variable pow10 : Z -> b64.
Hypothesis pow10_ok : pow10_contract pow10.
Variable desc : Z.
Variable en : enc.
Let s := e_scale en.
Let r := e_ref en.
Let w := e_nbits en.
Hypothesis Hs : (-22 <= s <= 22)%Z.
Hypothesis Hw : (1 <= w <= 32)%Z.
Hypothesis Hr : (- 2 ^ 31 <= r < 2 ^ 31)%Z.

Lemma w_pow : (2 <= 2 ^ w <= 2 ^ 32)%Z.
Proof. split; [change 2%Z with (2 ^ 1)%Z at 1|]; apply Z.pow_le_mono_r; lia. Qed.

Lemma maxval_eq : wrap64 (2 ^ w - 1) = (2 ^ w - 1)%Z.
Proof. assert (W := w_pow). apply wrap64_small. change (2 ^ 64)%Z with (2 ^ 32 * 2 ^ 32)%Z. lia. Qed.

Lemma top_eq : sint64 (wrap64 (2 ^ w - 1) - 1 + r) = (2 ^ w - 2 + r)%Z.
Proof. assert (W := w_pow). rewrite maxval_eq, sint64_id; [lia|]. change (2 ^ 63)%Z with (2 ^ 31 * 2 ^ 32)%Z. lia. Qed.

Lemma missing_eq : missing_ivalue w = (2 ^ w - 1)%Z.
Proof. unfold missing_ivalue. destruct (Z.leb_spec w 0); [lia|]. destruct (Z.leb_spec 64 w); [lia|reflexivity]. Qed.

Lemma IZR_r_bounds : -2147483648 <= IZR r <= 2147483648.
Proof. split; [change (-2147483648) with (IZR (- 2 ^ 31)) | change 2147483648 with (IZR (2 ^ 31))]; apply IZR_le; lia. Qed.

Lemma IZR_top_bounds : -2147483648 <= IZR (2 ^ w - 2 + r) <= 6442450944.
Proof.
  assert (W := w_pow).
  split; [change (-2147483648) with (IZR (- 2 ^ 31)) | change 6442450944 with (IZR (2 ^ 32 + 2 ^ 31))]; apply IZR_le; lia.
Qed.


Variable v : b64.
Variable n : Z.
Hypothesis vnm : is_missing_double v = false.
Hypothesis Hgt : bgt v (enc_fmax pow10 en) = false.
Hypothesis Hlt : blt v (enc_fmin pow10 en) = false.
Hypothesis near : Rabs (B2R v * bpow radix10 s - IZR n) <= tie_margin.

Lemma encode_in_range_pos :
  (0 <= s)%Z ->
  cvt_dval_to_i64 pow10 true desc en v = (n - r)%Z /\ (0 <= n - r <= 2 ^ w - 2)%Z.
Proof.
  intro S0.
  assert (Hk : (0 <= s <= 22)%Z) by lia.
  destruct (pow10_ok s Hk) as [Pval Pfin].
  set (p := pow10 s) in *. set (P := (10 ^ s)%Z) in *.
  assert (Prange : (1 <= P <= 10 ^ 22)%Z) by (apply pow_P; exact Hk).
  assert (P1 : 1 <= IZR P) by (apply IZR_le; lia).
  assert (P2 : IZR P <= IZR (2 ^ 74)).
  { apply IZR_le. apply Z.le_trans with (10 ^ 22)%Z; [lia|vm_compute; discriminate]. }
  assert (Pb : bpow radix10 s = IZR P) by (apply p10_as_pow; exact S0).
  rewrite Pb in near.
  assert (vfin := not_missing_finite v vnm).
  assert (W := w_pow). assert (RB := IZR_r_bounds). assert (TB := IZR_top_bounds).
  set (X := B2R v) in *. set (Pr := IZR P) in *.
  assert (Pn0 : B2R p <> 0) by (rewrite Pval; fold Pr; lra).
  (* c = reference / val_pow *)
  assert (rs : (Z.abs r < 2 ^ 53)%Z) by lia.
  destruct (d_of_Z_exact r rs) as [Er Fr].
  assert (Mc : Rabs (B2R (d_of_Z r) / B2R p) <= big).
  { rewrite Er, Pval. fold Pr. apply le_big. unfold Rdiv. rewrite Rabs_mult, Rabs_inv, (Rabs_pos_eq Pr) by lra.
    apply Rle_trans with (Rabs (IZR r) * 1).
    - apply Rmult_le_compat_l; [apply Rabs_pos|]. rewrite <- Rinv_1. apply Rinv_le_contravar; lra.
    - rewrite Rmult_1_r. apply Rabs_le. change (IZR (2 ^ 150)) with 1427247692705959881058285969449495136382746624. lra. }
  destruct (ddiv_spec _ p Fr Pfin Pn0 Mc) as [Ec Fc]. rewrite Er, Pval in Ec. fold Pr in Ec.
  set (c := ddiv (d_of_Z r) p) in *.
  assert (cclose : Rabs (B2R c * Pr - IZR r) <= e16).
  { rewrite Ec. replace (IZR r) with (IZR r / Pr * Pr) at 2 by (field; lra).
    apply RN_err_mul; [split; [lra|assumption]|]. replace (IZR r / Pr * Pr) with (IZR r) by (field; lra).
    apply Rabs_le. change (IZR (2 ^ 36)) with 68719476736. lra. }
  (* fmax *)
  set (T := (2 ^ w - 2 + r)%Z) in *.
  assert (ts : (Z.abs T < 2 ^ 53)%Z) by (unfold T; lia).
  destruct (d_of_Z_exact T ts) as [Et Ft].
  assert (Mt : Rabs (B2R (d_of_Z T) / B2R p) <= big).
  { rewrite Et, Pval. fold Pr. apply le_big. unfold Rdiv. rewrite Rabs_mult, Rabs_inv, (Rabs_pos_eq Pr) by lra.
    apply Rle_trans with (Rabs (IZR T) * 1).
    - apply Rmult_le_compat_l; [apply Rabs_pos|]. rewrite <- Rinv_1. apply Rinv_le_contravar; lra.
    - rewrite Rmult_1_r. apply Rabs_le. change (IZR (2 ^ 150)) with 1427247692705959881058285969449495136382746624. lra. }
  destruct (ddiv_spec _ p Ft Pfin Pn0 Mt) as [Em Fm]. rewrite Et, Pval in Em. fold Pr in Em.
  assert (mclose : Rabs (B2R (ddiv (d_of_Z T) p) * Pr - IZR T) <= e16).
  { rewrite Em. replace (IZR T) with (IZR T / Pr * Pr) at 2 by (field; lra).
    apply RN_err_mul; [split; [lra|assumption]|]. replace (IZR T / Pr * Pr) with (IZR T) by (field; lra).
    apply Rabs_le. change (IZR (2 ^ 36)) with 68719476736. lra. }
  (* the range tests *)
  assert (SN : (s <? 0)%Z = false) by (apply Z.ltb_ge; exact S0).
  unfold enc_fmax in Hgt. unfold enc_fmin in Hlt. fold s r w in Hgt, Hlt. rewrite SN in Hgt, Hlt. cbn [andb] in Hgt, Hlt. fold p in Hgt, Hlt. fold c in Hlt.
  assert (Cle : B2R c <= X) by (apply (blt_false v c vfin Fc Hlt)).
  assert (Xle : X <= B2R (ddiv (d_of_Z T) p)).
  { unfold T. rewrite <- top_eq. apply (bgt_false v _ vfin); [|exact Hgt]. rewrite top_eq. exact Fm. }
  rewrite e16_val in cclose, mclose.
  assert (CC := cclose). apply Rabs_le_inv in CC. assert (MC := mclose). apply Rabs_le_inv in MC.
  assert (XP1 : B2R c * Pr <= X * Pr) by (apply Rmult_le_compat_r; lra).
  assert (XP2 : X * Pr <= B2R (ddiv (d_of_Z T) p) * Pr) by (apply Rmult_le_compat_r; lra).
  assert (mag : Rabs (X * Pr) <= 17179869184) by (apply Rabs_le; lra).
  assert (NR := near). unfold tie_margin in NR. apply Rabs_le_inv in NR.
  assert (rn : (r <= n)%Z).
  { apply Z.lt_succ_r. apply lt_IZR. rewrite succ_IZR. lra. }
  assert (nT : (n <= T)%Z).
  { apply Z.lt_succ_r. apply lt_IZR. rewrite succ_IZR. lra. }
  assert (RES : (0 <= n - r <= 2 ^ w - 2)%Z) by (unfold T in nT; lia).
  split; [|exact RES].
  rewrite <- e16_val in cclose.
  (* the code *)
  unfold cvt_dval_to_i64. fold s r w. cbv zeta.
  destruct (Z.ltb_spec 32 w) as [L|_]; [lia|].
  rewrite vnm, SN. cbn [andb]. fold p c. rewrite Hgt, Hlt.
  destruct (Z.leb_spec 0 s) as [_|L]; [|lia].
  rewrite maxval_eq.
  assert (FIN : forall z, z = (n - r)%Z -> (if (2 ^ w - 1 <=? z)%Z then missing_ivalue w else z) = (n - r)%Z).
  { intros z ->. destruct (Z.leb_spec (2 ^ w - 1) (n - r)); [lia|reflexivity]. }
  apply FIN.
  match goal with |- context [if (?d <? r)%Z then _ else _] => destruct (d <? r)%Z end.
  - (* delta < reference *)
    pose proof (branch_delta p P Pval Pfin Prange v vfin n near mag c r Fc cclose Cle Hr rn) as BD.
    cbv zeta in BD. exact BD.
  - destruct (bgt v dzero) eqn:Gz.
    + (* fval > 0 *)
      assert (Xpos : 0 < X) by (apply (bgt_true v dzero vfin (proj2 B2R_dzero) Gz)).
      destruct (branch_pos p P Pval Pfin Prange v vfin n near mag Xpos) as (C1 & IV0 & IVP & C2).
      fold X in C1, IV0, IVP, C2. rewrite C1, C2, wrap64_chain.
      set (iv := Zfloor X) in *.
      assert (IVPOW : (iv * cvt_si32 p = iv * P)%Z).
      { destruct (Z.leb_spec s 9) as [S9|S10].
        - f_equal. assert (P31 : (P < 2 ^ 31)%Z).
          { unfold P. apply Z.le_lt_trans with (10 ^ 9)%Z; [apply Z.pow_le_mono_r; lia | reflexivity]. }
          rewrite cvt_si32_spec; [rewrite Pval; unfold Pr; apply Ztrunc_IZR | exact Pfin | rewrite Pval; unfold Pr; rewrite Ztrunc_IZR; lia].
        - assert (P10 : (10 ^ 10 <= P)%Z) by (unfold P; apply Z.pow_le_mono_r; lia).
          apply IZR_le in P10. fold Pr in P10. change (IZR (10 ^ 10)) with 10000000000 in P10.
          assert (X1 : X < 1).
          { apply Rmult_lt_reg_r with Pr; [lra|]. lra. }
          assert (iv = 0%Z) by (unfold iv; apply Zfloor_imp; simpl; lra).
          subst iv. rewrite H. reflexivity. }
      rewrite IVPOW. replace (iv * P - r + (n - iv * P))%Z with (n - r)%Z by ring.
      apply wrap64_small. change (2 ^ 64)%Z with (2 ^ 32 * 2 ^ 32)%Z. lia.
    + (* fval <= 0 *)
      rewrite (branch_nonpos p P Pval Pfin v vfin n near mag).
      apply wrap64_small. change (2 ^ 64)%Z with (2 ^ 32 * 2 ^ 32)%Z. lia.
Qed.

Lemma encode_in_range_neg :
  (s < 0)%Z ->
  cvt_dval_to_i64 pow10 true desc en v = (n - r)%Z /\ (0 <= n - r <= 2 ^ w - 2)%Z.
Proof.
  intro S0.
  assert (Hk : (0 <= - s <= 22)%Z) by lia.
  destruct (pow10_ok (- s)%Z Hk) as [Kval Kfin].
  set (k := pow10 (- s)%Z) in *. set (K := (10 ^ (- s))%Z) in *.
  assert (Krange : (1 <= K <= 10 ^ 22)%Z) by (apply pow_P; exact Hk).
  assert (K1 : 1 <= IZR K) by (apply IZR_le; lia).
  assert (Kb : bpow radix10 s = / IZR K).
  { replace s with (- (- s))%Z at 1 by lia. apply p10_as_inv. lia. }
  rewrite Kb in near. fold (Rdiv (B2R v) (IZR K)) in near.
  assert (vfin := not_missing_finite v vnm).
  assert (W := w_pow). assert (RB := IZR_r_bounds). assert (TB := IZR_top_bounds).
  set (X := B2R v) in *. set (Kr := IZR K) in *.
  assert (Ki0 : 0 < / Kr) by (apply Rinv_0_lt_compat; lra).
  (* fmin = reference * 10^-scale *)
  assert (rs : (Z.abs r < 2 ^ 53)%Z) by lia.
  destruct (d_of_Z_exact r rs) as [Er Fr].
  assert (KB : Kr <= IZR (2 ^ 74)).
  { apply IZR_le. apply Z.le_trans with (10 ^ 22)%Z; [lia|vm_compute; discriminate]. }
  rewrite Z2R_74 in KB.
  assert (Mc : Rabs (B2R (d_of_Z r) * B2R k) <= big).
  { rewrite Er, Kval. fold Kr. apply le_big. rewrite Rabs_mult, (Rabs_pos_eq Kr) by lra.
    assert (A : Rabs (IZR r) <= 2147483648) by (apply Rabs_le; lra).
    assert (0 <= Rabs (IZR r)) by apply Rabs_pos.
    change (IZR (2 ^ 150)) with 1427247692705959881058285969449495136382746624. nra. }
  destruct (dmul_spec _ k Fr Kfin Mc) as [Ec Fc]. rewrite Er, Kval in Ec. fold Kr in Ec.
  set (c := dmul (d_of_Z r) k) in *.
  assert (cclose : Rabs (B2R c / Kr - IZR r) <= e16).
  { rewrite Ec. replace (IZR r) with (IZR r * Kr / Kr) at 2 by (field; lra).
    apply RN_err_div; [exact K1|]. replace (IZR r * Kr / Kr) with (IZR r) by (field; lra).
    apply Rabs_le. change (IZR (2 ^ 36)) with 68719476736. lra. }
  (* fmax *)
  set (T := (2 ^ w - 2 + r)%Z) in *.
  assert (ts : (Z.abs T < 2 ^ 53)%Z) by (unfold T; lia).
  destruct (d_of_Z_exact T ts) as [Et Ft].
  assert (Mt : Rabs (B2R (d_of_Z T) * B2R k) <= big).
  { rewrite Et, Kval. fold Kr. apply le_big. rewrite Rabs_mult, (Rabs_pos_eq Kr) by lra.
    assert (A : Rabs (IZR T) <= 6442450944) by (apply Rabs_le; lra).
    assert (0 <= Rabs (IZR T)) by apply Rabs_pos.
    change (IZR (2 ^ 150)) with 1427247692705959881058285969449495136382746624. nra. }
  destruct (dmul_spec _ k Ft Kfin Mt) as [Em Fm]. rewrite Et, Kval in Em. fold Kr in Em.
  assert (mclose : Rabs (B2R (dmul (d_of_Z T) k) / Kr - IZR T) <= e16).
  { rewrite Em. replace (IZR T) with (IZR T * Kr / Kr) at 2 by (field; lra).
    apply RN_err_div; [exact K1|]. replace (IZR T * Kr / Kr) with (IZR T) by (field; lra).
    apply Rabs_le. change (IZR (2 ^ 36)) with 68719476736. lra. }
  (* the range tests *)
  assert (SN : (s <? 0)%Z = true) by (apply Z.ltb_lt; exact S0).
  unfold enc_fmax in Hgt. unfold enc_fmin in Hlt. fold s r w in Hgt, Hlt. rewrite SN in Hgt, Hlt. cbn [andb] in Hgt, Hlt.
  fold k in Hgt, Hlt. fold c in Hlt.
  assert (Cle : B2R c <= X) by (apply (blt_false v c vfin Fc Hlt)).
  assert (Xle : X <= B2R (dmul (d_of_Z T) k)).
  { unfold T. rewrite <- top_eq. apply (bgt_false v _ vfin); [|exact Hgt]. rewrite top_eq. exact Fm. }
  rewrite e16_val in cclose, mclose.
  assert (CC := cclose). apply Rabs_le_inv in CC. assert (MC := mclose). apply Rabs_le_inv in MC.
  assert (XP1 : B2R c / Kr <= X / Kr) by (apply Rmult_le_compat_r; lra).
  assert (XP2 : X / Kr <= B2R (dmul (d_of_Z T) k) / Kr) by (apply Rmult_le_compat_r; lra).
  assert (mag : Rabs (X / Kr) <= 17179869184) by (apply Rabs_le; lra).
  assert (NR := near). unfold tie_margin in NR. apply Rabs_le_inv in NR.
  assert (rn : (r <= n)%Z).
  { apply Z.lt_succ_r. apply lt_IZR. rewrite succ_IZR. lra. }
  assert (nT : (n <= T)%Z).
  { apply Z.lt_succ_r. apply lt_IZR. rewrite succ_IZR. lra. }
  assert (RES : (0 <= n - r <= 2 ^ w - 2)%Z) by (unfold T in nT; lia).
  split; [|exact RES].
  unfold cvt_dval_to_i64. fold s r w. cbv zeta.
  destruct (Z.ltb_spec 32 w) as [L|_]; [lia|].
  rewrite vnm, SN. cbn [andb]. fold k c. rewrite Hgt, Hlt.
  destruct (Z.leb_spec 0 s) as [L|_]; [lia|].
  rewrite maxval_eq.
  rewrite (branch_neg k K Kval Kfin Krange v vfin n near mag).
  rewrite wrap64_small by (change (2 ^ 64)%Z with (2 ^ 32 * 2 ^ 32)%Z; lia).
  destruct (Z.leb_spec (2 ^ w - 1) (n - r)); [lia|reflexivity].
Qed.

(* both signs of the scale *)
Theorem encode_in_range :
  cvt_dval_to_i64 pow10 true desc en v = (n - r)%Z /\ (0 <= n - r <= 2 ^ w - 2)%Z.
Proof.
  destruct (Z.lt_ge_cases s 0); [apply encode_in_range_neg | apply encode_in_range_pos]; assumption.
Qed.

(* the result is the specification's quantisation *)
Theorem encode_in_range_eq_quant :
  cvt_dval_to_i64 pow10 true desc en v = quantR s r w (B2R v).
Proof.
  destruct encode_in_range as [E Rg]. rewrite E.
  unfold quantR, rndA. cbv zeta.
  assert (N : ZnearestA (B2R v * bpow radix10 s) = n).
  { apply near_int. eapply Rle_lt_trans; [exact near|]. unfold tie_margin. lra. }
  rewrite N.
  destruct (Z.leb_spec 0 (n - r)); [|lia]. destruct (Z.leb_spec (n - r) (2 ^ w - 2)); [|lia]. reflexivity.
Qed.

End Assemble.

(* ------------------------------------------------------------------ outside the library's range limits: missing *)
Section OutOfRange.
Variable pow10 : Z -> b64.
Hypothesis pow10_ok : pow10_contract pow10.
Variable desc : Z.
Variable en : enc.
Hypothesis Hs : (-22 <= e_scale en <= 22)%Z.
Hypothesis Hw : (1 <= e_nbits en <= 32)%Z.
Hypothesis Hr : (- 2 ^ 31 <= e_ref en < 2 ^ 31)%Z.

Theorem encode_out_of_range v :
  is_missing_double v = true \/ bgt v (enc_fmax pow10 en) = true \/ blt v (enc_fmin pow10 en) = true ->
  cvt_dval_to_i64 pow10 true desc en v = (2 ^ e_nbits en - 1)%Z.
Proof.
  intro H. unfold cvt_dval_to_i64. cbv zeta.
  destruct (Z.ltb_spec 32 (e_nbits en)) as [L|_]; [lia|].
  rewrite (missing_eq en Hw), (maxval_eq en Hw).
  destruct (is_missing_double v); [reflexivity|].
  destruct H as [H|[H|H]]; [discriminate H| |].
  - unfold enc_fmax in H. rewrite (maxval_eq en Hw) in H. rewrite H.
    destruct (desc_x desc =? 31)%Z; [|reflexivity].
    destruct (Z.eqb_spec (wrap64 (cvt_si32 v)) (2 ^ e_nbits en - 1)) as [E|E]; [exact E|reflexivity].
  - unfold enc_fmin in H. rewrite H.
    destruct (bgt v _); [|reflexivity].
    destruct (desc_x desc =? 31)%Z; [|reflexivity].
    destruct (Z.eqb_spec (wrap64 (cvt_si32 v)) (2 ^ e_nbits en - 1)) as [E|E]; [exact E|reflexivity].
Qed.

(* a double above a rounded bound is above the exact bound *)
Lemma above_RN (x : b64) y : is_finite x = true -> RN y < B2R x -> y < B2R x.
Proof.
  intros Fx H. destruct (Rlt_or_le y (B2R x)) as [L|L]; [exact L|exfalso].
  apply RN_mono in L. rewrite (round_generic radix2 fexp64 ZnearestE (B2R x)) in L by (apply generic_format_B2R). lra.
Qed.

Lemma below_RN (x : b64) y : is_finite x = true -> B2R x < RN y -> B2R x < y.
Proof.
  intros Fx H. destruct (Rlt_or_le (B2R x) y) as [L|L]; [exact L|exfalso].
  apply RN_mono in L. rewrite (round_generic radix2 fexp64 ZnearestE (B2R x)) in L by (apply generic_format_B2R). lra.
Qed.

(* real values of the two limits *)
Lemma enc_limit_val (z : Z) :
  (Z.abs z < 2 ^ 34)%Z ->
  let f := if true && (e_scale en <? 0)%Z then dmul (d_of_Z z) (pow10 (- e_scale en)%Z) else ddiv (d_of_Z z) (pow10 (e_scale en)) in
  is_finite f = true /\ B2R f = RN (IZR z * bpow radix10 (- e_scale en)).
Proof.
  intro Hz. assert (zs : (Z.abs z < 2 ^ 53)%Z) by lia.
  destruct (d_of_Z_exact z zs) as [Ez Fz].
  assert (ZB : Rabs (IZR z) <= 17179869184).
  { rewrite <- abs_IZR. change 17179869184 with (IZR (2 ^ 34)). apply IZR_le. lia. }
  destruct (Z.ltb_spec (e_scale en) 0) as [S0|S0]; cbn [andb]; cbv zeta.
  - assert (Hk : (0 <= - e_scale en <= 22)%Z) by lia.
    destruct (pow10_ok _ Hk) as [Kval Kfin].
    assert (Kr := pow_P _ Hk). set (K := (10 ^ (- e_scale en))%Z) in *.
    assert (K1 : 1 <= IZR K) by (apply IZR_le; lia).
    assert (KB : IZR K <= IZR (2 ^ 74)).
    { apply IZR_le. apply Z.le_trans with (10 ^ 22)%Z; [lia|vm_compute; discriminate]. }
    rewrite Z2R_74 in KB.
    assert (M : Rabs (B2R (d_of_Z z) * B2R (pow10 (- e_scale en)%Z)) <= big).
    { rewrite Ez, Kval. apply le_big. rewrite Rabs_mult, (Rabs_pos_eq (IZR K)) by lra.
      assert (0 <= Rabs (IZR z)) by apply Rabs_pos. change (IZR (2 ^ 150)) with 1427247692705959881058285969449495136382746624. nra. }
    destruct (dmul_spec _ _ Fz Kfin M) as [E F]. split; [exact F|].
    rewrite E, Ez, Kval. f_equal. f_equal. symmetry. apply p10_as_pow. lia.
  - assert (Hk : (0 <= e_scale en <= 22)%Z) by lia.
    destruct (pow10_ok _ Hk) as [Pval Pfin].
    assert (Pr := pow_P _ Hk). set (P := (10 ^ e_scale en)%Z) in *.
    assert (P1 : 1 <= IZR P) by (apply IZR_le; lia).
    assert (N0 : B2R (pow10 (e_scale en)) <> 0) by (rewrite Pval; lra).
    assert (M : Rabs (B2R (d_of_Z z) / B2R (pow10 (e_scale en))) <= big).
    { rewrite Ez, Pval. apply le_big. unfold Rdiv. rewrite Rabs_mult, Rabs_inv, (Rabs_pos_eq (IZR P)) by lra.
      apply Rle_trans with (Rabs (IZR z) * 1).
      - apply Rmult_le_compat_l; [apply Rabs_pos|]. rewrite <- Rinv_1. apply Rinv_le_contravar; lra.
      - rewrite Rmult_1_r. change (IZR (2 ^ 150)) with 1427247692705959881058285969449495136382746624. lra. }
    destruct (ddiv_spec _ _ Fz Pfin N0 M) as [E F]. split; [exact F|].
    rewrite E, Ez, Pval. f_equal. unfold Rdiv. f_equal. symmetry. apply p10_as_inv. lia.
Qed.

Theorem above_fmax_is_above_range v :
  is_finite v = true -> bgt v (enc_fmax pow10 en) = true ->
  physR (e_scale en) (e_ref en) (2 ^ e_nbits en - 2) < B2R v.
Proof.
  intros Fv H. assert (W := w_pow en Hw).
  unfold enc_fmax in H. rewrite (top_eq en Hw Hr) in H.
  destruct (enc_limit_val (2 ^ e_nbits en - 2 + e_ref en)%Z) as [Ff Ef]; [lia|]. cbv zeta in Ff, Ef.
  apply (bgt_true v _ Fv Ff) in H. rewrite Ef in H. unfold physR. apply (above_RN v _ Fv H).
Qed.

Theorem below_fmin_is_below_range v :
  is_finite v = true -> blt v (enc_fmin pow10 en) = true ->
  B2R v < physR (e_scale en) (e_ref en) 0.
Proof.
  intros Fv H.
  unfold enc_fmin in H.
  destruct (enc_limit_val (e_ref en)) as [Ff Ef]; [lia|]. cbv zeta in Ff, Ef.
  apply (blt_true v _ Fv Ff) in H. rewrite Ef in H. unfold physR. rewrite Z.add_0_l. apply (below_RN v _ Fv H).
Qed.

(* hence: outside the library's limits the result is the specification's (strict) encoding, the all-ones pattern *)
Theorem encode_out_of_range_eq_raw v :
  is_finite v = true ->
  bgt v (enc_fmax pow10 en) = true \/ blt v (enc_fmin pow10 en) = true ->
  cvt_dval_to_i64 pow10 true desc en v = rawR (e_scale en) (e_ref en) (e_nbits en) (B2R v).
Proof.
  intros Fv H. rewrite encode_out_of_range by (right; exact H).
  symmetry. apply out_of_range_is_missing.
  destruct H as [H|H]; [right; apply above_fmax_is_above_range | left; apply below_fmin_is_below_range]; assumption.
Qed.

End OutOfRange.

(* ------------------------------------------------------------------ every representable raw value survives decode then encode *)
Lemma RN_le_big x : Rabs x <= big -> Rabs (RN x) <= big.
Proof.
  intro H. apply abs_round_le_generic; [apply (fexp_correct 53 1024 Hprec64) | apply valid_rnd_N | | exact H].
  apply generic_format_bpow. unfold fexp64, SpecFloat.fexp, SpecFloat.emin. lia.
Qed.

Lemma finite_small_not_missing (v : b64) : is_finite v = true -> Rabs (B2R v) <= big -> is_missing_double v = false.
Proof.
  intros F B.
  assert (L : B2R v < B2R dbl_max).
  { apply Rle_lt_trans with big; [eapply Rle_trans; [apply Rle_abs|exact B]|].
    rewrite B2R_dbl_max. unfold big. change (bpow radix2 200) with (IZR (2 ^ 200)). change (bpow radix2 971) with (IZR (2 ^ 971)).
    rewrite <- mult_IZR. apply IZR_lt. reflexivity. }
  assert (Cmp : Bcompare v dbl_max = Some Lt).
  { rewrite Bcompare_correct by (try exact F; reflexivity). f_equal. apply Rcompare_Lt. exact L. }
  unfold is_missing_double. destruct v; try discriminate F; unfold beq; rewrite Cmp; reflexivity.
Qed.

Lemma bgt_false_intro (a b : b64) : is_finite a = true -> is_finite b = true -> B2R a <= B2R b -> bgt a b = false.
Proof.
  intros Fa Fb H. unfold bgt. rewrite (bcmp a b Fa Fb).
  destruct (Rcompare_spec (B2R a) (B2R b)); try reflexivity; lra.
Qed.

Lemma blt_false_intro (a b : b64) : is_finite a = true -> is_finite b = true -> B2R b <= B2R a -> blt a b = false.
Proof.
  intros Fa Fb H. unfold blt. rewrite (bcmp a b Fa Fb).
  destruct (Rcompare_spec (B2R a) (B2R b)); try reflexivity; lra.
Qed.

Section RoundTrip.
Variable pow10 : Z -> b64.
Hypothesis pow10_ok : pow10_contract pow10.
Variable desc : Z.
Variable en : enc.
Hypothesis Hs : (-22 <= e_scale en <= 22)%Z.
Hypothesis Hw : (1 <= e_nbits en <= 32)%Z.
Hypothesis Hr : (- 2 ^ 31 <= e_ref en < 2 ^ 31)%Z.
Variable i : Z.
Hypothesis Hi : (0 <= i <= 2 ^ e_nbits en - 2)%Z.

Lemma decode_as_limit :
  cvt_i64_to_dval pow10 true en i =
  if true && (e_scale en <? 0)%Z then dmul (d_of_Z (i + e_ref en)) (pow10 (- e_scale en)%Z)
  else ddiv (d_of_Z (i + e_ref en)) (pow10 (e_scale en)).
Proof.
  assert (W := w_pow en Hw).
  unfold cvt_i64_to_dval. rewrite (missing_eq en Hw).
  destruct (Z.ltb_spec i 0) as [L|_]; [lia|].
  destruct (Z.eqb_spec i (2 ^ e_nbits en - 1)) as [E|_]; [lia|].
  cbn [orb]. rewrite sint64_id; [reflexivity|]. change (2 ^ 63)%Z with (2 ^ 31 * 2 ^ 32)%Z. lia.
Qed.

Theorem encode_decode_roundtrip :
  cvt_dval_to_i64 pow10 true desc en (cvt_i64_to_dval pow10 true en i) = i.
Proof.
  assert (W := w_pow en Hw).
  set (s := e_scale en) in *. set (r := e_ref en) in *. set (w := e_nbits en) in *.
  destruct (enc_limit_val pow10 pow10_ok en Hs (i + r)%Z) as [Fv Ev]; [fold w; lia|].
  destruct (enc_limit_val pow10 pow10_ok en Hs r) as [Fn En]; [fold w; lia|].
  destruct (enc_limit_val pow10 pow10_ok en Hs (2 ^ w - 2 + r)%Z) as [Fx Ex]; [fold w; lia|].
  cbv zeta in Fv, Ev, Fn, En, Fx, Ex. fold s in Fv, Ev, Fn, En, Fx, Ex.
  rewrite decode_as_limit. fold s r.
  set (v := if true && (s <? 0)%Z then dmul (d_of_Z (i + r)) (pow10 (- s)%Z) else ddiv (d_of_Z (i + r)) (pow10 s)) in *.
  set (b := bpow radix10 (- s)) in *.
  assert (b0 : 0 < b) by apply bpow_gt_0.
  assert (NB : -2147483648 <= IZR (i + r) <= 6442450944).
  { split; [change (-2147483648) with (IZR (- 2 ^ 31)) | change 6442450944 with (IZR (2 ^ 32 + 2 ^ 31))]; apply IZR_le; lia. }
  (* the scaled error of the decoded value *)
  set (b' := bpow radix10 s).
  assert (bb : b * b' = 1) by (unfold b, b'; apply p10_cancel).
  assert (b'0 : 0 < b') by apply bpow_gt_0.
  assert (b'B : b' <= IZR (2 ^ 74)).
  { apply Rle_trans with (bpow radix10 22); [apply bpow_le; lia|].
    change (bpow radix10 22) with (IZR (10 ^ 22)). apply IZR_le. vm_compute. discriminate. }
  assert (SC : IZR (i + r) * b * b' = IZR (i + r)) by (rewrite Rmult_assoc, bb; ring).
  assert (near : Rabs (B2R v * b' - IZR (i + r)) <= tie_margin).
  { rewrite Ev. rewrite <- SC at 2.
    apply Rle_trans with e16.
    - apply RN_err_mul; [split; assumption|]. rewrite SC. apply Rabs_le. change (IZR (2 ^ 36)) with 68719476736. lra.
    - rewrite e16_val. unfold tie_margin. lra. }
  assert (vnm : is_missing_double v = false).
  { apply finite_small_not_missing; [exact Fv|]. rewrite Ev. apply RN_le_big. apply le_big.
    assert (bB : b <= IZR (2 ^ 74)).
    { apply Rle_trans with (bpow radix10 22); [apply bpow_le; lia|].
      change (bpow radix10 22) with (IZR (10 ^ 22)). apply IZR_le. vm_compute. discriminate. }
    rewrite Z2R_74 in bB. rewrite Rabs_mult, (Rabs_pos_eq b) by lra.
    assert (A : Rabs (IZR (i + r)) <= 6442450944) by (apply Rabs_le; lra).
    assert (0 <= Rabs (IZR (i + r))) by apply Rabs_pos.
    change (IZR (2 ^ 150)) with 1427247692705959881058285969449495136382746624. nra. }
  assert (Hgt : bgt v (enc_fmax pow10 en) = false).
  { unfold enc_fmax. rewrite (top_eq en Hw Hr). fold s r w.
    apply bgt_false_intro; [exact Fv|exact Fx|]. rewrite Ev, Ex. apply RN_mono.
    apply Rmult_le_compat_r; [lra|]. apply IZR_le. lia. }
  assert (Hlt : blt v (enc_fmin pow10 en) = false).
  { unfold enc_fmin. fold s r.
    apply blt_false_intro; [exact Fv|exact Fn|]. rewrite Ev, En. apply RN_mono.
    apply Rmult_le_compat_r; [lra|]. apply IZR_le. lia. }
  destruct (encode_in_range pow10 pow10_ok desc en Hs Hw Hr v (i + r)%Z vnm Hgt Hlt near) as [E _].
  rewrite E. fold r. lia.
Qed.

End RoundTrip.

(* ------------------------------------------------------------------ the encoder against the specification, on every double *)
Section AgainstSpec.
Variable pow10 : Z -> b64.
Hypothesis pow10_ok : pow10_contract pow10.
Variable desc : Z.
Variable en : enc.
Hypothesis Hs : (-22 <= e_scale en <= 22)%Z.
Hypothesis Hw : (1 <= e_nbits en <= 32)%Z.
Hypothesis Hr : (- 2 ^ 31 <= e_ref en < 2 ^ 31)%Z.
Variable v : b64.
Variable n : Z.
Hypothesis vnm : is_missing_double v = false.
(* v * 10^scale is not within 2^-12 of a rounding tie: it is within 1/2 - 2^-12 of the integer n *)
Hypothesis near : Rabs (B2R v * bpow radix10 (e_scale en) - IZR n) <= tie_margin.

(* a double inside the exact representable range [phys 0, phys (2^w-2)] passes the library's range tests *)
Lemma exact_range_in_limits :
  physR (e_scale en) (e_ref en) 0 <= B2R v <= physR (e_scale en) (e_ref en) (2 ^ e_nbits en - 2) ->
  bgt v (enc_fmax pow10 en) = false /\ blt v (enc_fmin pow10 en) = false.
Proof.
  intros [L U]. assert (W := w_pow en Hw). assert (Fv := not_missing_finite v vnm).
  assert (RX : RN (B2R v) = B2R v) by (apply round_generic; [apply valid_rnd_N | apply generic_format_B2R]).
  split.
  - unfold enc_fmax. rewrite (top_eq en Hw Hr).
    destruct (enc_limit_val pow10 pow10_ok en Hs (2 ^ e_nbits en - 2 + e_ref en)%Z) as [Ff Ef]; [lia|]. cbv zeta in Ff, Ef.
    apply bgt_false_intro; [exact Fv|exact Ff|]. rewrite Ef, <- RX. apply RN_mono. exact U.
  - unfold enc_fmin.
    destruct (enc_limit_val pow10 pow10_ok en Hs (e_ref en)) as [Ff Ef]; [lia|]. cbv zeta in Ff, Ef.
    apply blt_false_intro; [exact Fv|exact Ff|]. rewrite Ef, <- RX. apply RN_mono.
    unfold physR in L. rewrite Z.add_0_l in L. exact L.
Qed.

(* inside the exact range the library's encoder IS the specification's encoder *)
Theorem encode_exact_range_eq_raw :
  physR (e_scale en) (e_ref en) 0 <= B2R v <= physR (e_scale en) (e_ref en) (2 ^ e_nbits en - 2) ->
  cvt_dval_to_i64 pow10 true desc en v = rawR (e_scale en) (e_ref en) (e_nbits en) (B2R v).
Proof.
  intro Rg. destruct (exact_range_in_limits Rg) as [Hgt Hlt].
  rewrite (raw_eq_quant _ _ _ _ Rg).
  apply (encode_in_range_eq_quant pow10 pow10_ok desc en Hs Hw Hr v n vnm Hgt Hlt near).
Qed.

(* on every non-missing double away from ties the result is the strict or the round-then-test reading of the specification
   (they differ only within half a unit outside the extremes) *)
Theorem encode_eq_raw_or_quant :
  cvt_dval_to_i64 pow10 true desc en v = rawR (e_scale en) (e_ref en) (e_nbits en) (B2R v) \/
  cvt_dval_to_i64 pow10 true desc en v = quantR (e_scale en) (e_ref en) (e_nbits en) (B2R v).
Proof.
  assert (Fv := not_missing_finite v vnm).
  destruct (bgt v (enc_fmax pow10 en)) eqn:G.
  - left. apply (encode_out_of_range_eq_raw pow10 pow10_ok desc en Hs Hw Hr v Fv). left. exact G.
  - destruct (blt v (enc_fmin pow10 en)) eqn:L.
    + left. apply (encode_out_of_range_eq_raw pow10 pow10_ok desc en Hs Hw Hr v Fv). right. exact L.
    + right. apply (encode_in_range_eq_quant pow10 pow10_ok desc en Hs Hw Hr v n vnm G L near).
Qed.

End AgainstSpec.

(* C08_full_statement for the variant the library implements (fx_neg = true) *)
Theorem C08_full_statement_exact_variant :
  forall (pow10 : Z -> b64), pow10_contract pow10 ->
  forall (desc : Z) (en : enc) (i : Z),
    (-22 <= e_scale en <= 22)%Z -> (1 <= e_nbits en <= 32)%Z -> (- 2 ^ 31 <= e_ref en < 2 ^ 31)%Z ->
    (0 <= i <= 2 ^ e_nbits en - 2)%Z ->
    cvt_dval_to_i64 pow10 true desc en (cvt_i64_to_dval pow10 true en i) = i.
Proof. intros. apply encode_decode_roundtrip; assumption. Qed.
