(* ScalSpecProof.v — C08: theorems about the regulation-level scaling arithmetic (unbounded in s, ref, w, i). *)
From Coq Require Import ZArith QArith Qround Qreals Qabs Reals Bool Lia Lra Psatz.
From Flocq Require Import Core.
From V Require Import ScalSpec.
Open Scope R_scope.

Lemma p10_pos s : 0 < bpow radix10 s.
Proof. apply bpow_gt_0. Qed.

Lemma p10_cancel s : bpow radix10 (- s) * bpow radix10 s = 1.
Proof. rewrite <- bpow_plus. replace (- s + s)%Z with 0%Z by lia. reflexivity. Qed.

Lemma phys_scaled s ref i : physR s ref i * bpow radix10 s = IZR (i + ref).
Proof. unfold physR. rewrite Rmult_assoc, p10_cancel. ring. Qed.

Lemma rndA_IZR n : rndA (IZR n) = n.
Proof. unfold rndA. apply (@Zrnd_IZR _ (valid_rnd_N _)). Qed.

Lemma rndA_le x y : x <= y -> (rndA x <= rndA y)%Z.
Proof. unfold rndA. apply (@Zrnd_le _ (valid_rnd_N _)). Qed.

Theorem phys_strict_mono s ref i j : (i < j)%Z -> physR s ref i < physR s ref j.
Proof.
  intro Hij. unfold physR. apply Rmult_lt_compat_r; [apply p10_pos|]. apply IZR_lt. lia.
Qed.

Lemma phys_mono s ref i j : (i <= j)%Z -> physR s ref i <= physR s ref j.
Proof.
  intro Hij. unfold physR. apply Rmult_le_compat_r; [apply Rlt_le, p10_pos|]. apply IZR_le. lia.
Qed.

Lemma phys_inj s ref i j : physR s ref i = physR s ref j -> i = j.
Proof.
  intro E. destruct (Z.lt_trichotomy i j) as [H|[H|H]]; [|exact H|].
  - apply (phys_strict_mono s ref) in H. lra.
  - apply (phys_strict_mono s ref) in H. lra.
Qed.

Lemma in_range_bools s ref w q :
  (Rlt_bool q (physR s ref 0) || Rlt_bool (physR s ref (2 ^ w - 2)) q = false)
  <-> physR s ref 0 <= q <= physR s ref (2 ^ w - 2).
Proof.
  rewrite orb_false_iff. split.
  - intros [A B]. split.
    + destruct (Rlt_bool_spec q (physR s ref 0)); [discriminate|assumption].
    + destruct (Rlt_bool_spec (physR s ref (2 ^ w - 2)) q); [discriminate|assumption].
  - intros [A B]. split; apply Rlt_bool_false; assumption.
Qed.

Theorem raw_phys_roundtrip s ref w i :
  (0 <= i <= 2 ^ w - 2)%Z -> rawR s ref w (physR s ref i) = i.
Proof.
  intros Hi. unfold rawR.
  assert (R : Rlt_bool (physR s ref i) (physR s ref 0) || Rlt_bool (physR s ref (2 ^ w - 2)) (physR s ref i) = false).
  { apply in_range_bools. split; apply phys_mono; lia. }
  rewrite R, phys_scaled, rndA_IZR. lia.
Qed.

Theorem out_of_range_is_missing s ref w q :
  q < physR s ref 0 \/ physR s ref (2 ^ w - 2) < q -> rawR s ref w q = allones w.
Proof.
  intros [H|H]; unfold rawR.
  - rewrite (Rlt_bool_true _ _ H). reflexivity.
  - rewrite (Rlt_bool_true _ _ H), orb_true_r. reflexivity.
Qed.

(* inside the range the encoder yields a value in [0, 2^w-2]: never the all-ones pattern *)
Lemma raw_in_range_bounds s ref w q :
  physR s ref 0 <= q <= physR s ref (2 ^ w - 2) -> (0 <= rawR s ref w q <= 2 ^ w - 2)%Z.
Proof.
  intros [A B]. unfold rawR.
  assert (R : Rlt_bool q (physR s ref 0) || Rlt_bool (physR s ref (2 ^ w - 2)) q = false)
    by (apply in_range_bools; split; assumption).
  rewrite R.
  assert (A' : IZR (0 + ref) <= q * bpow radix10 s).
  { rewrite <- phys_scaled with (s := s). apply Rmult_le_compat_r; [apply Rlt_le, p10_pos|exact A]. }
  assert (B' : q * bpow radix10 s <= IZR (2 ^ w - 2 + ref)).
  { rewrite <- phys_scaled with (s := s). apply Rmult_le_compat_r; [apply Rlt_le, p10_pos|exact B]. }
  apply rndA_le in A'. apply rndA_le in B'. rewrite rndA_IZR in A', B'. lia.
Qed.

Theorem missing_iff_allones s ref w q :
  rawR s ref w q = allones w <-> (q < physR s ref 0 \/ physR s ref (2 ^ w - 2) < q).
Proof.
  split; [|apply out_of_range_is_missing].
  intro E.
  destruct (Rlt_dec q (physR s ref 0)) as [H|H]; [left; exact H|].
  destruct (Rlt_dec (physR s ref (2 ^ w - 2)) q) as [H'|H']; [right; exact H'|].
  exfalso. assert (B : (0 <= rawR s ref w q <= 2 ^ w - 2)%Z).
  { apply raw_in_range_bounds. split; lra. }
  unfold allones in E. lia.
Qed.

Lemma scaled_close s ref i q :
  Rabs (q - physR s ref i) < bpow radix10 (- s) / 2 ->
  Rabs (q * bpow radix10 s - IZR (i + ref)) < / 2.
Proof.
  intro H. rewrite <- (phys_scaled s ref i), <- Rmult_minus_distr_r, Rabs_mult.
  rewrite (Rabs_pos_eq (bpow radix10 s)) by apply Rlt_le, p10_pos.
  apply Rlt_le_trans with (bpow radix10 (- s) / 2 * bpow radix10 s).
  - apply Rmult_lt_compat_r; [apply p10_pos|exact H].
  - unfold Rdiv. rewrite Rmult_assoc, (Rmult_comm (/ 2)), <- Rmult_assoc, p10_cancel. lra.
Qed.

(* the lemma that makes floating-point error harmless: anything within half a unit of 10^-s of phys i quantises to i *)
Theorem quant_tolerant s ref w i q :
  (0 <= i <= 2 ^ w - 2)%Z ->
  Rabs (q - physR s ref i) < bpow radix10 (- s) / 2 ->
  quantR s ref w q = i.
Proof.
  intros Hi H. apply scaled_close in H.
  unfold quantR, rndA. cbv zeta. rewrite (Znearest_imp _ _ _ H).
  replace (i + ref - ref)%Z with i by lia.
  destruct (Z.leb_spec 0 i); [|lia]. destruct (Z.leb_spec i (2 ^ w - 2)); [|lia]. reflexivity.
Qed.

Theorem raw_tolerant s ref w i q :
  (0 <= i <= 2 ^ w - 2)%Z ->
  physR s ref 0 <= q <= physR s ref (2 ^ w - 2) ->
  Rabs (q - physR s ref i) < bpow radix10 (- s) / 2 ->
  rawR s ref w q = i.
Proof.
  intros Hi Hr H. apply scaled_close in H.
  unfold rawR. apply in_range_bools in Hr. rewrite Hr.
  unfold rndA. rewrite (Znearest_imp _ _ _ H). lia.
Qed.

Lemma raw_eq_quant s ref w q :
  physR s ref 0 <= q <= physR s ref (2 ^ w - 2) -> rawR s ref w q = quantR s ref w q.
Proof.
  intro Hr. assert (B := raw_in_range_bounds s ref w q Hr).
  unfold rawR in *. apply in_range_bools in Hr. rewrite Hr in *. unfold quantR.
  destruct (Z.leb_spec 0 (rndA (q * bpow radix10 s) - ref)); [|lia].
  destruct (Z.leb_spec (rndA (q * bpow radix10 s) - ref) (2 ^ w - 2)); [|lia]. reflexivity.
Qed.

(* a value at least half a unit outside the extremes is missing also under the round-then-test reading *)
Theorem quant_out_of_range s ref w q :
  (0 <= w)%Z ->
  q <= physR s ref (-1) \/ physR s ref (2 ^ w - 1) <= q -> quantR s ref w q = allones w.
Proof.
  intros Hw H. unfold quantR.
  assert (Hr : (rndA (q * bpow radix10 s) - ref <= -1 \/ 2 ^ w - 1 <= rndA (q * bpow radix10 s) - ref)%Z).
  { destruct H as [H|H].
    - left. assert (A : q * bpow radix10 s <= IZR (-1 + ref)).
      { rewrite <- phys_scaled with (s := s). apply Rmult_le_compat_r; [apply Rlt_le, p10_pos|exact H]. }
      apply rndA_le in A. rewrite rndA_IZR in A. lia.
    - right. assert (A : IZR (2 ^ w - 1 + ref) <= q * bpow radix10 s).
      { rewrite <- phys_scaled with (s := s). apply Rmult_le_compat_r; [apply Rlt_le, p10_pos|exact H]. }
      apply rndA_le in A. rewrite rndA_IZR in A. lia. }
  destruct (Z.leb_spec 0 (rndA (q * bpow radix10 s) - ref)); destruct (Z.leb_spec (rndA (q * bpow radix10 s) - ref) (2 ^ w - 2)); try reflexivity.
  lia.
Qed.

(* ------------------------------------------------------------------ Q <-> R *)
Lemma Q2R_inject_Z n : Q2R (inject_Z n) = IZR n.
Proof. unfold Q2R, inject_Z; simpl. rewrite Rinv_1. ring. Qed.

Lemma Q2R_p10Q s : Q2R (p10Q s) = bpow radix10 s.
Proof.
  unfold p10Q. destruct (Z.leb_spec 0 s) as [H|H].
  - rewrite Q2R_inject_Z. change 10%Z with (radix_val radix10). apply IZR_Zpower. exact H.
  - unfold Q2R; simpl Qnum; simpl Qden.
    assert (P : (0 < 10 ^ (- s))%Z) by (apply Z.pow_pos_nonneg; lia).
    rewrite Z2Pos.id by exact P.
    change 10%Z with (radix_val radix10). rewrite IZR_Zpower by lia.
    rewrite <- bpow_opp. replace (- - s)%Z with s by lia. ring.
Qed.

Lemma Q2R_physQ s ref i : Q2R (physQ s ref i) = physR s ref i.
Proof. unfold physQ, physR. rewrite Q2R_mult, Q2R_inject_Z, Q2R_p10Q. reflexivity. Qed.

Lemma Zfloor_Q2R q : Zfloor (Q2R q) = Qfloor q.
Proof.
  apply Zfloor_imp. split.
  - rewrite <- Q2R_inject_Z. apply Qle_Rle. apply Qfloor_le.
  - rewrite <- Q2R_inject_Z. apply Qlt_Rlt. apply Qlt_floor.
Qed.

Lemma ZnearestA_floor x :
  ZnearestA x = if Rle_bool 0 x then Zfloor (x + / 2) else (- Zfloor (- x + / 2))%Z.
Proof.
  destruct (Rle_bool_spec 0 x) as [H|H].
  - (* x >= 0 *)
    unfold Znearest.
    assert (F := Zfloor_lb x). assert (U := Zfloor_ub x).
    assert (F0 : (0 <= Zfloor x)%Z) by (apply Zfloor_lub; exact H).
    destruct (Rcompare_spec (x - IZR (Zfloor x)) (/ 2)) as [C|C|C].
    + symmetry. apply Zfloor_imp. rewrite plus_IZR. lra.
    + destruct (Z.leb_spec 0 (Zfloor x)); [|lia].
      symmetry. rewrite Zceil_floor_neq by (intro; lra). apply Zfloor_imp. rewrite !plus_IZR. lra.
    + symmetry. rewrite Zceil_floor_neq by (intro; lra). apply Zfloor_imp. rewrite !plus_IZR. lra.
  - (* x < 0 *)
    unfold Znearest.
    assert (F := Zfloor_lb x). assert (U := Zfloor_ub x).
    assert (F0 : (Zfloor x < 0)%Z).
    { apply lt_IZR. lra. }
    destruct (Rcompare_spec (x - IZR (Zfloor x)) (/ 2)) as [C|C|C].
    + (* result floor x;  -x+1/2 in (-floor x, -floor x + 1) ... *)
      assert (E : Zfloor (- x + / 2) = (- Zfloor x)%Z).
      { apply Zfloor_imp. rewrite plus_IZR, opp_IZR. lra. }
      rewrite E. lia.
    + destruct (Z.leb_spec 0 (Zfloor x)); [lia|].
      assert (E : Zfloor (- x + / 2) = (- Zfloor x)%Z).
      { apply Zfloor_imp. rewrite plus_IZR, opp_IZR. lra. }
      rewrite E. lia.
    + rewrite Zceil_floor_neq by (intro; lra).
      assert (E : Zfloor (- x + / 2) = (- Zfloor x - 1)%Z).
      { apply Zfloor_imp. rewrite plus_IZR, minus_IZR, opp_IZR. lra. }
      rewrite E. lia.
Qed.

Lemma Qle_bool_Rle_bool q : Qle_bool 0 q = Rle_bool 0 (Q2R q).
Proof.
  destruct (Rle_bool_spec 0 (Q2R q)) as [H|H].
  - apply Qle_bool_iff. apply Rle_Qle. unfold Q2R at 1; simpl. lra.
  - destruct (Qle_bool 0 q) eqn:E; [|reflexivity].
    apply Qle_bool_iff in E. apply Qle_Rle in E. unfold Q2R at 1 in E; simpl in E. lra.
Qed.

Lemma Q2R_half : Q2R (1 # 2) = / 2.
Proof. unfold Q2R; simpl. lra. Qed.

Lemma rndA_Q2R q : rndA (Q2R q) = rndAQ q.
Proof.
  unfold rndA, rndAQ. rewrite ZnearestA_floor, <- Qle_bool_Rle_bool.
  destruct (Qle_bool 0 q).
  - rewrite <- Q2R_half, <- Q2R_plus. apply Zfloor_Q2R.
  - rewrite <- Q2R_half, <- Q2R_opp, <- Q2R_plus. rewrite Zfloor_Q2R. reflexivity.
Qed.

Lemma Qltb_Rlt_bool a b : Qltb a b = Rlt_bool (Q2R a) (Q2R b).
Proof.
  unfold Qltb. destruct (Rlt_bool_spec (Q2R a) (Q2R b)) as [H|H].
  - destruct (Qle_bool b a) eqn:E; [|reflexivity].
    apply Qle_bool_iff in E. apply Qle_Rle in E. lra.
  - apply Rle_Qle in H. apply Qle_bool_iff in H. rewrite H. reflexivity.
Qed.

(* the executable Q definitions compute the real-number specification *)
Theorem rawQ_correct s ref w q : rawQ s ref w q = rawR s ref w (Q2R q).
Proof.
  unfold rawQ, rawR. rewrite 2!Qltb_Rlt_bool, 2!Q2R_physQ.
  rewrite <- rndA_Q2R, Q2R_mult, Q2R_p10Q. reflexivity.
Qed.

Theorem quantQ_correct s ref w q : quantQ s ref w q = quantR s ref w (Q2R q).
Proof.
  unfold quantQ, quantR. rewrite <- rndA_Q2R, Q2R_mult, Q2R_p10Q. reflexivity.
Qed.

(* ------------------------------------------------------------------ the same theorems on the executable Q spec *)
Theorem rawQ_physQ_roundtrip s ref w i :
  (0 <= i <= 2 ^ w - 2)%Z -> rawQ s ref w (physQ s ref i) = i.
Proof. intro H. rewrite rawQ_correct, Q2R_physQ. apply raw_phys_roundtrip. exact H. Qed.

Theorem physQ_strict_mono s ref i j : (i < j)%Z -> (physQ s ref i < physQ s ref j)%Q.
Proof. intro H. apply Rlt_Qlt. rewrite 2!Q2R_physQ. apply phys_strict_mono. exact H. Qed.

Theorem rawQ_missing_iff_allones s ref w q :
  rawQ s ref w q = allones w <-> (q < physQ s ref 0 \/ physQ s ref (2 ^ w - 2) < q)%Q.
Proof.
  rewrite rawQ_correct, missing_iff_allones. rewrite <- 2!Q2R_physQ.
  split; (intros [H|H]; [left|right]); first [apply Rlt_Qlt; exact H | apply Qlt_Rlt; exact H].
Qed.

Theorem quantQ_tolerant s ref w i q :
  (0 <= i <= 2 ^ w - 2)%Z ->
  (Qabs (q - physQ s ref i) < p10Q (- s) / 2)%Q ->
  quantQ s ref w q = i.
Proof.
  intros Hi H. rewrite quantQ_correct. apply quant_tolerant; [exact Hi|].
  apply Qlt_Rlt in H. revert H. rewrite Q2R_div by discriminate. rewrite Q2R_p10Q.
  replace (Q2R 2) with 2 by (unfold Q2R; simpl; lra).
  intro H. eapply Rle_lt_trans; [|exact H]. rewrite <- Q2R_physQ, <- Q2R_minus.
  apply Req_le. unfold Qabs.Qabs.
  destruct (q - physQ s ref i)%Q as [n d]. unfold Q2R; simpl.
  rewrite Rabs_mult, (Rabs_pos_eq (/ IZR (Z.pos d))).
  - rewrite abs_IZR. reflexivity.
  - apply Rlt_le, Rinv_0_lt_compat, IZR_lt. lia.
Qed.
