(* TablesCor.v — corollaries of the history theorems (repaired code) and refutation witnesses for the current code. *)
From Coq Require Import List ZArith Arith Bool Lia FMapPositive.
From V Require Import Fm94.
From V Require Import Tables TablesProof.
Import ListNotations.
Local Open Scope Z_scope.

(* ================================================================== corollaries for the repaired code *)
Lemma fchk_spec d : fchk d = (1 <=? descF d) && (descF d <=? 3).
Proof. reflexivity. Qed.

(* local_over_master: whatever the history, a descriptor the local map defines is answered from the local map *)
Theorem local_over_master_fixed ops d b :
  Forall wf_op ops -> fchk d = false -> assoc d (sp_lB (spec_after ops)) = Some b ->
  fst (exec all_fixed (state_after all_fixed ops) (OFetchB d)) = RB (Some (d, b)).
Proof.
  intros WF F A. rewrite cache_coherent_fixed by exact WF. rewrite spec_fetchB_vfind, F. unfold vfind.
  pose proof (assoc_app d (sp_lB (spec_after ops)) (sp_mB (spec_after ops))) as AA. unfold ent in *. rewrite AA, A. reflexivity.
Qed.

(* ... in particular right after loading a local file that defines it, whatever was loaded, merged or looked up before *)
Theorem local_load_wins_fixed ops v es d b :
  Forall wf_op ops -> nodupk es -> fchk d = false -> In (d, b) es ->
  fst (exec all_fixed (state_after all_fixed (ops ++ [OLoadLB v es])) (OFetchB d)) = RB (Some (d, b)).
Proof.
  intros WF ND F HI. apply local_over_master_fixed; [apply Forall_app; split; [exact WF|constructor; [exact ND|constructor]]|exact F|].
  unfold spec_after. rewrite fold_left_app. cbn [fold_left spec_step sp_lB]. unfold over. rewrite assoc_app.
  rewrite (assoc_in d b es ND HI). reflexivity.
Qed.

(* merge_union: after bufr_merge_tables the maps are the union, the merged-in local entries first, then the destination's
   local entries, then the master table (the source's if it has one) *)
Theorem merge_union_fixed ops a d :
  Forall wf_op ops -> wf_arg a ->
  let sp := spec_after ops in
  let src_l := match a_lb a with Some (_, es) => es | None => [] end in
  let mas := match a_mb a with Some (_, es) => es | None => sp_mB sp end in
  fst (exec all_fixed (state_after all_fixed (ops ++ [OMerge a])) (OFetchB d)) =
  RB (if fchk d then None else
      match assoc d src_l with Some b => Some (d, b) | None =>
      match assoc d (sp_lB sp) with Some b => Some (d, b) | None =>
      match assoc d mas with Some b => Some (d, b) | None => None end end end).
Proof.
  intros WF WA sp src_l mas.
  rewrite cache_coherent_fixed by (apply Forall_app; split; [exact WF|constructor; [exact WA|constructor]]).
  unfold spec_after. rewrite fold_left_app. cbn [fold_left]. fold (spec_after ops). fold sp.
  rewrite spec_fetchB_vfind. destruct (fchk d); [reflexivity|]. unfold vfind. f_equal.
  cbn [spec_step sp_lB sp_mB]. unfold src_l, mas, over.
  pose proof (@assoc_app bent d) as AA. unfold ent in *.
  destruct (a_lb a) as [[v es]|]; destruct (a_mb a) as [[v' es']|]; rewrite ?AA; cbn [assoc];
    repeat match goal with |- context [match assoc d ?l with _ => _ end] => destruct (assoc d l) end; reflexivity.
Qed.

(* absent_is_absent: a lookup reports "absent" exactly for the descriptors no loaded file defines (or F = 1, 2, 3) *)
Theorem absent_is_absent_fixed ops d :
  Forall wf_op ops ->
  (fst (exec all_fixed (state_after all_fixed ops) (OFetchB d)) = RB None <->
   fchk d = true \/ (~ In d (map fst (sp_lB (spec_after ops))) /\ ~ In d (map fst (sp_mB (spec_after ops))))).
Proof.
  intros WF. rewrite cache_coherent_fixed by exact WF. rewrite spec_fetchB_vfind. unfold vfind.
  destruct (fchk d); [split; [intros _; left; reflexivity|reflexivity]|].
  rewrite <- !assoc_none_notin.
  pose proof (assoc_app d (sp_lB (spec_after ops)) (sp_mB (spec_after ops))) as AA. unfold ent in *. rewrite AA. clear AA.
  destruct (assoc d (sp_lB (spec_after ops))); [split; [discriminate|intros [H|[H _]]; discriminate]|].
  destruct (assoc d (sp_mB (spec_after ops))); [split; [discriminate|intros [H|[_ H]]; discriminate]|].
  split; [intros _; right; split; reflexivity|reflexivity].
Qed.

(* ================================================================== the CURRENT code violates the property: witnesses *)
Definition w_m : list ent := [(10010, mkB UNum 1 10010 10); (20020, mkB UNum 1 20020 10); (30030, mkB UNum 1 30030 10)].
Definition w_l : list ent := [(1001, mkB UNum 2 (-1001) 12); (2002, mkB UNum 2 (-2002) 12); (3003, mkB UNum 2 (-3003) 12); (30030, mkB UNum 2 (-30030) 12)].

Lemma nodupk_w_m : nodupk w_m. Proof. unfold nodupk. cbn. repeat constructor; cbn; intuition lia. Qed.
Lemma nodupk_w_l : nodupk w_l. Proof. unfold nodupk. cbn. repeat constructor; cbn; intuition lia. Qed.

(* a lookup, then a local table that redefines the descriptor, then the same lookup: the stale master entry is returned *)
Theorem cache_coherent_refuted :
  exists ops d, Forall wf_op ops /\
    fst (exec current_code (state_after current_code ops) (OFetchB d)) <> RB (spec_fetchB (spec_after ops) d).
Proof.
  exists [OLoadMB (Some 35) w_m; OFetchB 30030; OLoadLB (-1) w_l], 30030. split.
  - constructor; [exact nodupk_w_m|]. constructor; [exact I|]. constructor; [exact nodupk_w_l|]. constructor.
  - vm_compute. discriminate.
Qed.

(* a lookup, then bufr_merge_tables replacing the object's own master table: the remembered pointer dangles *)
Theorem cache_dangling_refuted :
  exists ops d, Forall wf_op ops /\
    fst (exec current_code (state_after current_code ops) (OFetchB d)) = RCrash.
Proof.
  exists [OLoadMB (Some 35) w_m; OFetchB 30030; OMerge (mkM (Some (Some 35, w_l)) None None None)], 30030. split.
  - constructor; [exact nodupk_w_m|]. constructor; [exact I|]. constructor; [|constructor].
    cbn [wf_op wf_arg a_mb a_lb a_md a_ld]. split; [exact nodupk_w_l|]. split; [exact I|]. split; exact I.
  - vm_compute. reflexivity.
Qed.

(* two local files, no lookup in between: the second does not override the first *)
Theorem merge_union_refuted :
  exists ops d, Forall wf_op ops /\ (forall o, In o ops -> match o with OFetchB _ => False | _ => True end) /\
    fst (exec current_code (state_after current_code ops) (OFetchB d)) <> RB (spec_fetchB (spec_after ops) d).
Proof.
  exists [OLoadLB (-1) w_m; OLoadLB (-1) w_l], 30030. split; [|split].
  - constructor; [exact nodupk_w_m|]. constructor; [exact nodupk_w_l|]. constructor.
  - intros o [<-|[<-|[]]]; exact I.
  - vm_compute. discriminate.
Qed.

(* the same three histories on the repaired model give the specified answers (instances of the general theorems) *)
Example witnesses_repaired :
  fst (exec all_fixed (state_after all_fixed [OLoadMB (Some 35) w_m; OFetchB 30030; OLoadLB (-1) w_l]) (OFetchB 30030)) = RB (Some (30030, mkB UNum 2 (-30030) 12)) /\
  fst (exec all_fixed (state_after all_fixed [OLoadMB (Some 35) w_m; OFetchB 30030; OMerge (mkM (Some (Some 35, w_l)) None None None)]) (OFetchB 30030)) = RB (Some (30030, mkB UNum 2 (-30030) 12)) /\
  fst (exec all_fixed (state_after all_fixed [OLoadLB (-1) w_m; OLoadLB (-1) w_l]) (OFetchB 30030)) = RB (Some (30030, mkB UNum 2 (-30030) 12)).
Proof. vm_compute. repeat split. Qed.
