(* Properties_C20.v — property C20 (local table update messages round-trip the tables they carry) as theorems about the
   mirror LocalTab.v of bufr_store_tables / bufr_extract_tables.  Only statements, `exact`, and Print Assumptions. *)
From Coq Require Import List ZArith NArith Arith Lia Bool.
From V Require Import Walk BitIO Fm94 LocalTab LocalTabFmt LocalTabExtract LocalTabBytes LocalTabProof LocalTabRound.
Import ListNotations.
Local Open Scope Z_scope.

(* the property at full strength, for the code after 8fe08d3 (eb.encoding.af_nbits / ref_nbits initialised to 0): the values
   bufr_store_tables writes -> their Section 4 octets -> the reference decoder Fm94.dec_plain with the hand-written Section 3
   and the master tables -> the switch of bufr_extract_tables gives back the tables *)
Definition C20_full_statement : Prop :=
  forall ed T, wf_t T -> Forall (fun e => lb_aux e = (0, 0)) (lt_B T) -> roundtrip (0, 0) ed T = Some T.

Theorem C20_store_decode_extract_id :
  forall ed T, wf_t T -> Forall (fun e => lb_aux e = (0, 0)) (lt_B T) -> roundtrip (0, 0) ed T = Some T.
Proof. exact roundtrip_id. Qed.
Print Assumptions C20_store_decode_extract_id.

(* the same composition for the code before the fix: everything comes back except the two never-assigned fields, which are
   whatever the stack held (junk) *)
Theorem C20_store_decode_extract_any_junk : forall junk ed T, wf_t T ->
  roundtrip junk ed T = Some (mkLT (lt_cat T) (lt_cdesc T) (map (set_aux junk) (lt_B T)) (lt_D T)).
Proof. exact roundtrip_store. Qed.
Print Assumptions C20_store_decode_extract_any_junk.

(* ... and that difference is observable: a scale-0, reference>0 NUMERIC element gets another value type (pre-fix defect) *)
Theorem C20_extract_valtype_refuted :
  exists junk ed T T', wf_t T /\ Forall (fun e => lb_aux e = (0, 0)) (lt_B T) /\
    roundtrip junk ed T = Some T' /\ map entry_valtype (lt_B T') <> map entry_valtype (lt_B T).
Proof. exact extract_valtype_refuted. Qed.
Print Assumptions C20_extract_valtype_refuted.

(* store_is_legal: the hand-written data section is exactly what the FM 94 reference encoder produces for the hand-written
   Section 3 and the values written (any fuel >= need T, any edition) *)
Theorem C20_store_is_legal : forall ed T fuel, wf_t T -> (need T <= fuel)%nat ->
  enc_plain T0 ed fuel (store_s3 T) [map dat (store_fields T)] = Ok (bytes_to_bits (fields_bytes (store_fields T))).
Proof. exact store_is_legal. Qed.
Print Assumptions C20_store_is_legal.

(* the reference decoder reads the stored octets back as exactly the (descriptor, value) list that was written *)
Theorem C20_decode_elements_store : forall ed T, wf_t T ->
  decode_elements ed (store_s3 T) (fields_bytes (store_fields T)) = Some (store_fields T).
Proof. exact decode_store. Qed.
Print Assumptions C20_decode_elements_store.

(* "%<w>d" / "%.<w>d" then atoi is the identity for numbers that fit the field *)
Theorem C20_print_parse_width : forall w z, 0 <= z < 10 ^ Z.of_nat (S w) -> atoi (put_fmt (S w) (fmt_width (S w) z)) = z.
Proof. exact atoi_fmt_width. Qed.
Print Assumptions C20_print_parse_width.
Theorem C20_print_parse_prec : forall w z, 0 <= z < 10 ^ Z.of_nat (S w) -> atoi (put_fmt (S w) (fmt_prec (S w) z)) = z.
Proof. exact atoi_fmt_prec. Qed.
Print Assumptions C20_print_parse_prec.

(* the switch of bufr_extract_tables run over the values bufr_store_tables writes returns the tables: category, description,
   every Table B entry (descriptor, name, unit, scale, reference, width, type) and every Table D entry; only af_nbits/ref_nbits
   of the entries are whatever the stack held *)
Theorem C20_store_extract_id_partial : forall junk T, wf_t T ->
  extract junk (store_fields T) = mkLT (lt_cat T) (lt_cdesc T) (map (set_aux junk) (lt_B T)) (lt_D T).
Proof. exact extract_store_fields. Qed.
Print Assumptions C20_store_extract_id_partial.

(* with the two fields initialised as bufr_new_EntryTableB does (the proposed fix) the tables come back exactly *)
Theorem C20_store_extract_id_initialised : forall T, wf_t T -> Forall (fun e => lb_aux e = (0, 0)) (lt_B T) ->
  extract (0, 0) (store_fields T) = T.
Proof. exact extract_store_initialised. Qed.
Print Assumptions C20_store_extract_id_initialised.

(* the reference decoder's tables do not depend on the two fields: a message decodes alike with original and extracted tables *)
Theorem C20_extracted_tables_decode_same : forall junk master T ed fuel tmpl nsub bits, wf_t T ->
  dec_plain (install master (extract junk (store_fields T))) ed fuel tmpl nsub bits = dec_plain (install master T) ed fuel tmpl nsub bits.
Proof. intros junk master T ed fuel tmpl nsub bits W. rewrite (extract_store_fields junk T W), install_ignores_aux. reflexivity. Qed.
Print Assumptions C20_extracted_tables_decode_same.

(* bufr_putstring/bufr_putbits (BitIO.v) leave exactly the octets of the fields, in order *)
Theorem C20_store_bytes : forall fl, Forall field_ok fl -> store_bytes fl = Some (fields_bytes fl).
Proof. exact store_bytes_spec. Qed.
Print Assumptions C20_store_bytes.

(* store_is_legal (layout form): under FM 94 (Fm94.layout = walk_list) the hand-written Section 3 selects, for the values
   written, exactly the fields written, in the order written, and nothing is left over *)
Theorem C20_store_is_legal_partial : forall ed T, wf_t T ->
  walk_list T0 ed (need T) op0 (store_s3 T) (map dat (store_fields T)) = Ok (op0, [], map lay (store_fields T)).
Proof. exact layout_store. Qed.
Print Assumptions C20_store_is_legal_partial.

(* hypotheses are satisfiable *)
Example C20_wf_example : wf_t (mkLT 11 (repeat 32%N 64)
  [mkLB 48001 [65%N; 32%N; 66%N] [77%N] (-2) (-1000) 16 UNum (0, 0)] [mkLD 348001 [48001; 1001]]).
Proof.
  unfold wf_t. cbn [lt_cat lt_cdesc lt_B lt_D].
  split; [lia|]. split; [apply text_blanks|]. split; [reflexivity|]. split; [cbn; lia|].
  split.
  - constructor; [|constructor]. unfold wf_b, text, printable. cbn [lb_desc lb_name lb_unit lb_scale lb_ref lb_width lb_kind length].
    repeat split; try lia; try reflexivity; repeat constructor; lia.
  - split; [cbn; lia|]. constructor; [|constructor]. unfold wf_d. cbn [ld_desc ld_seq length].
    repeat split; try lia; repeat constructor; lia.
Qed.
