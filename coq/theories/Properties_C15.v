(* Properties_C15.v — C15: results do not depend on diagnostic settings or on what was processed before.
   The machine of Config.v runs any history of operations (set switches | fetch | encode | decode) against one tables
   object with the library's history-dependent Table B lookup (last hit + cache).  Diagnostic text is not an output. *)
From Coq Require Import List ZArith NArith Arith Lia Bool.
From V Require Import Walk Fm94 Config.
Import ListNotations.
Local Open Scope Z_scope.

Theorem C15_every_output_is_the_pure_function_of_its_operation : forall T h c s,
  coherent T s -> snd (run T (c, s) h) = map (pure_out T) h.
Proof. exact run_outputs_pure. Qed.
Print Assumptions C15_every_output_is_the_pure_function_of_its_operation.

Theorem C15_configuration_irrelevant : forall T h c1 c2, snd (run T (c1, l0) h) = snd (run T (c2, l0) h).
Proof. exact config_irrelevant. Qed.
Print Assumptions C15_configuration_irrelevant.

Theorem C15_history_irrelevant : forall T h1 h2 o c,
  last (snd (run T (c, l0) (h1 ++ [o]))) UNone = last (snd (run T (c, l0) (h2 ++ [o]))) UNone.
Proof. exact history_irrelevant. Qed.
Print Assumptions C15_history_irrelevant.

(* the lookup shortcut never returns anything but the table's entry, and stays coherent *)
Theorem C15_cached_lookup_is_the_table_lookup : forall T s d, coherent T s ->
  fst (fetch T s d) = lookupB T d /\ coherent T (snd (fetch T s d)).
Proof. exact fetch_coherent. Qed.
Print Assumptions C15_cached_lookup_is_the_table_lookup.

Example C15_example :
  let T := mkT [(1001, mkB UNum 0 0 7); (12101, mkB UNum 2 0 16)] [] in
  let h := [OFetch 12101; OSet (mkCfg true true true true); OEncode 4 false [1001; 12101] [[mkD 0 (VRaw 5); mkD 0 (VRaw 27315)]]; OFetch 1001; OFetch 12101; OFetch 99] in
  snd (run T (mkCfg false false false false, l0) h) = map (pure_out T) h /\ l_cache (snd (fst (run T (mkCfg false false false false, l0) h))) <> [].
Proof. split; [vm_compute; reflexivity | vm_compute; discriminate]. Qed.
