(* Properties_C06.v — property C06 (messages are framed consistently and read back identically on every I/O path)
   as theorems about the mirror Frame.v.  Only statements, `exact`, Print Assumptions and Examples.

   The model has one writer `wr` and one reader `rd` for all four I/O paths: the paths differ only in the byte
   source/sink callback handed to bufr_callback_write_message / bufr_callback_read_message, and the check compares
   each of them with the model.  `cfg` selects between the current code (cfg_current) and the two proposed repairs
   (cfg_fixed): escaping of the backslash in header strings, and the limit on len_msg.

   wire_ok, wire_view, expected, hdr_view, no_bufr, item_ok, item_result, stream_of, hdr_bytes, be3, octet are defined
   in FrameProof.v. *)
From Coq Require Import List ZArith Bool Lia.
From V Require Import Frame FrameProof.
Import ListNotations.
Local Open Scope Z_scope.

(* ---- framing: what is written ---------------------------------------------------------------------------------- *)
(* For every message the writer accepts (edition as left by bufr_init_header, 0..7 spare bits in Section 4):
   the bytes are header ++ "BUFR" ++ total ++ edition ++ S1 ++ S2 ++ S3 ++ S4 ++ "7777"; the number of bytes written after
   the header is len_msg, the three octets of Section 0 decode to it, it is the sum of the section lengths, every section
   starts with its own length, and for editions <= 3 every section length and the total are even. *)
Definition C06_framing_full_statement (c : cfg) : Prop := forall m bs,
  2 <= ed m -> 0 <= s4bit m < 8 -> wr c m = WOk bs ->
  let b1 := sect1_bytes m in let b2 := sect2_bytes m in let b3 := sect3_bytes m in let b4 := sect4_bytes m in
  bs = hdr_bytes m ++ marker ++ u24 (lenmsg m) ++ u8 (ed m) ++ b1 ++ b2 ++ b3 ++ b4 ++ [55; 55; 55; 55]
  /\ zlen bs = zlen (hdr_bytes m) + lenmsg m
  /\ be3 (u24 (lenmsg m)) = lenmsg m
  /\ lenmsg m = 8 + zlen b1 + zlen b2 + zlen b3 + zlen b4 + 4
  /\ firstn 3 b1 = u24 (zlen b1)
  /\ (b2 = [] \/ firstn 3 b2 = u24 (zlen b2))
  /\ firstn 3 b3 = u24 (zlen b3)
  /\ firstn 3 b4 = u24 (zlen b4)
  /\ (ed m <= 3 -> Z.even (zlen b1) = true /\ Z.even (zlen b2) = true /\ Z.even (zlen b3) = true /\
                   Z.even (zlen b4) = true /\ Z.even (lenmsg m) = true).

(* holds whenever the writer refuses what does not fit three octets (the repaired limit) ... *)
Theorem C06_framing_lengths : forall c, maxlen c <= 16777215 -> C06_framing_full_statement c.
Proof. intros c Hc m bs He Hb Hw. exact (framing_lengths c m bs He Hb Hc Hw). Qed.
Print Assumptions C06_framing_lengths.

(* ... and fails for the current limit: a 2^24-octet message is written with total length 0 *)
Theorem C06_framing_total_overflow_refuted :
  exists m bs, 2 <= ed m /\ 0 <= s4bit m < 8 /\ wr cfg_current m = WOk bs /\
               zlen bs = 16777216 /\ firstn 3 (skipn 4 bs) = [0; 0; 0] /\ be3 (firstn 3 (skipn 4 bs)) <> zlen bs.
Proof. exact framing_total_overflow_refuted. Qed.
Print Assumptions C06_framing_total_overflow_refuted.

(* ---- reading back ---------------------------------------------------------------------------------------------- *)
(* Whatever precedes (sep, without the start marker) and follows (rest): the reader returns every Section 1 field,
   Section 2 payload, subset count, flags, descriptor list and data bytes on the wire view of the message, the lengths,
   the header string standing for the octets before BUFR, consumes exactly |sep| + |bytes| and leaves rest. *)
Theorem C06_read_write : forall c m sep rest bs,
  wire_ok m -> wr c m = WOk bs -> no_bufr (sep ++ hdr_bytes m) ->
  rd c (sep ++ bs ++ rest) =
  Some ({| r_msg := wire_view m (schar2oct c (hdr_view 0 (sep ++ hdr_bytes m)));
           r_lm := lenmsg m; r_s1len := s1len (ed m); r_s1x := []; r_s2len := s2len m; r_s3len := s3len m;
           r_s4len := s4len m; r_used := zlen sep + zlen bs |}, rest).
Proof. exact read_write. Qed.
Print Assumptions C06_read_write.

(* a concatenated stream: every message exactly once, in order, then failure; the fuel used by rd_all suffices *)
Theorem C06_stream : forall c items trail,
  Forall (fun it => wire_ok (snd it) /\ (exists bs, wr c (snd it) = WOk bs) /\ no_bufr (fst it ++ hdr_bytes (snd it))) items ->
  no_bufr trail ->
  rd_all c (stream_of c items trail) =
  map (fun it => expected (snd it) (schar2oct c (hdr_view 0 (fst it ++ hdr_bytes (snd it))))
                          (zlen (fst it) + zlen (wr_bytes c (snd it)))) items.
Proof. exact stream. Qed.
Print Assumptions C06_stream.

(* the scanner's fuel (one unit per iteration of the outer while loop) is never exhausted *)
Theorem C06_seek_fuel_suffices : forall l, seek_start l <> SFuel.
Proof. exact seek_fuel_suffices. Qed.
Print Assumptions C06_seek_fuel_suffices.

(* bytes without the start marker are never taken for a message *)
Theorem C06_no_marker_no_message : forall c l, no_bufr l -> rd c l = None.
Proof. exact rd_none_no_marker. Qed.
Print Assumptions C06_no_marker_no_message.

(* the header kept is the separator itself when it has no EOT octet, and differs from it by EOT octets only otherwise *)
Theorem C06_header_view_without_eot : forall l st, Forall (fun b => b <> 4) l -> hdr_view st l = l.
Proof. exact hdr_view_no_eot. Qed.
Print Assumptions C06_header_view_without_eot.

Theorem C06_header_view_drops_only_eot : forall l st,
  filter (fun b => negb (b =? 4)) (hdr_view st l) = filter (fun b => negb (b =? 4)) l.
Proof. exact hdr_view_filter. Qed.
Print Assumptions C06_header_view_drops_only_eot.

(* ---- header escaping ------------------------------------------------------------------------------------------- *)
Definition C06_escape_full_statement (c : cfg) : Prop :=
  forall s, Forall octet s -> oct2char (schar2oct c s) = Some s.

(* with the backslash escaped (proposed repair) the pair is a round trip on every octet string *)
Theorem C06_escape_roundtrip : C06_escape_full_statement cfg_fixed.
Proof. exact escape_roundtrip_fixed. Qed.
Print Assumptions C06_escape_roundtrip.

(* current code: round trip only for strings without a backslash ... *)
Theorem C06_escape_roundtrip_partial : forall s,
  Forall octet s -> Forall (fun b => b <> 92) s -> oct2char (schar2oct cfg_current s) = Some s.
Proof. exact escape_roundtrip_partial. Qed.
Print Assumptions C06_escape_roundtrip_partial.

(* ... and not in general: "\101" comes back as "A" *)
Theorem C06_escape_roundtrip_refuted : ~ C06_escape_full_statement cfg_current.
Proof. exact escape_roundtrip_current_fails. Qed.
Print Assumptions C06_escape_roundtrip_refuted.

Theorem C06_escape_roundtrip_witness :
  exists s, Forall octet s /\ oct2char (schar2oct cfg_current s) = Some [65] /\ s <> [65].
Proof. exact escape_roundtrip_refuted. Qed.
Print Assumptions C06_escape_roundtrip_witness.

(* the header string read is printable, and a message read and written again reproduces the octets before BUFR *)
Theorem C06_header_printable : forall c s, Forall octet s -> Forall (fun b => 32 < b /\ b <> 127) (schar2oct c s).
Proof. exact schar2oct_printable. Qed.
Print Assumptions C06_header_printable.

Theorem C06_header_reproduced : forall c m raw,
  Forall octet raw -> (esc_bs c = true \/ Forall (fun b => b <> 92) raw) ->
  hdr_bytes (wire_view m (schar2oct c raw)) = raw.
Proof. exact header_reproduced. Qed.
Print Assumptions C06_header_reproduced.

(* ---- non-vacuity ----------------------------------------------------------------------------------------------- *)
Example C06_example_hypotheses :
  wire_ok sample_msg /\ no_bufr ([13; 10; 4; 66; 85] ++ hdr_bytes sample_msg) /\
  exists bs, wr cfg_current sample_msg = WOk bs /\ zlen bs = 62.
Proof. split; [exact sample_wire_ok|split; [exact sample_no_marker|exact sample_written]]. Qed.

Example C06_example_stream :
  map (fun r => (r_used r, r_lm r)) (rd_all cfg_current (stream_of cfg_current [([13; 10; 4; 66; 85], sample_msg); ([], sample_msg)] [66; 85; 70]))
  = [(67, 60); (62, 60)].
Proof. vm_compute. reflexivity. Qed.
