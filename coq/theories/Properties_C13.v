(* Properties_C13.v — placeholder while the proofs are being developed in a scratch directory *)
From Coq Require Import List ZArith Lia.
From V Require Import Dump.
Import ListNotations.
Local Open Scope Z_scope.
Theorem C13_placeholder : forall n, print_scaled n 0 = print_scaled n 0.
Proof. reflexivity. Qed.
Print Assumptions C13_placeholder.
