(* Properties_C13.v — property C13 (a dataset written as text and loaded back encodes to the identical message) as
   theorems about the model Dump.v of bufr_fdump_dataset / bufr_load_header / bufr_load_datasubsets.
   Only statements, `exact`, Print Assumptions, and Examples showing that the hypotheses are satisfiable.
   fm / fq select the loader variant: false = the code as it is, true = with proposed_fixes/C13_rbrace_after_meta.md
   resp. C13_quoted_msng.md applied (the check detects which variant the tree under test has). *)
From Coq Require Import List ZArith Arith Lia Bool.
From V Require Import Dump DumpProof.
Import ListNotations.
Local Open Scope Z_scope.

(* ---- (a) numeric values ---- *)
(* the numeral written for the element value n/10^s (n = raw + reference) is read back as exactly n/10^s,
   for every scale (negative scales print the integer with one fractional zero) and every sign *)
Theorem C13_parse_print_id : forall n s, exists me, parse_decimal (print_scaled n s) = Some me /\ dec_denotes me n s.
Proof. exact parse_print_id. Qed.
Print Assumptions C13_parse_print_id.

(* hence re-quantising at the same scale and reference gives the raw value back *)
Theorem C13_numeric_requantises : forall i ref s, exists me,
  parse_decimal (print_scaled (i + ref) s) = Some me /\ requant me s ref = i.
Proof. exact requant_parse_print. Qed.
Print Assumptions C13_numeric_requantises.

(* the same through glibc: printf and strtod enter only by their decimal contract (tested by the check) *)
Theorem C13_numeric_roundtrip_libc : forall (fmt_f : Z -> Z -> str) (strtod_dec : str -> option (Z * Z)),
  (forall n s, libc_range n s -> fmt_f n s = print_scaled n s) ->
  (forall l me, parse_decimal l = Some me -> strtod_dec l = Some me) ->
  forall i ref s, libc_range (i + ref) s ->
  exists me, strtod_dec (fmt_f (i + ref) s) = Some me /\ dec_denotes me (i + ref) s /\ requant me s ref = i.
Proof. exact numeric_text_roundtrip_libc. Qed.
Print Assumptions C13_numeric_roundtrip_libc.

(* trim-zero mode (bufr_set_trimzero, used for values printed without a scale): removing trailing zeros keeps the value *)
Theorem C13_trim_zero_keeps_value : forall n s, 0 < s ->
  exists me, parse_decimal (trim_zeros (print_scaled n s)) = Some me /\ dec_value_eq me n s.
Proof. exact trim_zeros_value. Qed.
Print Assumptions C13_trim_zero_keeps_value.

(* ---- (b) flag tables ---- *)
Theorem C13_binary_roundtrip : forall w v, 1 <= w <= 63 -> 0 <= v < 2 ^ w ->
  str_is_binary (print_binary w v) = true /\ binary_to_int (print_binary w v) = v /\ length (print_binary w v) = Z.to_nat w.
Proof. exact binary_roundtrip. Qed.
Print Assumptions C13_binary_roundtrip.

(* width 64 is outside: the uint64_t shift in bufr_binary_to_int wraps (no Table B flag table is that wide) *)
Theorem C13_binary_64_refuted : exists v, 0 <= v < 2 ^ 64 /\ binary_to_int (print_binary 64 v) <> v.
Proof. exact binary_64_refuted. Qed.
Print Assumptions C13_binary_64_refuted.

(* ---- (c)-(f) one line: descriptor, {meta} comment, associated field, value of every kind ---- *)
Theorem C13_line_roundtrip : forall fm fq vt it, di_skipped it = false -> item_ok fm fq vt it ->
  exists rest, classify (print_item it) = L_data (di_desc it) rest /\ load_rest fm fq vt rest = expected_lval it.
Proof. exact line_roundtrip. Qed.
Print Assumptions C13_line_roundtrip.

Theorem C13_skipped_line : forall fm fq vt it, di_skipped it = true -> 0 <= di_desc it ->
  classify (print_item it) = (if di_ignored it then L_comment else L_data (di_desc it) [10]) /\
  load_rest fm fq vt [10] = mkLV None TV_none.
Proof. exact skipped_line. Qed.
Print Assumptions C13_skipped_line.

(* the property at full strength for one line: every string the format can carry (no NUL, LF, CR; not empty), with no
   further side condition *)
Definition C13_line_full_statement (fm fq:bool) : Prop :=
  forall vt it, di_skipped it = false -> item_ok true true vt it ->
  exists rest, classify (print_item it) = L_data (di_desc it) rest /\ load_rest fm fq vt rest = expected_lval it.
Theorem C13_line_full_with_fixes : C13_line_full_statement true true.
Proof. exact (fun vt it => line_roundtrip true true vt it). Qed.
Print Assumptions C13_line_full_with_fixes.

(* the current code: partial (no '}' in a string that follows a {..} comment; the string is not "MSNG") ... *)
Theorem C13_line_roundtrip_current_partial : forall vt it, di_skipped it = false -> item_ok false false vt it ->
  exists rest, classify (print_item it) = L_data (di_desc it) rest /\ load_rest false false vt rest = expected_lval it.
Proof. exact (line_roundtrip false false). Qed.
Print Assumptions C13_line_roundtrip_current_partial.

(* ... and refuted without these side conditions *)
Theorem C13_rbrace_refuted : exists it,
  item_ok true false (VT_STR 4) it /\ di_skipped it = false /\
  load_rest true false (VT_STR 4) (rest_of (print_item it)) = expected_lval it /\
  load_rest false false (VT_STR 4) (rest_of (print_item it)) <> expected_lval it.
Proof. exact rbrace_refuted. Qed.
Print Assumptions C13_rbrace_refuted.

Theorem C13_rbrace_crash :
  lv_val (load_rest false false (VT_STR 4) (rest_of (print_item (mk_str_item 1015 (Some [123;82;61;49;125]) [65;66;67;125])))) = TV_crash.
Proof. exact rbrace_crash. Qed.
Print Assumptions C13_rbrace_crash.

Theorem C13_quoted_msng_refuted : forall fm,
  load_rest fm false (VT_STR 4) (rest_of (print_item (mk_str_item 1015 None s_MSNG))) = mkLV None TV_missing /\
  load_rest fm true (VT_STR 4) (rest_of (print_item (mk_str_item 1015 None s_MSNG))) = mkLV None (TV_str s_MSNG).
Proof. exact quoted_msng_refuted. Qed.
Print Assumptions C13_quoted_msng_refuted.

(* ---- one subset: the loader's descriptor matching (advance over skipped nodes, look-ahead) ---- *)
Theorem C13_dataset_text_roundtrip : forall fm fq items nodes, compat_all fm fq items nodes ->
  exists pend, all_skipped pend /\
    load_subset_lines fm fq nodes (map print_item items ++ [[c_nl]]) [] = LR_ok (outputs items nodes) pend.
Proof. exact subset_roundtrip. Qed.
Print Assumptions C13_dataset_text_roundtrip.

(* nested delayed replication: the library's flags violate `compat` (a commented line for a node the loader has not skipped) *)
Theorem C13_nested_replication_refuted : forall fm fq,
  load_subset_lines fm fq nested_nodes (map print_item (nested_items true) ++ [[c_nl]]) [] = LR_mismatch /\
  load_subset_lines fm fq nested_nodes (map print_item (nested_items false) ++ [[c_nl]]) [] = LR_ok (outputs (nested_items false) nested_nodes) [].
Proof. exact nested_replication_refuted. Qed.
Print Assumptions C13_nested_replication_refuted.

(* ---- header keys ---- *)
Theorem C13_header_roundtrip : forall h0 h L marker, classify_hdr marker = H_subset ->
  load_header h0 (print_header h ++ marker :: L) = (loaded_header h0 h, true, marker :: L).
Proof. exact header_roundtrip. Qed.
Print Assumptions C13_header_roundtrip.

Theorem C13_header_values : forall h0 h, length (h_vals h0) = 17%nat -> length (h_vals h) = 17%nat ->
  let h' := loaded_header h0 h in
  nth 0 (h_vals h') 0 = nth 0 (h_vals h0) 0 /\
  (forall k, (1 <= k <= 16)%nat -> k <> 3%nat -> nth k (h_vals h') 0 = nth k (h_vals h) 0) /\
  nth 3 (h_vals h') 0 = (if 3 <=? nth 0 (h_vals h) 0 then nth 3 (h_vals h) 0 else nth 3 (h_vals h0) 0) /\
  h_string h' = (match h_string h with Some s => Some (c_string s) | None => h_string h0 end).
Proof. exact header_values. Qed.
Print Assumptions C13_header_values.

(* ---- a whole dataset, and several datasets in one file ---- *)
Theorem C13_dataset_roundtrip : forall fm fq h0 h subsets nodes rest,
  subsets <> [] -> compat_subsets fm fq subsets nodes ->
  (rest = [] \/ exists l r, rest = l :: r /\ classify l = L_edition) ->
  exists res, load_dataset fm fq h0 nodes (print_dataset h subsets ++ rest) = (DS_ok (loaded_header h0 h) res, rest) /\
              map fst res = outputs_subsets subsets nodes /\ Forall (fun r => all_skipped (snd r)) res.
Proof. exact dataset_roundtrip. Qed.
Print Assumptions C13_dataset_roundtrip.

Theorem C13_multi_dataset_order : forall fm fq ds h0 fuel, Forall (dset_ok fm fq) ds -> (length ds <= fuel)%nat ->
  let res := load_file fm fq h0 (map ds_nodes ds) fuel (file_text ds) in
  map fst res = loaded_headers h0 ds /\
  map (fun r => map fst (snd r)) res = map (fun d => outputs_subsets (ds_subsets d) (ds_nodes d)) ds /\
  Forall (fun r => Forall (fun s => all_skipped (snd s)) (snd r)) res.
Proof. exact multi_dataset_order. Qed.
Print Assumptions C13_multi_dataset_order.

(* the message: any encoder that is a function of the header values and of the (descriptor, associated field, value)
   triples of every subset gives the same message for the loaded datasets as for the original ones *)
Theorem C13_same_message : forall (Msg:Type) (encode : header -> list (list (Z * lval)) -> Msg) fm fq ds h0 fuel,
  Forall (dset_ok fm fq) ds -> (length ds <= fuel)%nat ->
  map (fun r => encode (fst r) (map fst (snd r))) (load_file fm fq h0 (map ds_nodes ds) fuel (file_text ds)) =
  map (fun p => encode (fst p) (outputs_subsets (ds_subsets (snd p)) (ds_nodes (snd p)))) (combine (loaded_headers h0 ds) ds).
Proof. exact same_message. Qed.
Print Assumptions C13_same_message.

(* ---- fgets(ligne, 2048, fp): the text is cut back into the lines written, no line being longer than 2047 octets ---- *)
Theorem C13_fgets_lines : forall ls, Forall text_line ls -> file_lines (concat ls) = ls.
Proof. exact file_lines_concat. Qed.
Print Assumptions C13_fgets_lines.

(* ---- the hypotheses are satisfiable ---- *)
Example libc_contract_satisfiable :
  (forall n s, libc_range n s -> print_scaled n s = print_scaled n s) /\
  (forall l me, parse_decimal l = Some me -> parse_decimal l = Some me) /\ libc_range (27315 + 0) 2.
Proof. repeat split; auto; cbn; lia. Qed.
Example compat_satisfiable : compat_all true true (nested_items false) nested_nodes /\ dset_ok true true (mkDS (mkH (repeat 0 17) None) [nested_items false] [nested_nodes]).
Proof. exact compat_example. Qed.
Example text_line_satisfiable : Forall text_line (print_dataset (mkH (4 :: repeat 0 16) None) [nested_items false]).
Proof. exact text_line_example. Qed.
Example item_ok_string_with_blanks_and_quotes :
  item_ok true true (VT_STR 8) (mkDI 1015 false false 0 (Some [123;82;61;49;125]) (Some (5, 4)) (DV_str [32;65;34;125;32;66;32;32])).
Proof. exact item_ok_example. Qed.
