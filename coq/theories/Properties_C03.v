(* Properties_C03.v — C03: the wire format.  The reference encoder lays Section 4 out as the field list says
   (each element in its operator-adjusted width, associated field first, in expansion order, replication factor
   ahead of the data it governs), and the reference decoder - an independent function - recovers the values. *)
From Coq Require Import List ZArith NArith Arith Lia Bool.
From V Require Import Walk Fm94 Fm94Proof Fm94Cor.
Import ListNotations.
Local Open Scope Z_scope.

Theorem C03_section4_is_the_field_layout : forall T ed fuel tmpl s st' lft b,
  walk_enc1 T ed fuel op0 tmpl s = Ok (st', lft, b) ->
  exists fl, layout T ed fuel tmpl s = Ok fl /\
             concat_r (map (fun p => enc_elem (fst p) (snd p)) fl) = Ok b /\
             s = map snd fl ++ lft.
Proof. exact plain_is_layout. Qed.
Print Assumptions C03_section4_is_the_field_layout.

Theorem C03_reference_decoder_recovers_plain : forall T ed fuel tmpl subsets b,
  enc_plain T ed fuel tmpl subsets = Ok b ->
  exists pad, dec_plain T ed fuel tmpl (length subsets) (bytes_to_bits (bits_to_bytes b)) = Ok (subsets, repeat false pad) /\ (pad < 8)%nat.
Proof. exact plain_roundtrip_octets. Qed.
Print Assumptions C03_reference_decoder_recovers_plain.

Theorem C03_reference_decoder_recovers_compressed : forall T ed pick fuel tmpl subsets b,
  enc_comp T ed pick fuel tmpl subsets = Ok b ->
  exists pad, dec_comp T ed fuel tmpl (length subsets) (bytes_to_bits (bits_to_bytes b)) = Ok (subsets, repeat false pad) /\ (pad < 8)%nat.
Proof. exact comp_roundtrip_octets. Qed.
Print Assumptions C03_reference_decoder_recovers_compressed.

(* uncompressed data have exactly one encoding: whatever the reference decoder accepts is what the encoder writes *)
Theorem C03_plain_encoding_unique : forall T ed fuel tmpl nsub l subsets tl,
  dec_plain T ed fuel tmpl nsub l = Ok (subsets, tl) ->
  length subsets = nsub /\ exists b, enc_plain T ed fuel tmpl subsets = Ok b /\ l = b ++ tl.
Proof. exact plain_sound. Qed.
Print Assumptions C03_plain_encoding_unique.
