(* IeeeFlocqProof.v — the layout specification of IeeeSoft.v IS Flocq's IEEE 754 encoding (Flocq.IEEE754.Bits:
   b32_of_bits / bits_of_b32 / b64_of_bits / bits_of_b64), and the final theorems of property C19 stated on Flocq's
   binary32 / binary64 data.  Depends on Flocq (hence on the standard library's axioms of the reals at most). *)
From Coq Require Import ZArith Bool Lia ZifyBool SpecFloat.
From Flocq Require Import Core IEEE754.Binary IEEE754.Bits.
From V Require Import IeeeSoft IeeeSoftProof.
Open Scope Z_scope.
Ltac Zify.zify_post_hook ::= Z.div_mod_to_equations.

(* the values of IeeeSoft.fval read off Flocq's IEEE 754 data *)
Definition fval_of_ff (x : full_float) : fval :=
  match x with
  | F754_zero s => FZero s
  | F754_infinity s => FInf s
  | F754_nan _ _ => FNan
  | F754_finite s m e => FFin s (Zpos m) e
  end.
Definition fval_of_b32 (x : binary32) : fval := fval_of_ff (B2FF _ _ x).
Definition fval_of_b64 (x : binary64) : fval := fval_of_ff (B2FF _ _ x).

Lemma Zeq_bool_eqb x y : Zeq_bool x y = (x =? y).
Proof. destruct (Z.eqb_spec x y) as [-> | Hne]; [apply Zeq_bool_true; reflexivity | apply Zeq_bool_false; assumption]. Qed.

Lemma Zle_bool_leb x y : Zle_bool x y = (x <=? y).
Proof. reflexivity. Qed.

Lemma digits2_pos_log2 p : Zpos (digits2_pos p) = Z.log2 (Zpos p) + 1.
Proof.
  assert (H : forall q, digits2_pos q = Pos.size q) by (induction q; cbn; congruence).
  rewrite H. destruct p; cbn; lia.
Qed.

Section Bridge.
Variable f : fmt.
Hypothesis Hf : fmt_ok f.

Lemma bridge_decode bits : 0 <= bits ->
  spec_decode f bits = fval_of_ff (binary_float_of_bits_aux (fb f) (eb f) bits).
Proof.
  intros Hb. pose proof Hf as (Hfb & Heb & Hw). destruct (eb_facts f Hf) as [HB H2B].
  pose proof (p2pos (fb f) ltac:(lia)) as Hpfb. pose proof (p2pos (eb f) ltac:(lia)) as Hpeb.
  unfold binary_float_of_bits_aux, split_bits, spec_decode. rewrite !Zeq_bool_eqb.
  unfold Zle_bool. rewrite <- Z.pow_add_r by lia.
  pose proof (Z.mod_pos_bound bits (2 ^ fb f) Hpfb) as Hfr.
  set (sg := 2 ^ (fb f + eb f) <=? bits). set (fr := bits mod 2 ^ fb f) in *.
  set (ex := (bits / 2 ^ fb f) mod 2 ^ eb f).
  destruct (ex =? 0) eqn:H0.
  - destruct fr as [| p | p] eqn:Hfre; cbn [Z.eqb fval_of_ff]; [reflexivity | | lia].
    f_equal. unfold emin, bias, SpecFloat.emin. lia.
  - destruct (ex =? 2 ^ eb f - 1) eqn:H1.
    + destruct fr as [| p | p] eqn:Hfre; cbn [Z.eqb fval_of_ff]; [reflexivity | reflexivity | lia].
    + destruct (fr + 2 ^ fb f) as [| p | p] eqn:Hm; [lia | | lia].
      cbn [fval_of_ff]. f_equal. unfold bias, SpecFloat.emin. lia.
Qed.

Lemma bridge_encode (x : binary_float (fb f + 1) (2 ^ (eb f - 1))) :
  is_nan _ _ x = false ->
  spec_encode f (fval_of_ff (B2FF _ _ x)) = bits_of_binary_float (fb f) (eb f) x.
Proof.
  intros Hnan. pose proof Hf as (Hfb & Heb & Hw).
  destruct x as [s | s | s pl Hpl | s m e Hb]; cbn [B2FF fval_of_ff spec_encode bits_of_binary_float]; try discriminate;
    unfold join, join_bits; rewrite !Z.shiftl_mul_pow2 by lia.
  - reflexivity.
  - reflexivity.
  - change (Zle_bool 0 (Z.pos m - 2 ^ fb f)) with (0 <=? Z.pos m - 2 ^ fb f).
    replace (0 <=? Z.pos m - 2 ^ fb f) with (2 ^ fb f <=? Z.pos m) by lia.
    destruct (2 ^ fb f <=? Z.pos m); [| reflexivity].
    f_equal. f_equal. unfold bias, SpecFloat.emin. lia.
Qed.

Lemma bounded_valid m e : SpecFloat.bounded (fb f + 1) (2 ^ (eb f - 1)) m e = true -> valid_fin f (Zpos m) e.
Proof.
  intros Hb. pose proof Hf as (Hfb & Heb & Hw). destruct (eb_facts f Hf) as [HB H2B].
  unfold SpecFloat.bounded, SpecFloat.canonical_mantissa, SpecFloat.fexp, SpecFloat.emin in Hb.
  rewrite Zeq_bool_eqb, digits2_pos_log2 in Hb.
  pose proof (Z.log2_spec (Zpos m) ltac:(lia)) as Hlog. unfold Z.succ in Hlog.
  pose proof (Z.log2_nonneg (Zpos m)) as Hl0.
  pose proof (p2pos (fb f) ltac:(lia)) as Hpfb.
  unfold valid_fin, emin, emax, bias.
  destruct (Z.lt_ge_cases (Z.log2 (Zpos m)) (fb f)) as [Hlt | Hge].
  - right. split; [| lia]. split; [lia |].
    apply Z.lt_le_trans with (2 ^ (Z.log2 (Z.pos m) + 1)); [lia |]. apply Z.pow_le_mono_r; lia.
  - left. assert (Z.log2 (Zpos m) = fb f) by lia.
    replace (Z.log2 (Zpos m)) with (fb f) in Hlog by lia. split; lia.
Qed.

Lemma b_enc_ok (x : binary_float (fb f + 1) (2 ^ (eb f - 1))) : enc_ok f true (fval_of_ff (B2FF _ _ x)).
Proof.
  destruct x as [s | s | s pl Hpl | s m e Hb]; cbn [B2FF fval_of_ff enc_ok]; try exact I.
  split; [apply bounded_valid; exact Hb | left; reflexivity].
Qed.
End Bridge.

Lemma fmt32_ok : fmt_ok fmt32. Proof. unfold fmt_ok; cbn; lia. Qed.
Lemma fmt64_ok : fmt_ok fmt64. Proof. unfold fmt_ok; cbn; lia. Qed.

Lemma b32_bridge bits : 0 <= bits -> spec_decode fmt32 bits = fval_of_b32 (b32_of_bits bits).
Proof.
  intros Hb. rewrite (bridge_decode fmt32 fmt32_ok bits Hb). unfold fval_of_b32, b32_of_bits, binary_float_of_bits.
  rewrite B2FF_FF2B. reflexivity.
Qed.
Lemma b64_bridge bits : 0 <= bits -> spec_decode fmt64 bits = fval_of_b64 (b64_of_bits bits).
Proof.
  intros Hb. rewrite (bridge_decode fmt64 fmt64_ok bits Hb). unfold fval_of_b64, b64_of_bits, binary_float_of_bits.
  rewrite B2FF_FF2B. reflexivity.
Qed.
Lemma b32_bridge_enc (x : binary32) : is_nan _ _ x = false -> spec_encode fmt32 (fval_of_b32 x) = bits_of_b32 x.
Proof. exact (bridge_encode fmt32 fmt32_ok x). Qed.
Lemma b64_bridge_enc (x : binary64) : is_nan _ _ x = false -> spec_encode fmt64 (fval_of_b64 x) = bits_of_b64 x.
Proof. exact (bridge_encode fmt64 fmt64_ok x). Qed.

(* ---- the contract on libm, and its satisfiability *)
Definition libm_ok (f : fmt) (ilog2 : dy -> Z) (pow2 pow2s : Z -> dy) : Prop :=
  ilog2_ok f ilog2 /\ pow2_ok pow2 (-1074) 1023 /\ pow2_ok pow2s (-1074) 1023.

Lemma pow2_ok_weaken pw lo hi lo' hi' : pow2_ok pw lo hi -> lo <= lo' -> hi' <= hi -> pow2_ok pw lo' hi'.
Proof. intros H Hl Hh e He. apply H. lia. Qed.

Lemma ilog2_exact_ok f : fmt_ok f -> ilog2_ok f ilog2_exact.
Proof. intros Hf m e Hm. unfold ilog2_exact. cbn [fst snd]. lia. Qed.
Lemma pow2_exact_ok lo hi : pow2_ok pow2_exact lo hi.
Proof. intros e He. exists 0. split; [lia |]. unfold pow2_exact. f_equal. lia. Qed.
Lemma pow2_double_ok lo hi : pow2_ok pow2_double lo hi.
Proof. intros e He. exists 52. split; [lia |]. reflexivity. Qed.
Lemma libm_exact_ok f : fmt_ok f -> libm_ok f ilog2_exact pow2_exact pow2_exact.
Proof. intros Hf. split; [apply ilog2_exact_ok; exact Hf | split; apply pow2_exact_ok]. Qed.
(* estimates that are always one too low, always one too high, or two too high on every normal number are admissible *)
Lemma ilog2_off_ok f d : -1 <= d <= 1 -> ilog2_ok f (fun x => ilog2_exact x + d).
Proof. intros Hd m e Hm. unfold ilog2_exact. cbn [fst snd]. lia. Qed.
Lemma ilog2_off2_ok f : ilog2_ok f (fun x => if ilog2_exact x <? emin f then ilog2_exact x + 1 else ilog2_exact x + 2).
Proof. intros m e Hm. unfold ilog2_exact. cbn [fst snd]. destruct (Z.log2 m + e <? emin f) eqn:H; lia. Qed.

Definition not_deep (fbits : Z) (x : full_float) : Prop :=
  match x with F754_finite _ m e => 2 ^ fbits <= Zpos m \/ 2 ^ (fbits - 1) <= Zpos m | _ => True end.

Section Generic.
Variable f : fmt.
Variable ilog2 : dy -> Z.
Variables pow2 pow2s : Z -> dy.
Hypothesis Hlibm : libm_ok f ilog2 pow2 pow2s.
Hypothesis Hf : fmt_ok f.
Hypothesis Hr1 : fb f <= 1023.
Hypothesis Hr2 : -1074 <= emin f.
Hypothesis Hr3 : emax f <= 1023.

Let Hil : ilog2_ok f ilog2 := proj1 Hlibm.
Let Hp : pow2_ok pow2 (-1074) 1023 := proj1 (proj2 Hlibm).
Let Hps : pow2_ok pow2s (-1074) 1023 := proj2 (proj2 Hlibm).
Let Hp' : pow2_ok pow2 (emin f) (emax f).
Proof. apply (pow2_ok_weaken _ _ _ _ _ Hp); lia. Qed.

Lemma dec_layout : forall bits, 0 <= bits < 2 ^ (fb f + eb f + 1) -> soft_decode pow2 pow2s f bits = Some (spec_decode f bits).
Proof.
  intros bits Hb. pose proof Hf as (Hfb & _).
  apply soft_decode_correct; try assumption.
  - apply (pow2_ok_weaken _ _ _ _ _ Hp); lia.
  - apply (pow2_ok_weaken _ _ _ _ _ Hps); lia.
Qed.

Lemma enc_layout fixsub : forall x, enc_ok f fixsub x -> soft_encode ilog2 pow2 f fixsub x = Some (spec_encode f x).
Proof. intros x Hx. apply soft_encode_correct; assumption. Qed.

Lemma dec_flocq : forall bits, 0 <= bits < 2 ^ (fb f + eb f + 1) ->
  soft_decode pow2 pow2s f bits = Some (fval_of_ff (binary_float_of_bits_aux (fb f) (eb f) bits)).
Proof. intros bits Hb. rewrite <- (bridge_decode f Hf) by lia. apply dec_layout. exact Hb. Qed.

Lemma enc_flocq (x : binary_float (fb f + 1) (2 ^ (eb f - 1))) : is_nan _ _ x = false ->
  soft_encode ilog2 pow2 f true (fval_of_ff (B2FF _ _ x)) = Some (bits_of_binary_float (fb f) (eb f) x).
Proof. intros Hn. rewrite <- (bridge_encode f Hf x Hn). apply enc_layout. apply (b_enc_ok f Hf x). Qed.

Lemma enc_cur (x : binary_float (fb f + 1) (2 ^ (eb f - 1))) :
  is_nan _ _ x = false -> not_deep (fb f) (B2FF _ _ x) ->
  soft_encode ilog2 pow2 f false (fval_of_ff (B2FF _ _ x)) = Some (bits_of_binary_float (fb f) (eb f) x).
Proof.
  intros Hn Hd. rewrite <- (bridge_encode f Hf x Hn). apply enc_layout.
  pose proof (b_enc_ok f Hf x) as Hok. pose proof Hf as (Hfb & _).
  destruct x as [s | s | s pl Hpl | s m e Hb]; cbn [B2FF fval_of_ff enc_ok not_deep] in *; try exact I.
  destruct Hok as [Hv _]. split; [exact Hv |]. right.
  destruct Hd as [Hd | Hd]; [| exact Hd].
  apply Z.le_trans with (2 ^ fb f); [| exact Hd]. apply Z.pow_le_mono_r; lia.
Qed.

Lemma enc_cur_deep s m : 0 < m < 2 ^ (fb f - 1) ->
  soft_encode ilog2 pow2 f false (FFin s m (emin f - fb f)) = Some (join f s 0 (m * 2 ^ (fb f - 1 - Z.log2 m))) /\
  soft_encode ilog2 pow2 f false (FFin s m (emin f - fb f)) <> Some (spec_encode f (FFin s m (emin f - fb f))).
Proof.
  intros Hm. pose proof Hf as (Hfb & _). split.
  - apply (soft_encode_cur_subnormal ilog2 pow2 f Hf Hil Hp' s m). split; [lia |].
    apply Z.lt_le_trans with (2 ^ (fb f - 1)); [lia | apply Z.pow_le_mono_r; lia].
  - apply (soft_encode_cur_deep_wrong ilog2 pow2 f Hf Hil Hp' s m). exact Hm.
Qed.
End Generic.

(* both paths on a host whose float/double objects have the IEEE 754 layout *)
Definition host32 (img : Z) : fval := fval_of_b32 (b32_of_bits img).
Definition host64 (img : Z) : fval := fval_of_b64 (b64_of_bits img).

Section Final32.
Variable ilog2 : dy -> Z.
Variables pow2 pow2s : Z -> dy.
Hypothesis Hlibm : libm_ok fmt32 ilog2 pow2 pow2s.
Let R1 : fb fmt32 <= 1023. Proof. cbn; lia. Qed.
Let R2 : -1074 <= emin fmt32. Proof. cbn; lia. Qed.
Let R3 : emax fmt32 <= 1023. Proof. cbn; lia. Qed.

Theorem decode32 : forall bits, 0 <= bits < 2 ^ 32 ->
  soft_decode pow2 pow2s fmt32 bits = Some (fval_of_b32 (b32_of_bits bits)).
Proof.
  intros bits Hb. rewrite (dec_flocq fmt32 ilog2 pow2 pow2s Hlibm fmt32_ok R1 R2 R3 bits Hb).
  unfold fval_of_b32, b32_of_bits, binary_float_of_bits. rewrite B2FF_FF2B. reflexivity.
Qed.
Theorem encode32 : forall x : binary32, is_nan _ _ x = false ->
  soft_encode ilog2 pow2 fmt32 true (fval_of_b32 x) = Some (bits_of_b32 x).
Proof. intros x Hn. exact (enc_flocq fmt32 ilog2 pow2 pow2s Hlibm fmt32_ok R2 R3 x Hn). Qed.
Theorem encode32_cur_partial : forall x : binary32, is_nan _ _ x = false -> not_deep 23 (B2FF _ _ x) ->
  soft_encode ilog2 pow2 fmt32 false (fval_of_b32 x) = Some (bits_of_b32 x).
Proof. intros x Hn Hd. exact (enc_cur fmt32 ilog2 pow2 pow2s Hlibm fmt32_ok R2 R3 x Hn Hd). Qed.
Theorem encode32_cur_deep : forall s m, 0 < m < 2 ^ 22 ->
  soft_encode ilog2 pow2 fmt32 false (FFin s m (-149)) = Some (join fmt32 s 0 (m * 2 ^ (22 - Z.log2 m))) /\
  soft_encode ilog2 pow2 fmt32 false (FFin s m (-149)) <> Some (spec_encode fmt32 (FFin s m (-149))).
Proof. intros s m Hm. exact (enc_cur_deep fmt32 ilog2 pow2 pow2s Hlibm fmt32_ok R2 R3 s m Hm). Qed.

Theorem roundtrip_value32 : forall x : binary32, is_nan _ _ x = false ->
  exists b, soft_encode ilog2 pow2 fmt32 true (fval_of_b32 x) = Some b /\ 0 <= b < 2 ^ 32 /\
            soft_decode pow2 pow2s fmt32 b = Some (fval_of_b32 x).
Proof.
  intros x Hn. exists (bits_of_b32 x). split; [apply encode32; exact Hn |].
  pose proof (bits_of_binary_float_range 23 8 eq_refl eq_refl x) as Hr. split; [exact Hr |].
  rewrite decode32 by exact Hr. unfold b32_of_bits, bits_of_b32.
  rewrite binary_float_of_bits_of_binary_float. reflexivity.
Qed.
Theorem roundtrip_bits32 : forall b, 0 <= b < 2 ^ 32 -> is_nan _ _ (b32_of_bits b) = false ->
  exists v, soft_decode pow2 pow2s fmt32 b = Some v /\ soft_encode ilog2 pow2 fmt32 true v = Some b.
Proof.
  intros b Hb Hn. exists (fval_of_b32 (b32_of_bits b)). split; [apply decode32; exact Hb |].
  rewrite encode32 by exact Hn. unfold b32_of_bits, bits_of_b32.
  rewrite bits_of_binary_float_of_bits by exact Hb. reflexivity.
Qed.
Theorem any_mode_encode32 : forall c_use img, 0 <= img < 2 ^ 32 -> is_nan _ _ (b32_of_bits img) = false ->
  ieee_encode ilog2 pow2 fmt32 true c_use host32 img = Some img.
Proof.
  intros c_use img Hb Hn. unfold ieee_encode. destruct c_use; [reflexivity |].
  unfold host32. rewrite encode32 by exact Hn. unfold b32_of_bits, bits_of_b32.
  rewrite bits_of_binary_float_of_bits by exact Hb. reflexivity.
Qed.
Theorem any_mode_decode32 : forall c_use bits, 0 <= bits < 2 ^ 32 ->
  ieee_decode pow2 pow2s fmt32 c_use host32 bits = Some (host32 bits).
Proof. intros c_use bits Hb. unfold ieee_decode. destruct c_use; [reflexivity |]. apply decode32. exact Hb. Qed.
End Final32.

Section Final64.
Variable ilog2 : dy -> Z.
Variables pow2 pow2s : Z -> dy.
Hypothesis Hlibm : libm_ok fmt64 ilog2 pow2 pow2s.
Let R1 : fb fmt64 <= 1023. Proof. cbn; lia. Qed.
Let R2 : -1074 <= emin fmt64. Proof. cbn; lia. Qed.
Let R3 : emax fmt64 <= 1023. Proof. cbn; lia. Qed.

Theorem decode64 : forall bits, 0 <= bits < 2 ^ 64 ->
  soft_decode pow2 pow2s fmt64 bits = Some (fval_of_b64 (b64_of_bits bits)).
Proof.
  intros bits Hb. rewrite (dec_flocq fmt64 ilog2 pow2 pow2s Hlibm fmt64_ok R1 R2 R3 bits Hb).
  unfold fval_of_b64, b64_of_bits, binary_float_of_bits. rewrite B2FF_FF2B. reflexivity.
Qed.
Theorem encode64 : forall x : binary64, is_nan _ _ x = false ->
  soft_encode ilog2 pow2 fmt64 true (fval_of_b64 x) = Some (bits_of_b64 x).
Proof. intros x Hn. exact (enc_flocq fmt64 ilog2 pow2 pow2s Hlibm fmt64_ok R2 R3 x Hn). Qed.
Theorem encode64_cur_partial : forall x : binary64, is_nan _ _ x = false -> not_deep 52 (B2FF _ _ x) ->
  soft_encode ilog2 pow2 fmt64 false (fval_of_b64 x) = Some (bits_of_b64 x).
Proof. intros x Hn Hd. exact (enc_cur fmt64 ilog2 pow2 pow2s Hlibm fmt64_ok R2 R3 x Hn Hd). Qed.
Theorem encode64_cur_deep : forall s m, 0 < m < 2 ^ 51 ->
  soft_encode ilog2 pow2 fmt64 false (FFin s m (-1074)) = Some (join fmt64 s 0 (m * 2 ^ (51 - Z.log2 m))) /\
  soft_encode ilog2 pow2 fmt64 false (FFin s m (-1074)) <> Some (spec_encode fmt64 (FFin s m (-1074))).
Proof. intros s m Hm. exact (enc_cur_deep fmt64 ilog2 pow2 pow2s Hlibm fmt64_ok R2 R3 s m Hm). Qed.

Theorem roundtrip_value64 : forall x : binary64, is_nan _ _ x = false ->
  exists b, soft_encode ilog2 pow2 fmt64 true (fval_of_b64 x) = Some b /\ 0 <= b < 2 ^ 64 /\
            soft_decode pow2 pow2s fmt64 b = Some (fval_of_b64 x).
Proof.
  intros x Hn. exists (bits_of_b64 x). split; [apply encode64; exact Hn |].
  pose proof (bits_of_binary_float_range 52 11 eq_refl eq_refl x) as Hr. split; [exact Hr |].
  rewrite decode64 by exact Hr. unfold b64_of_bits, bits_of_b64.
  rewrite binary_float_of_bits_of_binary_float. reflexivity.
Qed.
Theorem roundtrip_bits64 : forall b, 0 <= b < 2 ^ 64 -> is_nan _ _ (b64_of_bits b) = false ->
  exists v, soft_decode pow2 pow2s fmt64 b = Some v /\ soft_encode ilog2 pow2 fmt64 true v = Some b.
Proof.
  intros b Hb Hn. exists (fval_of_b64 (b64_of_bits b)). split; [apply decode64; exact Hb |].
  rewrite encode64 by exact Hn. unfold b64_of_bits, bits_of_b64.
  rewrite bits_of_binary_float_of_bits by exact Hb. reflexivity.
Qed.
Theorem any_mode_encode64 : forall c_use img, 0 <= img < 2 ^ 64 -> is_nan _ _ (b64_of_bits img) = false ->
  ieee_encode ilog2 pow2 fmt64 true c_use host64 img = Some img.
Proof.
  intros c_use img Hb Hn. unfold ieee_encode. destruct c_use; [reflexivity |].
  unfold host64. rewrite encode64 by exact Hn. unfold b64_of_bits, bits_of_b64.
  rewrite bits_of_binary_float_of_bits by exact Hb. reflexivity.
Qed.
Theorem any_mode_decode64 : forall c_use bits, 0 <= bits < 2 ^ 64 ->
  ieee_decode pow2 pow2s fmt64 c_use host64 bits = Some (host64 bits).
Proof. intros c_use bits Hb. unfold ieee_decode. destruct c_use; [reflexivity |]. apply decode64. exact Hb. Qed.
End Final64.

(* the native path is the identity on memory images, whatever the platform attaches to them *)
Theorem native_identity : forall ilog2 pow2 pow2s f fixsub host img,
  ieee_encode ilog2 pow2 f fixsub true host img = Some img /\
  ieee_decode pow2 pow2s f true host img = Some (host img).
Proof. intros. split; reflexivity. Qed.

(* selection of the native path *)
Theorem selection_fixed : forall use,
  check_compliance true true true true true true = true /\
  use_C_ieee754 true 0 true true true true true use = (1, use).
Proof. intros use. split; [reflexivity |]. destruct use; reflexivity. Qed.
Theorem selection_sound : forall fixsel checked sz sg sl dl m2 use,
  snd (use_C_ieee754 fixsel checked sz sg sl dl m2 use) = true ->
  use = true /\ (checked = 0 -> sz && sg && sl && dl && (m2 || negb fixsel) = true /\ fixsel = true).
Proof.
  intros fixsel checked sz sg sl dl m2 use. unfold use_C_ieee754, check_compliance. cbn [snd].
  destruct use; [| rewrite andb_false_r; discriminate]. intros H. split; [reflexivity |].
  intros ->. cbn [Z.eqb] in H.
  destruct fixsel, sz, sg, sl, dl, m2; cbn in H; try discriminate; split; reflexivity.
Qed.
Theorem selection_cur_refuted : forall sz sg sl dl m2 use,
  use_C_ieee754 false 0 sz sg sl dl m2 use = (-1, false).
Proof. intros. unfold use_C_ieee754, check_compliance. destruct sz, sg, sl, dl; reflexivity. Qed.

(* the encoder as it stands mis-encodes subnormals: concrete witnesses, with the exact libm *)
Theorem encode32_cur_refuted :
  exists x : binary32, is_nan _ _ x = false /\
    soft_encode ilog2_exact pow2_exact fmt32 false (fval_of_b32 x) <> Some (bits_of_b32 x).
Proof. exists (b32_of_bits 1). split; [reflexivity |]. vm_compute. discriminate. Qed.
Theorem encode64_cur_refuted :
  exists x : binary64, is_nan _ _ x = false /\
    soft_encode ilog2_exact pow2_exact fmt64 false (fval_of_b64 x) <> Some (bits_of_b64 x).
Proof. exists (b64_of_bits 1). split; [reflexivity |]. vm_compute. discriminate. Qed.
Theorem encode_cur_witnesses :
  soft_encode ilog2_exact pow2_exact fmt32 false (FFin false 1 (-149)) = Some 0x00400000 /\
  spec_encode fmt32 (FFin false 1 (-149)) = 1 /\
  soft_encode ilog2_exact pow2_exact fmt32 false (FFin false 0x12345 (-149)) = Some 0x0048d140 /\
  soft_encode ilog2_exact pow2_exact fmt64 false (FFin false 1 (-1074)) = Some 0x0008000000000000 /\
  spec_encode fmt64 (FFin false 1 (-1074)) = 1.
Proof. repeat split; vm_compute; reflexivity. Qed.
(* ---- the statements of Properties_C19.v that combine several of the theorems above *)
Definition full_statement (fixsub fixsel : bool) : Prop :=
  forall ilog2f ilog2d pow2 pow2f,
  libm_ok fmt32 ilog2f pow2 pow2f ->          (* logf, pow, powf *)
  libm_ok fmt64 ilog2d pow2 pow2 ->           (* log, pow *)
  (forall c_use img, 0 <= img < 2 ^ 32 -> is_nan _ _ (b32_of_bits img) = false ->
     ieee_encode ilog2f pow2 fmt32 fixsub c_use host32 img = Some img) /\
  (forall c_use img, 0 <= img < 2 ^ 64 -> is_nan _ _ (b64_of_bits img) = false ->
     ieee_encode ilog2d pow2 fmt64 fixsub c_use host64 img = Some img) /\
  (forall c_use bits, 0 <= bits < 2 ^ 32 ->
     ieee_decode pow2 pow2f fmt32 c_use host32 bits = Some (fval_of_b32 (b32_of_bits bits))) /\
  (forall c_use bits, 0 <= bits < 2 ^ 64 ->
     ieee_decode pow2 pow2 fmt64 c_use host64 bits = Some (fval_of_b64 (b64_of_bits bits))) /\
  (forall use, use_C_ieee754 fixsel 0 true true true true true use = (1, use)).


Lemma full_repaired : full_statement true true.
Proof.
  intros ilog2f ilog2d pow2 pow2f H32 H64. split; [| split; [| split; [| split]]].
  - intros; apply (any_mode_encode32 ilog2f pow2 pow2f H32); assumption.
  - intros; apply (any_mode_encode64 ilog2d pow2 pow2 H64); assumption.
  - intros; apply (any_mode_decode32 ilog2f pow2 pow2f H32); assumption.
  - intros; apply (any_mode_decode64 ilog2d pow2 pow2 H64); assumption.
  - intros use. exact (proj2 (selection_fixed use)).
Qed.

Lemma full_cur_refuted : ~ full_statement false false /\ ~ full_statement false true /\ ~ full_statement true false.
Proof.
  assert (Hsub : forall fixsel, ~ full_statement false fixsel).
  { intros fixsel H. destruct (H _ _ _ _ (libm_exact_ok fmt32 fmt32_ok) (libm_exact_ok fmt64 fmt64_ok)) as (He & _).
    specialize (He false 1 ltac:(split; [discriminate | reflexivity]) eq_refl). vm_compute in He. discriminate. }
  split; [apply Hsub | split; [apply Hsub |]].
  intros H. destruct (H _ _ _ _ (libm_exact_ok fmt32 fmt32_ok) (libm_exact_ok fmt64 fmt64_ok)) as (_ & _ & _ & _ & Hs).
  specialize (Hs true). discriminate.
Qed.

Lemma decode_both :
  (forall ilog2 pow2 pow2s, libm_ok fmt32 ilog2 pow2 pow2s ->
   forall bits, 0 <= bits < 2 ^ 32 -> soft_decode pow2 pow2s fmt32 bits = Some (fval_of_b32 (b32_of_bits bits))) /\
  (forall ilog2 pow2 pow2s, libm_ok fmt64 ilog2 pow2 pow2s ->
   forall bits, 0 <= bits < 2 ^ 64 -> soft_decode pow2 pow2s fmt64 bits = Some (fval_of_b64 (b64_of_bits bits))).
Proof. split; [exact decode32 | exact decode64]. Qed.

Lemma encode_both :
  (forall ilog2 pow2 pow2s, libm_ok fmt32 ilog2 pow2 pow2s ->
   forall x : binary32, is_nan _ _ x = false -> soft_encode ilog2 pow2 fmt32 true (fval_of_b32 x) = Some (bits_of_b32 x)) /\
  (forall ilog2 pow2 pow2s, libm_ok fmt64 ilog2 pow2 pow2s ->
   forall x : binary64, is_nan _ _ x = false -> soft_encode ilog2 pow2 fmt64 true (fval_of_b64 x) = Some (bits_of_b64 x)).
Proof. split; [exact encode32 | exact encode64]. Qed.

Lemma encode_cur_partial_both :
  (forall ilog2 pow2 pow2s, libm_ok fmt32 ilog2 pow2 pow2s ->
   forall x : binary32, is_nan _ _ x = false -> not_deep 23 (B2FF _ _ x) ->
   soft_encode ilog2 pow2 fmt32 false (fval_of_b32 x) = Some (bits_of_b32 x)) /\
  (forall ilog2 pow2 pow2s, libm_ok fmt64 ilog2 pow2 pow2s ->
   forall x : binary64, is_nan _ _ x = false -> not_deep 52 (B2FF _ _ x) ->
   soft_encode ilog2 pow2 fmt64 false (fval_of_b64 x) = Some (bits_of_b64 x)).
Proof. split; [exact encode32_cur_partial | exact encode64_cur_partial]. Qed.

Lemma roundtrip_all :
  (forall ilog2 pow2 pow2s, libm_ok fmt32 ilog2 pow2 pow2s ->
   forall x : binary32, is_nan _ _ x = false ->
   exists b, soft_encode ilog2 pow2 fmt32 true (fval_of_b32 x) = Some b /\ 0 <= b < 2 ^ 32 /\
             soft_decode pow2 pow2s fmt32 b = Some (fval_of_b32 x)) /\
  (forall ilog2 pow2 pow2s, libm_ok fmt64 ilog2 pow2 pow2s ->
   forall x : binary64, is_nan _ _ x = false ->
   exists b, soft_encode ilog2 pow2 fmt64 true (fval_of_b64 x) = Some b /\ 0 <= b < 2 ^ 64 /\
             soft_decode pow2 pow2s fmt64 b = Some (fval_of_b64 x)) /\
  (forall ilog2 pow2 pow2s, libm_ok fmt32 ilog2 pow2 pow2s ->
   forall b, 0 <= b < 2 ^ 32 -> is_nan _ _ (b32_of_bits b) = false ->
   exists v, soft_decode pow2 pow2s fmt32 b = Some v /\ soft_encode ilog2 pow2 fmt32 true v = Some b) /\
  (forall ilog2 pow2 pow2s, libm_ok fmt64 ilog2 pow2 pow2s ->
   forall b, 0 <= b < 2 ^ 64 -> is_nan _ _ (b64_of_bits b) = false ->
   exists v, soft_decode pow2 pow2s fmt64 b = Some v /\ soft_encode ilog2 pow2 fmt64 true v = Some b).
Proof. split; [exact roundtrip_value32 | split; [exact roundtrip_value64 | split; [exact roundtrip_bits32 | exact roundtrip_bits64]]]. Qed.

Lemma layout_is_flocq :
  (forall bits, 0 <= bits -> spec_decode fmt32 bits = fval_of_b32 (b32_of_bits bits)) /\
  (forall bits, 0 <= bits -> spec_decode fmt64 bits = fval_of_b64 (b64_of_bits bits)) /\
  (forall x : binary32, is_nan _ _ x = false -> spec_encode fmt32 (fval_of_b32 x) = bits_of_b32 x) /\
  (forall x : binary64, is_nan _ _ x = false -> spec_encode fmt64 (fval_of_b64 x) = bits_of_b64 x).
Proof. repeat split; [exact b32_bridge | exact b64_bridge | exact b32_bridge_enc | exact b64_bridge_enc]. Qed.
