(* Tmpl.v — executable model of the template text format of libecbufr (API/Sources/bufr_template.c):
   bufr_save_template, bufr_load_template, bufr_copy_template, bufr_compare_template, together with the pieces of
   bufr_value.c they use (bufr_print_value, bufr_value_set_string) and of libc (printf %d %f %.14E, atoi, atol, strtof,
   strtok_r), the latter as concrete integer arithmetic.  Definitions only; proofs are in TmplProof.v.
   A template is what the library keeps in BUFR_Template.edition and BUFR_Template.codets: the edition and the Section 3
   list, each descriptor with its list of default values (BufrDescValue.values). *)
From Coq Require Import List ZArith NArith Arith Lia Bool.
From V Require Import Walk Fm94 Fm94Exp.
Import ListNotations.
Local Open Scope Z_scope.

(* ------------------------------------------------------------------ text *)
Definition text := list Z.                      (* bytes 0..255 *)
(* string constants (as byte lists, so that no string type is extracted) *)
Definition s_head2 : text := [32;67;111;100;101;115;32;111;102;32;115;101;99;116;105;111;110;32;51;32;111;114;32;84;101;109;112;108;97;116;101].   (* " Codes of section 3 or Template" *)
Definition s_hash : text := [35].   (* "#" *)
Definition s_head1 : text := [35;32;84;104;105;115;32;102;105;108;101;32;99;111;110;116;97;105;110;115;32].   (* "# This file contains " *)
Definition s_zero_e : text := [48;46;48;48;48;48;48;48;48;48;48;48;48;48;48;48;69;43;48;48].   (* "0.00000000000000E+00" *)
Definition s_BUFR_EDITION : text := [66;85;70;82;95;69;68;73;84;73;79;78].   (* "BUFR_EDITION" *)
Definition s_BUFR_EDITION_eq : text := [66;85;70;82;95;69;68;73;84;73;79;78;61].   (* "BUFR_EDITION=" *)
Definition s_LOCAL_TABLEB : text := [76;79;67;65;76;95;84;65;66;76;69;66].   (* "LOCAL_TABLEB" *)
Definition s_LOCAL_TABLED : text := [76;79;67;65;76;95;84;65;66;76;69;68].   (* "LOCAL_TABLED" *)
Definition s_MASTER_TABLEB : text := [77;65;83;84;69;82;95;84;65;66;76;69;66].   (* "MASTER_TABLEB" *)
Definition s_MASTER_TABLED : text := [77;65;83;84;69;82;95;84;65;66;76;69;68].   (* "MASTER_TABLED" *)
Definition s_MSNG : text := [77;83;78;71].   (* "MSNG" *)
Definition s_VALUE : text := [86;65;76;85;69].   (* "VALUE" *)
Definition s_cVALUE : text := [44;86;65;76;85;69;61].   (* ",VALUE=" *)
Definition s_cVALUES : text := [44;86;65;76;85;69;83;61].   (* ",VALUES=" *)
Fixpoint text_eqb (a b:text) : bool :=
  match a, b with [] , [] => true | x :: a', y :: b' => (x =? y) && text_eqb a' b' | _, _ => false end.
Fixpoint starts (p s:text) : bool :=
  match p, s with [], _ => true | x :: p', y :: s' => (x =? y) && starts p' s' | _ :: _, [] => false end.
(* a C string ends at the first NUL *)
Fixpoint cut0 (s:text) : text := match s with [] => [] | c :: t => if c =? 0 then [] else c :: cut0 t end.

Definition isdigit (c:Z) : bool := (48 <=? c) && (c <=? 57).
Definition isspace (c:Z) : bool := (c =? 32) || ((9 <=? c) && (c <=? 13)).
Definition digit (n:Z) : Z := 48 + n mod 10.

(* ------------------------------------------------------------------ printf %d / %lld *)
Fixpoint dec_fuel (fuel:nat) (n:Z) : text :=
  match fuel with
  | O => []
  | S f => if n <? 10 then [digit n] else dec_fuel f (n / 10) ++ [digit n]
  end.
Definition dec (n:Z) : text := dec_fuel (S (Z.to_nat (Z.log2 n))) n.          (* n >= 0 *)
Definition print_Z (z:Z) : text := if z <? 0 then 45 :: dec (- z) else dec z.
(* exactly k digits, most significant first (n < 10^k) *)
Fixpoint fixed_digits (k:nat) (n:Z) : text :=
  match k with O => [] | S k' => fixed_digits k' (n / 10) ++ [digit n] end.

(* ------------------------------------------------------------------ atoi / atol (glibc: strtol clamps to long, atoi truncates to int) *)
Fixpoint skipb (p:Z -> bool) (s:text) : text := match s with c :: t => if p c then skipb p t else s | [] => [] end.
Fixpoint digits_val (acc:Z) (s:text) : Z :=
  match s with c :: t => if isdigit c then digits_val (10 * acc + (c - 48)) t else acc | [] => acc end.
Definition clamp64 (z:Z) : Z := Z.max (- 2 ^ 63) (Z.min (2 ^ 63 - 1) z).
Definition wrap32 (z:Z) : Z := (z + 2 ^ 31) mod 2 ^ 32 - 2 ^ 31.
Definition strtol (s:text) : Z :=
  match skipb isspace s with
  | c :: t => if c =? 45 then clamp64 (- digits_val 0 t)
              else if c =? 43 then clamp64 (digits_val 0 t)
              else clamp64 (digits_val 0 (c :: t))
  | [] => 0
  end.
Definition atol (s:text) : Z := strtol s.
Definition atoi (s:text) : Z := wrap32 (strtol s).

(* ------------------------------------------------------------------ strtok_r *)
Definition dl_sp_tab_nl_comma_eq (c:Z) : bool := (c =? 32) || (c =? 9) || (c =? 10) || (c =? 44) || (c =? 61).   (* " \t\n,=" *)
Definition dl_tab_nl_comma_eq (c:Z) : bool := (c =? 9) || (c =? 10) || (c =? 44) || (c =? 61).                    (* "\t\n,=" *)
Definition dl_tab_nl_comma (c:Z) : bool := (c =? 9) || (c =? 10) || (c =? 44).                                     (* "\t\n," *)
Definition dl_sp_eq_tab_nl (c:Z) : bool := (c =? 32) || (c =? 61) || (c =? 9) || (c =? 10).                        (* " =\t\n" *)
Fixpoint spand (dl:Z -> bool) (s:text) : text * text :=
  match s with
  | [] => ([], [])
  | c :: t => if dl c then ([], t) else let '(a, b) := spand dl t in (c :: a, b)
  end.
(* one call of strtok_r: the token and the saved pointer, or NULL *)
Definition strtok (dl:Z -> bool) (s:text) : option (text * text) :=
  match skipb dl s with [] => None | s1 => Some (spand dl s1) end.
(* all further calls with the same delimiters: the non-empty runs of non-delimiters (cur = current run, reversed) *)
Fixpoint tokens (dl:Z -> bool) (s:text) (cur:text) : list text :=
  match s with
  | [] => match cur with [] => [] | _ => [rev cur] end
  | c :: t => if dl c then (match cur with [] => tokens dl t [] | _ => rev cur :: tokens dl t [] end)
              else tokens dl t (c :: cur)
  end.

(* ------------------------------------------------------------------ floating point: exact dyadic arithmetic *)
(* a finite double or float is m * 2^e; normal form: m odd, or m = 0 and e = 0 *)
Fixpoint norm_fuel (fuel:nat) (m e:Z) : Z * Z :=
  match fuel with
  | O => (m, e)
  | S f => if m =? 0 then (0, 0) else if Z.even m then norm_fuel f (m / 2) (e + 1) else (m, e)
  end.
Definition norm (m e:Z) : Z * Z := norm_fuel (S (Z.to_nat (Z.log2 (Z.abs m)))) m e.
(* the rational num/den * 2^(-k) as a fraction *)
Definition scale2 (num den k:Z) : Z * Z := if 0 <=? k then (num, den * 2 ^ k) else (num * 2 ^ (- k), den).
Definition scale10 (num den k:Z) : Z * Z := if 0 <=? k then (num, den * 10 ^ k) else (num * 10 ^ (- k), den).
(* round half to even of num/den (num >= 0, den > 0) *)
Definition rhe (num den:Z) : Z :=
  let q := num / den in let r := num mod den in
  if 2 * r <? den then q else if den <? 2 * r then q + 1 else if Z.even q then q else q + 1.
(* m * 2^e as a fraction *)
Definition frac_of (m e:Z) : Z * Z := if 0 <=? e then (m * 2 ^ e, 1) else (m, 2 ^ (- e)).
(* m1*2^e1 < m2*2^e2 *)
Definition dy_ltb (m1 e1 m2 e2:Z) : bool :=
  let '(n1, d1) := frac_of m1 e1 in let '(n2, d2) := frac_of m2 e2 in n1 * d2 <? n2 * d1.

(* nearest binary floating-point number (ties to even) of the positive rational num/den, with prec bits of precision, least
   exponent emin of the last place and overflow at 2^emax; None = overflow to infinity *)
Definition round_bin (prec emin emax:Z) (num den:Z) : option (Z * Z) :=
  let l := Z.log2 num - Z.log2 den in
  let '(n0, d0) := scale2 num den l in                    (* num/den / 2^l, in (1/2, 2) *)
  let e1 := if n0 <? d0 then l - prec else l - (prec - 1) in        (* 2^(prec-1) <= num/den / 2^e1 < 2^prec *)
  let e := Z.max e1 emin in
  let '(n, d) := scale2 num den e in
  let q := rhe n d in
  if (q =? 0) then Some (0, 0)
  else if emax <=? e + Z.log2 q then None else Some (norm q e).
Definition round_f32 : Z -> Z -> option (Z * Z) := round_bin 24 (-149) 128.
Definition round_f64 : Z -> Z -> option (Z * Z) := round_bin 53 (-1074) 1024.
Definition flt_max_m := 2 ^ 24 - 1.   Definition flt_max_e := 104.
Definition dbl_max_m := 2 ^ 53 - 1.   Definition dbl_max_e := 971.

(* strtof on decimal text (hexadecimal floats, "inf" and "nan" are outside the model): sign, digits, '.', digits, exponent *)
Fixpoint span_digits (s:text) : text * text :=
  match s with c :: t => if isdigit c then let '(a, b) := span_digits t in (c :: a, b) else ([], s) | [] => ([], []) end.
Inductive fres := FInf | FVal (m e:Z).      (* FVal: normal form; the value as (double)strtof(..) *)
Definition str_to_float (rnd:Z -> Z -> option (Z * Z)) (s:text) : fres :=
  let s1 := skipb isspace s in
  let '(neg, s2) := match s1 with 45 :: t => (true, t) | 43 :: t => (false, t) | _ => (false, s1) end in
  let '(ip, s3) := span_digits s2 in
  let '(fp, s4) := match s3 with 46 :: t => span_digits t | _ => ([], s3) end in
  match ip ++ fp with
  | [] => FVal 0 0
  | ds =>
    let ex := match s4 with
              | c :: t => if (c =? 101) || (c =? 69) then
                            let '(eneg, t1) := match t with 45 :: u => (true, u) | 43 :: u => (false, u) | _ => (false, t) end in
                            let '(ed, _) := span_digits t1 in
                            match ed with [] => 0 | _ => if eneg then - digits_val 0 ed else digits_val 0 ed end
                          else 0
              | [] => 0
              end in
    let mant := digits_val 0 ds in
    let e10 := ex - Z.of_nat (length fp) in
    if mant =? 0 then FVal 0 0
    else if 100 <? e10 then FInf
    else if e10 <? - (Z.of_nat (length ds) + 100) then FVal 0 0
    else
      let '(n, d) := scale10 mant 1 (- e10) in
      match rnd n d with
      | None => FInf
      | Some (m, e) => FVal (if neg then - m else m) e
      end
  end.

Definition strtof : text -> fres := str_to_float round_f32.
Definition strtod : text -> fres := str_to_float round_f64.

(* printf("%f") of m*2^e >= 0, then str_trimchar(.., '0'): at most 6 decimals, trailing zeros and a trailing point removed *)
Fixpoint strip0 (r:text) : text := match r with c :: t => if c =? 48 then strip0 t else r | [] => [] end.   (* on the reversed digits *)
Definition print_f (m e:Z) : text :=
  let '(n0, d0) := frac_of m e in
  let n := rhe (n0 * 10 ^ 6) d0 in
  let fr := rev (strip0 (rev (fixed_digits 6 (n mod 10 ^ 6)))) in
  dec (n / 10 ^ 6) ++ match fr with [] => [] | _ => 46 :: fr end.
(* printf("%.14E") *)
Fixpoint up10 (fuel:nat) (n d k:Z) : Z :=          (* largest k' >= k (within fuel) with 10^k' <= n/d, given 10^k <= n/d *)
  match fuel with
  | O => k
  | S f => let '(a, b) := scale10 n d (k + 1) in if b <=? a then up10 f n d (k + 1) else k
  end.
Definition print_e (m e:Z) : text :=
  let sign := if m <? 0 then [45] else [] in
  if m =? 0 then s_zero_e else
  let '(n, d) := frac_of (Z.abs m) e in
  let l := Z.log2 n - Z.log2 d in
  let k0 := ((l - 1) * 30103) / 100000 - 2 in
  let k1 := up10 8 n d k0 in
  let '(a, b) := scale10 n d (k1 - 14) in
  let q := rhe a b in
  let '(q, k) := if 10 ^ 15 <=? q then (q / 10, k1 + 1) else (q, k1) in
  sign ++ (match fixed_digits 15 q with c :: t => c :: 46 :: t | [] => [] end)
       ++ [69] ++ (if k <? 0 then [45] else [43]) ++ (if Z.abs k <? 10 then [48] else []) ++ dec (Z.abs k).

(* bufr_print_value on a FLT64 (scale == INT_MAX): "MSNG", %.14E below 0.00001 or above INT_MAX, else %f trimmed *)
Definition one_e_minus5_m := 5902958103587057.   Definition one_e_minus5_e := -69.     (* the double 0.00001 *)
Definition print_flt (m e:Z) : text :=
  if (m =? dbl_max_m) && (e =? dbl_max_e) then s_MSNG
  else if dy_ltb m e one_e_minus5_m one_e_minus5_e || dy_ltb 2147483647 0 m e then print_e m e
  else print_f m e.

(* ------------------------------------------------------------------ values and templates *)
Inductive dvalue :=
| DInt32 (z:Z)          (* VALTYPE_INT32 *)
| DInt64 (z:Z)          (* VALTYPE_INT64 *)
| DFlt (m e:Z)          (* VALTYPE_FLT64 holding the finite double m*2^e (normal form) *)
| DStr (s:text)         (* VALTYPE_STRING: len = length s *)
| DNull.                (* values[j] == NULL *)
Record item := mkItem { i_desc : Z; i_vals : list dvalue }.
Record template := mkTmpl { t_ed : Z; t_items : list item }.
Definition descs (t:template) : list Z := map i_desc (t_items t).

(* bufr_value_set_string(bv, str, len) *)
Definition set_string (s:text) (n:Z) : text :=
  let k := firstn (Z.to_nat n) (cut0 s) in
  k ++ repeat (if forallb (fun c => c =? 255) k then 255 else 32) (Z.to_nat n - length k).

(* the value type the loader picks: bufr_encoding_to_valtype of the Table B entry; without an entry
   bufr_datatype_to_valtype(bufr_descriptor_to_datatype(..)): a 2 05 YYY string or nothing *)
Inductive vtype := TInt32 | TInt64 | TFlt64 | TString (len:Z) | TUndef.
Definition value_nbits (x:Z) : Z := Z.log2 (x + 1) + 1.            (* bufr_value_nbits, x >= 0 *)
Definition vtype_of_bent (b:bent) : vtype :=
  match b_kind b with
  | UStr => TString (b_width b / 8)
  | UNum =>
      if (b_scale b =? 0) && (0 <=? b_ref b) then
        let rb := if b_ref b =? 0 then 0 else value_nbits (b_ref b) in
        if b_width b + rb <=? 32 then TInt32 else if b_width b + rb <=? 64 then TInt64 else TFlt64
      else TFlt64
  | UCode | UFlag => if b_width b <=? 32 then TInt32 else TInt64
  end.
Definition vtype_of (T:tables) (d:Z) : vtype :=
  match lookupB T d with
  | Some b => vtype_of_bent b
  | None => if (dF d =? 2) && (dX d =? 5) then TString (dY d) else TUndef
  end.

(* ------------------------------------------------------------------ bufr_save_template *)
(* bufr_print_value: None = nothing printed (NULL value) *)
Definition print_value (v:dvalue) : option text :=
  match v with
  | DNull => None
  | DInt32 z | DInt64 z => Some (if z =? -1 then s_MSNG else print_Z z)
  | DFlt m e => Some (print_flt m e)
  | DStr s => Some (34 :: cut0 s ++ [34])
  end.
(* the loop over values[j]: "%s\n" after every value, "," when j > 0 and j+1 < nbval *)
Fixpoint save_vals (n j:Z) (vs:list dvalue) : text :=
  match vs with
  | [] => []
  | v :: t => (match print_value v with Some s => s ++ [10] | None => [] end)
              ++ (if (0 <? j) && (j + 1 <? n) then [44] else []) ++ save_vals n (j + 1) t
  end.
Definition save_item (it:item) : text :=
  print_Z (i_desc it)
  ++ (match i_vals it with
      | [] => []
      | vs => (if 1 <? Z.of_nat (length vs) then s_cVALUES else s_cVALUE) ++ save_vals (Z.of_nat (length vs)) 0 vs
      end)
  ++ [10].
Definition save_text (t:template) : text :=
  s_head1 ++ print_Z (Z.of_nat (length (t_items t))) ++ s_head2 ++ [10]
  ++ s_BUFR_EDITION_eq ++ print_Z (t_ed t) ++ [10]
  ++ s_hash ++ [10]
  ++ concat (map save_item (t_items t))
  ++ s_hash ++ [10].

(* lines as fgets delivers them (the newline itself dropped: it is a delimiter of every strtok call) *)
Fixpoint split_nl (s:text) (cur:text) : list text :=
  match s with
  | [] => [rev cur]
  | c :: t => if c =? 10 then rev cur :: split_nl t [] else split_nl t (c :: cur)
  end.
Definition save (t:template) : list text := split_nl (save_text t) [].

(* ------------------------------------------------------------------ bufr_load_template *)
Definition parse_val (ty:vtype) (tok:text) : dvalue :=
  match ty with
  | TString n => DStr (set_string tok n)
  | TInt64 => DInt64 (atol tok)
  | TInt32 => DInt32 (atoi tok)
  | TFlt64 =>
      if text_eqb tok s_MSNG then DNull
      else match strtof tok with
           | FInf => DNull
           | FVal m e => if ((Z.abs m =? flt_max_m) && (e =? flt_max_e)) then
                           (if m <? 0 then DFlt m e else DNull)        (* bufr_is_missing_float: == FLT_MAX *)
                         else DFlt m e
           end
  | TUndef => DNull
  end.

Record lstate := mkL { l_ed : Z; l_seq : list item }.      (* l_seq: most recent first *)
(* one line; vals = how the list behind the VALUE keyword is read (the text behind the delimiter that ended the keyword) *)
Definition load_line_gen (vals:vtype -> text -> list dvalue) (T:tables) (st:lstate) (line0:text) : lstate :=
  let line := cut0 line0 in
  if (match line with c :: _ => (c =? 35) || (c =? 42) | [] => false end) then st      (* '#', '*' *)
  else if starts s_LOCAL_TABLEB line || starts s_MASTER_TABLEB line
       || starts s_LOCAL_TABLED line || starts s_MASTER_TABLED line then st    (* table files: outside the model *)
  else if starts s_BUFR_EDITION line then
    match strtok dl_sp_eq_tab_nl (skipn 12 line) with
    | Some (tok, _) => mkL (atoi tok) (l_seq st)
    | None => st
    end
  else
    match strtok dl_sp_tab_nl_comma_eq line with
    | None => st
    | Some (tok, r) =>
      let d := atoi tok in
      let ty := vtype_of T d in
      let vs :=
        match strtok dl_sp_tab_nl_comma_eq r with
        | Some (k, r2) => if text_eqb k s_VALUE then vals ty r2 else []
        | None => []
        end in
      mkL (l_ed st) (mkItem d vs :: l_seq st)
    end.
(* the code as it stands: the first value up to \t \n , = and the further ones up to \t \n , *)
Definition legacy_values (ty:vtype) (r2:text) : list dvalue :=
  match strtok dl_tab_nl_comma_eq r2 with
  | Some (v1, r3) => parse_val ty v1 :: map (parse_val ty) (tokens dl_tab_nl_comma r3 [])
  | None => []
  end.
Definition load_line : tables -> lstate -> text -> lstate := load_line_gen legacy_values.
Definition load_lines_gen (vals:vtype -> text -> list dvalue) (T:tables) (lines:list text) : lstate :=
  fold_left (load_line_gen vals T) lines (mkL 4 []).
Definition load_lines : tables -> list text -> lstate := load_lines_gen legacy_values.

(* bufr_is_descriptor *)
Definition is_descriptor (d:Z) : bool := (0 <=? d) && (dF d <=? 3) && (dY d <? 256).
(* bufr_finalize_template: every descriptor valid and known, replication resolvable (C10: Fm94Exp.accepts) *)
Definition finalize_ok (fuel:nat) (T:tables) (ds:list Z) : bool := forallb is_descriptor ds && accepts fuel T ds.

Definition parse_lines_gen (vals:vtype -> text -> list dvalue) (T:tables) (lines:list text) : template :=
  let st := load_lines_gen vals T lines in mkTmpl (l_ed st) (rev (l_seq st)).
Definition load_gen (vals:vtype -> text -> list dvalue) (fuel:nat) (T:tables) (lines:list text) : result template :=
  let t := parse_lines_gen vals T lines in
  if finalize_ok fuel T (descs t) then Ok t else Err Reject.
Definition parse_lines : tables -> list text -> template := parse_lines_gen legacy_values.
Definition load : nat -> tables -> list text -> result template := load_gen legacy_values.
Definition load_text (fuel:nat) (T:tables) (s:text) : result template := load fuel T (split_nl s []).

(* ------------------------------------------------------------------ bufr_copy_template *)
(* bufr_duplicate_value: bufr_create_value(type) + bufr_copy_value *)
Definition dup_value (v:dvalue) : dvalue :=
  match v with
  | DStr s => DStr (set_string s (Z.of_nat (length s)))
  | _ => v
  end.
Definition dup_item (it:item) : item := mkItem (i_desc it) (map dup_value (i_vals it)).
Definition copy (fuel:nat) (T:tables) (t:template) : result template :=
  let t' := mkTmpl (t_ed t) (map dup_item (t_items t)) in
  if finalize_ok fuel T (descs t') then Ok t' else Err Reject.

(* ------------------------------------------------------------------ bufr_compare_template *)
(* the expanded list a finalized template keeps (gabarit): Table D and fixed replication expanded in place behind their
   descriptor, delayed replication left as it is *)
Fixpoint gexpand (fuel:nat) (T:tables) (ds:list Z) : result (list Z) :=
  match fuel with
  | O => Err OutOfFuel
  | S f =>
    match ds with
    | [] => Ok []
    | d :: rest =>
      if dF d =? 3 then
        match lookupD T d with Some seq => tl <- gexpand f T (seq ++ rest) ;; Ok (d :: tl) | None => Err Reject end
      else if dF d =? 1 then
        let x := Z.to_nat (dX d) in
        if dY d =? 0 then
          match rest with
          | c :: rest' =>
            if is_factor c then
              if (length rest' <? x)%nat then Err Reject else
              tl <- gexpand f T (skipn x rest') ;; Ok (d :: c :: firstn x rest' ++ tl)
            else Err Reject
          | [] => Err Reject
          end
        else
          if (length rest <? x)%nat then Err Reject else
          tl <- gexpand f T (rep (Z.to_nat (dY d)) (firstn x rest) ++ skipn x rest) ;; Ok (d :: tl)
      else
        tl <- gexpand f T rest ;; Ok (d :: tl)
    end
  end.
Fixpoint zlist_eqb (a b:list Z) : bool :=
  match a, b with [], [] => true | x :: a', y :: b' => (x =? y) && zlist_eqb a' b' | _, _ => false end.
(* 0 = same, -1 = different: only the descriptors of the expanded lists are looked at (not the edition, not the
   default values, not the tables) *)
Definition tcompare (fuel:nat) (T:tables) (t1 t2:template) : Z :=
  match gexpand fuel T (descs t1), gexpand fuel T (descs t2) with
  | Ok a, Ok b => if zlist_eqb a b then 0 else -1
  | _, _ => -1
  end.

(* ------------------------------------------------------------------ quantisation (for the statements about FLT defaults) *)
(* the raw value the regulation assigns to the physical value m*2^e under a scale and a reference (round half away from 0) *)
Definition quant (scale ref:Z) (m e:Z) : Z :=
  let '(n, d) := frac_of (Z.abs m) e in
  let '(a, b) := scale10 n d (- scale) in
  let q := (2 * a + b) / (2 * b) in
  (if m <? 0 then - q else q) - ref.

(* ------------------------------------------------------------------ predicates used in the statements *)
(* a template object exists: bufr_create_template / bufr_finalize_template accepted the descriptor list *)
Definition wf_template (fuel:nat) (T:tables) (t:template) : Prop :=
  finalize_ok fuel T (descs t) = true /\ 0 <= t_ed t < 2 ^ 31.
(* the default has the value type the library itself gives the element (bufr_encoding_to_valtype), as in Examples/encode_freeform_tmpl.c *)
Definition natural_value (ty:vtype) (v:dvalue) : Prop :=
  match ty, v with
  | TInt32, DInt32 z => - 2 ^ 31 <= z < 2 ^ 31
  | TInt64, DInt64 z => - 2 ^ 63 <= z < 2 ^ 63
  | TFlt64, DFlt m e => norm m e = (m, e)
  | TString n, DStr s => Z.of_nat (length s) = n /\ forallb (fun c => (0 <? c) && (c <? 256)) s = true
  | _, _ => False
  end.
Definition natural (T:tables) (t:template) : Prop :=
  Forall (fun it => Forall (natural_value (vtype_of T (i_desc it))) (i_vals it)) (t_items t).
(* what the text format of the current code carries: at most one default per descriptor; an integer other than -1;
   a FLT64 that its own printed form (%f trimmed / %.14E) read by strtof gives back.  No character default qualifies. *)
Definition flt_carried (m e:Z) : Prop := parse_val TFlt64 (print_flt m e) = DFlt m e.
Definition carried_value (ty:vtype) (v:dvalue) : Prop :=
  match ty, v with
  | TInt32, DInt32 z => z <> -1 /\ - 2 ^ 31 <= z < 2 ^ 31
  | TInt64, DInt64 z => z <> -1 /\ - 2 ^ 63 <= z < 2 ^ 63
  | TFlt64, DFlt m e => flt_carried m e
  | _, _ => False
  end.
Definition carried_item (T:tables) (it:item) : Prop :=
  match i_vals it with
  | [] => True
  | [v] => carried_value (vtype_of T (i_desc it)) v
  | _ => False
  end.
Definition carried (T:tables) (t:template) : Prop := Forall (carried_item T) (t_items t).
(* strings as C can hold them *)
Definition no_nul_value (v:dvalue) : Prop := match v with DStr s => forallb (fun c => negb (c =? 0)) s = true | _ => True end.
Definition no_nul (t:template) : Prop := Forall (fun it => Forall no_nul_value (i_vals it)) (t_items t).
(* two defaults of an element are the same when they stand for the same raw value under the element's Table B encoding
   (FLT64: the same quantised integer), and are identical otherwise *)
Definition value_equiv (T:tables) (d:Z) (v v':dvalue) : Prop :=
  match v, v', lookupB T d with
  | DFlt m e, DFlt m' e', Some b => quant (b_scale b) (b_ref b) m e = quant (b_scale b) (b_ref b) m' e'
  | _, _, _ => v = v'
  end.
