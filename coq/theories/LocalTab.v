(* LocalTab.v — executable mirror of API/Sources/bufr_local.c: bufr_store_tables (the hand-written Section 3 and
   Section 4 of a local table update message, BUFR data category 11) and bufr_extract_tables (the switch over the decoded
   class 00 elements), plus the printf / atoi / strimdup / bufr_unit_to_datatype helpers they rely on.
   Definitions only; proofs are in LocalTabProof.v.
   Characters are N (as in BitIO.v and Fm94.v); C strings are lists of non-zero characters. *)
From Coq Require Import List ZArith NArith Arith Lia Bool.
From V Require Import Walk BitIO Fm94.
Import ListNotations.
Local Open Scope Z_scope.

Definition str := list N.

(* ------------------------------------------------------------------ local tables *)
(* EntryTableB: descriptor, description, unit, encoding.{scale,reference,nbits,type} and the two auxiliary
   encoding fields af_nbits / ref_nbits (0 in every entry made by bufr_new_EntryTableB / the table loader) *)
Record lb_entry := mkLB { lb_desc : Z; lb_name : str; lb_unit : str; lb_scale : Z; lb_ref : Z; lb_width : Z;
                          lb_kind : ukind; lb_aux : Z * Z }.
(* EntryTableD: descriptor and its sequence *)
Record ld_entry := mkLD { ld_desc : Z; ld_seq : list Z }.
(* BUFR_Tables.local + data_cat / data_cat_desc[64] *)
Record ltables := mkLT { lt_cat : Z; lt_cdesc : str; lt_B : list lb_entry; lt_D : list ld_entry }.

(* ------------------------------------------------------------------ sprintf("%d") *)
(* decimal digits, least significant first *)
Fixpoint dec_rev (fuel:nat) (n:N) : str :=
  match fuel with
  | O => []
  | S f => if (n <? 10)%N then [(48 + n)%N] else ((48 + n mod 10)%N :: dec_rev f (n / 10)%N)
  end.
Definition dec_digits (n:N) : str := rev (dec_rev (S (N.to_nat (N.log2 n))) n).
Definition pad_left (c:N) (w:nat) (l:str) : str := repeat c (w - length l) ++ l.
Definition sign_chars (z:Z) : str := if z <? 0 then [45%N] else [].
(* "%.<w>d": at least w digits, zero filled; a minus sign comes in front *)
Definition fmt_prec (w:nat) (z:Z) : str := sign_chars z ++ pad_left 48%N w (dec_digits (Z.abs_N z)).
(* "%<w>d": at least w characters, blank filled on the left *)
Definition fmt_width (w:nat) (z:Z) : str := pad_left 32%N w (sign_chars z ++ dec_digits (Z.abs_N z)).

(* ------------------------------------------------------------------ atoi, isspace, strimdup, toupper *)
Definition is_space (c:N) : bool := (c =? 32)%N || ((9 <=? c)%N && (c <=? 13)%N).
Definition is_digit (c:N) : bool := (48 <=? c)%N && (c <=? 57)%N.
Fixpoint skip_ws (l:str) : str := match l with c :: t => if is_space c then skip_ws t else l | [] => [] end.
Fixpoint digits_val (acc:Z) (l:str) : Z :=
  match l with
  | c :: t => if is_digit c then digits_val (10 * acc + (Z.of_N c - 48)) t else acc
  | [] => acc
  end.
(* unbounded: the C int overflow of atoi is outside the model *)
Definition atoi (l:str) : Z :=
  match skip_ws l with
  | c :: t => if (c =? 45)%N then - digits_val 0 t else if (c =? 43)%N then digits_val 0 t else digits_val 0 (c :: t)
  | [] => 0
  end.
(* strimdup(NULL, s, _): a copy without trailing white space (with dest = NULL the maxlen argument is overwritten by len+1) *)
Definition rtrim (s:str) : str := rev (skip_ws (rev s)).
Definition toupper (c:N) : N := if (97 <=? c)%N && (c <=? 122)%N then (c - 32)%N else c.
(* strncmp(s, p, strlen(p)) == 0 *)
Fixpoint prefix (p s:str) : bool :=
  match p, s with
  | [], _ => true
  | a :: p', b :: s' => (a =? b)%N && prefix p' s'
  | _ :: _, [] => false
  end.

Local Open Scope N_scope.
Definition s_NUMERI : str := [78;85;77;69;82;73].
Definition s_FLAG_TABLE : str := [70;76;65;71;32;84;65;66;76;69].
Definition s_TABLE_FLAG : str := [84;65;66;76;69;32;70;76;65;71].
Definition s_TABLEFLAG : str := [84;65;66;76;69;70;76;65;71].
Definition s_MARQUEURS : str := [77;65;82;81;85;69;85;82;83].
Definition s_FLAGTABLE : str := [70;76;65;71;84;65;66;76;69].
Definition s_TABLE_CODE : str := [84;65;66;76;69;32;67;79;68;69].
Definition s_TABLECODE : str := [84;65;66;76;69;67;79;68;69].
Definition s_CODE_TABLE : str := [67;79;68;69;32;84;65;66;76;69].
Definition s_CODETABLE : str := [67;79;68;69;84;65;66;76;69].
Definition s_CCITT_IA5 : str := [67;67;73;84;84;32;73;65;53].
Definition s_CCITTIA5 : str := [67;67;73;84;84;73;65;53].
Local Close Scope N_scope.

(* bufr_unit_to_datatype *)
Definition unit_kind (u:str) : ukind :=
  let uc := map toupper u in
  if prefix s_NUMERI uc then UNum
  else if prefix s_FLAG_TABLE uc || prefix s_TABLE_FLAG uc || prefix s_TABLEFLAG uc || prefix s_MARQUEURS uc || prefix s_FLAGTABLE uc then UFlag
  else if prefix s_TABLE_CODE uc || prefix s_TABLECODE uc || prefix s_CODE_TABLE uc || prefix s_CODETABLE uc then UCode
  else if prefix s_CCITT_IA5 uc || prefix s_CCITTIA5 uc then UStr
  else UNum.

(* ------------------------------------------------------------------ the master-table entries the two functions look up *)
(* WMO Table B class 00 / 31 and Table D 3 00 003, 3 00 004, 3 00 010 (the check compares them with /repo/Tables) *)
Definition T0 : tables := mkT
  [ (1, mkB UStr 0 0 24); (2, mkB UStr 0 0 256); (3, mkB UStr 0 0 256);
    (10, mkB UStr 0 0 8); (11, mkB UStr 0 0 16); (12, mkB UStr 0 0 24);
    (13, mkB UStr 0 0 256); (14, mkB UStr 0 0 256); (15, mkB UStr 0 0 192);
    (16, mkB UStr 0 0 8); (17, mkB UStr 0 0 24); (18, mkB UStr 0 0 8); (19, mkB UStr 0 0 80); (20, mkB UStr 0 0 24);
    (30, mkB UStr 0 0 48); (31001, mkB UNum 0 0 8); (31002, mkB UNum 0 0 16) ]
  [ (300003, [10; 11; 12]);
    (300004, [300003; 13; 14; 15; 16; 17; 18; 19; 20]);
    (300010, [300003; 101000; 31001; 30]) ].
(* e->encoding.nbits of bufr_fetch_tableB(tbls, d), and nbits/8 *)
Definition nbits_of (d:Z) : nat := match lookupB T0 d with Some e => Z.to_nat (b_width e) | None => 0%nat end.
Definition noct (d:Z) : nat := (nbits_of d / 8)%nat.

(* ------------------------------------------------------------------ bufr_store_tables *)
(* fill_line(line, len, str, slen): the first min(slen,len) characters, then blanks *)
Definition fill_line (len:nat) (s:str) : str := let b := firstn len s in b ++ repeat 32%N (len - length b).
(* split_lines(line1, len1, line2, len2, str, strlen(str)) *)
Definition split_lines (l1 l2:nat) (s:str) : str * str := (fill_line l1 s, fill_line l2 (skipn l1 s)).
(* sprintf(line, fmt, v); bufr_putstring(bufr, line, k) : the first k characters of the formatted text *)
Definition put_fmt (k:nat) (s:str) : str := firstn k s.

(* one value written to Section 4, tagged with the descriptor of Section 3 it belongs to:
   VStr = bufr_putstring of these characters, VRaw = bufr_putbits(v, nbits of that descriptor) *)
Definition sfield : Type := Z * dval.

Definition fxy_fields (d:Z) : list sfield :=
  [ (10, VStr (put_fmt 1 (fmt_prec 1 (dF d)))); (11, VStr (put_fmt 2 (fmt_prec 2 (dX d)))); (12, VStr (put_fmt 3 (fmt_prec 3 (dY d)))) ].

Definition sign_char (z:Z) : N := if 0 <=? z then 43%N else 45%N.

Definition b_fields (e:lb_entry) : list sfield :=
  let nm := split_lines (noct 13) (noct 14) (lb_name e) in
  fxy_fields (lb_desc e) ++
  [ (13, VStr (fst nm)); (14, VStr (snd nm));
    (15, VStr (fst (split_lines (noct 15) 0 (lb_unit e))));
    (16, VStr [sign_char (lb_scale e)]);
    (17, VStr (put_fmt 3 (fmt_width 3 (Z.abs (lb_scale e)))));
    (18, VStr [sign_char (lb_ref e)]);
    (19, VStr (put_fmt 10 (fmt_width 10 (Z.abs (lb_ref e)))));
    (20, VStr (put_fmt 3 (fmt_width 3 (lb_width e)))) ].

Definition d_fields (e:ld_entry) : list sfield :=
  fxy_fields (ld_desc e) ++
  (31001, VRaw (Z.to_N (Z.of_nat (length (ld_seq e))))) ::
  map (fun d => (30, VStr (fill_line (noct 30) (put_fmt 6 (fmt_prec 6 d))))) (ld_seq e).

Definition count_desc (tcount:nat) : Z := if (tcount <? 256)%nat then 31001 else 31002.

Definition store_s3 (T:ltables) : list Z :=
  let tc := length (lt_B T) in let dc := length (lt_D T) in
  (if (0 <? tc)%nat then [103000; 31001; 1; 2; 3; 101000; count_desc tc; 300004] else []) ++
  (if (0 <? dc)%nat then [101000 + Z.of_nat dc; 300010] else []).

Definition store_fields (T:ltables) : list sfield :=
  let tc := length (lt_B T) in let dc := length (lt_D T) in
  (if (0 <? tc)%nat then
     let ln := split_lines (noct 2) (noct 3) (lt_cdesc T) in
     (31001, VRaw 1%N) ::
     (1, VStr (put_fmt 3 (fmt_prec 3 (Z.abs (lt_cat T) mod 256)))) :: (2, VStr (fst ln)) :: (3, VStr (snd ln)) ::
     (count_desc tc, VRaw (N.of_nat tc)) :: flat_map b_fields (lt_B T)
   else []) ++
  (if (0 <? dc)%nat then flat_map d_fields (lt_D T) else []).

(* None: "no message is written" (both local tables empty) *)
Definition store (T:ltables) : option (list Z * list sfield) :=
  if (length (lt_B T) =? 0)%nat && (length (lt_D T) =? 0)%nat then None else Some (store_s3 T, store_fields T).

(* the writes themselves, on the model of bufr_io.c (bufr_alloc_sect4(bufr, 8192) first) *)
Fixpoint write_sfields (s:wst) (fl:list sfield) : option wst :=
  match fl with
  | [] => Some s
  | (d, VStr c) :: t => match putstring s c with Some s1 => write_sfields s1 t | None => None end
  | (d, VRaw v) :: t => match putbits s v (nbits_of d) with Some s1 => write_sfields s1 t | None => None end
  end.
Definition store_bytes (fl:list sfield) : option (list N) :=
  match write_sfields (winit 8192) fl with Some s => Some (wbytes s) | None => None end.

(* the same octets computed directly (every field of a table update is a whole number of octets); LocalTabProof.v proves
   store_bytes fl = Some (fields_bytes fl) for the field lists store produces; the driver runs this one on large tables *)
Fixpoint be_bytes (k:nat) (v:N) : list N :=
  match k with O => [] | S j => ((v / 256 ^ N.of_nat j) mod 256)%N :: be_bytes j v end.
Definition field_bytes (f:sfield) : list N :=
  match snd f with VStr s => s | VRaw v => be_bytes (noct (fst f)) v end.
Definition fields_bytes (fl:list sfield) : list N := flat_map field_bytes fl.

(* ------------------------------------------------------------------ the decoded element list *)
(* Section 4 read back with Section 3 by the reference decoder of Fm94.v and the master tables: (descriptor, value) of
   every data element, in order (what bufr_extract_tables finds in the DataSubset, minus the descriptors without data) *)
Definition dec_fuel (bytes:list N) : nat := (16 + 2 * length bytes)%nat.
Definition decode_elements (ed:Z) (s3:list Z) (bytes:list N) : option (list sfield) :=
  let fuel := dec_fuel bytes in
  match dec_plain T0 ed fuel s3 1 (bytes_to_bits bytes) with
  | Ok ([vs], _) =>
      match layout T0 ed fuel s3 vs with
      | Ok fl => Some (map (fun p => (f_desc (fst p), d_val (snd p))) fl)
      | Err _ => None
      end
  | _ => None
  end.

(* ------------------------------------------------------------------ bufr_extract_tables *)
(* the string a decoded character element holds: bufr_descriptor_set_svalue copies up to the first NUL and pads with blanks *)
Fixpoint cstr (s:str) : str := match s with [] => [] | c :: t => if (c =? 0)%N then [] else c :: cstr t end.
Definition sval_of (s:str) : str := let p := cstr s in p ++ repeat 32%N (length s - length p).

(* bufr_set_tables_category: category kept when 0..255; description: 64 characters, white space -> blank, blank filled *)
Definition cat_desc64 (s:str) : str := fill_line 64 (map (fun c => if is_space c then 32%N else c) s).

(* the local variables of bufr_extract_tables (eb.* = the entry being assembled) and the tables being built *)
Record xst := mkX {
  x_f : Z; x_x : Z; x_y : Z; x_descriptor : Z; x_buf : str; x_cat : Z;
  x_name : str; x_unit : str; x_scale : Z; x_ref : Z; x_width : Z; x_edesc : Z;
  x_count : Z; x_codes : option (list Z) (* most recent first *); x_c : Z;
  x_tcat : Z; x_tcdesc : str; x_B : list lb_entry (* most recent first *); x_D : list ld_entry }.

Definition x0 : xst := mkX 0 0 0 0 [] 0 [] [] 0 0 0 0 0 None 0 0 (repeat 32%N 64) [] [].

Section Extract.
  (* eb.encoding.af_nbits / ref_nbits are never assigned: whatever the stack holds is copied into every entry *)
  Variable junk : Z * Z.

  Definition upd_cat (st:xst) v := mkX (x_f st) (x_x st) (x_y st) (x_descriptor st) (x_buf st) v (x_name st) (x_unit st) (x_scale st) (x_ref st) (x_width st) (x_edesc st) (x_count st) (x_codes st) (x_c st) (x_tcat st) (x_tcdesc st) (x_B st) (x_D st).
  Definition upd_buf (st:xst) v := mkX (x_f st) (x_x st) (x_y st) (x_descriptor st) v (x_cat st) (x_name st) (x_unit st) (x_scale st) (x_ref st) (x_width st) (x_edesc st) (x_count st) (x_codes st) (x_c st) (x_tcat st) (x_tcdesc st) (x_B st) (x_D st).
  Definition upd_tcat (st:xst) c d := mkX (x_f st) (x_x st) (x_y st) (x_descriptor st) (x_buf st) (x_cat st) (x_name st) (x_unit st) (x_scale st) (x_ref st) (x_width st) (x_edesc st) (x_count st) (x_codes st) (x_c st) c d (x_B st) (x_D st).
  Definition upd_f (st:xst) v := mkX v (x_x st) (x_y st) (x_descriptor st) (x_buf st) (x_cat st) (x_name st) (x_unit st) (x_scale st) (x_ref st) (x_width st) (x_edesc st) (x_count st) (x_codes st) (x_c st) (x_tcat st) (x_tcdesc st) (x_B st) (x_D st).
  Definition upd_x (st:xst) v := mkX (x_f st) v (x_y st) (x_descriptor st) (x_buf st) (x_cat st) (x_name st) (x_unit st) (x_scale st) (x_ref st) (x_width st) (x_edesc st) (x_count st) (x_codes st) (x_c st) (x_tcat st) (x_tcdesc st) (x_B st) (x_D st).
  Definition upd_y (st:xst) v d := mkX (x_f st) (x_x st) v d (x_buf st) (x_cat st) (x_name st) (x_unit st) (x_scale st) (x_ref st) (x_width st) d (x_count st) (x_codes st) (x_c st) (x_tcat st) (x_tcdesc st) (x_B st) (x_D st).
  Definition upd_name (st:xst) b v := mkX (x_f st) (x_x st) (x_y st) (x_descriptor st) b (x_cat st) v (x_unit st) (x_scale st) (x_ref st) (x_width st) (x_edesc st) (x_count st) (x_codes st) (x_c st) (x_tcat st) (x_tcdesc st) (x_B st) (x_D st).
  Definition upd_unit (st:xst) v := mkX (x_f st) (x_x st) (x_y st) (x_descriptor st) (x_buf st) (x_cat st) (x_name st) v (x_scale st) (x_ref st) (x_width st) (x_edesc st) (x_count st) (x_codes st) (x_c st) (x_tcat st) (x_tcdesc st) (x_B st) (x_D st).
  Definition upd_scale (st:xst) v := mkX (x_f st) (x_x st) (x_y st) (x_descriptor st) (x_buf st) (x_cat st) (x_name st) (x_unit st) v (x_ref st) (x_width st) (x_edesc st) (x_count st) (x_codes st) (x_c st) (x_tcat st) (x_tcdesc st) (x_B st) (x_D st).
  Definition upd_ref (st:xst) v := mkX (x_f st) (x_x st) (x_y st) (x_descriptor st) (x_buf st) (x_cat st) (x_name st) (x_unit st) (x_scale st) v (x_width st) (x_edesc st) (x_count st) (x_codes st) (x_c st) (x_tcat st) (x_tcdesc st) (x_B st) (x_D st).
  (* case 20: the entry is complete; eb.description / eb.unit are freed *)
  Definition push_B (st:xst) (w:Z) :=
    let e := mkLB (x_edesc st) (x_name st) (x_unit st) (x_scale st) (x_ref st) w (unit_kind (x_unit st)) junk in
    mkX (x_f st) (x_x st) (x_y st) (x_descriptor st) (x_buf st) (x_cat st) [] [] (x_scale st) (x_ref st) w (x_edesc st) (x_count st) (x_codes st) (x_c st) (x_tcat st) (x_tcdesc st) (e :: x_B st) (x_D st).
  Definition upd_codes (st:xst) n cs c := mkX (x_f st) (x_x st) (x_y st) (x_descriptor st) (x_buf st) (x_cat st) (x_name st) (x_unit st) (x_scale st) (x_ref st) (x_width st) (x_edesc st) n cs c (x_tcat st) (x_tcdesc st) (x_B st) (x_D st).
  Definition push_D (st:xst) (seq:list Z) :=
    mkX (x_f st) (x_x st) (x_y st) (x_descriptor st) (x_buf st) (x_cat st) (x_name st) (x_unit st) (x_scale st) (x_ref st) (x_width st) (x_edesc st) 0 None 0 (x_tcat st) (x_tcdesc st) (x_B st) (mkLD (x_descriptor st) seq :: x_D st).

  Definition hd_is_minus (s:str) : bool := match s with c :: _ => (c =? 45)%N | [] => false end.

  (* one iteration of the loop over the descriptors of the subset: the switch on bcv->descriptor *)
  Definition xstep (st:xst) (e:sfield) : xst :=
    let d := fst e in
    match snd e with
    | VStr s0 =>
      let s := sval_of s0 in
      if d =? 1 then upd_cat st (atoi s)
      else if d =? 2 then upd_buf st s
      else if d =? 3 then
        let b := x_buf st ++ s in
        upd_tcat (upd_buf st b) (if (0 <=? x_cat st) && (x_cat st <? 256) then x_cat st else x_tcat st) (cat_desc64 b)
      else if d =? 10 then upd_f st (atoi s)
      else if d =? 11 then upd_x st (atoi s)
      else if d =? 12 then let y := atoi s in upd_y st y (x_f st * 100000 + x_x st * 1000 + y)
      else if d =? 13 then upd_buf st s
      else if d =? 14 then let b := x_buf st ++ s in upd_name st b (rtrim b)
      else if d =? 15 then upd_unit st (rtrim s)
      else if d =? 16 then upd_scale st (if hd_is_minus s then -1 else 1)
      else if d =? 17 then upd_scale st (x_scale st * atoi s)
      else if d =? 18 then upd_ref st (if hd_is_minus s then -1 else 1)
      else if d =? 19 then upd_ref st (x_ref st * atoi s)
      else if d =? 20 then push_B st (atoi s)
      else if d =? 30 then
        let '(cs, c) := if x_c st <? x_count st
                        then (match x_codes st with Some l => Some (atoi s :: l) | None => None end, x_c st + 1)
                        else (x_codes st, x_c st) in
        if c =? x_count st
        then push_D st (firstn (Z.to_nat (x_count st)) (rev (match cs with Some l => l | None => [] end)))
        else upd_codes st (x_count st) cs c
      else st
    | VRaw n =>
      if d =? 31001 then upd_codes st (Z.of_N n) (Some []) 0 else st
    end.

  Definition extract (fl:list sfield) : ltables :=
    let st := fold_left xstep fl x0 in
    mkLT (x_tcat st) (x_tcdesc st) (rev (x_B st)) (rev (x_D st)).
End Extract.

(* store -> Section 4 octets -> reference decoder -> extract, as one function (None: nothing stored / not decodable) *)
Definition roundtrip (junk:Z*Z) (ed:Z) (T:ltables) : option ltables :=
  match store T with
  | None => None
  | Some (s3, fl) =>
    match decode_elements ed s3 (fields_bytes fl) with
    | None => None
    | Some els => Some (extract junk els)
    end
  end.

(* ------------------------------------------------------------------ bufr_encoding_to_valtype *)
(* the C type the value of an element is held in, as bufr_encoding_to_valtype derives it from a Table B entry's encoding
   (VALTYPE_FLTDEFAULT = VALTYPE_FLT64).  lb_aux = (af_nbits, ref_nbits). *)
Inductive vtype := VInt32 | VInt64 | VFltDefault | VString.
(* bufr_value_nbits(val): val >= 0: the first i in 1..64 with 2^i - 1 > val; val < 0: the first i with bnegval[i-1] > |val|
   (bnegval[0] = 0, bnegval[k] = 2^k); 65 when the loop runs out *)
Fixpoint vnbits_loop (fuel:nat) (i:Z) (neg:bool) (a:Z) : Z :=
  match fuel with
  | O => i
  | S f => if (if neg then (if i =? 1 then 0 else 2 ^ (i - 1)) else 2 ^ i - 1) >? a then i else vnbits_loop f (i + 1) neg a
  end.
Definition value_nbits (v:Z) : Z := vnbits_loop 64 1 (v <? 0) (Z.abs v).
Definition entry_valtype (e:lb_entry) : vtype :=
  match lb_kind e with
  | UStr => VString
  | UNum =>
      if (lb_scale e =? 0) && (0 <=? lb_ref e) then
        let rb := if lb_ref e =? 0 then 0
                  else if 0 <? snd (lb_aux e) then snd (lb_aux e) else value_nbits (lb_ref e) in
        if lb_width e + rb <=? 32 then VInt32 else if lb_width e + rb <=? 64 then VInt64 else VFltDefault
      else VFltDefault
  | UCode | UFlag => if lb_width e <=? 32 then VInt32 else VInt64
  end.
Definition vtype_code (v:vtype) : Z := match v with VInt32 => 0 | VInt64 => 1 | VFltDefault => 2 | VString => 3 end.

(* the local tables as the reference decoder uses them (local entries take precedence over the master tables) *)
Definition kind_code (k:ukind) : Z := match k with UNum => 4 | UStr => 5 | UCode => 6 | UFlag => 7 end.
Definition install (master:tables) (L:ltables) : tables :=
  mkT (map (fun e => (lb_desc e, mkB (lb_kind e) (lb_scale e) (lb_ref e) (lb_width e))) (lt_B L) ++ tB master)
      (map (fun e => (ld_desc e, ld_seq e)) (lt_D L) ++ tD master).
