(* Own.v — the ownership discipline of the public API as a state machine over handles (property C16, partial by design).
   Objects: tables, templates, datasets, messages.  A template refers to its tables (shared by reference); a dataset owns
   a private copy of the template it was created from (so freeing the original template is legal) but still refers to the
   tables; a message owns its bytes and refers to nothing.  The machine says which operation sequences are legal for a
   client (the precondition `legal`) and what is live afterwards.  It cannot exhibit byte-level overflow inside a live
   object: that is what the sanitizer run observes. *)
From Coq Require Import List Arith Lia Bool.
Import ListNotations.

Inductive kind := KTables | KTemplate | KDataset | KMessage.
Definition kind_eqb (a b:kind) : bool :=
  match a, b with KTables, KTables | KTemplate, KTemplate | KDataset, KDataset | KMessage, KMessage => true | _, _ => false end.
(* a live object: handle, kind, the tables object it refers to (0 = none) *)
Record obj := mkObj { o_id : nat; o_kind : kind; o_tables : nat }.
Definition heap := list obj.

Inductive op :=
| NewTables (h:nat)
| NewTemplate (h tables:nat)
| CopyTemplate (h src:nat)
| NewDataset (h tmpl:nat)
| AddSubset (ds:nat)
| Encode (h ds:nat)            (* new message h from dataset ds *)
| Reread (m:nat)               (* write the message to memory and read it back in place *)
| Decode (h m tables:nat)      (* new dataset h from message m with tables *)
| Merge (dst src:nat)
| Use (h:nat)                  (* read every value of a dataset / every field of a message *)
| Free (h:nat).

Definition find (hp:heap) (h:nat) : option obj := List.find (fun o => Nat.eqb (o_id o) h) hp.
Definition live_kind (hp:heap) (h:nat) (k:kind) : bool :=
  match find hp h with Some o => kind_eqb (o_kind o) k | None => false end.
Definition fresh (hp:heap) (h:nat) : bool := match find hp h with None => Nat.ltb 0 h | Some _ => false end.
Definition tables_of (hp:heap) (h:nat) : nat := match find hp h with Some o => o_tables o | None => 0 end.
Definition referenced (hp:heap) (t:nat) : bool := existsb (fun o => Nat.eqb (o_tables o) t) hp.

(* what a client may do *)
Definition legal (hp:heap) (o:op) : bool :=
  match o with
  | NewTables h => fresh hp h
  | NewTemplate h t => fresh hp h && live_kind hp t KTables
  | CopyTemplate h s => fresh hp h && live_kind hp s KTemplate
  | NewDataset h t => fresh hp h && live_kind hp t KTemplate
  | AddSubset d => live_kind hp d KDataset
  | Encode h d => fresh hp h && live_kind hp d KDataset
  | Reread m => live_kind hp m KMessage
  | Decode h m t => fresh hp h && live_kind hp m KMessage && live_kind hp t KTables
  | Merge d s => live_kind hp d KDataset && live_kind hp s KDataset
  | Use h => live_kind hp h KDataset || live_kind hp h KMessage || live_kind hp h KTemplate
  | Free h => match find hp h with
              | Some ob => if kind_eqb (o_kind ob) KTables then negb (referenced hp h) else true   (* tables outlive their users *)
              | None => false
              end
  end.

Definition step (hp:heap) (o:op) : heap :=
  match o with
  | NewTables h => mkObj h KTables 0 :: hp
  | NewTemplate h t => mkObj h KTemplate t :: hp
  | CopyTemplate h s => mkObj h KTemplate (tables_of hp s) :: hp
  | NewDataset h t => mkObj h KDataset (tables_of hp t) :: hp          (* owns a private template copy *)
  | Encode h d => mkObj h KMessage 0 :: hp
  | Decode h m t => mkObj h KDataset t :: hp
  | Free h => filter (fun ob => negb (Nat.eqb (o_id ob) h)) hp
  | AddSubset _ | Reread _ | Merge _ _ | Use _ => hp
  end.

Fixpoint run (hp:heap) (ops:list op) : option heap :=
  match ops with
  | [] => Some hp
  | o :: r => if legal hp o then run (step hp o) r else None
  end.

(* invariant: handles are unique and positive, and every reference points to live tables *)
Definition inv (hp:heap) : Prop :=
  NoDup (map o_id hp) /\
  (forall ob, In ob hp -> 0 < o_id ob) /\
  (forall ob, In ob hp -> o_tables ob <> 0 -> live_kind hp (o_tables ob) KTables = true).
