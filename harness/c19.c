/* c19.c — C side of the correspondence for property C19 (IEEE 754 fields, bufr_ieee754.c).
   One case per input line, one output line per case.  Floats/doubles travel as memory images (hex of the object's bytes
   read as an unsigned integer) and, redundantly, as C99 hex-float text (%a) so that the Python oracle can check the value
   through struct without trusting the image.

     U <use>                 bufr_use_C_ieee754(use)                         -> "U <return value>"
     B                       bufr_begin_api()                                -> "B <C_use_ieee754 afterwards>"
     K                       the five sub-checks of check_C_ieee754_compliance, run with the software codec
                             -> "K <type_size> <sign_bit> <single_layout> <double_layout> <match_enc_dec> <compliance>"   (1 passed, 0 failed)
     e32 <img>               bufr_ieee_encode_single(object with image img)  -> "e32 <result hex> <est|-> <%a of the argument>"
     e64 <img>               bufr_ieee_encode_double                          (est: the exponent estimate (int)(log(x)/log(2.0)) as the
                                                                               library computes it, recomputed here with the same expression)
     d32 <bits>              bufr_ieee_decode_single(bits)                   -> "d32 <image of the result | nan> <%a of the result>"
     d64 <bits>              bufr_ieee_decode_double
     m32 <img> / m64 <img>   one-element message: template (edition 5) 2 09 0YY, 0 12 101, 2 09 000; value set through the API,
                             bufr_encode_message, bufr_memwrite_message, then bufr_memread_message + bufr_decode_message
                             -> "m32 <message hex> <image of the decoded value | nan> <value type>"   or  "m32 ERR <where>"
     S32 <start> <count> <stride>     sweep of count patterns start + i*stride (mod 2^32), in the current mode:
     S64 <start> <count> <stride>     encode(object(p)) must be p, decode(p) must be object(p)  (NaN: any NaN)
                             -> "S32 n=<count> nan=<k> emis=<k> dmis=<k> dmin=<d> dmax=<d> E <lo>-<hi>x<cnt> ... D <lo>-<hi>x<cnt> ..."
                                (runs of consecutive failing patterns, at most 1024 listed; dmin/dmax: range of est - floor(log2 |x|) over the finite non-zero x)
*/
#include "hcommon.h"
#include <math.h>
#include <inttypes.h>
#include "bufr_ieee754.h"

int verif_check_type_size(void); int verif_check_sign_bit(void); int verif_check_single_layout(void);
int verif_check_double_layout(void); int verif_check_match_enc_dec(void); int verif_check_compliance(void);
int verif_C_use_ieee754(void);

static BUFR_Tables *tables = NULL;
static void sink_debug(const char *msg){ (void)msg; }   /* library diagnostics must not reach the protocol on stdout */
static jmp_buf exit_jmp; static int exit_armed = 0; static int exit_called = 0;
void __real_exit(int);
void __wrap_exit(int code){ if(exit_armed){ exit_called = 1; longjmp(exit_jmp, 1);} __real_exit(code); }

static void load_tables(void){
  char env[4096];
  snprintf(env, sizeof env, "BUFR_TABLES=%s/Tables/", VERIF_REPO_DIR);
  putenv(strdup(env));
  tables = bufr_create_tables();
  bufr_load_cmc_tables(tables);
}

static float  f_of(uint32_t u){ float f; memcpy(&f,&u,4); return f; }
static double d_of(uint64_t u){ double d; memcpy(&d,&u,8); return d; }
static uint32_t img_f(float f){ uint32_t u; memcpy(&u,&f,4); return u; }
static uint64_t img_d(double d){ uint64_t u; memcpy(&u,&d,8); return u; }

/* the exponent estimates, written exactly as in bufr_single_get_significand / bufr_double_get_significand */
static int est32(float fvalue){ int expon; expon = logf(fvalue)/logf(2.0); return expon; }
static int est64(double fvalue){ int expon; expon = log(fvalue)/log(2.0); return expon; }

static int is_nan32(uint32_t b){ return (b & 0x7f800000u)==0x7f800000u && (b & 0x007fffffu); }
static int is_nan64(uint64_t b){ return (b & 0x7ff0000000000000ull)==0x7ff0000000000000ull && (b & 0x000fffffffffffffull); }

#define MAXRUN 1024
typedef struct { uint64_t lo, hi, cnt; } run_t;
typedef struct { run_t r[MAXRUN]; int n; uint64_t total; int open; } runs_t;
static void runs_add(runs_t *R, int bad, uint64_t p){
  if(bad){ R->total++;
    if(R->open){ R->r[R->n-1].hi = p; R->r[R->n-1].cnt++; }
    else if(R->n < MAXRUN){ R->r[R->n].lo = R->r[R->n].hi = p; R->r[R->n].cnt = 1; R->n++; R->open = 1; }
    else R->open = 0;
  } else R->open = 0;
}
static void runs_print(const char *tag, runs_t *R, int w){
  int i; printf(" %s", tag);
  for(i=0;i<R->n;i++) printf(" %0*" PRIx64 "-%0*" PRIx64 "x%" PRIu64, w, R->r[i].lo, w, R->r[i].hi, R->r[i].cnt);
}

static void sweep32(uint32_t start, uint64_t count, uint32_t stride){
  runs_t E, D; uint64_t i, nnan = 0; int dmin = 99, dmax = -99; uint32_t p = start;
  memset(&E,0,sizeof E); memset(&D,0,sizeof D);
  for(i=0;i<count;i++, p += stride){
    float x = f_of(p); uint32_t e = bufr_ieee_encode_single(x); float y = bufr_ieee_decode_single(p);
    if(is_nan32(p)){ nnan++; runs_add(&E, !is_nan32(e), p); runs_add(&D, !isnan(y), p); }
    else { runs_add(&E, e != p, p); runs_add(&D, img_f(y) != p, p);
      if((p & 0x7fffffffu) != 0 && (p & 0x7f800000u) != 0x7f800000u){ int d = est32(fabsf(x)) - ilogbf(x); if(d<dmin) dmin=d; if(d>dmax) dmax=d; } }
  }
  printf("S32 n=%" PRIu64 " nan=%" PRIu64 " emis=%" PRIu64 " dmis=%" PRIu64 " dmin=%d dmax=%d", count, nnan, E.total, D.total, dmin, dmax);
  runs_print("E", &E, 8); runs_print("D", &D, 8); printf("\n");
}
static void sweep64(uint64_t start, uint64_t count, uint64_t stride){
  runs_t E, D; uint64_t i, nnan = 0; int dmin = 99, dmax = -99; uint64_t p = start;
  memset(&E,0,sizeof E); memset(&D,0,sizeof D);
  for(i=0;i<count;i++, p += stride){
    double x = d_of(p); uint64_t e = bufr_ieee_encode_double(x); double y = bufr_ieee_decode_double(p);
    if(is_nan64(p)){ nnan++; runs_add(&E, !is_nan64(e), p); runs_add(&D, !isnan(y), p); }
    else { runs_add(&E, e != p, p); runs_add(&D, img_d(y) != p, p);
      if((p << 1) != 0 && (p & 0x7ff0000000000000ull) != 0x7ff0000000000000ull){ int d = est64(fabs(x)) - ilogb(x); if(d<dmin) dmin=d; if(d>dmax) dmax=d; } }
  }
  printf("S64 n=%" PRIu64 " nan=%" PRIu64 " emis=%" PRIu64 " dmis=%" PRIu64 " dmin=%d dmax=%d", count, nnan, E.total, D.total, dmin, dmax);
  runs_print("E", &E, 16); runs_print("D", &D, 16); printf("\n");
}

static char msgbuf[1<<16];
static void do_msg(int width, uint64_t img){
  const char *tag = width==32 ? "m32" : "m64";
  BufrDescValue dv[3]; int i, j, c, pos; BUFR_Template *t = NULL; BUFR_Dataset *dts = NULL, *d2 = NULL; BUFR_Message *m = NULL, *m2 = NULL;
  const char * volatile where = "template"; ssize_t len = 0;
  for(i=0;i<3;i++) bufr_init_DescValue(&dv[i]);
  dv[0].descriptor = 209000 + width; dv[1].descriptor = 12101; dv[2].descriptor = 209000;
  h_aborted = 0; h_abort_armed = 1; exit_called = 0; exit_armed = 1;
  if(setjmp(h_abort_jmp)==0 && setjmp(exit_jmp)==0){
    t = bufr_create_template(dv, 3, tables, 5);
    if(!t) goto fail;
    where = "dataset"; dts = bufr_create_dataset(t); if(!dts) goto fail;
    dts->s1.year=2020; dts->s1.month=1; dts->s1.day=2; dts->s1.hour=3; dts->s1.minute=4; dts->s1.second=5;   /* no wall-clock time in the output */
    pos = bufr_create_datasubset(dts); if(pos < 0) goto fail;
    { DataSubset *ss = bufr_get_datasubset(dts,pos); BufrDescriptor *b = NULL;
      c = bufr_datasubset_count_descriptor(ss);
      for(j=0;j<c;j++){ BufrDescriptor *q = bufr_datasubset_get_descriptor(ss,j); if(q->encoding.type == TYPE_IEEE_FP) b = q; }
      where = "no-ieee-element"; if(!b || b->encoding.nbits != width) goto fail;
      where = "set"; if(width==32){ if(bufr_descriptor_set_fvalue(b, f_of((uint32_t)img)) < 0) goto fail; }
      else { if(bufr_descriptor_set_dvalue(b, d_of(img)) < 0) goto fail; } }
    where = "encode"; m = bufr_encode_message(dts, 0); if(!m) goto fail;
    len = bufr_memwrite_message(msgbuf, sizeof msgbuf, m); if(len <= 0) goto fail;
    where = "read"; if(bufr_memread_message(msgbuf, len, &m2) <= 0 || !m2) goto fail;
    where = "decode"; d2 = bufr_decode_message(m2, tables); if(!d2) goto fail;
    { DataSubset *ss = bufr_get_datasubset(d2,0); BufrDescriptor *b = NULL;
      where = "decoded-subset"; if(!ss) goto fail;
      c = bufr_datasubset_count_descriptor(ss);
      for(j=0;j<c;j++){ BufrDescriptor *q = bufr_datasubset_get_descriptor(ss,j); if(q->encoding.type == TYPE_IEEE_FP) b = q; }
      where = "decoded-element"; if(!b || !b->value) goto fail;
      printf("%s ", tag); puthex(stdout,(unsigned char*)msgbuf,len);
      if(b->value->type == VALTYPE_FLT32){ float f = bufr_value_get_float(b->value); if(isnan(f)) printf(" nan f32\n"); else printf(" %08x f32\n", img_f(f)); }
      else if(b->value->type == VALTYPE_FLT64){ double d = bufr_value_get_double(b->value); if(isnan(d)) printf(" nan f64\n"); else printf(" %016" PRIx64 " f64\n", img_d(d)); }
      else printf(" ? type%d\n", (int)b->value->type);
    }
    h_abort_armed = 0; exit_armed = 0;
    bufr_free_dataset(d2); bufr_free_message(m2); bufr_free_message(m); bufr_free_dataset(dts); bufr_free_template(t);
    return;
  } else where = exit_called ? "exit" : "abort";
fail:
  h_abort_armed = 0; exit_armed = 0;
  printf("%s ERR %s\n", tag, where);
}

int main(void){
  char *line;
  bufr_set_abort(h_abort_handler);
  bufr_set_debug_handler(sink_debug); bufr_set_output_handler(sink_debug);
  load_tables();
  while((line = h_getline())){
    char *save = NULL; char *tok = strtok_r(line, " ", &save);
    if(!tok){ printf("\n"); continue; }
    if(!strcmp(tok,"U")){ int use = atoi(strtok_r(NULL," ",&save)); printf("U %d\n", bufr_use_C_ieee754(use)); }
    else if(!strcmp(tok,"B")){ bufr_begin_api(); printf("B %d\n", verif_C_use_ieee754()); }
    else if(!strcmp(tok,"K")){
      int was = verif_C_use_ieee754(); int a,b,c,d,e,all;
      bufr_use_C_ieee754(0);
      a = verif_check_type_size(); b = verif_check_sign_bit(); c = verif_check_single_layout(); d = verif_check_double_layout();
      e = verif_check_match_enc_dec(); all = verif_check_compliance();
      bufr_use_C_ieee754(was);
      printf("K %d %d %d %d %d %d\n", a,b,c,d,e,all); }
    else if(!strcmp(tok,"e32")){ uint32_t p = (uint32_t)strtoul(strtok_r(NULL," ",&save),NULL,16); float x = f_of(p);
      uint32_t e = bufr_ieee_encode_single(x);
      if(isnan(x) || isinf(x) || x == 0.0f) printf("e32 %08x - %a\n", e, (double)x); else printf("e32 %08x %d %a\n", e, est32(fabsf(x)), (double)x); }
    else if(!strcmp(tok,"e64")){ uint64_t p = strtoull(strtok_r(NULL," ",&save),NULL,16); double x = d_of(p);
      uint64_t e = bufr_ieee_encode_double(x);
      if(isnan(x) || isinf(x) || x == 0.0) printf("e64 %016" PRIx64 " - %a\n", e, x); else printf("e64 %016" PRIx64 " %d %a\n", e, est64(fabs(x)), x); }
    else if(!strcmp(tok,"d32")){ uint32_t p = (uint32_t)strtoul(strtok_r(NULL," ",&save),NULL,16); float y = bufr_ieee_decode_single(p);
      if(isnan(y)) printf("d32 nan nan\n"); else printf("d32 %08x %a\n", img_f(y), (double)y); }
    else if(!strcmp(tok,"d64")){ uint64_t p = strtoull(strtok_r(NULL," ",&save),NULL,16); double y = bufr_ieee_decode_double(p);
      if(isnan(y)) printf("d64 nan nan\n"); else printf("d64 %016" PRIx64 " %a\n", img_d(y), y); }
    else if(!strcmp(tok,"m32")){ do_msg(32, strtoull(strtok_r(NULL," ",&save),NULL,16)); }
    else if(!strcmp(tok,"m64")){ do_msg(64, strtoull(strtok_r(NULL," ",&save),NULL,16)); }
    else if(!strcmp(tok,"S32")){ uint32_t s = (uint32_t)strtoul(strtok_r(NULL," ",&save),NULL,16); uint64_t n = strtoull(strtok_r(NULL," ",&save),NULL,10);
      uint32_t st = (uint32_t)strtoul(strtok_r(NULL," ",&save),NULL,16); sweep32(s,n,st); }
    else if(!strcmp(tok,"S64")){ uint64_t s = strtoull(strtok_r(NULL," ",&save),NULL,16); uint64_t n = strtoull(strtok_r(NULL," ",&save),NULL,10);
      uint64_t st = strtoull(strtok_r(NULL," ",&save),NULL,16); sweep64(s,n,st); }
    else printf("?\n");
    fflush(stdout);
  }
  return 0;
}
