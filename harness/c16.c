/* c16.c — C side of property C16: valid workloads are memory-clean.
   One case per input line = one operation sequence, run in a forked child from bufr_begin_api to bufr_end_api:
     ops separated by ';' :
       TB<h>                         create tables object h (master tables + the test local tables)
       T<h>=<tb>,<ed>,<d1>,<d2>..    bufr_create_template                       C<h>=<src>   bufr_copy_template
       D<h>=<t>                      bufr_create_dataset(template t)
       S<d>:<tok> <tok> ..           bufr_create_datasubset + values in wire order (tokens as in harness/codec.c: r<hex> s<hex> a<hex>,)
       E<h>=<d>,<comp>               bufr_encode_message -> message h           W<m>  memwrite + memread in place
       X<h>=<m>,<tb>                 bufr_decode_message(m, tables tb) -> dataset h
       G<dst>,<dpos>,<src>,<spos>,<nb>   bufr_merge_dataset
       U<h>                          read every value of dataset h (print to a sink)
       F<h>                          free handle h (whatever it is)
   Output: "OK ops=<n> leaked_blocks=<k> bytes_delta=<b>"   (after freeing everything the script freed, bufr_end_api, and an
   explicit LeakSanitizer check) or the child's failure class (SANITIZER / SIGNAL<n> / EXIT / LEAK). */
#include "hcommon.h"
#include <unistd.h>
#include <signal.h>
#include <sys/wait.h>
#include <math.h>
/* sanitizer runtime entry points (declared here: the interface headers are not installed for gcc) */
extern int __lsan_do_recoverable_leak_check(void);
extern size_t __sanitizer_get_current_allocated_bytes(void);

#define MAXH 4096
typedef enum { H_NONE=0, H_TABLES, H_TEMPLATE, H_DATASET, H_MESSAGE } hk;
static void *hv[MAXH]; static hk ht[MAXH];
static void sink(const char *m){ (void)m; }
void __real_exit(int);
static int in_case = 0;
void __wrap_exit(int code){ if(in_case) _exit(97); __real_exit(code); }
static void on_abort(const char *m){ (void)m; _exit(96); }

static int has_data(BufrDescriptor *b){
  if(b->flags & FLAG_SKIPPED) return 0;
  switch(b->encoding.type){ case TYPE_NUMERIC: case TYPE_CODETABLE: case TYPE_FLAGTABLE: case TYPE_CHNG_REF_VAL_OP: case TYPE_CCITT_IA5: case TYPE_IEEE_FP: return 1; default: return 0; }
}
static int set_token(BufrDescriptor *b, char *tok){
  if(tok[0]=='a'){ char *e; unsigned long long af = strtoull(tok+1,&e,16); if(b->value==NULL) b->value = bufr_mkval_for_descriptor(b);
     if(b->value && b->value->af) b->value->af->bits = af; tok = e; if(*tok==',') tok++; }
  if(b->value==NULL) b->value = bufr_mkval_for_descriptor(b);
  if(b->value==NULL) return -1;
  if(tok[0]=='s'){ static unsigned char buf[1<<16]; int n = unhex(tok+1, buf); buf[n]=0; return bufr_descriptor_set_svalue(b,(char*)buf) < 0 ? -1 : 0; }
  if(tok[0]=='r'){
    uint64_t raw = strtoull(tok+1,NULL,16); int w = b->encoding.nbits; uint64_t ones = (w>=64)? ~0ULL : ((1ULL<<w)-1);
    switch(b->encoding.type){
      case TYPE_NUMERIC: { if(raw==ones && !(b->flags & FLAG_CLASS31)) return 0; int64_t iv = (int64_t)raw + b->encoding.reference;
        if(b->value->type==VALTYPE_INT32||b->value->type==VALTYPE_INT8) return bufr_descriptor_set_ivalue(b,(int)iv)<0?-1:0;
        if(b->value->type==VALTYPE_INT64) return bufr_value_set_int64(b->value,iv)<0?-1:0;
        { double d=(double)iv; if(b->encoding.scale>0) d = d / pow(10.0,(double)b->encoding.scale); else if(b->encoding.scale<0) d = d * pow(10.0,(double)(-b->encoding.scale)); return bufr_descriptor_set_dvalue(b,d)<0?-1:0; } }
      case TYPE_CODETABLE: case TYPE_FLAGTABLE: if(raw==ones && !(b->flags & FLAG_CLASS31)) return 0;
        if(b->value->type==VALTYPE_INT64) return bufr_value_set_int64(b->value,(int64_t)raw)<0?-1:0; return bufr_descriptor_set_ivalue(b,(int)raw)<0?-1:0;
      case TYPE_CHNG_REF_VAL_OP: { uint64_t half=1ULL<<(w-1); int v = raw>=half ? -(int)(raw-half) : (int)raw; return bufr_descriptor_set_ivalue(b,v)<0?-1:0; }
      default: return -1; } }
  return -1;
}
static int fill_subset(BUFR_Dataset *dts, int pos, char **toks, int ntok){
  int k=0, j=0;
  for(;;){ DataSubset *ss = bufr_get_datasubset(dts,pos); int c = bufr_datasubset_count_descriptor(ss); if(j>=c) break;
    BufrDescriptor *b = bufr_datasubset_get_descriptor(ss,j);
    if(has_data(b)){ if(k>=ntok) return -2; if(set_token(b,toks[k++])) return -2;
      if((b->flags & FLAG_CLASS31) && !(b->flags & FLAG_EXPANDED)) bufr_expand_datasubset(dts,pos); }
    j++; }
  return k==ntok ? 0 : -2;
}
static char mbuf[1<<22];

static int run_ops(char *line){
  char *save=NULL; int nops=0;
  for(char *op=strtok_r(line,";",&save); op; op=strtok_r(NULL,";",&save)){
    while(*op==' ') op++;
    if(!*op) continue;
    nops++;
    if(op[0]=='T' && op[1]=='B'){ int h=atoi(op+2); BUFR_Tables *t=bufr_create_tables(); bufr_load_cmc_tables(t);
      char lb[4096], ld[4096]; snprintf(lb,sizeof lb,"%s/Test/local_table_b",VERIF_REPO_DIR); snprintf(ld,sizeof ld,"%s/Test/local_table_d",VERIF_REPO_DIR);
      bufr_load_l_tableB(t,lb); bufr_load_l_tableD(t,ld); hv[h]=t; ht[h]=H_TABLES; }
    else if(op[0]=='T'){ int h=atoi(op+1); char *p=strchr(op,'=')+1; int tb=atoi(p); p=strchr(p,',')+1; int ed=atoi(p); int ds[512], n=0;
      /* a negative number -(v+1) after a descriptor is a default (INT32) value v carried by the template for that descriptor */
      int dflt[512]; memset(dflt,0xff,sizeof dflt);
      while((p=strchr(p,','))){ p++; int v=atoi(p); if(v<0 && n>0) dflt[n-1]=-(v+1); else if(n<512) ds[n++]=v; }
      BufrDescValue *dv=(BufrDescValue*)calloc(n>0?n:1,sizeof *dv);
      for(int i=0;i<n;i++){ bufr_init_DescValue(&dv[i]); dv[i].descriptor=ds[i];
        if(dflt[i]>=0){ bufr_valloc_DescValue(&dv[i],1); dv[i].values[0]=bufr_create_value(VALTYPE_INT32); bufr_value_set_int32(dv[i].values[0],dflt[i]); } }
      BUFR_Template *t=bufr_create_template(dv,n,(BUFR_Tables*)hv[tb],ed);
      for(int i=0;i<n;i++) bufr_vfree_DescValue(&dv[i]);
      free(dv); if(!t) return -10; hv[h]=t; ht[h]=H_TEMPLATE; }
    else if(op[0]=='C'){ int h=atoi(op+1); int src=atoi(strchr(op,'=')+1); BUFR_Template *t=bufr_copy_template((BUFR_Template*)hv[src]); if(!t) return -11; hv[h]=t; ht[h]=H_TEMPLATE; }
    else if(op[0]=='D'){ int h=atoi(op+1); int t=atoi(strchr(op,'=')+1); BUFR_Dataset *d=bufr_create_dataset((BUFR_Template*)hv[t]); if(!d) return -12; hv[h]=d; ht[h]=H_DATASET; }
    else if(op[0]=='S'){ int d=atoi(op+1); char *p=strchr(op,':')+1; static char *toks[100000]; int nt=0; char *sv2=NULL;
      for(char *tk=strtok_r(p," ",&sv2); tk; tk=strtok_r(NULL," ",&sv2)) if(nt<100000) toks[nt++]=tk;
      int pos=bufr_create_datasubset((BUFR_Dataset*)hv[d]); if(fill_subset((BUFR_Dataset*)hv[d],pos,toks,nt)) return -13; }
    else if(op[0]=='E'){ int h=atoi(op+1); char *p=strchr(op,'=')+1; int d=atoi(p); int comp=atoi(strchr(p,',')+1);
      BUFR_Message *m=bufr_encode_message((BUFR_Dataset*)hv[d],comp); if(!m) return -14; hv[h]=m; ht[h]=H_MESSAGE; }
    else if(op[0]=='W'){ int h=atoi(op+1); ssize_t len=bufr_memwrite_message(mbuf,sizeof mbuf,(BUFR_Message*)hv[h]); BUFR_Message *m2=NULL;
      if(len<=0 || bufr_memread_message(mbuf,len,&m2)<=0 || !m2) return -15; bufr_free_message((BUFR_Message*)hv[h]); hv[h]=m2; }
    else if(op[0]=='X'){ int h=atoi(op+1); char *p=strchr(op,'=')+1; int m=atoi(p); int tb=atoi(strchr(p,',')+1);
      BUFR_Dataset *d=bufr_decode_message((BUFR_Message*)hv[m],(BUFR_Tables*)hv[tb]); if(!d) return -16; hv[h]=d; ht[h]=H_DATASET; }
    else if(op[0]=='G'){ int a[5]; char *p=op+1; for(int i=0;i<5;i++){ a[i]=atoi(p); p=strchr(p,','); if(p) p++; else break; }
      bufr_merge_dataset((BUFR_Dataset*)hv[a[0]],a[1],(BUFR_Dataset*)hv[a[2]],a[3],a[4]); }
    else if(op[0]=='U'){ int h=atoi(op+1); if(ht[h]==H_DATASET){ BUFR_Dataset *d=(BUFR_Dataset*)hv[h]; int n=bufr_count_datasubset(d);
        for(int s=0;s<n;s++){ DataSubset *ss=bufr_get_datasubset(d,s); int c=bufr_datasubset_count_descriptor(ss);
          for(int j=0;j<c;j++){ BufrDescriptor *b=bufr_datasubset_get_descriptor(ss,j); static char o[1<<16]; if(b && b->value && !(b->flags&FLAG_SKIPPED)) bufr_print_dscptr_value(o,b); } } }
      else if(ht[h]==H_MESSAGE){ bufr_memwrite_message(mbuf,sizeof mbuf,(BUFR_Message*)hv[h]); } }
    else if(op[0]=='F'){ int h=atoi(op+1);
      switch(ht[h]){ case H_TABLES: bufr_free_tables((BUFR_Tables*)hv[h]); break; case H_TEMPLATE: bufr_free_template((BUFR_Template*)hv[h]); break;
        case H_DATASET: bufr_free_dataset((BUFR_Dataset*)hv[h]); break; case H_MESSAGE: bufr_free_message((BUFR_Message*)hv[h]); break; default: return -17; }
      hv[h]=NULL; ht[h]=H_NONE; }
    else return -18;
  }
  return nops;
}

int main(void){
  char env[4096]; char *line;
  snprintf(env,sizeof env,"BUFR_TABLES=%s/Tables/",VERIF_REPO_DIR); putenv(strdup(env));
  while((line=h_getline())){
    int pfd[2]; if(pipe(pfd)) return 2;
    fflush(stdout); fflush(stderr);
    pid_t pid=fork();
    if(pid==0){
      close(pfd[0]); alarm(120);
      size_t b0 = __sanitizer_get_current_allocated_bytes();
      in_case = 1;
      bufr_begin_api(); bufr_set_abort(on_abort); bufr_set_debug_handler(sink); bufr_set_output_handler(sink);
      int n = run_ops(line);
      bufr_end_api();
      size_t b1 = __sanitizer_get_current_allocated_bytes();
      int leaks = __lsan_do_recoverable_leak_check();
      char res[160]; int k = snprintf(res,sizeof res,"%s ops=%d leak=%d bytes_delta=%ld", n>=0?"OK":"SCRIPT", n, leaks, (long)b1-(long)b0);
      if(write(pfd[1],res,k)<0) _exit(95);
      _exit(0);
    }
    close(pfd[1]);
    char res[256]; int k=0, got; while((got=read(pfd[0],res+k,sizeof(res)-1-k))>0) k+=got; res[k]=0; close(pfd[0]);
    int st=0; waitpid(pid,&st,0);
    if(WIFSIGNALED(st)) printf("SIGNAL%d\n",WTERMSIG(st));
    else if(WEXITSTATUS(st)==97) printf("EXIT\n"); else if(WEXITSTATUS(st)==96) printf("ABORT\n");
    else if(WEXITSTATUS(st)!=0) printf("SANITIZER code=%d\n",WEXITSTATUS(st));
    else printf("%s\n",res);
    fflush(stdout);
  }
  return 0;
}
