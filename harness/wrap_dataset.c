/* TU that replaces bufr_dataset.o: includes the library source so that the harness reaches its statics */
#include "bufr_dataset.c"
uint64_t verif_value2bits(BufrDescriptor *bd){ return bufr_value2bits(bd); }
