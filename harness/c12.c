/* c12.c — C side of the Table B / Table D correspondence (property C12).
   One HISTORY per input line, one output line per history; the operations of a history act on ONE BUFR_Tables object
   (created by the first operation / by NEW).  Tokens are separated by blanks, arguments by commas; file names must not
   contain blanks or commas.  One result token is printed per operation (flushed at once, so that the operations
   completed before a sanitizer stop remain visible).

     NEW                               free the object (and every MERGE source) and create a fresh one      -> new
     LMB,<f> LMD,<f> LLB,<f> LLD,<f>   bufr_load_m_tableB / m_tableD / l_tableB / l_tableD                  -> rc=<int>
     CSVB,<f> CSVD,<f>                 bufr_load_csv_tableB / bufr_load_csv_tableD                          -> rc=<int>
     MERGE,<mb>,<md>,<lb>,<ld>         a second object is created, the named files ('-' = none; prefix 'csv=' for the
                                       two master files = CSV loader) are loaded into it (master B, master D, local B,
                                       local D) and bufr_merge_tables(main, second) is called; the second object stays
                                       alive (its master tables are referenced by the main one) until NEW / end of line
                                                                                                            -> merged
     FB,<desc>                         bufr_fetch_tableB   -> B:<descriptor>:<type>:<scale>:<reference>:<nbits>:<unit hex>:<description hex> | B:ABSENT
     FD,<desc>                         bufr_fetch_tableD   -> D:<descriptor>:<d1>,<d2>,...  | D:ABSENT
     MD,<d1>,<d2>,...                  bufr_match_tableD_sequence -> M:<descriptor> | M:ABSENT
     VER                               -> V:<master.version>:<local.version>
     USELIST,<v1>,...,<vn>,=<req>      n objects with master.version = vi in a LinkedList; bufr_use_tables_list(list, req)
                                                                                                            -> U:<index>:<version> | U:NONE
     LOADLIST,<dir>,<n1>,...,=<req>    bufr_load_tables_list(dir, {n1,...}) then bufr_use_tables_list(list, req)
                                                       -> L:<number of objects>:<version of the selected one>:<number of its master B entries> | L:...:NONE
   type: the BufrDataType enum value mapped to  num | code | flag | str | other<n>                                        */
#include "hcommon.h"
#include "bufr_tables.h"
#include "bufr_linklist.h"
#include "bufr_array.h"

static BUFR_Tables *T = NULL;
static BUFR_Tables *others[4096]; static int nothers = 0;

static void reset(void){
  int i;
  if(T) bufr_free_tables(T);
  for(i = 0; i < nothers; i++) bufr_free_tables(others[i]);
  nothers = 0;
  T = bufr_create_tables();
}
static const char *tname(int t){
  static char b[32];
  switch(t){ case TYPE_NUMERIC: return "num"; case TYPE_CODETABLE: return "code"; case TYPE_FLAGTABLE: return "flag"; case TYPE_CCITT_IA5: return "str"; default: break; }
  snprintf(b, sizeof b, "other%d", t); return b;
}
static char *arg(char **p){ char *s = *p, *c; if(!s) return NULL; c = strchr(s, ','); if(c){ *c = 0; *p = c + 1; } else *p = NULL; return s; }
static int loadinto(BUFR_Tables *t, const char *f, int which){
  if(!f || !strcmp(f, "-")) return 0;
  switch(which){
    case 0: if(!strncmp(f, "csv=", 4)) return bufr_load_csv_tableB(t, f + 4); return bufr_load_m_tableB(t, f);
    case 1: if(!strncmp(f, "csv=", 4)) return bufr_load_csv_tableD(t, f + 4); return bufr_load_m_tableD(t, f);
    case 2: return bufr_load_l_tableB(t, f);
    default: return bufr_load_l_tableD(t, f);
  }
}

int main(void){
  char *line;
  bufr_begin_api();
  bufr_set_abort(h_abort_handler);
  while((line = h_getline())){
    char *save = NULL, *tok;
    int first = 1;
    T = NULL; nothers = 0;
    reset();
    for(tok = strtok_r(line, " ", &save); tok; tok = strtok_r(NULL, " ", &save)){
      char *p = tok; char *op = arg(&p);
      if(!first) printf(" "); first = 0;
      if(!strcmp(op, "NEW")){ reset(); printf("new"); }
      else if(!strcmp(op, "LMB")) printf("rc=%d", bufr_load_m_tableB(T, arg(&p)));
      else if(!strcmp(op, "LMD")) printf("rc=%d", bufr_load_m_tableD(T, arg(&p)));
      else if(!strcmp(op, "LLB")) printf("rc=%d", bufr_load_l_tableB(T, arg(&p)));
      else if(!strcmp(op, "LLD")) printf("rc=%d", bufr_load_l_tableD(T, arg(&p)));
      else if(!strcmp(op, "CSVB")) printf("rc=%d", bufr_load_csv_tableB(T, arg(&p)));
      else if(!strcmp(op, "CSVD")) printf("rc=%d", bufr_load_csv_tableD(T, arg(&p)));
      else if(!strcmp(op, "MERGE")){
        BUFR_Tables *o = bufr_create_tables(); int k;
        for(k = 0; k < 4; k++) loadinto(o, arg(&p), k);
        if(nothers < 4096) others[nothers++] = o;
        bufr_merge_tables(T, o);
        printf("merged");
      }
      else if(!strcmp(op, "FB")){
        int d = atoi(arg(&p));
        EntryTableB *e = bufr_fetch_tableB(T, d);
        if(!e) printf("B:ABSENT");
        else { printf("B:%d:%s:%d:%d:%d:", e->descriptor, tname(e->encoding.type), e->encoding.scale, e->encoding.reference, e->encoding.nbits);
               if(e->unit) puthex(stdout, (unsigned char*)e->unit, (long)strlen(e->unit)); else printf("NULL");
               printf(":");
               if(e->description) puthex(stdout, (unsigned char*)e->description, (long)strlen(e->description)); else printf("NULL"); }
      }
      else if(!strcmp(op, "FD")){
        int d = atoi(arg(&p)), i;
        EntryTableD *e = bufr_fetch_tableD(T, d);
        if(!e) printf("D:ABSENT");
        else { printf("D:%d:", e->descriptor); for(i = 0; i < e->count; i++) printf("%s%d", i ? "," : "", e->descriptors[i]); }
      }
      else if(!strcmp(op, "MD")){
        static int seq[8192]; int n = 0; char *a;
        while((a = arg(&p)) && n < 8192) seq[n++] = atoi(a);
        EntryTableD *e = bufr_match_tableD_sequence(T, n, seq);
        if(!e) printf("M:ABSENT"); else printf("M:%d", e->descriptor);
      }
      else if(!strcmp(op, "VER")) printf("V:%d:%d", T->master.version, T->local.version);
      else if(!strcmp(op, "USELIST")){
        LinkedList *l = lst_newlist(); char *a; int req = 0, idx = -1, i = 0; ListNode *nd; BUFR_Tables *r;
        while((a = arg(&p))){ if(a[0] == '='){ req = atoi(a + 1); break; } { BUFR_Tables *t = bufr_create_tables(); t->master.version = atoi(a); lst_addlast(l, lst_newnode(t)); } }
        r = bufr_use_tables_list(l, req);
        for(nd = lst_firstnode(l); nd; nd = nd->next, i++) if((BUFR_Tables*)nd->data == r && idx < 0) idx = i;
        if(!r) printf("U:NONE"); else printf("U:%d:%d", idx, r->master.version);
        bufr_free_tables_list(l);
      }
      else if(!strcmp(op, "LOADLIST")){
        char *dir = arg(&p), *a; int nos[64], n = 0, req = 0, cnt = 0; LinkedList *l; ListNode *nd; BUFR_Tables *r;
        while((a = arg(&p))){ if(a[0] == '='){ req = atoi(a + 1); break; } if(n < 64) nos[n++] = atoi(a); }
        unsetenv("WMO_BUFR_TABLES");
        l = bufr_load_tables_list(dir, nos, n);
        for(nd = lst_firstnode(l); nd; nd = nd->next) cnt++;
        r = bufr_use_tables_list(l, req);
        if(!r) printf("L:%d:NONE", cnt); else printf("L:%d:%d:%d", cnt, r->master.version, arr_count(r->master.tableB));
        bufr_free_tables_list(l);
      }
      else printf("?%s", op);
      fflush(stdout);
    }
    /* the objects are destroyed BEFORE the line is terminated: a stop in here belongs to this history */
    if(T){ int i; bufr_free_tables(T); T = NULL; for(i = 0; i < nothers; i++) bufr_free_tables(others[i]); nothers = 0; }
    printf("\n"); fflush(stdout);
  }
  return 0;
}
