/* wrap_bufr_ieee754.c — replaces the object bufr_ieee754.o in the C19 harness: the library file itself plus exported
   wrappers around its static self-check functions (outcome 1 = passed, 0 = failed, as check_C_ieee754_compliance reads them). */
#include "bufr_ieee754.c"

int verif_check_type_size(void)      { return check_type_size() ? 1 : 0; }
int verif_check_sign_bit(void)       { return check_sign_bit() < 0 ? 0 : 1; }
int verif_check_single_layout(void)  { return check_single_mem_layout() < 0 ? 0 : 1; }
int verif_check_double_layout(void)  { return check_double_mem_layout() < 0 ? 0 : 1; }
int verif_check_match_enc_dec(void)  { return check_match_encoding2decoding() < 0 ? 0 : 1; }
int verif_check_compliance(void)     { return check_C_ieee754_compliance() ? 1 : 0; }
int verif_C_use_ieee754(void)        { return C_use_ieee754; }
