/* hcommon.h — helpers shared by the harness programs */
#ifndef HCOMMON_H
#define HCOMMON_H
#include <stdio.h>
#include <stdlib.h>
#include <string.h>
#include <stdint.h>
#include <setjmp.h>
#include "bufr_api.h"
#include "bufr_io.h"
#ifndef VERIF_REPO_DIR
#define VERIF_REPO_DIR "/repo"
#endif
static int hexval(int c){ if(c>='0'&&c<='9')return c-'0'; if(c>='a'&&c<='f')return c-'a'+10; if(c>='A'&&c<='F')return c-'A'+10; return -1; }
static int unhex(const char*h, unsigned char*out){ int n=0; while(h[0]&&h[1]&&hexval(h[0])>=0){ out[n++]=(unsigned char)(hexval(h[0])*16+hexval(h[1])); h+=2;} return n; }
static void puthex(FILE*f,const unsigned char*b,long n){ long i; for(i=0;i<n;i++) fprintf(f,"%02x",b[i]); }
static jmp_buf h_abort_jmp; static int h_abort_armed=0; static int h_aborted=0;
static void h_abort_handler(const char*m){ (void)m; h_aborted=1; if(h_abort_armed) longjmp(h_abort_jmp,1); }
/* read one line of arbitrary length from stdin; returns NULL at EOF */
static char* h_getline(void){ static char*buf=NULL; static size_t cap=0; ssize_t n=getline(&buf,&cap,stdin); if(n<0) return NULL; while(n>0&&(buf[n-1]=='\n'||buf[n-1]=='\r')) buf[--n]=0; return buf; }
#endif
