#!/bin/sh
# Build /repo's current working tree of the library (API/Sources/*.c) into $1/libecbufr_verif.a
# with AddressSanitizer + UBSan and the guard -DLIBECBUFR_VERIF.  Nothing is written into /repo.
# usage: build.sh OUTDIR [plain|asan0]   ("plain" = no sanitizers, -O2, for the big sweeps; "asan0" = sanitizers at -O0:
# nothing the source says is elided by the optimiser, e.g. a malloc whose result is overwritten)
set -e
OUT="$1"; MODE="${2:-asan}"
REPO="${VERIF_REPO:-/repo}"
HERE="$(cd "$(dirname "$0")" && pwd)"
mkdir -p "$OUT/obj" "$OUT/inc"
# configure-generated headers may be absent on a pristine tree: fall back to our copies
if [ -f "$REPO/config.h" ]; then cp "$REPO/config.h" "$OUT/inc/config.h"; else cp "$HERE/config_fallback/config.h" "$OUT/inc/config.h"; fi
if [ -f "$REPO/API/Headers/bufr_api.h" ]; then :; else
  sed 's/@PACKAGE_VERSION@/0.9.4/' "$REPO/API/Headers/bufr_api.h.in" > "$OUT/inc/bufr_api.h"; fi
printf '#define LOCALEDIR "/nonexistent"\n' > "$OUT/inc/verif_defs.h"
if [ "$MODE" = plain ]; then SAN="-O2"; elif [ "$MODE" = asan0 ]; then SAN="-O0 -g -fsanitize=address,undefined -fno-omit-frame-pointer"; else SAN="-O1 -g -fsanitize=address,undefined -fno-omit-frame-pointer"; fi
CF="-std=gnu99 $SAN -DLIBECBUFR_VERIF -DHAVE_CONFIG_H -include $OUT/inc/verif_defs.h -w -I$OUT/inc -I$REPO/API/Headers -I$REPO/API/Headers/private -I$REPO/API/Sources"
echo "$CF" > "$OUT/cflags"
ls "$REPO"/API/Sources/*.c | xargs -P16 -I{} sh -c "gcc $CF -c {} -o $OUT/obj/\$(basename {} .c).o" 
rm -f "$OUT/libecbufr_verif.a"
ar rcs "$OUT/libecbufr_verif.a" "$OUT"/obj/*.o
