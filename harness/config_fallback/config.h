/* config.h.  Generated from config.h.in by configure.  */
/* config.h.in.  Generated from configure.ac by autoheader.  */

/* Define if building universal (internal helper macro) */
/* #undef AC_APPLE_UNIVERSAL_BUILD */

/* Define to 1 if translation of program messages to the user's native
   language is requested. */
#define ENABLE_NLS 1

/* GC Size for Descriptor */
/* #undef GCMEM_DESCRIPTOR_SIZE */

/* GC Size for ListNode */
/* #undef GCMEM_LISTNODE_SIZE */

/* GC Size for ValFlt32 */
/* #undef GCMEM_VALFLT32_SIZE */

/* GC Size for ValFlt64 */
/* #undef GCMEM_VALFLT64_SIZE */

/* GC Size for ValInt32 */
/* #undef GCMEM_VALINT32_SIZE */

/* GC Size for ValInt64 */
/* #undef GCMEM_VALINT64_SIZE */

/* GC Size for ValInt8 */
/* #undef GCMEM_VALINT8_SIZE */

/* GC Size for ValString */
/* #undef GCMEM_VALSTRING_SIZE */

/* Define to 1 if you have the MacOS X function CFLocaleCopyCurrent in the
   CoreFoundation framework. */
/* #undef HAVE_CFLOCALECOPYCURRENT */

/* Define to 1 if you have the MacOS X function CFPreferencesCopyAppValue in
   the CoreFoundation framework. */
/* #undef HAVE_CFPREFERENCESCOPYAPPVALUE */

/* Define to 1 if you have the <ctype.h> header file. */
#define HAVE_CTYPE_H 1

/* Define if the GNU dcgettext() function is already present or preinstalled.
   */
#define HAVE_DCGETTEXT 1

/* Define to 1 if you have the <dlfcn.h> header file. */
#define HAVE_DLFCN_H 1

/* Define if the GNU gettext() function is already present or preinstalled. */
#define HAVE_GETTEXT 1

/* Define if you have the iconv() function. */
/* #undef HAVE_ICONV */

/* Define to 1 if you have the <inttypes.h> header file. */
#define HAVE_INTTYPES_H 1

/* Define to 1 if you have the `c' library (-lc). */
/* #undef HAVE_LIBC */

/* Define to 1 if you have the <limits.h> header file. */
#define HAVE_LIMITS_H 1

/* Define to 1 if you have the <math.h> header file. */
#define HAVE_MATH_H 1

/* Define to 1 if you have the <minix/config.h> header file. */
/* #undef HAVE_MINIX_CONFIG_H */

/* Define to 1 if you have the <stdint.h> header file. */
#define HAVE_STDINT_H 1

/* Define to 1 if you have the <stdio.h> header file. */
#define HAVE_STDIO_H 1

/* Define to 1 if you have the <stdlib.h> header file. */
#define HAVE_STDLIB_H 1

/* Define to 1 if you have the <strings.h> header file. */
#define HAVE_STRINGS_H 1

/* Define to 1 if you have the <string.h> header file. */
#define HAVE_STRING_H 1

/* Define to 1 if you have the <sys/int_types.h> header file. */
/* #undef HAVE_SYS_INT_TYPES_H */

/* Define to 1 if you have the <sys/stat.h> header file. */
#define HAVE_SYS_STAT_H 1

/* Define to 1 if you have the <sys/types.h> header file. */
#define HAVE_SYS_TYPES_H 1

/* Define to 1 if you have the <time.h> header file. */
#define HAVE_TIME_H 1

/* Define to 1 if the system has the type `uint128_t'. */
/* #undef HAVE_UINT128_T */

/* Define to 1 if the system has the type `uint64_t'. */
#define HAVE_UINT64_T 1

/* Define to 1 if you have the <unistd.h> header file. */
#define HAVE_UNISTD_H 1

/* Define to 1 if you have the <values.h> header file. */
#define HAVE_VALUES_H 1

/* Define to 1 if you have the <wchar.h> header file. */
#define HAVE_WCHAR_H 1

/* Define to the sub-directory where libtool stores uninstalled libraries. */
#define LT_OBJDIR ".libs/"

/* Name of package */
#define PACKAGE "libecbufr"

/* Define to the address where bug reports for this package should be sent. */
#define PACKAGE_BUGREPORT "https://github.com/ECCC-MSC/libecbufr"

/* Define to the full name of this package. */
#define PACKAGE_NAME "libecbufr"

/* Define to the full name and version of this package. */
#define PACKAGE_STRING "libecbufr 0.9.4"

/* Define to the one symbol short name of this package. */
#define PACKAGE_TARNAME "libecbufr"

/* Define to the home page for this package. */
#define PACKAGE_URL ""

/* Define to the version of this package. */
#define PACKAGE_VERSION "0.9.4"

/* Define to 1 if all of the C90 standard headers exist (not just the ones
   required in a freestanding environment). This macro is provided for
   backward compatibility; new code need not use it. */
#define STDC_HEADERS 1

/* Flag enabling use of Memory Garbage Collector */
/* #undef USE_GCMEMORY */

/* Enable extensions on AIX 3, Interix.  */
#ifndef _ALL_SOURCE
# define _ALL_SOURCE 1
#endif
/* Enable general extensions on macOS.  */
#ifndef _DARWIN_C_SOURCE
# define _DARWIN_C_SOURCE 1
#endif
/* Enable general extensions on Solaris.  */
#ifndef __EXTENSIONS__
# define __EXTENSIONS__ 1
#endif
/* Enable GNU extensions on systems that have them.  */
#ifndef _GNU_SOURCE
# define _GNU_SOURCE 1
#endif
/* Enable X/Open compliant socket functions that do not require linking
   with -lxnet on HP-UX 11.11.  */
#ifndef _HPUX_ALT_XOPEN_SOCKET_API
# define _HPUX_ALT_XOPEN_SOCKET_API 1
#endif
/* Identify the host operating system as Minix.
   This macro does not affect the system headers' behavior.
   A future release of Autoconf may stop defining this macro.  */
#ifndef _MINIX
/* # undef _MINIX */
#endif
/* Enable general extensions on NetBSD.
   Enable NetBSD compatibility extensions on Minix.  */
#ifndef _NETBSD_SOURCE
# define _NETBSD_SOURCE 1
#endif
/* Enable OpenBSD compatibility extensions on NetBSD.
   Oddly enough, this does nothing on OpenBSD.  */
#ifndef _OPENBSD_SOURCE
# define _OPENBSD_SOURCE 1
#endif
/* Define to 1 if needed for POSIX-compatible behavior.  */
#ifndef _POSIX_SOURCE
/* # undef _POSIX_SOURCE */
#endif
/* Define to 2 if needed for POSIX-compatible behavior.  */
#ifndef _POSIX_1_SOURCE
/* # undef _POSIX_1_SOURCE */
#endif
/* Enable POSIX-compatible threading on Solaris.  */
#ifndef _POSIX_PTHREAD_SEMANTICS
# define _POSIX_PTHREAD_SEMANTICS 1
#endif
/* Enable extensions specified by ISO/IEC TS 18661-5:2014.  */
#ifndef __STDC_WANT_IEC_60559_ATTRIBS_EXT__
# define __STDC_WANT_IEC_60559_ATTRIBS_EXT__ 1
#endif
/* Enable extensions specified by ISO/IEC TS 18661-1:2014.  */
#ifndef __STDC_WANT_IEC_60559_BFP_EXT__
# define __STDC_WANT_IEC_60559_BFP_EXT__ 1
#endif
/* Enable extensions specified by ISO/IEC TS 18661-2:2015.  */
#ifndef __STDC_WANT_IEC_60559_DFP_EXT__
# define __STDC_WANT_IEC_60559_DFP_EXT__ 1
#endif
/* Enable extensions specified by ISO/IEC TS 18661-4:2015.  */
#ifndef __STDC_WANT_IEC_60559_FUNCS_EXT__
# define __STDC_WANT_IEC_60559_FUNCS_EXT__ 1
#endif
/* Enable extensions specified by ISO/IEC TS 18661-3:2015.  */
#ifndef __STDC_WANT_IEC_60559_TYPES_EXT__
# define __STDC_WANT_IEC_60559_TYPES_EXT__ 1
#endif
/* Enable extensions specified by ISO/IEC TR 24731-2:2010.  */
#ifndef __STDC_WANT_LIB_EXT2__
# define __STDC_WANT_LIB_EXT2__ 1
#endif
/* Enable extensions specified by ISO/IEC 24747:2009.  */
#ifndef __STDC_WANT_MATH_SPEC_FUNCS__
# define __STDC_WANT_MATH_SPEC_FUNCS__ 1
#endif
/* Enable extensions on HP NonStop.  */
#ifndef _TANDEM_SOURCE
# define _TANDEM_SOURCE 1
#endif
/* Enable X/Open extensions.  Define to 500 only if necessary
   to make mbstate_t available.  */
#ifndef _XOPEN_SOURCE
/* # undef _XOPEN_SOURCE */
#endif


/* Version number of package */
#define VERSION "0.9.4"

/* Define WORDS_BIGENDIAN to 1 if your processor stores words with the most
   significant byte first (like Motorola and SPARC, unlike Intel). */
#if defined AC_APPLE_UNIVERSAL_BUILD
# if defined __BIG_ENDIAN__
#  define WORDS_BIGENDIAN 1
# endif
#else
# ifndef WORDS_BIGENDIAN
/* #  undef WORDS_BIGENDIAN */
# endif
#endif
