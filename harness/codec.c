/* codec.c — C side of the encoder/decoder correspondence (properties C01-C04, C07, C09, C10, C14).
   Datasets are built through the public API exactly as an application would:
     bufr_create_template -> bufr_create_dataset -> per subset bufr_create_datasubset, values set in wire order,
     bufr_expand_datasubset after every delayed replication factor.
   Protocol: one case per input line, one output line per case.
     TABLES <dir-or-empty> [localB file] [localD file]   (re)load tables: CMC master tables from VERIF_REPO_DIR/Tables + optional local
     T <ed> <n> <desc>...                      template only: "T rc=<0|-1> n=<count> : <expanded descriptors with flags>"
     E <ed> <comp> <n> <desc>... <nsub> {<tok>... |}...   build, list, encode:
          "E rc=0 comp=<flag> msg=<hex> ; S0 <item>... ; S1 ..."      rc: 0 ok, -1 template refused, -2 value not consumable, -3 exit() called, -4 abort handler
          tok:  i<int> (set_ivalue)  d<16 hex> (set_dvalue, IEEE bits)  f<8 hex> (set_fvalue) s<hex bytes> (set_svalue)  m (leave missing)
                optionally prefixed a<hex>: associated-field bits
     D <hex> [<from> <to>]                     memread + decode: "D rc=<..> consumed=<n> flag=<data_flag> nsub=<k> ; S0 <item>... ; ..."
     R <hex> <comp>                            decode then re-encode (comp: -1 keep, 0, 1): "R rc=.. msg=<hex>"
   item: <desc>/<flags hex>/<type>/<nbits>/<scale>/<ref>/<afn>:<afbits hex>/<value>[=<raw hex>]
         value: i<int> | d<16hex> | f<8hex> | s<hex> | - ;  raw = the library's own bufr_value2bits for numeric/code/flag/2 03 elements.
*/
#include "hcommon.h"
#include <math.h>
uint64_t verif_value2bits(BufrDescriptor *bd);   /* wrap_dataset.c */

static BUFR_Tables *tables = NULL;
static unsigned long sink_bytes = 0;
static void sink_debug(const char *msg){ if(msg) sink_bytes += strlen(msg); }
static char *g_header = NULL;
static int g_preset = 0; /* LAZY 2 <J>: two-step expansion - the first delayed replication is first expanded with count 0 (its body becomes
                            SKIPPED), every delayed count inside the skipped body is preset to J, then the counts are set in wire order and the subset
                            is expanded again after each of them (the inner counts are relied on from the preset, as an application that fills a
                            template's default counts does) */
static int g_lazy = 0;   /* LAZY 1: zero delayed replication counts are left at their default instead of being set and expanded */
static jmp_buf exit_jmp; static int exit_armed = 0; static int exit_called = 0;
void __real_exit(int);
void __wrap_exit(int code){ if(exit_armed){ exit_called = 1; longjmp(exit_jmp, 1);} __real_exit(code); }

static void load_tables(const char *lb, const char *ld){
  char env[4096];
  if(tables) bufr_free_tables(tables);
  snprintf(env, sizeof env, "BUFR_TABLES=%s/Tables/", VERIF_REPO_DIR);
  putenv(strdup(env));
  tables = bufr_create_tables();
  bufr_load_cmc_tables(tables);
  if(lb && lb[0] && strcmp(lb,"-")) bufr_load_l_tableB(tables, lb);
  if(ld && ld[0] && strcmp(ld,"-")) bufr_load_l_tableD(tables, ld);
}

static void print_item(BufrDescriptor *b){
  printf(" %06d/%x/%d/%d/%d/%d/", b->descriptor, (unsigned)b->flags, (int)b->encoding.type, b->encoding.nbits, b->encoding.scale, b->encoding.reference);
  if(b->value && b->value->af) printf("%d:%llx/", (int)b->value->af->nbits, (unsigned long long)b->value->af->bits); else printf("%d:-/", (int)b->encoding.af_nbits);
  if(!b->value){ printf("-"); return; }
  switch(b->value->type){
    case VALTYPE_INT8: case VALTYPE_INT32: printf("i%d", bufr_value_get_int32(b->value)); break;
    case VALTYPE_INT64: printf("i%lld", (long long)bufr_value_get_int64(b->value)); break;
    case VALTYPE_FLT32: { float f = bufr_value_get_float(b->value); uint32_t u; memcpy(&u,&f,4); if(b->encoding.type != TYPE_IEEE_FP && bufr_is_missing_float(f)) printf("fM");   /* 2 09 YYY: the pattern itself is the value */ else printf("f%08x", u); break; }
    case VALTYPE_FLT64: { double d = bufr_value_get_double(b->value); uint64_t u; memcpy(&u,&d,8); if(b->encoding.type != TYPE_IEEE_FP && bufr_is_missing_double(d)) printf("dM"); else printf("d%016llx", (unsigned long long)u); break; }
    case VALTYPE_STRING: { int len=0; const char *s = bufr_value_get_string(b->value,&len); printf("s"); if(s) puthex(stdout,(const unsigned char*)s,len); else printf("NULL"); break; }
    default: printf("?"); break;
  }
  if(!(b->flags & FLAG_SKIPPED)){
    switch(b->encoding.type){
      case TYPE_NUMERIC: case TYPE_CODETABLE: case TYPE_FLAGTABLE: case TYPE_CHNG_REF_VAL_OP:
        if(b->encoding.nbits > 0 && b->encoding.nbits <= 64){
          exit_called = 0; exit_armed = 1;
          if(setjmp(exit_jmp)==0){ uint64_t r = verif_value2bits(b); printf("=%llx", (unsigned long long)r); } else printf("=EXIT");
          exit_armed = 0;
        }
        break;
      default: break;
    }
  }
}

static void list_dataset(BUFR_Dataset *d){
  int s, n = bufr_count_datasubset(d);
  for(s=0;s<n;s++){
    DataSubset *ss = bufr_get_datasubset(d,s);
    int c = bufr_datasubset_count_descriptor(ss), j;
    printf(" ; S%d", s);
    for(j=0;j<c;j++) print_item(bufr_datasubset_get_descriptor(ss,j));
  }
}

static BUFR_Template* mk_template(int ed, int n, int *descs){
  BufrDescValue *dv = (BufrDescValue*)calloc(n>0?n:1, sizeof *dv); int i;
  for(i=0;i<n;i++){ bufr_init_DescValue(&dv[i]); dv[i].descriptor = descs[i]; }
  BUFR_Template *t = NULL;
  h_aborted = 0; h_abort_armed = 1; exit_called = 0; exit_armed = 1;
  if(setjmp(h_abort_jmp)==0 && setjmp(exit_jmp)==0) t = bufr_create_template(dv, n, tables, ed);
  else t = NULL;
  h_abort_armed = 0; exit_armed = 0;
  free(dv);
  return t;
}

/* set one value from a token; returns 0 ok */
static int set_token(BufrDescriptor *b, char *tok){
  if(tok[0]=='a'){ char *e; unsigned long long af = strtoull(tok+1,&e,16); if(b->value==NULL) b->value = bufr_mkval_for_descriptor(b);
     if(b->value && b->value->af) b->value->af->bits = af; tok = e; if(*tok==',') tok++; }
  switch(tok[0]){
    case 'i': return bufr_descriptor_set_ivalue(b, atoi(tok+1)) < 0 ? -1 : 0;
    case 'd': { uint64_t u = strtoull(tok+1,NULL,16); double d; memcpy(&d,&u,8); return bufr_descriptor_set_dvalue(b,d) < 0 ? -1 : 0; }
    case 'f': { uint32_t u = (uint32_t)strtoul(tok+1,NULL,16); float f; memcpy(&f,&u,4); return bufr_descriptor_set_fvalue(b,f) < 0 ? -1 : 0; }
    case 's': { static unsigned char buf[1<<16]; int n = unhex(tok+1, buf); buf[n]=0; return bufr_descriptor_set_svalue(b,(char*)buf) < 0 ? -1 : 0; }
    case 'm': if(b->value==NULL) b->value = bufr_mkval_for_descriptor(b); return 0;
    case 'r': {   /* intended raw (wire) value: converted here, with no library conversion function, to the value the application would set */
      uint64_t raw = strtoull(tok+1,NULL,16);
      int w = b->encoding.nbits; uint64_t ones = (w>=64)? ~0ULL : ((1ULL<<w)-1);
      if(b->value==NULL) b->value = bufr_mkval_for_descriptor(b);
      if(b->value==NULL) return -1;
      switch(b->encoding.type){
        case TYPE_NUMERIC: {
          if(raw==ones && !(b->flags & FLAG_CLASS31)) return 0;            /* missing: leave the fresh value */
          int64_t iv = (int64_t)raw + (int64_t)b->encoding.reference;
          if(b->value->type==VALTYPE_INT32 || b->value->type==VALTYPE_INT8) return bufr_descriptor_set_ivalue(b,(int)iv) < 0 ? -1 : 0;
          if(b->value->type==VALTYPE_INT64) return bufr_value_set_int64(b->value, iv) < 0 ? -1 : 0;
          { int sc = b->encoding.scale; double d = (double)iv;       /* correctly rounded (raw+ref)/10^scale: operands exact below 2^53, 10^k exact for k<=22 */
            if(sc>0) d = d / pow(10.0, (double)sc); else if(sc<0) d = d * pow(10.0, (double)(-sc));   /* the same arithmetic a decode of this raw value performs: (raw+ref)/10^scale, (raw+ref)*10^-scale for a negative scale */
            if(b->value->type==VALTYPE_FLT32) return bufr_descriptor_set_fvalue(b,(float)d) < 0 ? -1 : 0;
            return bufr_descriptor_set_dvalue(b,d) < 0 ? -1 : 0; } }
        case TYPE_CODETABLE: case TYPE_FLAGTABLE:
          if(raw==ones && !(b->flags & FLAG_CLASS31)) return 0;
          if(b->value->type==VALTYPE_INT64) return bufr_value_set_int64(b->value,(int64_t)raw) < 0 ? -1 : 0;
          return bufr_descriptor_set_ivalue(b,(int)raw) < 0 ? -1 : 0;
        case TYPE_CHNG_REF_VAL_OP: { uint64_t half = 1ULL<<(w-1); int v = raw>=half ? -(int)(raw-half) : (int)raw; return bufr_descriptor_set_ivalue(b,v) < 0 ? -1 : 0; }
        default: return -1;
      }
    }
    default: return -1;
  }
}

static int has_data(BufrDescriptor *b){
  if(b->flags & FLAG_SKIPPED) return 0;
  switch(b->encoding.type){
    case TYPE_NUMERIC: case TYPE_CODETABLE: case TYPE_FLAGTABLE: case TYPE_CHNG_REF_VAL_OP: case TYPE_CCITT_IA5: case TYPE_IEEE_FP: return 1;
    default: return 0;
  }
}

/* fill subset `pos` of dts with tokens in wire order */
static int is_delayed_count(BufrDescriptor *b){
  return (b->flags & FLAG_CLASS31) && (b->descriptor==31001 || b->descriptor==31002 || b->descriptor==31000 || b->descriptor==31011 || b->descriptor==31012);
}
static void two_step_prepare(BUFR_Dataset *dts, int pos){
  DataSubset *ss = bufr_get_datasubset(dts,pos);
  int c = bufr_datasubset_count_descriptor(ss), j;
  for(j=0;j<c;j++){
    BufrDescriptor *b = bufr_datasubset_get_descriptor(ss,j);
    if(is_delayed_count(b) && !(b->flags & (FLAG_EXPANDED|FLAG_SKIPPED))){
      bufr_descriptor_set_ivalue(b,0);
      bufr_expand_datasubset(dts,pos);
      break;
    }
  }
  ss = bufr_get_datasubset(dts,pos);
  c = bufr_datasubset_count_descriptor(ss);
  for(j=0;j<c;j++){
    BufrDescriptor *b = bufr_datasubset_get_descriptor(ss,j);
    if(is_delayed_count(b) && (b->flags & FLAG_SKIPPED)){
      if(b->value==NULL) b->value = bufr_mkval_for_descriptor(b);
      bufr_descriptor_set_ivalue(b,g_preset);
    }
  }
}

static int fill_subset(BUFR_Dataset *dts, int pos, char **toks, int ntok){
  int k = 0, j = 0, seen_outer = 0;
  if(g_lazy==2) two_step_prepare(dts,pos);
  for(;;){
    DataSubset *ss = bufr_get_datasubset(dts,pos);
    int c = bufr_datasubset_count_descriptor(ss);
    if(j >= c) break;
    BufrDescriptor *b = bufr_datasubset_get_descriptor(ss,j);
    if(has_data(b)){
      if(g_lazy==1 && (b->flags & FLAG_CLASS31) && !(b->flags & FLAG_EXPANDED) && k < ntok && !strcmp(toks[k],"r0")
         && (b->descriptor==31000 || b->descriptor==31001 || b->descriptor==31002)){ k++; j++; continue; }  /* count 0 is the default: an application need not set it */
      if(g_lazy==2 && is_delayed_count(b) && k < ntok && toks[k][0]=='r'){
        if(seen_outer && !(strtoul(toks[k]+1,NULL,16)==0 && !(b->flags & FLAG_EXPANDED) && (b->value==NULL || bufr_value_get_int32(b->value)<=0))){   /* a count 0 left unexpanded is set and expanded the ordinary way below */
          /* a count inside the body of the outer replication: the second expansion must have used the preset count (the library does not let
             an application change a count once expanded, and this path does not set it again): expanded, and holding the intended count */
          if(!(b->flags & FLAG_EXPANDED) || b->value==NULL || (long)strtoul(toks[k]+1,NULL,16) != (long)bufr_value_get_int32(b->value)){
            if(getenv("VERIF_DEBUG")) fprintf(stderr,"fill: two-step: count at j=%d desc=%06d flags=%x holds %d, preset %s\n",j,b->descriptor,b->flags,b->value?bufr_value_get_int32(b->value):-999,toks[k]);
            return -5;
          }
          k++; j++; continue;
        }
        seen_outer = 1;
      }
      if(k >= ntok){ if(getenv("VERIF_DEBUG")) fprintf(stderr,"fill: out of tokens at j=%d desc=%06d\n",j,b->descriptor); return -2; }
      if(set_token(b, toks[k++])){ if(getenv("VERIF_DEBUG")) fprintf(stderr,"fill: set failed at j=%d desc=%06d tok=%s flags=%x\n",j,b->descriptor,toks[k-1],b->flags); return -2; }
      if((b->flags & FLAG_CLASS31) && (!(b->flags & FLAG_EXPANDED) || g_lazy==2)){
        /* delayed replication / repetition factor: expand now, as encode_delayed_repl.c does */
        bufr_expand_datasubset(dts,pos);
      }
    }
    j++;
  }
  if(k != ntok && getenv("VERIF_DEBUG")) fprintf(stderr,"fill: %d of %d tokens used\n",k,ntok);
  return (k == ntok) ? 0 : -2;
}

static char msgbuf[1<<22];

/* parse "<ed> <n> <desc>.. <nsub> {tok.. |}.." and build the dataset through the public API; *rc as documented for E */
static BUFR_Dataset* build_dataset(char **save, int *rcp){
  int ed = atoi(strtok_r(NULL," ",save)), n = atoi(strtok_r(NULL," ",save)), i;
  int *descs = (int*)calloc(n>0?n:1, sizeof(int));
  for(i=0;i<n;i++) descs[i] = atoi(strtok_r(NULL," ",save));
  int nsub = atoi(strtok_r(NULL," ",save));
  BUFR_Template *t = mk_template(ed,n,descs);
  free(descs);
  if(!t){ *rcp = -1; return NULL; }
  BUFR_Dataset *dts = bufr_create_dataset(t);
  bufr_free_template(t);
  dts->s1.year=2020; dts->s1.month=1; dts->s1.day=2; dts->s1.hour=3; dts->s1.minute=4; dts->s1.second=5;
  int rc = 0, s;
  for(s=0;s<nsub && rc==0;s++){
    static char *toks[200000]; int nt=0; char *tk;
    while((tk=strtok_r(NULL," ",save)) && strcmp(tk,"|")) { if(nt<200000) toks[nt++]=tk; }
    h_aborted=0; h_abort_armed=1; exit_called=0; exit_armed=1;
    if(setjmp(h_abort_jmp)==0 && setjmp(exit_jmp)==0){
      int pos = bufr_create_datasubset(dts);
      rc = fill_subset(dts,pos,toks,nt);
    } else rc = exit_called ? -3 : -4;
    h_abort_armed=0; exit_armed=0;
  }
  *rcp = rc;
  if(rc){ bufr_free_dataset(dts); return NULL; }
  return dts;
}

static void do_E(char **save){
  char *eds = strtok_r(NULL," ",save); int comp = atoi(strtok_r(NULL," ",save)); int rc = 0;
  int ed = atoi(eds), n = atoi(strtok_r(NULL," ",save)), i;
  int *descs = (int*)calloc(n>0?n:1, sizeof(int));
  for(i=0;i<n;i++) descs[i] = atoi(strtok_r(NULL," ",save));
  int nsub = atoi(strtok_r(NULL," ",save));
  BUFR_Template *t = mk_template(ed,n,descs);
  free(descs);
  if(!t){ printf("E rc=-1\n"); return; }
  BUFR_Dataset *dts = bufr_create_dataset(t);
  bufr_free_template(t);
  dts->s1.year=2020; dts->s1.month=1; dts->s1.day=2; dts->s1.hour=3; dts->s1.minute=4; dts->s1.second=5;
  int s;
  for(s=0;s<nsub && rc==0;s++){
    static char *toks[200000]; int nt=0; char *tk;
    while((tk=strtok_r(NULL," ",save)) && strcmp(tk,"|")) { if(nt<200000) toks[nt++]=tk; }
    h_aborted=0; h_abort_armed=1; exit_called=0; exit_armed=1;
    if(setjmp(h_abort_jmp)==0 && setjmp(exit_jmp)==0){
      int pos = bufr_create_datasubset(dts);
      rc = fill_subset(dts,pos,toks,nt);
    } else rc = exit_called ? -3 : -4;
    h_abort_armed=0; exit_armed=0;
  }
  if(rc){ printf("E rc=%d\n", rc); bufr_free_dataset(dts); return; }
  if(g_header){ if(dts->header_string) free(dts->header_string); dts->header_string = strdup(g_header); }
  BUFR_Message *m = NULL;
  h_aborted=0; h_abort_armed=1; exit_called=0; exit_armed=1;
  if(setjmp(h_abort_jmp)==0 && setjmp(exit_jmp)==0) m = bufr_encode_message(dts, comp);
  else rc = exit_called ? -3 : -4;
  h_abort_armed=0; exit_armed=0;
  if(rc || !m){ printf("E rc=%d", rc?rc:-5); list_dataset(dts); printf("\n"); bufr_free_dataset(dts); return; }
  ssize_t len = bufr_memwrite_message(msgbuf, sizeof msgbuf, m);
  printf("E rc=0 comp=%d invalid=%d msg=", (m->s3.flag & BUFR_FLAG_COMPRESSED)?1:0, (dts->data_flag & BUFR_FLAG_INVALID)?1:0);
  puthex(stdout,(unsigned char*)msgbuf,len);
  list_dataset(dts);
  printf("\n");
  bufr_free_message(m);
  bufr_free_dataset(dts);
}

/* A <comp> <message hex> <nsub> {tok.. |}..   decode the message, append nsub subsets (values in wire order) to the DECODED
   dataset, encode it with <comp>:  "A rc=.. comp=<flag of the new message> invalid=.. msg=<hex> ; S0 .." as for E.
   (a decoded dataset carries the flags of the message it came from, e.g. COMPRESSED) */
static void do_A(char **save){
  int comp = atoi(strtok_r(NULL," ",save)); char *hex = strtok_r(NULL," ",save);
  int nsub = atoi(strtok_r(NULL," ",save)), rc = 0, s;
  static unsigned char in[1<<22]; int n = unhex(hex, in);
  BUFR_Message *m0 = NULL; BUFR_Dataset *dts = NULL;
  if(bufr_memread_message((char*)in, n, &m0) <= 0 || !m0){ printf("A rc=-1\n"); return; }
  dts = bufr_decode_message(m0, tables);
  bufr_free_message(m0);
  if(!dts){ printf("A rc=-2\n"); return; }
  for(s=0;s<nsub && rc==0;s++){
    static char *toks[200000]; int nt=0; char *tk;
    while((tk=strtok_r(NULL," ",save)) && strcmp(tk,"|")) { if(nt<200000) toks[nt++]=tk; }
    h_aborted=0; h_abort_armed=1; exit_called=0; exit_armed=1;
    if(setjmp(h_abort_jmp)==0 && setjmp(exit_jmp)==0){
      int pos = bufr_create_datasubset(dts);
      rc = fill_subset(dts,pos,toks,nt);
    } else rc = exit_called ? -3 : -4;
    h_abort_armed=0; exit_armed=0;
  }
  if(rc){ printf("A rc=%d\n", rc); bufr_free_dataset(dts); return; }
  BUFR_Message *m = NULL;
  h_aborted=0; h_abort_armed=1; exit_called=0; exit_armed=1;
  if(setjmp(h_abort_jmp)==0 && setjmp(exit_jmp)==0) m = bufr_encode_message(dts, comp);
  else rc = exit_called ? -3 : -4;
  h_abort_armed=0; exit_armed=0;
  if(rc || !m){ printf("A rc=%d\n", rc?rc:-5); if(!rc) bufr_free_dataset(dts); return; }   /* after exit()/abort the dataset may be half-written: leave it */
  ssize_t len = bufr_memwrite_message(msgbuf, sizeof msgbuf, m);
  printf("A rc=0 comp=%d invalid=%d msg=", (m->s3.flag & BUFR_FLAG_COMPRESSED)?1:0, (dts->data_flag & BUFR_FLAG_INVALID)?1:0);
  puthex(stdout,(unsigned char*)msgbuf,len);
  list_dataset(dts);
  printf("\n");
  bufr_free_message(m);
  bufr_free_dataset(dts);
}

/* M <dest_pos> <src_pos> <nb> <dataset spec of dest> @@ <dataset spec of src>    spec = <ed> <n> <desc>.. <nsub> {tok.. |}..
   -> "M rc=<return of bufr_merge_dataset or build error> ; S0 .. ; S1 .." (the destination after merging) */
static void do_M(char **save){
  int dpos = atoi(strtok_r(NULL," ",save)), spos = atoi(strtok_r(NULL," ",save)), nb = atoi(strtok_r(NULL," ",save));
  int rc1=0, rc2=0;
  BUFR_Dataset *dest = build_dataset(save,&rc1);
  char *sep = strtok_r(NULL," ",save);
  if(!sep || strcmp(sep,"@@")){ printf("M rc=-90\n"); if(dest) bufr_free_dataset(dest); return; }
  BUFR_Dataset *src = build_dataset(save,&rc2);
  if(!dest || !src){ printf("M rc=-91 build=%d,%d\n", rc1, rc2); if(dest) bufr_free_dataset(dest); if(src) bufr_free_dataset(src); return; }
  int r = -99;
  h_aborted=0; h_abort_armed=1; exit_called=0; exit_armed=1;
  if(setjmp(h_abort_jmp)==0 && setjmp(exit_jmp)==0) r = bufr_merge_dataset(dest, dpos, src, spos, nb);
  else r = exit_called ? -93 : -94;
  h_abort_armed=0; exit_armed=0;
  printf("M rc=%d nsub=%d", r, bufr_count_datasubset(dest));
  list_dataset(dest);
  printf("\n");
  bufr_free_dataset(src);
  bufr_free_dataset(dest);
}

static void do_T(char **save){
  int ed = atoi(strtok_r(NULL," ",save)), n = atoi(strtok_r(NULL," ",save)), i;
  int *descs = (int*)calloc(n>0?n:1, sizeof(int));
  for(i=0;i<n;i++) descs[i] = atoi(strtok_r(NULL," ",save));
  BUFR_Template *t = mk_template(ed,n,descs);
  free(descs);
  if(!t){ printf("T rc=-1\n"); return; }
  BUFR_Dataset *dts = bufr_create_dataset(t);
  int rc = 0;
  h_aborted=0; h_abort_armed=1; exit_called=0; exit_armed=1;
  if(setjmp(h_abort_jmp)==0 && setjmp(exit_jmp)==0) bufr_create_datasubset(dts);
  else rc = exit_called ? -3 : -4;
  h_abort_armed=0; exit_armed=0;
  printf("T rc=%d", rc);
  if(rc==0) list_dataset(dts);
  printf("\n");
  bufr_free_dataset(dts);
  bufr_free_template(t);
}

static BUFR_Dataset* decode_hex(const char *hx, int from, int to, ssize_t *consumed, int *rc){
  static unsigned char buf[1<<22];
  int n = unhex(hx, buf);
  BUFR_Message *m = NULL; BUFR_Dataset *d = NULL;
  *rc = 0;
  h_aborted=0; h_abort_armed=1; exit_called=0; exit_armed=1;
  if(setjmp(h_abort_jmp)==0 && setjmp(exit_jmp)==0){
    *consumed = bufr_memread_message((char*)buf, n, &m);
    if(*consumed <= 0 || !m) *rc = -1;
    else { d = (from||to) ? bufr_decode_message_subsets(m,tables,from,to) : bufr_decode_message(m,tables); if(!d) *rc = -2; }
  } else *rc = exit_called ? -3 : -4;
  h_abort_armed=0; exit_armed=0;
  if(m && *rc > -3) bufr_free_message(m);
  return d;
}

static void do_D(char **save){
  char *hx = strtok_r(NULL," ",save); char *a = strtok_r(NULL," ",save); char *b = strtok_r(NULL," ",save);
  ssize_t consumed = 0; int rc;
  BUFR_Dataset *d = decode_hex(hx, a?atoi(a):0, b?atoi(b):0, &consumed, &rc);
  if(!d){ printf("D rc=%d consumed=%ld\n", rc, (long)consumed); return; }
  printf("D rc=0 consumed=%ld flag=%d invalid=%d nsub=%d", (long)consumed, d->data_flag, (d->data_flag & BUFR_FLAG_INVALID)?1:0, bufr_count_datasubset(d));
  list_dataset(d);
  printf("\n");
  bufr_free_dataset(d);
}

static void do_R(char **save){
  char *hx = strtok_r(NULL," ",save); int comp = atoi(strtok_r(NULL," ",save));
  ssize_t consumed = 0; int rc;
  BUFR_Dataset *d = decode_hex(hx, 0, 0, &consumed, &rc);
  if(!d){ printf("R rc=%d\n", rc); return; }
  BUFR_Message *m = NULL;
  h_aborted=0; h_abort_armed=1; exit_called=0; exit_armed=1;
  if(setjmp(h_abort_jmp)==0 && setjmp(exit_jmp)==0) m = bufr_encode_message(d, comp);
  else rc = exit_called ? -3 : -4;
  h_abort_armed=0; exit_armed=0;
  if(!m){ printf("R rc=%d\n", rc?rc:-5); return; }
  ssize_t len = bufr_memwrite_message(msgbuf, sizeof msgbuf, m);
  printf("R rc=0 invalid=%d msg=", (d->data_flag & BUFR_FLAG_INVALID)?1:0); puthex(stdout,(unsigned char*)msgbuf,len); printf("\n");
  bufr_free_message(m); bufr_free_dataset(d);
}

int main(void){
  char *line;
  bufr_begin_api();
  bufr_set_abort(h_abort_handler);
  load_tables(NULL,NULL);
  while((line=h_getline())){
    char *save=NULL; char *tok=strtok_r(line," ",&save);
    if(!tok) { printf("\n"); continue; }
    if(!strcmp(tok,"LAZY")){ char *pv; g_lazy = atoi(strtok_r(NULL," ",&save)); pv = strtok_r(NULL," ",&save); g_preset = pv ? atoi(pv) : 0; printf("LAZY %d\n", g_lazy); }
    else if(!strcmp(tok,"CFG")){ /* diagnostic switches: debug verbose meta trimzero; diagnostics go to a counting sink */
      int d=atoi(strtok_r(NULL," ",&save)), v=atoi(strtok_r(NULL," ",&save)), m=atoi(strtok_r(NULL," ",&save)), t=atoi(strtok_r(NULL," ",&save));
      bufr_set_debug_handler(sink_debug); bufr_set_output_handler(sink_debug);
      bufr_set_debug(d); bufr_set_verbose(v); bufr_enable_meta(m); bufr_set_trimzero(t);
      printf("CFG ok sink=%lu\n", sink_bytes); }
    else if(!strcmp(tok,"HDR")){ char *h=strtok_r(NULL," ",&save); static unsigned char hb[1<<16]; int n = h?unhex(h,hb):0; hb[n]=0;
      if(g_header) free(g_header); g_header = n? strdup((char*)hb) : NULL; printf("HDR ok %d\n", n); }
    else if(!strcmp(tok,"MTABLES")){ /* master tables from explicit files (other shipped versions) */
      char *a=strtok_r(NULL," ",&save), *b=strtok_r(NULL," ",&save);
      if(tables) bufr_free_tables(tables);
      tables = bufr_create_tables();
      int r1 = bufr_load_m_tableB(tables,a), r2 = bufr_load_m_tableD(tables,b);
      printf("MTABLES %d %d\n", r1, r2); }
    else if(!strcmp(tok,"LOADLB")){ char *a=strtok_r(NULL," ",&save); printf("LOADLB %d\n", bufr_load_l_tableB(tables, a)); }   /* into the EXISTING tables object */
    else if(!strcmp(tok,"LOADLD")){ char *a=strtok_r(NULL," ",&save); printf("LOADLD %d\n", bufr_load_l_tableD(tables, a)); }
    else if(!strcmp(tok,"TABLES")){ char *a=strtok_r(NULL," ",&save), *b=strtok_r(NULL," ",&save); load_tables(a,b); printf("TABLES ok\n"); }
    else if(!strcmp(tok,"E")) do_E(&save);
    else if(!strcmp(tok,"A")) do_A(&save);
    else if(!strcmp(tok,"T")) do_T(&save);
    else if(!strcmp(tok,"D")) do_D(&save);
    else if(!strcmp(tok,"R")) do_R(&save);
    else if(!strcmp(tok,"M")) do_M(&save);
    else printf("?\n");
    fflush(stdout);
  }
  return 0;
}
