/* c20.c — C side of property C20 (local table update messages round-trip the tables they carry).
   The local tables are installed in a BUFR_Tables object next to the CMC master tables, a template/dataset is created
   with them (as Utilities/bufr_encoder.c does), bufr_store_tables writes the table-update message to a scratch FILE*,
   the message is read back (bufr_read_message), decoded with MASTER tables only (bufr_decode_message) and
   bufr_extract_tables is called on the decoded dataset.
   Protocol: one case per line, one output line per case.
     S <ed> <tabspec>                  tables given on the case line (entries built through the public structures, which is
                                       the only way to reach names > 44 / units > 11 characters: the CMC file format is narrower)
     F <ed> <fileB|-> <fileD|->        tables loaded with bufr_load_l_tableB / bufr_load_l_tableD from CMC-format files
     M <ed> <comp> <tabspec> @@ <n> <desc>.. <nsub> {<tok>.. |}..
                                       as S, then a data message is encoded with the original tables and decoded once with the
                                       original and once with master + extracted tables (bufr_merge_tables, as bufr_decoder does)
     tabspec = <cat> <catdesc hex|-> <nB> {<desc> <name hex|-> <unit hex|-> <scale> <ref> <width>}.. <nD> {<desc> <n> <d>..}..
   Output:  "<S|F|M> ORIG <tables> [msg=<hex of the stored file>] [inv=<0|1>] rc=<n> [EXTR <tables>]" and for M in addition
            " ; MSG rc=<n> <hex> ; DO rc=<n> <listing> ; DX rc=<n> <listing> ; DN rc=<n> <listing>"
            (DO: original tables, DX: master + extracted tables, DN: as DX after zeroing af_nbits/ref_nbits of the extracted entries)
     <tables> = cat=<n> cdesc=<hex|-> nb=<n> {B <desc>:<name hex|->:<unit hex|->:<scale>:<ref>:<width>:<type>:<af_nbits>:<ref_nbits>}.. nd=<n> {D <desc>:<d,d,..>}..
     rc: 0 ok, -1 no message written, -2 bufr_read_message failed, -3 decode failed, -4 bufr_extract_tables returned NULL,
         -5 abort handler, -6 exit() called, -7 template/dataset creation failed
     tok (M): r<hex> raw value for numeric/code/flag elements (converted to the application value as codec.c does),
              s<hex> characters, m missing
*/
#include "hcommon.h"
#include <math.h>
#include "bufr_local.h"
#include "bufr_array.h"

static jmp_buf exit_jmp; static int exit_armed = 0; static int exit_called = 0;
void __real_exit(int);
void __wrap_exit(int code){ if(exit_armed){ exit_called = 1; longjmp(exit_jmp, 1);} __real_exit(code); }

#define ARM()    (h_aborted=0, h_abort_armed=1, exit_called=0, exit_armed=1)
#define DISARM() (h_abort_armed=0, exit_armed=0)

static BUFR_Tables *master_tables(void){
  char env[4096];
  snprintf(env, sizeof env, "BUFR_TABLES=%s/Tables/", VERIF_REPO_DIR);
  putenv(strdup(env));
  BUFR_Tables *t = bufr_create_tables();
  bufr_load_cmc_tables(t);
  return t;
}

static int cmp_b(const void *a, const void *b){ EntryTableB *x=*(EntryTableB**)a, *y=*(EntryTableB**)b; return (x->descriptor>y->descriptor)-(x->descriptor<y->descriptor); }
static int cmp_d(const void *a, const void *b){ EntryTableD *x=*(EntryTableD**)a, *y=*(EntryTableD**)b; return (x->descriptor>y->descriptor)-(x->descriptor<y->descriptor); }

static char *dehex(const char *tok){
  static unsigned char buf[1<<16];
  if(!strcmp(tok,"-")) return strdup("");
  int n = unhex(tok, buf); buf[n]=0; return strdup((char*)buf);
}
static void puthexs(const char *s){ if(!s) { printf("NULL"); return; } if(!s[0]) printf("-"); else puthex(stdout,(const unsigned char*)s,(long)strlen(s)); }

/* parse a tabspec and install it as the local tables of t */
static int parse_tabspec(BUFR_Tables *t, char **save){
  char *tk = strtok_r(NULL," ",save); if(!tk) return -1;
  int cat = atoi(tk);
  tk = strtok_r(NULL," ",save); if(!tk) return -1;
  char *cd = dehex(tk);
  tk = strtok_r(NULL," ",save); if(!tk) return -1;
  int nb = atoi(tk), i, j;
  if(nb > 0){
    t->local.tableB = (EntryTableBArray)arr_create(nb, sizeof(EntryTableB*), 100);
    t->local.tableBtype = TYPE_ALLOCATED;
  }
  for(i=0;i<nb;i++){
    EntryTableB *e = bufr_new_EntryTableB();
    e->descriptor = atoi(strtok_r(NULL," ",save));
    e->description = dehex(strtok_r(NULL," ",save));
    e->unit = dehex(strtok_r(NULL," ",save));
    e->encoding.scale = atoi(strtok_r(NULL," ",save));
    e->encoding.reference = atoi(strtok_r(NULL," ",save));
    e->encoding.nbits = atoi(strtok_r(NULL," ",save));
    e->encoding.type = bufr_unit_to_datatype(e->unit);      /* as bufr_tableb_read does */
    arr_add(t->local.tableB, (char*)&e);
  }
  if(nb > 0) arr_sort(t->local.tableB, cmp_b);
  tk = strtok_r(NULL," ",save); if(!tk) return -1;
  int nd = atoi(tk);
  if(nd > 0){
    t->local.tableD = (EntryTableDArray)arr_create(nd, sizeof(EntryTableD*), 100);
    t->local.tableDtype = TYPE_ALLOCATED;
  }
  for(i=0;i<nd;i++){
    int d = atoi(strtok_r(NULL," ",save)), n = atoi(strtok_r(NULL," ",save));
    int *ds = (int*)calloc(n>0?n:1, sizeof(int));
    for(j=0;j<n;j++) ds[j] = atoi(strtok_r(NULL," ",save));
    EntryTableD *e = bufr_new_EntryTableD(d, NULL, 0, ds, n);
    free(ds);
    arr_add(t->local.tableD, (char*)&e);
  }
  if(nd > 0) arr_sort(t->local.tableD, cmp_d);
  bufr_set_tables_category(t, cat, cd);
  free(cd);
  return 0;
}

static void dump_tables(BUFR_Tables *t){
  int i, j, nb = t->local.tableB ? arr_count(t->local.tableB) : 0, nd = t->local.tableD ? arr_count(t->local.tableD) : 0;
  char cd[65]; memcpy(cd, t->data_cat_desc, 65); cd[64]=0;
  for(i=63;i>=0 && cd[i]==' ';i--) cd[i]=0;
  printf(" cat=%d cdesc=", t->data_cat); puthexs(cd);
  printf(" nb=%d", nb);
  for(i=0;i<nb;i++){
    EntryTableB *e = *(EntryTableB**)arr_get(t->local.tableB, i);
    printf(" B %d:", e->descriptor); puthexs(e->description); printf(":"); puthexs(e->unit);
    printf(":%d:%d:%d:%d:%d:%d", e->encoding.scale, e->encoding.reference, e->encoding.nbits, (int)e->encoding.type,
           (int)e->encoding.af_nbits, (int)e->encoding.ref_nbits);
  }
  printf(" nd=%d", nd);
  for(i=0;i<nd;i++){
    EntryTableD *e = *(EntryTableD**)arr_get(t->local.tableD, i);
    printf(" D %d:", e->descriptor);
    for(j=0;j<e->count;j++) printf("%s%d", j?",":"", e->descriptors[j]);
    if(e->count==0) printf("-");
  }
}

/* the value an indeterminate automatic variable happens to hold must not matter: give the stack a known non-zero content
   before the library call whose result is observed */
static void __attribute__((noinline)) scrub_stack(void){
  volatile unsigned char junk[16384]; size_t i;
  for(i=0;i<sizeof junk;i++) junk[i] = 0xA5;
}

/* store -> read -> decode (master tables only) -> extract.  Prints the stored message and the extracted tables. */
static BUFR_Tables *store_extract(BUFR_Tables *orig, int ed, int *rcp){
  BUFR_Tables *ext = NULL; BUFR_Template *tmpl = NULL; BUFR_Dataset *dts = NULL, *d2 = NULL; BUFR_Message *m = NULL;
  BUFR_Tables *mt = NULL; FILE *fp = NULL;
  int rc = 0;
  ARM();
  if(setjmp(h_abort_jmp)==0 && setjmp(exit_jmp)==0){
    BufrDescValue dv; bufr_init_DescValue(&dv); dv.descriptor = 1001;      /* 0 01 001: any master element */
    tmpl = bufr_create_template(&dv, 1, orig, ed);
    if(tmpl) dts = bufr_create_dataset(tmpl);
    if(!dts) rc = -7;
    else {
      fp = tmpfile();
      bufr_store_tables(fp, dts);
      fflush(fp);
      long sz = ftell(fp);
      rewind(fp);
      if(sz > 0){ static unsigned char fb[1<<22]; long k = (long)fread(fb, 1, sizeof fb, fp);
        printf(" msg="); puthex(stdout, fb, k); rewind(fp); }
      if(sz <= 0) rc = -1;
      else if(bufr_read_message(fp, &m) <= 0 || !m) rc = -2;
      else {
        mt = master_tables();
        d2 = bufr_decode_message(m, mt);
        if(!d2) rc = -3;
        else {
          printf(" inv=%d", (d2->data_flag & BUFR_FLAG_INVALID)?1:0);
          if(!getenv("VERIF_C20_NOSCRUB")) scrub_stack();
          ext = bufr_extract_tables(d2);
          if(!ext) rc = -4;
        }
      }
    }
  } else rc = exit_called ? -6 : -5;
  DISARM();
  if(rc > -5){
    if(d2) bufr_free_dataset(d2);
    if(m) bufr_free_message(m);
    if(dts) bufr_free_dataset(dts);
    if(tmpl) bufr_free_template(tmpl);
    if(mt) bufr_free_tables(mt);
  }
  if(fp) fclose(fp);
  *rcp = rc;
  return ext;
}

/* ------------------------------------------------------------------ data messages (mode M), cf. codec.c */
static void print_item(BufrDescriptor *b){
  printf(" %06d/%x/%d/%d/%d/%d/", b->descriptor, (unsigned)b->flags, (int)b->encoding.type, b->encoding.nbits, b->encoding.scale, b->encoding.reference);
  if(!b->value){ printf("-"); return; }
  switch(b->value->type){
    case VALTYPE_INT8: case VALTYPE_INT32: printf("i%d", bufr_value_get_int32(b->value)); break;
    case VALTYPE_INT64: printf("l%lld", (long long)bufr_value_get_int64(b->value)); break;
    case VALTYPE_FLT32: { float f = bufr_value_get_float(b->value); uint32_t u; memcpy(&u,&f,4); if(bufr_is_missing_float(f)) printf("fM"); else printf("f%08x", u); break; }
    case VALTYPE_FLT64: { double d = bufr_value_get_double(b->value); uint64_t u; memcpy(&u,&d,8); if(bufr_is_missing_double(d)) printf("dM"); else printf("d%016llx", (unsigned long long)u); break; }
    case VALTYPE_STRING: { int len=0; const char *s = bufr_value_get_string(b->value,&len); printf("s"); if(s) puthex(stdout,(const unsigned char*)s,len); else printf("NULL"); break; }
    default: printf("?"); break;
  }
}
static void list_dataset(BUFR_Dataset *d){
  int s, n = bufr_count_datasubset(d);
  printf(" nsub=%d inv=%d", n, (d->data_flag & BUFR_FLAG_INVALID)?1:0);
  for(s=0;s<n;s++){
    DataSubset *ss = bufr_get_datasubset(d,s);
    int c = bufr_datasubset_count_descriptor(ss), j;
    printf(" S%d", s);
    for(j=0;j<c;j++) print_item(bufr_datasubset_get_descriptor(ss,j));
  }
}
static int set_token(BufrDescriptor *b, char *tok){
  switch(tok[0]){
    case 's': { static unsigned char buf[1<<16]; int n = unhex(tok+1, buf); buf[n]=0; return bufr_descriptor_set_svalue(b,(char*)buf) < 0 ? -1 : 0; }
    case 'm': if(b->value==NULL) b->value = bufr_mkval_for_descriptor(b); return 0;
    case 'r': {
      uint64_t raw = strtoull(tok+1,NULL,16);
      int w = b->encoding.nbits; uint64_t ones = (w>=64)? ~0ULL : ((1ULL<<w)-1);
      if(b->value==NULL) b->value = bufr_mkval_for_descriptor(b);
      if(b->value==NULL) return -1;
      switch(b->encoding.type){
        case TYPE_NUMERIC: {
          if(raw==ones && !(b->flags & FLAG_CLASS31)) return 0;
          int64_t iv = (int64_t)raw + (int64_t)b->encoding.reference;
          if(b->value->type==VALTYPE_INT32 || b->value->type==VALTYPE_INT8) return bufr_descriptor_set_ivalue(b,(int)iv) < 0 ? -1 : 0;
          if(b->value->type==VALTYPE_INT64) return bufr_value_set_int64(b->value, iv) < 0 ? -1 : 0;
          { int sc = b->encoding.scale; double d = (double)iv;
            if(sc>0) d = d / pow(10.0, (double)sc); else if(sc<0) d = d * pow(10.0, (double)(-sc));
            if(b->value->type==VALTYPE_FLT32) return bufr_descriptor_set_fvalue(b,(float)d) < 0 ? -1 : 0;
            return bufr_descriptor_set_dvalue(b,d) < 0 ? -1 : 0; } }
        case TYPE_CODETABLE: case TYPE_FLAGTABLE:
          if(raw==ones && !(b->flags & FLAG_CLASS31)) return 0;
          if(b->value->type==VALTYPE_INT64) return bufr_value_set_int64(b->value,(int64_t)raw) < 0 ? -1 : 0;
          return bufr_descriptor_set_ivalue(b,(int)raw) < 0 ? -1 : 0;
        default: return -1;
      }
    }
    default: return -1;
  }
}
static int has_data(BufrDescriptor *b){
  if(b->flags & FLAG_SKIPPED) return 0;
  switch(b->encoding.type){
    case TYPE_NUMERIC: case TYPE_CODETABLE: case TYPE_FLAGTABLE: case TYPE_CHNG_REF_VAL_OP: case TYPE_CCITT_IA5: case TYPE_IEEE_FP: return 1;
    default: return 0;
  }
}
static int fill_subset(BUFR_Dataset *dts, int pos, char **toks, int ntok){
  int k = 0, j = 0;
  for(;;){
    DataSubset *ss = bufr_get_datasubset(dts,pos);
    int c = bufr_datasubset_count_descriptor(ss);
    if(j >= c) break;
    BufrDescriptor *b = bufr_datasubset_get_descriptor(ss,j);
    if(has_data(b)){
      if(k >= ntok) return -2;
      if(set_token(b, toks[k++])) return -2;
      if((b->flags & FLAG_CLASS31) && !(b->flags & FLAG_EXPANDED)) bufr_expand_datasubset(dts,pos);
    }
    j++;
  }
  return (k == ntok) ? 0 : -2;
}
static char msgbuf[1<<22];

/* encode "<n> <desc>.. <nsub> {tok.. |}.." with tables t; returns message length or <0 */
static long encode_data(BUFR_Tables *t, int ed, int comp, char **save){
  int n = atoi(strtok_r(NULL," ",save)), i, rc = 0; long len = -1;
  BufrDescValue *dv = (BufrDescValue*)calloc(n>0?n:1, sizeof *dv);
  for(i=0;i<n;i++){ bufr_init_DescValue(&dv[i]); dv[i].descriptor = atoi(strtok_r(NULL," ",save)); }
  int nsub = atoi(strtok_r(NULL," ",save));
  BUFR_Template *tm = NULL; BUFR_Dataset *dts = NULL; BUFR_Message *m = NULL;
  ARM();
  if(setjmp(h_abort_jmp)==0 && setjmp(exit_jmp)==0){
    tm = bufr_create_template(dv, n, t, ed);
    if(!tm) rc = -7;
    else {
      dts = bufr_create_dataset(tm);
      dts->s1.year=2020; dts->s1.month=1; dts->s1.day=2; dts->s1.hour=3; dts->s1.minute=4; dts->s1.second=5;
      int s;
      for(s=0;s<nsub && rc==0;s++){
        static char *toks[100000]; int nt=0; char *tk;
        while((tk=strtok_r(NULL," ",save)) && strcmp(tk,"|")) { if(nt<100000) toks[nt++]=tk; }
        int pos = bufr_create_datasubset(dts);
        rc = fill_subset(dts,pos,toks,nt);
      }
      if(rc==0){
        m = bufr_encode_message(dts, comp);
        if(!m) rc = -8; else len = bufr_memwrite_message(msgbuf, sizeof msgbuf, m);
      }
    }
  } else rc = exit_called ? -6 : -5;
  DISARM();
  free(dv);
  if(rc > -5){ if(m) bufr_free_message(m); if(dts) bufr_free_dataset(dts); if(tm) bufr_free_template(tm); }
  return rc ? rc : len;
}

static void decode_list(const char *tag, BUFR_Tables *t, long len){
  BUFR_Message *m = NULL; BUFR_Dataset *d = NULL; int rc = 0;
  ARM();
  if(setjmp(h_abort_jmp)==0 && setjmp(exit_jmp)==0){
    if(bufr_memread_message(msgbuf, len, &m) <= 0 || !m) rc = -2;
    else { d = bufr_decode_message(m, t); if(!d) rc = -3; }
  } else rc = exit_called ? -6 : -5;
  DISARM();
  printf(" ; %s rc=%d", tag, rc);
  if(d){ list_dataset(d); bufr_free_dataset(d); }
  if(m && rc > -5) bufr_free_message(m);
}

static void do_case(char mode, char **save){
  int ed = atoi(strtok_r(NULL," ",save)), comp = 0, rc = 0;
  if(mode=='M') comp = atoi(strtok_r(NULL," ",save));
  BUFR_Tables *orig = master_tables();
  if(mode=='F'){
    char *fb = strtok_r(NULL," ",save), *fd = strtok_r(NULL," ",save);
    if(fb && strcmp(fb,"-")) bufr_load_l_tableB(orig, fb);
    if(fd && strcmp(fd,"-")) bufr_load_l_tableD(orig, fd);
  } else if(parse_tabspec(orig, save)){ printf("%c rc=-9\n", mode); bufr_free_tables(orig); return; }
  printf("%c ORIG", mode); dump_tables(orig);
  BUFR_Tables *ext = store_extract(orig, ed, &rc);
  printf(" rc=%d", rc);
  if(ext){ printf(" EXTR"); dump_tables(ext); }
  if(mode=='M' && ext){
    char *sep = strtok_r(NULL," ",save);
    if(sep && !strcmp(sep,"@@")){
      long len = encode_data(orig, ed, comp, save);
      printf(" ; MSG rc=%ld ", len < 0 ? len : 0L);
      if(len > 0){
        puthex(stdout,(unsigned char*)msgbuf,len);
        decode_list("DO", orig, len);
        BUFR_Tables *rcv = master_tables();              /* the receiver: master tables + what the update message carried */
        /* a receiver that has been in use: every descriptor of the update was looked up before the update arrives
           (the master tables define some of the local-range descriptors too) */
        { int i, nb = ext->local.tableB ? arr_count(ext->local.tableB) : 0;
          for(i=0;i<nb;i++){ EntryTableB *e = *(EntryTableB**)arr_get(ext->local.tableB, i); (void)bufr_fetch_tableB(rcv, e->descriptor); } }
        bufr_merge_tables(rcv, ext);
        /* a lookup on the receiver's tables now answers with the definition the update carried */
        { int i, nb = ext->local.tableB ? arr_count(ext->local.tableB) : 0;
          for(i=0;i<nb;i++){ EntryTableB *e = *(EntryTableB**)arr_get(ext->local.tableB, i); EntryTableB *g = bufr_fetch_tableB(rcv, e->descriptor);
            if(!g || g->encoding.nbits != e->encoding.nbits || g->encoding.scale != e->encoding.scale || g->encoding.reference != e->encoding.reference || g->encoding.type != e->encoding.type){
              printf(" FXBAD=%06d:%d/%d/%d", e->descriptor, g?g->encoding.nbits:-1, g?g->encoding.scale:0, g?g->encoding.reference:0); break; } } }
        decode_list("DX", rcv, len);
        bufr_free_tables(rcv);
        /* diagnosis only: the same with the two encoding fields bufr_extract_tables never assigns set as bufr_new_EntryTableB sets them */
        { int i, nb = ext->local.tableB ? arr_count(ext->local.tableB) : 0;
          for(i=0;i<nb;i++){ EntryTableB *e = *(EntryTableB**)arr_get(ext->local.tableB, i); e->encoding.af_nbits = 0; e->encoding.ref_nbits = 0; } }
        rcv = master_tables();
        bufr_merge_tables(rcv, ext);
        decode_list("DN", rcv, len);
        bufr_free_tables(rcv);
      }
    }
  }
  printf("\n");
  if(ext) bufr_free_tables(ext);
  if(rc > -5) bufr_free_tables(orig);
}

int main(void){
  char *line;
  bufr_begin_api();
  bufr_set_abort(h_abort_handler);
  while((line=h_getline())){
    char *save=NULL; char *tok=strtok_r(line," ",&save);
    if(!tok) { printf("\n"); continue; }
    if(!strcmp(tok,"S") || !strcmp(tok,"F") || !strcmp(tok,"M")) do_case(tok[0], &save);
    else printf("?\n");
    fflush(stdout);
  }
  return 0;
}
