/* c17.c — C side of the search correspondence (property C17).
   Subsets are built through the public API (bufr_create_template / bufr_create_dataset / bufr_create_datasubset /
   bufr_descriptor_set_* / bufr_expand_datasubset with bufr_enable_meta(1)) or decoded from a sample file; then
   bufr_subset_find_descriptor / bufr_subset_find_values are run for EVERY start position -2 .. count+2.
   Protocol: one case per input line, one output line per case.
     L <path>                                   decode every message of the file, expand every subset:
          "L <nmsg> ; <msg> <subset> <count> <elem>... ; ..."
     G <n> <gelem>... <query>                   gelem = <desc>=<val>;  val: m (leave missing) | i<int> | l<int64> | d<16hex IEEE bits> | s<hex bytes>
     M <path> <msg> <subset> <query>            subset of a sample file
          query:  D <descriptor>                        bufr_subset_find_descriptor
                  K <nkeys> <key>...                    bufr_subset_find_values
          key:    E<desc>                               bufr_set_key_int32(desc,NULL,0)        (any value)
                  I<desc>=<int>,<int>...                bufr_set_key_int32                      (-1 = missing)
                  F<desc>=<8hex>,...                    bufr_set_key_flt32  (IEEE single bits; M = bufr_missing_float())
                  W<desc>=<16hex>,...                   hand-made key of VALTYPE_FLT64 values (bufr_valloc_DescValue + bufr_create_value)
                  S<desc>=<hex>,<hex>...                bufr_set_key_string
                  QI<desc>=<int>  QF<desc>=<8hex>  QW<desc>=<16hex>  QS<desc>=<hex>  QN<desc>
                                                        bufr_set_key_qualifier_int32 / _flt32 / bufr_set_key_qualifier(FLT64 | STRING | NULL)
                  CM<desc> CN<desc>                     bufr_set_key_callback: element value is / is not missing
                  CQ<qdesc>=<int>                       bufr_set_key_meta_callback: qualifier qdesc in effect has integer value <int>
          -> "<count> |<elem>... |<quals>... | R <r(-2)> ... <r(count+2)>"
     elem : <desc>:<type>:<scale>:<cls>:<val>   type i INT8/INT32, l INT64, f FLT32, d FLT64, s STRING, n no value, u other
                                                cls = 1 when FLAG_CLASS31|FLAG_CLASS33 is set;  val: int | <hex bits> | M | <hex bytes> | -
     quals: per element the positions of the descriptors in meta->qualifiers ("-" when none / no meta), e.g. 0,3
*/
#include "hcommon.h"
#include <math.h>
#include "bufr_meta.h"

static BUFR_Tables *tables = NULL;
static void quiet(const char *m){ (void)m; }     /* the library's debug/progress chatter is not part of the protocol */

static void load_tables(void){
  char env[4096];
  snprintf(env, sizeof env, "BUFR_TABLES=%s/Tables/", VERIF_REPO_DIR);
  putenv(strdup(env));
  tables = bufr_create_tables();
  bufr_load_cmc_tables(tables);
}

static void print_elem(BufrDescriptor *b){
  int cls = (b->flags & (FLAG_CLASS31|FLAG_CLASS33)) ? 1 : 0;
  printf(" %d:", b->descriptor);
  if(!b->value){ printf("n:%d:%d:-", b->encoding.scale, cls); return; }
  switch(b->value->type){
    case VALTYPE_INT8: case VALTYPE_INT32:
      printf("i:%d:%d:%d", b->encoding.scale, cls, (int)bufr_value_get_int32(b->value)); break;
    case VALTYPE_INT64:
      printf("l:%d:%d:%lld", b->encoding.scale, cls, (long long)bufr_value_get_int64(b->value)); break;
    case VALTYPE_FLT32: { float f = bufr_value_get_float(b->value); uint32_t u; memcpy(&u,&f,4);
      if(bufr_is_missing_float(f)) printf("f:%d:%d:M", b->encoding.scale, cls); else printf("f:%d:%d:%08x", b->encoding.scale, cls, u); break; }
    case VALTYPE_FLT64: { double d = bufr_value_get_double(b->value); uint64_t u; memcpy(&u,&d,8);
      if(bufr_is_missing_double(d)) printf("d:%d:%d:M", b->encoding.scale, cls); else printf("d:%d:%d:%016llx", b->encoding.scale, cls, (unsigned long long)u); break; }
    case VALTYPE_STRING: { int len=0; const char *s = bufr_value_get_string(b->value,&len);
      printf("s:%d:%d:", b->encoding.scale, cls); if(s && len>0) puthex(stdout,(const unsigned char*)s,len); else printf("-"); break; }
    default: printf("u:%d:%d:-", b->encoding.scale, cls); break;
  }
}

static void dump_subset(DataSubset *ss){
  int c = bufr_datasubset_count_descriptor(ss), j, k, p;
  for(j=0;j<c;j++) print_elem(bufr_datasubset_get_descriptor(ss,j));
  printf(" |");
  for(j=0;j<c;j++){
    BufrDescriptor *b = bufr_datasubset_get_descriptor(ss,j);
    if(!b->meta || b->meta->nb_qualifiers<=0 || !b->meta->qualifiers){ printf(" -"); continue; }
    printf(" ");
    for(k=0;k<b->meta->nb_qualifiers;k++){
      int pos=-1;
      for(p=0;p<c;p++) if(bufr_datasubset_get_descriptor(ss,p)==b->meta->qualifiers[k]){ pos=p; break; }
      printf("%s%d", k?",":"", pos);
    }
  }
}

/* ---- callbacks ---- */
static int cb_missing(void *data, BufrDescriptor *bd){ (void)data; return (bd->value && bufr_value_is_missing(bd->value)) ? 0 : 1; }
static int cb_notmissing(void *data, BufrDescriptor *bd){ (void)data; return (bd->value && !bufr_value_is_missing(bd->value)) ? 0 : 1; }
typedef struct { int qdesc; int val; } QCb;
static int cb_qual(void *data, BufrDescriptor *bd){
  QCb *q = (QCb*)data; BufrDescriptor *qd;
  if(bd->meta == NULL) return -1;
  qd = bufr_fetch_rtmd_qualifier(q->qdesc, bd->meta);
  if(qd == NULL) return -1;
  return bufr_descriptor_get_ivalue(qd) != q->val;
}

static float flt_of_hex(const char *h){ uint32_t u = (uint32_t)strtoul(h,NULL,16); float f; memcpy(&f,&u,4); return f; }
static double dbl_of_hex(const char *h){ uint64_t u = strtoull(h,NULL,16); double d; memcpy(&d,&u,8); return d; }

#define MAXK 16
#define MAXV 16
static QCb qcbs[MAXK];

/* build one key from its token; returns 0 ok */
static int mk_key(BufrDescValue *cv, char *tok, int idx){
  char kind[3] = {0,0,0}; int p = 0;
  kind[0] = tok[p++];
  if(kind[0]=='Q' || kind[0]=='C') kind[1] = tok[p++];
  int desc = atoi(tok+p);
  char *eq = strchr(tok,'=');
  char *vals[MAXV]; int nv = 0;
  if(eq){ char *sv=NULL; char *t = strtok_r(eq+1, ",", &sv); while(t && nv<MAXV){ vals[nv++]=t; t=strtok_r(NULL,",",&sv);} }
  int i;
  switch(kind[0]){
    case 'E': bufr_set_key_int32(cv, desc, NULL, 0); return 0;
    case 'I': { int iv[MAXV]; for(i=0;i<nv;i++) iv[i]=atoi(vals[i]); bufr_set_key_int32(cv, desc, iv, nv); return 0; }
    case 'F': { float fv[MAXV]; for(i=0;i<nv;i++) fv[i] = (vals[i][0]=='M') ? bufr_missing_float() : flt_of_hex(vals[i]); bufr_set_key_flt32(cv, desc, fv, nv); return 0; }
    case 'W': { bufr_init_DescValue(cv); cv->descriptor = desc; bufr_valloc_DescValue(cv, nv);
                for(i=0;i<nv;i++){ cv->values[i] = bufr_create_value(VALTYPE_FLT64);
                  bufr_value_set_double(cv->values[i], (vals[i][0]=='M') ? bufr_missing_double() : dbl_of_hex(vals[i])); } return 0; }
    case 'S': { static unsigned char bufs[MAXV][4096]; const char *sv[MAXV];
                for(i=0;i<nv;i++){ int n = (vals[i][0]=='-') ? 0 : unhex(vals[i], bufs[i]); bufs[i][n]=0; sv[i]=(const char*)bufs[i]; }
                bufr_set_key_string(cv, desc, sv, nv); return 0; }
    case 'Q':
      switch(kind[1]){
        case 'I': bufr_set_key_qualifier_int32(cv, desc, atoi(vals[0])); return 0;
        case 'F': bufr_set_key_qualifier_flt32(cv, desc, (vals[0][0]=='M') ? bufr_missing_float() : flt_of_hex(vals[0])); return 0;
        case 'W': { BufrValue *bv = bufr_create_value(VALTYPE_FLT64); bufr_value_set_double(bv, (vals[0][0]=='M') ? bufr_missing_double() : dbl_of_hex(vals[0]));
                    bufr_set_key_qualifier(cv, desc, bv); bufr_free_value(bv); return 0; }
        case 'S': { static unsigned char b[4096]; int n = (vals[0][0]=='-') ? 0 : unhex(vals[0], b); b[n]=0;
                    BufrValue *bv = bufr_create_value(VALTYPE_STRING); bufr_value_set_string(bv,(char*)b,n);
                    bufr_set_key_qualifier(cv, desc, bv); bufr_free_value(bv); return 0; }
        case 'N': bufr_set_key_qualifier(cv, desc, NULL); return 0;
        default: return -1;
      }
    case 'C':
      switch(kind[1]){
        case 'M': bufr_set_key_callback(cv, desc, cb_missing, NULL); return 0;
        case 'N': bufr_set_key_callback(cv, desc, cb_notmissing, NULL); return 0;
        case 'Q': qcbs[idx].qdesc = desc; qcbs[idx].val = atoi(vals[0]); bufr_set_key_meta_callback(cv, cb_qual, &qcbs[idx]); return 0;
        default: return -1;
      }
    default: return -1;
  }
}

static void free_key(BufrDescValue *cv){
  /* callback keys hold a ValueCallback that is not a BufrValue of a known type: bufr_vfree_DescValue handles it (VALTYPE_UNDEFINE) */
  bufr_vfree_DescValue(cv);
}

static void run_query(DataSubset *ss, char **save){
  int count = bufr_datasubset_count_descriptor(ss), s;
  char *q = strtok_r(NULL," ",save);
  printf("%d |", count);
  dump_subset(ss);
  printf(" | R");
  if(!q){ printf(" noquery\n"); return; }
  if(q[0]=='D'){
    int desc = atoi(strtok_r(NULL," ",save));
    for(s=-2;s<=count+2;s++) printf(" %d", bufr_subset_find_descriptor(ss, desc, s));
  } else if(q[0]=='K'){
    int nk = atoi(strtok_r(NULL," ",save)), i, bad = 0;
    BufrDescValue codes[MAXK];
    char *toks[MAXK];
    if(nk>MAXK) nk = MAXK;
    for(i=0;i<nk;i++) toks[i] = strtok_r(NULL," ",save);
    for(i=0;i<nk;i++) if(!toks[i] || mk_key(&codes[i], toks[i], i)) bad = 1;
    if(bad) printf(" badkey");
    else {
      fflush(stdout);
      for(s=-2;s<=count+2;s++){ printf(" %d", bufr_subset_find_values(ss, codes, nk, s)); }
    }
    for(i=0;i<nk;i++) if(toks[i]) free_key(&codes[i]);
  }
  printf("\n");
}

static int set_gval(BufrDescriptor *b, const char *v){
  switch(v[0]){
    case 'm': if(b->value==NULL) b->value = bufr_mkval_for_descriptor(b); return 0;
    case 'i': return bufr_descriptor_set_ivalue(b, atoi(v+1)) < 0 ? -1 : 0;
    case 'l': if(b->value==NULL) b->value = bufr_mkval_for_descriptor(b); return (b->value && bufr_value_set_int64(b->value, strtoll(v+1,NULL,10)) >= 0) ? 0 : -1;
    case 'd': return bufr_descriptor_set_dvalue(b, dbl_of_hex(v+1)) < 0 ? -1 : 0;
    case 's': { static unsigned char buf[4096]; int n = unhex(v+1, buf); buf[n]=0; return bufr_descriptor_set_svalue(b,(char*)buf) < 0 ? -1 : 0; }
    default: return -1;
  }
}

static void do_G(char **save){
  int n = atoi(strtok_r(NULL," ",save)), i;
  char **gt = (char**)calloc(n>0?n:1, sizeof(char*));
  BufrDescValue *dv = (BufrDescValue*)calloc(n>0?n:1, sizeof *dv);
  for(i=0;i<n;i++){ gt[i] = strtok_r(NULL," ",save); bufr_init_DescValue(&dv[i]); dv[i].descriptor = atoi(gt[i]); }
  BUFR_Template *t = NULL;
  h_aborted = 0; h_abort_armed = 1;
  if(setjmp(h_abort_jmp)==0) t = bufr_create_template(dv, n, tables, 4);
  h_abort_armed = 0;
  free(dv);
  if(!t){ printf("G template-refused\n"); free(gt); return; }
  BUFR_Dataset *dts = bufr_create_dataset(t);
  bufr_free_template(t);
  int pos = bufr_create_datasubset(dts);
  DataSubset *ss = bufr_get_datasubset(dts,pos);
  int c = bufr_datasubset_count_descriptor(ss), rc = 0;
  if(c != n){ printf("G count-mismatch %d\n", c); bufr_free_dataset(dts); free(gt); return; }
  for(i=0;i<n && !rc;i++){
    char *eq = strchr(gt[i],'=');
    BufrDescriptor *b = bufr_datasubset_get_descriptor(ss,i);
    if(!eq || set_gval(b, eq+1)) rc = -1;
  }
  free(gt);
  if(rc){ printf("G value-refused\n"); bufr_free_dataset(dts); return; }
  bufr_expand_datasubset(dts,pos);         /* computes the qualifier lists (bufr_expand_qualifiers) */
  ss = bufr_get_datasubset(dts,pos);
  run_query(ss, save);
  bufr_free_dataset(dts);
}

/* decode message number `want` (or all when want<0) of a file */
static BUFR_Dataset* read_nth(const char *path, int want, int *nmsg){
  FILE *fp = fopen(path,"rb"); BUFR_Message *m = NULL; BUFR_Dataset *d = NULL; int k = 0;
  if(!fp) return NULL;
  while(bufr_read_message(fp,&m) > 0 && m){
    if(k==want){ d = bufr_decode_message(m, tables); bufr_free_message(m); m=NULL; k++; break; }
    bufr_free_message(m); m = NULL; k++;
  }
  fclose(fp);
  if(nmsg) *nmsg = k;
  return d;
}

static void do_L(char **save){
  char *path = strtok_r(NULL," ",save);
  int k;
  printf("L");
  for(k=0;k<64;k++){
    int nm = 0; BUFR_Dataset *d = NULL;
    h_aborted = 0; h_abort_armed = 1;
    if(setjmp(h_abort_jmp)==0) d = read_nth(path,k,&nm);
    h_abort_armed = 0;
    if(!d) break;
    int ns = bufr_count_datasubset(d), s;
    for(s=0;s<ns;s++){
      bufr_expand_datasubset(d,s);
      DataSubset *ss = bufr_get_datasubset(d,s);
      printf(" ; %d %d %d |", k, s, bufr_datasubset_count_descriptor(ss));
      dump_subset(ss);
    }
    bufr_free_dataset(d);
  }
  printf("\n");
}

static void do_M(char **save){
  char *path = strtok_r(NULL," ",save);
  int k = atoi(strtok_r(NULL," ",save)), s = atoi(strtok_r(NULL," ",save));
  BUFR_Dataset *d = NULL;
  h_aborted = 0; h_abort_armed = 1;
  if(setjmp(h_abort_jmp)==0) d = read_nth(path,k,NULL);
  h_abort_armed = 0;
  if(!d || s >= bufr_count_datasubset(d)){ printf("M undecodable\n"); if(d) bufr_free_dataset(d); return; }
  bufr_expand_datasubset(d,s);
  run_query(bufr_get_datasubset(d,s), save);
  bufr_free_dataset(d);
}

int main(void){
  char *line;
  bufr_begin_api();
  bufr_set_abort(h_abort_handler);
  bufr_set_debug_handler(quiet);
  bufr_set_output_handler(quiet);
  bufr_enable_meta(1);
  load_tables();
  while((line=h_getline())){
    char *save=NULL; char *tok=strtok_r(line," ",&save);
    if(!tok) continue;
    if(tok[0]=='G') do_G(&save);
    else if(tok[0]=='L') do_L(&save);
    else if(tok[0]=='M') do_M(&save);
    else printf("?\n");
    fflush(stdout);
  }
  return 0;
}
