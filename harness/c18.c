/* c18.c — C side of property C18 (templates survive save, load and copy).
   Protocol: one case per input line, one output line per case.
     T <ed> <n> <item>...      item = <desc> | <desc>:<v>[,<v>...]
          v = i<dec> (VALTYPE_INT32)  l<dec> (VALTYPE_INT64)  d<16 hex> (VALTYPE_FLT64, IEEE bits)  s<hex> (VALTYPE_STRING, len = number of bytes)
        builds the template with bufr_create_template from BufrDescValue's, saves it (bufr_save_template) to a scratch file,
        loads the file (bufr_load_template), copies the original (bufr_copy_template), and prints
        "T create=<0|1> save=<rc> load=<0|1> copy=<0|1> cmpL=<rc|-> cmpC=<rc|-> text=<hex>
           | O <ed> <item>... | L <ed> <item>... | C <ed> <item>... | GO <gitem>... | GL ... | GC ... | MO <msg> | ML <msg> | MC <msg>"
        O/L/C: edition and the stored Section 3 list (codets) of original / loaded / copy, values typed as above, N = NULL slot, b<dec> = INT8, f<8hex> = FLT32
        GO/GL/GC: the expanded descriptor list (gabarit) that bufr_compare_template compares, with the default value each entry carries
        MO/ML/MC: the message encoded from a one-subset dataset made from each template (every element without a default left missing,
                  every delayed replication without a default given the count 1), hex, or "rc<code>" when that fails; "-" when there is no template
     X <hex>                   the bytes are written to the scratch file and loaded: "X load=<0|1> | L <ed> <item>..."
   The scratch file lives in $VERIF_C18_DIR (default /tmp).
*/
#include "hcommon.h"
#include <unistd.h>
#include <math.h>

static BUFR_Tables *tables = NULL;
static jmp_buf exit_jmp; static int exit_armed = 0; static int exit_called = 0;
void __real_exit(int);
void __wrap_exit(int code){ if(exit_armed){ exit_called = 1; longjmp(exit_jmp, 1);} __real_exit(code); }
static char scratch[4096];

static void load_tables(void){
  char env[4096];
  snprintf(env, sizeof env, "BUFR_TABLES=%s/Tables/", VERIF_REPO_DIR);
  putenv(strdup(env));
  tables = bufr_create_tables();
  bufr_load_cmc_tables(tables);
}

static void print_value(BufrValue *v){
  if(!v){ printf("N"); return; }
  switch(v->type){
    case VALTYPE_INT8:  printf("b%d", bufr_value_get_int32(v)); break;
    case VALTYPE_INT32: printf("i%d", bufr_value_get_int32(v)); break;
    case VALTYPE_INT64: printf("l%lld", (long long)bufr_value_get_int64(v)); break;
    case VALTYPE_FLT32: { float f = bufr_value_get_float(v); uint32_t u; memcpy(&u,&f,4); printf("f%08x", u); break; }
    case VALTYPE_FLT64: { double d = bufr_value_get_double(v); uint64_t u; memcpy(&u,&d,8); printf("d%016llx", (unsigned long long)u); break; }
    case VALTYPE_STRING: { int len=0; const char *s = bufr_value_get_string(v,&len); printf("s"); if(s) puthex(stdout,(const unsigned char*)s,len); else printf("NULL"); break; }
    default: printf("?"); break;
  }
}

static void list_codets(const char *tag, BUFR_Template *t){
  printf(" | %s", tag);
  if(!t){ printf(" NULL"); return; }
  int n = arr_count(t->codets), i, j;
  printf(" %d", t->edition);
  for(i=0;i<n;i++){
    BufrDescValue *c = (BufrDescValue*)arr_get(t->codets, i);
    printf(" %d", c->descriptor);
    if(c->values){
      for(j=0;j<c->nbval;j++){ putchar(j?',':':'); print_value(c->values[j]); }
    }
  }
}

static void list_gabarit(const char *tag, BUFR_Template *t){
  printf(" | %s", tag);
  if(!t){ printf(" NULL"); return; }
  int n = arr_count(t->gabarit), i;
  BufrDescriptor **p = (BufrDescriptor**)arr_get(t->gabarit, 0);
  for(i=0;i<n;i++){
    printf(" %d", p[i]->descriptor);
    if(p[i]->value){ putchar(':'); print_value(p[i]->value); }
  }
}

static int has_data(BufrDescriptor *b){
  if(b->flags & FLAG_SKIPPED) return 0;
  switch(b->encoding.type){
    case TYPE_NUMERIC: case TYPE_CODETABLE: case TYPE_FLAGTABLE: case TYPE_CHNG_REF_VAL_OP: case TYPE_CCITT_IA5: case TYPE_IEEE_FP: return 1;
    default: return 0;
  }
}

static char msgbuf[1<<22];

/* one-subset dataset: defaults as they come from the template, everything else missing, delayed counts without default = 1 */
static void encode_from(const char *tag, BUFR_Template *t){
  printf(" | %s", tag);
  if(!t){ printf(" -"); return; }
  int rc = 0; BUFR_Dataset *dts = NULL; BUFR_Message *m = NULL;
  h_aborted=0; h_abort_armed=1; exit_called=0; exit_armed=1;
  if(setjmp(h_abort_jmp)==0 && setjmp(exit_jmp)==0){
    dts = bufr_create_dataset(t);
    if(!dts) rc = -1;
    else {
      dts->s1.year=2020; dts->s1.month=1; dts->s1.day=2; dts->s1.hour=3; dts->s1.minute=4; dts->s1.second=5;
      int pos = bufr_create_datasubset(dts);
      if(pos < 0) rc = -2;
      else {
        int j = 0, guard = 0;
        for(;;){
          DataSubset *ss = bufr_get_datasubset(dts,pos);
          int c = bufr_datasubset_count_descriptor(ss);
          if(j >= c || ++guard > 200000) break;
          BufrDescriptor *b = bufr_datasubset_get_descriptor(ss,j);
          if(has_data(b) && (b->flags & FLAG_CLASS31) && !(b->flags & FLAG_EXPANDED)){
            if(b->value == NULL || bufr_value_is_missing(b->value)) bufr_descriptor_set_ivalue(b, 1);
            bufr_expand_datasubset(dts,pos);
          }
          j++;
        }
        m = bufr_encode_message(dts, 0);
        if(!m) rc = -5;
      }
    }
  } else rc = exit_called ? -3 : -4;
  h_abort_armed=0; exit_armed=0;
  if(rc || !m){ printf(" rc%d", rc ? rc : -5); }
  else {
    ssize_t len = bufr_memwrite_message(msgbuf, sizeof msgbuf, m);
    printf(" "); puthex(stdout,(unsigned char*)msgbuf,len);
  }
  if(m && rc > -3) bufr_free_message(m);
  if(dts && rc > -3) bufr_free_dataset(dts);
}

static BufrValue* mk_value(const char *tok){
  BufrValue *v = NULL;
  switch(tok[0]){
    case 'i': v = bufr_create_value(VALTYPE_INT32); bufr_value_set_int32(v, (int)strtol(tok+1,NULL,10)); break;
    case 'l': v = bufr_create_value(VALTYPE_INT64); bufr_value_set_int64(v, (int64_t)strtoll(tok+1,NULL,10)); break;
    case 'd': { uint64_t u = strtoull(tok+1,NULL,16); double d; memcpy(&d,&u,8); v = bufr_create_value(VALTYPE_FLT64); bufr_value_set_double(v, d); break; }
    case 's': { static unsigned char buf[1<<16]; int n = unhex(tok+1, buf); buf[n]=0; v = bufr_create_value(VALTYPE_STRING); bufr_value_set_string(v,(char*)buf,n); break; }
    default: break;
  }
  return v;
}

static BUFR_Template* guarded_load(void){
  BUFR_Template *t = NULL;
  h_aborted=0; h_abort_armed=1; exit_called=0; exit_armed=1;
  if(setjmp(h_abort_jmp)==0 && setjmp(exit_jmp)==0) t = bufr_load_template(scratch, tables);
  else t = NULL;
  h_abort_armed=0; exit_armed=0;
  return t;
}

static void do_T(char **save){
  int ed = atoi(strtok_r(NULL," ",save)), n = atoi(strtok_r(NULL," ",save)), i;
  BufrDescValue *dv = (BufrDescValue*)calloc(n>0?n:1, sizeof *dv);
  for(i=0;i<n;i++){
    char *it = strtok_r(NULL," ",save);
    bufr_init_DescValue(&dv[i]);
    dv[i].descriptor = atoi(it);
    char *colon = strchr(it, ':');
    if(colon){
      int nv = 1, k; char *p;
      for(p=colon+1; *p; p++) if(*p==',') nv++;
      bufr_valloc_DescValue(&dv[i], nv);
      p = colon+1;
      for(k=0;k<nv;k++){
        char *e = strchr(p, ','); if(e) *e = 0;
        dv[i].values[k] = mk_value(p);
        p = e ? e+1 : p+strlen(p);
      }
    }
  }
  BUFR_Template *t = NULL, *tl = NULL, *tc = NULL;
  h_aborted=0; h_abort_armed=1; exit_called=0; exit_armed=1;
  if(setjmp(h_abort_jmp)==0 && setjmp(exit_jmp)==0) t = bufr_create_template(dv, n, tables, ed);
  else t = NULL;
  h_abort_armed=0; exit_armed=0;
  for(i=0;i<n;i++) bufr_vfree_DescValue(&dv[i]);
  free(dv);
  if(!t){ printf("T create=0\n"); return; }
  unlink(scratch);
  int src = bufr_save_template(scratch, t);
  tl = guarded_load();
  tc = bufr_copy_template(t);
  printf("T create=1 save=%d load=%d copy=%d", src, tl?1:0, tc?1:0);
  if(tl) printf(" cmpL=%d", bufr_compare_template(t, tl)); else printf(" cmpL=-");
  if(tc) printf(" cmpC=%d", bufr_compare_template(t, tc)); else printf(" cmpC=-");
  printf(" text=");
  { FILE *fp = fopen(scratch,"rb"); if(fp){ static unsigned char fb[1<<20]; size_t k = fread(fb,1,sizeof fb,fp); fclose(fp); puthex(stdout,fb,(long)k); } else printf("-"); }
  list_codets("O", t); list_codets("L", tl); list_codets("C", tc);
  list_gabarit("GO", t); list_gabarit("GL", tl); list_gabarit("GC", tc);
  encode_from("MO", t); encode_from("ML", tl); encode_from("MC", tc);
  printf("\n");
  if(tl) bufr_free_template(tl);
  if(tc) bufr_free_template(tc);
  bufr_free_template(t);
}

static void do_X(char **save){
  char *hx = strtok_r(NULL," ",save);
  static unsigned char buf[1<<20];
  int n = hx ? unhex(hx, buf) : 0;
  FILE *fp = fopen(scratch,"wb");
  if(!fp){ printf("X io-error\n"); return; }
  fwrite(buf,1,n,fp); fclose(fp);
  BUFR_Template *tl = guarded_load();
  printf("X load=%d", tl?1:0);
  list_codets("L", tl);
  list_gabarit("GL", tl);
  printf("\n");
  if(tl) bufr_free_template(tl);
}

int main(void){
  char *line;
  const char *dir = getenv("VERIF_C18_DIR");
  snprintf(scratch, sizeof scratch, "%s/c18_%d.template", dir && dir[0] ? dir : "/tmp", (int)getpid());
  bufr_begin_api();
  bufr_set_abort(h_abort_handler);
  load_tables();
  while((line=h_getline())){
    char *save=NULL; char *tok=strtok_r(line," ",&save);
    if(!tok) { printf("\n"); continue; }
    if(!strcmp(tok,"T")) do_T(&save);
    else if(!strcmp(tok,"X")) do_X(&save);
    else printf("?\n");
    fflush(stdout);
  }
  unlink(scratch);
  return 0;
}
