/* c06.c — C side of the framing / I/O-path correspondence (property C06).
   usage: c06 <scratch-dir>      (one case per line on stdin, one result line on stdout)

   M <ed> <master> <centre> <subcentre> <upd> <flag> <cat> <isub> <lsub> <mver> <lver> <year> <month> <day> <hour> <min> <sec>
     <s2: n | h<hex>> <nsub> <s3flag> <ndesc> <d>... <s4: h<hex> | z<count>> <rbits> <rval> <hdr: n | h<hex>> <order> <chunk>
        builds the message through the public API (bufr_create_message, Section 1 fields, bufr_sect2_set_data,
        bufr_begin_message, descriptor list, bufr_alloc_sect4, bufr_putbits, bufr_end_message; order=0: Section 2 set
        before the data, order=1: after bufr_end_message), writes it through bufr_write_message (FILE*),
        bufr_swrite_message (fd), bufr_memwrite_message (buffer exactly as long as the message) and
        bufr_callback_write_message, reads each output back through the matching reader.
        -> "W rc=.. nb=.. same=.. lm=.. sl=.. bytes=<hex> | R:f <dump> | R:s <dump> | R:m <dump> | R:c <dump>"
   S <chunk> <hex of a byte stream>
        the stream is read until failure through bufr_read_message (file), bufr_sread_message (file when chunk=0, else a pipe
        fed in <chunk>-byte writes by a second thread: short reads), bufr_memread_message, bufr_callback_read_message
        (source delivering <chunk> bytes at a time when chunk>0)
        -> "R:f n=<k> end=<rc> ; <dump> ; ... | R:s ... | R:m ... | R:c ..."
   E s|o|r <hex>   str_schar2oct / str_oct2char / str_oct2char(str_schar2oct) -> hex
   <dump> = rc=.. used=.. ed=.. lm=.. s1=<len>:<16 fields> x=<hex> s2=<len>:<hex> s3=<len>:<nsub>,<flag>:<descs> s4=<len>:<hex> h=<hex>
            rw=<same | hex>   (the message written again into a buffer of exactly <used> bytes vs the bytes consumed) */
#include "hcommon.h"
#include "bufr_util.h"
#include "bufr_array.h"
#include "bufr_message.h"
#include <unistd.h>
#include <fcntl.h>
#include <errno.h>
#include <pthread.h>
#include <signal.h>

static const char *g_dir;
static char g_path[4096];
static const char *P(const char *n){ snprintf(g_path,sizeof g_path,"%s/%s",g_dir,n); return g_path; }

/* ---------------------------------------------------------------- user callbacks */
struct cbuf { unsigned char *p; size_t n, cap, pos; size_t chunk; long lowreads; };
static ssize_t cb_write(void *cd, size_t len, const char *b){
  struct cbuf *c=(struct cbuf*)cd;
  if(c->n+len>c->cap){ c->cap=(c->n+len)*2+64; c->p=(unsigned char*)realloc(c->p,c->cap); }
  if(len) memcpy(c->p+c->n,b,len); c->n+=len; return (ssize_t)len; }
/* the source hands out at most `chunk` bytes per low-level read; the callback gathers like the library's own fns do */
static ssize_t cb_lowread(struct cbuf *c, char *b, size_t len){
  size_t av=c->n-c->pos; if(len>av) len=av; if(c->chunk && len>c->chunk) len=c->chunk;
  if(len) memcpy(b,c->p+c->pos,len); c->pos+=len; c->lowreads++; return (ssize_t)len; }
static ssize_t cb_read(void *cd, size_t len, char *b){
  struct cbuf *c=(struct cbuf*)cd; size_t got=0;
  while(len>0){ ssize_t rc=cb_lowread(c,b,len); if(rc<=0) break; got+=rc; len-=rc; b+=rc; }
  return (ssize_t)got; }

/* ---------------------------------------------------------------- dump */
static FILE *g_out;
#define OUT(...) fprintf(g_out,__VA_ARGS__)
static void hexor(const unsigned char *b, long n){ if(n<=0||!b) OUT("-"); else puthex(g_out,b,n); }
static void dump_msg(int rc, long used, BUFR_Message *m, const unsigned char *orig){
  OUT("rc=%d used=%ld",rc>0?1:rc,used);
  if(rc<=0||!m) return;
  OUT(" ed=%d lm=%u s1=%d:%d,%d,%d,%d,%d,%d,%d,%d,%d,%d,%d,%d,%d,%d,%d,%d x=",m->edition,m->len_msg,m->s1.len,
    (int)m->s1.bufr_master_table,(int)m->s1.orig_centre,(int)m->s1.orig_sub_centre,(int)m->s1.upd_seq_no,(int)m->s1.flag,
    (int)m->s1.msg_type,(int)m->s1.msg_inter_subtype,(int)m->s1.msg_local_subtype,(int)m->s1.master_table_version,
    (int)m->s1.local_table_version,(int)m->s1.year,(int)m->s1.month,(int)m->s1.day,(int)m->s1.hour,(int)m->s1.minute,(int)m->s1.second);
  hexor(m->s1.data,m->s1.data_len);
  OUT(" s2=%d:",m->s2.len); hexor(m->s2.data,(m->s1.flag&BUFR_FLAG_HAS_SECT2)?m->s2.data_len:0);
  OUT(" s3=%d:%d,%d:",m->s3.len,m->s3.no_data_subsets,(int)m->s3.flag);
  { int i,n=arr_count(m->s3.desc_list); if(n==0) OUT("-"); for(i=0;i<n;i++){ int *d=(int*)arr_get(m->s3.desc_list,i); OUT(i?",%d":"%d",*d);} }
  OUT(" s4=%u:",m->s4.len); hexor(m->s4.data,(long)m->s4.len-m->s4.header_len);
  OUT(" h="); hexor((unsigned char*)m->header_string,m->header_string?m->header_len:0);
  if(orig){ /* write the message just read again, into a buffer of exactly `used` bytes */
    char *w=(char*)malloc(used>0?used:1); ssize_t nw=bufr_memwrite_message(w,used,m);
    if(nw==used && memcmp(w,orig,used)==0) OUT(" rw=same"); else { OUT(" rw=%ld:",(long)nw); hexor((unsigned char*)w,nw>0?nw:0); }
    free(w); }
}

/* ---------------------------------------------------------------- file helpers */
static unsigned char *slurp(const char *path, long *n){
  FILE *f=fopen(path,"rb"); unsigned char *b; if(!f){ *n=-1; return NULL; }
  fseek(f,0,SEEK_END); *n=ftell(f); fseek(f,0,SEEK_SET); b=(unsigned char*)malloc(*n>0?*n:1);
  if(*n>0 && fread(b,1,*n,f)!=(size_t)*n) *n=-2; fclose(f); return b; }
static void spit(const char *path, const unsigned char *b, long n){ FILE *f=fopen(path,"wb"); if(n>0) fwrite(b,1,n,f); fclose(f); }

struct feeder { int fd; const unsigned char *b; long n; long chunk; };
static void *feed(void *a){ struct feeder *f=(struct feeder*)a; long o=0;
  while(o<f->n){ long k=f->n-o; if(k>f->chunk) k=f->chunk; ssize_t rc=write(f->fd,f->b+o,k); if(rc<=0){ if(errno==EINTR) continue; break; } o+=rc; if((o/f->chunk)%3==0) sched_yield(); }
  close(f->fd); return NULL; }

#define MAXMSG 64
/* read every message of the stream through one path; path = 'f','s','m','c' */
static void read_stream(char path, const unsigned char *b, long n, long chunk, int single){
  int cnt=0, rc=0; BUFR_Message *r=NULL; long used;
  printf(single?" | R:%c ":" | R:%c",path);
  /* collect dumps after the count is known: dump into a memory stream */
  char *mb=NULL; size_t ml=0; FILE *ms=open_memstream(&mb,&ml); g_out=ms;
  if(path=='f'){
    spit(P("rf"),b,n); FILE *fp=fopen(P("rf"),"rb");
    for(;cnt<MAXMSG;){ long p0=ftell(fp); r=NULL; rc=bufr_read_message(fp,&r); if(rc<=0) break; used=ftell(fp)-p0;
      if(!single) OUT(" ; "); dump_msg(rc,used,r,b+p0); bufr_free_message(r); cnt++; }
    fclose(fp);
  } else if(path=='s'){
    if(chunk==0){
      spit(P("rs"),b,n); int fd=open(P("rs"),O_RDONLY);
      for(;cnt<MAXMSG;){ long p0=lseek(fd,0,SEEK_CUR); r=NULL; rc=bufr_sread_message(fd,&r); if(rc<=0) break; used=lseek(fd,0,SEEK_CUR)-p0;
        if(!single) OUT(" ; "); dump_msg(rc,used,r,b+p0); bufr_free_message(r); cnt++; }
      close(fd);
    } else {
      int pp[2]; pthread_t th; struct feeder fa; if(pipe(pp)!=0){ g_out=stdout; fclose(ms); free(mb); printf("pipe-failed"); return; }
      fa.fd=pp[1]; fa.b=b; fa.n=n; fa.chunk=chunk; pthread_create(&th,NULL,feed,&fa);
      for(;cnt<MAXMSG;){ r=NULL; rc=bufr_sread_message(pp[0],&r); if(rc<=0) break;
        if(!single) OUT(" ; "); dump_msg(rc,-1,r,NULL); bufr_free_message(r); cnt++; }
      close(pp[0]); pthread_join(th,NULL);
    }
  } else if(path=='m'){
    long off=0;
    /* the reader is given exactly the remaining bytes, in a malloc of exactly that size */
    for(;cnt<MAXMSG;){ long rem=n-off; char *mem=(char*)malloc(rem>0?rem:1); memcpy(mem,b+off,rem); r=NULL;
      ssize_t k=bufr_memread_message(mem,rem,&r); free(mem); rc=(k>0)?1:(int)k; if(k<=0) break;
      if(!single) OUT(" ; "); dump_msg(1,(long)k,r,b+off); bufr_free_message(r); off+=k; cnt++; }
  } else {
    struct cbuf c; memset(&c,0,sizeof c); c.p=(unsigned char*)b; c.n=n; c.chunk=chunk;
    for(;cnt<MAXMSG;){ long p0=c.pos; r=NULL; rc=bufr_callback_read_message(cb_read,&c,&r); if(rc<=0) break; used=c.pos-p0;
      if(!single) OUT(" ; "); dump_msg(rc,used,r,b+p0); bufr_free_message(r); cnt++; }
  }
  fflush(ms); fclose(ms); g_out=stdout;
  if(single){ if(cnt==0) printf("rc=%d used=0",rc); else fputs(mb,stdout); }
  else { printf(" n=%d end=%d",cnt,rc); fputs(mb,stdout); }
  free(mb);
}

static unsigned char *tokbytes(const char *t, long *n){ /* "n" -> NULL, "h<hex>" -> bytes */
  if(t[0]=='n'){ *n=-1; return NULL; }
  unsigned char *b=(unsigned char*)malloc(strlen(t)/2+2); *n=unhex(t+1,b); b[*n]=0; return b; }

static void do_M(char **save){
  #define NEXT strtok_r(NULL," ",save)
  int ed=atoi(NEXT); int f[16]; int i; for(i=0;i<16;i++) f[i]=atoi(NEXT);
  long n2; unsigned char *s2=tokbytes(NEXT,&n2);
  int nsub=atoi(NEXT), s3flag=atoi(NEXT), nd=atoi(NEXT);
  int *ds=(int*)malloc(sizeof(int)*(nd+1)); for(i=0;i<nd;i++) ds[i]=atoi(NEXT);
  char *t4=NEXT; long n4=0; unsigned char *s4=NULL; if(t4[0]=='z') n4=atol(t4+1); else s4=tokbytes(t4,&n4);
  int rbits=atoi(NEXT); unsigned long long rval=strtoull(NEXT,NULL,10);
  long nh; unsigned char *hdr=tokbytes(NEXT,&nh);
  int order=atoi(NEXT); long chunk=atol(NEXT);
  BUFR_Message *m=bufr_create_message(ed);
  m->s1.bufr_master_table=f[0]; m->s1.orig_centre=f[1]; m->s1.orig_sub_centre=f[2]; m->s1.upd_seq_no=f[3]; m->s1.flag=f[4];
  m->s1.msg_type=f[5]; m->s1.msg_inter_subtype=f[6]; m->s1.msg_local_subtype=f[7]; m->s1.master_table_version=f[8];
  m->s1.local_table_version=f[9]; m->s1.year=f[10]; m->s1.month=f[11]; m->s1.day=f[12]; m->s1.hour=f[13]; m->s1.minute=f[14]; m->s1.second=f[15];
  if(hdr){ m->header_string=strdup((char*)hdr); m->header_len=strlen((char*)hdr); }
  if(order==0 && s2) bufr_sect2_set_data(m,(char*)s2,(int)n2);
  bufr_begin_message(m);
  BUFR_SET_NB_DATASET(m,nsub); m->s3.flag=(unsigned char)s3flag;
  for(i=0;i<nd;i++) arr_add(m->s3.desc_list,(char*)&ds[i]);
  bufr_alloc_sect4(m,(unsigned)(n4+(rbits?1:0)));
  if(s4){ long k; for(k=0;k<n4;k++) bufr_putbits(m,s4[k],8); }
  else { long k=n4; while(k>=8){ bufr_putbits(m,0,64); k-=8; } while(k>0){ bufr_putbits(m,0,8); k--; } }
  if(rbits) bufr_putbits(m,rval,rbits);
  bufr_end_message(m);
  if(order==1 && s2) bufr_sect2_set_data(m,(char*)s2,(int)n2);
  /* four writers */
  FILE *fp=fopen(P("wF"),"wb"); int rcF=bufr_write_message(fp,m); long nbF=ftell(fp); fclose(fp);
  int fd=open(P("wS"),O_WRONLY|O_CREAT|O_TRUNC,0600); int rcS=bufr_swrite_message(fd,m); long nbS=lseek(fd,0,SEEK_CUR); close(fd);
  long lF,lS; unsigned char *bF=slurp(P("wF"),&lF), *bS=slurp(P("wS"),&lS);
  char *mem=(char*)malloc(nbF>0?nbF:1); ssize_t nM=bufr_memwrite_message(mem,nbF,m);
  struct cbuf c; memset(&c,0,sizeof c); int rcC=bufr_callback_write_message(cb_write,&c,m);
  int same=(lF==nbF && lS==nbF && nM==nbF && (long)c.n==nbF && nbS==nbF && memcmp(bF,bS,nbF)==0 && memcmp(bF,mem,nbF)==0 && memcmp(bF,c.p,nbF)==0);
  printf("W rc=%d,%d,%ld,%d nb=%ld,%ld,%ld,%ld same=%d lm=%u sl=%d,%d,%d,%u bytes=",rcF,rcS,(long)nM,rcC,nbF,nbS,(long)nM,(long)c.n,same,
         m->len_msg,m->s1.len,m->s2.len,m->s3.len,m->s4.len);
  if(nbF>300000){ unsigned long long h=1469598103934665603ULL; long k; for(k=0;k<lF;k++){ h^=bF[k]; h*=1099511628211ULL; }
    printf("big:%ld:",lF); puthex(stdout,bF,48); printf(":"); puthex(stdout,bF+lF-8,8); printf(":%016llx",h); }
  else hexor(bF,lF);
  /* four readers, each on the output of the writer of the same kind */
  read_stream('f',bF,lF,0,1);
  read_stream('s',bS,lS,nbF>300000?0:chunk,1);
  read_stream('m',(unsigned char*)mem,nM>0?nM:0,0,1);
  read_stream('c',c.p,c.n,chunk,1);
  printf("\n");
  bufr_free_message(m); free(bF); free(bS); free(mem); free(c.p); free(s2); free(ds); free(s4); free(hdr);
}

static void do_S(char **save){
  long chunk=atol(NEXT); char *hx=NEXT; long n=0; unsigned char *b=(unsigned char*)malloc((hx?strlen(hx):0)/2+2);
  if(hx && hx[0]!='-') n=unhex(hx,b);
  printf("S");
  read_stream('f',b,n,0,0); read_stream('s',b,n,chunk,0); read_stream('m',b,n,0,0); read_stream('c',b,n,chunk,0);
  printf("\n"); free(b);
}

static void do_E(char **save){
  char *k=NEXT; char *hx=NEXT; unsigned char *b=(unsigned char*)malloc((hx?strlen(hx):0)/2+70); int n=0;
  if(hx && hx[0]!='-') n=unhex(hx,b);
  b[n]=0;
  if(k[0]=='s'||k[0]=='r'){
    int len=n, bs=64; char *e=str_schar2oct((char*)b,&len,&bs);
    if(k[0]=='s'){ printf("E "); hexor((unsigned char*)e,len); printf(" %d\n",len); }
    else { int l2=len; char *o=str_oct2char(e,&l2); printf("E "); hexor((unsigned char*)o,l2); printf(" %d\n",l2); free(o); }
    free(e);
  } else { int len=n; char *o=str_oct2char((char*)b,&len); printf("E "); hexor((unsigned char*)o,len); printf(" %d\n",len); free(o); }
  free(b);
}

int main(int argc, char **argv){
  char *line;
  if(argc<2){ fprintf(stderr,"usage: c06 <scratch-dir>\n"); return 2; }
  g_dir=argv[1]; g_out=stdout;
  signal(SIGPIPE,SIG_IGN);   /* a reader that gives up closes the pipe while the feeder thread is still writing */
  bufr_begin_api();
  bufr_set_abort(h_abort_handler);
  while((line=h_getline())){
    char *save=NULL; char *tok=strtok_r(line," ",&save);
    if(!tok) continue;
    if(tok[0]=='M') do_M(&save);
    else if(tok[0]=='S') do_S(&save);
    else if(tok[0]=='E') do_E(&save);
    else printf("?\n");
    fflush(stdout);
  }
  return 0;
}
