/* c05.c — C side of property C05: decoding arbitrary bytes.
   One case per input line: "<hex bytes>".  Each case runs in a forked child (so that a crash, a sanitizer abort, a stack
   overflow, exit() or a hang of one case cannot hide the others) under a wall-clock alarm.
   Output per case:  "<class> read=<bytes consumed> nsub=<n> invalid=<0|1> ms=<wall ms>"
     class: reject          bufr_memread_message or bufr_decode_message refused (failure return)
            dataset         a dataset was returned
            abort           the registered abort handler was called (counts as a refusal)
            EXIT            exit() was called by the library                         -> violation
            SIGNAL<n>       the child died on a signal (SEGV = 11, ABRT = 6)         -> violation
            SANITIZER       AddressSanitizer/UBSan stopped the child (exit code 99)  -> violation
            TIMEOUT         no return within the time limit                          -> violation
   The sanitizer report of a failing child goes to stderr. */
#include "hcommon.h"
#include <unistd.h>
#include <signal.h>
#include <sys/wait.h>
#include <sys/time.h>
#include <sys/resource.h>
#include <time.h>

static BUFR_Tables *tables = NULL;
void __real_exit(int);
static int in_case = 0;
void __wrap_exit(int code){ if(in_case){ _exit(97); } __real_exit(code); }
static void abort_refusal(const char *m){ (void)m; _exit(96); }
static void sink(const char *m){ (void)m; }

static double now_ms(void){ struct timespec ts; clock_gettime(CLOCK_MONOTONIC,&ts); return ts.tv_sec*1000.0 + ts.tv_nsec/1e6; }

int main(int argc, char **argv){
  int limit_s = argc > 1 ? atoi(argv[1]) : 10;
  char env[4096]; char *line;
  snprintf(env, sizeof env, "BUFR_TABLES=%s/Tables/", VERIF_REPO_DIR);
  putenv(strdup(env));
  bufr_begin_api();
  bufr_set_debug_handler(sink); bufr_set_output_handler(sink);
  tables = bufr_create_tables();
  bufr_load_cmc_tables(tables);
  { char lb[4096], ld[4096]; snprintf(lb,sizeof lb,"%s/Test/local_table_b",VERIF_REPO_DIR); snprintf(ld,sizeof ld,"%s/Test/local_table_d",VERIF_REPO_DIR);
    bufr_load_l_tableB(tables, lb); bufr_load_l_tableD(tables, ld); }
  static unsigned char buf[1<<20];
  while((line = h_getline())){
    int n = unhex(line, buf);
    int pfd[2]; if(pipe(pfd)) return 2;
    fflush(stdout); fflush(stderr);
    double t0 = now_ms();
    pid_t pid = fork();
    if(pid == 0){
      close(pfd[0]);
      struct rlimit rl; rl.rlim_cur = rl.rlim_max = 64UL<<20; setrlimit(RLIMIT_STACK,&rl);
      alarm(limit_s);
      bufr_set_abort(abort_refusal);
      in_case = 1;
      /* exact-size heap copy: reads past the input are seen by ASan */
      unsigned char *m = (unsigned char*)malloc(n>0?n:1); memcpy(m, buf, n);
      BUFR_Message *msg = NULL; BUFR_Dataset *d = NULL;
      ssize_t r = bufr_memread_message((char*)m, n, &msg);
      int nsub = -1, inv = 0; const char *cls = "reject";
      if(r > 0 && msg){
        d = bufr_decode_message(msg, tables);
        if(d){ cls = "dataset"; nsub = bufr_count_datasubset(d); inv = (d->data_flag & BUFR_FLAG_INVALID) ? 1 : 0;
          /* touch every value: listing must be safe too */
          { int s; for(s=0;s<nsub;s++){ DataSubset *ss = bufr_get_datasubset(d,s); int c = bufr_datasubset_count_descriptor(ss), j;
              for(j=0;j<c;j++){ BufrDescriptor *b = bufr_datasubset_get_descriptor(ss,j); static char o[1<<16]; if(b && b->value && !(b->flags & FLAG_SKIPPED)) bufr_print_dscptr_value(o,b); } } }
          bufr_free_dataset(d); }
        bufr_free_message(msg);
      }
      free(m);
      char res[128]; int k = snprintf(res,sizeof res,"%s read=%ld nsub=%d invalid=%d", cls, (long)r, nsub, inv);
      if(write(pfd[1], res, k) < 0) _exit(95);
      _exit(0);
    }
    close(pfd[1]);
    char res[256]; int k = 0, got;
    while((got = read(pfd[0], res+k, sizeof(res)-1-k)) > 0) k += got;
    res[k] = 0; close(pfd[0]);
    int st = 0; waitpid(pid,&st,0);
    double ms = now_ms() - t0;
    if(WIFSIGNALED(st)){
      if(WTERMSIG(st) == SIGALRM) printf("TIMEOUT ms=%.0f\n", ms); else printf("SIGNAL%d ms=%.0f\n", WTERMSIG(st), ms);
    } else if(WEXITSTATUS(st) == 97) printf("EXIT ms=%.0f\n", ms);
    else if(WEXITSTATUS(st) == 96) printf("abort ms=%.0f\n", ms);
    else if(WEXITSTATUS(st) == 99 || WEXITSTATUS(st) == 1) printf("SANITIZER ms=%.0f\n", ms);
    else if(WEXITSTATUS(st) != 0) printf("EXITCODE%d ms=%.0f\n", WEXITSTATUS(st), ms);
    else printf("%s ms=%.0f\n", res, ms);
    fflush(stdout);
  }
  return 0;
}
