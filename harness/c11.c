/* c11.c — C side of the bit-I/O correspondence (property C11).
   Protocol (one case per line on stdin, one result line on stdout):
     W <maxd> <op>...       op = p<width>:<hexvalue> | s<hexbytes> | P<enclen>:<hexbytes>
        -> "<filled> <bitno> <max_data_len hex> <hex of the section bytes (a partial last byte counts)>"  or "ABORT"
     R <hexdata> <L> <cur> <bit> <op>...   op = g<n> | k<n> | t<len>
        -> per op "v,err,cur,bit" (g), "err,cur,bit" (k), "hexstring,err,cur,bit" (t)
   The reader's section is a malloc of exactly L bytes, so ASan sees any access outside it. */
#include "hcommon.h"
int main(void){
  char *line;
  bufr_begin_api();
  bufr_set_abort(h_abort_handler);
  while((line=h_getline())){
    char *save=NULL; char *tok=strtok_r(line," ",&save);
    if(!tok) continue;
    if(tok[0]=='W'){
      unsigned maxd=(unsigned)strtoul(strtok_r(NULL," ",&save),NULL,10);
      BUFR_Message *m=bufr_create_message(4);
      bufr_begin_message(m);
      bufr_alloc_sect4(m,maxd);
      h_aborted=0; h_abort_armed=1;
      if(setjmp(h_abort_jmp)==0){
        while((tok=strtok_r(NULL," ",&save))){
          if(tok[0]=='p'){ int w=atoi(tok+1); char*c=strchr(tok,':'); uint64_t v=strtoull(c+1,NULL,16); bufr_putbits(m,v,w); }
          else if(tok[0]=='s'){ static unsigned char b[1<<16]; int n=unhex(tok+1,b); bufr_putstring(m,(char*)b,n); }
          else if(tok[0]=='P'){ static unsigned char b[1<<16]; int w=atoi(tok+1); char*c=strchr(tok,':'); int n=unhex(c+1,b); bufr_put_padstring(m,(char*)b,n,w); }
        }
      }
      h_abort_armed=0;
      if(h_aborted) printf("ABORT\n");
      else { long nb=m->s4.filled+(m->s4.bitno?1:0); printf("%u %u %x ",(unsigned)m->s4.filled,(unsigned)m->s4.bitno,(unsigned)m->s4.max_data_len); puthex(stdout,m->s4.data,nb); printf("\n"); }
      bufr_free_message(m);
    } else if(tok[0]=='R'){
      static unsigned char tmp[1<<16];
      char *hx=strtok_r(NULL," ",&save);
      int nd=unhex(hx,tmp);
      int L=atoi(strtok_r(NULL," ",&save)), cur=atoi(strtok_r(NULL," ",&save)), bit=atoi(strtok_r(NULL," ",&save));
      BUFR_Message *m=bufr_create_message(4);
      unsigned char *d=(unsigned char*)malloc(L>0?L:1);
      memcpy(d,tmp,L<nd?L:nd);
      if(m->s4.data) free(m->s4.data);
      m->s4.data=d; m->s4.max_len=L; m->s4.max_data_len=L; m->s4.current=d+cur; m->s4.bitno=bit;
      int first=1;
      while((tok=strtok_r(NULL," ",&save))){
        int n=atoi(tok+1), err=0;
        if(!first) printf(" "); first=0;
        if(tok[0]=='g'){ uint64_t v=bufr_getbits(m,n,&err); printf("%llx,%d,%ld,%d",(unsigned long long)v,err,(long)(m->s4.current-m->s4.data),(int)m->s4.bitno); }
        else if(tok[0]=='k'){ bufr_skip_bits(m,n,&err); printf("%d,%ld,%d",err,(long)(m->s4.current-m->s4.data),(int)m->s4.bitno); }
        else if(tok[0]=='t'){ static char s[1<<16]; memset(s,0,n+1); err=bufr_getstring(m,s,n);
          /* canonical: the string when every read succeeded, "E" otherwise (the tail is unspecified after an error) */
          if(err>=0) puthex(stdout,(unsigned char*)s,n); else printf("E");
          printf(",%d,%ld,%d",err,(long)(m->s4.current-m->s4.data),(int)m->s4.bitno); }
      }
      printf("\n");
      bufr_free_message(m);
    }
    fflush(stdout);
  }
  return 0;
}
