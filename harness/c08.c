/* c08.c — C side of the scaling-arithmetic check (property C08).
   One case per line on stdin, one result line per case on stdout; doubles/floats are printed as IEEE bit patterns.
     P k                      -> bits of pow(10.0,(double)k)                        (libm on this machine; the pow10 contract)
     M nbits                  -> bufr_missing_ivalue(nbits) (hex)
     N val                    -> bufr_value_nbits(val) (decimal; val decimal int64)
     C hexvalue nbits         -> bufr_cvt_ivalue (decimal)
     G val nbits              -> bufr_negative_ivalue (hex; val decimal int64)
     R s ref w desc i         -> "<dbits> <j> <fbits> <k>"   d=bufr_cvt_i64_to_dval(i) j=bufr_cvt_dval_to_i64(d)
                                                              f=bufr_cvt_i32_to_fval(i) k=bufr_cvt_fval_to_i32(f)   (j,k hex)
     D s ref w desc dbits     -> "<j>"      j=bufr_cvt_dval_to_i64(desc,be,double(dbits))   (hex)
     F s ref w desc fbits     -> "<k>"      k=bufr_cvt_fval_to_i32(desc,be,float(fbits))    (hex)
     S s ref w desc lo hi st  -> sweep i=lo,lo+st,..<=hi of the double AND the float path inside C:
                                 "<n> <rtfail> <first_rtfail|-1> <monofail> <first_monofail|-1> <fnv64 of dbits> <frtfail> <first|-1> <fmonofail> <first|-1>"
                                 rtfail: i<allones: j!=i ; i==allones: d is not the missing double or j!=allones
                                 monofail: d(i) <= d(previous i) for i<allones
     X s ref w desc dbits     -> descriptor with this encoding: bufr_descriptor_get_range -> min max; bufr_descriptor_set_dvalue(v)
                                 -> "<minbits> <maxbits> <rtrn> <stored value bits> <valtype>"
   Encodings are TYPE_NUMERIC. */
#include "hcommon.h"
#include <math.h>
#include "bufr_tables.h"
#include "bufr_desc.h"
#include "bufr_value.h"
static void nodebug(const char*m){ (void)m; }
static uint64_t d2b(double d){ uint64_t b; memcpy(&b,&d,8); return b; }
static double b2d(uint64_t b){ double d; memcpy(&d,&b,8); return d; }
static uint32_t f2b(float f){ uint32_t b; memcpy(&b,&f,4); return b; }
static float b2f(uint32_t b){ float f; memcpy(&f,&b,4); return f; }
static char *nx(char **save){ char *t=strtok_r(NULL," ",save); return t?t:(char*)"0"; }
static void getenc(char **save, BufrValueEncoding *be, int *desc){
  memset(be,0,sizeof *be);
  be->type=TYPE_NUMERIC;
  be->scale=atoi(nx(save)); be->reference=(int)strtoll(nx(save),NULL,10); be->nbits=atoi(nx(save)); *desc=atoi(nx(save));
  be->af_nbits=0; be->ref_nbits=0;
}
int main(void){
  char *line;
  bufr_begin_api();
  bufr_set_abort(h_abort_handler);
  bufr_set_debug_handler(nodebug);
  while((line=h_getline())){
    char *save=NULL; char *tok=strtok_r(line," ",&save);
    BufrValueEncoding be; int desc;
    if(!tok) continue;
    switch(tok[0]){
    case 'P': { int k=atoi(nx(&save)); printf("%016llx\n",(unsigned long long)d2b(pow(10.0,(double)k))); break; }
    case 'M': { int n=atoi(nx(&save)); printf("%llx\n",(unsigned long long)bufr_missing_ivalue(n)); break; }
    case 'N': { long long v=strtoll(nx(&save),NULL,10); printf("%d\n",bufr_value_nbits((int64_t)v)); break; }
    case 'C': { unsigned long long v=strtoull(nx(&save),NULL,16); int n=atoi(nx(&save)); printf("%lld\n",(long long)bufr_cvt_ivalue((uint64_t)v,n)); break; }
    case 'G': { long long v=strtoll(nx(&save),NULL,10); int n=atoi(nx(&save)); printf("%llx\n",(unsigned long long)bufr_negative_ivalue((int64_t)v,n)); break; }
    case 'R': {
      getenc(&save,&be,&desc);
      unsigned long long i=strtoull(nx(&save),NULL,10);
      double d=bufr_cvt_i64_to_dval(&be,(int64_t)i);
      uint64_t j=bufr_cvt_dval_to_i64(desc,&be,d);
      float f=bufr_cvt_i32_to_fval(&be,(uint32_t)i);
      uint32_t k=bufr_cvt_fval_to_i32(desc,&be,f);
      printf("%016llx %llx %08x %x\n",(unsigned long long)d2b(d),(unsigned long long)j,(unsigned)f2b(f),(unsigned)k);
      break; }
    case 'D': {
      getenc(&save,&be,&desc);
      double d=b2d(strtoull(nx(&save),NULL,16));
      printf("%llx\n",(unsigned long long)bufr_cvt_dval_to_i64(desc,&be,d));
      break; }
    case 'F': {
      getenc(&save,&be,&desc);
      float f=b2f((uint32_t)strtoul(nx(&save),NULL,16));
      printf("%x\n",(unsigned)bufr_cvt_fval_to_i32(desc,&be,f));
      break; }
    case 'S': {
      getenc(&save,&be,&desc);
      unsigned long long lo=strtoull(nx(&save),NULL,10), hi=strtoull(nx(&save),NULL,10), st=strtoull(nx(&save),NULL,10);
      unsigned long long i, n=0, rtf=0, mf=0, frtf=0, fmf=0; long long rt1=-1, m1=-1, frt1=-1, fm1=-1;
      uint64_t h=1469598103934665603ULL, allones=bufr_missing_ivalue(be.nbits);
      double prev=0; float fprev=0; int have=0;
      if(st==0) st=1;
      for(i=lo;i<=hi;i+=st){
        double d=bufr_cvt_i64_to_dval(&be,(int64_t)i);
        uint64_t j=bufr_cvt_dval_to_i64(desc,&be,d);
        float f=bufr_cvt_i32_to_fval(&be,(uint32_t)i);
        uint32_t k=bufr_cvt_fval_to_i32(desc,&be,f);
        uint64_t b=d2b(d); int q;
        for(q=0;q<8;q++){ h^=(b>>(8*q))&0xff; h*=1099511628211ULL; }
        n++;
        if(i<allones){
          if(j!=i){ rtf++; if(rt1<0) rt1=(long long)i; }
          if(k!=(uint32_t)i){ frtf++; if(frt1<0) frt1=(long long)i; }
          if(have){ if(!(d>prev)){ mf++; if(m1<0) m1=(long long)i; } if(!(f>fprev)){ fmf++; if(fm1<0) fm1=(long long)i; } }
          prev=d; fprev=f; have=1;
        } else if(i==allones){
          if(!bufr_is_missing_double(d)||j!=allones){ rtf++; if(rt1<0) rt1=(long long)i; }
          if(!bufr_is_missing_float(f)||k!=(uint32_t)allones){ frtf++; if(frt1<0) frt1=(long long)i; }
        }
      }
      printf("%llu %llu %lld %llu %lld %016llx %llu %lld %llu %lld\n",n,rtf,rt1,mf,m1,(unsigned long long)h,frtf,frt1,fmf,fm1);
      break; }
    case 'X': {
      getenc(&save,&be,&desc);
      double v=b2d(strtoull(nx(&save),NULL,16)), mn=0, mx=0, st; int r1, r2, vt=-1;
      BufrDescriptor *cb=bufr_create_descriptor(NULL,desc);
      cb->encoding=be;
      r1=bufr_descriptor_get_range(cb,&mn,&mx);
      r2=bufr_descriptor_set_dvalue(cb,v);
      st=bufr_descriptor_get_dvalue(cb);
      if(cb->value) vt=(int)cb->value->type;
      printf("%016llx %016llx %d %016llx %d\n",(unsigned long long)d2b(mn),(unsigned long long)d2b(mx),r2,(unsigned long long)d2b(st),vt);
      (void)r1;
      bufr_free_descriptor(cb);
      break; }
    default: printf("?\n");
    }
    fflush(stdout);
  }
  return 0;
}
