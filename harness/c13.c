/* c13.c — C side of property C13 (text dump -> load -> encode gives the identical message).
   Datasets are built exactly as in codec.c (public API, wire-order tokens) or decoded from a BUFR file; they are
   encoded (bytes A), written with bufr_fdump_dataset (what bufr_decoder -dump calls) into one scratch file — k datasets
   per file —, read back one by one with bufr_read_dataset_dump into a dataset created from the same template (what
   bufr_genmsgs_from_dump / bufr_encoder -datafile do) and encoded again (bytes B).  bufr_genmsgs_from_dump itself is
   also run on the file (bytes G = its output file).
   Protocol: one case per input line, one output line per case.
     TABLES <localB|-> <localD|->                 (re)load CMC master tables (+ local tables)
     E <trim> <comp> <ed> <n> <desc>.. <k> { <hdr> <nsub> {tok.. |}.. }*k
          hdr: '-' or 15 comma separated ints master_table,centre,subcentre,updseq,cat,intsub,locsub,mtv,ltv,Y,M,D,h,m,s
          tok: as codec.c (r<hex raw>, s<hex bytes>, m, i<int>, d<hex>, optional prefix a<hex>,)
     D <trim> <comp> <path> [<first> <count>]     decode the messages of a BUFR file (all share the first one's template,
                                                  others are skipped), comp -1 = keep the message's compression
     P <hex double bits> <scale>                  bufr_print_scaled_value of a FLT64 value and strtod of the result:
                                                  "P <text hex> <strtod bits>"   (the printf/strtod contract probe)
     B <width> <hex value>                        bufr_print_binary / bufr_str_is_binary / bufr_binary_to_int
   output:
     "E rc=<0|-1 template|-2 values|-3 exit|-4 abort> k=<k> trim=<t> text=<hex of the dump file> g=<hex of genmsgs output|-> gl=<rc of bufr_load_dataset> h0=<header of a fresh dataset> ;
        M<i> a=<hex|-> lrc=<rc of bufr_read_dataset_dump> b=<hex|-> hdr=<edition,15 section 1 ints,data_flag,header string hex|-|e of the loaded dataset> ohdr=<same of the original> ; O<i>.<s> item.. ; L<i>.<s> item.. ..."
     item: <desc>/<flags hex>/<type>/<nbits>/<scale>/<ref>/<afn>:<afbits hex|->/<value>[=<raw hex>]/<s_descriptor>/<meta text hex|->
*/
#include "hcommon.h"
#include <math.h>
#include <unistd.h>
uint64_t verif_value2bits(BufrDescriptor *bd);   /* wrap_dataset.c */

static BUFR_Tables *tables = NULL;
static jmp_buf exit_jmp; static int exit_armed = 0; static int exit_called = 0;
void __real_exit(int);
void __wrap_exit(int code){ if(exit_armed){ exit_called = 1; longjmp(exit_jmp, 1);} __real_exit(code); }

#define GUARD_BEGIN  h_aborted=0; h_abort_armed=1; exit_called=0; exit_armed=1; if(setjmp(h_abort_jmp)==0 && setjmp(exit_jmp)==0){
#define GUARD_ELSE   } else {
#define GUARD_END    } h_abort_armed=0; exit_armed=0;

static void load_tables(const char *lb, const char *ld){
  char env[4096];
  if(tables) bufr_free_tables(tables);
  snprintf(env, sizeof env, "BUFR_TABLES=%s/Tables/", VERIF_REPO_DIR);
  putenv(strdup(env));
  tables = bufr_create_tables();
  bufr_load_cmc_tables(tables);
  if(lb && lb[0] && strcmp(lb,"-")) bufr_load_l_tableB(tables, lb);
  if(ld && ld[0] && strcmp(ld,"-")) bufr_load_l_tableD(tables, ld);
}

static void print_item(BufrDescriptor *b){
  printf(" %06d/%x/%d/%d/%d/%d/", b->descriptor, (unsigned)b->flags, (int)b->encoding.type, b->encoding.nbits, b->encoding.scale, b->encoding.reference);
  if(b->value && b->value->af) printf("%d:%llx/", (int)b->value->af->nbits, (unsigned long long)b->value->af->bits); else printf("%d:-/", (int)b->encoding.af_nbits);
  if(!b->value){ printf("-"); }
  else {
    switch(b->value->type){
      case VALTYPE_INT8: case VALTYPE_INT32: printf("i%d", bufr_value_get_int32(b->value)); break;
      case VALTYPE_INT64: printf("l%lld", (long long)bufr_value_get_int64(b->value)); break;
      case VALTYPE_FLT32: { float f = bufr_value_get_float(b->value); uint32_t u; memcpy(&u,&f,4); if(bufr_is_missing_float(f)) printf("fM"); else printf("f%08x", u); break; }
      case VALTYPE_FLT64: { double d = bufr_value_get_double(b->value); uint64_t u; memcpy(&u,&d,8); if(bufr_is_missing_double(d)) printf("dM"); else printf("d%016llx", (unsigned long long)u); break; }
      case VALTYPE_STRING: { int len=0; const char *s = bufr_value_get_string(b->value,&len); printf("s"); if(s) puthex(stdout,(const unsigned char*)s,len); else printf("NULL"); break; }
      default: printf("?"); break;
    }
    if(!(b->flags & FLAG_SKIPPED)){
      switch(b->encoding.type){
        case TYPE_NUMERIC: case TYPE_CODETABLE: case TYPE_FLAGTABLE: case TYPE_CHNG_REF_VAL_OP:
          if(b->encoding.nbits > 0 && b->encoding.nbits <= 64){
            exit_called = 0; exit_armed = 1;
            if(setjmp(exit_jmp)==0){ uint64_t r = verif_value2bits(b); printf("=%llx", (unsigned long long)r); } else printf("=EXIT");
            exit_armed = 0;
          }
          break;
        default: break;
      }
    }
  }
  printf("/%d/", b->s_descriptor);
  if(b->meta){ static char mb[8192]; mb[0]=0; bufr_print_rtmd_data(mb, b->meta); if(mb[0]) puthex(stdout,(unsigned char*)mb,strlen(mb)); else printf("-"); }
  else printf("-");
}

static void list_dataset(BUFR_Dataset *d, const char *tag, int idx){
  int s, n = bufr_count_datasubset(d);
  for(s=0;s<n;s++){
    DataSubset *ss = bufr_get_datasubset(d,s);
    int c = bufr_datasubset_count_descriptor(ss), j;
    printf(" ; %s%d.%d", tag, idx, s);
    for(j=0;j<c;j++) print_item(bufr_datasubset_get_descriptor(ss,j));
  }
}

static BUFR_Template* mk_template(int ed, int n, int *descs){
  BufrDescValue *dv = (BufrDescValue*)calloc(n>0?n:1, sizeof *dv); int i;
  for(i=0;i<n;i++){ bufr_init_DescValue(&dv[i]); dv[i].descriptor = descs[i]; }
  BUFR_Template *t = NULL;
  GUARD_BEGIN t = bufr_create_template(dv, n, tables, ed); GUARD_ELSE t = NULL; GUARD_END
  free(dv);
  return t;
}

/* set one value from a token; returns 0 ok (copied from codec.c) */
static int set_token(BufrDescriptor *b, char *tok){
  if(tok[0]=='a'){ char *e; unsigned long long af = strtoull(tok+1,&e,16); if(b->value==NULL) b->value = bufr_mkval_for_descriptor(b);
     if(b->value && b->value->af) b->value->af->bits = af; tok = e; if(*tok==',') tok++; }
  switch(tok[0]){
    case 'i': return bufr_descriptor_set_ivalue(b, atoi(tok+1)) < 0 ? -1 : 0;
    case 'd': { uint64_t u = strtoull(tok+1,NULL,16); double d; memcpy(&d,&u,8); return bufr_descriptor_set_dvalue(b,d) < 0 ? -1 : 0; }
    case 'f': { uint32_t u = (uint32_t)strtoul(tok+1,NULL,16); float f; memcpy(&f,&u,4); return bufr_descriptor_set_fvalue(b,f) < 0 ? -1 : 0; }
    case 's': { static unsigned char buf[1<<16]; int n = unhex(tok+1, buf); buf[n]=0; return bufr_descriptor_set_svalue(b,(char*)buf) < 0 ? -1 : 0; }
    case 'm': if(b->value==NULL) b->value = bufr_mkval_for_descriptor(b); return 0;
    case 'r': {
      uint64_t raw = strtoull(tok+1,NULL,16);
      int w = b->encoding.nbits; uint64_t ones = (w>=64)? ~0ULL : ((1ULL<<w)-1);
      if(b->value==NULL) b->value = bufr_mkval_for_descriptor(b);
      if(b->value==NULL) return -1;
      switch(b->encoding.type){
        case TYPE_NUMERIC: {
          if(raw==ones && !(b->flags & FLAG_CLASS31)) return 0;
          int64_t iv = (int64_t)raw + (int64_t)b->encoding.reference;
          if(b->value->type==VALTYPE_INT32 || b->value->type==VALTYPE_INT8) return bufr_descriptor_set_ivalue(b,(int)iv) < 0 ? -1 : 0;
          if(b->value->type==VALTYPE_INT64) return bufr_value_set_int64(b->value, iv) < 0 ? -1 : 0;
          { int sc = b->encoding.scale; double d = (double)iv;
            if(sc>0) d = d / pow(10.0, (double)sc); else if(sc<0) d = d * pow(10.0, (double)(-sc));
            if(b->value->type==VALTYPE_FLT32) return bufr_descriptor_set_fvalue(b,(float)d) < 0 ? -1 : 0;
            return bufr_descriptor_set_dvalue(b,d) < 0 ? -1 : 0; } }
        case TYPE_CODETABLE: case TYPE_FLAGTABLE:
          if(raw==ones && !(b->flags & FLAG_CLASS31)) return 0;
          if(b->value->type==VALTYPE_INT64) return bufr_value_set_int64(b->value,(int64_t)raw) < 0 ? -1 : 0;
          return bufr_descriptor_set_ivalue(b,(int)raw) < 0 ? -1 : 0;
        case TYPE_CHNG_REF_VAL_OP: { uint64_t half = 1ULL<<(w-1); int v = raw>=half ? -(int)(raw-half) : (int)raw; return bufr_descriptor_set_ivalue(b,v) < 0 ? -1 : 0; }
        default: return -1;
      }
    }
    default: return -1;
  }
}

static int has_data(BufrDescriptor *b){
  if(b->flags & FLAG_SKIPPED) return 0;
  switch(b->encoding.type){
    case TYPE_NUMERIC: case TYPE_CODETABLE: case TYPE_FLAGTABLE: case TYPE_CHNG_REF_VAL_OP: case TYPE_CCITT_IA5: case TYPE_IEEE_FP: return 1;
    default: return 0;
  }
}

static int fill_subset(BUFR_Dataset *dts, int pos, char **toks, int ntok){
  int k = 0, j = 0;
  for(;;){
    DataSubset *ss = bufr_get_datasubset(dts,pos);
    int c = bufr_datasubset_count_descriptor(ss);
    if(j >= c) break;
    BufrDescriptor *b = bufr_datasubset_get_descriptor(ss,j);
    if(has_data(b)){
      if(k >= ntok) return -2;
      if(set_token(b, toks[k++])) return -2;
      if((b->flags & FLAG_CLASS31) && !(b->flags & FLAG_EXPANDED)) bufr_expand_datasubset(dts,pos);
    }
    j++;
  }
  return (k == ntok) ? 0 : -2;
}

static char msgbuf[1<<22];
#define MAXK 64
static char scratch_txt[512], scratch_out[512];

static void print_hdr(BUFR_Dataset *d){
  printf("%d,%d,%d,%d,%d,%d,%d,%d,%d,%d,%d,%d,%d,%d,%d,%d,%d,", d->tmplte->edition, (int)d->s1.bufr_master_table, (int)d->s1.orig_centre, (int)d->s1.orig_sub_centre, (int)d->s1.upd_seq_no,
    (int)d->s1.msg_type, (int)d->s1.msg_inter_subtype, (int)d->s1.msg_local_subtype, (int)d->s1.master_table_version, (int)d->s1.local_table_version,
    (int)d->s1.year, (int)d->s1.month, (int)d->s1.day, (int)d->s1.hour, (int)d->s1.minute, (int)d->s1.second, d->data_flag);
  if(!d->header_string) printf("-"); else if(!d->header_string[0]) printf("e"); else puthex(stdout,(unsigned char*)d->header_string,strlen(d->header_string));
}

static void print_file_hex(const char *path){
  FILE *f = fopen(path,"rb"); int c;
  if(!f){ printf("-"); return; }
  while((c=fgetc(f))!=EOF) printf("%02x", c);
  fclose(f);
}

/* encode -> hex (or "-") */
static int encode_print(BUFR_Dataset *d, int comp){
  BUFR_Message *m = NULL; int rc = 0;
  GUARD_BEGIN m = bufr_encode_message(d, comp); GUARD_ELSE rc = exit_called ? -3 : -4; GUARD_END
  if(rc || !m){ printf("-"); return rc?rc:-5; }
  ssize_t len = bufr_memwrite_message(msgbuf, sizeof msgbuf, m);
  if(len<=0) printf("-"); else puthex(stdout,(unsigned char*)msgbuf,len);
  bufr_free_message(m);
  return 0;
}

/* the common tail: datasets ds[0..k-1] (all of template tmplt) -> dump, load, encode, list */
static void roundtrip(const char *cmd, BUFR_Template *tmplt, BUFR_Dataset **ds, int k, int comp, int trim){
  int i;
  bufr_set_trimzero(trim);
  FILE *fp = fopen(scratch_txt, "w");
  for(i=0;i<k;i++){ GUARD_BEGIN bufr_fdump_dataset(ds[i], fp); GUARD_ELSE GUARD_END }
  fclose(fp);
  printf("%s rc=0 k=%d trim=%d text=", cmd, k, trim);
  print_file_hex(scratch_txt);
  /* the utility's own path */
  { int grc = -9; unlink(scratch_out);
    GUARD_BEGIN grc = bufr_genmsgs_from_dump(tmplt, scratch_txt, scratch_out, comp); GUARD_ELSE grc = exit_called ? -3 : -4; GUARD_END
    printf(" grc=%d g=", grc); if(grc > 0) print_file_hex(scratch_out); else printf("-"); }
  { BUFR_Dataset *l1 = bufr_create_dataset(tmplt); int lr = -9;
    GUARD_BEGIN lr = bufr_load_dataset(l1, scratch_txt); GUARD_ELSE lr = exit_called ? -3 : -4; GUARD_END
    printf(" gl=%d", lr); if(lr > -3) bufr_free_dataset(l1); }
  /* one by one, as bufr_genmsgs_from_dump does */
  BUFR_Dataset *ld = bufr_create_dataset(tmplt);
  ld->s1.year = ld->s1.month = ld->s1.day = ld->s1.hour = ld->s1.minute = ld->s1.second = 0;   /* creation time: overwritten by the header lines; zeroed to keep the output deterministic */
  printf(" h0="); print_hdr(ld);
  fp = fopen(scratch_txt, "rb");
  static BUFR_Dataset *keep[MAXK]; int nk = 0;
  for(i=0;i<k;i++){
    printf(" ; M%d a=", i);
    encode_print(ds[i], comp);
    int lrc = -9;
    GUARD_BEGIN lrc = bufr_read_dataset_dump(ld, fp); GUARD_ELSE lrc = exit_called ? -3 : -4; GUARD_END
    printf(" lrc=%d b=", lrc);
    if(lrc > 0) encode_print(ld, comp); else printf("-");
    printf(" hdr="); print_hdr(ld);
    printf(" ohdr="); print_hdr(ds[i]);
    list_dataset(ds[i], "O", i);
    if(lrc > 0) list_dataset(ld, "L", i);
    if(lrc <= -3) break;
  }
  { /* anything left in the file? a further read must report nothing */
    int more = -9;
    if(i==k){ GUARD_BEGIN more = bufr_read_dataset_dump(ld, fp); GUARD_ELSE more = -3; GUARD_END }
    printf(" ; END more=%d", more);
  }
  fclose(fp);
  bufr_free_dataset(ld);
  printf("\n");
  (void)keep; (void)nk;
}

static void do_E(char **save){
  int trim = atoi(strtok_r(NULL," ",save)), comp = atoi(strtok_r(NULL," ",save));
  int ed = atoi(strtok_r(NULL," ",save)), n = atoi(strtok_r(NULL," ",save)), i;
  int *descs = (int*)calloc(n>0?n:1, sizeof(int));
  for(i=0;i<n;i++) descs[i] = atoi(strtok_r(NULL," ",save));
  int k = atoi(strtok_r(NULL," ",save));
  BUFR_Template *t = mk_template(ed,n,descs);
  free(descs);
  if(!t){ printf("E rc=-1\n"); return; }
  if(k > MAXK) k = MAXK;
  BUFR_Dataset *ds[MAXK]; int nd = 0, rc = 0, di;
  for(di=0; di<k && rc==0; di++){
    char *hdr = strtok_r(NULL," ",save);
    int nsub = atoi(strtok_r(NULL," ",save));
    BUFR_Dataset *dts = bufr_create_dataset(t);
    ds[nd++] = dts;
    dts->s1.year=2020; dts->s1.month=1; dts->s1.day=2; dts->s1.hour=3; dts->s1.minute=4; dts->s1.second=5;
    if(hdr && strcmp(hdr,"-")){
      int v[15], c = 0; char *p = hdr;
      while(c<15 && *p){ v[c++] = (int)strtol(p,&p,10); if(*p==',') p++; }
      if(c==15){ dts->s1.bufr_master_table=v[0]; dts->s1.orig_centre=v[1]; dts->s1.orig_sub_centre=v[2]; dts->s1.upd_seq_no=v[3]; dts->s1.msg_type=v[4];
        dts->s1.msg_inter_subtype=v[5]; dts->s1.msg_local_subtype=v[6]; dts->s1.master_table_version=v[7]; dts->s1.local_table_version=v[8];
        dts->s1.year=v[9]; dts->s1.month=v[10]; dts->s1.day=v[11]; dts->s1.hour=v[12]; dts->s1.minute=v[13]; dts->s1.second=v[14]; }
    }
    int s;
    for(s=0;s<nsub && rc==0;s++){
      static char *toks[200000]; int nt=0; char *tk;
      while((tk=strtok_r(NULL," ",save)) && strcmp(tk,"|")) { if(nt<200000) toks[nt++]=tk; }
      GUARD_BEGIN
        int pos = bufr_create_datasubset(dts);
        rc = fill_subset(dts,pos,toks,nt);
      GUARD_ELSE rc = exit_called ? -3 : -4; GUARD_END
    }
  }
  if(rc){ printf("E rc=%d\n", rc); if(rc > -3) for(i=0;i<nd;i++) bufr_free_dataset(ds[i]); bufr_free_template(t); return; }
  roundtrip("E", t, ds, nd, comp, trim);
  for(i=0;i<nd;i++) bufr_free_dataset(ds[i]);
  bufr_free_template(t);
}

static int same_template(BUFR_Template *a, BUFR_Template *b){
  if(a->edition != b->edition) return 0;
  int n = arr_count(a->codets), i;
  if(n != arr_count(b->codets)) return 0;
  for(i=0;i<n;i++){
    BufrDescValue *x = (BufrDescValue*)arr_get(a->codets,i), *y = (BufrDescValue*)arr_get(b->codets,i);
    if(x->descriptor != y->descriptor) return 0;
  }
  return 1;
}

static void do_D(char **save){
  int trim = atoi(strtok_r(NULL," ",save)), comp = atoi(strtok_r(NULL," ",save));
  char *path = strtok_r(NULL," ",save); char *a = strtok_r(NULL," ",save), *b = strtok_r(NULL," ",save);
  int first = a ? atoi(a) : 0, count = b ? atoi(b) : MAXK;
  FILE *fp = fopen(path,"rb");
  if(!fp){ printf("D rc=-1 nofile\n"); return; }
  BUFR_Dataset *ds[MAXK]; int nd = 0, idx = 0, nskip = 0, rc = 0;
  BUFR_Message *m = NULL;
  if(count > MAXK) count = MAXK;
  for(;;){
    int r = 0; m = NULL;
    GUARD_BEGIN r = bufr_read_message(fp, &m); GUARD_ELSE r = -3; rc = -3; GUARD_END
    if(r <= 0 || !m) break;
    if(idx++ < first){ bufr_free_message(m); continue; }
    BUFR_Dataset *d = NULL;
    GUARD_BEGIN d = bufr_decode_message(m, tables); GUARD_ELSE d = NULL; rc = exit_called ? -3 : -4; GUARD_END
    if(rc) break;
    bufr_free_message(m);
    if(!d){ nskip++; continue; }
    if(nd > 0 && !same_template(bufr_get_dataset_template(ds[0]), bufr_get_dataset_template(d))){ bufr_free_dataset(d); nskip++; continue; }
    ds[nd++] = d;
    if(nd >= count) break;
  }
  fclose(fp);
  if(rc || nd==0){ printf("D rc=%d nd=%d skipped=%d\n", rc?rc:-2, nd, nskip); return; }
  BUFR_Template *t = bufr_copy_template(bufr_get_dataset_template(ds[0]));
  roundtrip("D", t, ds, nd, comp, trim);
  { int i; for(i=0;i<nd;i++) bufr_free_dataset(ds[i]); }
  bufr_free_template(t);
}

static void do_P(char **save){
  char *hx = strtok_r(NULL," ",save); int scale = atoi(strtok_r(NULL," ",save));
  uint64_t u = strtoull(hx,NULL,16); double d; memcpy(&d,&u,8);
  BufrValue *v = bufr_create_value(VALTYPE_FLT64);
  bufr_value_set_double(v, d);
  static char out[4096]; out[0]=0;
  bufr_print_scaled_value(out, v, scale);
  double back = strtod(out, NULL); uint64_t ub; memcpy(&ub,&back,8);
  printf("P "); puthex(stdout,(unsigned char*)out,strlen(out)); printf(" %016llx\n", (unsigned long long)ub);
  bufr_free_value(v);
}

static void do_B(char **save){
  int w = atoi(strtok_r(NULL," ",save)); uint64_t v = strtoull(strtok_r(NULL," ",save),NULL,16);
  static char out[4096]; out[0]=0;
  bufr_print_binary(out, (int64_t)v, w);
  int isb = bufr_str_is_binary(out);
  int64_t back = bufr_binary_to_int(out);
  printf("B %s %d %llx\n", out[0]?out:"-", isb, (unsigned long long)back);
}

int main(void){
  char *line;
  bufr_begin_api();
  bufr_set_abort(h_abort_handler);
  load_tables(NULL,NULL);
  { const char *tmp = getenv("VERIF_C13_TMP"); if(!tmp) tmp = "/tmp";
    snprintf(scratch_txt, sizeof scratch_txt, "%s/c13_%d.dump", tmp, (int)getpid());
    snprintf(scratch_out, sizeof scratch_out, "%s/c13_%d.bufr", tmp, (int)getpid()); }
  while((line=h_getline())){
    char *save=NULL; char *tok=strtok_r(line," ",&save);
    if(!tok) { printf("\n"); continue; }
    if(!strcmp(tok,"TABLES")){ char *a=strtok_r(NULL," ",&save), *b=strtok_r(NULL," ",&save); load_tables(a,b); printf("TABLES ok\n"); }
    else if(!strcmp(tok,"E")) do_E(&save);
    else if(!strcmp(tok,"D")) do_D(&save);
    else if(!strcmp(tok,"P")) do_P(&save);
    else if(!strcmp(tok,"B")) do_B(&save);
    else printf("?\n");
    fflush(stdout);
  }
  unlink(scratch_txt); unlink(scratch_out);
  return 0;
}
