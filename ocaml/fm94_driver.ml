(* fm94_driver.ml — runs the extracted FM 94 reference codec (Fm94.v).
   Protocol (stdin, one command per line):
     TB <desc> <kind 0..3> <scale> <ref> <width>      TD <desc> <d1> ...     TCLEAR
     ENC <ed> <comp> <pickseed> <n> <desc>.. <nsub> {tok.. |}..   tok = [a<hex>,]r<hex> | [a<hex>,]s<hexbytes>
         -> "ENC ok <nbits> <hex octets>" | "ENC err <e>"
     DEC <ed> <comp> <nsub> <n> <desc>.. <hex octets>
         -> "DEC ok ; S0 <item>.. ; S1 .."   item = desc/kind/width/scale/ref/afw:af/r<hex>|s<hex>     | "DEC err <e>"
     LAY <ed> <n> <desc>.. {tok..}        -> "LAY ok <item>.." | "LAY err <e>"  *)
let tb : (z * bent) list ref = ref []
let td : (z * z list) list ref = ref []
let fuel = nat_of_int 200000
let bigfuel = nat_of_int 400000
let smallfuel = nat_of_int 3000
let tables () = { tB = List.rev !tb; tD = List.rev !td }
let kind_of_int = function 0 -> UNum | 1 -> UCode | 2 -> UFlag | _ -> UStr
let err_s = function OutOfFuel -> "OutOfFuel" | Reject -> "Reject" | TypeErr -> "TypeErr" | NotCompressible -> "NotCompressible"
let parse_tok (t : string) : datum =
  let af, rest =
    if t.[0] = 'a' then
      let i = String.index t ',' in (n_of_hex (String.sub t 1 (i - 1)), String.sub t (i + 1) (String.length t - i - 1))
    else (N0, t) in
  let body = String.sub rest 1 (String.length rest - 1) in
  match rest.[0] with
  | 'r' -> { d_af = af; d_val = VRaw (n_of_hex body) }
  | 's' -> { d_af = af; d_val = VStr (bytes_of_hex body) }
  | _ -> failwith ("tok " ^ t)
let rec take n l = if n = 0 then ([], l) else match l with [] -> failwith "take" | x :: t -> let (a, b) = take (n - 1) t in (x :: a, b)
let rec split_bar (l : string list) : string list list =
  match l with
  | [] -> []
  | _ -> let rec go acc = function [] -> (List.rev acc, []) | "|" :: t -> (List.rev acc, t) | x :: t -> go (x :: acc) t in
    let (a, rest) = go [] l in a :: split_bar rest
let kind_s = function FNum -> "num" | FCode -> "code" | FFlag -> "flag" | FStr -> "str" | FRefDef -> "refdef" | FChars -> "chars"
let item (f : field) (d : datum) =
  Printf.sprintf "%06d/%s/%d/%d/%d/%d:%s/%s" (int_of_z f.f_desc) (kind_s f.f_kind) (int_of_z f.f_width) (int_of_z f.f_scale) (int_of_z f.f_ref)
    (int_of_z f.f_afw) (hex_of_n d.d_af) (match d.d_val with VRaw n -> "r" ^ hex_of_n n | VStr s -> "s" ^ hex_of_bytes s)
(* a deterministic, seed-dependent policy of legal encoding freedoms *)
let pick seed (f : field) (col : datum list) : choice * choice =
  if seed = 0 then (choice0, (match col with { d_val = VStr _ } :: _ -> { c_r0off = n_of_int 255; c_extra = nat_of_int 0 } | _ -> choice0)) else begin
    let h = Hashtbl.hash (seed, int_of_z f.f_desc, List.length col, List.map (fun d -> match d.d_val with VRaw n -> hex_of_n n | VStr s -> hex_of_bytes s) col) in
    let cand k = { c_r0off = n_of_int ((h / 7 + k) mod 5 * ((h / 3) mod 3)); c_extra = nat_of_int ((h / 11 + k) mod 4) } in
    let ok_num w miss c vals = (match enc_numcol w miss c vals with Ok _ -> true | Err _ -> false) in
    let raws = List.filter_map (fun d -> match d.d_val with VRaw n -> Some n | _ -> None) col in
    let cv = if List.length raws = List.length col then (if ok_num f.f_width (Some (allones f.f_width)) (cand 0) raws then cand 0 else choice0)
             else { c_r0off = n_of_int (32 + h mod 64); c_extra = nat_of_int 0 } in
    let afs = List.map (fun d -> d.d_af) col in
    let ca = if int_of_z f.f_afw > 0 && ok_num f.f_afw None (cand 1) afs then cand 1 else choice0 in
    (ca, cv)
  end
let handle line =
  match split_ws line with
  | [] -> ()
  | "TCLEAR" :: _ -> tb := []; td := []; print_string "TCLEAR ok\n"
  | "TB" :: d :: k :: s :: r :: w :: _ ->
    tb := (z_of_string d, { b_kind = kind_of_int (int_of_string k); b_scale = z_of_string s; b_ref = z_of_string r; b_width = z_of_string w }) :: !tb
  | "TD" :: d :: seq -> td := (z_of_string d, List.map z_of_string seq) :: !td
  | "ENC" :: ed :: comp :: seed :: n :: rest ->
    let (ds, rest) = take (int_of_string n) rest in
    let tmpl = List.map z_of_string ds in
    (match rest with
     | _nsub :: toks ->
       let subsets = List.map (List.map parse_tok) (split_bar toks) in
       let r = if comp = "1" then enc_comp (tables ()) (z_of_string ed) (pick (int_of_string seed)) fuel tmpl subsets
               else enc_plain (tables ()) (z_of_string ed) fuel tmpl subsets in
       (match r with
        | Ok b -> Printf.printf "ENC ok %d %s\n" (List.length b) (hex_of_bytes (bits_to_bytes b))
        | Err e -> Printf.printf "ENC err %s\n" (err_s e))
     | [] -> failwith "ENC")
  | "DEC" :: ed :: comp :: nsub :: n :: rest ->
    let (ds, rest) = take (int_of_string n) rest in
    let tmpl = List.map z_of_string ds in
    let hx = (match rest with h :: _ -> h | [] -> "") in
    let bits = bytes_to_bits (bytes_of_hex hx) in
    let ns = nat_of_int (int_of_string nsub) in
    let r = if comp = "1" then dec_comp (tables ()) (z_of_string ed) fuel tmpl ns bits else dec_plain (tables ()) (z_of_string ed) fuel tmpl ns bits in
    (match r with
     | Err e -> Printf.printf "DEC err %s\n" (err_s e)
     | Ok (subsets, tl) ->
       let buf = Buffer.create 256 in
       Buffer.add_string buf (Printf.sprintf "DEC ok left=%d" (List.length tl));
       List.iteri (fun i s ->
         Buffer.add_string buf (Printf.sprintf " ; S%d" i);
         match layout (tables ()) (z_of_string ed) fuel tmpl s with
         | Ok fl -> List.iter (fun (f, d) -> Buffer.add_string buf (" " ^ item f d)) fl
         | Err e -> Buffer.add_string buf (" layout-err-" ^ err_s e)) subsets;
       print_string (Buffer.contents buf); print_newline ())
  | "DECR" :: ed :: comp :: nsub :: a :: b :: sublen :: n :: rest ->
    (* range decode: subsets a..b of nsub; sublen = bit length of one subset (uncompressed, fixed length) *)
    let (ds, rest) = take (int_of_string n) rest in
    let tmpl = List.map z_of_string ds in
    let hx = (match rest with h :: _ -> h | [] -> "") in
    let bits = bytes_to_bits (bytes_of_hex hx) in
    let ni x = nat_of_int (int_of_string x) in
    let r = if comp = "1" then dec_comp_range (tables ()) (z_of_string ed) fuel tmpl (ni nsub) (ni a) (ni b) bits
            else dec_plain_range (tables ()) (z_of_string ed) fuel tmpl (ni sublen) (ni a) (ni b) bits in
    (match r with
     | Err e -> Printf.printf "DECR err %s\n" (err_s e)
     | Ok (subsets, _) ->
       let buf = Buffer.create 256 in
       Buffer.add_string buf "DECR ok";
       List.iteri (fun i s ->
         Buffer.add_string buf (Printf.sprintf " ; S%d" i);
         List.iter (fun d -> Buffer.add_string buf (Printf.sprintf " %s:%s" (hex_of_n d.d_af) (match d.d_val with VRaw n -> "r" ^ hex_of_n n | VStr s -> "s" ^ hex_of_bytes s))) s) subsets;
       print_string (Buffer.contents buf); print_newline ())
  | "MERGE" :: nd :: dpos :: ns :: spos :: nb :: _ ->
    let ints k base = List.init k (fun i -> base + i) in
    let r = merge (-1) (ints (int_of_string nd) 100) (nat_of_int (int_of_string dpos)) (ints (int_of_string ns) 200) (nat_of_int (int_of_string spos)) (nat_of_int (int_of_string nb)) in
    Printf.printf "MERGE %s\n" (String.concat " " (List.map string_of_int r))
  | "SEXP" :: n :: rest ->
    let (ds, more) = take (int_of_string n) rest in
    let tmpl = List.map z_of_string ds in
    let fl = (match more with "big" :: _ -> bigfuel | _ -> smallfuel) in
    if not (well_nested tmpl) then print_string "SEXP err Reject wf=false accepts=false\n" else
    let acc = accepts fl (tables ()) tmpl in
    (match sexpand fl (tables ()) tmpl with
     | Ok l -> Printf.printf "SEXP ok wf=%b accepts=%b %s\n" (well_nested tmpl) acc (String.concat " " (List.map (fun d -> string_of_int (int_of_z d)) l))
     | Err e -> Printf.printf "SEXP err %s wf=%b\n" (err_s e) (well_nested tmpl))
  | "LAY" :: ed :: n :: rest ->
    let (ds, toks) = take (int_of_string n) rest in
    let tmpl = List.map z_of_string ds in
    (match layout (tables ()) (z_of_string ed) fuel tmpl (List.map parse_tok toks) with
     | Ok fl -> print_string "LAY ok"; List.iter (fun (f, d) -> print_string (" " ^ item f d)) fl; print_newline ()
     | Err e -> Printf.printf "LAY err %s\n" (err_s e))
  | _ -> failwith ("bad line: " ^ line)
let () = iter_lines (fun l -> handle l; flush stdout)
