(* c16_driver.ml — runs the ownership machine Own.v on an operation sequence (same syntax as harness/c16.c).
   Output per line: "LEGAL live=<n>" (number of live objects at the end) or "ILLEGAL at=<index of the first illegal op>" *)
let n = nat_of_int
let parse_op (s : string) : op option =
  let s = String.trim s in
  if s = "" then None else
  let after c = let i = String.index s c in String.sub s (i + 1) (String.length s - i - 1) in
  let ints str = List.map int_of_string (List.filter (fun x -> x <> "") (String.split_on_char ',' str)) in
  let lead k = let e = (try String.index s '=' with Not_found -> (try String.index s ':' with Not_found -> (try String.index s ',' with Not_found -> String.length s))) in
               int_of_string (String.sub s k (e - k)) in
  if String.length s >= 2 && s.[0] = 'T' && s.[1] = 'B' then Some (NewTables (n (int_of_string (String.sub s 2 (String.length s - 2)))))
  else match s.[0] with
  | 'T' -> (match ints (after '=') with tb :: _ -> Some (NewTemplate (n (lead 1), n tb)) | [] -> failwith s)
  | 'C' -> (match ints (after '=') with src :: _ -> Some (CopyTemplate (n (lead 1), n src)) | [] -> failwith s)
  | 'D' -> (match ints (after '=') with t :: _ -> Some (NewDataset (n (lead 1), n t)) | [] -> failwith s)
  | 'S' -> Some (AddSubset (n (lead 1)))
  | 'E' -> (match ints (after '=') with d :: _ -> Some (Encode (n (lead 1), n d)) | [] -> failwith s)
  | 'W' -> Some (Reread (n (int_of_string (String.sub s 1 (String.length s - 1)))))
  | 'X' -> (match ints (after '=') with m :: tb :: _ -> Some (Decode (n (lead 1), n m, n tb)) | _ -> failwith s)
  | 'G' -> (match ints (String.sub s 1 (String.length s - 1)) with dst :: _ :: src :: _ -> Some (Merge (n dst, n src)) | _ -> failwith s)
  | 'U' -> Some (Use (n (int_of_string (String.sub s 1 (String.length s - 1)))))
  | 'F' -> Some (Free (n (int_of_string (String.sub s 1 (String.length s - 1)))))
  | _ -> failwith ("op " ^ s)
let () = iter_lines (fun line ->
  let ops = List.filter_map parse_op (String.split_on_char ';' line) in
  let rec go hp i = function
    | [] -> Printf.printf "LEGAL live=%d\n" (List.length hp)
    | o :: r -> if legal hp o then go (step hp o) (i + 1) r else Printf.printf "ILLEGAL at=%d\n" i in
  go [] 0 ops)
