(* c20_driver.ml — runs the extracted model LocalTab.v on the C20 case protocol (see harness/c20.c).
   Input:  S <ed> <cat> <catdesc hex|-> <nB> {<desc> <name hex|-> <unit hex|-> <scale> <ref> <width>}.. <nD> {<desc> <n> <d>..}..
           T0                      (prints the master-table entries the model assumes, for comparison with /repo/Tables)
   Output: "S s3=<d,d,..> s4=<hex> rc=<0|-1|-3> [vt=<desc>:<value type>,..] [EXTR cat=<n> cdesc=<hex|-> nb=<n> {B <desc>:<name>:<unit>:<scale>:<ref>:<width>:<type>:<af>:<refnb>}.. nd=<n> {D <desc>:<d,d,..>}..]" *)
let str_of_hex (h : string) : n list = if h = "-" then [] else bytes_of_hex h
let hex_or_dash (l : n list) : string = if l = [] then "-" else hex_of_bytes l
let rec rtrim_blanks (l : n list) : n list =
  match List.rev l with
  | c :: t when int_of_n c = 32 -> rtrim_blanks (List.rev t)
  | _ -> l
let dump_tables (t : ltables) =
  let b = Buffer.create 4096 in
  Buffer.add_string b (Printf.sprintf " cat=%d cdesc=%s nb=%d" (int_of_z t.lt_cat) (hex_or_dash (rtrim_blanks t.lt_cdesc)) (List.length t.lt_B));
  List.iter (fun e ->
    Buffer.add_string b (Printf.sprintf " B %d:%s:%s:%d:%d:%d:%d:%d:%d" (int_of_z e.lb_desc) (hex_or_dash e.lb_name) (hex_or_dash e.lb_unit)
      (int_of_z e.lb_scale) (int_of_z e.lb_ref) (int_of_z e.lb_width) (int_of_z (kind_code e.lb_kind))
      (int_of_z (fst e.lb_aux)) (int_of_z (snd e.lb_aux)))) t.lt_B;
  Buffer.add_string b (Printf.sprintf " nd=%d" (List.length t.lt_D));
  List.iter (fun e ->
    Buffer.add_string b (Printf.sprintf " D %d:%s" (int_of_z e.ld_desc)
      (if e.ld_seq = [] then "-" else String.concat "," (List.map (fun d -> string_of_int (int_of_z d)) e.ld_seq)))) t.lt_D;
  Buffer.contents b
let rec take n l = if n = 0 then ([], l) else match l with [] -> failwith "take" | x :: t -> let (a, b) = take (n - 1) t in (x :: a, b)
let zs s = z_of_int (int_of_string s)
let parse_tables (toks : string list) : ltables =
  match toks with
  | cat :: cd :: nb :: rest ->
    let nb = int_of_string nb in
    let rec rd_b k l acc = if k = 0 then (List.rev acc, l) else
      match l with
      | d :: nm :: un :: sc :: rf :: w :: t ->
        let u = str_of_hex un in
        rd_b (k - 1) t ({ lb_desc = zs d; lb_name = str_of_hex nm; lb_unit = u; lb_scale = zs sc; lb_ref = zs rf; lb_width = zs w;
                          lb_kind = unit_kind u; lb_aux = (Z0, Z0) } :: acc)
      | _ -> failwith "B entry" in
    let (bs, rest) = rd_b nb rest [] in
    (match rest with
     | nd :: rest ->
       let rec rd_d k l acc = if k = 0 then (List.rev acc, l) else
         match l with
         | d :: n :: t -> let (ds, t2) = take (int_of_string n) t in rd_d (k - 1) t2 ({ ld_desc = zs d; ld_seq = List.map zs ds } :: acc)
         | _ -> failwith "D entry" in
       let (ds, _) = rd_d (int_of_string nd) rest [] in
       let c = int_of_string cat in
       { lt_cat = z_of_int (if c >= 0 && c < 256 then c else 0); lt_cdesc = cat_desc64 (str_of_hex cd); lt_B = bs; lt_D = ds }
     | _ -> failwith "nD")
  | _ -> failwith "tabspec"
let do_s toks =
  match toks with
  | ed :: rest ->
    let t = parse_tables rest in
    (match store t with
     | None -> print_string "S rc=-1\n"
     | Some (s3, fl) ->
       let bytes = fields_bytes fl in
       (* the octets through the model of bufr_putbits/bufr_putstring (quadratic in this list-based model: small tables only) *)
       let bitio_ok = if List.length bytes > 4000 then true else (match store_bytes fl with Some b -> b = bytes | None -> false) in
       (match bitio_ok with
        | false -> print_string "S rc=-5\n"
        | true ->
          Printf.printf "S s3=%s s4=%s" (String.concat "," (List.map (fun d -> string_of_int (int_of_z d)) s3)) (hex_of_bytes bytes);
          (match decode_elements (zs ed) s3 bytes with
           | None -> print_string " rc=-3\n"
           | Some els ->
             (* vt: the value type bufr_encoding_to_valtype gives each original entry (0 int32, 1 int64, 2 double, 3 string) *)
             Printf.printf " rc=0 vt=%s EXTR%s\n"
               (if t.lt_B = [] then "-" else String.concat "," (List.map (fun e -> Printf.sprintf "%d:%d" (int_of_z e.lb_desc) (int_of_z (vtype_code (entry_valtype e)))) t.lt_B))
               (dump_tables (extract (Z0, Z0) els)))))
  | _ -> failwith "S"
let do_t0 () =
  let b = Buffer.create 256 in
  List.iter (fun (d, e) -> Buffer.add_string b (Printf.sprintf " B %d:%d:%d:%d:%d" (int_of_z d)
    (match e.b_kind with UNum -> 0 | UCode -> 1 | UFlag -> 2 | UStr -> 3) (int_of_z e.b_scale) (int_of_z e.b_ref) (int_of_z e.b_width))) t0.tB;
  List.iter (fun (d, s) -> Buffer.add_string b (Printf.sprintf " D %d:%s" (int_of_z d) (String.concat "," (List.map (fun x -> string_of_int (int_of_z x)) s)))) t0.tD;
  print_string ("T0" ^ Buffer.contents b ^ "\n")
let () = iter_lines (fun line ->
  match split_ws line with
  | "S" :: t -> do_s t
  | "T0" :: _ -> do_t0 ()
  | [] -> print_newline ()
  | _ -> print_string "?\n")
