(* c08_driver.ml — runs the extracted scaling model (ScalImpl.v / ScalSpec.v) on the C08 case protocol (see harness/c08.c).
   Extra input line "T k bits": use this bit pattern as pow(10.0,k) (the value libm returned on this machine) instead of
   the correctly rounded pow10_rn k; produces no output.  Extra input line "V a b": select the mirrored variant of the code
   (a = fx_neg, b = fx_f32, optional c = fx_f32n, 0/1; see ScalImpl.v); produces no output.  R lines print a fifth token: quantQ of the decoded double. *)
let pos_of_int (i : int) : positive = match n_of_int i with Npos p -> p | N0 -> failwith "pos_of_int"
let int_of_pos (p : positive) : int = int_of_n (Npos p)
let big_of_dec (s : string) : z =            (* decimal, any size *)
  let neg = String.length s > 0 && s.[0] = '-' in
  let ten = z_of_int 10 in
  let acc = ref Z0 in
  String.iteri (fun i c -> if not (i = 0 && neg) then acc := Z.add (Z.mul !acc ten) (z_of_int (Char.code c - 48))) s;
  if neg then Z.opp !acc else !acc
let hex_of_z (x : z) : string = match x with Z0 -> "0" | Zpos p -> hex_of_n (Npos p) | Zneg p -> "-" ^ hex_of_n (Npos p)
let rec dec_of_z (x : z) : string =
  match x with
  | Z0 -> "0"
  | Zneg p -> "-" ^ dec_of_z (Zpos p)
  | Zpos _ ->
    let ten = z_of_int 10 in
    let buf = Buffer.create 24 in
    let rec go v = if v = Z0 then () else begin go (Z.div v ten); Buffer.add_char buf (Char.chr (48 + int_of_z (Z.modulo v ten))) end in
    go x; Buffer.contents buf
(* IEEE bit patterns <-> binary_float (the proofs of boundedness are erased by extraction) *)
let float_of_fields (ebits : int) (fbits : int) (sign : bool) (e : int) (f : int) : binary_float =
  let emaxf = (1 lsl ebits) - 1 in
  let bias = (1 lsl (ebits - 1)) - 1 in
  if e = emaxf then (if f = 0 then B754_infinity sign else B754_nan)
  else if e = 0 then (if f = 0 then B754_zero sign else B754_finite (sign, pos_of_int f, z_of_int (1 - bias - fbits)))
  else B754_finite (sign, pos_of_int (f lor (1 lsl fbits)), z_of_int (e - bias - fbits))
let fields_of_float (ebits : int) (fbits : int) (x : binary_float) : bool * int * int =
  let emaxf = (1 lsl ebits) - 1 in
  let bias = (1 lsl (ebits - 1)) - 1 in
  match x with
  | B754_zero s -> (s, 0, 0)
  | B754_infinity s -> (s, emaxf, 0)
  | B754_nan -> (false, emaxf, 1 lsl (fbits - 1))
  | B754_finite (s, m, e) ->
    let m = int_of_pos m and e = int_of_z e in
    if m >= (1 lsl fbits) then (s, e + bias + fbits, m - (1 lsl fbits)) else (s, 0, m)
let d_of_hex (h : string) : binary_float =
  let h = String.make (16 - String.length h) '0' ^ h in
  let top = int_of_string ("0x" ^ String.sub h 0 3) and f = int_of_string ("0x" ^ String.sub h 3 13) in
  float_of_fields 11 52 (top land 0x800 <> 0) (top land 0x7ff) f
let hex_of_d (x : binary_float) : string =
  let (s, e, f) = fields_of_float 11 52 x in
  Printf.sprintf "%03x%013x" ((if s then 0x800 else 0) lor e) f
let f_of_hex (h : string) : binary_float =
  let v = int_of_string ("0x" ^ h) in
  float_of_fields 8 23 (v land 0x80000000 <> 0) ((v lsr 23) land 0xff) (v land 0x7fffff)
let hex_of_f (x : binary_float) : string =
  let (s, e, f) = fields_of_float 8 23 x in
  Printf.sprintf "%08x" ((if s then 0x80000000 else 0) lor (e lsl 23) lor f)
let fx_neg = ref false
let fx_f32 = ref false
let fx_f32n = ref false
let powtab : (int, binary_float) Hashtbl.t = Hashtbl.create 64
let pow10 (k : z) : binary_float =
  match Hashtbl.find_opt powtab (int_of_z k) with Some v -> v | None -> let v = pow10_rn k in Hashtbl.replace powtab (int_of_z k) v; v
let enc_of toks =
  match toks with
  | s :: r :: w :: d :: rest -> ({ e_scale = z_of_int (int_of_string s); e_ref = big_of_dec r; e_nbits = z_of_int (int_of_string w) }, z_of_int (int_of_string d), rest)
  | _ -> failwith "enc"
let () = iter_lines (fun line ->
  match split_ws line with
  | [] -> ()
  | "T" :: k :: bits :: _ -> Hashtbl.replace powtab (int_of_string k) (d_of_hex bits)
  | "V" :: a :: b :: rest -> fx_neg := (a = "1"); fx_f32 := (b = "1"); fx_f32n := (match rest with c :: _ -> c = "1" | [] -> false)
  | "P" :: k :: _ -> print_endline (hex_of_d (pow10 (z_of_int (int_of_string k))))
  | "M" :: n :: _ -> print_endline (hex_of_z (missing_ivalue (z_of_int (int_of_string n))))
  | "N" :: v :: _ -> print_endline (dec_of_z (value_nbits (big_of_dec v)))
  | "C" :: v :: n :: _ -> print_endline (dec_of_z (cvt_ivalue (z_of_string ("0x" ^ v)) (z_of_int (int_of_string n))))
  | "G" :: v :: n :: _ -> print_endline (hex_of_z (negative_ivalue (big_of_dec v) (z_of_int (int_of_string n))))
  | "R" :: t ->
    let (en, desc, rest) = enc_of t in
    let i = big_of_dec (List.hd rest) in
    let d = cvt_i64_to_dval pow10 !fx_neg en i in
    let j = cvt_dval_to_i64 pow10 !fx_neg desc en d in
    let f = cvt_i32_to_fval pow10 !fx_f32 !fx_f32n en i in
    let k = cvt_fval_to_i32 pow10 !fx_f32 !fx_f32n desc en f in
    let qd = if is_missing_double d then "m" else dec_of_z (quantQ en.e_scale en.e_ref en.e_nbits (b2Q (z_of_int 53) (z_of_int 1024) d)) in
    Printf.printf "%s %s %s %s %s\n" (hex_of_d d) (hex_of_z j) (hex_of_f f) (hex_of_z k) qd
  | "D" :: t ->
    let (en, desc, rest) = enc_of t in
    print_endline (hex_of_z (cvt_dval_to_i64 pow10 !fx_neg desc en (d_of_hex (List.hd rest))))
  | "F" :: t ->
    let (en, desc, rest) = enc_of t in
    print_endline (hex_of_z (cvt_fval_to_i32 pow10 !fx_f32 !fx_f32n desc en (f_of_hex (List.hd rest))))
  | "X" :: t ->
    let (en, desc, rest) = enc_of t in
    let v = d_of_hex (List.hd rest) in
    let (mn, mx) = get_range pow10 !fx_neg desc en in
    let st = set_dvalue_stored pow10 !fx_neg desc en v in
    let rt = if is_missing_double v then 1 else if is_missing_double st then -1 else 1 in
    Printf.printf "%s %s %d %s\n" (hex_of_d mn) (hex_of_d mx) rt (hex_of_d st)
  | _ -> print_endline "?")
