(* c12_driver.ml — runs the extracted Tables model on the C12 protocol (see harness/c12.c).
   Extra lines understood by the model side only (they print nothing):
     FLAGS <cache> <merge> <own>        0/1: which proposed repairs the model applies from here on
     DEFB <name> <version> k,kind,scale,ref,width ...      a Table B file as the independent reader parsed it (kind 0..3)
     DEFD <name> k:d1,d2,... ...                           a Table D file
     H <operation> ...                  a history: the same text the C harness reads, prefixed with H
   File names are looked up among the DEFB/DEFD names (a name can be defined again)
   ("csv=" prefix / CSVB / CSVD: the loader that leaves the version alone).  Output: one token per operation,
   B:<d>:<type>:<scale>:<ref>:<width> | B:ABSENT | D:<d>:<seq> | D:ABSENT | M:<d> | M:ABSENT | rc=<n> | merged | V:m:l |
   U:<index>:<version> | U:NONE | CRASH (a freed entry is read: the run stops there). *)
let fx = ref current_code
let fb : (string, z * ent list) Hashtbl.t = Hashtbl.create 64
let fd : (string, dent list) Hashtbl.t = Hashtbl.create 64
let zi s = z_of_int (int_of_string s)
let kind_of = function 0 -> UNum | 1 -> UCode | 2 -> UFlag | _ -> UStr
let kind_name = function UNum -> "num" | UCode -> "code" | UFlag -> "flag" | UStr -> "str"
let commas s = String.split_on_char ',' s
let def_b toks = match toks with
  | name :: ver :: ents ->
    let es = List.map (fun t -> match commas t with
      | [k; kd; s; r; w] -> (zi k, { b_kind = kind_of (int_of_string kd); b_scale = zi s; b_ref = zi r; b_width = zi w })
      | _ -> failwith ("DEFB " ^ t)) ents in
    Hashtbl.replace fb name (zi ver, es)
  | _ -> failwith "DEFB"
let def_d toks = match toks with
  | name :: ents ->
    let es = List.map (fun t -> match String.split_on_char ':' t with
      | [k; sq] -> (zi k, List.map zi (List.filter (fun x -> x <> "") (commas sq)))
      | _ -> failwith ("DEFD " ^ t)) ents in
    Hashtbl.replace fd name es
  | _ -> failwith "DEFD"
let getb n = try Hashtbl.find fb n with Not_found -> failwith ("unknown B file " ^ n)
let getd n = try Hashtbl.find fd n with Not_found -> failwith ("unknown D file " ^ n)
let strip_csv n = if String.length n > 4 && String.sub n 0 4 = "csv=" then (true, String.sub n 4 (String.length n - 4)) else (false, n)
let show_ent (k, b) = Printf.sprintf "B:%d:%s:%d:%d:%d" (int_of_z k) (kind_name b.b_kind) (int_of_z b.b_scale) (int_of_z b.b_ref) (int_of_z b.b_width)
let show_seq l = String.concat "," (List.map (fun x -> string_of_int (int_of_z x)) l)
let show = function
  | RRc rc -> Printf.sprintf "rc=%d" (int_of_z rc)
  | RMerged -> "merged"
  | RB None -> "B:ABSENT"
  | RB (Some e) -> show_ent e
  | RD None -> "D:ABSENT"
  | RD (Some (k, sq)) -> Printf.sprintf "D:%d:%s" (int_of_z k) (show_seq sq)
  | RM None -> "M:ABSENT"
  | RM (Some d) -> Printf.sprintf "M:%d" (int_of_z d)
  | RVer (m, l) -> Printf.sprintf "V:%d:%d" (int_of_z m) (int_of_z l)
  | RCrash -> "CRASH"
(* a history: the operations since the last NEW are re-run from an empty object whenever output is due *)
let history toks =
  let out = ref [] in
  let dead = ref false in
  let ops_since_new = ref [] in
  let emitted = ref 0 in
  let run_all () =
    if not !dead then begin
      let (rs, _) = run !fx (empty_state hempty) (List.rev !ops_since_new) in
      List.iteri (fun i r -> if i >= !emitted then begin out := show r :: !out; if r = RCrash then dead := true end) rs;
      emitted := List.length rs
    end in
  List.iter (fun tok ->
    if not !dead then
    match commas tok with
    | ["NEW"] -> run_all (); ops_since_new := []; emitted := 0; if not !dead then out := "new" :: !out
    | ["LMB"; f] -> let (v, es) = getb f in ops_since_new := OLoadMB (Some v, es) :: !ops_since_new
    | ["CSVB"; f] -> let (_, es) = getb f in ops_since_new := OLoadMB (None, es) :: !ops_since_new
    | ["LLB"; f] -> let (v, es) = getb f in ops_since_new := OLoadLB (v, es) :: !ops_since_new
    | ["LMD"; f] | ["CSVD"; f] -> ops_since_new := OLoadMD (getd f) :: !ops_since_new
    | ["LLD"; f] -> ops_since_new := OLoadLD (getd f) :: !ops_since_new
    | ["MERGE"; mb; md; lb; ld] ->
      let a = { a_mb = (if mb = "-" then None else let (c, n) = strip_csv mb in let (v, es) = getb n in Some ((if c then None else Some v), es));
                a_md = (if md = "-" then None else let (_, n) = strip_csv md in Some (getd n));
                a_lb = (if lb = "-" then None else Some (getb lb));
                a_ld = (if ld = "-" then None else Some (getd ld)) } in
      ops_since_new := OMerge a :: !ops_since_new
    | ["FB"; d] -> ops_since_new := OFetchB (zi d) :: !ops_since_new
    | ["FD"; d] -> ops_since_new := OFetchD (zi d) :: !ops_since_new
    | "MD" :: sq -> ops_since_new := OMatchD (List.map zi sq) :: !ops_since_new
    | ["VER"] -> ops_since_new := OVer :: !ops_since_new
    | "USELIST" :: args ->
      run_all ();
      let rec split acc = function
        | [] -> (List.rev acc, 0)
        | a :: r -> if String.length a > 0 && a.[0] = '=' then (List.rev acc, int_of_string (String.sub a 1 (String.length a - 1))) else split (a :: acc) r in
      let (vs, req) = split [] args in
      let vz = List.map zi vs in
      (* keep the position of this token: it is emitted now, after everything run so far *)
      (match use_tables_list vz (z_of_int req) with
       | None -> out := "U:NONE" :: !out
       | Some i -> out := Printf.sprintf "U:%d:%s" (int_of_nat i) (List.nth vs (int_of_nat i) |> int_of_string |> string_of_int) :: !out)
    | _ -> failwith ("bad operation: " ^ tok)) toks;
  run_all ();
  print_string (String.concat " " (List.rev !out)); print_newline ()

let () = iter_lines (fun line ->
  match split_ws line with
  | "FLAGS" :: [c; m; o] -> fx := { fx_cache = (c = "1"); fx_merge = (m = "1"); fx_own = (o = "1") }
  | "DEFB" :: t -> def_b t
  | "DEFD" :: t -> def_d t
  | "H" :: toks -> history toks
  | [] -> ()
  | _ -> failwith ("bad line: " ^ line))
