(* c18_driver.ml — runs the extracted template-text model (Tmpl.v) on the C18 case protocol (see harness/c18.c).
   Protocol (stdin): TB/TD table lines as for the fm94 driver, "FORMAT legacy|fixed" selects the model of the text format
   (Tmpl.v: the code as it stands, Tmpl2.v: as corrected by proposed_fixes/C18_template_text.md), then
     T <ed> <n> <item>...   -> "T text=<hex> load=<0|1> copy=<0|1> cmpL=<rc|-> cmpC=<rc|-> | L <ed> <item>.. | C <ed> <item>.. | GO <desc>.."
     X <hex>                -> "X load=<0|1> | L <ed> <item>.."                                                                     *)
let tb : (z * bent) list ref = ref []
let td : (z * z list) list ref = ref []
let fuel = nat_of_int 400000
let fixed = ref false
let tables () = { tB = List.rev !tb; tD = List.rev !td }
let kind_of_int = function 0 -> UNum | 1 -> UCode | 2 -> UFlag | _ -> UStr
let text_of_string (s : string) : z list = List.init (String.length s) (fun i -> z_of_int (Char.code s.[i]))
let string_of_text (t : z list) : string = String.concat "" (List.map (fun c -> String.make 1 (Char.chr (int_of_z c land 255))) t)
let text_of_hex (h : string) : z list = List.init (String.length h / 2) (fun i -> z_of_int (int_of_string ("0x" ^ String.sub h (2 * i) 2)))
let hex_of_text (t : z list) : string = String.concat "" (List.map (fun c -> Printf.sprintf "%02x" (int_of_z c land 255)) t)
(* decimal integers of any size through the model's own digit functions *)
let z_of_dec (s : string) : z =
  if String.length s > 0 && s.[0] = '-' then
    (match digits_val Z0 (text_of_string (String.sub s 1 (String.length s - 1))) with Z0 -> Z0 | Zpos p -> Zneg p | Zneg p -> Zpos p)
  else digits_val Z0 (text_of_string s)
let dec_of_z (x : z) : string = string_of_text (print_Z x)
(* IEEE double bits <-> dyadic m*2^e in normal form *)
let dyadic_of_bits (h : string) : z * z =
  let u = Int64.of_string ("0x" ^ h) in
  let neg = Int64.compare u 0L < 0 in
  let ex = Int64.to_int (Int64.logand (Int64.shift_right_logical u 52) 0x7ffL) in
  let fr = Int64.to_int (Int64.logand u 0xfffffffffffffL) in
  if ex = 0x7ff then failwith "non-finite double in a case" else
  let (m, e) = if ex = 0 then (fr, -1074) else (fr lor (1 lsl 52), ex - 1075) in
  norm (z_of_int (if neg then - m else m)) (z_of_int e)
let bits_of_dyadic (m : z) (e : z) : string =
  let f = ldexp (float_of_int (int_of_z m)) (int_of_z e) in
  Printf.sprintf "%016Lx" (Int64.bits_of_float f)
let parse_value (t : string) : dvalue =
  let body = String.sub t 1 (String.length t - 1) in
  match t.[0] with
  | 'i' -> DInt32 (z_of_dec body)
  | 'l' -> DInt64 (z_of_dec body)
  | 'd' -> let (m, e) = dyadic_of_bits body in DFlt (m, e)
  | 's' -> DStr (text_of_hex body)
  | _ -> failwith ("value " ^ t)
let parse_item (t : string) : item =
  match String.index_opt t ':' with
  | None -> { i_desc = z_of_dec t; i_vals = [] }
  | Some i -> { i_desc = z_of_dec (String.sub t 0 i);
                i_vals = List.map parse_value (String.split_on_char ',' (String.sub t (i + 1) (String.length t - i - 1))) }
let show_value = function
  | DInt32 x -> "i" ^ dec_of_z x
  | DInt64 x -> "l" ^ dec_of_z x
  | DFlt (m, e) -> "d" ^ bits_of_dyadic m e
  | DStr s -> "s" ^ hex_of_text s
  | DNull -> "N"
let show_item (it : item) =
  dec_of_z it.i_desc ^ (match it.i_vals with [] -> "" | vs -> ":" ^ String.concat "," (List.map show_value vs))
let show_tmpl tag (r : template result) =
  match r with
  | Ok t -> Printf.sprintf " | %s %s%s" tag (dec_of_z t.t_ed) (String.concat "" (List.map (fun it -> " " ^ show_item it) t.t_items))
  | Err _ -> Printf.sprintf " | %s NULL" tag
let rec take n l = if n = 0 then [] else match l with [] -> failwith "take" | x :: t -> x :: take (n - 1) t
let handle line =
  match split_ws line with
  | [] -> ()
  | "TCLEAR" :: _ -> tb := []; td := []
  | "TB" :: d :: k :: s :: r :: w :: _ ->
    tb := (z_of_string d, { b_kind = kind_of_int (int_of_string k); b_scale = z_of_string s; b_ref = z_of_string r; b_width = z_of_string w }) :: !tb
  | "TD" :: d :: seq -> td := (z_of_string d, List.map z_of_string seq) :: !td
  | "FORMAT" :: f :: _ -> fixed := (f = "fixed")
  | "T" :: ed :: n :: rest ->
    let tt = tables () in
    let t = { t_ed = z_of_dec ed; t_items = List.map parse_item (take (int_of_string n) rest) } in
    let txt = if !fixed then save2_text t else save_text t in
    let l = if !fixed then load2_text fuel tt txt else load_text fuel tt txt in
    let c = copy fuel tt t in
    let cmp r = match r with Ok t' -> string_of_int (int_of_z (tcompare fuel tt t t')) | Err _ -> "-" in
    Printf.printf "T text=%s load=%d copy=%d cmpL=%s cmpC=%s%s%s | GO%s\n" (hex_of_text txt)
      (match l with Ok _ -> 1 | Err _ -> 0) (match c with Ok _ -> 1 | Err _ -> 0) (cmp l) (cmp c)
      (show_tmpl "L" l) (show_tmpl "C" c)
      (match gexpand fuel tt (List.map (fun it -> it.i_desc) t.t_items) with
       | Ok ds -> String.concat "" (List.map (fun d -> " " ^ dec_of_z d) ds) | Err _ -> " ERR")
  | "X" :: rest ->
    let txt = match rest with h :: _ -> text_of_hex h | [] -> [] in
    let l = if !fixed then load2_text fuel (tables ()) txt else load_text fuel (tables ()) txt in
    Printf.printf "X load=%d%s\n" (match l with Ok _ -> 1 | Err _ -> 0) (show_tmpl "L" l)
  | _ -> failwith ("bad line: " ^ line)
let () = iter_lines handle
