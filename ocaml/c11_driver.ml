(* c11_driver.ml — runs the extracted BitIO model on the C11 case protocol (see harness/c11.c) *)
let show_w (s : wst) = Printf.printf "%d %d %s %s\n" (List.length s.done_) (int_of_nat s.bitno) (hex_of_n s.maxd) (hex_of_bytes (wbytes s))
let do_w toks =
  match toks with
  | maxd :: ops ->
    let s = ref (Some (winit (n_of_int (int_of_string maxd)))) in
    List.iter (fun op ->
      match !s with None -> () | Some st ->
      let body = String.sub op 1 (String.length op - 1) in
      match op.[0] with
      | 'p' -> (match String.split_on_char ':' body with
                | [w; v] -> s := putbits st (n_of_hex v) (nat_of_int (int_of_string w))
                | _ -> failwith op)
      | 's' -> s := putstring st (bytes_of_hex body)
      | 'P' -> (match String.split_on_char ':' body with
                | [w; v] -> s := put_padstring st (bytes_of_hex v) (nat_of_int (int_of_string w))
                | _ -> failwith op)
      | _ -> failwith op) ops;
    (match !s with None -> print_string "ABORT\n" | Some st -> show_w st)
  | _ -> failwith "W"
let do_r toks =
  match toks with
  | data :: l :: c :: b :: ops ->
    let d = bytes_of_hex data and ll = nat_of_int (int_of_string l) in
    let s = ref { cur = nat_of_int (int_of_string c); rbit = nat_of_int (int_of_string b) } in
    let buf = Buffer.create 64 in
    let oob = ref false in
    List.iter (fun op ->
      if not !oob then begin
      let n = int_of_string (String.sub op 1 (String.length op - 1)) in
      match op.[0] with
      | 'g' -> (match getbits d ll !s (nat_of_int n) with
                | ROob -> oob := true
                | RRes (v, e, s1) -> s := s1;
                  Buffer.add_string buf (Printf.sprintf "%s,%d,%d,%d " (hex_of_n v) (int_of_z e) (int_of_nat s1.cur) (int_of_nat s1.rbit)))
      | 'k' -> let (e, s1) = skip_bits ll !s (nat_of_int n) in s := s1;
               Buffer.add_string buf (Printf.sprintf "%d,%d,%d " (int_of_z e) (int_of_nat s1.cur) (int_of_nat s1.rbit))
      | 't' -> (match getstring d ll !s (nat_of_int n) [] with
                | None -> oob := true
                | Some ((str, e), s1) -> s := s1;
                  Buffer.add_string buf (Printf.sprintf "%s,%d,%d,%d " (if int_of_z e < 0 then "E" else hex_of_bytes str) (int_of_z e) (int_of_nat s1.cur) (int_of_nat s1.rbit)))
      | _ -> failwith op end) ops;
    if !oob then print_string "OOB\n" else (print_string (String.trim (Buffer.contents buf)); print_newline ())
  | _ -> failwith "R"
let () = iter_lines (fun line ->
  match split_ws line with
  | "W" :: t -> do_w t
  | "R" :: t -> do_r t
  | [] -> ()
  | _ -> failwith ("bad line: " ^ line))
