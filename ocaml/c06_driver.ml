(* c06_driver.ml — runs the extracted Frame model on the C06 case protocol (see harness/c06.c).
   An input line "C <esc_bs> <maxlen>" selects the model configuration for the following cases (no output). *)
let zb (h : string) : z list = List.map (fun b -> z_of_int (int_of_n b)) (bytes_of_hex h)
let hexz (l : z list) : string =
  let b = Buffer.create (2 * List.length l + 2) in
  List.iter (fun x -> Buffer.add_string b (Printf.sprintf "%02x" ((int_of_z x) land 255))) l; Buffer.contents b
let hexor l = if l = [] then "-" else hexz l
let zi = z_of_int
let iz = int_of_z
let conf = ref cfg_current
let tokbytes t = if t = "n" then None else Some (zb (String.sub t 1 (String.length t - 1)))

let dump (r : rres) : string =
  let m = r.r_msg in let s = m.s1 in
  let rwh = if m.hdr = [] then "-" else (match oct2char m.hdr with Some b -> hexor b | None -> "?") in
  Printf.sprintf "rc=1 used=%d ed=%d lm=%d s1=%d:%d,%d,%d,%d,%d,%d,%d,%d,%d,%d,%d,%d,%d,%d,%d,%d x=%s s2=%d:%s s3=%d:%d,%d:%s s4=%d:%s h=%s rwh=%s"
    (iz r.r_used) (iz m.ed) (iz r.r_lm) (iz r.r_s1len)
    (iz s.master) (iz s.centre) (iz s.subcentre) (iz s.upd) (iz s.flag) (iz s.cat) (iz s.isub) (iz s.lsub) (iz s.mver) (iz s.lver)
    (iz s.year) (iz s.month) (iz s.day) (iz s.hour) (iz s.minute) (iz s.second)
    (hexor r.r_s1x) (iz r.r_s2len) (match m.s2 with Some d -> hexor d | None -> "-")
    (iz r.r_s3len) (iz m.nsub) (iz m.s3flag)
    (if m.descs = [] then "-" else String.concat "," (List.map (fun d -> string_of_int (iz d)) m.descs))
    (iz r.r_s4len) (hexor m.s4) (hexor m.hdr) rwh

let do_m toks =
  let a = Array.of_list toks in
  let p = ref 0 in
  let next () = let t = a.(!p) in incr p; t in
  let ni () = zi (int_of_string (next ())) in
  let e = ni () in
  let f = Array.init 16 (fun _ -> ni ()) in
  let s2 = tokbytes (next ()) in
  let ns = ni () in let fl3 = ni () in
  let nd = int_of_string (next ()) in
  let ds = List.init nd (fun _ -> ni ()) in
  let t4 = next () in
  let s4 = if t4.[0] = 'z' then List.init (int_of_string (String.sub t4 1 (String.length t4 - 1))) (fun _ -> Z0)
           else zb (String.sub t4 1 (String.length t4 - 1)) in
  let rbits = int_of_string (next ()) in
  let rval = int_of_string (next ()) in
  let hd = (match tokbytes (next ()) with None -> [] | Some b -> b) in
  let cur = if rbits = 0 then 0 else ((rval land ((1 lsl rbits) - 1)) lsl (8 - rbits)) land 255 in
  let m = { ed = e;
            s1 = { master = f.(0); centre = f.(1); subcentre = f.(2); upd = f.(3); flag = f.(4); cat = f.(5); isub = f.(6);
                   lsub = f.(7); mver = f.(8); lver = f.(9); year = f.(10); month = f.(11); day = f.(12); hour = f.(13);
                   minute = f.(14); second = f.(15) };
            s2 = s2; nsub = ns; s3flag = fl3; descs = ds; s4 = s4; s4bit = zi rbits; s4cur = zi cur; hdr = hd } in
  match wr !conf m with
  | WRefused -> print_string "W refused\n"
  | WUndef -> print_string "W undef\n"
  | WOk b ->
    Printf.printf "W lm=%d sl=%d,%d,%d,%d bytes=%s | R " (iz (lenmsg m)) (iz (s1len m.ed)) (iz (s2len m)) (iz (s3len m)) (iz (s4len m)) (hexor b);
    (match rd !conf b with
     | Some (r, rest) -> print_string (dump r); if rest <> [] then print_string " rest"
     | None -> print_string "rc=-1 used=0");
    print_newline ()

let do_s toks =
  match toks with
  | _ :: hx :: _ ->
    let b = if hx = "-" then [] else zb hx in
    let rs = rd_all !conf b in
    Printf.printf "S n=%d" (List.length rs);
    List.iter (fun r -> print_string " ; "; print_string (dump r)) rs;
    print_newline ()
  | _ -> failwith "S"

let do_e toks =
  match toks with
  | k :: rest ->
    let b = (match rest with hx :: _ when hx <> "-" -> zb hx | _ -> []) in
    let show o = (match o with Some l -> Printf.printf "E %s %d\n" (hexor l) (List.length l) | None -> print_string "E ?\n") in
    if k = "s" then show (Some (schar2oct !conf b))
    else if k = "r" then show (let e = schar2oct !conf b in if e = [] then Some [] else oct2char e)
    else show (oct2char b)
  | _ -> failwith "E"

let () = iter_lines (fun line ->
  match split_ws line with
  | "M" :: t -> do_m t
  | "S" :: t -> do_s t
  | "E" :: t -> do_e t
  | "C" :: e :: ml :: _ -> conf := { esc_bs = (e = "1"); maxlen = zi (int_of_string ml) }
  | [] -> ()
  | _ -> failwith ("bad line: " ^ line))
