(* c19_driver.ml — runs the extracted IeeeSoft model on the C19 case protocol (see lib/c19.py).
     e <32|64> <fixsub> <c_use> <est|x> <image hex>   -> "<result hex>" | "ERR"      (x: exact floor(log2) as the estimate)
     d <32|64> <c_use> <bits hex>                      -> "<image hex of the decoded value>" | "nan" | "ERR"
     U <fixsel> <checked> <sz> <sg> <sl> <dl> <m2> <use> -> "<checked'> <C_use_ieee754>"
     K <fixsel> <sz> <sg> <sl> <dl> <m2>               -> "<check_C_ieee754_compliance>"
     COL <w> <pattern hex>...                          -> octets of the compressed column (IeeeCol.ieee_col_enc)
     COLR <w> <n> <a> <b> <octets hex>                 -> patterns of subsets a..b (IeeeCol.ieee_col_dec_range)           *)
let zhex (s : string) : z = match n_of_hex s with N0 -> Z0 | Npos p -> Zpos p
let hex_of_z (x : z) : string = match x with Z0 -> "0" | Zpos p -> hex_of_n (Npos p) | Zneg _ -> "NEG"
let fmt_of w = if w = "32" then fmt32 else fmt64
let b s = s <> "0"
let () = iter_lines (fun line ->
  match split_ws line with
  | ["e"; w; fixsub; cuse; est; img] ->
    let r = if est = "x" then run_encode_exact (fmt_of w) (b fixsub) (zhex img)
            else run_encode (fmt_of w) (b fixsub) (b cuse) (z_of_string est) (zhex img) in
    print_endline (match r with Some v -> hex_of_z v | None -> "ERR")
  | ["d"; w; cuse; bits] ->
    (match run_decode (fmt_of w) (b cuse) (zhex bits) with
     | None -> print_endline "ERR"
     | Some FNan -> print_endline "nan"
     | Some v -> print_endline (hex_of_z (spec_encode (fmt_of w) v)))
  | ["U"; fixsel; checked; sz; sg; sl; dl; m2; use] ->
    let (c, u) = use_C_ieee754 (b fixsel) (z_of_string checked) (b sz) (b sg) (b sl) (b dl) (b m2) (b use) in
    Printf.printf "%d %d\n" (int_of_z c) (if u then 1 else 0)
  | ["K"; fixsel; sz; sg; sl; dl; m2] ->
    print_endline (if check_compliance (b fixsel) (b sz) (b sg) (b sl) (b dl) (b m2) then "1" else "0")
  | "COL" :: w :: vals ->        (* compressed 2 09 YYY column: Section 4 octets (zero padded) of IeeeCol.ieee_col_enc *)
    let bits = ieee_col_enc (nat_of_int (int_of_string w)) (List.map n_of_hex vals) in
    let pad = (8 - (List.length bits) mod 8) mod 8 in
    print_endline (hex_of_bytes (bits_to_bytes (bits @ List.init pad (fun _ -> false))))
  | "COLR" :: w :: n :: a :: bb :: [octets] ->   (* range decoder on Section 4 octets: the patterns of subsets a..b *)
    (match ieee_col_dec_range (nat_of_int (int_of_string w)) (nat_of_int (int_of_string n)) (nat_of_int (int_of_string a)) (nat_of_int (int_of_string bb)) (bytes_to_bits (bytes_of_hex octets)) with
     | None -> print_endline "ERR"
     | Some (vs, _) -> print_endline (String.concat " " (List.map hex_of_n vs)))
  | [] -> print_newline ()
  | _ -> failwith ("bad line: " ^ line))
