(* c13_driver.ml — runs the extracted Dump model on the C13 case protocol (see lib/c13.py).
   PS <n> <s>                     -> "PS <hex text> <m> <e> <requant with ref 0>"   print_scaled, parse_decimal of it
   PD <hex>                       -> "PD <m> <e>" | "PD none"
   TZ <hex>                       -> "TZ <hex>"                                    trim_zeros
   PB <w> <v>                     -> "PB <hex> <is_binary 0|1> <binary_to_int>"
   DUMP <k> { <hdr> <nsub> { <nitems> <item>.. } }    -> "DUMP <hex text>"
        hdr: 17 comma separated ints (edition, 15 section 1 values, data_flag) then header string hex or -
        item: desc/skipped/ignored/sdesc/meta hex|-/af bits:nbits|-/val     val: - | M | n<N>:<s> | i<z> | b<w>:<z> | s<hex>
   LOAD <fm><fq> <h0> <k> { <nsub> { <nnodes> <node>.. } } <text hex>
        node: desc/skipped/vt    vt: n | s<w> | i | b | d
        -> "LOAD <ndatasets> ; H <17 ints> <hs hex|-> ; S <val>.. / <unconsumed nodes> ; S .. ; H ..."
           val: desc:af|-:( - | M | i<z> | d<m>^<e> | s<hex> | U | C )
*)
let zs (s : string) : z =
  if String.length s > 3 && s.[0] = '-' && s.[1] = '0' && s.[2] = 'x' then
    (match n_of_hex (String.sub s 3 (String.length s - 3)) with N0 -> Z0 | Npos p -> Zneg p)
  else z_of_string s
let string_of_z (x : z) : string =
  match x with
  | Z0 -> "0"
  | Zpos p -> let h = hex_of_n (Npos p) in if String.length h <= 15 then string_of_int (int_of_string ("0x" ^ h)) else "0x" ^ h
  | Zneg p -> let h = hex_of_n (Npos p) in if String.length h <= 15 then string_of_int (- (int_of_string ("0x" ^ h))) else "-0x" ^ h
let bz (h : string) : z list = if h = "-" then [] else List.map (fun b -> match b with N0 -> Z0 | Npos p -> Zpos p) (bytes_of_hex h)
let hz (l : z list) : string = String.concat "" (List.map (fun b -> Printf.sprintf "%02x" ((int_of_z b) land 255)) l)
let hz' l = if l = [] then "-" else hz l

let parse_hdr (vals : string) (hs : string) : header =
  { h_vals = List.map zs (String.split_on_char ',' vals); h_string = (if hs = "-" then None else Some (bz (if hs = "e" then "" else hs))) }

let parse_item (tok : string) : ditem =
  match String.split_on_char '/' tok with
  | [d; sk; ig; sd; meta; af; v] ->
    let value =
      if v = "-" then DV_none else if v = "M" then DV_missing else
      let body = String.sub v 1 (String.length v - 1) in
      match v.[0] with
      | 'n' -> (match String.split_on_char ':' body with [n; s] -> DV_num (zs n, zs s) | _ -> failwith tok)
      | 'i' -> DV_int (zs body)
      | 'b' -> (match String.split_on_char ':' body with [w; z] -> DV_flag (zs w, zs z) | _ -> failwith tok)
      | 's' -> DV_str (bz (if body = "" then "-" else body))
      | _ -> failwith tok in
    { di_desc = zs d; di_skipped = (sk = "1"); di_ignored = (ig = "1"); di_sdesc = zs sd;
      di_meta = (if meta = "-" then None else Some (bz meta));
      di_af = (if af = "-" then None else match String.split_on_char ':' af with [b; n] -> Some (zs b, zs n) | _ -> failwith tok);
      di_val = value }
  | _ -> failwith ("item " ^ tok)

let parse_node (tok : string) : lnode =
  match String.split_on_char '/' tok with
  | [d; sk; vt] ->
    let t = match vt.[0] with
      | 'n' -> VT_NONE
      | 's' -> VT_STR (nat_of_int (int_of_string (String.sub vt 1 (String.length vt - 1))))
      | 'i' -> VT_INT false
      | 'b' -> VT_INT true
      | 'd' -> VT_F64
      | _ -> failwith tok in
    { ln_desc = zs d; ln_skipped = (sk = "1"); ln_vt = t }
  | _ -> failwith ("node " ^ tok)

let show_tv (v : tokval) : string =
  match v with
  | TV_none -> "-" | TV_missing -> "M" | TV_int z -> "i" ^ string_of_z z
  | TV_dec (m, e) -> "d" ^ string_of_z m ^ "^" ^ string_of_z e
  | TV_str s -> "s" ^ hz s | TV_unmodelled -> "U" | TV_crash -> "C"
let show_lv (d, lv) = Printf.sprintf "%s:%s:%s" (string_of_z d) (match lv.lv_af with None -> "-" | Some a -> string_of_z a) (show_tv lv.lv_val)
let show_hdr (h : header) = String.concat "," (List.map string_of_z h.h_vals) ^ " " ^ (match h.h_string with None -> "-" | Some [] -> "e" | Some s -> hz s)

let rec take n l = if n = 0 then ([], l) else match l with x :: t -> let (a, b) = take (n - 1) t in (x :: a, b) | [] -> failwith "short line"

let do_dump toks =
  let toks = ref toks in
  let next () = match !toks with x :: t -> toks := t; x | [] -> failwith "short DUMP" in
  let k = int_of_string (next ()) in
  let buf = Buffer.create 1024 in
  for _ = 1 to k do
    let hv = next () in let hs = next () in
    let h = parse_hdr hv hs in
    let nsub = int_of_string (next ()) in
    let subs = List.init nsub (fun _ -> let n = int_of_string (next ()) in List.init n (fun _ -> parse_item (next ()))) in
    List.iter (fun l -> Buffer.add_string buf (hz l)) (print_dataset h subs)
  done;
  Printf.printf "DUMP %s\n" (Buffer.contents buf)

let do_load toks =
  let toks = ref toks in
  let next () = match !toks with x :: t -> toks := t; x | [] -> failwith "short LOAD" in
  let var = next () in
  let fm = var.[0] = '1' and fq = var.[1] = '1' in
  let hv = next () in let hs = next () in
  let h0 = parse_hdr hv hs in
  let k = int_of_string (next ()) in
  let nodes = List.init k (fun _ -> let nsub = int_of_string (next ()) in
     List.init nsub (fun _ -> let n = int_of_string (next ()) in List.init n (fun _ -> parse_node (next ())))) in
  let text = bz (next ()) in
  let lines = file_lines text in
  let res = load_file fm fq h0 nodes (nat_of_int (k + 2)) lines in
  let buf = Buffer.create 1024 in
  Buffer.add_string buf (Printf.sprintf "LOAD %d" (List.length res));
  List.iter (fun (h, subs) ->
    Buffer.add_string buf (" ; H " ^ show_hdr h);
    List.iter (fun (vals, rest) ->
      Buffer.add_string buf " ; S";
      List.iter (fun v -> Buffer.add_string buf (" " ^ show_lv v)) vals;
      Buffer.add_string buf (Printf.sprintf " / %d" (List.length rest))) subs) res;
  Stdlib.print_string (Buffer.contents buf); print_newline ()

let () = iter_lines (fun line ->
  try
  match split_ws line with
  | ["PS"; n; s] ->
    let t = print_scaled (zs n) (zs s) in
    (match parse_decimal t with
     | Some (m, e) -> Printf.printf "PS %s %s %s %s\n" (hz t) (string_of_z m) (string_of_z e) (string_of_z (requant (m, e) (zs s) Z0))
     | None -> Printf.printf "PS %s none\n" (hz t))
  | ["PD"; h] -> (match parse_decimal (bz h) with Some (m, e) -> Printf.printf "PD %s %s\n" (string_of_z m) (string_of_z e) | None -> Stdlib.print_string "PD none\n")
  | ["TZ"; h] -> Printf.printf "TZ %s\n" (hz' (trim_zeros (bz h)))
  | ["PB"; w; v] ->
    let t = print_binary (zs w) (zs v) in
    Printf.printf "PB %s %d %s\n" (hz' t) (if str_is_binary t then 1 else 0) (string_of_z (binary_to_int t))
  | "DUMP" :: t -> do_dump t
  | "LOAD" :: t -> do_load t
  | [] -> print_newline ()
  | _ -> Stdlib.print_string "?\n"
  with Failure m -> Printf.printf "FAIL %s\n" m | Stack_overflow -> Stdlib.print_string "FAIL stack\n")
