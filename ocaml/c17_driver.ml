(* c17_driver.ml — runs the extracted Search model on the C17 case protocol (see harness/c17.c and lib/c17.py).
   line:  <v0v1v2v3> S <n> <elem>... (D <desc> | K <nk> <key>...)
     v0..v3 = variant bits fix_between fix_misskey fix_qualeps fix_qualany
     elem = desc:type:scale:cls:val   type i l f d s n u;  val: int | [-]hexnum/hexden | M | hex bytes | -
     key  = as in harness/c17.c with float bit patterns replaced by the exact rational [-]hexnum/hexden (or M)
   output: "Q <quals per element> | R <result for start -2 .. count+2>"  *)
let z_of_shex (s : string) : z =
  let neg = String.length s > 0 && s.[0] = '-' in
  let body = if neg then String.sub s 1 (String.length s - 1) else s in
  match n_of_hex body with N0 -> Z0 | Npos p -> if neg then Zneg p else Zpos p
let q_of_string (s : string) : q =
  match String.split_on_char '/' s with
  | [a; b] -> (match n_of_hex b with Npos p -> { qnum = z_of_shex a; qden = p } | N0 -> failwith "den 0")
  | _ -> failwith ("rational " ^ s)
let oq_of_string s = if s = "M" then None else Some (q_of_string s)
let bytes_z (h : string) : z list = if h = "-" then [] else List.map (fun b -> match b with N0 -> Z0 | Npos p -> Zpos p) (bytes_of_hex h)
let zi s = z_of_int (int_of_string s)

let parse_elem (tok : string) : elem =
  match String.split_on_char ':' tok with
  | [d; t; sc; cls; v] ->
    let value = match t with
      | "i" -> Some (VInt (TI32, zi v))
      | "l" -> Some (VInt (TI64, zi v))
      | "f" -> Some (VFlt (TF32, oq_of_string v))
      | "d" -> Some (VFlt (TF64, oq_of_string v))
      | "s" -> Some (VStr (bytes_z v))
      | "n" -> None
      | _ -> Some VUndef in
    { e_desc = zi d; e_val = value; e_scale = zi sc; e_cls = (cls = "1") }
  | _ -> failwith ("elem " ^ tok)

let parse_key (vr : variant) (tok : string) : key =
  let kind, rest =
    if tok.[0] = 'Q' || tok.[0] = 'C' then String.sub tok 0 2, String.sub tok 2 (String.length tok - 2)
    else String.sub tok 0 1, String.sub tok 1 (String.length tok - 1) in
  let d, vals = match String.index_opt rest '=' with
    | Some i -> String.sub rest 0 i, String.split_on_char ',' (String.sub rest (i + 1) (String.length rest - i - 1))
    | None -> rest, [] in
  let d = zi d in
  match kind with
  | "E" -> set_key_int32 vr d []
  | "I" -> set_key_int32 vr d (List.map zi vals)
  | "F" -> set_key_flt32 d (List.map oq_of_string vals)
  | "W" -> set_key_values d (List.map (fun v -> VFlt (TF64, oq_of_string v)) vals)
  | "S" -> set_key_string d (List.map bytes_z vals)
  | "QI" -> set_key_qualifier_int32 vr d (zi (List.hd vals))
  | "QF" -> set_key_qualifier_flt32 d (oq_of_string (List.hd vals))
  | "QW" -> set_key_qualifier d (Some (VFlt (TF64, oq_of_string (List.hd vals))))
  | "QS" -> set_key_qualifier d (Some (VStr (bytes_z (List.hd vals))))
  | "QN" -> set_key_qualifier d None
  | "CM" -> set_key_callback d cb_missing
  | "CN" -> set_key_callback d cb_notmissing
  | "CQ" -> set_key_meta_callback (cb_qual d (zi (List.hd vals)))
  | _ -> failwith ("key " ^ tok)

let show_result r = match r with
  | Found z -> string_of_int (int_of_z z) | Crash -> "CRASH" | NoFuel -> "NOFUEL" | NotModelled -> "NM"

let rec take n l = if n <= 0 then [] else match l with [] -> [] | x :: t -> x :: take (n - 1) t
let rec drop n l = if n <= 0 then l else match l with [] -> [] | _ :: t -> drop (n - 1) t

let () = iter_lines (fun line ->
  match split_ws line with
  | vbits :: "S" :: n :: rest ->
    let b i = vbits.[i] = '1' in
    let vr = { fix_between = b 0; fix_misskey = b 1; fix_qualeps = b 2; fix_qualany = b 3 } in
    let n = int_of_string n in
    let es = List.map parse_elem (take n rest) in
    let q = drop n rest in
    let buf = Buffer.create 256 in
    Buffer.add_string buf "Q";
    List.iter (fun ql ->
      if ql = [] then Buffer.add_string buf " -"
      else Buffer.add_string buf (" " ^ String.concat "," (List.map (fun e -> string_of_int (int_of_nat e.q_pos)) ql)))
      (expand_qualifiers es);
    Buffer.add_string buf " | R";
    (match q with
     | "D" :: d :: _ ->
       for s = -2 to n + 2 do Buffer.add_string buf (" " ^ string_of_int (int_of_z (find_descriptor es (zi d) (z_of_int s)))) done
     | "K" :: nk :: ks ->
       let keys = List.map (parse_key vr) (take (int_of_string nk) ks) in
       let crashed = ref false in
       for s = -2 to n + 2 do
         if not !crashed then begin
           let r = find_values vr es keys (z_of_int s) in
           Buffer.add_string buf (" " ^ show_result r);
           if r = Crash then crashed := true          (* the library dies at the first crashing call *)
         end
       done
     | _ -> Buffer.add_string buf " noquery");
    print_string (Buffer.contents buf); print_newline ()
  | [] -> ()
  | _ -> failwith ("bad line: " ^ line))
