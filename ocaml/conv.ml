(* conv.ml — conversions between OCaml values and the extracted positive/N/Z/nat.
   Textually included after `open <Model>`; relies only on the constructors XI XO XH N0 Npos Z0 Zpos Zneg O S. *)
let rec pos_of_bits (bits : bool list) : positive =  (* bits LSB first, last must be true *)
  match bits with
  | [] -> failwith "pos_of_bits"
  | [true] -> XH
  | b :: t -> if b then XI (pos_of_bits t) else XO (pos_of_bits t)
let rec bits_of_pos p = match p with XH -> [true] | XO q -> false :: bits_of_pos q | XI q -> true :: bits_of_pos q
(* big naturals as hex strings *)
let n_of_hex (h : string) : n =
  let bits = ref [] in
  String.iter (fun c ->
    let v = if c >= '0' && c <= '9' then Char.code c - 48
            else if c >= 'a' && c <= 'f' then Char.code c - 87
            else if c >= 'A' && c <= 'F' then Char.code c - 55 else failwith ("hex " ^ h) in
    bits := (v land 1 = 1) :: (v land 2 = 2) :: (v land 4 = 4) :: (v land 8 = 8) :: !bits) h;
  (* !bits is LSB first *)
  let rec strip l = match l with [] -> [] | false :: t -> strip t | _ -> l in
  let l = List.rev (strip (List.rev !bits)) in
  if l = [] then N0 else Npos (pos_of_bits l)
let hex_of_n (x : n) : string =
  match x with
  | N0 -> "0"
  | Npos p ->
    let bits = bits_of_pos p in
    let rec nib l = match l with
      | [] -> []
      | a :: b :: c :: d :: t -> ((if a then 1 else 0) + (if b then 2 else 0) + (if c then 4 else 0) + (if d then 8 else 0)) :: nib t
      | l -> nib (l @ [false]) in
    let ns = List.rev (nib bits) in
    let rec strip l = match l with 0 :: (_ :: _ as t) -> strip t | _ -> l in
    String.concat "" (List.map (fun v -> String.make 1 "0123456789abcdef".[v]) (strip ns))
let n_of_int (i : int) : n = if i < 0 then failwith "n_of_int" else n_of_hex (Printf.sprintf "%x" i)
let int_of_n (x : n) : int = int_of_string ("0x" ^ hex_of_n x)
let z_of_int (i : int) : z = if i = 0 then Z0 else if i > 0 then (match n_of_int i with Npos p -> Zpos p | N0 -> Z0)
  else (match n_of_int (-i) with Npos p -> Zneg p | N0 -> Z0)
let int_of_z (x : z) : int = match x with Z0 -> 0 | Zpos p -> int_of_n (Npos p) | Zneg p -> - (int_of_n (Npos p))
let z_of_string (s : string) : z =   (* decimal, possibly negative, small enough for int; or 0x hex *)
  if String.length s > 0 && s.[0] = '-' then z_of_int (int_of_string s) else
  if String.length s > 2 && s.[0] = '0' && s.[1] = 'x' then (match n_of_hex (String.sub s 2 (String.length s - 2)) with N0 -> Z0 | Npos p -> Zpos p)
  else z_of_int (int_of_string s)
let rec nat_of_int (i : int) : nat = if i <= 0 then O else S (nat_of_int (i - 1))
let rec int_of_nat (x : nat) : int = match x with O -> 0 | S k -> 1 + int_of_nat k
let bytes_of_hex (h : string) : n list =
  let l = String.length h / 2 in
  List.init l (fun i -> n_of_int (int_of_string ("0x" ^ String.sub h (2 * i) 2)))
let hex_of_bytes (l : n list) : string = String.concat "" (List.map (fun b -> Printf.sprintf "%02x" (int_of_n b)) l)
let split_ws (s : string) : string list = List.filter (fun x -> x <> "") (String.split_on_char ' ' (String.trim s))
let iter_lines (f : string -> unit) =
  try while true do f (input_line stdin) done with End_of_file -> ()
